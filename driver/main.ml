(* Generic driver around the extracted model.
   Input: one case per line, whitespace-separated hexadecimal numbers.
   Output: one line per case: the hexadecimal numbers returned by Model.dispatch.
   All case decoding is done in Gallina (coq/Extract/Dispatch.v); this file only converts
   between text and the extracted binary naturals [Model.n]. *)
open Model

let dbl = function N0 -> N0 | Npos p -> Npos (XO p)
let sdbl = function N0 -> Npos XH | Npos p -> Npos (XI p)

let hexval c =
  match c with
  | '0' .. '9' -> Char.code c - 48
  | 'a' .. 'f' -> Char.code c - 87
  | 'A' .. 'F' -> Char.code c - 55
  | _ -> failwith (Printf.sprintf "bad hex digit %c" c)

let n_of_hex (s : string) : n =
  let acc = ref N0 in
  String.iter
    (fun c ->
      let v = hexval c in
      List.iter (fun b -> acc := if v land b <> 0 then sdbl !acc else dbl !acc) [ 8; 4; 2; 1 ])
    s;
  !acc

let hex_of_n (x : n) : string =
  match x with
  | N0 -> "0"
  | Npos p ->
      (* bits, least significant first *)
      let rec bits p acc = match p with XH -> true :: acc | XO q -> bits q (false :: acc) | XI q -> bits q (true :: acc) in
      let msb_first = bits p [] in
      (* msb_first was built by consing lower bits later => it is msb first *)
      let l = List.length msb_first in
      let pad = (4 - (l mod 4)) mod 4 in
      let padded = List.init pad (fun _ -> false) @ msb_first in
      let buf = Buffer.create 16 in
      let rec go = function
        | a :: b :: c :: d :: rest ->
            let v = (if a then 8 else 0) + (if b then 4 else 0) + (if c then 2 else 0) + if d then 1 else 0 in
            Buffer.add_char buf "0123456789abcdef".[v];
            go rest
        | [] -> ()
        | _ -> assert false
      in
      go padded;
      Buffer.contents buf

let split_ws s = List.filter (fun t -> t <> "") (String.split_on_char ' ' s)

let () =
  let ic = if Array.length Sys.argv > 1 then open_in Sys.argv.(1) else stdin in
  (try
     while true do
       let line = input_line ic in
       let toks = List.rev (List.rev_map n_of_hex (split_ws line)) in
       let out = dispatch toks in
       print_string (String.concat " " (List.rev (List.rev_map hex_of_n out)));
       print_newline ()
     done
   with End_of_file -> ());
  Stdlib.flush stdout
