// A checksum-valid log record whose InsertIndex action names a chunk beyond the index table.
use parity_db::{Db, Options};
use std::io::Write;
fn crc(b: &[u8]) -> u32 { let mut h = crc32fast::Hasher::new(); h.update(b); h.finalize() }
fn copy_dir(a: &std::path::Path, b: &std::path::Path) {
	std::fs::create_dir_all(b).unwrap();
	for e in std::fs::read_dir(a).unwrap() { let e = e.unwrap(); if e.file_name() != "lock" { std::fs::copy(e.path(), b.join(e.file_name())).unwrap(); } }
}
#[test]
fn crafted_chunk_index() {
	let dir = tempfile::tempdir().unwrap();
	let p = dir.path().join("db");
	let mut o = Options::with_columns(&p, 1);
	o.with_background_thread = false; o.always_flush = true;
	let img = dir.path().join("img");
	{
		let db = Db::open_or_create(&o).unwrap();
		db.commit(vec![(0u8, b"key1".to_vec(), Some(b"value1".to_vec()))]).unwrap();
		db.process_commits().unwrap();
		db.flush_logs().unwrap();
		copy_dir(&p, &img);
	}
	// find the log with the record and patch the chunk index of the first InsertIndex action
	let mut patched = false;
	for e in std::fs::read_dir(&img).unwrap() {
		let e = e.unwrap(); let name = e.file_name().into_string().unwrap();
		if !name.starts_with("log") { continue }
		let mut b = std::fs::read(e.path()).unwrap();
		if b.len() < 10 || b[0] != 1 { continue }
		// scan actions
		let mut q = 9usize;
		let mut idx_pos = None;
		loop {
			let op = b[q]; q += 1;
			match op {
				2 => { if idx_pos.is_none() { idx_pos = Some(q + 2); } q += 10; let m = u64::from_le_bytes(b[q..q+8].try_into().unwrap()); q += 8 + m.count_ones() as usize * 8; },
				3 => { let index = u64::from_le_bytes(b[q+2..q+10].try_into().unwrap()); q += 10;
					if index == 0 { q += 16 } else { let hd = u16::from_le_bytes([b[q], b[q+1]]); q += 2; if hd == 0xffff { q += 8 } else { q += (hd & 0x7fff) as usize } } },
				4 => break,
				_ => panic!("unexpected action {op} at {q}"),
			}
		}
		let ip = idx_pos.expect("no InsertIndex action");
		// 16-bit index: total_chunks = 65536, total_entries = 64 * 65536. Name a chunk in between, far beyond the file.
		let bad: u64 = 65536 * 40;
		b[ip..ip+8].copy_from_slice(&bad.to_le_bytes());
		let c = crc(&b[..q]);
		b[q..q+4].copy_from_slice(&c.to_le_bytes());
		std::fs::File::create(e.path()).unwrap().write_all(&b).unwrap();
		patched = true;
	}
	assert!(patched);
	let mut o2 = Options::with_columns(&img, 1);
	o2.with_background_thread = false;
	let r = std::panic::catch_unwind(|| Db::open(&o2).map(|db| db.get(0, b"key1").unwrap()));
	match r { Ok(Ok(v)) => assert!(v.is_none(), "record applied?"), Ok(Err(e)) => panic!("open failed: {e:?}"), Err(_) => panic!("open panicked") }
}
