#![cfg(feature = "instrumentation")]
use parity_db::{set_number_of_allowed_io_operations, Db, Options};

fn options(path: &std::path::Path) -> Options {
	let mut o = Options::with_columns(path, 1);
	o.with_background_thread = false;
	o.always_flush = true;
	o
}
fn put(db: &Db, k: &[u8], v: &[u8]) {
	db.commit(vec![(0u8, k.to_vec(), Some(v.to_vec()))]).unwrap();
	db.process_commits().unwrap();
	db.flush_logs().unwrap();
}

/// the cleanup of two enacted logs fails at file operation `budget`; the fault goes away, work goes on; then a crash
fn run(budget: usize) -> bool {
	let dir = tempfile::tempdir().unwrap();
	let o = options(dir.path());
	set_number_of_allowed_io_operations(usize::MAX);
	let failed;
	{
		let db = Db::open_or_create(&o).unwrap();
		put(&db, b"a", b"1");
		db.enact_logs().unwrap();
		put(&db, b"a", b"2");
		db.enact_logs().unwrap();
		// two enacted logs wait for cleanup; the cleanup fails somewhere
		set_number_of_allowed_io_operations(budget);
		failed = db.clean_logs().is_err();
		set_number_of_allowed_io_operations(usize::MAX);
		// the fault is gone: the database is used on
		put(&db, b"a", b"3");
		db.enact_logs().unwrap();
		db.clean_logs().unwrap();
		put(&db, b"b", b"4");
		// a crash: the handle is leaked, the directory is what it is
		let copy = tempfile::tempdir().unwrap();
		for e in std::fs::read_dir(dir.path()).unwrap().flatten() {
			if e.file_name() != "lock" {
				std::fs::copy(e.path(), copy.path().join(e.file_name())).unwrap();
			}
		}
		let db2 = Db::open(&options(copy.path())).unwrap();
		assert_eq!(db2.get(0, b"a").unwrap(), Some(b"3".to_vec()), "budget {budget}: an enacted value was replaced by an older one");
		assert_eq!(db2.get(0, b"b").unwrap(), Some(b"4".to_vec()), "budget {budget}: a synced commit was lost");
	}
	failed
}

#[test]
fn failed_log_cleanup_does_not_strand_older_logs() {
	let mut failures = 0;
	for budget in 0..40 {
		if run(budget) {
			failures += 1;
		}
	}
	assert!(failures > 0, "the cleanup never failed");
}
