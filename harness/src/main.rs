//! Correspondence harness: drives the real parity-db code in /repo on generated cases and
//! writes (a) the cases in the token format the extracted Coq model reads and (b) the
//! implementation's observations in the format the model prints.
mod prng;
mod props;
mod util;

fn main() {
	let args: Vec<String> = std::env::args().collect();
	if args.len() < 2 {
		eprintln!("usage: verif-harness <property> <seed> <count> <outdir> [extra...]");
		std::process::exit(2);
	}
	let code = match args[1].as_str() {
		"c19" => props::c19::main(&args[2..]),
		other => {
			eprintln!("unknown subcommand {other}");
			2
		},
	};
	std::process::exit(code);
}
