//! Correspondence harness: drives the real parity-db code in /repo on generated cases and
//! writes (a) the cases in the token format the extracted Coq model reads and (b) the
//! implementation's observations in the format the model prints.
mod prng;
mod interpose;
mod props;
mod rawdump;
mod util;

fn main() {
	// panics of the implementation are caught and reported per case; keep stderr quiet
	if std::env::var("VERIF_PANIC_TRACE").is_err() {
		std::panic::set_hook(Box::new(|_| {}));
	}
	let args: Vec<String> = std::env::args().collect();
	if args.len() < 2 {
		eprintln!("usage: verif-harness <property> <seed> <count> <outdir> [extra...]");
		std::process::exit(2);
	}
	let code = match args[1].as_str() {
		"c19" => props::c19::main(&args[2..]),
		"c17" => props::c17::main(&args[2..]),
		"c02" | "c12" | "c13" | "c16" => props::crash::main(&args[2..], args[1].as_str()),
		"c04t" => props::c04t::main(&args[2..]),
		"c10" => props::c10::main(&args[2..]),
		"c14" => props::c14::main(&args[2..]),
		"c14a" => props::c14a::main(&args[2..]),
		"c04m" => props::c04m::main(&args[2..]),
		"c15" => props::c15::main(&args[2..]),
		"c15child" => props::c15::child_main(&args[2..]),
		"c05" => props::c05::main(&args[2..]),
		"c18" => props::c18::main(&args[2..]),
		"c18child" => props::c18::child_main(&args[2..]),
		"c06" => props::c06::main(&args[2..]),
		"c20" => props::c20::main(&args[2..]),
		"c09e" => props::c09e::main(&args[2..]),
		"c09s" => props::c09s::main(&args[2..]),
		"c10r" => props::c10r::main(&args[2..]),
		"c01" | "c03" | "c04" | "c07" | "c08" | "c09" | "c09rc" | "hist" => props::hist::main(&args[2..], args[1].as_str()),
		other => {
			eprintln!("unknown subcommand {other}");
			2
		},
	};
	std::process::exit(code);
}
