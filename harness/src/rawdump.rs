//! The harness's own reader of parity-db's files (no library code involved): value-table slots,
//! chains, headers, free lists, btree nodes. Slot sizes come from work/consts.json (regenerated
//! from column.rs by tools/gen_consts.py).
use std::collections::HashMap;
use std::path::{Path, PathBuf};

pub struct Raw {
	pub dir: PathBuf,
	pub sizes: Vec<u64>,
	cache: HashMap<(u8, u8), Vec<u8>>,
}

pub fn load_sizes() -> Vec<u64> {
	let p = std::env::var("VERIF_CONSTS").unwrap_or_else(|_| "/verif/work/consts.json".into());
	let t = std::fs::read_to_string(p).expect("consts.json (written by tools/gen_consts.py)");
	let a = t.find('[').unwrap();
	let b = t.find(']').unwrap();
	t[a + 1..b].split(',').map(|x| x.trim().parse().unwrap()).collect()
}

impl Raw {
	pub fn new(dir: &Path) -> Raw {
		Raw { dir: dir.to_path_buf(), sizes: load_sizes(), cache: HashMap::new() }
	}
	pub fn entry_size(&self, tier: u8) -> usize {
		if (tier as usize) < self.sizes.len() {
			self.sizes[tier as usize] as usize
		} else {
			4096
		}
	}
	pub fn table(&mut self, col: u8, tier: u8) -> &Vec<u8> {
		let dir = self.dir.clone();
		self.cache.entry((col, tier)).or_insert_with(|| std::fs::read(dir.join(format!("table_{:02}_{:02x}", col, tier))).unwrap_or_default())
	}
	/// (last_removed, filled)
	pub fn header(&mut self, col: u8, tier: u8) -> Option<(u64, u64)> {
		let t = self.table(col, tier);
		if t.len() < 16 {
			return None
		}
		Some((u64::from_le_bytes(t[0..8].try_into().unwrap()), u64::from_le_bytes(t[8..16].try_into().unwrap())))
	}
	/// the payload of the value chain at `address` (counter and key tail stripped): None for a
	/// tombstone or an unreadable chain
	pub fn value(&mut self, col: u8, address: u64, rc: bool, keyed: bool) -> Option<Vec<u8>> {
		let tier = (address & 0xff) as u8;
		let mut index = address >> 8;
		let es = self.entry_size(tier);
		let multipart = tier as usize >= self.sizes.len();
		let t = self.table(col, tier).clone();
		let mut out = Vec::new();
		let mut part = 0;
		loop {
			let off = index as usize * es;
			if off + 2 > t.len() {
				return None
			}
			let slot = &t[off..std::cmp::min(off + es, t.len())];
			let hd = [slot[0], slot[1]];
			if hd == [0xff, 0xff] {
				return None
			}
			let (mut pos, end, next) = if multipart && (hd == [0xfe, 0xff] || hd == [0xfd, 0xff] || hd == [0xfd, 0x7f]) {
				(10usize, es, u64::from_le_bytes(slot[2..10].try_into().ok()?))
			} else {
				let sz = (u16::from_le_bytes(hd) & 0x7fff) as usize;
				(2usize, 2 + sz, 0u64)
			};
			if part == 0 {
				if rc {
					pos += 4;
				}
				if keyed {
					pos += 26;
				}
			}
			if end > slot.len() || pos > end {
				return None
			}
			out.extend_from_slice(&slot[pos..end]);
			if next == 0 {
				break
			}
			index = next;
			part += 1;
			if part > 100000 {
				return None
			}
		}
		Some(out)
	}
}

/// parsed btree node: leftmost child address, then (key, value address, right child address)
pub struct BNode {
	pub first: u64,
	pub seps: Vec<(Vec<u8>, u64, u64)>,
}

pub fn parse_bnode(buf: &[u8]) -> Option<BNode> {
	if buf.len() < 8 {
		return None
	}
	let first = u64::from_le_bytes(buf[0..8].try_into().unwrap());
	let mut pos = 8;
	let mut seps = Vec::new();
	while pos < buf.len() {
		if pos + 9 > buf.len() {
			return None
		}
		let value = u64::from_le_bytes(buf[pos..pos + 8].try_into().unwrap());
		let head = buf[pos + 8];
		pos += 9;
		let size = if head == 0xff {
			if pos + 4 > buf.len() {
				return None
			}
			let s = u32::from_le_bytes(buf[pos..pos + 4].try_into().unwrap()) as usize;
			pos += 4;
			s
		} else {
			head as usize
		};
		if pos + size + 8 > buf.len() {
			return None
		}
		let key = buf[pos..pos + size].to_vec();
		pos += size;
		let child = u64::from_le_bytes(buf[pos..pos + 8].try_into().unwrap());
		pos += 8;
		if value == 0 {
			break
		}
		seps.push((key, value, child));
	}
	Some(BNode { first, seps })
}

// ------------------------------------------------------------------ write-ahead log files
/// Which record ids the replay at open must apply, computed from the bytes of the log files alone
/// (own parser): logs ordered by the id of their first record; a record is applied iff it is
/// complete, structurally valid, carries the expected next id and a correct CRC-32; a record that
/// cannot be read to its end stops the replay of its file, a structurally invalid or out-of-sequence
/// one ends the whole replay.
pub fn expected_replay(dir: &Path, ncols: usize, index_bits: &dyn Fn(u8) -> Vec<u8>) -> Vec<u64> {
	let mut logs: Vec<(u64, Vec<u8>)> = Vec::new();
	if let Ok(rd) = std::fs::read_dir(dir) {
		for e in rd.flatten() {
			let n = e.file_name().to_string_lossy().to_string();
			if let Some(rest) = n.strip_prefix("log") {
				if rest.parse::<u32>().is_ok() && e.path().is_file() {
					let data = std::fs::read(e.path()).unwrap_or_default();
					if data.len() >= 9 {
						let first = u64::from_le_bytes(data[1..9].try_into().unwrap());
						logs.push((first, data));
					}
				}
			}
		}
	}
	logs.sort_by_key(|l| l.0);
	let mut applied = Vec::new();
	let mut last_enacted = match logs.first() {
		Some(l) => l.0.wrapping_sub(1),
		None => return applied,
	};
	'logs: for (_, data) in &logs {
		let mut pos = 0usize;
		loop {
			match parse_record(&data[pos..], ncols, index_bits) {
				Rec::Eof => break,                 // end of this file: next file
				Rec::Cut { id } =>
					if id != last_enacted.wrapping_add(1) {
						break 'logs
					} else {
						break
					},
				Rec::Invalid => break 'logs,       // everything else is discarded
				Rec::Ok { id, len } => {
					if id != last_enacted.wrapping_add(1) {
						break 'logs
					}
					applied.push(id);
					last_enacted = id;
					pos += len;
				},
			}
		}
	}
	applied
}

/// every replay the log bytes justify: files whose first record announces the same id are ordered by the
/// directory listing, which is not determined; one result per ordering of such ties (at most 24 orderings)
pub fn expected_replay_set(dir: &Path, ncols: usize, index_bits: &dyn Fn(u8) -> Vec<u8>) -> (Vec<Vec<u64>>, bool) {
	let mut logs: Vec<(u64, String, Vec<u8>)> = Vec::new();
	if let Ok(rd) = std::fs::read_dir(dir) {
		for e in rd.flatten() {
			let n = e.file_name().to_string_lossy().to_string();
			if let Some(rest) = n.strip_prefix("log") {
				if rest.parse::<u32>().is_ok() && e.path().is_file() {
					let data = std::fs::read(e.path()).unwrap_or_default();
					if data.len() >= 9 {
						let first = u64::from_le_bytes(data[1..9].try_into().unwrap());
						logs.push((first, n, data));
					}
				}
			}
		}
	}
	logs.sort_by(|a, b| a.0.cmp(&b.0).then(a.1.cmp(&b.1)));
	let ties = logs.windows(2).any(|w| w[0].0 == w[1].0);
	// all orderings that keep the first ids sorted
	let mut orders: Vec<Vec<usize>> = vec![vec![]];
	let mut i = 0;
	while i < logs.len() {
		let mut j = i;
		while j < logs.len() && logs[j].0 == logs[i].0 {
			j += 1;
		}
		let group: Vec<usize> = (i..j).collect();
		let mut perms: Vec<Vec<usize>> = vec![vec![]];
		for _ in 0..group.len() {
			let mut next = Vec::new();
			for p in &perms {
				for g in &group {
					if !p.contains(g) {
						let mut q = p.clone();
						q.push(*g);
						next.push(q);
					}
				}
			}
			perms = next;
		}
		let mut next_orders = Vec::new();
		for o in &orders {
			for p in perms.iter().take(24) {
				let mut q = o.clone();
				q.extend(p.iter());
				next_orders.push(q);
			}
		}
		orders = next_orders;
		orders.truncate(64);
		i = j;
	}
	let mut results = Vec::new();
	for order in orders {
		let mut applied = Vec::new();
		if order.is_empty() {
			results.push(applied);
			continue
		}
		let mut last_enacted = logs[order[0]].0.wrapping_sub(1);
		'logs: for li in order {
			let data = &logs[li].2;
			let mut pos = 0usize;
			loop {
				match parse_record(&data[pos..], ncols, index_bits) {
					Rec::Eof => break,
					Rec::Cut { id } =>
						if id != last_enacted.wrapping_add(1) {
							break 'logs
						} else {
							break
						},
					Rec::Invalid => break 'logs,
					Rec::Ok { id, len } => {
						if id != last_enacted.wrapping_add(1) {
							break 'logs
						}
						applied.push(id);
						last_enacted = id;
						pos += len;
					},
				}
			}
		}
		if !results.contains(&applied) {
			results.push(applied);
		}
	}
	(results, ties)
}

pub enum Rec {
	Ok { id: u64, len: usize },
	Invalid,
	Eof,
	/// the header of record `id` was read, then a reader error: the sequence check on `id` still happens
	Cut { id: u64 },
}

pub fn parse_record(b: &[u8], ncols: usize, index_bits: &dyn Fn(u8) -> Vec<u8>) -> Rec {
	let mut p = 0usize;
	macro_rules! need {
		($n:expr) => {
			if p + $n > b.len() {
				return Rec::Eof
			}
		};
	}
	need!(1);
	if b[0] != 1 {
		// read_next: at a record boundary the reader first reads the action the byte announces (an action
		// header of 10 bytes, a checksum of 4, a table id of 2); running out of bytes there is the end of the
		// file, anything that can be read is a bad structure, an unknown code is one at once
		let needed = match b[0] {
			2 | 3 | 6 => 10,
			4 => 4,
			5 | 7 => 2,
			_ => 0,
		};
		if b.len() < 1 + needed {
			return Rec::Eof
		}
		return Rec::Invalid
	}
	need!(9);
	let id = u64::from_le_bytes(b[1..9].try_into().unwrap());
	p = 9;
	// inside a record: running out of bytes in an action HEADER (or in the checksum), a checksum mismatch and
	// an unknown code are reader errors: the record is not applied and this file ends here (Eof); running out
	// of bytes in a PAYLOAD (read by validate_plan), a failed validation and a record inside a record discard
	// every remaining log (Invalid)
	macro_rules! needh {
		($n:expr) => {
			if p + $n > b.len() {
				return Rec::Cut { id }
			}
		};
	}
	macro_rules! needp {
		($n:expr) => {
			if p + $n > b.len() {
				return Rec::Invalid
			}
		};
	}
	loop {
		needh!(1);
		let op = b[p];
		p += 1;
		match op {
			1 => return Rec::Invalid,
			4 => {
				needh!(4);
				let want = u32::from_le_bytes(b[p..p + 4].try_into().unwrap());
				let mut h = crc32fast::Hasher::new();
				h.update(&b[..p]);
				if h.finalize() != want {
					return Rec::Cut { id }
				}
				return Rec::Ok { id, len: p + 4 }
			},
			2 | 6 => {
				needh!(10);
				let table = u16::from_le_bytes(b[p..p + 2].try_into().unwrap());
				let index = u64::from_le_bytes(b[p + 2..p + 10].try_into().unwrap());
				p += 10;
				let col = (table >> 8) as usize;
				let bits = (table & 0xff) as u32;
				if col >= ncols {
					return Rec::Invalid
				}
				if op == 6 {
					// no column of these histories has a reference count table
					return Rec::Invalid
				}
				let known = index_bits(col as u8);
				let current = *known.iter().max().unwrap() as u32;
				let check_range = if known.contains(&(bits as u8)) {
					true
				} else if bits < current {
					false // a dropped generation: skipped
				} else if bits == current + 1 {
					true // the next generation: reindexing is re-launched
				} else {
					return Rec::Invalid
				};
				if check_range && (bits >= 58 || index >= (1u64 << bits)) {
					return Rec::Invalid
				}
				needp!(8);
				let mask = u64::from_le_bytes(b[p..p + 8].try_into().unwrap());
				p += 8;
				let n = mask.count_ones() as usize * 8;
				needp!(n);
				p += n;
			},
			3 => {
				needh!(10);
				let table = u16::from_le_bytes(b[p..p + 2].try_into().unwrap());
				let index = u64::from_le_bytes(b[p + 2..p + 10].try_into().unwrap());
				p += 10;
				let col = (table >> 8) as usize;
				let tier = (table & 0xff) as usize;
				if col >= ncols {
					return Rec::Invalid
				}
				if index == 0 {
					needp!(16);
					p += 16;
				} else {
					needp!(2);
					let hd = [b[p], b[p + 1]];
					p += 2;
					if hd == [0xff, 0xff] {
						needp!(8);
						p += 8;
					} else if tier == 255 && (hd == [0xfe, 0xff] || hd == [0xfd, 0xff] || hd == [0xfd, 0x7f]) {
						needp!(4094);
						p += 4094;
					} else {
						let sz = (u16::from_le_bytes(hd) & 0x7fff) as usize;
						if sz == 0x7fff {
							return Rec::Invalid
						}
						needp!(sz);
						p += sz;
					}
				}
			},
			5 | 7 => {
				needh!(2);
				p += 2;
			},
			_ => return Rec::Cut { id },
		}
	}
}
