use std::io::Write;

pub struct Out {
	pub cases: std::io::BufWriter<std::fs::File>,
	pub imp: std::io::BufWriter<std::fs::File>,
	/// per case line: the number of the loop iteration that produced it (for regeneration with VERIF_ONLY)
	pub idx: std::io::BufWriter<std::fs::File>,
	pub dir: std::path::PathBuf,
}

impl Out {
	pub fn new(dir: &str) -> Out {
		std::fs::create_dir_all(dir).unwrap();
		let d = std::path::PathBuf::from(dir);
		Out {
			cases: std::io::BufWriter::new(std::fs::File::create(d.join("cases.txt")).unwrap()),
			imp: std::io::BufWriter::new(std::fs::File::create(d.join("impl.txt")).unwrap()),
			idx: std::io::BufWriter::new(std::fs::File::create(d.join("index.txt")).unwrap()),
			dir: d,
		}
	}
	pub fn case(&mut self, toks: &[u64]) {
		write_hex_line(&mut self.cases, toks);
		let _ = writeln!(self.idx, "{}", CASE_NO.load(std::sync::atomic::Ordering::Relaxed));
	}
	pub fn obs(&mut self, toks: &[u64]) {
		write_hex_line(&mut self.imp, toks);
	}
	pub fn write_file(&self, name: &str, content: &str) {
		std::fs::write(self.dir.join(name), content).unwrap();
	}
	pub fn finish(mut self) {
		self.cases.flush().unwrap();
		self.imp.flush().unwrap();
		self.idx.flush().unwrap();
	}
}

static CASE_NO: std::sync::atomic::AtomicU64 = std::sync::atomic::AtomicU64::new(u64::MAX);

/// The generator of case number `n` of a run: every case has its own stream, derived from the run's seed and its
/// number, so that a single case can be regenerated (VERIF_ONLY=n) without running the ones before it.
pub fn case_rng(base: u64, n: u64) -> crate::prng::Rng {
	CASE_NO.store(n, std::sync::atomic::Ordering::Relaxed);
	let mut r = crate::prng::Rng::new(base ^ n.wrapping_mul(0xD1B54A32D192ED03));
	let s = r.next();
	crate::prng::Rng::new(s)
}

/// VERIF_ONLY=n: run only case number n
pub fn skip_case(n: u64) -> bool {
	match std::env::var("VERIF_ONLY").ok().and_then(|v| v.parse::<u64>().ok()) {
		Some(o) => o != n,
		None => false,
	}
}

pub fn write_hex_line<W: Write>(w: &mut W, toks: &[u64]) {
	let mut s = String::with_capacity(toks.len() * 9);
	for (i, t) in toks.iter().enumerate() {
		if i > 0 {
			s.push(' ');
		}
		s.push_str(&format!("{:x}", t));
	}
	s.push('\n');
	w.write_all(s.as_bytes()).unwrap();
}

/// Minimal JSON string escaping for the stats files.
pub fn jstr(s: &str) -> String {
	let mut o = String::from("\"");
	for c in s.chars() {
		match c {
			'"' => o.push_str("\\\""),
			'\\' => o.push_str("\\\\"),
			'\n' => o.push_str("\\n"),
			c if (c as u32) < 0x20 => o.push_str(&format!("\\u{:04x}", c as u32)),
			c => o.push(c),
		}
	}
	o.push('"');
	o
}

// ---- per-case watchdog: a case that does not finish is reported (hang.txt in the output directory,
// exit code 3) instead of blocking the whole check until its global timeout
static WATCH: std::sync::Mutex<Option<(std::time::Instant, String, std::path::PathBuf)>> = std::sync::Mutex::new(None);
static WATCH_ONCE: std::sync::Once = std::sync::Once::new();

pub fn watch_begin(out: &Out, toks: &[u64]) {
	let mut line = Vec::new();
	write_hex_line(&mut line, toks);
	*WATCH.lock().unwrap() = Some((std::time::Instant::now(), String::from_utf8(line).unwrap(), out.dir.clone()));
	WATCH_ONCE.call_once(|| {
		let limit: u64 = std::env::var("VERIF_CASE_TIMEOUT").ok().and_then(|v| v.parse().ok()).unwrap_or(120);
		std::thread::spawn(move || loop {
			std::thread::sleep(std::time::Duration::from_secs(2));
			let g = WATCH.lock().unwrap();
			if let Some((t0, line, dir)) = g.as_ref() {
				if t0.elapsed().as_secs() > limit {
					let _ = std::fs::write(dir.join("hang.txt"), format!("{}\n{}\n{}\n", limit, line.trim_end(), CASE_NO.load(std::sync::atomic::Ordering::Relaxed)));
					eprintln!("case did not finish within {limit} s");
					std::process::exit(3);
				}
			}
		});
	});
}

pub fn watch_end() {
	*WATCH.lock().unwrap() = None;
}
