use std::io::Write;

pub struct Out {
	pub cases: std::io::BufWriter<std::fs::File>,
	pub imp: std::io::BufWriter<std::fs::File>,
	pub dir: std::path::PathBuf,
}

impl Out {
	pub fn new(dir: &str) -> Out {
		std::fs::create_dir_all(dir).unwrap();
		let d = std::path::PathBuf::from(dir);
		Out {
			cases: std::io::BufWriter::new(std::fs::File::create(d.join("cases.txt")).unwrap()),
			imp: std::io::BufWriter::new(std::fs::File::create(d.join("impl.txt")).unwrap()),
			dir: d,
		}
	}
	pub fn case(&mut self, toks: &[u64]) {
		write_hex_line(&mut self.cases, toks);
	}
	pub fn obs(&mut self, toks: &[u64]) {
		write_hex_line(&mut self.imp, toks);
	}
	pub fn write_file(&self, name: &str, content: &str) {
		std::fs::write(self.dir.join(name), content).unwrap();
	}
	pub fn finish(mut self) {
		self.cases.flush().unwrap();
		self.imp.flush().unwrap();
	}
}

pub fn write_hex_line<W: Write>(w: &mut W, toks: &[u64]) {
	let mut s = String::with_capacity(toks.len() * 9);
	for (i, t) in toks.iter().enumerate() {
		if i > 0 {
			s.push(' ');
		}
		s.push_str(&format!("{:x}", t));
	}
	s.push('\n');
	w.write_all(s.as_bytes()).unwrap();
}

/// Minimal JSON string escaping for the stats files.
pub fn jstr(s: &str) -> String {
	let mut o = String::from("\"");
	for c in s.chars() {
		match c {
			'"' => o.push_str("\\\""),
			'\\' => o.push_str("\\\\"),
			'\n' => o.push_str("\\n"),
			c if (c as u32) < 0x20 => o.push_str(&format!("\\u{:04x}", c as u32)),
			c => o.push(c),
		}
	}
	o.push('"');
	o
}
