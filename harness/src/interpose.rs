//! Interposition of the durability system calls. Because the harness binary defines these symbols,
//! every call the library (via std / memmap2 / fs2) makes to them lands here first; each is recorded
//! through the global sink and then forwarded to the kernel with a raw system call.
//! What is observed: which file (or mapping) was synced / truncated / unlinked, and when.
use std::sync::Mutex;

#[derive(Clone, Debug)]
pub enum Sys {
	/// fdatasync / fsync of a file (path)
	SyncFile(String),
	/// msync of a mapping of a file (path, offset within the mapping, length)
	SyncMap(String, usize, usize),
	/// ftruncate(path, length)
	Truncate(String, u64),
	/// unlink(path)
	Unlink(String),
}

/// set while the harness itself works on files (taking an image): its own calls are not events
pub static PAUSED: std::sync::atomic::AtomicBool = std::sync::atomic::AtomicBool::new(false);

pub type Sink = Box<dyn FnMut(Sys) + Send>;
static SINK: Mutex<Option<Sink>> = Mutex::new(None);

/// called after every msync of the library returned (outside the sink): lets the harness run another
/// pipeline stage on a second thread at exactly this point, the way the commit worker runs while the
/// cleanup worker is flushing tables
pub type Hook = Box<dyn FnMut() + Send>;
static AFTER_MSYNC: Mutex<Option<Hook>> = Mutex::new(None);
pub fn set_after_msync(h: Option<Hook>) {
	*AFTER_MSYNC.lock().unwrap() = h;
}
fn after_msync() {
	if PAUSED.load(std::sync::atomic::Ordering::SeqCst) {
		return
	}
	let taken = AFTER_MSYNC.lock().unwrap().take();
	if let Some(mut h) = taken {
		h();
		let mut g = AFTER_MSYNC.lock().unwrap();
		if g.is_none() {
			*g = Some(h);
		}
	}
}

pub fn set_sink(s: Option<Sink>) {
	*SINK.lock().unwrap() = s;
}

fn emit(e: Sys) {
	if PAUSED.load(std::sync::atomic::Ordering::SeqCst) {
		return
	}
	// the sink may itself do file operations (taking an image): take it out while it runs
	let taken = SINK.lock().unwrap().take();
	if let Some(mut s) = taken {
		s(e);
		let mut g = SINK.lock().unwrap();
		if g.is_none() {
			*g = Some(s);
		}
	}
}

fn fd_path(fd: libc::c_int) -> String {
	std::fs::read_link(format!("/proc/self/fd/{fd}")).map(|p| p.to_string_lossy().to_string()).unwrap_or_default()
}

fn map_path(addr: usize) -> Option<(String, usize)> {
	let maps = std::fs::read_to_string("/proc/self/maps").ok()?;
	for line in maps.lines() {
		let mut it = line.split_whitespace();
		let range = it.next()?;
		let (a, b) = range.split_once('-')?;
		let (a, b) = (usize::from_str_radix(a, 16).ok()?, usize::from_str_radix(b, 16).ok()?);
		if addr >= a && addr < b {
			let _perms = it.next();
			let off = usize::from_str_radix(it.next()?, 16).ok()?;
			let _dev = it.next();
			let _inode = it.next();
			let path = it.next().unwrap_or("").to_string();
			return Some((path, off + (addr - a)))
		}
	}
	None
}

#[no_mangle]
pub extern "C" fn fdatasync(fd: libc::c_int) -> libc::c_int {
	emit(Sys::SyncFile(fd_path(fd)));
	unsafe { libc::syscall(libc::SYS_fdatasync, fd) as libc::c_int }
}

#[no_mangle]
pub extern "C" fn fsync(fd: libc::c_int) -> libc::c_int {
	emit(Sys::SyncFile(fd_path(fd)));
	unsafe { libc::syscall(libc::SYS_fsync, fd) as libc::c_int }
}

#[no_mangle]
pub extern "C" fn msync(addr: *mut libc::c_void, len: libc::size_t, flags: libc::c_int) -> libc::c_int {
	if let Some((path, off)) = map_path(addr as usize) {
		emit(Sys::SyncMap(path, off, len));
	}
	let r = unsafe { libc::syscall(libc::SYS_msync, addr, len, flags) as libc::c_int };
	after_msync();
	r
}

#[no_mangle]
pub extern "C" fn ftruncate64(fd: libc::c_int, len: libc::off64_t) -> libc::c_int {
	emit(Sys::Truncate(fd_path(fd), len as u64));
	unsafe { libc::syscall(libc::SYS_ftruncate, fd, len) as libc::c_int }
}

#[no_mangle]
pub extern "C" fn ftruncate(fd: libc::c_int, len: libc::off_t) -> libc::c_int {
	emit(Sys::Truncate(fd_path(fd), len as u64));
	unsafe { libc::syscall(libc::SYS_ftruncate, fd, len) as libc::c_int }
}

#[no_mangle]
pub extern "C" fn unlink(path: *const libc::c_char) -> libc::c_int {
	let p = unsafe { std::ffi::CStr::from_ptr(path) }.to_string_lossy().to_string();
	emit(Sys::Unlink(p));
	unsafe { libc::syscall(libc::SYS_unlink, path) as libc::c_int }
}
