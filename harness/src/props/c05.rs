//! C05: concurrent readers, background workers running. One writer thread commits transactions
//! T_1 .. T_N; each writes ALL keys of one group (in one or two columns) with its version number and
//! a value whose length depends on the version (so entries move between size tiers, single- and
//! multi-part); all keys of a column share an index page, so the index grows while readers run.
//! Reader threads call Db::get in a loop and judge every read by the property text:
//!   not-older-than-completed   version >= the last commit of that group that had returned before the read began
//!   not-from-the-future        version <= the last commit of that group that had been started when the read returned
//!   went-back                  version >= every version this reader saw before in the group (a transaction is
//!                              never seen partially: all keys of a group carry the same version per commit)
//!   value-torn                 the bytes are exactly what that version wrote for that key
//! After the run the handle is dropped, the directory reopened without workers and every key read: the
//! final versions are compared with the model's specification function applied to the commit list
//! (case line kind 5).
use crate::{prng::Rng, util::Out};
use parity_db::{ColumnOptions, Db, Options};
use std::collections::BTreeMap;
use std::sync::atomic::{AtomicBool, AtomicU64, Ordering};
use std::sync::{Arc, Mutex};

const KEYS_PER_GROUP: usize = 6;

fn value_for(version: u64, group: usize, i: usize) -> Vec<u8> {
	// versions above 2^40 mark the same-size mode: every value has the same length, so that a key is
	// overwritten in place again and again
	let len = if version >> 40 != 0 { 48 } else { match version % 7 {
		0 => 16,
		1 => 40,
		2 => 300,
		3 => 40,
		4 => 5000,
		5 => 90,
		_ => {
			if version % 35 == 6 {
				40000
			} else {
				700
			}
		},
	} };
	let mut v = Vec::with_capacity(len);
	v.extend_from_slice(&version.to_le_bytes());
	v.extend_from_slice(&(group as u32).to_le_bytes());
	v.extend_from_slice(&(i as u32).to_le_bytes());
	while v.len() < len {
		v.push((version as usize + v.len() + i) as u8);
	}
	v
}

fn key_for(col_btree: bool, group: usize, i: usize, page: [u8; 2]) -> Vec<u8> {
	if col_btree {
		format!("g{group:03}-k{i:02}").into_bytes()
	} else {
		// uniform column with zero salt: the key is its own hash; all keys fall into one index page
		let mut k = vec![0u8; 32];
		k[0] = page[0];
		k[1] = page[1];
		k[2] = (group * 16 + i) as u8;
		k[3] = group as u8;
		k[4] = i as u8;
		for (j, b) in k.iter_mut().enumerate().skip(5) {
			*b = (group * 31 + i * 7 + j) as u8;
		}
		k
	}
}

pub fn main(args: &[String]) -> i32 {
	let seed: u64 = args[0].parse().unwrap();
	let count: u64 = args[1].parse().unwrap();
	let mut out = Out::new(&args[2]);
	let dir = std::path::PathBuf::from(&args[2]).join("db");
	let mut oracle = String::new();
	let mut dist: BTreeMap<String, u64> = BTreeMap::new();
	let mut nontrivial = 0u64;
	for case_no in 0..count {
		let mut rng = crate::util::case_rng(seed ^ 0xC05, case_no);
		if crate::util::skip_case(case_no) {
			continue
		}
		let _ = std::fs::remove_dir_all(&dir);
		let two_cols = rng.chance(1, 2);
		// same-size mode: few groups, every value 48 bytes, always_flush: the same slots are rewritten in place
		// by commit after commit while earlier records are being enacted
		let same_size = rng.chance(1, 3);
		let groups = if same_size { rng.range(2, 4) as usize } else { rng.range(11, 14) as usize }; // otherwise > 64 keys in one index page
		let vbase: u64 = if same_size { 1 << 40 } else { 0 };
		let nversions = rng.range(120, 400);
		let nreaders = rng.range(2, 4) as usize;
		let page = [rng.below(256) as u8, rng.below(256) as u8];
		let mut opts = Options::with_columns(&dir, if two_cols { 2 } else { 1 });
		opts.salt = Some([0u8; 32]);
		opts.always_flush = same_size || rng.chance(1, 4);
		opts.columns[0] = ColumnOptions { uniform: true, ..Default::default() };
		if two_cols {
			opts.columns[1] = ColumnOptions { btree_index: true, ..Default::default() };
		}
		let cols: Vec<bool> = if two_cols { vec![false, true] } else { vec![false] };
		crate::util::watch_begin(&out, &[5, seed, nversions, groups as u64]);
		let db = Arc::new(Db::open_or_create(&opts).expect("create"));
		let started: Arc<Vec<AtomicU64>> = Arc::new((0..groups).map(|_| AtomicU64::new(0)).collect());
		let completed: Arc<Vec<AtomicU64>> = Arc::new((0..groups).map(|_| AtomicU64::new(0)).collect());
		let done = Arc::new(AtomicBool::new(false));
		let failure: Arc<Mutex<Option<String>>> = Arc::new(Mutex::new(None));
		let reads_total = Arc::new(AtomicU64::new(0));
		let reads_inflight = Arc::new(AtomicU64::new(0)); // reads that saw a version between completed and started
		let mut commit_list: Vec<(usize, u64)> = Vec::new(); // (group, version) in commit order
		let plan: Vec<usize> = (0..nversions).map(|_| rng.below(groups as u64) as usize).collect();
		let pauses: Vec<u64> = (0..nversions).map(|_| if rng.chance(1, if same_size { 12 } else { 4 }) { rng.range(0, 300) } else { 0 }).collect();
		let mut readers = Vec::new();
		for r in 0..nreaders {
			let (db, started, completed, done, failure, cols) = (db.clone(), started.clone(), completed.clone(), done.clone(), failure.clone(), cols.clone());
			let (reads_total, reads_inflight) = (reads_total.clone(), reads_inflight.clone());
			let mut rr = Rng::new(seed ^ 0xbeef ^ ((r as u64) << 20));
			readers.push(std::thread::spawn(move || {
				let mut seen = vec![0u64; groups];
				let mut extra_rounds = 200;
				loop {
					if done.load(Ordering::SeqCst) {
						if extra_rounds == 0 {
							break
						}
						extra_rounds -= 1;
					}
					let g = rr.below(groups as u64) as usize;
					let i = rr.below(KEYS_PER_GROUP as u64) as usize;
					let c = rr.below(cols.len() as u64) as usize;
					let key = key_for(cols[c], g, i, page);
					let c0 = completed[g].load(Ordering::SeqCst);
					let got = db.get(c as u8, &key);
					let s1 = started[g].load(Ordering::SeqCst);
					reads_total.fetch_add(1, Ordering::Relaxed);
					let got = match got {
						Ok(v) => v,
						Err(e) => {
							failure.lock().unwrap().get_or_insert(format!("read-error get returned {e:?}"));
							break
						},
					};
					let vr = match &got {
						None => 0,
						Some(b) if b.len() >= 16 => u64::from_le_bytes(b[0..8].try_into().unwrap()),
						Some(b) => {
							failure.lock().unwrap().get_or_insert(format!("value-torn a value of {} bytes", b.len()));
							break
						},
					};
					if let Some(b) = &got {
						if *b != value_for(vr, g, i) {
							failure.lock().unwrap().get_or_insert(format!("value-torn group {g} key {i} column {c}: the bytes are not what version {vr} wrote"));
							break
						}
					}
					if vr < c0 {
						failure.lock().unwrap().get_or_insert(format!("not-older-than-completed group {g} key {i} column {c}: read version {vr}, but version {c0} had been committed before the read began"));
						break
					}
					if vr > s1 {
						failure.lock().unwrap().get_or_insert(format!("not-from-the-future group {g} key {i} column {c}: read version {vr}, the newest commit started is {s1}"));
						break
					}
					if vr < seen[g] {
						failure.lock().unwrap().get_or_insert(format!("went-back group {g} key {i} column {c}: read version {vr} after this reader had seen version {} in that group", seen[g]));
						break
					}
					if vr > c0 {
						reads_inflight.fetch_add(1, Ordering::Relaxed);
					}
					seen[g] = vr;
				}
			}));
		}
		// the writer
		let mut version_of_group = vec![0u64; groups];
		for (n, g) in plan.iter().enumerate() {
			let v = vbase + n as u64 + 1;
			let mut tx: Vec<(u8, Vec<u8>, Option<Vec<u8>>)> = Vec::new();
			for (c, bt) in cols.iter().enumerate() {
				for i in 0..KEYS_PER_GROUP {
					tx.push((c as u8, key_for(*bt, *g, i, page), Some(value_for(v, *g, i))));
				}
			}
			started[*g].store(v, Ordering::SeqCst);
			if let Err(e) = db.commit(tx) {
				failure.lock().unwrap().get_or_insert(format!("commit-error {e:?}"));
				break
			}
			completed[*g].store(v, Ordering::SeqCst);
			version_of_group[*g] = v;
			commit_list.push((*g, v));
			if pauses[n] > 0 {
				std::thread::sleep(std::time::Duration::from_micros(pauses[n]));
			}
			if failure.lock().unwrap().is_some() {
				break
			}
		}
		done.store(true, Ordering::SeqCst);
		for t in readers {
			let _ = t.join();
		}
		drop(Arc::try_unwrap(db).ok().expect("sole owner"));
		crate::util::watch_end();
		let mut verdict: Result<(), String> = match failure.lock().unwrap().take() {
			Some(f) => Err(f),
			None => Ok(()),
		};
		// final state through a quiet handle
		let mut q = opts.clone();
		q.with_background_thread = false;
		let mut final_versions: Vec<u64> = Vec::new();
		match Db::open(&q) {
			Ok(d) => {
				for (c, bt) in cols.iter().enumerate() {
					for g in 0..groups {
						for i in 0..KEYS_PER_GROUP {
							let got = d.get(c as u8, &key_for(*bt, g, i, page)).ok().flatten();
							let vr = got.as_ref().map(|b| u64::from_le_bytes(b[0..8].try_into().unwrap())).unwrap_or(0);
							if let Some(b) = &got {
								if *b != value_for(vr, g, i) && verdict.is_ok() {
									verdict = Err(format!("value-torn after reopen group {g} key {i} column {c}"));
								}
							}
							final_versions.push(vr);
						}
					}
				}
			},
			Err(e) =>
				if verdict.is_ok() {
					verdict = Err(format!("reopen-failed {e:?}"));
				},
		}
		// the model's specification of the commit list: key id = (column, group, i) flattened, value = version
		let mut case = vec![5u64, commit_list.len() as u64];
		for (g, v) in &commit_list {
			case.push((cols.len() * KEYS_PER_GROUP) as u64);
			for c in 0..cols.len() {
				for i in 0..KEYS_PER_GROUP {
					case.push(((c * groups + g) * KEYS_PER_GROUP + i) as u64);
					case.push(*v);
				}
			}
		}
		let nq = cols.len() * groups * KEYS_PER_GROUP;
		case.push(nq as u64);
		for kid in 0..nq {
			case.push(commit_list.len() as u64);
			case.push(kid as u64);
		}
		if final_versions.len() != nq {
			final_versions = vec![0xeeee; nq];
		}
		out.case(&case);
		out.obs(&final_versions);
		let total = reads_total.load(Ordering::Relaxed);
		let inflight = reads_inflight.load(Ordering::Relaxed);
		*dist.entry("reads".into()).or_insert(0) += total;
		*dist.entry("reads-of-a-commit-still-in-flight".into()).or_insert(0) += inflight;
		*dist.entry("commits".into()).or_insert(0) += commit_list.len() as u64;
		*dist.entry(format!("columns-{}", cols.len())).or_insert(0) += 1;
		let grown = std::fs::read_dir(&dir).map(|rd| rd.flatten().filter(|e| e.file_name().to_string_lossy().starts_with("index_00_") && !e.file_name().to_string_lossy().ends_with("_16")).count()).unwrap_or(0);
		if grown > 0 {
			*dist.entry("runs-with-index-growth".into()).or_insert(0) += 1;
		}
		if inflight > 0 {
			nontrivial += 1;
		}
		match verdict {
			Ok(()) => oracle.push_str("ok\n"),
			Err(e) => oracle.push_str(&format!("FAIL {e} [{} commits, {} readers, {} reads]\n", commit_list.len(), nreaders, total)),
		}
	}
	let _ = std::fs::remove_dir_all(&dir);
	out.write_file("oracle.txt", &oracle);
	let d: Vec<String> = dist.iter().map(|(k, v)| format!("{}: {}", crate::util::jstr(k), v)).collect();
	out.write_file(
		"stats.json",
		&format!("{{\"evaluations\": {}, \"distinct_nontrivial\": {}, \"distribution\": {{{}}}}}", count, nontrivial, d.join(", ")),
	);
	out.finish();
	0
}
