//! C10 / C11: multitree histories through the stepping API, with reader locks.
//! Column 0: multitree (counted or not, or append-only), direct node access allowed; column 1: plain hash.
//! Case line: 10 rc append_only nkeys nsteps step*
//!   step: 1 n op* | 2 process | 3 flush | 4 enact | 5 clean | 6 reopen | 9 k lock | 10 k unlock
//!   op:   1 k tree | 2 k (reference tree) | 3 k (dereference tree) | 4 k v | 5 k | 6 k (invalid plain set)
//!   tree: data nchildren child* ; child: 0 tree | 1 key pathlen idx*   (an existing node, named by a path from a live root)
//! Observation per step: status, canonical dump of every root key, plain-column reads; after a reopen the entry count.
use crate::{prng::Rng, util::Out};
use parity_db::{ColumnOptions, Db, NewNode, NodeRef, Operation, Options};
use std::collections::BTreeMap;

type Reader = std::sync::Arc<parking_lot::RwLock<Box<dyn parity_db::TreeReader + Send + Sync>>>;
/// Holds the read lock of a tree reader for as long as it lives.
pub struct TreeLock(Reader);
impl TreeLock {
	pub fn new(r: Reader) -> TreeLock {
		std::mem::forget(r.read());
		TreeLock(r)
	}
}
impl Drop for TreeLock {
	fn drop(&mut self) {
		unsafe { self.0.force_unlock_read() }
	}
}

#[derive(Clone, Debug, PartialEq)]
struct STree {
	data: u64,
	children: Vec<SChild>,
}
#[derive(Clone, Debug, PartialEq)]
enum SChild {
	New(STree),
	Existing { key: usize, path: Vec<usize>, expanded: STree },
}

impl STree {
	fn expanded(&self) -> Exp {
		Exp {
			data: self.data,
			children: self
				.children
				.iter()
				.map(|c| match c {
					SChild::New(t) => t.expanded(),
					SChild::Existing { expanded, .. } => expanded.expanded(),
				})
				.collect(),
		}
	}
	fn max_fanout(&self) -> usize {
		let mut m = self.children.len();
		for c in &self.children {
			if let SChild::New(t) = c {
				m = m.max(t.max_fanout());
			}
		}
		m
	}
	fn tokens(&self, out: &mut Vec<u64>) {
		out.push(self.data);
		out.push(self.children.len() as u64);
		for c in &self.children {
			match c {
				SChild::New(t) => {
					out.push(0);
					t.tokens(out);
				},
				SChild::Existing { key, path, .. } => {
					out.push(1);
					out.push(*key as u64);
					out.push(path.len() as u64);
					out.extend(path.iter().map(|i| *i as u64));
				},
			}
		}
	}
	/// subtree reached by a path of child indexes (through Existing references too)
	fn at(&self, path: &[usize]) -> Option<STree> {
		if path.is_empty() {
			return Some(self.clone())
		}
		match self.children.get(path[0])? {
			SChild::New(t) => t.at(&path[1..]),
			SChild::Existing { expanded, .. } => expanded.at(&path[1..]),
		}
	}
}

/// fully expanded tree (no sharing information): what a reader must see
#[derive(Clone, Debug, PartialEq)]
struct Exp {
	data: u64,
	children: Vec<Exp>,
}

#[derive(Clone, Debug)]
enum Op {
	Insert(usize, STree),
	Ref(usize),
	Deref(usize),
	KvSet(usize, u64),
	KvDel(usize),
	BadSet(usize),
}
#[derive(Clone, Debug)]
enum Step {
	Commit(Vec<Op>),
	Process,
	Flush,
	Enact,
	Clean,
	Reopen,
	/// process crash (directory copied while the handle is open) + open of the copy; generated only with nothing queued
	Crash,
	Lock(usize),
	Unlock(usize),
	/// one step of the reindex worker (moves a batch of counters from an outgrown reference count table)
	Reindex,
}

struct Case {
	/// hook H7: a new reference count table has 2^rc_bits chunks of 32 counters (0: the built-in 2^16)
	rc_bits: u8,
	rc: bool,
	append_only: bool,
	nkeys: usize,
	steps: Vec<Step>,
}

fn data_bytes(tok: u64) -> Vec<u8> {
	let mut v = format!("d{tok}-").into_bytes();
	v.extend(std::iter::repeat(b'x').take((tok % 47) as usize));
	v
}
fn data_token(b: &[u8]) -> u64 {
	let s = String::from_utf8_lossy(b);
	s.strip_prefix('d').and_then(|r| r.split('-').next()).and_then(|n| n.parse().ok()).unwrap_or(0xdead_0000)
}
fn root_key(k: usize) -> Vec<u8> {
	format!("tree-root-key-{k:03}").into_bytes()
}
fn kv_key(k: usize) -> Vec<u8> {
	format!("plain-key-{k:03}").into_bytes()
}

fn gen_tree(rng: &mut Rng, depth: u32, live: &[(usize, STree)], allow_existing: bool, big: bool) -> STree {
	let fan = if big && depth == 0 {
		rng.range(256, 300) as usize
	} else if depth >= 3 {
		0
	} else {
		match rng.below(10) {
			0 => 0,
			1 => rng.range(5, 12) as usize,
			_ => rng.range(0, 3) as usize,
		}
	};
	let mut children = Vec::new();
	for _ in 0..fan {
		if allow_existing && !live.is_empty() && rng.chance(1, 4) {
			// a node of a live tree, named by a path from its root
			let (key, t) = rng.pick(live).clone();
			let mut path = Vec::new();
			let mut cur = t.clone();
			loop {
				if cur.children.is_empty() {
					break
				}
				let i = rng.below(cur.children.len() as u64) as usize;
				path.push(i);
				cur = cur.at(&[i]).unwrap();
				if rng.chance(1, 2) {
					break
				}
			}
			if !path.is_empty() {
				children.push(SChild::Existing { key, path, expanded: cur });
				continue
			}
		}
		children.push(SChild::New(gen_tree(rng, depth + 1, live, allow_existing, false)));
	}
	STree { data: rng.range(1, 1 << 30), children }
}

fn gen_case(rng: &mut Rng) -> Case {
	let append_only = rng.chance(1, 5);
	let rc = !append_only && rng.chance(1, 2);
	let nkeys = rng.range(3, 7) as usize;
	// shadow: per key: tree, count, retired (never reused)
	let mut shadow: Vec<Option<(STree, u64)>> = vec![None; nkeys];
	let mut used = vec![false; nkeys];
	let mut locked: Vec<usize> = Vec::new();
	// trees whose last reference was dropped while their reader lock is held: the removal is
	// postponed, so new trees may still reuse their nodes until the lock is released
	let mut zombies: Vec<(usize, STree)> = Vec::new();
	let mut steps = Vec::new();
	let mut rc_bits = 0u8;
	// wide sharing: one transaction takes references to a few hundred different nodes of a live tree, so that
	// many reference counters change in one log record (some of them in the same chunk of the counter table)
	if !append_only && rng.chance(1, 12) {
		let f1 = rng.range(200, 255) as usize;
		// two in three with a small counter table (64-256 counters): the sharer's references outgrow it, a bigger
		// table is started and the old one waits for the reindex worker
		if rng.chance(2, 3) {
			rc_bits = rng.range(1, 3) as u8;
		}
		let t1 = STree {
			data: rng.range(1, 1 << 30),
			children: (0..f1)
				.map(|_| {
					let sub = if rng.chance(1, 10) { rng.range(1, 3) as usize } else { 0 };
					SChild::New(STree { data: rng.range(1, 1 << 30), children: (0..sub).map(|_| SChild::New(STree { data: rng.range(1, 1 << 30), children: vec![] })).collect() })
				})
				.collect(),
		};
		let mut order: Vec<usize> = (0..f1).collect();
		rng.shuffle(&mut order);
		let f2 = rng.range(150, f1 as u64) as usize;
		let t2 = STree {
			data: rng.range(1, 1 << 30),
			children: order[..f2]
				.iter()
				.map(|i| {
					if rng.chance(9, 10) {
						SChild::Existing { key: 0, path: vec![*i], expanded: t1.at(&[*i]).unwrap() }
					} else {
						SChild::New(STree { data: rng.range(1, 1 << 30), children: vec![] })
					}
				})
				.collect(),
		};
		steps.push(Step::Commit(vec![Op::Insert(0, t1.clone())]));
		steps.push(Step::Process);
		if rng.chance(1, 2) {
			steps.extend([Step::Flush, Step::Enact]);
		}
		steps.push(Step::Commit(vec![Op::Insert(1, t2.clone())]));
		steps.extend([Step::Process, Step::Process, Step::Flush, Step::Enact, Step::Clean]);
		if rc_bits != 0 && rng.chance(1, 2) {
			steps.extend([Step::Reindex, Step::Flush, Step::Enact]);
		}
		if rng.chance(1, 2) {
			steps.push(Step::Reopen);
		}
		used[0] = true;
		used[1] = true;
		shadow[0] = Some((t1, 1));
		shadow[1] = Some((t2, 1));
		if rng.chance(1, 2) {
			// the sharer goes first
			steps.push(Step::Commit(vec![Op::Deref(1)]));
			shadow[1] = None;
			steps.extend([Step::Process, Step::Process]);
			// the reindex worker may run while the removals are logged but not yet in the table files
			if rc_bits != 0 && rng.chance(2, 3) {
				for _ in 0..rng.range(1, 3) {
					steps.push(Step::Reindex);
				}
			}
			steps.extend([Step::Flush, Step::Enact]);
		}
	}
	let nsteps = rng.range(10, 40);
	for _ in 0..nsteps {
		match rng.below(20) {
			0..=8 => {
				let nops = rng.range(1, 3);
				let mut ops = Vec::new();
				let mut invalid = false;
				// trees readable when the transaction is submitted: what earlier transactions left alive
				let live_at_start: Vec<(usize, STree)> = shadow.iter().enumerate().filter_map(|(k, s)| s.as_ref().map(|(t, _)| (k, t.clone()))).collect();
				let zombies_at_start = zombies.clone();
				for _ in 0..nops {
					let really_live: Vec<(usize, STree)> = live_at_start.iter().filter(|(k, _)| shadow[*k].is_some()).cloned().collect();
					let mut live = really_live.clone();
					live.extend(zombies_at_start.iter().cloned());
					match rng.below(12) {
						0..=4 => {
							if let Some(k) = (0..nkeys).find(|k| !used[*k]) {
								let big = rng.chance(1, 40);
								let t = gen_tree(rng, 0, &live, true, big);
								if t.max_fanout() > 255 {
									invalid = true;
								}
								ops.push(Op::Insert(k, t.clone()));
								if !invalid {
									used[k] = true;
									shadow[k] = Some((t, 1));
								}
							}
						},
						5 =>
							if let Some((k, _)) = really_live.first() {
								let k = *k;
								ops.push(Op::Ref(k));
								if rc {
									shadow[k].as_mut().unwrap().1 += 1;
								} else if !append_only {
									invalid = true;
								}
							},
						6..=7 =>
							if !really_live.is_empty() {
								let k = rng.pick(&really_live).0;
								ops.push(Op::Deref(k));
								if append_only {
									invalid = true;
								} else {
									let e = shadow[k].as_mut().unwrap();
									e.1 -= 1;
									if e.1 == 0 {
										if locked.contains(&k) {
											zombies.push((k, e.0.clone()));
										}
										shadow[k] = None;
									}
								}
							},
						8..=9 => ops.push(Op::KvSet(rng.below(nkeys as u64) as usize, rng.range(1, 1 << 20))),
						10 => ops.push(Op::KvDel(rng.below(nkeys as u64) as usize)),
						_ =>
							if rng.chance(1, 3) {
								ops.push(Op::BadSet(rng.below(nkeys as u64) as usize));
								invalid = true;
							},
					}
					if invalid {
						break
					}
				}
				if invalid {
					// a rejected transaction changes nothing in the shadow: rebuild it from the steps so far
					steps.push(Step::Commit(ops));
					let (s2, u2) = replay_shadow(&steps, nkeys, rc, append_only);
					shadow = s2;
					used = u2;
					zombies = zombies_at_start;
				} else if !ops.is_empty() {
					steps.push(Step::Commit(ops));
				}
			},
			9..=13 => steps.push(Step::Process),
			14 => steps.push(Step::Flush),
			15 => steps.push(Step::Enact),
			16 => steps.push(Step::Clean),
			17 => {
				let live: Vec<usize> = shadow.iter().enumerate().filter(|(_, s)| s.is_some()).map(|(k, _)| k).collect();
				if !live.is_empty() && !append_only {
					let k = *rng.pick(&live);
					if !locked.contains(&k) {
						locked.push(k);
						steps.push(Step::Lock(k));
					}
				}
			},
			18 =>
				if !locked.is_empty() {
					let i = rng.below(locked.len() as u64) as usize;
					let k = locked.remove(i);
					zombies.retain(|(z, _)| *z != k);
					steps.push(Step::Unlock(k));
				},
			_ => {
				for k in locked.drain(..) {
					steps.push(Step::Unlock(k));
				}
				zombies.clear();
				if rng.chance(1, 2) {
					// everything committed so far gets logged (nothing is locked any more: at most a
					// few rounds of deferral), then the process dies before - or half way through -
					// the enactment
					let pending = steps.iter().rev().take_while(|s| !matches!(s, Step::Reopen | Step::Crash)).filter(|s| matches!(s, Step::Commit(_))).count();
					for _ in 0..2 * pending + 2 {
						steps.push(Step::Process);
					}
					if rng.chance(1, 2) {
						steps.push(Step::Flush);
					}
					steps.push(Step::Crash);
				} else {
					steps.push(Step::Reopen);
				}
			},
		}
	}
	for k in locked.drain(..) {
		steps.push(Step::Unlock(k));
	}
	// optionally dereference everything that is still alive, then drain and reopen
	if !append_only && rng.chance(2, 3) {
		for k in 0..nkeys {
			while let Some((_, c)) = &mut shadow[k] {
				steps.push(Step::Commit(vec![Op::Deref(k)]));
				*c -= 1;
				if *c == 0 {
					shadow[k] = None;
				}
			}
		}
	}
	if rc_bits == 0 && !append_only && rng.chance(1, 6) {
		// the smallest counter table for an ordinary history
		rc_bits = 1;
	}
	if rc_bits != 0 {
		// the reindex worker runs at random moments
		for _ in 0..rng.range(1, 6) {
			let at = rng.below(steps.len() as u64 + 1) as usize;
			steps.insert(at, Step::Reindex);
		}
	}
	for _ in 0..6 {
		steps.push(Step::Process);
	}
	if rc_bits != 0 {
		steps.extend([Step::Reindex, Step::Reindex]);
	}
	steps.extend([Step::Flush, Step::Enact, Step::Clean, Step::Reopen]);
	Case { rc_bits, rc, append_only, nkeys, steps }
}

/// the generator's bookkeeping of live trees (accepted transactions only)
fn replay_shadow(steps: &[Step], nkeys: usize, rc: bool, append_only: bool) -> (Vec<Option<(STree, u64)>>, Vec<bool>) {
	let mut shadow: Vec<Option<(STree, u64)>> = vec![None; nkeys];
	let mut used = vec![false; nkeys];
	for s in steps {
		if let Step::Commit(ops) = s {
			if !tx_valid(ops, rc, append_only) {
				continue
			}
			for o in ops {
				match o {
					Op::Insert(k, t) => {
						used[*k] = true;
						shadow[*k] = Some((t.clone(), 1));
					},
					Op::Ref(k) =>
						if rc {
							if let Some(e) = shadow[*k].as_mut() {
								e.1 += 1
							}
						},
					Op::Deref(k) =>
						if let Some(e) = shadow[*k].as_mut() {
							e.1 -= 1;
							if e.1 == 0 {
								shadow[*k] = None;
							}
						},
					_ => (),
				}
			}
		}
	}
	(shadow, used)
}

fn tx_valid(ops: &[Op], rc: bool, append_only: bool) -> bool {
	ops.iter().all(|o| match o {
		Op::Insert(_, t) => t.max_fanout() <= 255,
		Op::Ref(_) => rc || append_only,
		Op::Deref(_) => !append_only,
		Op::BadSet(_) => false,
		_ => true,
	})
}

/// Since repair F7 a rejected transaction claims nothing: the entry count is compared in every history.
fn count_observable(_c: &Case) -> bool {
	true
}

fn case_tokens(c: &Case) -> Vec<u64> {
	let mut t = vec![10u64, c.rc as u64, c.append_only as u64, count_observable(c) as u64, c.nkeys as u64, c.steps.len() as u64];
	for s in &c.steps {
		match s {
			Step::Commit(ops) => {
				t.push(1);
				t.push(ops.len() as u64);
				for o in ops {
					match o {
						Op::Insert(k, tr) => {
							t.push(1);
							t.push(*k as u64);
							tr.tokens(&mut t);
						},
						Op::Ref(k) => t.extend_from_slice(&[2, *k as u64]),
						Op::Deref(k) => t.extend_from_slice(&[3, *k as u64]),
						Op::KvSet(k, v) => t.extend_from_slice(&[4, *k as u64, *v]),
						Op::KvDel(k) => t.extend_from_slice(&[5, *k as u64]),
						Op::BadSet(k) => t.extend_from_slice(&[6, *k as u64]),
					}
				}
			},
			Step::Process => t.push(2),
			Step::Flush => t.push(3),
			Step::Enact => t.push(4),
			Step::Clean => t.push(5),
			Step::Reopen => t.push(6),
			Step::Crash => t.push(7),
			Step::Lock(k) => t.extend_from_slice(&[9, *k as u64]),
			Step::Unlock(k) => t.extend_from_slice(&[10, *k as u64]),
			Step::Reindex => t.push(8),
		}
	}
	t
}

fn options(path: &std::path::Path, c: &Case) -> Options {
	let mut o = Options::with_columns(path, 2);
	o.stats = false;
	o.with_background_thread = false;
	o.columns[0] = ColumnOptions {
		preimage: c.rc,
		ref_counted: c.rc,
		multitree: true,
		append_only: c.append_only,
		allow_direct_node_access: true,
		..Default::default()
	};
	o
}

fn resolve(db: &Db, key: usize, path: &[usize]) -> u64 {
	let mut node = db.get_root(0, &root_key(key)).ok().flatten();
	let mut last = 0u64;
	for i in path {
		match &node {
			Some((_, children)) => {
				last = *children.get(*i).unwrap_or(&0);
				node = db.get_node(0, last).ok().flatten();
			},
			None => return 0,
		}
	}
	last
}

fn to_new_node(db: &Db, t: &STree) -> NewNode {
	NewNode {
		data: data_bytes(t.data),
		children: t
			.children
			.iter()
			.map(|c| match c {
				SChild::New(t) => NodeRef::New(to_new_node(db, t)),
				SChild::Existing { key, path, .. } => {
					let a = resolve(db, *key, path);
					if a == 0 && std::env::var("VERIF_TRACE").is_ok() {
						eprintln!("unresolvable existing: key {key} path {path:?} root {:?}", db.get_root(0, &root_key(*key)).map(|r| r.map(|x| x.1)));
					}
					NodeRef::Existing(a)
				},
			})
			.collect(),
	}
}

fn dump(db: &Db, nkeys: usize, out: &mut Vec<u64>, expanded: &mut Vec<Option<Exp>>) {
	let mut seen: Vec<u64> = Vec::new();
	fn kids(db: &Db, ids: &[u64], seen: &mut Vec<u64>, out: &mut Vec<u64>, depth: u32) -> Vec<Exp> {
		let mut exps = Vec::new();
		for id in ids {
			if let Some(i) = seen.iter().position(|x| x == id) {
				out.extend_from_slice(&[2, i as u64]);
				// expansion of an already seen node: read it again
				exps.push(expand(db, *id, depth));
			} else {
				match db.get_node(0, *id).ok().flatten() {
					None => {
						seen.push(*id);
						out.push(3);
						exps.push(Exp { data: 0xdead, children: vec![] });
					},
					Some((data, children)) => {
						seen.push(*id);
						out.extend_from_slice(&[1, data_token(&data), children.len() as u64]);
						let c = kids(db, &children, seen, out, depth + 1);
						exps.push(Exp { data: data_token(&data), children: c });
					},
				}
			}
		}
		exps
	}
	fn expand(db: &Db, id: u64, depth: u32) -> Exp {
		if depth > 12 {
			return Exp { data: 0xdeadbeef, children: vec![] }
		}
		match db.get_node(0, id).ok().flatten() {
			None => Exp { data: 0xdead, children: vec![] },
			Some((data, children)) => Exp { data: data_token(&data), children: children.iter().map(|c| expand(db, *c, depth + 1)).collect() },
		}
	}
	for k in 0..nkeys {
		match db.get_root(0, &root_key(k)) {
			Ok(Some((data, children))) => {
				out.extend_from_slice(&[1, data_token(&data), children.len() as u64]);
				let c = kids(db, &children, &mut seen, out, 0);
				expanded.push(Some(Exp { data: data_token(&data), children: c }));
			},
			_ => {
				out.push(0);
				expanded.push(None);
			},
		}
	}
}

pub fn main(args: &[String]) -> i32 {
	let seed: u64 = args[0].parse().unwrap();
	let count: u64 = args[1].parse().unwrap();
	let mut out = Out::new(&args[2]);
	let dir = std::path::PathBuf::from(&args[2]).join("db");
	let mut oracle = String::new();
	let mut dist: BTreeMap<String, u64> = BTreeMap::new();
	let mut nontrivial = std::collections::HashSet::new();
	for case_no in 0..count {
		let mut rng = crate::util::case_rng(seed ^ 0xC10, case_no);
		if crate::util::skip_case(case_no) {
			continue
		}
		let case = gen_case(&mut rng);
		if std::env::var("VERIF_ONLY").is_ok() && std::env::var("VERIF_DEBUG").is_ok() {
			eprintln!("{:#?}", case.steps);
		}
		let toks = case_tokens(&case);
		out.case(&toks);
		crate::util::watch_begin(&out, &toks);
		let _ = std::fs::remove_dir_all(&dir);
		let opts = options(&dir, &case);
		let mut obs: Vec<u64> = Vec::new();
		let mut verdict: Result<(), String> = Ok(());
		let mut fail = |v: &mut Result<(), String>, m: String| {
			if v.is_ok() {
				*v = Err(m);
			}
		};
		let mut shared = false;
		let mut had_lock_deref = false;
		let res = std::panic::catch_unwind(std::panic::AssertUnwindSafe(|| {
			parity_db::verif::set_first_ref_count_bits(case.rc_bits);
			let mut db = Some(Db::open_or_create(&opts).expect("create"));
			// property-level bookkeeping
			let mut spec: Vec<Option<(Exp, u64)>> = vec![None; case.nkeys];
			let mut kvspec: Vec<Option<u64>> = vec![None; case.nkeys];
			let mut guards: BTreeMap<usize, (std::sync::Arc<TreeLock>, Option<Exp>)> = BTreeMap::new();
			let mut prev_obs: Option<Vec<u64>> = None;
			// known finding F4: a transaction that combines the dereference of a LOCKED tree with other
			// operations is re-queued behind later transactions; every later discrepancy is that finding
			let mut f4_exposed = false;
			let history_takes_locks = case.steps.iter().any(|s| matches!(s, Step::Lock(_)));
			for (si, s) in case.steps.iter().enumerate() {
				let d = db.as_ref().unwrap();
				let mut status = 0u64;
				let mut rejected = false;
				match s {
					Step::Commit(ops) => {
						let tx: Vec<(u8, Operation<Vec<u8>, Vec<u8>>)> = ops
							.iter()
							.map(|o| match o {
								Op::Insert(k, t) => {
									if t.children.iter().any(|c| matches!(c, SChild::Existing { .. })) {
										shared = true;
									}
									(0u8, Operation::InsertTree(root_key(*k), to_new_node(d, t)))
								},
								Op::Ref(k) => (0, Operation::ReferenceTree(root_key(*k))),
								Op::Deref(k) => (0, Operation::DereferenceTree(root_key(*k))),
								Op::KvSet(k, v) => (1, Operation::Set(kv_key(*k), v.to_le_bytes().to_vec())),
								Op::KvDel(k) => (1, Operation::Dereference(kv_key(*k))),
								Op::BadSet(k) => (0, Operation::Set(root_key(*k), vec![1, 2, 3])),
							})
							.collect();
						let valid = tx_valid(ops, case.rc, case.append_only);
						let ents_before = d.get_num_column_value_entries(0).ok();
						match d.commit_changes(tx) {
							Ok(()) => {
								if !valid {
									fail(&mut verdict, format!("accepted-unrepresentable step {si}: a transaction that must be rejected (invalid operation or a node with more than 255 children) was accepted"));
								}
							},
							Err(e) => {
								status = super::hist::err_class(&e);
								rejected = true;
								// (a') a rejected transaction consumes no storage: nothing it staged may stay claimed
								let ents_after = d.get_num_column_value_entries(0).ok();
								if ents_before != ents_after {
									fail(&mut verdict, format!("rejected-consumed-storage step {si}: value entries {ents_before:?} -> {ents_after:?} across a rejected transaction"));
								}
								if valid {
									fail(&mut verdict, format!("rejected-valid step {si}: {e:?}"));
								}
							},
						}
						if valid && status == 0 {
							for o in ops {
								match o {
									Op::Insert(k, t) => spec[*k] = Some((t.expanded(), 1)),
									Op::Ref(k) =>
										if case.rc {
											if let Some(e) = spec[*k].as_mut() {
												e.1 += 1
											}
										},
									Op::Deref(k) => {
										if guards.contains_key(k) {
											had_lock_deref = true;
										}
										// the re-queueing also happens when the lock is taken later, or when a
										// tree inserted meanwhile is recorded as depending on the locked tree
										if ops.len() > 1 && history_takes_locks {
											f4_exposed = true;
										}
										if let Some(e) = spec[*k].as_mut() {
											e.1 -= 1;
											if e.1 == 0 {
												spec[*k] = None;
											}
										}
									},
									Op::KvSet(k, v) => kvspec[*k] = Some(*v),
									Op::KvDel(k) => kvspec[*k] = None,
									Op::BadSet(_) => (),
								}
							}
						}
					},
					Step::Process => status = d.process_commits().map(|_| 0).unwrap_or_else(|e| 100 + super::hist::err_class(&e)),
					Step::Flush => status = d.flush_logs().map(|_| 0).unwrap_or(104),
					Step::Enact => {
						if d.verif_num_dirty_logs() >= 4 {
							let _ = d.clean_logs();
						}
						status = d.enact_logs().map(|_| 0).unwrap_or(104)
					},
					Step::Clean => status = d.clean_logs().map(|_| 0).unwrap_or(104),
					Step::Reindex => status = d.process_reindex().map(|_| 0).unwrap_or(108),
					Step::Reopen => {
						guards.clear();
						drop(db.take());
						db = Some(Db::open(&opts).expect("reopen"));
					},
					Step::Crash => {
						guards.clear();
						// the image: every file as the page cache holds it right now
						let img = dir.with_extension("img");
						let _ = std::fs::remove_dir_all(&img);
						std::fs::create_dir_all(&img).unwrap();
						for e in std::fs::read_dir(&dir).unwrap().flatten() {
							if e.file_name() != "lock" {
								std::fs::copy(e.path(), img.join(e.file_name())).unwrap();
							}
						}
						drop(db.take());
						std::fs::remove_dir_all(&dir).unwrap();
						std::fs::rename(&img, &dir).unwrap();
						db = Some(Db::open(&opts).expect("open of the crash image"));
					},
					Step::Lock(k) =>
						if let Ok(Some(reader)) = d.get_tree(0, &root_key(*k)) {
							let lock = std::sync::Arc::new(TreeLock::new(reader));
							guards.insert(*k, (lock, None));
						},
					Step::Unlock(k) => {
						guards.remove(k);
					},
				}
				let d = db.as_ref().unwrap();
				let mut line = vec![status];
				let mut expanded: Vec<Option<Exp>> = Vec::new();
				dump(d, case.nkeys, &mut line, &mut expanded);
				for k in 0..case.nkeys {
					match d.get(1, &kv_key(k)) {
						Ok(Some(v)) if v.len() == 8 => line.push(u64::from_le_bytes(v[..].try_into().unwrap()) + 1),
						Ok(Some(_)) => line.push(0xbad),
						Ok(None) => line.push(0),
						Err(_) => line.push(0xeee),
					}
				}
				let entries = d.get_num_column_value_entries(0).unwrap_or(0xeeee);
				if matches!(s, Step::Reopen | Step::Crash) {
					line.push(if count_observable(&case) { entries } else { 0xffff });
				}
				// ---- oracle
				// (a) a rejected transaction leaves every read as it was
				if rejected {
					if let Some(p) = &prev_obs {
						if p[1..] != line[1..] {
							let j = (1..std::cmp::min(p.len(), line.len())).find(|j| p[*j] != line[*j]);
							fail(&mut verdict, format!("rejected-visible step {si}: reads changed after a rejected transaction (lens {} {}, first diff at {:?}: {:x?} -> {:x?}) step {:?}", p.len(), line.len(), j, j.map(|j| &p[j.saturating_sub(3)..std::cmp::min(p.len(), j + 3)]), j.map(|j| &line[j.saturating_sub(3)..std::cmp::min(line.len(), j + 3)]), s));
						}
					}
				}
				// (b) every live tree reads back exactly as supplied
				for k in 0..case.nkeys {
					if let Some((want, _)) = &spec[k] {
						if expanded[k].as_ref() != Some(want) {
							fail(&mut verdict, format!("{} step {si} root {k}: tree does not read back as supplied (fanout of supplied root {})", if f4_exposed { "deferral-reorder" } else { "readback-mismatch" }, want.children.len()));
						}
					}
				}
				// (c) a locked tree is not invalidated
				for (k, (_, snap)) in guards.iter_mut() {
					match snap {
						None => *snap = expanded[*k].clone(),
						Some(sn) =>
							if expanded[*k].as_ref() != Some(sn) {
								// after an F4 exposure: the insert of the locked tree may itself sit in the re-queued transaction and be
								// overtaken by the dereference of a tree it shares nodes with (its children are then released under it)
								fail(&mut verdict, format!("{} step {si} root {k}: the tree changed while its reader lock was held", if f4_exposed { "deferral-reorder" } else { "locked-tree-changed" }));
							},
					}
				}
				// (d) plain column: commit order (deferral must not reorder writes)
				let nothing_queued_unknown = true;
				if nothing_queued_unknown {
					for k in 0..case.nkeys {
						let got = line[line.len() - case.nkeys - if matches!(s, Step::Reopen | Step::Crash) { 1 } else { 0 } + k];
						let want = kvspec[k].map(|v| v + 1).unwrap_or(0);
						if got != want {
							fail(&mut verdict, format!("deferral-reorder step {si} plain key {k}: expected {want:#x} got {got:#x} (a postponed removal must not change the outcome of other writes)"));
						}
					}
				}
				// (e) after a reopen with every tree dereferenced the column is empty
				if matches!(s, Step::Reopen | Step::Crash) && spec.iter().all(|x| x.is_none()) && !case.append_only {
					let n = entries;
					if n != 0 {
						let cls = if f4_exposed { "deferral-reorder" } else if count_observable(&case) { "entries-after-all-deref" } else { "entries-leak-after-rejected-insert" };
						fail(&mut verdict, format!("{cls} step {si}: {n} value entries remain although every tree was dereferenced"));
					}
				}
				prev_obs = Some(if matches!(s, Step::Reopen | Step::Crash) { line[..line.len() - 1].to_vec() } else { line.clone() });
				obs.extend(line);
			}
			drop(guards);
			drop(db);
		}));
		if let Err(e) = res {
			let m = e.downcast_ref::<String>().cloned().or_else(|| e.downcast_ref::<&str>().map(|s| s.to_string())).unwrap_or_default();
			fail(&mut verdict, format!("panic {}", m.chars().take(160).collect::<String>()));
		}
		crate::util::watch_end();
		out.obs(&obs);
		match verdict {
			Ok(()) => oracle.push_str("ok\n"),
			Err(e) => oracle.push_str(&format!("FAIL {e}\n")),
		}
		if case.rc_bits != 0 {
			*dist.entry("histories-with-small-counter-table".into()).or_insert(0) += 1;
			// refcount_00_<bits> files: a table of more bits than the first one means the table grew
			let grown = std::fs::read_dir(&dir).map(|rd| rd.flatten().filter_map(|e| e.file_name().to_string_lossy().strip_prefix("refcount_00_").and_then(|b| b.parse::<u8>().ok())).any(|b| b > case.rc_bits)).unwrap_or(false);
			if grown {
				*dist.entry("histories-whose-counter-table-grew".into()).or_insert(0) += 1;
			}
		}
		*dist.entry(if case.append_only { "append-only" } else if case.rc { "counted" } else { "plain-multitree" }.to_string()).or_insert(0) += 1;
		if shared {
			*dist.entry("with-shared-nodes".into()).or_insert(0) += 1;
		}
		if had_lock_deref {
			*dist.entry("dereference-while-locked".into()).or_insert(0) += 1;
		}
		if shared || had_lock_deref {
			use std::hash::{Hash, Hasher};
			let mut h = std::collections::hash_map::DefaultHasher::new();
			toks.hash(&mut h);
			nontrivial.insert(h.finish());
		}
	}
	let _ = std::fs::remove_dir_all(&dir);
	out.write_file("oracle.txt", &oracle);
	let d: Vec<String> = dist.iter().map(|(k, v)| format!("{}: {}", crate::util::jstr(k), v)).collect();
	out.write_file(
		"stats.json",
		&format!("{{\"evaluations\": {}, \"distinct_nontrivial\": {}, \"distribution\": {{{}}}}}", count, nontrivial.len(), d.join(", ")),
	);
	out.finish();
	0
}
