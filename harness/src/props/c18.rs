//! C18: at most one live handle per directory. Open attempts come from threads of this process and
//! from child processes (this binary started as `c18child <dir>`), sequentially and in races (several
//! actors released by a barrier / started together); handles are dropped, child processes killed
//! (leaving synced, un-enacted log records, so that the next open has to recover); the holder writes.
//! Case line: 18 n op* ; op: 1 h open | 2 h drop | 3 h kill | 4 h c write
//! Observation: one result per op (0 done, 1 lock error), 99, the live handles, 98, the last value written
//! (races are linearised: the winner, if any, is listed first).
use crate::{prng::Rng, util::Out};
use parity_db::{Db, Options};
use std::collections::BTreeMap;
use std::io::{BufRead, BufReader, Write};
use std::path::{Path, PathBuf};
use std::process::{Child, Command, Stdio};

fn options(dir: &Path) -> Options {
	let mut o = Options::with_columns(dir, 2);
	o.with_background_thread = false;
	o.always_flush = true;
	// column 1: trees, so that a client can hold a tree reader (an object that refers to the database) beyond
	// the life of its handle
	o.columns[1] = parity_db::ColumnOptions { multitree: true, allow_direct_node_access: true, ..Default::default() };
	o
}

type Reader = std::sync::Arc<parking_lot::RwLock<Box<dyn parity_db::TreeReader + Send + Sync>>>;

/// a tree is inserted and a reader of it handed out
fn take_reader(db: &Db, n: u64) -> Option<Reader> {
	let key = format!("tree-{n}").into_bytes();
	let node = parity_db::NewNode { data: n.to_le_bytes().to_vec(), children: vec![] };
	db.commit_changes(vec![(1u8, parity_db::Operation::InsertTree(key.clone(), node))]).ok()?;
	db.process_commits().ok()?;
	db.get_tree(1, &key).ok().flatten()
}

/// an open attempt: read-only when asked for and a database exists, read-write otherwise
fn open_as(dir: &Path, read_only: bool) -> parity_db::Result<Db> {
	if read_only && dir.join("metadata").exists() {
		Db::open_read_only(&options(dir))
	} else {
		Db::open_or_create(&options(dir))
	}
}

fn open_code(r: &parity_db::Result<Db>) -> u64 {
	match r {
		Ok(_) => 0,
		Err(parity_db::Error::Locked(_)) => 1,
		Err(_) => 9,
	}
}

fn write_through(db: &Db, c: u64) -> u64 {
	let r = db.commit(vec![(0u8, b"the-key".to_vec(), Some(c.to_le_bytes().to_vec()))]);
	if r.is_err() {
		return 9
	}
	// logged and synced, not enacted: whoever opens next has something to replay
	if db.process_commits().is_err() || db.flush_logs().is_err() {
		return 9
	}
	0
}

/// the child process: open, report, then obey commands on stdin
pub fn child_main(args: &[String]) -> i32 {
	let dir = PathBuf::from(&args[0]);
	let r = open_as(&dir, args.get(1).map_or(false, |a| a == "ro"));
	println!("{}", open_code(&r));
	let _ = std::io::stdout().flush();
	let db = match r {
		Ok(db) => db,
		Err(_) => return 0,
	};
	let stdin = std::io::stdin();
	for line in stdin.lock().lines() {
		let line = line.unwrap_or_default();
		let mut it = line.split_whitespace();
		match it.next() {
			Some("w") => {
				let c: u64 = it.next().unwrap().parse().unwrap();
				println!("{}", write_through(&db, c));
			},
			Some("d") => {
				drop(db);
				println!("0");
				let _ = std::io::stdout().flush();
				return 0
			},
			_ => (),
		}
		let _ = std::io::stdout().flush();
	}
	0
}

enum Handle {
	Local(Db),
	Remote(Child, BufReader<std::process::ChildStdout>),
}

fn spawn_child(dir: &Path, read_only: bool) -> (Child, BufReader<std::process::ChildStdout>) {
	let exe = std::env::current_exe().unwrap();
	let mut ch = Command::new(exe).arg("c18child").arg(dir).arg(if read_only { "ro" } else { "rw" }).stdin(Stdio::piped()).stdout(Stdio::piped()).stderr(Stdio::null()).spawn().expect("spawn child");
	let out = BufReader::new(ch.stdout.take().unwrap());
	(ch, out)
}

fn read_code(out: &mut BufReader<std::process::ChildStdout>) -> u64 {
	let mut l = String::new();
	out.read_line(&mut l).ok();
	l.trim().parse().unwrap_or(9)
}

fn snapshot(dir: &Path) -> Vec<(String, u64, u64)> {
	let mut v: Vec<(String, u64, u64)> = std::fs::read_dir(dir)
		.map(|rd| {
			rd.flatten()
				.map(|e| {
					let data = std::fs::read(e.path()).unwrap_or_default();
					let mut h = crc32fast::Hasher::new();
					h.update(&data);
					(e.file_name().to_string_lossy().to_string(), data.len() as u64, h.finalize() as u64)
				})
				.collect()
		})
		.unwrap_or_default();
	v.sort();
	v
}

pub fn main(args: &[String]) -> i32 {
	let seed: u64 = args[0].parse().unwrap();
	let count: u64 = args[1].parse().unwrap();
	let mut out = Out::new(&args[2]);
	let dir = PathBuf::from(&args[2]).join("db");
	let mut oracle = String::new();
	let mut dist: BTreeMap<String, u64> = BTreeMap::new();
	let mut nontrivial = 0u64;
	for case_no in 0..count {
		let mut rng = crate::util::case_rng(seed ^ 0xC18, case_no);
		if crate::util::skip_case(case_no) {
			continue
		}
		let _ = std::fs::remove_dir_all(&dir);
		std::fs::create_dir_all(&dir).unwrap();
		let mut handles: BTreeMap<u64, Handle> = BTreeMap::new();
		// handles opened read-only (a third of the attempts once a database exists): they exclude and are excluded
		// like any other handle; they are not asked to write
		let mut read_only: std::collections::BTreeSet<u64> = std::collections::BTreeSet::new();
		// tree readers handed out by handles of this process; kept until the end of the history, whatever
		// happens to the handle they came from
		let mut kept_readers: Vec<Reader> = Vec::new();
		let mut next_h = 1u64;
		let mut toks: Vec<u64> = Vec::new();
		let mut obs: Vec<u64> = Vec::new();
		let mut nops = 0u64;
		let mut verdict: Result<(), String> = Ok(());
		let mut last_written = 0u64;
		let mut contended = false;
		let nsteps = rng.range(4, 14);
		for _ in 0..nsteps {
			let live: Vec<u64> = handles.keys().cloned().collect();
			match rng.below(10) {
				// one open attempt, by a thread of this process or by a child process
				0..=2 => {
					let h = next_h;
					next_h += 1;
					let before = snapshot(&dir);
					let ro = rng.chance(1, 3) && dir.join("metadata").exists();
					if ro {
						read_only.insert(h);
						*dist.entry("op-open-read-only".into()).or_insert(0) += 1;
					}
					let code = if rng.chance(1, 2) {
						let d = dir.clone();
						let r = std::thread::spawn(move || open_as(&d, ro)).join().unwrap();
						let c = open_code(&r);
						if let Ok(db) = r {
							if !ro && rng.chance(1, 2) {
								if let Some(rd) = take_reader(&db, h) {
									kept_readers.push(rd);
									*dist.entry("tree-reader-kept-beyond-its-handle".into()).or_insert(0) += 1;
								}
							}
							handles.insert(h, Handle::Local(db));
						}
						c
					} else {
						let (mut ch, mut o) = spawn_child(&dir, ro);
						let c = read_code(&mut o);
						if c == 0 {
							handles.insert(h, Handle::Remote(ch, o));
						} else {
							let _ = ch.wait();
						}
						c
					};
					if code != 0 {
						contended = true;
						if snapshot(&dir) != before && verdict.is_ok() {
							verdict = Err(format!("failed-open-changed-files a refused open attempt (code {code}) changed the directory"));
						}
					}
					toks.extend_from_slice(&[1, h]);
					obs.push(code);
					nops += 1;
					*dist.entry("op-open".into()).or_insert(0) += 1;
				},
				// a race of 2-4 open attempts
				3..=4 => {
					let n = rng.range(2, 4) as usize;
					let nthreads = rng.below(n as u64 + 1) as usize;
					let before = snapshot(&dir);
					let had_holder = !live.is_empty();
					let barrier = std::sync::Arc::new(std::sync::Barrier::new(nthreads + 1));
					let mut ths = Vec::new();
					// a racer that opens read-only (the database exists then); the winner is not asked to write if any did
					let db_exists = dir.join("metadata").exists();
					let mut any_ro = false;
					for _ in 0..nthreads {
						let d = dir.clone();
						let b = barrier.clone();
						let ro = db_exists && rng.chance(1, 3);
						any_ro |= ro;
						ths.push(std::thread::spawn(move || {
							b.wait();
							open_as(&d, ro)
						}));
					}
					let mut kids = Vec::new();
					for _ in nthreads..n {
						let ro = db_exists && rng.chance(1, 3);
						any_ro |= ro;
						kids.push(spawn_child(&dir, ro));
					}
					barrier.wait();
					let mut winners: Vec<Handle> = Vec::new();
					let mut losers = 0usize;
					let mut other = 0usize;
					for t in ths {
						match t.join().unwrap() {
							Ok(db) => winners.push(Handle::Local(db)),
							Err(parity_db::Error::Locked(_)) => losers += 1,
							Err(_) => other += 1,
						}
					}
					for (mut ch, mut o) in kids {
						match read_code(&mut o) {
							0 => winners.push(Handle::Remote(ch, o)),
							1 => {
								losers += 1;
								let _ = ch.wait();
							},
							_ => {
								other += 1;
								let _ = ch.wait();
							},
						}
					}
					contended = true;
					if other > 0 && verdict.is_ok() {
						verdict = Err(format!("race-other-error {other} of {n} racing open attempts failed with an error that is not the lock error"));
					}
					let expected_winners = if had_holder { 0 } else { 1 };
					if winners.len() != expected_winners && verdict.is_ok() {
						verdict = Err(format!("race-wrong-number-of-holders {} of {n} racing open attempts succeeded (a handle was {}alive)", winners.len(), if had_holder { "" } else { "not " }));
					}
					if had_holder && snapshot(&dir) != before && verdict.is_ok() {
						verdict = Err("failed-open-changed-files refused racing open attempts changed the directory".to_string());
					}
					// linearised: the winner first
					let mut first = true;
					for _ in 0..n {
						let h = next_h;
						next_h += 1;
						toks.extend_from_slice(&[1, h]);
						nops += 1;
						if first && !winners.is_empty() {
							handles.insert(h, winners.remove(0));
							if any_ro {
								read_only.insert(h);
							}
							obs.push(0);
						} else {
							obs.push(1);
						}
						first = false;
					}
					// surplus winners (a violation already recorded) are released
					for w in winners {
						match w {
							Handle::Local(db) => drop(db),
							Handle::Remote(mut ch, _) => {
								let _ = ch.kill();
								let _ = ch.wait();
							},
						}
					}
					let _ = losers;
					*dist.entry("op-race".into()).or_insert(0) += 1;
				},
				// drop
				5..=6 =>
					if let Some(h) = live.first().cloned() {
						match handles.remove(&h).unwrap() {
							Handle::Local(db) => {
								std::thread::spawn(move || drop(db)).join().unwrap();
							},
							Handle::Remote(mut ch, mut o) => {
								let _ = ch.stdin.as_mut().unwrap().write_all(b"d\n");
								let _ = read_code(&mut o);
								let _ = ch.wait();
							},
						}
						toks.extend_from_slice(&[2, h]);
						obs.push(0);
						nops += 1;
						*dist.entry("op-drop".into()).or_insert(0) += 1;
					},
				// the holding process dies
				7 =>
					if let Some(h) = live.first().cloned() {
						if let Some(Handle::Remote(..)) = handles.get(&h) {
							if let Some(Handle::Remote(mut ch, _)) = handles.remove(&h) {
								let _ = ch.kill();
								let _ = ch.wait();
							}
							toks.extend_from_slice(&[3, h]);
							obs.push(0);
							nops += 1;
							*dist.entry("op-kill".into()).or_insert(0) += 1;
						}
					},
				// the holder writes
				_ =>
					if let Some(h) = live.first().cloned().filter(|h| !read_only.contains(h)) {
						let c = rng.range(1, 1 << 30);
						let code = match handles.get_mut(&h).unwrap() {
							Handle::Local(db) => write_through(db, c),
							Handle::Remote(ch, o) => {
								let _ = ch.stdin.as_mut().unwrap().write_all(format!("w {c}\n").as_bytes());
								read_code(o)
							},
						};
						if code == 0 {
							last_written = c;
						}
						toks.extend_from_slice(&[4, h, c]);
						obs.push(code);
						nops += 1;
						*dist.entry("op-write".into()).or_insert(0) += 1;
					},
			}
			if handles.len() > 1 && verdict.is_ok() {
				verdict = Err(format!("two-live-handles {} handles are alive at once", handles.len()));
			}
		}
		obs.push(99);
		obs.extend(handles.keys());
		// release everything, then the directory must open and hold the last write
		for (_, h) in std::mem::take(&mut handles) {
			match h {
				Handle::Local(db) => drop(db),
				Handle::Remote(mut ch, mut o) => {
					let _ = ch.stdin.as_mut().unwrap().write_all(b"d\n");
					let _ = read_code(&mut o);
					let _ = ch.wait();
				},
			}
		}
		match Db::open_or_create(&options(&dir)) {
			Ok(db) => {
				let got = db.get(0, b"the-key").ok().flatten().map(|v| u64::from_le_bytes(v[..8].try_into().unwrap())).unwrap_or(0);
				if got != last_written && verdict.is_ok() {
					verdict = Err(format!("content-wrong after all handles are gone the directory holds {got}, the last write was {last_written}"));
				}
			},
			Err(e) =>
				if verdict.is_ok() {
					verdict = Err(format!("reopen-refused after every handle was dropped or its process died, opening fails: {e:?}"));
				},
		}
		drop(kept_readers);
		obs.push(98);
		obs.push(last_written);
		let mut case = vec![18u64, nops];
		case.extend(toks);
		out.case(&case);
		out.obs(&obs);
		match verdict {
			Ok(()) => oracle.push_str("ok\n"),
			Err(e) => oracle.push_str(&format!("FAIL {e}\n")),
		}
		if contended {
			nontrivial += 1;
		}
	}
	let _ = std::fs::remove_dir_all(&dir);
	out.write_file("oracle.txt", &oracle);
	let d: Vec<String> = dist.iter().map(|(k, v)| format!("{}: {}", crate::util::jstr(k), v)).collect();
	out.write_file(
		"stats.json",
		&format!("{{\"evaluations\": {}, \"distinct_nontrivial\": {}, \"distribution\": {{{}}}}}", count, nontrivial, d.join(", ")),
	);
	out.finish();
	0
}
