//! C09 (entry level): index entry packing and key recovery through hook H5.
//! Case: 9 bits key_prefix address ; observation: entry, address, partial key, chunk index, recovered prefix.
use crate::{prng::Rng, util::Out};
use std::collections::BTreeMap;

pub fn main(args: &[String]) -> i32 {
	let seed: u64 = args[0].parse().unwrap();
	let count: u64 = args[1].parse().unwrap();
	let mut out = Out::new(&args[2]);
	let mut rng = Rng::new(seed ^ 0xC09E);
	let mut oracle = String::new();
	let mut dist: BTreeMap<String, u64> = BTreeMap::new();
	let mut distinct = std::collections::HashSet::new();
	for case_no in 0..count {
		let mut rng = crate::util::case_rng(seed ^ 0xC09E, case_no);
		if crate::util::skip_case(case_no) {
			continue
		}
		let bits: u8 = match rng.below(8) {
			0 => 16,
			1 => 17,
			2 => 49,
			3 => 48,
			_ => rng.range(16, 49) as u8,
		};
		let ab = bits as u32 + 14;
		let kp = match rng.below(6) {
			0 => 0,
			1 => u64::MAX,
			2 => rng.next() & !((1u64 << 14) - 1),
			3 => rng.next() | ((1u64 << 14) - 1),
			_ => rng.next(),
		};
		let addr = match rng.below(5) {
			0 => 0,
			1 => (1u64 << ab) - 1,
			_ => rng.next() & ((1u64 << ab) - 1),
		};
		let (e, a, pk, chunk, rec) = parity_db::verif::entry_codec(bits, kp, addr);
		out.case(&[9, bits as u64, kp, addr]);
		out.obs(&[e, a, pk, chunk, rec]);
		// property oracle: address and the first 50 key bits come back
		let ok = a == addr && rec == (kp >> 14) << 14 && chunk == kp >> (64 - bits as u32);
		if ok {
			oracle.push_str("ok\n");
		} else {
			oracle.push_str(&format!("FAIL entry-codec bits {bits} kp {kp:#x} addr {addr:#x}: address {a:#x} recovered {rec:#x}\n"));
		}
		*dist.entry(format!("bits{}", if bits < 18 { "16-17" } else if bits < 32 { "18-31" } else { "32-49" })).or_insert(0) += 1;
		distinct.insert((bits, kp, addr));
	}
	// ---- bulk growth (oracle only, one history per 2000 codec cases): the index of a column with more live
	// entries than one reindex batch moves (8192) grows; afterwards every key must still be there
	let bulk = std::cmp::max(1, count / 2000);
	for b in 0..bulk {
		let dir = std::path::PathBuf::from(&args[2]).join("bulkdb");
		let _ = std::fs::remove_dir_all(&dir);
		let verdict = std::panic::catch_unwind(std::panic::AssertUnwindSafe(|| bulk_growth(&dir, &mut rng, &mut dist)));
		match verdict {
			Ok(Ok(())) => oracle.push_str("ok\n"),
			Ok(Err(e)) => oracle.push_str(&format!("FAIL {e} (bulk history {b})\n")),
			Err(_) => oracle.push_str("FAIL panic in a bulk growth history\n"),
		}
		let _ = std::fs::remove_dir_all(&dir);
	}
	out.write_file("oracle.txt", &oracle);
	let d: Vec<String> = dist.iter().map(|(k, v)| format!("{}: {}", crate::util::jstr(k), v)).collect();
	out.write_file(
		"stats.json",
		&format!("{{\"evaluations\": {}, \"distinct_nontrivial\": {}, \"distribution\": {{{}}}}}", count, distinct.len(), d.join(", ")),
	);
	out.finish();
	0
}

/// 2500-4000 index pages with 2-5 keys each (uniform keys under the zero salt: a key is its own hash, its first
/// 16 bits are its page), then one page filled beyond its 64 entries: the index grows, the reindex batches run to
/// the end (a batch moves at most 8192 entries, so a batch boundary falls inside a page), the old index is dropped.
fn bulk_growth(dir: &std::path::Path, rng: &mut Rng, dist: &mut BTreeMap<String, u64>) -> Result<(), String> {
	use parity_db::{ColumnOptions, Db, Options};
	let mut o = Options::with_columns(dir, 1);
	o.stats = false;
	o.with_background_thread = false;
	o.salt = Some([0u8; 32]);
	o.columns[0] = ColumnOptions { uniform: true, ..Default::default() };
	let db = Db::open_or_create(&o).map_err(|e| format!("harness-error open {e:?}"))?;
	let npages = rng.range(2500, 4000) as usize;
	let first_page = rng.below(60000) as u16;
	let stride = rng.range(1, 5) as u16;
	let mut keys: Vec<Vec<u8>> = Vec::new();
	for p in 0..npages {
		let page = first_page.wrapping_add((p as u16).wrapping_mul(stride));
		for _ in 0..rng.range(2, 5) {
			let mut k = rng.bytes(32);
			k[0] = (page >> 8) as u8;
			k[1] = page as u8;
			keys.push(k);
		}
	}
	let hot = first_page.wrapping_sub(7);
	for _ in 0..rng.range(65, 70) {
		let mut k = rng.bytes(32);
		k[0] = (hot >> 8) as u8;
		k[1] = hot as u8;
		keys.push(k);
	}
	let val = |i: usize| -> Vec<u8> { (i as u64).to_le_bytes().to_vec() };
	let drain = |db: &Db| -> Result<(), String> {
		for _ in 0..4 {
			db.process_commits().map_err(|e| format!("harness-error process {e:?}"))?;
		}
		db.flush_logs().map_err(|e| format!("harness-error flush {e:?}"))?;
		for _ in 0..8 {
			db.enact_logs().map_err(|e| format!("harness-error enact {e:?}"))?;
		}
		db.clean_logs().map_err(|e| format!("harness-error clean {e:?}"))?;
		Ok(())
	};
	let mut i = 0;
	while i < keys.len() {
		let n = std::cmp::min(rng.range(300, 900) as usize, keys.len() - i);
		db.commit((i..i + n).map(|j| (0u8, keys[j].clone(), Some(val(j))))).map_err(|e| format!("harness-error commit {e:?}"))?;
		drain(&db)?;
		i += n;
	}
	let generations = |dir: &std::path::Path| -> Vec<String> {
		let mut v: Vec<String> = std::fs::read_dir(dir).map(|rd| rd.flatten().map(|e| e.file_name().to_string_lossy().to_string()).filter(|n| n.starts_with("index_00_")).collect()).unwrap_or_default();
		v.sort();
		v
	};
	if generations(dir).len() < 2 {
		return Err(format!("harness-error the index did not start to grow: {:?}", generations(dir)))
	}
	let mut rounds = 0;
	while generations(dir).len() > 1 {
		db.process_reindex().map_err(|e| format!("harness-error reindex {e:?}"))?;
		drain(&db)?;
		rounds += 1;
		if rounds > 200 {
			return Err("growth-never-finished 200 reindex batches did not finish the growth".into())
		}
	}
	*dist.entry("bulk-growth-histories".into()).or_insert(0) += 1;
	*dist.entry("bulk-growth-keys".into()).or_insert(0) += keys.len() as u64;
	*dist.entry("bulk-growth-reindex-batches".into()).or_insert(0) += rounds;
	let check = |db: &Db, when: &str| -> Result<(), String> {
		let mut lost = 0;
		let mut first = None;
		for (j, k) in keys.iter().enumerate() {
			if db.get(0, k).map_err(|e| format!("harness-error get {e:?}"))? != Some(val(j)) {
				lost += 1;
				first.get_or_insert(j);
			}
		}
		if lost > 0 {
			return Err(format!("stale-or-lost {lost} of {} keys are not returned with their value {when} (first: key {} of page {:02x}{:02x})", keys.len(), first.unwrap(), keys[first.unwrap()][0], keys[first.unwrap()][1]))
		}
		Ok(())
	};
	check(&db, "after the growth completed")?;
	drop(db);
	let db = Db::open(&o).map_err(|e| format!("harness-error reopen {e:?}"))?;
	check(&db, "after a reopen")
}
