//! C09 (entry level): index entry packing and key recovery through hook H5.
//! Case: 9 bits key_prefix address ; observation: entry, address, partial key, chunk index, recovered prefix.
use crate::{prng::Rng, util::Out};
use std::collections::BTreeMap;

pub fn main(args: &[String]) -> i32 {
	let seed: u64 = args[0].parse().unwrap();
	let count: u64 = args[1].parse().unwrap();
	let mut out = Out::new(&args[2]);
	let mut rng = Rng::new(seed ^ 0xC09E);
	let mut oracle = String::new();
	let mut dist: BTreeMap<String, u64> = BTreeMap::new();
	let mut distinct = std::collections::HashSet::new();
	for _ in 0..count {
		let bits: u8 = match rng.below(8) {
			0 => 16,
			1 => 17,
			2 => 49,
			3 => 48,
			_ => rng.range(16, 49) as u8,
		};
		let ab = bits as u32 + 14;
		let kp = match rng.below(6) {
			0 => 0,
			1 => u64::MAX,
			2 => rng.next() & !((1u64 << 14) - 1),
			3 => rng.next() | ((1u64 << 14) - 1),
			_ => rng.next(),
		};
		let addr = match rng.below(5) {
			0 => 0,
			1 => (1u64 << ab) - 1,
			_ => rng.next() & ((1u64 << ab) - 1),
		};
		let (e, a, pk, chunk, rec) = parity_db::verif::entry_codec(bits, kp, addr);
		out.case(&[9, bits as u64, kp, addr]);
		out.obs(&[e, a, pk, chunk, rec]);
		// property oracle: address and the first 50 key bits come back
		let ok = a == addr && rec == (kp >> 14) << 14 && chunk == kp >> (64 - bits as u32);
		if ok {
			oracle.push_str("ok\n");
		} else {
			oracle.push_str(&format!("FAIL entry-codec bits {bits} kp {kp:#x} addr {addr:#x}: address {a:#x} recovered {rec:#x}\n"));
		}
		*dist.entry(format!("bits{}", if bits < 18 { "16-17" } else if bits < 32 { "18-31" } else { "32-49" })).or_insert(0) += 1;
		distinct.insert((bits, kp, addr));
	}
	out.write_file("oracle.txt", &oracle);
	let d: Vec<String> = dist.iter().map(|(k, v)| format!("{}: {}", crate::util::jstr(k), v)).collect();
	out.write_file(
		"stats.json",
		&format!("{{\"evaluations\": {}, \"distinct_nontrivial\": {}, \"distribution\": {{{}}}}}", count, distinct.len(), d.join(", ")),
	);
	out.finish();
	0
}
