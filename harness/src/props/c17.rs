//! C17: option text codec, metadata file, validation at open, column administration.
//! Case lines (kind 17):
//!   17 1 version ncols (8 fields)*ncols salt[32]        -> bytes of the metadata file
//!   17 2 text bytes...                                   -> parse result (0 version ncols salt fields.. | class)
//!   17 3 n1 fields.. n2 fields..                         -> class of Db::open (0 ok, 2 count mismatch, 6 column mismatch)
//!   17 4 col n (len bytes..)*n                           -> per file name: 1 if the administration call removed it
use crate::{prng::Rng, util::Out};
use parity_db::{ColumnOptions, CompressionType, Db, NewNode, NodeRef, Operation, Options};
use std::collections::BTreeMap;
use std::path::{Path, PathBuf};

#[derive(Clone, Debug, PartialEq)]
pub struct Opt(pub [u64; 8]); // preimage uniform refc compression ordered multitree append_only direct

impl Opt {
	fn to_options(&self) -> ColumnOptions {
		let f = &self.0;
		ColumnOptions {
			preimage: f[0] != 0,
			uniform: f[1] != 0,
			ref_counted: f[2] != 0,
			compression: match f[3] {
				1 => CompressionType::Lz4,
				2 => CompressionType::Snappy,
				_ => CompressionType::NoCompression,
			},
			btree_index: f[4] != 0,
			multitree: f[5] != 0,
			append_only: f[6] != 0,
			allow_direct_node_access: f[7] != 0,
		}
	}
	fn from_options(o: &ColumnOptions) -> Opt {
		Opt([
			o.preimage as u64,
			o.uniform as u64,
			o.ref_counted as u64,
			o.compression as u8 as u64,
			o.btree_index as u64,
			o.multitree as u64,
			o.append_only as u64,
			o.allow_direct_node_access as u64,
		])
	}
	fn random(rng: &mut Rng) -> Opt {
		let mut f = [0u64; 8];
		for (i, x) in f.iter_mut().enumerate() {
			*x = if i == 3 { rng.below(3) } else { rng.below(2) };
		}
		Opt(f)
	}
	/// an option value the library accepts for a real database (ColumnOptions::is_valid) and that
	/// the content generator below can drive: plain or counted hash columns and btree columns
	fn random_valid(rng: &mut Rng) -> Opt {
		loop {
			let mut o = Opt::random(rng);
			o.0[5] = 0; // multitree columns are exercised by the C10 check
			o.0[6] = 0;
			o.0[7] = 0;
			if o.0[4] != 0 {
				o.0[1] = 0; // btree: not uniform
			}
			if o.to_options().is_valid() {
				return o
			}
		}
	}
}

fn class_of(e: &parity_db::Error) -> u64 {
	match e {
		parity_db::Error::InvalidInput(_) => 1,
		parity_db::Error::InvalidConfiguration(_) => 2,
		parity_db::Error::Background(_) => 3,
		parity_db::Error::Io(_) => 4,
		parity_db::Error::Corruption(_) => 5,
		parity_db::Error::IncompatibleColumnConfig { .. } => 6,
		parity_db::Error::DatabaseNotFound => 7,
		parity_db::Error::Locked(_) => 8,
		_ => 9,
	}
}

fn options(path: &Path, cols: &[Opt]) -> Options {
	let mut o = Options::with_columns(path, cols.len() as u8);
	o.stats = false;
	o.with_background_thread = false;
	o.columns = cols.iter().map(|c| c.to_options()).collect();
	o
}

fn snapshot(dir: &Path) -> BTreeMap<String, Vec<u8>> {
	let mut m = BTreeMap::new();
	if let Ok(rd) = std::fs::read_dir(dir) {
		for e in rd.flatten() {
			let name = e.file_name().to_string_lossy().to_string();
			if e.path().is_file() {
				m.insert(name, std::fs::read(e.path()).unwrap_or_default());
			} else {
				m.insert(name + "/", vec![]);
			}
		}
	}
	m
}

fn copy_dir(from: &Path, to: &Path) {
	let _ = std::fs::remove_dir_all(to);
	std::fs::create_dir_all(to).unwrap();
	for e in std::fs::read_dir(from).unwrap().flatten() {
		if e.path().is_file() {
			std::fs::copy(e.path(), to.join(e.file_name())).unwrap();
		}
	}
}

struct Ctx {
	out: Out,
	oracle: String,
	dist: BTreeMap<String, u64>,
	n: u64,
	nontrivial: std::collections::HashSet<u64>,
	scratch: PathBuf,
}

impl Ctx {
	fn emit(&mut self, class: &str, case: &[u64], obs: &[u64], verdict: Result<(), String>, nontrivial: bool) {
		self.out.case(case);
		self.out.obs(obs);
		match verdict {
			Ok(()) => self.oracle.push_str("ok\n"),
			Err(e) => self.oracle.push_str(&format!("FAIL {e}\n")),
		}
		*self.dist.entry(class.to_string()).or_insert(0) += 1;
		self.n += 1;
		if nontrivial {
			use std::hash::{Hash, Hasher};
			let mut h = std::collections::hash_map::DefaultHasher::new();
			case.hash(&mut h);
			self.nontrivial.insert(h.finish());
		}
	}
}

// ---- A/B: text and parse ----
fn text_case(ctx: &mut Ctx, rng: &mut Rng) {
	let ncols = rng.below(7) as usize;
	let cols: Vec<Opt> = (0..ncols).map(|_| Opt::random(rng)).collect();
	let version = *rng.pick(&[8u64, 8, 8, 4, 7, 3, 0, 4294967295, 12]);
	let salt = rng.bytes(32);
	let dir = ctx.scratch.join("meta");
	let _ = std::fs::create_dir_all(&dir);
	let path = dir.join("metadata");
	let mut o = Options::with_columns(&dir, ncols as u8);
	o.columns = cols.iter().map(|c| c.to_options()).collect();
	let mut s = [0u8; 32];
	s.copy_from_slice(&salt);
	o.write_metadata_file_with_version(&path, &s, Some(version as u32)).unwrap();
	let text = std::fs::read(&path).unwrap();
	let mut case = vec![17u64, 1, version, ncols as u64];
	for c in &cols {
		case.extend_from_slice(&c.0);
	}
	case.extend(salt.iter().map(|b| *b as u64));
	let obs: Vec<u64> = text.iter().map(|b| *b as u64).collect();
	ctx.emit("text", &case, &obs, Ok(()), ncols > 0);

	// parse: the written text, or a damaged variant of it (malformed stream)
	let mut t = text.clone();
	let mutation = rng.below(14);
	let mname = match mutation {
		0..=3 => "valid",
		4 => {
			if !t.is_empty() {
				let i = rng.below(t.len() as u64) as usize;
				t.remove(i);
			}
			"delete-byte"
		},
		5 => {
			replace_first(&mut t, b"true", b"tru");
			"bad-bool"
		},
		6 => {
			replace_first(&mut t, b"compression: ", b"compression: 7");
			"compression-70-or-7x"
		},
		7 => {
			t.extend_from_slice(b"\n");
			"trailing-newline"
		},
		8 => {
			replace_first(&mut t, b"\n", b"\r\n");
			"crlf"
		},
		9 => {
			replace_first(&mut t, b"salt=", b"pepper=");
			"no-salt"
		},
		10 => {
			replace_first(&mut t, b", ordered: ", b", sizes: [1, 2], ordered: ");
			"sizes-marker"
		},
		11 => {
			replace_first(&mut t, b"uniform: ", b"uniform: false, uniform: ");
			"duplicate-key"
		},
		12 => {
			replace_first(&mut t, b"\ncol", b"\n\ncol");
			"empty-line"
		},
		_ => {
			replace_first(&mut t, b"version=", b"version=+0");
			"plus-zero-version"
		},
	};
	std::fs::write(&path, &t).unwrap();
	let res = std::panic::catch_unwind(|| Options::load_metadata_file(&path));
	let obs: Vec<u64> = match res {
		Err(_) => vec![99],
		Ok(Err(e)) => vec![class_of(&e)],
		Ok(Ok(None)) => vec![98],
		Ok(Ok(Some(m))) => {
			let mut v = vec![0, m.version as u64, m.columns.len() as u64];
			v.extend(m.salt.iter().map(|b| *b as u64));
			for c in &m.columns {
				v.extend_from_slice(&Opt::from_options(c).0);
			}
			v
		},
	};
	// oracle (property text): an undamaged file gives back exactly what was written
	let verdict = if mname == "valid" && version >= 4 {
		let mut want = vec![0, version, ncols as u64];
		want.extend(salt.iter().map(|b| *b as u64));
		for c in &cols {
			want.extend_from_slice(&c.0);
		}
		if obs == want { Ok(()) } else { Err(format!("roundtrip options did not survive write + read: wrote {:?} read {:?}", cols, &obs[..std::cmp::min(obs.len(), 8)])) }
	} else {
		Ok(())
	};
	let mut case = vec![17u64, 2];
	case.extend(t.iter().map(|b| *b as u64));
	ctx.emit(&format!("parse-{mname}"), &case, &obs, verdict, true);
}

fn replace_first(t: &mut Vec<u8>, pat: &[u8], with: &[u8]) {
	if let Some(i) = t.windows(pat.len()).position(|w| w == pat) {
		t.splice(i..i + pat.len(), with.iter().cloned());
	}
}

// ---- C: validation at open ----
fn validate_case(ctx: &mut Ctx, rng: &mut Rng) {
	let n1 = rng.range(1, 4) as usize;
	let stored: Vec<Opt> = (0..n1).map(|_| Opt::random_valid(rng)).collect();
	let mut requested = stored.clone();
	let kind = rng.below(6);
	match kind {
		0 | 1 => (),
		2 => requested.push(Opt::random_valid(rng)),
		3 => {
			requested.pop();
		},
		_ => {
			// change one flag of one column, keeping the options acceptable to the library
			for _ in 0..20 {
				let c = rng.below(requested.len() as u64) as usize;
				let mut o = requested[c].clone();
				let f = rng.below(5) as usize;
				o.0[f] = if f == 3 { (o.0[3] + 1 + rng.below(2)) % 3 } else { 1 - o.0[f] };
				if o.to_options().is_valid() && !(o.0[4] != 0 && o.0[1] != 0) {
					requested[c] = o;
					break
				}
			}
		},
	}
	let dir = ctx.scratch.join("vdb");
	let _ = std::fs::remove_dir_all(&dir);
	{
		let db = Db::open_or_create(&options(&dir, &stored)).expect("create");
		drop(db);
	}
	let before = snapshot(&dir);
	let res = if requested.is_empty() {
		// Options with zero columns: still a legal request
		Db::open(&options(&dir, &requested)).map(|_| ())
	} else {
		Db::open(&options(&dir, &requested)).map(|_| ())
	};
	let class = match &res {
		Ok(()) => 0,
		Err(e) => class_of(e),
	};
	let after = snapshot(&dir);
	let verdict = if class != 0 && before != after {
		let changed: Vec<&String> = after.keys().filter(|k| before.get(*k) != after.get(*k)).chain(before.keys().filter(|k| !after.contains_key(*k))).collect();
		Err(format!("refused-open-modified a refused open (class {class}) changed files {:?}", changed))
	} else if class == 0 && stored != requested {
		Err("accepted-mismatch open accepted options that differ from the stored ones".to_string())
	} else if class != 0 && stored == requested {
		Err(format!("refused-match open refused matching options with class {class}"))
	} else {
		Ok(())
	};
	let mut case = vec![17u64, 3, stored.len() as u64];
	for c in &stored {
		case.extend_from_slice(&c.0);
	}
	case.push(requested.len() as u64);
	for c in &requested {
		case.extend_from_slice(&c.0);
	}
	ctx.emit(&format!("validate-kind{kind}"), &case, &[class], verdict, stored != requested);
}

// ---- D: missing database ----
fn missing_case(ctx: &mut Ctx, rng: &mut Rng) {
	let parent = ctx.scratch.join("missing");
	let _ = std::fs::remove_dir_all(&parent);
	std::fs::create_dir_all(&parent).unwrap();
	let dir = parent.join("db");
	let empty_dir = rng.chance(1, 2);
	if empty_dir {
		std::fs::create_dir_all(&dir).unwrap();
	}
	let cols = vec![Opt::random_valid(rng)];
	let res = Db::open(&options(&dir, &cols)).map(|_| ());
	let class = match &res {
		Ok(()) => 0,
		Err(e) => class_of(e),
	};
	let listing = snapshot(&parent);
	let inside = snapshot(&dir);
	let verdict = if class != 7 {
		Err(format!("missing-db-class opening a missing database gave class {class}"))
	} else if !empty_dir && !listing.is_empty() {
		Err(format!("missing-db-created opening a missing database created {:?}", listing.keys().collect::<Vec<_>>()))
	} else if empty_dir && !inside.is_empty() {
		Err(format!("missing-db-created opening an empty directory without create left {:?} behind", inside.keys().collect::<Vec<_>>()))
	} else {
		Ok(())
	};
	// model side: nothing to compute; use an empty file-name query
	ctx.emit(if empty_dir { "missing-empty-dir" } else { "missing-no-dir" }, &[17, 4, 0, 0], &[], verdict, true);
}

// ---- E: administration calls ----
fn key_of(c: usize, k: usize, uniform: bool) -> Vec<u8> {
	let mut v = format!("admin-key-{c:02}-{k:03}-0123456789abcdefghij").into_bytes();
	if uniform {
		v.truncate(32);
		// spread the first bytes
		v[0] = (k * 37 + c) as u8;
		v[1] = (k * 11) as u8;
	}
	v
}
fn val_of(c: usize, k: usize, gen: u64) -> Vec<u8> {
	format!("value-{c}-{k}-{gen}-{}", "x".repeat((k * 13 + c * 7) % 90)).into_bytes()
}

fn read_all(db: &Db, cols: &[Opt], nkeys: usize) -> Vec<Vec<Option<Vec<u8>>>> {
	cols.iter()
		.enumerate()
		.map(|(c, o)| (0..nkeys).map(|k| if o.0[5] != 0 { None } else { db.get(c as u8, &key_of(c, k, o.0[1] != 0)).unwrap() }).collect())
		.collect()
}

fn admin_case(ctx: &mut Ctx, rng: &mut Rng) {
	// one database in twelve has more than a hundred columns: the file names of column 10 ("table_10_..") are then
	// prefixes of nothing else only because of the separator ("table_100_..")
	let wide = rng.chance(1, 12);
	let ncols = if wide { rng.range(101, 131) as usize } else { rng.range(1, 4) as usize };
	let mut cols: Vec<Opt> = (0..ncols).map(|_| Opt::random_valid(rng)).collect();
	// (an index file has 32 MiB: in a wide database only column 10, three of the columns 100.. and two others get keys)
	let populated: Vec<usize> = if wide {
		let mut v = vec![10usize];
		for _ in 0..3 {
			v.push(rng.range(100, std::cmp::min(110, ncols as u64)) as usize);
		}
		for _ in 0..2 {
			v.push(rng.below(ncols as u64) as usize);
		}
		v
	} else {
		(0..ncols).collect()
	};
	// a third of the databases have a counted multitree column with a shared node, so that a
	// reference-count file exists as well
	let mt_col = if rng.chance(1, 3) { Some(rng.below(ncols as u64) as usize) } else { None };
	if let Some(m) = mt_col {
		cols[m] = Opt([1, 0, 1, 0, 0, 1, 0, 1]);
	}
	let nkeys = rng.range(2, 6) as usize;
	let dir = ctx.scratch.join("adb");
	let img = ctx.scratch.join("adb-img");
	let _ = std::fs::remove_dir_all(&dir);
	let pending = rng.chance(1, 2);
	// expected content per column
	let mut expect: Vec<Vec<Option<Vec<u8>>>> = vec![vec![None; nkeys]; ncols];
	{
		let db = Db::open_or_create(&options(&dir, &cols)).expect("create");
		if let Some(m) = mt_col {
			let leaf = NewNode { data: b"shared-leaf".to_vec(), children: vec![] };
			db.commit_changes(vec![(m as u8, Operation::InsertTree(b"root-a".to_vec(), NewNode { data: b"a".to_vec(), children: vec![NodeRef::New(leaf)] }))]).unwrap();
			db.process_commits().unwrap();
			if let Ok(Some((_, children))) = db.get_root(m as u8, b"root-a") {
				db.commit_changes(vec![(m as u8, Operation::InsertTree(b"root-b".to_vec(), NewNode { data: b"b".to_vec(), children: vec![NodeRef::Existing(children[0])] }))]).unwrap();
				db.process_commits().unwrap();
			}
		}
		let mut tx = Vec::new();
		for c in 0..ncols {
			if Some(c) == mt_col || !populated.contains(&c) {
				continue
			}
			for k in 0..nkeys {
				if rng.chance(3, 4) {
					let gen = if cols[c].0[0] != 0 { 0 } else { 1 };
					tx.push((c as u8, key_of(c, k, cols[c].0[1] != 0), Some(val_of(c, k, gen))));
					expect[c][k] = Some(val_of(c, k, gen));
				}
			}
		}
		db.commit(tx).unwrap();
		db.process_commits().unwrap();
		db.flush_logs().unwrap();
		db.enact_logs().unwrap();
		db.clean_logs().unwrap();
		if pending {
			// a second transaction that only reaches the synced log: the image taken now has
			// unreplayed records
			let mut tx = Vec::new();
			for c in 0..ncols {
				if Some(c) == mt_col || !populated.contains(&c) {
					continue
				}
				for k in 0..nkeys {
					if rng.chance(1, 2) && cols[c].0[0] == 0 {
						tx.push((c as u8, key_of(c, k, cols[c].0[1] != 0), Some(val_of(c, k, 2))));
						expect[c][k] = Some(val_of(c, k, 2));
					} else if rng.chance(1, 4) && cols[c].0[2] == 0 {
						tx.push((c as u8, key_of(c, k, cols[c].0[1] != 0), None));
						expect[c][k] = None;
					}
				}
			}
			db.commit(tx).unwrap();
			db.process_commits().unwrap();
			db.flush_logs().unwrap();
			copy_dir(&dir, &img);
		}
		drop(db);
		if !pending {
			copy_dir(&dir, &img);
		}
	}
	let _ = std::fs::remove_file(img.join("lock"));
	let before = snapshot(&img);
	let op = rng.below(4);
	let target = if wide { 10 } else { rng.below(ncols as u64) as usize };
	let mut opts = options(&img, &cols);
	let mut new_cols = cols.clone();
	let (opname, res): (&str, parity_db::Result<()>) = match op {
		0 => {
			let nc = Opt::random_valid(rng);
			new_cols.push(nc.clone());
			("add_column", Db::add_column(&mut opts, nc.to_options()))
		},
		1 => {
			new_cols.pop();
			("drop_last_column", Db::drop_last_column(&mut opts))
		},
		2 => {
			let change = rng.chance(1, 2);
			let nc = if change { Some(Opt::random_valid(rng)) } else { None };
			if let Some(n) = &nc {
				new_cols[target] = n.clone();
			}
			("reset_column", Db::reset_column(&mut opts, target as u8, nc.map(|n| n.to_options())))
		},
		_ => ("clear_column", parity_db::clear_column(&img, target as u8)),
	};
	let after = snapshot(&img);
	let mut verdict: Result<(), String> = Ok(());
	if let Err(e) = &res {
		verdict = Err(format!("admin-op-failed {opname} failed: {e:?}"));
	}
	// which files of the directory as it was BEFORE the call are gone (log files and lock are
	// pipeline business: ignore them in the comparison with the model)
	let names: Vec<&String> = before.keys().filter(|n| !n.starts_with("log") && *n != "lock").collect();
	let removed_col: u64 = match op {
		1 => (ncols - 1) as u64,
		2 | 3 => target as u64,
		_ => 255,
	};
	let mut case = vec![17u64, 4, removed_col, names.len() as u64];
	let mut obs = Vec::new();
	for n in &names {
		case.push(n.len() as u64);
		case.extend(n.bytes().map(|b| b as u64));
		// a file recreated empty by the reopen inside the call counts as removed when its content is gone
		let gone = !after.contains_key(*n);
		obs.push(gone as u64);
	}
	// nothing of the removed column may be left in the directory
	if verdict.is_ok() && removed_col != 255 {
		let left: Vec<&String> = after
			.keys()
			.filter(|n| ["index", "table", "refcount"].iter().any(|kind| n.starts_with(&format!("{kind}_{removed_col:02}_"))))
			.collect();
		if !left.is_empty() {
			verdict = Err(format!("admin-files-left-behind after {opname}(col {removed_col}): files of the column are still there: {:?}", left));
		}
	}
	// read-out
	if verdict.is_ok() {
		let final_cols = match op {
			0 | 1 | 2 => new_cols.clone(),
			_ => cols.clone(),
		};
		match Db::open(&options(&img, &final_cols)) {
			Err(e) => verdict = Err(format!("admin-reopen-failed open after {opname} failed: {e:?}")),
			Ok(db) => {
				let got = match std::panic::catch_unwind(std::panic::AssertUnwindSafe(|| read_all(&db, &final_cols[..std::cmp::min(final_cols.len(), ncols)], nkeys))) {
					Ok(g) => g,
					Err(_) => {
						verdict = Err(format!("admin-read-panic reading after {opname}(col {target}){} panicked; columns {:?}", if pending { " with unreplayed logs" } else { "" }, cols));
						vec![vec![None; nkeys]; ncols]
					},
				};
				for c in 0..std::cmp::min(final_cols.len(), ncols) {
					let affected = match op {
						2 | 3 => c == target,
						_ => false,
					};
					for k in 0..nkeys {
						let want = if affected { None } else { expect[c][k].clone() };
						if verdict.is_ok() && got[c][k] != want {
							let cls = if affected { "admin-column-not-empty" } else { "admin-other-column-changed" };
							verdict = Err(format!(
								"{cls} after {opname}(col {target}){}: column {c} key {k} reads {:?}, expected {:?}",
								if pending { " with unreplayed logs" } else { "" },
								got[c][k].as_ref().map(|v| String::from_utf8_lossy(v).chars().take(24).collect::<String>()),
								want.as_ref().map(|v| String::from_utf8_lossy(v).chars().take(24).collect::<String>())
							));
						}
					}
				}
				if let Some(m) = mt_col {
					let affected = matches!(op, 2 | 3) && m == target;
					if m < final_cols.len() && final_cols[m].0[5] != 0 {
						let n = db.get_num_column_value_entries(m as u8).unwrap_or(0xeeee);
						if affected && n != 0 && verdict.is_ok() {
							verdict = Err(format!("admin-column-not-empty after {opname}(col {target}): the multitree column still holds {n} entries"));
						}
						if !affected && n != 3 && verdict.is_ok() {
							verdict = Err(format!("admin-other-column-changed after {opname}(col {target}): multitree column {m} holds {n} entries instead of 3"));
						}
					}
				}
				if op == 0 {
					// the new column is empty
					if let Ok(Some(_)) = db.get(ncols as u8, &key_of(ncols, 0, final_cols[ncols].0[1] != 0)) {
						verdict = Err("admin-new-column-not-empty".into());
					}
				}
			},
		}
	}
	ctx.emit(&format!("admin-{opname}{}", if pending { "-pending-logs" } else { "" }), &case, &obs, verdict, true);
}

pub fn main(args: &[String]) -> i32 {
	let seed: u64 = args[0].parse().unwrap();
	let count: u64 = args[1].parse().unwrap();
	let out = Out::new(&args[2]);
	let scratch = PathBuf::from(&args[2]).join("scratch");
	std::fs::create_dir_all(&scratch).unwrap();
	let mut ctx = Ctx { out, oracle: String::new(), dist: BTreeMap::new(), n: 0, nontrivial: Default::default(), scratch };
	let mut i = 0u64;
	let only: Option<u64> = std::env::var("VERIF_ONLY").ok().and_then(|v| v.parse().ok());
	while ctx.n < count && only.map_or(true, |o| i <= o) {
		let mut rng = crate::util::case_rng(seed ^ 0xC17, i);
		if crate::util::skip_case(i) {
			i += 1;
			continue
		}
		match i % 8 {
			0..=3 => text_case(&mut ctx, &mut rng),
			4 | 5 => validate_case(&mut ctx, &mut rng),
			6 => admin_case(&mut ctx, &mut rng),
			_ =>
				if rng.chance(1, 4) {
					missing_case(&mut ctx, &mut rng)
				} else {
					admin_case(&mut ctx, &mut rng)
				},
		}
		i += 1;
	}
	let Ctx { out, oracle, dist, n, nontrivial, scratch } = ctx;
	let _ = std::fs::remove_dir_all(&scratch);
	out.write_file("oracle.txt", &oracle);
	let d: Vec<String> = dist.iter().map(|(k, v)| format!("{}: {}", crate::util::jstr(k), v)).collect();
	out.write_file(
		"stats.json",
		&format!("{{\"evaluations\": {}, \"distinct_nontrivial\": {}, \"distribution\": {{{}}}}}", n, nontrivial.len(), d.join(", ")),
	);
	out.finish();
	0
}
