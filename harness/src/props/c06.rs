//! C06: value entries. (1) byte-exact: one Set into a fresh hash column, then the raw table file is
//! compared with the image the model builds (header slot + chain, every byte). (2) accounting: set /
//! overwrite / remove sequences with size-class changes; after a drain every value is read back
//! bit-exact and, per size tier, the number of live slots (fill mark minus header minus free-list
//! length, read from the raw files) is compared with the model.
//! Case lines: 6 1 rc keytail[26] value...      -> tier, entry size, file image
//!             6 2 rc nkeys nsteps (op key len)* -> per key 1/2 (present/absent, 3 = wrong bytes), (tier, live)*
use crate::{prng::Rng, util::Out};
use parity_db::{ColumnOptions, Db, Options};
use std::collections::BTreeMap;
use std::path::Path;

fn load_sizes() -> Vec<u64> {
	let p = std::env::var("VERIF_CONSTS").unwrap_or_else(|_| "/verif/work/consts.json".into());
	let t = std::fs::read_to_string(p).expect("consts.json (written by tools/gen_consts.py)");
	let a = t.find('[').unwrap();
	let b = t.find(']').unwrap();
	t[a + 1..b].split(',').map(|x| x.trim().parse().unwrap()).collect()
}

fn options(path: &Path, rc: bool) -> Options {
	let mut o = Options::with_columns(path, 1);
	o.stats = false;
	o.with_background_thread = false;
	o.salt = Some([0u8; 32]);
	o.columns[0] = ColumnOptions { preimage: rc, uniform: true, ref_counted: rc, ..Default::default() };
	o
}

fn drain(db: &Db) {
	for _ in 0..32 {
		db.process_commits().unwrap();
	}
	db.flush_logs().unwrap();
	db.enact_logs().unwrap();
	db.clean_logs().unwrap();
}

fn value(seed: u64, len: usize) -> Vec<u8> {
	Rng::new(seed).bytes(len)
}

fn boundary_lens(sizes: &[u64], rng: &mut Rng, rc: bool) -> usize {
	let overhead = 2 + 26 + if rc { 4 } else { 0 };
	match rng.below(10) {
		0 => 0,
		1 => 1,
		2..=5 => {
			// around a tier boundary: capacity -1, 0, +1
			let es = *rng.pick(sizes);
			let cap = es.saturating_sub(overhead);
			(cap + rng.below(3)).saturating_sub(1) as usize
		},
		6 => {
			// around the single/multi-part boundary
			let cap = sizes[sizes.len() - 1] - overhead;
			(cap - 2 + rng.below(5)) as usize
		},
		7 => {
			// multipart: around multiples of the part payload
			let part = 4096 - 10;
			let n = rng.range(8, 20);
			(n * part - 40 + rng.below(80)) as usize
		},
		8 => rng.range(32000, 90000) as usize,
		_ => rng.range(2, 5000) as usize,
	}
}

pub fn main(args: &[String]) -> i32 {
	let seed: u64 = args[0].parse().unwrap();
	let count: u64 = args[1].parse().unwrap();
	let mut out = Out::new(&args[2]);
	let scratch = std::path::PathBuf::from(&args[2]).join("scratch");
	let sizes = load_sizes();
	let mut oracle = String::new();
	let mut dist: BTreeMap<String, u64> = BTreeMap::new();
	let mut distinct = std::collections::HashSet::new();
	for i in 0..count {
		let mut rng = crate::util::case_rng(seed ^ 0xC06, i);
		if crate::util::skip_case(i) {
			continue
		}
		let rc = rng.chance(1, 3);
		let dir = scratch.join("db");
		let _ = std::fs::remove_dir_all(&dir);
		if i % 8 == 7 {
			// ---- compressed column: values of every compressibility are read back bit-exact, and what is
			// stored (the compressed bytes) sits in the tier its length calls for
			let algo = if rng.chance(1, 2) { parity_db::CompressionType::Lz4 } else { parity_db::CompressionType::Snappy };
			let threshold = *rng.pick(&[0u32, 64, 4096]);
			let len = match rng.below(6) {
				0 => boundary_lens(&sizes, &mut rng, rc),
				1 => rng.range(32000, 34000) as usize,
				2 => rng.range(34000, 220000) as usize,
				3 => rng.range(1, 200) as usize,
				_ => rng.range(200, 32000) as usize,
			};
			let vseed = rng.next();
			let class = rng.below(5);
			let val: Vec<u8> = match class {
				0 => vec![rng.below(256) as u8; len],
				1 => {
					let period = rng.range(2, 64) as usize;
					let pat = Rng::new(vseed).bytes(period);
					(0..len).map(|j| pat[j % period]).collect()
				},
				2 => {
					// random head, constant tail
					let mut v = value(vseed, len);
					let cut = if len == 0 { 0 } else { rng.below(len as u64) as usize };
					for b in v[cut..].iter_mut() {
						*b = 0x41;
					}
					v
				},
				3 => value(vseed, len).into_iter().map(|b| b & 0x0f).collect(),
				_ => value(vseed, len),
			};
			let key = rng.bytes(32);
			let mut o = options(&dir, rc);
			o.columns[0].compression = algo;
			o.compression_threshold.insert(0, threshold);
			let mut verdict = Ok(());
			{
				let db = Db::open_or_create(&o).unwrap();
				db.commit(vec![(0u8, key.clone(), Some(val.clone()))]).unwrap();
				if db.get(0, &key).unwrap().as_ref() != Some(&val) {
					verdict = Err(format!("value-not-exact compressed column, length {len} class {class}: wrong while queued"));
				}
				drain(&db);
				let got = db.get(0, &key).unwrap();
				if got.as_ref() != Some(&val) {
					verdict = Err(format!("value-not-exact compressed column ({algo:?}, threshold {threshold}), length {len} class {class}: read back {:?} bytes after the drain", got.map(|v| v.len())));
				}
			}
			let mut found: Option<(u64, Vec<u8>)> = None;
			for e in std::fs::read_dir(&dir).unwrap().flatten() {
				let n = e.file_name().to_string_lossy().to_string();
				if let Some(t) = n.strip_prefix("table_00_") {
					let bytes = std::fs::read(e.path()).unwrap();
					if !bytes.is_empty() {
						found = Some((u64::from_str_radix(t, 16).unwrap(), bytes));
					}
				}
			}
			let mut case = vec![6u64, 3, rc as u64];
			let mut obs = Vec::new();
			match found {
				None => {
					case.push(0);
					obs.push(0xdead);
					verdict = Err("no-table-file no value table file was written".to_string());
				},
				Some((tier, bytes)) => {
					let es = if (tier as usize) < sizes.len() { sizes[tier as usize] as usize } else { 4096 };
					let hd = [bytes[es], bytes[es + 1]];
					let stored = if tier as usize >= sizes.len() && (hd == [0xfd, 0xff] || hd == [0xfd, 0x7f]) {
						// a chain: longer than any single slot holds
						1_000_000u64
					} else {
						let size = (u16::from_le_bytes(hd) & 0x7fff) as u64;
						size.saturating_sub(26 + if rc { 4 } else { 0 })
					};
					case.push(stored);
					obs.push(tier);
					*dist.entry(format!("compressed-{}", if hd == [0xfd, 0x7f] || (hd != [0xfd, 0xff] && hd[1] & 0x80 != 0) { "stored-compressed" } else { "stored-plain" })).or_insert(0) += 1;
				},
			}
			{
				let db = Db::open(&o).unwrap();
				let got = db.get(0, &key).unwrap();
				if got.as_ref() != Some(&val) {
					verdict = Err(format!("value-not-exact compressed column ({algo:?}, threshold {threshold}), length {len} class {class}: read back {:?} bytes after reopen", got.map(|v| v.len())));
				}
				if db.get_size(0, &key).unwrap() != Some(len as u32) {
					verdict = Err(format!("size-wrong compressed column, length {len}"));
				}
			}
			out.case(&case);
			out.obs(&obs);
			match verdict {
				Ok(()) => oracle.push_str("ok\n"),
				Err(e) => oracle.push_str(&format!("FAIL {e}\n")),
			}
			distinct.insert((3u8, rc, len as u64, class));
		} else if i % 2 == 0 {
			// ---- byte-exact single insert
			let len = boundary_lens(&sizes, &mut rng, rc);
			let key = rng.bytes(32);
			let vseed = rng.next();
			let val = value(vseed, len);
			{
				let db = Db::open_or_create(&options(&dir, rc)).unwrap();
				db.commit(vec![(0u8, key.clone(), Some(val.clone()))]).unwrap();
				drain(&db);
			}
			// the only table file with content
			let mut found: Option<(u64, Vec<u8>)> = None;
			for e in std::fs::read_dir(&dir).unwrap().flatten() {
				let n = e.file_name().to_string_lossy().to_string();
				if let Some(t) = n.strip_prefix("table_00_") {
					let bytes = std::fs::read(e.path()).unwrap();
					if !bytes.is_empty() {
						found = Some((u64::from_str_radix(t, 16).unwrap(), bytes));
					}
				}
			}
			let mut case = vec![6u64, 1, rc as u64];
			case.extend(key[6..].iter().map(|b| *b as u64));
			case.extend(val.iter().map(|b| *b as u64));
			let mut obs = Vec::new();
			let mut verdict = Ok(());
			match found {
				None => verdict = Err("no-table-file no value table file was written".to_string()),
				Some((tier, bytes)) => {
					let es = if (tier as usize) < sizes.len() { sizes[tier as usize] } else { 4096 };
					let filled = u64::from_le_bytes(bytes[8..16].try_into().unwrap());
					obs.push(tier);
					obs.push(es);
					let n = (filled * es) as usize;
					obs.extend(bytes[..std::cmp::min(n, bytes.len())].iter().map(|b| *b as u64));
				},
			}
			// oracle: the value reads back bit-exact after reopen
			{
				let db = Db::open(&options(&dir, rc)).unwrap();
				let got = db.get(0, &key).unwrap();
				if got.as_ref() != Some(&val) {
					verdict = Err(format!("value-not-exact length {len} rc {rc}: read back {:?} bytes", got.map(|v| v.len())));
				}
				if db.get_size(0, &key).unwrap() != Some(len as u32) {
					verdict = Err(format!("size-wrong length {len}"));
				}
			}
			out.case(&case);
			out.obs(&obs);
			match verdict {
				Ok(()) => oracle.push_str("ok\n"),
				Err(e) => oracle.push_str(&format!("FAIL {e}\n")),
			}
			*dist.entry(format!("insert-{}", if len == 0 { "len0" } else if len < 32728 { "single" } else { "multipart" })).or_insert(0) += 1;
			distinct.insert((1u8, rc, len as u64, 0u64));
		} else {
			// ---- overwrite / remove sequences with accounting
			let nkeys = rng.range(2, 6) as usize;
			let nsteps = rng.range(4, 24) as usize;
			let keys: Vec<Vec<u8>> = (0..nkeys).map(|_| rng.bytes(32)).collect();
			let mut case = vec![6u64, 2, rc as u64, nkeys as u64, nsteps as u64];
			let mut cur: Vec<Option<Vec<u8>>> = vec![None; nkeys];
			let mut fixed_len: Vec<Option<usize>> = vec![None; nkeys];
			let db = Db::open_or_create(&options(&dir, rc)).unwrap();
			let mut sig = 0u64;
			let mut trace: Vec<String> = Vec::new();
			for s in 0..nsteps {
				let k = rng.below(nkeys as u64) as usize;
				// counted columns: preimage contract (one value per key) and removal only when count is one
				let remove = rng.chance(1, 4) && !(rc && cur[k].is_none());
				if remove {
					case.extend_from_slice(&[1, k as u64, 0]);
					db.commit(vec![(0u8, keys[k].clone(), None::<Vec<u8>>)]).unwrap();
					cur[k] = None;
					trace.push(format!("rm{k}"));
				} else {
					let len = if rc {
						*fixed_len[k].get_or_insert_with(|| boundary_lens(&sizes, &mut rng, rc))
					} else {
						boundary_lens(&sizes, &mut rng, rc)
					};
					if rc && cur[k].is_some() {
						// a second Set would raise the count: keep counts at one so that a removal frees the slot
						case.extend_from_slice(&[0, k as u64, len as u64]);
						continue_marker(&mut case);
						continue
					}
					let v = value(if rc { k as u64 + 77 } else { rng.next() }, len);
					case.extend_from_slice(&[0, k as u64, len as u64]);
					db.commit(vec![(0u8, keys[k].clone(), Some(v.clone()))]).unwrap();
					cur[k] = Some(v);
					trace.push(format!("set{k}:{len}"));
					sig = sig.wrapping_mul(31).wrapping_add(len as u64);
				}
				if s % 3 == 2 {
					drain(&db);
					trace.push("drain".into());
				}
			}
			drain(&db);
			let mut obs = Vec::new();
			let mut verdict = Ok(());
			for k in 0..nkeys {
				let got = db.get(0, &keys[k]).unwrap();
				obs.push(match (&got, &cur[k]) {
					(None, None) => 2,
					(Some(g), Some(c)) if g == c => 1,
					(None, Some(_)) => 2,
					_ => 3,
				});
				if got != cur[k] {
					verdict = Err(format!("value-not-exact key {k}: expected {:?} bytes, read {:?}; rc={rc} trace {:?}", cur[k].as_ref().map(|v| v.len()), got.as_ref().map(|v| v.len()), trace));
				}
			}
			drop(db);
			// raw accounting
			let mut per_tier: BTreeMap<u64, u64> = BTreeMap::new();
			for e in std::fs::read_dir(&dir).unwrap().flatten() {
				let n = e.file_name().to_string_lossy().to_string();
				if let Some(t) = n.strip_prefix("table_00_") {
					let bytes = std::fs::read(e.path()).unwrap();
					if bytes.len() < 16 {
						continue
					}
					let tier = u64::from_str_radix(t, 16).unwrap();
					let es = if (tier as usize) < sizes.len() { sizes[tier as usize] } else { 4096 } as usize;
					let mut next = u64::from_le_bytes(bytes[0..8].try_into().unwrap());
					let filled = u64::from_le_bytes(bytes[8..16].try_into().unwrap());
					let mut free = 0u64;
					let mut guard = 0;
					while next != 0 && guard < 1_000_000 {
						let off = next as usize * es;
						if next >= filled || off + 10 > bytes.len() || bytes[off] != 0xff || bytes[off + 1] != 0xff {
							verdict = Err(format!("free-list-broken tier {tier}: entry {next} of the free list is not a tombstone below the fill mark {filled}"));
							break
						}
						free += 1;
						next = u64::from_le_bytes(bytes[off + 2..off + 10].try_into().unwrap());
						guard += 1;
					}
					let live = filled.saturating_sub(1).saturating_sub(free);
					if live > 0 {
						per_tier.insert(tier, live);
					}
				}
			}
			for (t, l) in &per_tier {
				obs.push(*t);
				obs.push(*l);
			}
			out.case(&case);
			out.obs(&obs);
			match verdict {
				Ok(()) => oracle.push_str("ok\n"),
				Err(e) => oracle.push_str(&format!("FAIL {e}\n")),
			}
			*dist.entry("sequence".into()).or_insert(0) += 1;
			distinct.insert((2u8, rc, sig, nsteps as u64));
		}
	}
	let _ = std::fs::remove_dir_all(&scratch);
	out.write_file("oracle.txt", &oracle);
	let d: Vec<String> = dist.iter().map(|(k, v)| format!("{}: {}", crate::util::jstr(k), v)).collect();
	out.write_file(
		"stats.json",
		&format!("{{\"evaluations\": {}, \"distinct_nontrivial\": {}, \"distribution\": {{{}}}}}", count, distinct.len(), d.join(", ")),
	);
	out.finish();
	0
}

/// a skipped step is encoded as a removal of a key index that does not exist (no effect in the model)
fn continue_marker(case: &mut Vec<u64>) {
	let n = case.len();
	case[n - 3] = 1;
	case[n - 2] = 0xffff;
	case[n - 1] = 0;
}
