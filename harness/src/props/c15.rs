//! C15: the pipeline drains, with the background workers running and no stepping from outside.
//! 1-3 client threads commit transactions of very different sizes (empty, a few bytes, 100 KiB, several
//! MiB, once in a while more than the 16 MiB queue limit in one transaction), with random pauses.
//! Judged (a per-run watchdog turns a blocked call into class `hang`):
//!   commit-error                 a commit returned an error
//!   not-logged-without-activity  after the clients stopped, with no further call into the library, a copy of
//!                                the directory (taken while the handle is alive) must, within 8 s, contain
//!                                every commit - i.e. every commit reached the write-ahead log on its own
//!   drop-lost-data               after dropping the handle, a reopen shows every commit
//! Final state vs the model's specification function (case line kind 5, as for C05).
use crate::{prng::Rng, util::Out};
use parity_db::{ColumnOptions, Db, Options};
use std::collections::BTreeMap;
use std::sync::atomic::{AtomicU64, Ordering};
use std::sync::{Arc, Mutex};

const NKEYS: usize = 24;

fn key(i: usize) -> Vec<u8> {
	format!("key-number-{i:04}-................").into_bytes()
}

fn value(version: u64, i: usize, len: usize) -> Vec<u8> {
	let mut v = Vec::with_capacity(len.max(16));
	v.extend_from_slice(&version.to_le_bytes());
	v.extend_from_slice(&(i as u64).to_le_bytes());
	while v.len() < len {
		v.push((version as usize * 7 + v.len()) as u8);
	}
	v
}

fn read_versions(db: &Db) -> Vec<u64> {
	(0..NKEYS).map(|i| db.get(0, &key(i)).ok().flatten().map(|b| u64::from_le_bytes(b[0..8].try_into().unwrap())).unwrap_or(0)).collect()
}

fn copy_dir(from: &std::path::Path, to: &std::path::Path) {
	let _ = std::fs::remove_dir_all(to);
	std::fs::create_dir_all(to).unwrap();
	if let Ok(rd) = std::fs::read_dir(from) {
		for e in rd.flatten() {
			if e.file_name() != "lock" {
				let _ = std::fs::copy(e.path(), to.join(e.file_name()));
			}
		}
	}
}

pub fn main(args: &[String]) -> i32 {
	let seed: u64 = args[0].parse().unwrap();
	let count: u64 = args[1].parse().unwrap();
	let mut out = Out::new(&args[2]);
	let root = std::path::PathBuf::from(&args[2]);
	let dir = root.join("db");
	let img = root.join("img");
	let mut rng = Rng::new(seed ^ 0xC15);
	let mut oracle = String::new();
	let mut dist: BTreeMap<String, u64> = BTreeMap::new();
	let mut nontrivial = 0u64;
	for _ in 0..count {
		let _ = std::fs::remove_dir_all(&dir);
		let nclients = rng.range(1, 3) as usize;
		let ntx = rng.range(20, 160) as usize;
		let huge = rng.chance(1, 6);
		let mut opts = Options::with_columns(&dir, 1);
		opts.columns[0] = ColumnOptions::default();
		opts.always_flush = rng.chance(1, 3);
		crate::util::watch_begin(&out, &[15, seed, ntx as u64, nclients as u64, huge as u64]);
		let db = Arc::new(Db::open_or_create(&opts).expect("create"));
		// the plan: every transaction has a global version; clients take them in order from a shared counter,
		// the commit order is recorded under the same mutex that orders the commit calls
		struct Plan {
			keys: Vec<usize>,
			len: usize,
			pause_us: u64,
		}
		let mut plan = Vec::new();
		for n in 0..ntx {
			let nk = match rng.below(10) {
				0 => 0,
				1..=6 => rng.range(1, 4) as usize,
				_ => rng.range(4, 10) as usize,
			};
			let len = match rng.below(12) {
				0..=5 => rng.range(16, 200) as usize,
				6..=8 => rng.range(1000, 40000) as usize,
				9..=10 => rng.range(100_000, 400_000) as usize,
				_ => rng.range(1_000_000, 3_000_000) as usize,
			};
			let (nk, len) = if huge && n == ntx / 2 { (6, 3_000_000) } else { (nk, len) };
			let keys: Vec<usize> = (0..nk).map(|_| rng.below(NKEYS as u64) as usize).collect();
			plan.push(Plan { keys, len, pause_us: if rng.chance(1, 3) { rng.range(0, 2000) } else { 0 } });
		}
		let plan = Arc::new(plan);
		let next = Arc::new(Mutex::new((0usize, Vec::<(u64, Vec<usize>)>::new()))); // next plan index, commit list
		let failure: Arc<Mutex<Option<String>>> = Arc::new(Mutex::new(None));
		let bytes_total = Arc::new(AtomicU64::new(0));
		let mut clients = Vec::new();
		for _ in 0..nclients {
			let (db, plan, next, failure, bytes_total) = (db.clone(), plan.clone(), next.clone(), failure.clone(), bytes_total.clone());
			clients.push(std::thread::spawn(move || loop {
				// the order of versions is the order of the commit calls (one at a time per key set; calls of
				// different clients are serialised here so that "last writer" is well defined)
				let mut g = next.lock().unwrap();
				let n = g.0;
				if n >= plan.len() {
					break
				}
				g.0 += 1;
				let v = n as u64 + 1;
				let p = &plan[n];
				// a key may occur twice in a transaction: the later one wins, both carry the same version
				let tx: Vec<(u8, Vec<u8>, Option<Vec<u8>>)> = p.keys.iter().map(|i| (0u8, key(*i), Some(value(v, *i, p.len)))).collect();
				bytes_total.fetch_add((p.keys.len() * p.len) as u64, Ordering::Relaxed);
				let r = db.commit(tx);
				if let Err(e) = r {
					failure.lock().unwrap().get_or_insert(format!("commit-error {e:?}"));
					break
				}
				g.1.push((v, p.keys.clone()));
				drop(g);
				if p.pause_us > 0 {
					std::thread::sleep(std::time::Duration::from_micros(p.pause_us));
				}
			}));
		}
		for c in clients {
			let _ = c.join();
		}
		let commit_list = next.lock().unwrap().1.clone();
		let mut verdict: Result<(), String> = match failure.lock().unwrap().take() {
			Some(f) => Err(f),
			None => Ok(()),
		};
		// what every key must hold at the end
		let mut want = vec![0u64; NKEYS];
		for (v, ks) in &commit_list {
			for k in ks {
				want[*k] = *v;
			}
		}
		// no further activity: the commits must reach the log on their own
		if verdict.is_ok() {
			let mut logged = false;
			let mut waited = 0u64;
			for ms in [50u64, 150, 300, 500, 1000, 2000, 4000] {
				std::thread::sleep(std::time::Duration::from_millis(ms));
				waited += ms;
				copy_dir(&dir, &img);
				let mut q = opts.clone();
				q.path = img.clone();
				q.with_background_thread = false;
				if let Ok(d) = Db::open(&q) {
					if read_versions(&d) == want {
						logged = true;
					}
				}
				if logged {
					break
				}
			}
			*dist.entry("ms-until-everything-was-logged".into()).or_insert(0) += waited;
			if !logged {
				verdict = Err(format!("not-logged-without-activity {} ms after the last commit returned, a copy of the directory still misses commits", waited));
			}
		}
		let t0 = std::time::Instant::now();
		drop(Arc::try_unwrap(db).ok().expect("sole owner"));
		*dist.entry("ms-drop".into()).or_insert(0) += t0.elapsed().as_millis() as u64;
		crate::util::watch_end();
		let mut q = opts.clone();
		q.with_background_thread = false;
		let final_versions = match Db::open(&q) {
			Ok(d) => read_versions(&d),
			Err(e) => {
				if verdict.is_ok() {
					verdict = Err(format!("reopen-failed {e:?}"));
				}
				vec![0xeeee; NKEYS]
			},
		};
		if verdict.is_ok() && final_versions != want {
			verdict = Err("drop-lost-data after the handle was dropped a reopen does not show every commit".to_string());
		}
		let mut case = vec![5u64, commit_list.len() as u64];
		for (v, ks) in &commit_list {
			// duplicates inside a transaction: the specification takes the first pair of a commit, all carry the same value
			let mut seen = Vec::new();
			for k in ks {
				if !seen.contains(k) {
					seen.push(*k);
				}
			}
			case.push(seen.len() as u64);
			for k in seen {
				case.push(k as u64);
				case.push(*v);
			}
		}
		case.push(NKEYS as u64);
		for k in 0..NKEYS {
			case.push(commit_list.len() as u64);
			case.push(k as u64);
		}
		out.case(&case);
		out.obs(&final_versions);
		*dist.entry("commits".into()).or_insert(0) += commit_list.len() as u64;
		*dist.entry("MiB-committed".into()).or_insert(0) += bytes_total.load(Ordering::Relaxed) >> 20;
		*dist.entry(format!("clients-{nclients}")).or_insert(0) += 1;
		if huge {
			*dist.entry("runs-with-a-transaction-above-the-queue-limit".into()).or_insert(0) += 1;
		}
		if bytes_total.load(Ordering::Relaxed) > (4 << 20) {
			nontrivial += 1;
		}
		match verdict {
			Ok(()) => oracle.push_str("ok\n"),
			Err(e) => oracle.push_str(&format!("FAIL {e} [{} commits, {} clients]\n", commit_list.len(), nclients)),
		}
	}
	let _ = std::fs::remove_dir_all(&dir);
	let _ = std::fs::remove_dir_all(&img);
	out.write_file("oracle.txt", &oracle);
	let d: Vec<String> = dist.iter().map(|(k, v)| format!("{}: {}", crate::util::jstr(k), v)).collect();
	out.write_file(
		"stats.json",
		&format!("{{\"evaluations\": {}, \"distinct_nontrivial\": {}, \"distribution\": {{{}}}}}", count, nontrivial, d.join(", ")),
	);
	out.finish();
	0
}
