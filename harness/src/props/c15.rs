//! C15: the pipeline drains, with the background workers running and no stepping from outside.
//! 1-3 client threads commit transactions of very different sizes (empty, a few bytes, 100 KiB, several
//! MiB, once in a while more than the 16 MiB queue limit in one transaction), with random pauses.
//! Judged (a per-run watchdog turns a blocked call into class `hang`):
//!   commit-error                 a commit returned an error
//!   not-logged-without-activity  (half of the runs) the clients run in a child process which, once they are done,
//!                                makes no further call; after a quiet period of 0.3-2.5 s it is killed: the
//!                                directory is then a crash image and must hold every commit - every commit
//!                                reached the write-ahead log on its own
//!   drop-lost-data               after dropping the handle, a reopen shows every commit
//! Final state vs the model's specification function (case line kind 5, as for C05).
use crate::{prng::Rng, util::Out};
use parity_db::{ColumnOptions, Db, Options};
use std::collections::BTreeMap;
use std::sync::atomic::{AtomicU64, Ordering};
use std::sync::{Arc, Mutex};

const NKEYS: usize = 24;

fn key(i: usize) -> Vec<u8> {
	format!("key-number-{i:04}-................").into_bytes()
}

fn value(version: u64, i: usize, len: usize) -> Vec<u8> {
	let mut v = Vec::with_capacity(len.max(16));
	v.extend_from_slice(&version.to_le_bytes());
	v.extend_from_slice(&(i as u64).to_le_bytes());
	while v.len() < len {
		v.push((version as usize * 7 + v.len()) as u8);
	}
	v
}

fn read_versions(db: &Db) -> Vec<u64> {
	(0..NKEYS).map(|i| db.get(0, &key(i)).ok().flatten().map(|b| u64::from_le_bytes(b[0..8].try_into().unwrap())).unwrap_or(0)).collect()
}

struct Plan {
	keys: Vec<usize>,
	len: usize,
	pause_us: u64,
}

struct Scenario {
	/// a client sits in the callback of iter_column_while (holding the iteration lock the commit worker needs)
	/// while the other commits are logged and rotated; released when the clients are done
	iter_hold: bool,
	nclients: usize,
	huge: bool,
	always_flush: bool,
	plan: Vec<Plan>,
}

fn scenario(seed: u64) -> Scenario {
	let mut rng = Rng::new(seed ^ 0x5ce);
	// boundary scenario (a fifth of the runs): while the log worker is busy with one very large commit, a
	// single client queues one small commit and sixteen commits of exactly 1 MiB (key 32 + value), so that
	// the queue stands at small + 16 MiB when the client's next commit is throttled; the worker's next pop
	// leaves EXACTLY the 16 MiB limit queued
	if rng.chance(1, 5) {
		let mut plan = vec![Plan { keys: vec![0], len: 24 * 1048576 - 32, pause_us: 0 }, Plan { keys: vec![1], len: rng.range(100, 5000) as usize, pause_us: 0 }];
		for i in 0..16 {
			plan.push(Plan { keys: vec![2 + i], len: 1048576 - 32, pause_us: 0 });
		}
		for _ in 0..rng.range(2, 6) {
			plan.push(Plan { keys: vec![rng.below(NKEYS as u64) as usize], len: rng.range(16, 3000) as usize, pause_us: 0 });
		}
		return Scenario { iter_hold: false, nclients: 1, huge: true, always_flush: rng.chance(1, 3), plan }
	}
	// backlog scenario (a fifth of the runs): every commit is rotated into a log file of its own (always_flush) while
	// an iteration blocks enactment, so that more rotated files pile up than the commit worker enacts without
	// waiting for a cleanup pass
	if rng.chance(1, 4) {
		let n = rng.range(7, 16) as usize;
		let plan = (0..n).map(|i| Plan { keys: vec![1 + i % (NKEYS - 1)], len: rng.range(200, 3000) as usize, pause_us: rng.range(15000, 40000) }).collect();
		return Scenario { iter_hold: true, nclients: 1, huge: false, always_flush: true, plan }
	}
	let nclients = rng.range(1, 3) as usize;
	let ntx = rng.range(20, 160) as usize;
	let huge = rng.chance(1, 6);
	let always_flush = rng.chance(1, 3);
	let mut plan = Vec::new();
	for n in 0..ntx {
		let nk = match rng.below(10) {
			0 => 0,
			1..=6 => rng.range(1, 4) as usize,
			_ => rng.range(4, 10) as usize,
		};
		let len = match rng.below(12) {
			0..=5 => rng.range(16, 200) as usize,
			6..=8 => rng.range(1000, 40000) as usize,
			9..=10 => rng.range(100_000, 400_000) as usize,
			_ => rng.range(1_000_000, 3_000_000) as usize,
		};
		let (nk, len) = if huge && n == ntx / 2 { (6, 3_000_000) } else { (nk, len) };
		let keys: Vec<usize> = if huge && n == ntx / 2 { (0..6).collect() } else { (0..nk).map(|_| rng.below(NKEYS as u64) as usize).collect() };
		plan.push(Plan { keys, len, pause_us: if rng.chance(1, 3) { rng.range(0, 2000) } else { 0 } });
	}
	Scenario { iter_hold: false, nclients, huge, always_flush, plan }
}

fn options(dir: &std::path::Path, sc: &Scenario) -> Options {
	let mut opts = Options::with_columns(dir, 1);
	opts.columns[0] = ColumnOptions::default();
	opts.always_flush = sc.always_flush;
	opts
}

/// run the clients against an open handle; returns the commit list (version, keys) in commit order
fn run_clients(db: &Arc<Db>, sc: Scenario) -> (Vec<(u64, Vec<usize>)>, Option<String>, u64) {
	// the iteration that holds the lock: one value is brought into the tables first, so that there is something to visit
	let mut release: Option<(std::sync::mpsc::Sender<()>, std::thread::JoinHandle<()>)> = None;
	let mut pre: Vec<(u64, Vec<usize>)> = Vec::new();
	if sc.iter_hold {
		let _ = db.commit(vec![(0u8, key(0), Some(value(1_000_000, 0, 64)))]);
		pre.push((1_000_000, vec![0]));
		let t0 = std::time::Instant::now();
		loop {
			let mut seen = 0;
			let _ = db.iter_column_while(0, |_| {
				seen += 1;
				true
			});
			if seen > 0 || t0.elapsed().as_secs() > 10 {
				break
			}
			std::thread::sleep(std::time::Duration::from_millis(5));
		}
		let (started_tx, started_rx) = std::sync::mpsc::channel::<()>();
		let (release_tx, release_rx) = std::sync::mpsc::channel::<()>();
		let idb = db.clone();
		let h = std::thread::spawn(move || {
			// the callback blocks ONCE: returning false ends the iteration of one value table only, the tables of the
			// other size tiers are still visited (and since repair F15 they show what has been logged meanwhile)
			let mut first = true;
			let _ = idb.iter_column_while(0, |_| {
				if first {
					first = false;
					let _ = started_tx.send(());
					let _ = release_rx.recv_timeout(std::time::Duration::from_secs(30));
				}
				false
			});
		});
		let _ = started_rx.recv_timeout(std::time::Duration::from_secs(10));
		release = Some((release_tx, h));
	}
	let nclients = sc.nclients;
	let plan = Arc::new(sc.plan);
	let next = Arc::new(Mutex::new((0usize, Vec::<(u64, Vec<usize>)>::new())));
	let failure: Arc<Mutex<Option<String>>> = Arc::new(Mutex::new(None));
	let bytes_total = Arc::new(AtomicU64::new(0));
	let mut clients = Vec::new();
	for _ in 0..nclients {
		let (db, plan, next, failure, bytes_total) = (db.clone(), plan.clone(), next.clone(), failure.clone(), bytes_total.clone());
		clients.push(std::thread::spawn(move || loop {
			// the order of versions is the order of the commit calls (calls of different clients are
			// serialised here so that "last writer" is well defined)
			let mut g = next.lock().unwrap();
			let n = g.0;
			if n >= plan.len() {
				break
			}
			g.0 += 1;
			let v = n as u64 + 1;
			let p = &plan[n];
			let tx: Vec<(u8, Vec<u8>, Option<Vec<u8>>)> = p.keys.iter().map(|i| (0u8, key(*i), Some(value(v, *i, p.len)))).collect();
			bytes_total.fetch_add((p.keys.len() * p.len) as u64, Ordering::Relaxed);
			if let Err(e) = db.commit(tx) {
				failure.lock().unwrap().get_or_insert(format!("commit-error {e:?}"));
				break
			}
			g.1.push((v, p.keys.clone()));
			drop(g);
			if p.pause_us > 0 {
				std::thread::sleep(std::time::Duration::from_micros(p.pause_us));
			}
		}));
	}
	for c in clients {
		let _ = c.join();
	}
	if let Some((tx, h)) = release {
		let _ = tx.send(());
		let _ = h.join();
	}
	let mut list = pre;
	list.extend(next.lock().unwrap().1.clone());
	let f = failure.lock().unwrap().take();
	(list, f, bytes_total.load(Ordering::Relaxed))
}

/// child process: open, run the clients, report the commit list, then do NOTHING until killed
pub fn child_main(args: &[String]) -> i32 {
	let dir = std::path::PathBuf::from(&args[0]);
	let seed: u64 = args[1].parse().unwrap();
	let sc = scenario(seed);
	// go away when the parent is gone, whatever the main thread is doing (with a defect in the library it may sit in
	// a commit call for ever)
	let parent = unsafe { libc::getppid() };
	std::thread::spawn(move || loop {
		std::thread::sleep(std::time::Duration::from_millis(200));
		if unsafe { libc::getppid() } != parent {
			std::process::exit(0);
		}
	});
	let db = Arc::new(Db::open_or_create(&options(&dir, &sc)).expect("create"));
	let (list, f, bytes) = run_clients(&db, sc);
	use std::io::Write;
	let mut o = std::io::stdout();
	for (v, ks) in &list {
		let _ = writeln!(o, "c {v} {}", ks.iter().map(|k| k.to_string()).collect::<Vec<_>>().join(" "));
	}
	if let Some(f) = f {
		let _ = writeln!(o, "f {f}");
	}
	let _ = writeln!(o, "done {bytes}");
	let _ = o.flush();
	// no further call into the library (the thread above ends the process when the parent is gone)
	loop {
		std::thread::sleep(std::time::Duration::from_millis(1000));
	}
}

pub fn main(args: &[String]) -> i32 {
	let seed: u64 = args[0].parse().unwrap();
	let count: u64 = args[1].parse().unwrap();
	let mut out = Out::new(&args[2]);
	let root = std::path::PathBuf::from(&args[2]);
	let dir = root.join("db");
	let mut oracle = String::new();
	let mut dist: BTreeMap<String, u64> = BTreeMap::new();
	let mut nontrivial = 0u64;
	for case_no in 0..count {
		let mut rng = crate::util::case_rng(seed ^ 0xC15, case_no);
		if crate::util::skip_case(case_no) {
			continue
		}
		let _ = std::fs::remove_dir_all(&dir);
		let sseed = rng.next();
		let sc = scenario(sseed);
		let (nclients, huge, ntx) = (sc.nclients, sc.huge, sc.plan.len());
		let (always_flush, iter_hold) = (sc.always_flush, sc.iter_hold);
		let opts = options(&dir, &sc);
		let kill_mode = rng.chance(1, 2);
		crate::util::watch_begin(&out, &[15, sseed, ntx as u64, nclients as u64, huge as u64, kill_mode as u64]);
		let mut verdict: Result<(), String> = Ok(());
		let commit_list: Vec<(u64, Vec<usize>)>;
		let bytes: u64;
		if kill_mode {
			// the clients run in a child process; once they are done the child makes no further call; after a
			// quiet period it is killed: the directory is then a crash image that must hold every commit
			use std::io::BufRead;
			let exe = std::env::current_exe().unwrap();
			let mut ch = std::process::Command::new(exe)
				.arg("c15child")
				.arg(&dir)
				.arg(sseed.to_string())
				.stdin(std::process::Stdio::null())
				.stdout(std::process::Stdio::piped())
				.stderr(std::process::Stdio::null())
				.spawn()
				.expect("spawn child");
			let rd = std::io::BufReader::new(ch.stdout.take().unwrap());
			let mut list = Vec::new();
			let mut b = 0u64;
			let mut finished = false;
			for line in rd.lines() {
				let line = line.unwrap_or_default();
				let mut it = line.split_whitespace();
				match it.next() {
					Some("c") => {
						let v: u64 = it.next().unwrap().parse().unwrap();
						list.push((v, it.map(|x| x.parse().unwrap()).collect()));
					},
					Some("f") => verdict = Err(line[2..].to_string()),
					Some("done") => {
						b = it.next().unwrap().parse().unwrap();
						finished = true;
						break
					},
					_ => (),
				}
			}
			if !finished && verdict.is_ok() {
				verdict = Err("child-died the client process ended before reporting".into());
			}
			// the quiet period: at least 0.3 - 2.5 s, and until the files of the directory have not changed in size
			// for one and a half seconds (workers that are still writing are not stuck; a lost wake-up shows as a
			// directory that stays as it is while commits are missing)
			let quiet = *rng.pick(&[300u64, 1000, 2500]);
			std::thread::sleep(std::time::Duration::from_millis(quiet));
			let sizes = |d: &std::path::Path| -> Vec<(String, u64)> {
				let mut v: Vec<(String, u64)> = std::fs::read_dir(d).map(|rd| rd.flatten().map(|e| (e.file_name().to_string_lossy().to_string(), e.metadata().map(|m| m.len()).unwrap_or(0))).collect()).unwrap_or_default();
				v.sort();
				v
			};
			let mut last = sizes(&dir);
			let mut stable = 0;
			for _ in 0..600 {
				std::thread::sleep(std::time::Duration::from_millis(100));
				let now = sizes(&dir);
				if now == last {
					stable += 1;
					if stable >= 15 {
						break
					}
				} else {
					stable = 0;
					last = now;
				}
			}
			// with always_flush every record is rotated into a finished log file at once: in the quiet state all of
			// them have been applied to the tables and cleaned, the log files are empty
			if always_flush && verdict.is_ok() {
				let left: u64 = last.iter().filter(|(n, _)| n.starts_with("log") && n[3..].parse::<u32>().is_ok()).map(|(_, s)| *s).sum();
				if left != 0 {
					verdict = Err(format!("not-applied-without-activity the clients had stopped and the directory had not changed for 1.5 s: {left} bytes of rotated log records are still not applied to the tables and cleaned"));
				}
			}
			let _ = ch.kill();
			let _ = ch.wait();
			if iter_hold {
				*dist.entry("runs-with-an-iteration-holding-back-enactment".into()).or_insert(0) += 1;
			}
			*dist.entry("runs-killed-after-a-quiet-period".into()).or_insert(0) += 1;
			commit_list = list;
			bytes = b;
		} else {
			let db = Arc::new(Db::open_or_create(&opts).expect("create"));
			let (list, f, b) = run_clients(&db, sc);
			if let Some(f) = f {
				verdict = Err(f);
			}
			let t0 = std::time::Instant::now();
			drop(Arc::try_unwrap(db).ok().expect("sole owner"));
			*dist.entry("ms-drop".into()).or_insert(0) += t0.elapsed().as_millis() as u64;
			commit_list = list;
			bytes = b;
		}
		crate::util::watch_end();
		let mut want = vec![0u64; NKEYS];
		for (v, ks) in &commit_list {
			for k in ks {
				want[*k] = *v;
			}
		}
		let mut q = opts.clone();
		q.with_background_thread = false;
		let final_versions = match std::panic::catch_unwind(std::panic::AssertUnwindSafe(|| Db::open(&q).map(|d| read_versions(&d)))) {
			Ok(Ok(v)) => v,
			Ok(Err(e)) => {
				if verdict.is_ok() {
					verdict = Err(format!("reopen-failed {e:?}"));
				}
				vec![0xeeee; NKEYS]
			},
			Err(_) => {
				if verdict.is_ok() {
					verdict = Err("reopen-panic opening or reading the directory panicked".into());
				}
				vec![0xeeee; NKEYS]
			},
		};
		if verdict.is_ok() && final_versions != want {
			verdict = Err(if kill_mode {
				"not-logged-without-activity the clients had stopped, no call was made for the quiet period, the process was killed: the directory misses commits".to_string()
			} else {
				"drop-lost-data after the handle was dropped a reopen does not show every commit".to_string()
			});
		}
		let mut case = vec![5u64, commit_list.len() as u64];
		for (v, ks) in &commit_list {
			let mut seen = Vec::new();
			for k in ks {
				if !seen.contains(k) {
					seen.push(*k);
				}
			}
			case.push(seen.len() as u64);
			for k in seen {
				case.push(k as u64);
				case.push(*v);
			}
		}
		case.push(NKEYS as u64);
		for k in 0..NKEYS {
			case.push(commit_list.len() as u64);
			case.push(k as u64);
		}
		out.case(&case);
		out.obs(&final_versions);
		*dist.entry("commits".into()).or_insert(0) += commit_list.len() as u64;
		*dist.entry("MiB-committed".into()).or_insert(0) += bytes >> 20;
		*dist.entry(format!("clients-{nclients}")).or_insert(0) += 1;
		if huge {
			*dist.entry("runs-with-a-transaction-above-the-queue-limit".into()).or_insert(0) += 1;
		}
		if bytes > (4 << 20) {
			nontrivial += 1;
		}
		match verdict {
			Ok(()) => oracle.push_str("ok\n"),
			Err(e) => oracle.push_str(&format!("FAIL {e} [{} commits, {} clients, kill mode {}]\n", commit_list.len(), nclients, kill_mode)),
		}
	}
	let _ = std::fs::remove_dir_all(&dir);
	out.write_file("oracle.txt", &oracle);
	let d: Vec<String> = dist.iter().map(|(k, v)| format!("{}: {}", crate::util::jstr(k), v)).collect();
	out.write_file(
		"stats.json",
		&format!("{{\"evaluations\": {}, \"distinct_nontrivial\": {}, \"distribution\": {{{}}}}}", count, nontrivial, d.join(", ")),
	);
	out.finish();
	0
}
