//! C04 (mutation): the shape of the on-disk btree against the model of coq/Model/BTreeMut.v.
//! One operation per transaction, drained; after every operation the tree is read back from the raw table
//! files (header slot -> root -> nodes) and compared with the tree the model's bstep builds: where a key is
//! inserted, how a full node is split, which key replaces a removed separator, from which sibling a node
//! borrows, when nodes are merged, when the root gains or loses a level.
//! Case line: 104 nops (1 k | 2 k)*    1 k: key number k (keys are numbered in byte order) is set; 2 k: removed
//! Observation after every operation: depth, then node := nseps inner first? (key child?)*
use crate::{props::{c04t::dump_node, hist}, rawdump::Raw, util::Out};
use parity_db::{Db, Operation};
use std::collections::BTreeMap;

pub fn main(args: &[String]) -> i32 {
	let seed: u64 = args[0].parse().unwrap();
	let count: u64 = args[1].parse().unwrap();
	let mut out = Out::new(&args[2]);
	let dir = std::path::PathBuf::from(&args[2]).join("db");
	let mut oracle = String::new();
	let mut dist: BTreeMap<String, u64> = BTreeMap::new();
	let mut nontrivial = 0u64;
	for case_no in 0..count {
		let mut rng = crate::util::case_rng(seed ^ 0xC04D, case_no);
		if crate::util::skip_case(case_no) {
			continue
		}
		crate::util::watch_begin(&out, &[104, case_no]);
		let nkeys = rng.range(30, 200) as usize;
		let mut keys: Vec<Vec<u8>> = Vec::new();
		while keys.len() < nkeys {
			let len = rng.range(1, 12) as usize;
			let k: Vec<u8> = (0..len).map(|_| *rng.pick(&[0u8, 1, 2, 0x7f, 0xff])).collect();
			if !keys.contains(&k) {
				keys.push(k);
			}
		}
		keys.sort();
		let cfg = hist::ColCfg { btree: true, rc: false, preimage: false, uniform: false, compression: 0, threshold: 4096 };
		let case = hist::Case { cols: vec![cfg], keys: vec![keys.clone()], steps: vec![], salt_zero: false, class: "c04m".into() };
		let opts = hist::options_for(&case, &dir);
		let _ = std::fs::remove_dir_all(&dir);
		let mut live: Vec<bool> = vec![false; nkeys];
		let nops = rng.range(40, 260) as usize;
		// three phases: grow (ascending, descending or random), churn, shrink
		let order = rng.below(3);
		let mut toks: Vec<u64> = vec![104, 0];
		let mut obs: Vec<u64> = Vec::new();
		let mut verdict: Result<(), String> = Ok(());
		let mut done = 0u64;
		let mut max_depth = 0u32;
		let mut batched = 0u64;
		let res = std::panic::catch_unwind(std::panic::AssertUnwindSafe(|| {
			let db = Db::open_or_create(&opts).unwrap();
			let mut next = 0usize;
			for opno in 0..nops {
				let nlive = live.iter().filter(|x| **x).count();
				let phase = opno * 3 / nops;
				let want_del = match phase {
					0 => rng.chance(1, 10),
					1 => rng.chance(1, 2),
					_ => rng.chance(4, 5),
				};
				// a third of the transactions carry several changes (2-6 different keys, applied in key order by one
				// descent of Node::change); the model applies them one after the other
				let batch = if rng.chance(1, 3) { rng.range(2, 6) as usize } else { 1 };
				let mut chosen: Vec<(usize, bool)> = Vec::new();
				for _ in 0..batch {
					let nlive_now = live.iter().filter(|x| **x).count();
					let del = if chosen.is_empty() { want_del } else { rng.chance(1, 2) };
					if del && nlive_now > 0 {
						let ks: Vec<usize> = (0..nkeys).filter(|k| live[*k] && !chosen.iter().any(|c| c.0 == *k)).collect();
						if ks.is_empty() {
							continue
						}
						let k = match rng.below(4) {
							0 => ks[0],
							1 => ks[ks.len() - 1],
							_ => *rng.pick(&ks),
						};
						chosen.push((k, true));
					} else {
						let k = match order {
							0 if next < nkeys => {
								next += 1;
								next - 1
							},
							1 if next < nkeys => {
								next += 1;
								nkeys - next
							},
							_ => rng.below(nkeys as u64) as usize,
						};
						if !chosen.iter().any(|c| c.0 == k) {
							chosen.push((k, false));
						}
					}
				}
				if chosen.is_empty() {
					continue
				}
				chosen.sort();
				let mut tx = Vec::new();
				for (n, (k, del)) in chosen.iter().enumerate() {
					let lastop = n + 1 == chosen.len();
					if *del {
						tx.push((0u8, Operation::Dereference(keys[*k].clone())));
						live[*k] = false;
						toks.extend_from_slice(&[if lastop { 2 } else { 4 }, *k as u64 + 1]);
					} else {
						let vl = rng.range(0, 40) as usize;
						tx.push((0u8, Operation::Set(keys[*k].clone(), rng.bytes(vl))));
						live[*k] = true;
						toks.extend_from_slice(&[if lastop { 1 } else { 3 }, *k as u64 + 1]);
					}
				}
				// the transaction is given in a shuffled order: the library sorts the changes of a btree column
				rng.shuffle(&mut tx);
				db.commit_changes(tx).unwrap();
				if chosen.len() > 1 {
					batched += 1;
				}
				done += chosen.len() as u64 - 1;
				for _ in 0..2 {
					db.process_commits().unwrap();
				}
				db.flush_logs().unwrap();
				for _ in 0..3 {
					db.enact_logs().unwrap();
				}
				db.clean_logs().unwrap();
				done += 1;
				let mut raw = Raw::new(&dir);
				let header = raw.value(0, 1 << 8, false, false);
				let (root, depth) = match header {
					Some(h) if h.len() >= 12 => (u64::from_le_bytes(h[0..8].try_into().unwrap()), u32::from_le_bytes(h[8..12].try_into().unwrap())),
					_ => (0, 0),
				};
				max_depth = max_depth.max(depth);
				obs.push(depth as u64);
				let mut budget = 100000u32;
				if root == 0 {
					obs.extend_from_slice(&[0, 0]);
				} else if !dump_node(&mut raw, 0, false, root, depth, &keys, &mut obs, &mut budget) {
					if verdict.is_ok() {
						verdict = Err(format!("tree-unreadable after operation {opno}: a node or child could not be read from the raw files"));
					}
				}
				// property: point reads
				for k in 0..nkeys {
					let got = db.get(0, &keys[k]).unwrap().is_some();
					if got != live[k] && verdict.is_ok() {
						verdict = Err(format!("stale-or-lost after operation {opno}: key {k} present {got}, expected {}", live[k]));
					}
				}
			}
		}));
		if res.is_err() && verdict.is_ok() {
			verdict = Err("panic in a btree mutation history".into());
		}
		crate::util::watch_end();
		toks[1] = done;
		out.case(&toks);
		out.obs(&obs);
		match verdict {
			Ok(()) => oracle.push_str("ok\n"),
			Err(e) => oracle.push_str(&format!("FAIL {e}\n")),
		}
		*dist.entry(format!("mutation-histories-max-depth-{max_depth}")).or_insert(0) += 1;
		*dist.entry("transactions-with-several-changes".into()).or_insert(0) += batched;
		if max_depth >= 1 {
			nontrivial += 1;
		}
	}
	let _ = std::fs::remove_dir_all(&dir);
	out.write_file("oracle.txt", &oracle);
	let d: Vec<String> = dist.iter().map(|(k, v)| format!("{}: {}", crate::util::jstr(k), v)).collect();
	out.write_file(
		"stats.json",
		&format!("{{\"evaluations\": {}, \"distinct_nontrivial\": {}, \"distribution\": {{{}}}}}", count, nontrivial, d.join(", ")),
	);
	out.finish();
	0
}
