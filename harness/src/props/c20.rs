//! C20: migration. Builds a source database of hash columns, migrates it with the real
//! `parity_db::migrate`, reads the destination back.
//! Case line: 20 ncols (src flags, dst flags, forced)*ncols overwrite nkeys (col key present vtok rc)*
//!   flags: bit0 preimage, bit1 ref_counted, bit2 compression (lz4), bit3 uniform
//! Observation: status, then per (col, key): value token+1 or 0, count (0 when the destination does not count)
use crate::{prng::Rng, props::hist::value_bytes, util::Out};
use parity_db::{ColumnOptions, CompressionType, Db, Operation, Options};
use std::collections::BTreeMap;
use std::path::Path;

#[derive(Clone, Debug)]
struct Flags {
	preimage: bool,
	rc: bool,
	lz4: bool,
	uniform: bool,
	btree: bool,
}
impl Flags {
	fn bits(&self) -> u64 {
		(self.preimage as u64) | (self.rc as u64) << 1 | (self.lz4 as u64) << 2 | (self.uniform as u64) << 3 | (self.btree as u64) << 4
	}
	fn opts(&self) -> ColumnOptions {
		ColumnOptions {
			preimage: self.preimage,
			uniform: self.uniform,
			ref_counted: self.rc,
			btree_index: self.btree,
			compression: if self.lz4 { CompressionType::Lz4 } else { CompressionType::NoCompression },
			..Default::default()
		}
	}
}

fn options(path: &Path, cols: &[Flags], salt: [u8; 32]) -> Options {
	let mut o = Options::with_columns(path, cols.len() as u8);
	o.stats = false;
	o.with_background_thread = false;
	o.salt = Some(salt);
	o.columns = cols.iter().map(|c| c.opts()).collect();
	for i in 0..cols.len() {
		o.compression_threshold.insert(i as u8, 64);
	}
	o
}

fn key_bytes(c: usize, k: usize, uniform: bool, rng_tag: u64) -> Vec<u8> {
	let mut r = Rng::new(rng_tag ^ ((c as u64) << 32) ^ k as u64);
	if uniform {
		let mut b = r.bytes(32);
		if rng_tag & 1 == 1 {
			// clustered: the keys of the column fall into two index pages (under the all-zero salt a uniform
			// key is its own hash)
			b[0] = (rng_tag >> 8) as u8;
			b[1] = ((rng_tag >> 16) as u8 & 0xfe) | (k as u8 & 1);
		}
		b
	} else {
		// the first byte keeps the keys of one column distinct
		let n = 1 + (r.below(40) as usize);
		let mut b = r.bytes(n);
		b[0] = k as u8;
		b
	}
}

fn snapshot(dir: &Path) -> BTreeMap<String, Vec<u8>> {
	let mut m = BTreeMap::new();
	if let Ok(rd) = std::fs::read_dir(dir) {
		for e in rd.flatten() {
			let name = e.file_name().to_string_lossy().to_string();
			if e.path().is_file() && name != "lock" {
				m.insert(name, std::fs::read(e.path()).unwrap_or_default());
			}
		}
	}
	m
}

pub fn main(args: &[String]) -> i32 {
	let seed: u64 = args[0].parse().unwrap();
	let count: u64 = args[1].parse().unwrap();
	let mut out = Out::new(&args[2]);
	let scratch = std::path::PathBuf::from(&args[2]).join("scratch");
	let mut oracle = String::new();
	let mut dist: BTreeMap<String, u64> = BTreeMap::new();
	let mut nontrivial = 0u64;
	for case_no in 0..count {
		let mut rng = crate::util::case_rng(seed ^ 0xC20, case_no);
		if crate::util::skip_case(case_no) {
			continue
		}
		crate::util::watch_begin(&out, &[20, case_no]);
		// boundary family (1 case in 25): ONE counted column whose counts add up to a number of insertions at or next to a
		// multiple of the migration's batch size (COMMIT_SIZE = 10240 insertions per commit, counted over the whole run)
		let boundary: Option<u64> = if rng.chance(1, 25) { Some(*rng.pick(&[10239u64, 10240, 10241, 10242, 20480, 20481, 20482, 20483])) } else { None };
		let ncols = if boundary.is_some() { 1 } else { rng.range(1, 3) as usize };
		let mut src: Vec<Flags> = Vec::new();
		let mut dst: Vec<Flags> = Vec::new();
		let mut forced: Vec<bool> = Vec::new();
		for _ in 0..ncols {
			let rc = rng.chance(1, 2);
			let uniform = rng.chance(1, 3);
			let s = Flags { preimage: rc || rng.chance(1, 3), rc, lz4: rng.chance(1, 3), uniform, btree: false };
			// destination keeps the hashing scheme (uniform flag), may change the rest
			let d = if rng.chance(1, 4) {
				s.clone()
			} else {
				let drc = rng.chance(1, 2);
				Flags { preimage: drc || rng.chance(1, 3), rc: drc, lz4: rng.chance(1, 2), uniform, btree: false }
			};
			let (s, d) = if boundary.is_some() {
				let f = Flags { preimage: true, rc: true, lz4: false, uniform, btree: false };
				(f.clone(), f)
			} else {
				(s, d)
			};
			// (an unchanged column is copied as files unless the migration is forced)
			forced.push(boundary.is_some() || rng.chance(1, 3));
			src.push(s);
			dst.push(d);
		}
		// btree family (1 case in 10): migration is only implemented between hash columns. A btree column that is not
		// selected is copied as files like any other; a selected one (forced, or hash -> btree) makes the call fail
		// before anything is written (model: C20_refused_iff, error code 2)
		let mut expect_refusal = 0u64;
		if boundary.is_none() && rng.chance(1, 10) {
			let c = rng.below(ncols as u64) as usize;
			let b = Flags { preimage: false, rc: false, lz4: rng.chance(1, 2), uniform: false, btree: true };
			match rng.below(3) {
				0 => {
					src[c] = b.clone();
					dst[c] = b;
					forced[c] = false;
					*dist.entry("btree-column-copied".to_string()).or_insert(0) += 1;
				},
				1 => {
					src[c] = b.clone();
					dst[c] = b;
					forced[c] = true;
					expect_refusal = 2;
					*dist.entry("btree-column-forced-refused".to_string()).or_insert(0) += 1;
				},
				_ => {
					dst[c] = b;
					expect_refusal = 2;
					*dist.entry("hash-to-btree-refused".to_string()).or_insert(0) += 1;
				},
			}
		}
		let overwrite = rng.chance(1, 4);
		// column-count family (1 case in 25): the requested configuration has one column more than the source
		let extra_col = boundary.is_none() && rng.chance(1, 25);
		if extra_col {
			expect_refusal = 1;
			*dist.entry("column-count-mismatch-refused".to_string()).or_insert(0) += 1;
		}
		let nkeys = if boundary.is_some() { rng.range(8, 12) as usize } else { rng.range(2, 12) as usize };
		if let Some(t) = boundary {
			*dist.entry(format!("boundary-total-insertions-{t}")).or_insert(0) += 1;
		}
		let salt_zero = rng.chance(1, 3);
		let salt: [u8; 32] = {
			let b = rng.bytes(32);
			let mut s = [0u8; 32];
			if !salt_zero {
				s.copy_from_slice(&b);
			}
			s
		};
		// bit 0 of the tag: clustered uniform keys (only under the zero salt)
		let tag = (rng.next() & !1) | (salt_zero as u64);
		*dist.entry(if salt_zero { "salt-zero-clustered-pages".to_string() } else { "salt-random".to_string() }).or_insert(0) += 1;
		let sdir = scratch.join("src");
		let ddir = scratch.join("dst");
		let _ = std::fs::remove_dir_all(&scratch);
		// content: per (col, key): present?, value token, count
		let mut content: Vec<Vec<(bool, u64, u64)>> = Vec::new();
		{
			let db = Db::open_or_create(&options(&sdir, &src, salt)).unwrap();
			// keys that are inserted and removed again before the migration (their index slot is zeroed in place)
			let mut removed: Vec<(usize, usize, u64)> = Vec::new();
			for c in 0..ncols {
				let mut col = Vec::new();
				for k in 0..nkeys {
					let fate = if boundary.is_some() { 0 } else { rng.below(10) };
					let present = fate < 6;
					let gone = fate >= 6 && fate < 9;
					let len = match rng.below(8) {
						0 => rng.range(33000, 70000),
						1 => rng.range(4000, 9000),
						2 => 0,
						_ => rng.range(1, 300),
					};
					// counted columns: value iteration identifies a key by its value bytes, keep them distinct
					let len = if src[c].rc || dst[c].rc { std::cmp::max(len, 8) } else { len };
					let vtok = ((((c as u64) << 8 | k as u64) * 2 + rng.below(2) + 2) << 32) | len;
					let cnt = match boundary {
						// the counts of the column add up to the chosen total
						Some(t) => t / nkeys as u64 + if k == 0 { t % nkeys as u64 } else { 0 },
						None => if src[c].rc { rng.range(1, 4) } else { 1 },
					};
					let len = if boundary.is_some() { 8 + (len % 200) } else { len };
					let vtok = if boundary.is_some() { (vtok >> 32 << 32) | len } else { vtok };
					if present || gone {
						let key = key_bytes(c, k, src[c].uniform, tag);
						let mut tx = vec![(c as u8, Operation::Set(key.clone(), value_bytes(vtok)))];
						for _ in 1..cnt {
							tx.push((c as u8, Operation::Reference(key.clone())));
						}
						db.commit_changes(tx).unwrap();
					}
					if gone {
						removed.push((c, k, cnt));
						*dist.entry("keys-removed-before-migration".to_string()).or_insert(0) += 1;
					}
					col.push((present, vtok, cnt));
				}
				content.push(col);
			}
			if rng.chance(1, 2) {
				for _ in 0..(ncols * nkeys + 2) {
					db.process_commits().unwrap();
				}
				db.flush_logs().unwrap();
				db.enact_logs().unwrap();
			}
			for (c, k, cnt) in removed {
				let key = key_bytes(c, k, src[c].uniform, tag);
				// one Dereference per reference (cnt is 1 in a column without counting: the value is removed)
				db.commit_changes((0..cnt).map(|_| (c as u8, Operation::Dereference(key.clone()))).collect::<Vec<_>>()).unwrap();
			}
			while {
				db.process_commits().unwrap();
				db.flush_logs().unwrap();
				db.enact_logs().unwrap();
				db.clean_logs().unwrap();
				false
			} {}
			for _ in 0..(2 * ncols * nkeys + 2) {
				db.process_commits().unwrap();
			}
			db.flush_logs().unwrap();
			db.enact_logs().unwrap();
			db.clean_logs().unwrap();
		}
		let before = snapshot(&sdir);
		let force_list: Vec<u8> = forced.iter().enumerate().filter(|(_, f)| **f).map(|(i, _)| i as u8).collect();
		let mut to = if extra_col {
			let mut d2 = dst.clone();
			d2.push(Flags { preimage: false, rc: false, lz4: false, uniform: false, btree: false });
			options(&ddir, &d2, salt)
		} else {
			options(&ddir, &dst, salt)
		};
		to.with_background_thread = false;
		let res = std::panic::catch_unwind(std::panic::AssertUnwindSafe(|| parity_db::migrate(&sdir, to, overwrite, &force_list)));
		let status = match &res {
			Ok(Ok(())) => 0u64,
			Ok(Err(_)) => 1,
			Err(_) => 99,
		};
		// read the result
		let read_dir = if overwrite { &sdir } else { &ddir };
		let mut obs = vec![status];
		let mut verdict: Result<(), String> = Ok(());
		let errcode = match &res {
			Ok(Err(e)) => {
				let m = format!("{e:?}");
				if m.contains("columns mismatch") {
					1u64
				} else if m.contains("only implemented for hash") {
					2
				} else {
					9
				}
			},
			_ => 0,
		};
		if status == 1 {
			obs.push(errcode);
		}
		if status != 0 && expect_refusal != 0 && errcode == expect_refusal {
			// a refused call must leave the source as it was
			let sdb = Db::open(&options(&sdir, &src, salt)).unwrap();
			for c in 0..ncols {
				for k in 0..nkeys {
					let (present, vtok, _) = content[c][k];
					let got = sdb.get(c as u8, &key_bytes(c, k, src[c].uniform, tag)).unwrap();
					let want = if present { Some(value_bytes(vtok)) } else { None };
					if got != want && verdict.is_ok() {
						verdict = Err(format!("source-modified col {c} key {k} of the source changed although the migration was refused"));
					}
				}
			}
		} else if status != 0 {
			verdict = Err(format!("migrate-failed migrate returned {:?}", res.as_ref().map(|r| r.as_ref().map_err(|e| format!("{e:?}")))));
		} else if expect_refusal != 0 {
			verdict = Err(format!("migrate-accepted-btree a selected btree column was accepted: src {:?} dst {:?} forced {:?}", src, dst, forced));
		} else {
			let db = Db::open(&options(read_dir, &dst, salt)).unwrap();
			for c in 0..ncols {
				let mut counts: BTreeMap<Vec<u8>, u64> = BTreeMap::new();
				if dst[c].rc {
					db.iter_column_while(c as u8, |st| {
						if std::env::var("VERIF_TRACE").is_ok() {
							eprintln!("case {case_no} col {c}: iter value len {} rc {}", st.value.len(), st.rc);
						}
						*counts.entry(st.value.clone()).or_insert(0) += st.rc as u64;
						true
					})
					.unwrap();
				}
				for k in 0..nkeys {
					let (present, vtok, cnt) = content[c][k];
					let key = key_bytes(c, k, src[c].uniform, tag);
					let got = db.get(c as u8, &key).unwrap();
					let want_bytes = value_bytes(vtok);
					let tok = match &got {
						None => 0,
						Some(v) if *v == want_bytes => vtok + 1,
						Some(v) => 0xdead_0000_0000_0000 | v.len() as u64,
					};
					let rc = if dst[c].rc && present { counts.get(&want_bytes).cloned().unwrap_or(0) } else { 0 };
					obs.push(tok);
					obs.push(rc);
					if verdict.is_ok() {
						if present && tok != vtok + 1 {
							verdict = Err(format!("value-changed col {c} key {k} (source count {cnt}, src {:?} -> dst {:?}): expected {} bytes, got {:?}", src[c], dst[c], want_bytes.len(), got.as_ref().map(|v| v.len())));
						} else if !present && tok != 0 {
							verdict = Err(format!("extra-key col {c} key {k} exists in the destination"));
						} else if present && dst[c].rc && src[c].rc && rc != cnt {
							verdict = Err(format!("count-changed col {c} key {k}: source count {cnt}, destination {rc}; overwrite={overwrite} forced={:?} src={:?} dst={:?} present={:?}", forced, src, dst, content[c].iter().map(|x| (x.0, x.2)).collect::<Vec<_>>()));
						}
					}
				}
			}
			drop(db);
			if !overwrite && verdict.is_ok() {
				// the source must still hold exactly what it held (the migration may rewrite
				// statistics kept in the index header, so compare content, not bytes)
				let _ = &before;
				let sdb = Db::open(&options(&sdir, &src, salt)).unwrap();
				for c in 0..ncols {
					for k in 0..nkeys {
						let (present, vtok, _) = content[c][k];
						let got = sdb.get(c as u8, &key_bytes(c, k, src[c].uniform, tag)).unwrap();
						let want = if present { Some(value_bytes(vtok)) } else { None };
						if got != want && verdict.is_ok() {
							verdict = Err(format!("source-modified col {c} key {k} of the source changed although overwrite was not requested"));
						}
					}
				}
			}
		}
		let mut case = vec![20u64, ncols as u64];
		for c in 0..ncols {
			case.extend_from_slice(&[src[c].bits(), dst[c].bits(), forced[c] as u64]);
		}
		case.push(overwrite as u64 + 2 * extra_col as u64);
		case.push(nkeys as u64);
		for c in 0..ncols {
			for k in 0..nkeys {
				let (p, v, n) = content[c][k];
				case.extend_from_slice(&[p as u64, v, n]);
			}
		}
		crate::util::watch_end();
		out.case(&case);
		out.obs(&obs);
		match verdict {
			Ok(()) => oracle.push_str("ok\n"),
			Err(e) => oracle.push_str(&format!("FAIL {e}\n")),
		}
		let multi = content.iter().flatten().any(|(p, _, n)| *p && *n > 1);
		if multi {
			nontrivial += 1;
		}
		*dist.entry(format!("cols{ncols}")).or_insert(0) += 1;
		*dist.entry(format!("overwrite{}", overwrite as u8)).or_insert(0) += 1;
		for c in 0..ncols {
			*dist.entry(format!("src-rc{}-dst-rc{}", src[c].rc as u8, dst[c].rc as u8)).or_insert(0) += 1;
		}
		let _ = case_no;
	}
	let _ = std::fs::remove_dir_all(&scratch);
	out.write_file("oracle.txt", &oracle);
	let d: Vec<String> = dist.iter().map(|(k, v)| format!("{}: {}", crate::util::jstr(k), v)).collect();
	out.write_file(
		"stats.json",
		&format!("{{\"evaluations\": {}, \"distinct_nontrivial\": {}, \"distribution\": {{{}}}}}", count, nontrivial, d.join(", ")),
	);
	out.finish();
	0
}
