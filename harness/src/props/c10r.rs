//! C10 / C11 (counter level): the reference count table files of one multitree column against the model of
//! coq/Model/RcTable.v. Hook H7 makes a new table small (2-8 chunks of 32 counters), so that a few dozen shared
//! nodes outgrow it. Base trees with many leaves are inserted first; then every transaction is drained
//! (logged, enacted) and either inserts a "sharer" - a new root whose children are 1-4 EXISTING leaves of the base
//! trees (each gains a reference) -, dereferences a sharer (each of its leaves loses one), runs one step of the
//! reindex worker or drops and reopens the database. After every transaction all refcount_00_<bits> files are read
//! raw - every non-empty slot of every chunk of every table - and compared with the tables the model predicts: which
//! slot a counter goes to, what stays behind in an outgrown table, what a reindex batch moves, skips and drops,
//! when the table grows.
//! Case line: 111 bits nops (1 a h | 2 a h | 11 a h | 12 a h | 3 | 4)*   (a: node address, h: its SipHash)
//! Observation after every transaction: number of tables, then per table (oldest first, the current one last):
//! bits, number of non-empty chunks, per chunk: chunk, number of entries, (slot, address, count)*
use crate::util::Out;
use parity_db::{ColumnOptions, Db, NewNode, NodeRef, Operation, Options};
use std::collections::BTreeMap;
use std::hash::Hasher;
use std::path::Path;

fn hash_of(address: u64) -> u64 {
	let mut hasher = siphasher::sip::SipHasher::new();
	hasher.write_u64(address);
	hasher.finish()
}

/// all reference count tables of column 0, oldest first: (bits, chunk -> [(slot, address, count)])
fn dump_tables(dir: &Path, first_bits: u64) -> Vec<(u64, BTreeMap<u64, Vec<(u64, u64, u64)>>)> {
	let mut files: Vec<(u64, std::path::PathBuf)> = Vec::new();
	if let Ok(rd) = std::fs::read_dir(dir) {
		for e in rd.flatten() {
			let n = e.file_name().to_string_lossy().to_string();
			if let Some(b) = n.strip_prefix("refcount_00_") {
				if let Ok(b) = b.parse::<u64>() {
					files.push((b, e.path()));
				}
			}
		}
	}
	files.sort();
	let mut tabs = Vec::new();
	for (bits, p) in files {
		let data = std::fs::read(&p).unwrap_or_default();
		let mut chunks: BTreeMap<u64, Vec<(u64, u64, u64)>> = BTreeMap::new();
		for (ci, chunk) in data.chunks(512).enumerate() {
			if chunk.len() < 512 {
				break
			}
			for i in 0..32usize {
				let a = u64::from_le_bytes(chunk[i * 16..i * 16 + 8].try_into().unwrap());
				let c = u64::from_le_bytes(chunk[i * 16 + 8..i * 16 + 16].try_into().unwrap());
				if a == 0 {
					continue
				}
				chunks.entry(ci as u64).or_default().push((i as u64, a, c));
			}
		}
		tabs.push((bits, chunks));
	}
	if tabs.is_empty() {
		// no table file yet: an empty table of the first size
		tabs.push((first_bits, BTreeMap::new()));
	}
	tabs
}

fn root_key(k: usize) -> Vec<u8> {
	format!("counter-tree-{k:05}").into_bytes()
}

pub fn main(args: &[String]) -> i32 {
	let seed: u64 = args[0].parse().unwrap();
	let count: u64 = args[1].parse().unwrap();
	let mut out = Out::new(&args[2]);
	let dir = std::path::PathBuf::from(&args[2]).join("db");
	let mut oracle = String::new();
	let mut dist: BTreeMap<String, u64> = BTreeMap::new();
	let mut distinct = 0u64;
	for case_no in 0..count {
		let mut rng = crate::util::case_rng(seed ^ 0xC10C, case_no);
		if crate::util::skip_case(case_no) {
			continue
		}
		crate::util::watch_begin(&out, &[111, case_no]);
		let _ = std::fs::remove_dir_all(&dir);
		// deep mode: the smallest table, many leaves and no reindex step while the sharers pile up, so that the table
		// is outgrown twice before the worker starts: three tables coexist
		let deep = rng.chance(1, 3);
		let first_bits = if deep { 1 } else { rng.range(1, 3) };
		let counted = rng.chance(1, 2);
		let mut o = Options::with_columns(&dir, 1);
		o.stats = false;
		o.with_background_thread = false;
		o.columns[0] = ColumnOptions { multitree: true, ref_counted: counted, preimage: counted, allow_direct_node_access: true, ..Default::default() };
		parity_db::verif::set_first_ref_count_bits(first_bits as u8);
		let nleaves = if deep { rng.range(200, 250) as usize } else { rng.range(40, 230) as usize };
		let nops = if deep { rng.range(200, 320) as usize } else { rng.range(60, 260) as usize };
		let mut case: Vec<u64> = vec![111, first_bits, 0];
		let mut obs: Vec<u64> = Vec::new();
		let mut verdict: Result<(), String> = Ok(());
		let mut done = 0u64;
		let mut max_tabs = 0usize;
		let mut batched = 0u64;
		let res = std::panic::catch_unwind(std::panic::AssertUnwindSafe(|| {
			let mut db = Some(Db::open_or_create(&o).unwrap());
			let drain = |d: &Db| {
				for _ in 0..3 {
					d.process_commits().unwrap();
				}
				d.flush_logs().unwrap();
				for _ in 0..4 {
					d.enact_logs().unwrap();
				}
				d.clean_logs().unwrap();
			};
			// the base tree: its leaves are the nodes that get shared
			{
				let d = db.as_ref().unwrap();
				let node = NewNode {
					data: b"base".to_vec(),
					children: (0..nleaves).map(|i| NodeRef::New(NewNode { data: format!("leaf-{i}").into_bytes(), children: vec![] })).collect(),
				};
				d.commit_changes(vec![(0u8, Operation::InsertTree(root_key(0), node))]).unwrap();
				drain(d);
			}
			let leaves: Vec<u64> = db.as_ref().unwrap().get_root(0, &root_key(0)).unwrap().unwrap().1;
			assert_eq!(leaves.len(), nleaves);
			// property-level bookkeeping: references per leaf beyond the base tree's
			let mut extra: Vec<u64> = vec![0; nleaves];
			// live sharers: key -> leaves
			let mut sharers: BTreeMap<usize, Vec<usize>> = BTreeMap::new();
			let mut next_key = 1usize;
			let grow_phase = nops / 2;
			for opno in 0..nops {
				let d = db.as_ref().unwrap();
				let kind = if opno < grow_phase && (deep || rng.chance(3, 4)) { 0 } else { rng.below(20) };
				match kind {
					0..=8 => {
						// a sharer of 1-4 different leaves; early on mostly fresh leaves, so that the table fills
						let n = if deep && opno < grow_phase { rng.range(2, 4) as usize } else if rng.chance(1, 3) { rng.range(2, 4) as usize } else { 1 };
						let mut ls: Vec<usize> = Vec::new();
						for _ in 0..n {
							let fresh: Vec<usize> = (0..nleaves).filter(|i| extra[*i] == 0 && !ls.contains(i)).collect();
							let l = if !fresh.is_empty() && rng.chance(2, 3) { *rng.pick(&fresh) } else { rng.below(nleaves as u64) as usize };
							if !ls.contains(&l) {
								ls.push(l);
							}
						}
						let node = NewNode { data: format!("sharer-{next_key}").into_bytes(), children: ls.iter().map(|l| NodeRef::Existing(leaves[*l])).collect() };
						d.commit_changes(vec![(0u8, Operation::InsertTree(root_key(next_key), node))]).unwrap();
						for (j, l) in ls.iter().enumerate() {
							extra[*l] += 1;
							let silent = if j + 1 == ls.len() { 0 } else { 10 };
							case.extend_from_slice(&[1 + silent, leaves[*l], hash_of(leaves[*l])]);
						}
						if ls.len() > 1 {
							batched += 1;
						}
						done += ls.len() as u64;
						sharers.insert(next_key, ls);
						next_key += 1;
					},
					9..=14 => {
						let ks: Vec<usize> = sharers.keys().cloned().collect();
						if ks.is_empty() {
							continue
						}
						let k = *rng.pick(&ks);
						let ls = sharers.remove(&k).unwrap();
						d.commit_changes(vec![(0u8, Operation::DereferenceTree(root_key(k)))]).unwrap();
						for (j, l) in ls.iter().enumerate() {
							extra[*l] -= 1;
							let silent = if j + 1 == ls.len() { 0 } else { 10 };
							case.extend_from_slice(&[2 + silent, leaves[*l], hash_of(leaves[*l])]);
						}
						if ls.len() > 1 {
							batched += 1;
						}
						done += ls.len() as u64;
					},
					15..=18 => {
						d.process_reindex().unwrap();
						case.push(3);
						done += 1;
					},
					_ => {
						drop(db.take());
						db = Some(Db::open(&o).unwrap());
						case.push(4);
						done += 1;
					},
				}
				let d = db.as_ref().unwrap();
				drain(d);
				let tabs = dump_tables(&dir, first_bits);
				max_tabs = max_tabs.max(tabs.len());
				obs.push(tabs.len() as u64);
				for (bits, chunks) in &tabs {
					obs.push(*bits);
					obs.push(chunks.len() as u64);
					for (c, es) in chunks {
						obs.push(*c);
						obs.push(es.len() as u64);
						for (i, a, n) in es {
							obs.extend_from_slice(&[*i, *a, *n]);
						}
					}
				}
				// property: the counter a lookup finds (current table, then the waiting ones, newest first) is the number
				// of references of the leaf; a leaf with one reference has no counter anywhere
				for l in 0..nleaves {
					let want = if extra[l] == 0 { None } else { Some(extra[l] + 1) };
					let mut got = None;
					for (_, chunks) in tabs.iter().rev() {
						if let Some(c) = chunks.values().flatten().find(|e| e.1 == leaves[l]) {
							got = Some(c.2);
							break
						}
					}
					if got != want && verdict.is_ok() {
						verdict = Err(format!("counter-wrong leaf {l} (address {:#x}): the tables say {:?}, the references are {:?}", leaves[l], got, want));
					}
				}
				// every sharer and the base tree still read back
				if opno % 16 == 15 || opno + 1 == nops {
					for (k, ls) in &sharers {
						let r = d.get_root(0, &root_key(*k)).unwrap();
						let want: Vec<u64> = ls.iter().map(|l| leaves[*l]).collect();
						if r.as_ref().map(|x| &x.1) != Some(&want) && verdict.is_ok() {
							verdict = Err(format!("readback-mismatch sharer {k} reads {:?}", r.map(|x| x.1.len())));
						}
					}
					for l in 0..nleaves {
						if d.get_node(0, leaves[l]).unwrap().map(|n| n.0) != Some(format!("leaf-{l}").into_bytes()) && verdict.is_ok() {
							verdict = Err(format!("readback-mismatch leaf {l} is gone or changed"));
						}
					}
				}
			}
			// in the end every sharer is dereferenced: no counter may remain, then the base tree: no entry may remain
			let d = db.as_ref().unwrap();
			for (k, _) in std::mem::take(&mut sharers) {
				d.commit_changes(vec![(0u8, Operation::DereferenceTree(root_key(k)))]).unwrap();
				drain(d);
			}
			for _ in 0..8 {
				d.process_reindex().unwrap();
				drain(d);
			}
			let tabs = dump_tables(&dir, first_bits);
			if tabs.iter().any(|t| !t.1.is_empty()) && verdict.is_ok() {
				verdict = Err("counter-wrong counters remain although no node is shared any more".into());
			}
			d.commit_changes(vec![(0u8, Operation::DereferenceTree(root_key(0)))]).unwrap();
			drain(d);
			let n = d.get_num_column_value_entries(0).unwrap();
			if n != 0 && verdict.is_ok() {
				verdict = Err(format!("entries-after-all-deref {n} value entries remain although every tree was dereferenced"));
			}
		}));
		if let Err(e) = res {
			let m = e.downcast_ref::<String>().cloned().or_else(|| e.downcast_ref::<&str>().map(|s| s.to_string())).unwrap_or_default();
			if verdict.is_ok() {
				verdict = Err(format!("panic {}", m.chars().take(160).collect::<String>()));
			}
		}
		crate::util::watch_end();
		case[2] = done;
		out.case(&case);
		out.obs(&obs);
		match verdict {
			Ok(()) => oracle.push_str("ok\n"),
			Err(e) => oracle.push_str(&format!("FAIL {e}\n")),
		}
		*dist.entry(format!("counter-histories-max-tables-{max_tabs}")).or_insert(0) += 1;
		*dist.entry("transactions-with-several-counter-changes".into()).or_insert(0) += batched;
		if max_tabs > 1 {
			distinct += 1;
		}
	}
	parity_db::verif::set_first_ref_count_bits(0);
	let _ = std::fs::remove_dir_all(&dir);
	out.write_file("oracle.txt", &oracle);
	let d: Vec<String> = dist.iter().map(|(k, v)| format!("{}: {}", crate::util::jstr(k), v)).collect();
	out.write_file(
		"stats.json",
		&format!("{{\"evaluations\": {}, \"distinct_nontrivial\": {}, \"distribution\": {{{}}}}}", count, distinct, d.join(", ")),
	);
	out.finish();
	0
}
