//! C04 (structure): after a history of sets / removals on a btree column and a drain, the tree is
//! read back from the RAW table files by the harness's own parser (header slot -> root -> nodes) and
//! handed to the extracted, proved checker (sorted in-order traversal, bounds, uniform leaf depth);
//! its in-order key list must equal the live keys.
//! Case line: 4 depth node ; node := nseps inner first? (key child?)*   Observation: 1 key*
use crate::{prng::Rng, props::hist, rawdump::{parse_bnode, Raw}, util::Out};
use parity_db::{Db, Operation};
use std::collections::BTreeMap;

pub fn dump_node(raw: &mut Raw, col: u8, rc: bool, addr: u64, depth: u32, keys: &Vec<Vec<u8>>, out: &mut Vec<u64>, budget: &mut u32) -> bool {
	if *budget == 0 {
		return false
	}
	*budget -= 1;
	let buf = match raw.value(col, addr, rc, false) {
		Some(b) => b,
		None => return false,
	};
	let n = match parse_bnode(&buf) {
		Some(n) => n,
		None => return false,
	};
	let inner = depth > 0;
	out.push(n.seps.len() as u64);
	out.push(inner as u64);
	if inner {
		if n.first == 0 || !dump_node(raw, col, rc, n.first, depth - 1, keys, out, budget) {
			return false
		}
	}
	for (k, _v, child) in &n.seps {
		let id = keys.iter().position(|x| x == k).map(|i| i as u64 + 1).unwrap_or(0xbad_0000);
		out.push(id);
		if inner {
			if *child == 0 || !dump_node(raw, col, rc, *child, depth - 1, keys, out, budget) {
				return false
			}
		}
	}
	true
}

pub fn main(args: &[String]) -> i32 {
	let seed: u64 = args[0].parse().unwrap();
	let count: u64 = args[1].parse().unwrap();
	let mut out = Out::new(&args[2]);
	let dir = std::path::PathBuf::from(&args[2]).join("db");
	let mut oracle = String::new();
	let mut dist: BTreeMap<String, u64> = BTreeMap::new();
	let mut nontrivial = std::collections::HashSet::new();
	for case_no in 0..count {
		let mut rng = crate::util::case_rng(seed ^ 0xC04, case_no);
		if crate::util::skip_case(case_no) {
			continue
		}
		// many keys so that the tree gets several levels (ORDER = 8)
		let nkeys = rng.range(20, 160) as usize;
		let mut keys: Vec<Vec<u8>> = Vec::new();
		while keys.len() < nkeys {
			let len = match rng.below(12) {
				0 => 0,
				1 => 254,
				2 => 255,
				3 => 256,
				4 => rng.range(257, 600) as usize,
				_ => rng.range(1, 24) as usize,
			};
			let k: Vec<u8> = (0..len).map(|_| *rng.pick(&[0u8, 1, 2, 0x7f, 0xff])).collect();
			if !keys.contains(&k) {
				keys.push(k);
			}
		}
		keys.sort();
		let cfg = hist::ColCfg { btree: true, rc: false, preimage: false, uniform: false, compression: 0, threshold: 4096 };
		let case = hist::Case { cols: vec![cfg], keys: vec![keys.clone()], steps: vec![], salt_zero: false, class: "c04t".into() };
		let opts = hist::options_for(&case, &dir);
		let _ = std::fs::remove_dir_all(&dir);
		let mut live: Vec<bool> = vec![false; nkeys];
		let ntx = rng.range(3, 30);
		{
			let db = Db::open_or_create(&opts).unwrap();
			for t in 0..ntx {
				let n = rng.range(1, 40);
				let mut tx = Vec::new();
				// later transactions remove more, so that nodes merge and the root shrinks
				let del = if t * 2 > ntx { 3 } else { 1 };
				for _ in 0..n {
					let k = rng.below(nkeys as u64) as usize;
					if rng.below(5) < del {
						tx.push((0u8, Operation::Dereference(keys[k].clone())));
						live[k] = false;
					} else {
						let vl = rng.range(0, 40) as usize;
						tx.push((0u8, Operation::Set(keys[k].clone(), rng.bytes(vl))));
						live[k] = true;
					}
				}
				db.commit_changes(tx).unwrap();
				if rng.chance(1, 2) {
					db.process_commits().unwrap();
				}
				if rng.chance(1, 4) {
					db.flush_logs().unwrap();
					if db.verif_num_dirty_logs() >= 4 {
						let _ = db.clean_logs();
					}
					db.enact_logs().unwrap();
				}
			}
		}
		// the drop drained the pipeline; read the raw files
		let mut raw = Raw::new(&dir);
		let mut toks = vec![4u64];
		let mut verdict: Result<(), String> = Ok(());
		let header = raw.value(0, 1 << 8, false, false);
		let (root, depth) = match header {
			Some(h) if h.len() >= 12 => (u64::from_le_bytes(h[0..8].try_into().unwrap()), u32::from_le_bytes(h[8..12].try_into().unwrap())),
			_ => {
				verdict = Err("tree-header-unreadable".into());
				(0, 0)
			},
		};
		toks.push(depth as u64);
		let mut budget = 100000u32;
		if root == 0 {
			toks.extend_from_slice(&[0, 0]);
		} else if !dump_node(&mut raw, 0, false, root, depth, &keys, &mut toks, &mut budget) {
			verdict = Err(format!("tree-unreadable root {root:#x} depth {depth}: a node or child could not be read from the raw files"));
		}
		let mut obs = vec![1u64];
		obs.extend((0..nkeys).filter(|k| live[*k]).map(|k| k as u64 + 1));
		out.case(&toks);
		out.obs(&obs);
		match verdict {
			Ok(()) => oracle.push_str("ok\n"),
			Err(e) => oracle.push_str(&format!("FAIL {e}\n")),
		}
		*dist.entry(format!("depth{depth}")).or_insert(0) += 1;
		if depth >= 1 {
			use std::hash::{Hash, Hasher};
			let mut h = std::collections::hash_map::DefaultHasher::new();
			toks.hash(&mut h);
			nontrivial.insert(h.finish());
		}
	}
	let _ = std::fs::remove_dir_all(&dir);
	out.write_file("oracle.txt", &oracle);
	let d: Vec<String> = dist.iter().map(|(k, v)| format!("{}: {}", crate::util::jstr(k), v)).collect();
	out.write_file(
		"stats.json",
		&format!("{{\"evaluations\": {}, \"distinct_nontrivial\": {}, \"distribution\": {{{}}}}}", count, nontrivial.len(), d.join(", ")),
	);
	out.finish();
	0
}
