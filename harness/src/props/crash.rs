//! C02 / C03 (crash half) / C12 / C13: crash and power-loss images.
//! A history is run once through the stepping API while (a) the durability system calls are
//! interposed (fdatasync / fsync / msync / ftruncate / unlink) and (b) the event hook reports record
//! appends, table stores and record completion. At sampled instants - between and INSIDE pipeline
//! steps - images of the database directory are materialised:
//!   crash      the directory as the page cache shows it (process crash),
//!   torn-log   the same with the last appended record cut at a random byte (crash inside the append),
//!   power      every table file assembled per 4 KiB page from its last synced content or its current
//!              content (random subset), every log file = its synced bytes plus a random prefix of
//!              the unsynced tail,
//!   damaged    (C13) a crash image whose log files were additionally truncated / bit-flipped /
//!              extended with garbage / removed / duplicated.
//! Every image is opened with the real Db::open; the state read back must be the state after some
//! prefix of the accepted transactions within the bounds the instant allows, and the recovered
//! database must accept a further transaction and survive a clean reopen.
//! The event trace itself is handed to the extracted, proved acceptor of the log discipline.
//!
//! Case line (kind 12): 12 n ev* with ev: 1 len cell* (append; the cells it stores to, backfilled) | 2 sync | 3 store | 4 finish | 7 x (table file x synced) | 6 n truncate
//! Observation: 1 nrecs synced enacted truncated
use crate::{interpose::{self, Sys}, prng::Rng, props::hist::{self, Case, Step}, util::Out};
use parity_db::{Db, Operation};
use std::collections::{BTreeMap, HashMap, HashSet};
use std::path::{Path, PathBuf};
use std::sync::Mutex;

#[derive(Clone, Debug)]
struct Image {
	dir: PathBuf,
	kind: &'static str,
	m_lo: usize,
	m_hi: usize,
	desc: String,
	enacted: usize,
	record_ids: Vec<u64>,
}

struct Tracker {
	dir: PathBuf,
	img_root: PathBuf,
	durable: HashMap<String, Vec<u8>>,
	known_files: HashSet<String>,
	logged: usize,
	record_ids: Vec<u64>,          // record ids in append order
	record_log: Vec<u64>,          // log file id of each record
	is_commit: Vec<bool>,          // whether the record carries a commit (false: a reindex batch)
	synced_records: HashSet<u64>,
	enacted: usize,
	truncated: usize,
	stores_of: Vec<Vec<u64>>,      // the cells each record stored to, in order (backfilled): file id << 40 | index
	file_ids: HashMap<String, u64>, // table file name -> file id of its cells
	cur_enact: Option<usize>,
	dirty_files: HashSet<String>,
	events: Vec<(u64, u64)>,       // (code, arg)
	log_len_before: HashMap<u64, u64>,
	rng: Rng,
	images: Vec<Image>,
	max_images: usize,
	seen: u64,
	serial: u64,
	enabled: bool,
	damage: bool,
	power_only: bool,
}

static TRACKER: Mutex<Option<Tracker>> = Mutex::new(None);
/// the open handle (for the stage interleaved from the msync hook), whether a clean step is running,
/// and the random decisions left for this history
static DBPTR: std::sync::atomic::AtomicUsize = std::sync::atomic::AtomicUsize::new(0);
static IN_CLEAN: std::sync::atomic::AtomicBool = std::sync::atomic::AtomicBool::new(false);
/// set while the harness runs process_reindex: records appended meanwhile carry no commit
static REINDEXING: std::sync::atomic::AtomicBool = std::sync::atomic::AtomicBool::new(false);
static INTERLEAVE_BUDGET: std::sync::atomic::AtomicUsize = std::sync::atomic::AtomicUsize::new(0);
static INTERLEAVED: std::sync::atomic::AtomicUsize = std::sync::atomic::AtomicUsize::new(0);

/// While the cleanup stage is between two msync calls, the enact stage runs one record on another
/// thread (in the library the commit worker and the cleanup worker are different threads).
fn interleave_enact() {
	use std::sync::atomic::Ordering;
	if !IN_CLEAN.load(Ordering::SeqCst) {
		return
	}
	let p = DBPTR.load(Ordering::SeqCst);
	if p == 0 {
		return
	}
	// every second opportunity, while the budget lasts
	let left = INTERLEAVE_BUDGET.load(Ordering::SeqCst);
	if left == 0 {
		return
	}
	INTERLEAVE_BUDGET.store(left - 1, Ordering::SeqCst);
	if left % 2 == 0 {
		return
	}
	IN_CLEAN.store(false, Ordering::SeqCst);
	let db: &Db = unsafe { &*(p as *const Db) };
	// enact_logs blocks while too many logs wait for the cleanup that is running right now
	if db.verif_num_dirty_logs() < 3 {
		std::thread::scope(|sc| {
			sc.spawn(|| {
				if let Ok(true) = db.verif_enact_one() {
					INTERLEAVED.fetch_add(1, Ordering::SeqCst);
				}
			});
		});
	}
	IN_CLEAN.store(true, Ordering::SeqCst);
}
/// record ids applied by the replay of the image being opened (event hook, validation mode)
static REPLAYED: Mutex<Vec<u64>> = Mutex::new(Vec::new());

fn with<R>(f: impl FnOnce(&mut Tracker) -> R) -> Option<R> {
	use std::sync::atomic::Ordering;
	let was = interpose::PAUSED.swap(true, Ordering::SeqCst);
	let r = {
		let mut g = TRACKER.lock().unwrap();
		g.as_mut().map(f)
	};
	interpose::PAUSED.store(was, Ordering::SeqCst);
	r
}

fn file_name(p: &str) -> String {
	Path::new(p).file_name().map(|n| n.to_string_lossy().to_string()).unwrap_or_default()
}

fn table_file_name(kind_id: u64) -> String {
	let kind = kind_id >> 16;
	let id = kind_id & 0xffff;
	let col = id >> 8;
	let low = id & 0xff;
	match kind {
		0 => format!("table_{col:02}_{low:02x}"),
		1 => format!("index_{col:02}_{low}"),
		_ => format!("refcount_{col:02}_{low}"),
	}
}

impl Tracker {
	/// number of commits among the first `nrec` records
	fn commits_in(&self, nrec: usize) -> usize {
		self.is_commit.iter().take(nrec).filter(|b| **b).count()
	}
	fn synced_count(&self) -> usize {
		self.record_ids.iter().take_while(|r| self.synced_records.contains(r)).count()
	}

	fn copy_sparse(from: &Path, to: &Path) {
		let data = std::fs::read(from).unwrap_or_default();
		Self::write_sparse(to, &data);
	}
	fn write_sparse(to: &Path, data: &[u8]) {
		use std::io::{Seek, SeekFrom, Write};
		let mut f = std::fs::File::create(to).unwrap();
		f.set_len(data.len() as u64).unwrap();
		let mut off = 0;
		while off < data.len() {
			let end = std::cmp::min(off + 4096, data.len());
			if data[off..end].iter().any(|b| *b != 0) {
				f.seek(SeekFrom::Start(off as u64)).unwrap();
				f.write_all(&data[off..end]).unwrap();
			}
			off = end;
		}
	}

	/// reservoir sampling over all the instants of a history: every instant has the same chance to be
	/// among the at most `max_images` images that are kept (long histories would otherwise spend the
	/// whole budget on their first steps)
	fn admit(&mut self) -> bool {
		self.seen += 1;
		if self.images.len() < self.max_images {
			return true
		}
		let j = self.rng.below(self.seen) as usize;
		if j < self.max_images {
			let old = self.images.swap_remove(j);
			let _ = std::fs::remove_dir_all(&old.dir);
			true
		} else {
			false
		}
	}

	fn new_image_dir(&mut self, tag: &str) -> PathBuf {
		self.serial += 1;
		let d = self.img_root.join(format!("img{:05}-{tag}", self.serial));
		let _ = std::fs::remove_dir_all(&d);
		std::fs::create_dir_all(&d).unwrap();
		d
	}

	fn list(&self) -> Vec<String> {
		let mut v: Vec<String> = std::fs::read_dir(&self.dir).map(|rd| rd.flatten().filter(|e| e.path().is_file()).map(|e| e.file_name().to_string_lossy().to_string()).collect()).unwrap_or_default();
		v.sort();
		v
	}

	/// process crash: everything the page cache holds
	fn take_crash(&mut self, desc: &str, torn: Option<(u64, u64, u64)>) {
		if !self.enabled || !self.admit() {
			return
		}
		let kind = if torn.is_some() { "torn-log" } else { "crash" };
		let d = self.new_image_dir(kind);
		for n in self.list() {
			if n == "lock" {
				continue
			}
			Self::copy_sparse(&self.dir.join(&n), &d.join(&n));
		}
		let (mut lo, hi) = (self.commits_in(self.logged), self.commits_in(self.logged));
		let mut desc = desc.to_string();
		if let Some((log_id, before, after)) = torn {
			// cut the record that was just appended somewhere inside
			let cut = before + self.rng.below(after - before);
			let p = d.join(format!("log{log_id}"));
			let mut data = std::fs::read(&p).unwrap_or_default();
			data.truncate(cut as usize);
			std::fs::write(&p, &data).unwrap();
			lo = self.commits_in(self.logged - 1);
			desc = format!("{desc}; last record cut at byte {} of {}", cut - before, after - before);
		}
		let (enacted, record_ids) = (self.enacted, self.record_ids.clone());
		self.images.push(Image { dir: d, kind, m_lo: lo, m_hi: hi, desc, enacted, record_ids });
	}

	/// power loss: per page either the synced or the current content; logs keep a prefix of the unsynced tail
	fn take_power(&mut self, desc: &str) {
		if !self.enabled || !self.admit() {
			return
		}
		let d = self.new_image_dir("power");
		let mut notes = Vec::new();
		for n in self.list() {
			if n == "lock" {
				continue
			}
			let cur = std::fs::read(self.dir.join(&n)).unwrap_or_default();
			let dur = self.durable.get(&n).cloned().unwrap_or_default();
			let data = if n.starts_with("log") {
				if cur.len() >= dur.len() && cur[..dur.len()] == dur[..] {
					let extra = self.rng.below((cur.len() - dur.len()) as u64 + 1) as usize;
					if extra > 0 || cur.len() > dur.len() {
						notes.push(format!("{n}: {} synced + {extra} of {} unsynced bytes", dur.len(), cur.len() - dur.len()));
					}
					cur[..dur.len() + extra].to_vec()
				} else if self.rng.chance(1, 2) {
					notes.push(format!("{n}: old synced content ({} bytes) instead of current ({})", dur.len(), cur.len()));
					dur
				} else {
					cur
				}
			} else if n.starts_with("table_") || n.starts_with("index_") || n.starts_with("refcount_") {
				let mut out = cur.clone();
				let mut stale = 0;
				let mut off = 0;
				while off < cur.len() {
					let end = std::cmp::min(off + 4096, cur.len());
					let dpage: Vec<u8> = (off..end).map(|i| *dur.get(i).unwrap_or(&0)).collect();
					if dpage[..] != cur[off..end] && self.rng.chance(1, 2) {
						out[off..end].copy_from_slice(&dpage);
						stale += 1;
					}
					off = end;
				}
				if stale > 0 {
					notes.push(format!("{n}: {stale} unsynced pages lost"));
				}
				out
			} else {
				cur
			};
			Self::write_sparse(&d.join(&n), &data);
		}
		let lo = self.commits_in(self.synced_count());
		let (enacted, record_ids) = (self.enacted, self.record_ids.clone());
		self.images.push(Image { dir: d, kind: "power", m_lo: lo, m_hi: self.commits_in(self.logged), desc: format!("{desc}; {}", notes.join(", ")), enacted, record_ids });
	}

	fn sample(&mut self, crash_num: u64, crash_den: u64, power_num: u64, power_den: u64, desc: &str) {
		if self.damage {
			// C13 damages the LOGS of an image whose tables are at a record boundary: a half-applied
			// record can only be completed from an intact log, that case belongs to C02/C12
			if self.cur_enact.is_none() && self.rng.chance(crash_num, crash_den) {
				self.take_crash(desc, None);
			}
			return
		}
		if self.power_only {
			// C12: durable-copy images only, twice as often
			if self.rng.chance(2 * power_num, std::cmp::max(power_den, 2 * power_num)) {
				self.take_power(desc);
			}
			return
		}
		if self.rng.chance(crash_num, crash_den) {
			self.take_crash(desc, None);
		}
		if self.rng.chance(power_num, power_den) {
			self.take_power(desc);
		}
	}
}

fn on_event(kind: &'static str, a: u64, b: u64) {
	if kind == "enact_end" && b == 1 {
		REPLAYED.lock().unwrap().push(a);
	}
	with(|t| match kind {
		"append" => {
			t.logged += 1;
			t.record_ids.push(a);
			t.record_log.push(b);
			t.is_commit.push(!REINDEXING.load(std::sync::atomic::Ordering::SeqCst));
			t.stores_of.push(vec![]);
			t.events.push((1, (t.record_ids.len() - 1) as u64));
			let p = t.dir.join(format!("log{b}"));
			let after = std::fs::metadata(&p).map(|m| m.len()).unwrap_or(0);
			let before = *t.log_len_before.get(&b).unwrap_or(&0);
			t.log_len_before.insert(b, after);
			t.sample(1, 3, 1, 3, &format!("after record {a} was appended to log{b}"));
			if after > before + 1 && t.rng.chance(1, 2) {
				t.take_crash(&format!("inside the append of record {a} to log{b}"), Some((b, before, after)));
			}
		},
		"enact_begin" => {
			t.cur_enact = t.record_ids.iter().position(|r| *r == a);
		},
		"store" => {
			t.events.push((3, 0));
			if let Some(i) = t.cur_enact {
				t.stores_of[i].push((a << 40) | (b & 0xff_ffff_ffff));
			}
			t.file_ids.insert(table_file_name(a), a);
			t.dirty_files.insert(table_file_name(a));
			t.sample(1, 6, 1, 6, &format!("inside the enactment of a record, after a store to {} slot/chunk {b}", table_file_name(a)));
		},
		"enact_end" => {
			t.enacted += 1;
			t.events.push((4, 0));
			t.cur_enact = None;
			t.sample(1, 5, 1, 5, &format!("after record {a} was enacted"));
		},
		_ => (),
	});
}

fn on_sys(e: Sys) {
	with(|t| match e {
		Sys::SyncFile(p) => {
			let n = file_name(&p);
			if !p.starts_with(t.dir.to_string_lossy().as_ref()) {
				return
			}
			if let Some(id) = n.strip_prefix("log").and_then(|x| x.parse::<u64>().ok()) {
				t.sample(1, 3, 1, 2, &format!("just before fdatasync/fsync of {n}"));
				let cur = std::fs::read(&p).unwrap_or_default();
				t.durable.insert(n.clone(), cur);
				let before = t.synced_count();
				for (i, r) in t.record_ids.clone().iter().enumerate() {
					if t.record_log[i] == id && i >= t.truncated {
						t.synced_records.insert(*r);
					}
				}
				if t.synced_count() > before {
					t.events.push((2, 0));
				}
				t.sample(1, 3, 1, 2, &format!("just after fdatasync/fsync of {n}"));
			}
		},
		Sys::SyncMap(p, off, len) => {
			if !p.starts_with(t.dir.to_string_lossy().as_ref()) {
				return
			}
			let n = file_name(&p);
			let cur = std::fs::read(&p).unwrap_or_default();
			let d = t.durable.entry(n.clone()).or_default();
			if d.len() < cur.len() {
				d.resize(cur.len(), 0);
			}
			let end = std::cmp::min(off + len, cur.len());
			if off < end {
				d[off..end].copy_from_slice(&cur[off..end]);
			}
			t.dirty_files.remove(&n);
			// the model event: every cell of this file is durable as it is now (index files are synced from
			// the end of their header on; cells - chunks - all lie behind it)
			if let Some(id) = t.file_ids.get(&n) {
				t.events.push((7, *id));
			}
			t.sample(1, 8, 1, 4, &format!("after msync of {n}"));
		},
		Sys::Truncate(p, len) => {
			if !p.starts_with(t.dir.to_string_lossy().as_ref()) {
				return
			}
			let n = file_name(&p);
			if let Some(id) = n.strip_prefix("log").and_then(|x| x.parse::<u64>().ok()) {
				if len == 0 {
					t.sample(1, 2, 1, 2, &format!("just before {n} is truncated"));
					// records of this file are gone from the log
					let last = t.record_log.iter().enumerate().filter(|(i, l)| **l == id && *i >= t.truncated).map(|(i, _)| i).max();
					if let Some(last) = last {
						t.truncated = std::cmp::max(t.truncated, last + 1);
						t.events.push((6, t.truncated as u64));
					}
					t.log_len_before.insert(id, 0);
				}
			}
		},
		Sys::Unlink(p) => {
			if !p.starts_with(t.dir.to_string_lossy().as_ref()) {
				return
			}
			let n = file_name(&p);
			if let Some(id) = n.strip_prefix("log").and_then(|x| x.parse::<u64>().ok()) {
				let last = t.record_log.iter().enumerate().filter(|(i, l)| **l == id && *i >= t.truncated).map(|(i, _)| i).max();
				if let Some(last) = last {
					t.truncated = std::cmp::max(t.truncated, last + 1);
					t.events.push((6, t.truncated as u64));
				}
				t.log_len_before.insert(id, 0);
				t.durable.remove(&n);
			} else if let Some(id) = t.file_ids.get(&n).cloned() {
				// a table file that is deleted (an index or ref count table whose reindexing is complete):
				// none of its cells is ever read again, nothing of it can be lost any more
				t.dirty_files.remove(&n);
				t.durable.remove(&n);
				t.events.push((7, id));
			}
		},
	});
}

// ---------------------------------------------------------------- specification side
#[derive(Clone, PartialEq, Debug)]
struct SpecState {
	last: Vec<Vec<Option<u64>>>,
	cnt: Vec<Vec<u64>>,
	val: Vec<Vec<u64>>,
}

fn spec_after(case: &Case, accepted: &[Vec<(u8, u8, usize, u64)>], m: usize) -> SpecState {
	let nk = case.keys[0].len();
	let nc = case.cols.len();
	let mut s = SpecState { last: vec![vec![None; nk]; nc], cnt: vec![vec![0; nk]; nc], val: vec![vec![0; nk]; nc] };
	for ops in accepted.iter().take(m) {
		for (c, o, k, v) in ops {
			let (c, k) = (*c as usize, *k);
			if case.cols[c].rc {
				match o {
					0 => {
						if s.cnt[c][k] == 0 {
							s.val[c][k] = *v;
						}
						s.cnt[c][k] += 1;
					},
					1 =>
						if s.cnt[c][k] > 0 {
							s.cnt[c][k] -= 1
						},
					_ =>
						if s.cnt[c][k] > 0 {
							s.cnt[c][k] += 1
						},
				}
			} else {
				match o {
					0 => s.last[c][k] = Some(*v),
					1 => s.last[c][k] = None,
					_ => (),
				}
			}
		}
	}
	s
}

fn spec_vector(case: &Case, s: &SpecState) -> Vec<u64> {
	let mut v = Vec::new();
	for c in 0..case.cols.len() {
		for k in 0..case.keys[0].len() {
			v.push(if case.cols[c].rc {
				if s.cnt[c][k] > 0 { s.val[c][k] + 1 } else { 0 }
			} else {
				s.last[c][k].map(|x| x + 1).unwrap_or(0)
			});
		}
	}
	v
}

fn read_vector(db: &Db, case: &Case, book: &hist::ValueBook) -> Vec<u64> {
	let mut v = Vec::new();
	for (c, ks) in case.keys.iter().enumerate() {
		for k in ks {
			v.push(match db.get(c as u8, k) {
				Ok(Some(x)) => book.token_of(&x),
				Ok(None) => 0,
				Err(_) => 0xeeee_eeee,
			});
		}
	}
	v
}

/// read_vector in a forked child with a time limit and a memory limit; None when the child did not deliver
fn read_vector_forked(db: &Db, case: &Case, book: &hist::ValueBook, secs: u64) -> Option<Vec<u64>> {
	let want: usize = case.keys.iter().map(|k| k.len()).sum();
	unsafe {
		let mut fds = [0i32; 2];
		if libc::pipe(fds.as_mut_ptr()) != 0 {
			return Some(read_vector(db, case, book))
		}
		let pid = libc::fork();
		if pid < 0 {
			libc::close(fds[0]);
			libc::close(fds[1]);
			return Some(read_vector(db, case, book))
		}
		if pid == 0 {
			libc::close(fds[0]);
			let lim = libc::rlimit { rlim_cur: 3 << 30, rlim_max: 3 << 30 };
			libc::setrlimit(libc::RLIMIT_DATA, &lim);
			libc::alarm(secs as u32 + 5);
			let r = std::panic::catch_unwind(std::panic::AssertUnwindSafe(|| read_vector(db, case, book)));
			if let Ok(v) = r {
				let bytes: Vec<u8> = v.iter().flat_map(|x| x.to_le_bytes()).collect();
				let mut off = 0;
				while off < bytes.len() {
					let n = libc::write(fds[1], bytes[off..].as_ptr() as *const libc::c_void, bytes.len() - off);
					if n <= 0 {
						break
					}
					off += n as usize;
				}
				libc::_exit(0);
			}
			libc::_exit(7);
		}
		libc::close(fds[1]);
		let deadline = std::time::Instant::now() + std::time::Duration::from_secs(secs);
		let mut buf: Vec<u8> = Vec::new();
		let mut eof = false;
		loop {
			let left = deadline.saturating_duration_since(std::time::Instant::now()).as_millis() as i32;
			if left <= 0 {
				break
			}
			let mut pfd = libc::pollfd { fd: fds[0], events: libc::POLLIN, revents: 0 };
			let r = libc::poll(&mut pfd, 1, left);
			if r < 0 {
				if std::io::Error::last_os_error().kind() == std::io::ErrorKind::Interrupted {
					continue
				}
				break
			}
			if r == 0 {
				break
			}
			let mut tmp = [0u8; 65536];
			let n = libc::read(fds[0], tmp.as_mut_ptr() as *mut libc::c_void, tmp.len());
			if n <= 0 {
				eof = true;
				break
			}
			buf.extend_from_slice(&tmp[..n as usize]);
		}
		libc::close(fds[0]);
		if !eof {
			libc::kill(pid, libc::SIGKILL);
		}
		let mut st = 0i32;
		libc::waitpid(pid, &mut st, 0);
		if eof && libc::WIFEXITED(st) && libc::WEXITSTATUS(st) == 0 && buf.len() == want * 8 {
			Some(buf.chunks(8).map(|c| u64::from_le_bytes(c.try_into().unwrap())).collect())
		} else {
			None
		}
	}
}

/// (C13) damage the log files of an image in one of several ways; returns a description
fn damage_logs(dir: &Path, rng: &mut Rng) -> String {
	let mut logs: Vec<PathBuf> = std::fs::read_dir(dir).map(|rd| rd.flatten().map(|e| e.path()).filter(|p| p.file_name().map_or(false, |n| n.to_string_lossy().starts_with("log"))).collect()).unwrap_or_default();
	logs.sort();
	let nonempty: Vec<PathBuf> = logs.iter().filter(|p| std::fs::metadata(p).map(|m| m.len() > 0).unwrap_or(false)).cloned().collect();
	if nonempty.is_empty() {
		// a stray log file
		let p = dir.join("log7");
		let junk = match rng.below(4) {
			0 => vec![],
			1 => vec![1u8, 2, 3],
			2 => rng.bytes(9),
			_ => {
				let n = rng.range(10, 300) as usize;
				rng.bytes(n)
			},
		};
		std::fs::write(&p, &junk).unwrap();
		return format!("stray log7 with {} bytes", junk.len())
	}
	let p = rng.pick(&nonempty).clone();
	let mut data = std::fs::read(&p).unwrap();
	let name = p.file_name().unwrap().to_string_lossy().to_string();
	// (F26) one image in twelve: a CRAFTED first record - the chunk index of its first InsertIndex action is moved
	// beyond the index table (between the number of chunks and the number of entries, or far beyond) and the
	// checksum is recomputed, so only the validation of the replay can reject it
	if rng.chance(1, 12) {
		if let Some(d) = craft_chunk_index(&mut data, rng) {
			std::fs::write(&p, &data).unwrap();
			return format!("{name}: crafted {d}")
		}
	}
	match rng.below(9) {
		0 => {
			let n = rng.below(data.len() as u64) as usize;
			data.truncate(n);
			std::fs::write(&p, &data).unwrap();
			format!("{name} truncated to {n} bytes")
		},
		1 | 2 => {
			let i = rng.below(data.len() as u64) as usize;
			let b = 1u8 << rng.below(8);
			data[i] ^= b;
			std::fs::write(&p, &data).unwrap();
			format!("{name}: bit {b:#x} of byte {i} flipped (of {})", data.len())
		},
		3 => {
			let i = rng.below(data.len() as u64) as usize;
			let n = std::cmp::min(rng.range(2, 16) as usize, data.len() - i);
			let g = rng.bytes(n);
			data[i..i + n].copy_from_slice(&g);
			std::fs::write(&p, &data).unwrap();
			format!("{name}: {n} bytes of garbage at {i}")
		},
		4 => {
			let gl = rng.range(1, 200) as usize;
			let g = rng.bytes(gl);
			data.extend_from_slice(&g);
			std::fs::write(&p, &data).unwrap();
			format!("{name}: {} bytes of garbage appended", g.len())
		},
		5 => {
			std::fs::remove_file(&p).unwrap();
			format!("{name} deleted")
		},
		6 => {
			let q = dir.join("log9");
			std::fs::write(&q, &data).unwrap();
			format!("{name} duplicated as log9")
		},
		7 => {
			// the size field of a value entry set to the largest value (0x7fff)
			if data.len() > 30 {
				let i = rng.range(9, data.len() as u64 - 3) as usize;
				data[i] = 0xff;
				data[i + 1] = 0x7f;
				std::fs::write(&p, &data).unwrap();
			}
			format!("{name}: bytes ff 7f planted")
		},
		_ => {
			data.truncate(std::cmp::min(data.len(), rng.below(9) as usize));
			std::fs::write(&p, &data).unwrap();
			format!("{name} cut to a sub-header length {}", data.len())
		},
	}
}

/// patch the chunk index of the first InsertIndex action of the first record and recompute the record's CRC-32
fn craft_chunk_index(b: &mut Vec<u8>, rng: &mut Rng) -> Option<String> {
	if b.len() < 10 || b[0] != 1 {
		return None
	}
	let mut q = 9usize;
	let mut pos: Option<(usize, u32)> = None;
	loop {
		if q >= b.len() {
			return None
		}
		let op = b[q];
		q += 1;
		match op {
			2 | 6 => {
				if q + 18 > b.len() {
					return None
				}
				if op == 2 && pos.is_none() {
					pos = Some((q + 2, b[q] as u32));
				}
				let m = u64::from_le_bytes(b[q + 10..q + 18].try_into().unwrap());
				q += 18 + m.count_ones() as usize * if op == 2 { 8 } else { 16 };
			},
			3 => {
				if q + 12 > b.len() {
					return None
				}
				let tier = b[q];
				let index = u64::from_le_bytes(b[q + 2..q + 10].try_into().unwrap());
				q += 10;
				if index == 0 {
					q += 16
				} else {
					let hd = u16::from_le_bytes([b[q], b[q + 1]]);
					q += 2;
					if hd == 0xffff {
						q += 8
					} else if tier == 255 {
						q += 4094
					} else {
						q += (hd & 0x7fff) as usize
					}
				}
			},
			5 | 7 => q += 2,
			4 => break,
			_ => return None,
		}
	}
	let (ip, bits) = pos?;
	if q + 4 > b.len() || bits < 16 || bits > 40 {
		return None
	}
	let chunks = 1u64 << bits;
	let bad = match rng.below(3) {
		0 => chunks,
		1 => chunks * rng.range(2, 63),
		_ => chunks * 64 - 1,
	};
	b[ip..ip + 8].copy_from_slice(&bad.to_le_bytes());
	let mut h = crc32fast::Hasher::new();
	h.update(&b[..q]);
	let c = h.finalize();
	b[q..q + 4].copy_from_slice(&c.to_le_bytes());
	Some(format!("chunk-index {bad} of a {bits}-bit index, checksum recomputed"))
}

pub fn main(args: &[String], kind: &str) -> i32 {
	let seed: u64 = args[0].parse().unwrap();
	let count: u64 = args[1].parse().unwrap();
	let mut out = Out::new(&args[2]);
	let root = PathBuf::from(&args[2]);
	let mut oracle = String::new();
	let mut dist: BTreeMap<String, u64> = BTreeMap::new();
	let mut nontrivial = 0u64;
	let mut total_images = 0u64;
	parity_db::verif::set_event_hook(Some(on_event));
	interpose::set_sink(Some(Box::new(on_sys)));
	interpose::set_after_msync(Some(Box::new(interleave_enact)));
	for hi in 0..count {
		let mut rng = crate::util::case_rng(seed ^ 0xC4A5, hi);
		if crate::util::skip_case(hi) {
			continue
		}
		// a history of the usual kind, without clean reopen steps before the end so that the pipeline gets deep
		// a quarter of the C02 / C12 histories grow the index (66-90 keys sharing an index page, reindex steps)
		let growth = (kind == "c02" || kind == "c12") && rng.chance(1, 4);
		let mut case = if growth { hist::gen_case_growth(&mut rng, None) } else { hist::gen_case(&mut rng, "c02") };
		if growth {
			*dist.entry("histories-with-index-growth".into()).or_insert(0) += 1;
		}
		case.steps.retain(|s| !matches!(s, Step::Reopen));
		// so that a clean step often finds a synced, not yet enacted log beside the logs it cleans
		// (the stage interleaving of C12): before half of the clean steps a repeated commit is logged and synced
		{
			let commits: Vec<Step> = case.steps.iter().filter(|s| matches!(s, Step::Commit(_))).cloned().collect();
			let mut out = Vec::new();
			for s in case.steps.drain(..) {
				if matches!(s, Step::Clean) && !commits.is_empty() && rng.chance(1, 2) {
					out.push(rng.pick(&commits).clone());
					for _ in 0..6 {
						out.push(Step::Process);
					}
					out.push(Step::Flush);
				}
				out.push(s);
			}
			case.steps = out;
		}
		// (C16) a sixth of the histories start with the recycled-log pattern: a log file is cleaned and reused while
		// an older record still waits in a younger file, so that the clean-up queue holds file ids out of age order;
		// the failure then sets in inside the clean step that truncates both
		let mut recycle_clean: Option<usize> = None;
		if kind == "c16" && rng.chance(1, 6) {
			let commits: Vec<Step> = case.steps.iter().filter(|s| matches!(s, Step::Commit(_))).cloned().collect();
			if commits.len() >= 3 {
				let mut pre = Vec::new();
				let logged = |pre: &mut Vec<Step>, c: &Step| {
					pre.push(c.clone());
					for _ in 0..6 {
						pre.push(Step::Process);
					}
					pre.push(Step::Flush);
				};
				logged(&mut pre, &commits[0]);
				pre.push(Step::EnactAll);
				logged(&mut pre, &commits[1]);
				pre.push(Step::Clean);
				logged(&mut pre, &commits[2]);
				pre.push(Step::EnactAll);
				pre.push(Step::EnactAll);
				recycle_clean = Some(pre.len());
				pre.push(Step::Clean);
				pre.extend(case.steps.drain(..));
				case.steps = pre;
				*dist.entry("histories-with-recycled-log-prelude".into()).or_insert(0) += 1;
			}
		}
		hist::canonicalise(&mut case);
		crate::util::watch_begin(&out, &hist::case_tokens(&case));
		let dir = root.join("db");
		let img_root = root.join("img");
		let _ = std::fs::remove_dir_all(&dir);
		let _ = std::fs::remove_dir_all(&img_root);
		std::fs::create_dir_all(&img_root).unwrap();
		let opts = hist::options_for(&case, &dir);
		let mut book = hist::ValueBook::new();
		let mut accepted: Vec<Vec<(u8, u8, usize, u64)>> = Vec::new();
		*TRACKER.lock().unwrap() = Some(Tracker {
			dir: dir.clone(),
			img_root: img_root.clone(),
			durable: HashMap::new(),
			known_files: HashSet::new(),
			logged: 0,
			record_ids: vec![],
			record_log: vec![],
			is_commit: vec![],
			synced_records: HashSet::new(),
			enacted: 0,
			truncated: 0,
			stores_of: vec![],
			file_ids: HashMap::new(),
			cur_enact: None,
			dirty_files: HashSet::new(),
			events: vec![],
			log_len_before: HashMap::new(),
			rng: rng.fork(),
			images: vec![],
			max_images: if kind == "c13" { 12 } else if growth { 14 } else { 40 },
			seen: 0,
			serial: 0,
			enabled: false,
			damage: kind == "c13",
			power_only: kind == "c12",
		});
		let mut verdict: Result<(), String> = Ok(());
		let interleave_budget = if rng.chance(1, 2) { rng.range(1, 12) as usize } else { 0 };
		// (C16) the step at which file operations start to fail, and how many operations still succeed
		let c16 = kind == "c16";
		let stage_steps: Vec<usize> = case.steps.iter().enumerate().filter(|(_, s)| !matches!(s, Step::Commit(_))).map(|(i, _)| i).collect();
		let fail_at: Option<(usize, usize)> = if c16 && !stage_steps.is_empty() {
			// the first operations of a stage (opening / reading the head of a log, the first table write)
			// are where most distinct failure sites lie
			let b = match rng.below(4) {
				0 | 1 => rng.range(0, 3),
				2 => rng.range(0, 8),
				_ => rng.range(0, 40),
			} as usize;
			// half of the time at an enact step (if there is one): the stage with the most file operations
			let enacts: Vec<usize> = stage_steps.iter().cloned().filter(|i| matches!(case.steps[*i], Step::EnactAll | Step::EnactOne)).collect();
			// a fifth of the time inside a clean step of the later half (several enacted logs are truncated one after
			// the other there: a failure between two of them must leave the older ones of no consequence)
			let cleans: Vec<usize> = stage_steps.iter().cloned().filter(|i| matches!(case.steps[*i], Step::Clean) && *i * 2 >= case.steps.len()).collect();
			if let Some(rc) = recycle_clean {
				Some((rc, rng.range(1, 4) as usize))
			} else if !cleans.is_empty() && rng.chance(1, 5) {
				Some((*rng.pick(&cleans), rng.range(1, 6) as usize))
			} else {
				let at = if !enacts.is_empty() && rng.chance(1, 2) { *rng.pick(&enacts) } else { *rng.pick(&stage_steps) };
				Some((at, b))
			}
		} else {
			None
		};
		let lift_before_drop = c16 && rng.chance(1, 2);
		let failure: Mutex<Option<(usize, usize, String)>> = Mutex::new(None); // (step, commits synced before it, error)
		let c16_verdict: Mutex<Option<String>> = Mutex::new(None);
		let synced_at_drop: Mutex<Option<usize>> = Mutex::new(None);
		let run = std::panic::catch_unwind(std::panic::AssertUnwindSafe(|| {
			let db = Db::open_or_create(&opts).expect("create");
			DBPTR.store(&db as *const Db as usize, std::sync::atomic::Ordering::SeqCst);
			INTERLEAVE_BUDGET.store(if kind == "c13" { 0 } else { interleave_budget }, std::sync::atomic::Ordering::SeqCst);
			with(|t| t.enabled = true);
			let mut armed = false;
			let mut failed = false;
			let unarmed = |f: &dyn Fn() -> Vec<u64>| -> Vec<u64> {
				// reads are not pipeline file operations: the injection is suspended around them
				let left = parity_db::verif_remaining_io_operations();
				parity_db::set_number_of_allowed_io_operations(usize::MAX);
				let r = f();
				parity_db::set_number_of_allowed_io_operations(left);
				r
			};
			for (si, s) in case.steps.iter().enumerate() {
				if let Some((fs, budget)) = fail_at {
					if si == fs && !armed {
						armed = true;
						parity_db::set_number_of_allowed_io_operations(budget);
					}
				}
				let mut stage: Option<parity_db::Result<()>> = None;
				if std::env::var("VERIF_DEBUG").is_ok() {
					eprintln!("step {si} {:?} armed {armed} failed {failed} events so far {:?}", std::mem::discriminant(s), with(|t| t.events.clone()).unwrap_or_default().iter().rev().take(12).rev().collect::<Vec<_>>());
				}
				match s {
					Step::Commit(ops) => {
						let tx: Vec<(u8, Operation<Vec<u8>, Vec<u8>>)> = ops
							.iter()
							.map(|(c, o, k, v)| {
								let key = case.keys[*c as usize][*k].clone();
								(*c, match o {
									0 => Operation::Set(key, book.note(*v)),
									1 => Operation::Dereference(key),
									_ => Operation::Reference(key),
								})
							})
							.collect();
						let r = db.commit_changes(tx);
						if r.is_ok() {
							accepted.push(ops.clone());
							if failed {
								*c16_verdict.lock().unwrap() = Some(format!("commit-accepted-after-error step {si}: a commit was accepted although a pipeline stage had failed before"));
							}
						} else if std::env::var("VERIF_DEBUG").is_ok() {
							eprintln!("step {si}: commit refused: {:?}", r.err());
						}
					},
					_ if failed => (), // the workers are gone: nothing moves any more
					Step::Process => stage = Some(db.process_commits().map(|_| ())),
					Step::Flush => stage = Some(db.flush_logs().map(|_| ())),
					Step::EnactAll => {
						if db.verif_num_dirty_logs() >= 4 {
							stage = Some(db.clean_logs());
						}
						if stage.as_ref().map_or(true, |r| r.is_ok()) {
							stage = Some(db.enact_logs().map(|_| ()));
						}
					},
					Step::EnactOne => {
						if db.verif_num_dirty_logs() >= 4 {
							stage = Some(db.clean_logs());
						}
						if stage.as_ref().map_or(true, |r| r.is_ok()) {
							stage = Some(db.verif_enact_one().map(|_| ()));
						}
					},
					Step::Clean => {
						IN_CLEAN.store(true, std::sync::atomic::Ordering::SeqCst);
						let r = db.clean_logs();
						IN_CLEAN.store(false, std::sync::atomic::Ordering::SeqCst);
						stage = Some(r);
					},
					Step::Reindex => {
						REINDEXING.store(true, std::sync::atomic::Ordering::SeqCst);
						let r = db.process_reindex();
						REINDEXING.store(false, std::sync::atomic::Ordering::SeqCst);
						stage = Some(r.map(|_| ()));
					},
					_ => (),
				}
				if let Some(Err(e)) = stage {
					if !armed {
						panic!("stage failed without any injected failure: {e:?}");
					}
					// what a background worker does with the error of its stage
					let synced = with(|t| t.commits_in(t.synced_count())).unwrap_or(0);
					*failure.lock().unwrap() = Some((si, synced, format!("{e:?}")));
					failed = true;
					db.verif_store_err(Err(e));
				}
				if failed {
					// reads keep returning committed data: everything accepted so far
					let got = unarmed(&|| read_vector(&db, &case, &book));
					let want = spec_vector(&case, &spec_after(&case, &accepted, accepted.len()));
					// counted columns: while commits are queued (and after a failure they stay queued for ever)
					// only "positive count => readable with its value" is promised (C07); the rest is exact
					let nk = case.keys[0].len();
					let bad = |i: usize, a: u64, b: u64| -> bool { if case.cols[i / nk].rc { a != 0 && a != b } else { a != b } };
					if want.iter().zip(got.iter()).enumerate().any(|(i, (a, b))| bad(i, *a, *b)) && c16_verdict.lock().unwrap().is_none() {
						let diffs: Vec<String> = want.iter().zip(got.iter()).enumerate().filter(|(i, (a, b))| bad(*i, **a, **b)).map(|(i, (a, b))| format!("slot{i}: want {a:x} got {b:x}")).take(4).collect();
						*c16_verdict.lock().unwrap() = Some(format!("read-after-error-wrong step {si}: reads after the failed stage differ from the committed data: {diffs:?}; failure {:?}; steps {:?}", failure.lock().unwrap(), case.steps.iter().map(|s| match s { Step::Commit(o) => format!("C{:?}", o.iter().map(|x| (x.0, x.1, x.2, x.3 >> 32)).collect::<Vec<_>>()), o => format!("{:?}", std::mem::discriminant(o)) }).collect::<Vec<_>>()));
					}
				}
				with(|t| t.sample(1, 4, 1, 4, &format!("after step {:?}", std::mem::discriminant(s))));
			}
			with(|t| t.enabled = false);
			DBPTR.store(0, std::sync::atomic::Ordering::SeqCst);
			// the failure persists until the handle is gone
			*synced_at_drop.lock().unwrap() = with(|t| t.commits_in(t.synced_count()));
			if lift_before_drop {
				// a fault that hit the writer but not the shutdown (e.g. a full disk: truncations still work;
				// or the failing thread was a worker, the dropping thread is not)
				parity_db::set_number_of_allowed_io_operations(usize::MAX);
			}
			with(|t| t.enabled = true);
			drop(db);
			with(|t| t.enabled = false);
			parity_db::set_number_of_allowed_io_operations(usize::MAX);
		}));
		parity_db::set_number_of_allowed_io_operations(usize::MAX);
		if let Err(e) = &run {
			let m = e.downcast_ref::<String>().cloned().or_else(|| e.downcast_ref::<&str>().map(|s| s.to_string())).unwrap_or_default();
			verdict = Err(format!("{} the implementation panicked while the history ran: {}", if c16 { "error-panic" } else { "panic" }, m.chars().take(160).collect::<String>()));
		}
		if c16 && verdict.is_ok() {
			if let Some(v) = c16_verdict.lock().unwrap().take() {
				verdict = Err(v);
			}
		}
		let tr = TRACKER.lock().unwrap().take().unwrap();
		if c16 && verdict.is_ok() {
			// the fault is gone: the directory the failed handle left behind must open and show a prefix of
			// the accepted commits that contains everything synced before the failure
			let fl = failure.lock().unwrap().clone();
			let (lo, what) = match &fl {
				Some((si, synced, e)) => (*synced, format!("failure at step {si} ({}), budget {:?}", e.chars().take(60).collect::<String>(), fail_at.map(|x| x.1))),
				None if fail_at.is_some() => (synced_at_drop.lock().unwrap().unwrap_or(0), format!("no stage failed before the drop, budget {:?}", fail_at)),
				None => (accepted.len(), "no failure injected".to_string()),
			};
			*dist.entry(if fl.is_some() { "histories-with-a-failed-stage".to_string() } else { "histories-without-failure".to_string() }).or_insert(0) += 1;
			if let Some((si, _, _)) = &fl {
				*dist.entry(format!("failed-{}", match &case.steps[*si] { Step::Process => "process", Step::Flush => "flush", Step::EnactAll | Step::EnactOne => "enact", Step::Clean => "clean", _ => "other" })).or_insert(0) += 1;
			}
			let r = std::panic::catch_unwind(std::panic::AssertUnwindSafe(|| -> Result<(), String> {
				let db = Db::open(&opts).map_err(|e| format!("error-recovery-failed reopening after the fault is gone failed: {e:?}"))?;
				let got = read_vector(&db, &case, &book);
				let any = (0..=accepted.len()).rev().find(|m| spec_vector(&case, &spec_after(&case, &accepted, *m)) == got);
				match any {
					Some(m) if m >= lo => Ok(()),
					Some(m) => Err(format!("error-synced-lost after the fault the database holds the first {m} commits, {lo} had been synced before the failure")),
					None => Err("error-recovery-not-prefix after the fault the database holds no prefix of the committed transactions".to_string()),
				}
			}));
			match r {
				Err(_) => verdict = Err(format!("error-panic reopening after the fault panicked [{what}]")),
				Ok(Err(e)) => verdict = Err(format!("{e} [{what}]")),
				Ok(Ok(())) => (),
			}
		}
		// ---- the event trace for the proved acceptor
		let mut toks = vec![12u64, tr.events.len() as u64];
		for (code, arg) in &tr.events {
			toks.push(*code);
			match code {
				1 => {
					toks.push(tr.stores_of[*arg as usize].len() as u64);
					toks.extend(tr.stores_of[*arg as usize].iter());
				},
				6 | 7 => toks.push(*arg),
				_ => (),
			}
		}
		out.case(&toks);
		out.obs(&[1, tr.logged as u64, tr.synced_count() as u64, tr.enacted as u64, tr.truncated as u64]);
		// ---- the images
		let ncommits = accepted.len();
		let mut saw_mid = false;
		let mut extra_cases: Vec<(Vec<u64>, Vec<u64>)> = Vec::new();
		for im in &tr.images {
			if verdict.is_err() {
				break
			}
			total_images += 1;
			*dist.entry(format!("image-{}", im.kind)).or_insert(0) += 1;
			if im.desc.contains("inside") || im.kind == "power" {
				saw_mid = true;
			}
			let mut desc = im.desc.clone();
			let (mut lo, hi) = (im.m_lo, im.m_hi);
			if tr.damage {
				let d = damage_logs(&im.dir, &mut rng);
				desc = format!("{desc}; DAMAGE: {d}");
				// a damaged log may lose any not-yet-enacted suffix, but never what the tables already held
				lo = 0;
				*dist.entry(format!("damage-{}", d.split(|c: char| c == ':' || c == ' ').nth(1).unwrap_or("x"))).or_insert(0) += 1;
			}
			let iopts = {
				let mut o = hist::options_for(&case, &im.dir);
				o.path = im.dir.clone();
				o
			};
			// what the replay must apply, from the log bytes alone (own parser)
			let index_gens = |col: u8| -> Vec<u8> {
				let mut v: Vec<u8> = std::fs::read_dir(&im.dir)
					.map(|rd| rd.flatten().filter_map(|e| e.file_name().to_string_lossy().strip_prefix(&format!("index_{col:02}_")).and_then(|b| b.parse().ok())).collect())
					.unwrap_or_default();
				if v.is_empty() {
					v.push(16);
				}
				v
			};
			let (expected_set, ties) = crate::rawdump::expected_replay_set(&im.dir, case.cols.len(), &index_gens);
			let expected = expected_set[0].clone();
			// the same question for the Coq model: the raw bytes of every log file of the image
			let mut log_case: Vec<u64> = Vec::new();
			if tr.damage {
				let mut files: Vec<Vec<u8>> = std::fs::read_dir(&im.dir)
					.map(|rd| rd.flatten().filter(|e| { let n = e.file_name().to_string_lossy().to_string(); n.starts_with("log") && n[3..].parse::<u32>().is_ok() }).map(|e| std::fs::read(e.path()).unwrap_or_default()).collect())
					.unwrap_or_default();
				files.sort();
				let total: usize = files.iter().map(|f| f.len()).sum();
				if ties {
					*dist.entry("replay-id-cases-skipped-tie-of-first-ids".into()).or_insert(0) += 1;
				} else if total < 6000 {
					log_case = vec![13, 2, case.cols.len() as u64, files.len() as u64];
					for f in &files {
						log_case.push(f.len() as u64);
						log_case.extend(f.iter().map(|b| *b as u64));
					}
				}
			}
			let replay_obs: Mutex<Option<Vec<u64>>> = Mutex::new(None);
			if let Ok(keep) = std::env::var("VERIF_KEEP_FAIL") {
				// debugging aid: the whole image as it is before the open
				let pre = PathBuf::from(&keep).join("pre");
				let _ = std::fs::remove_dir_all(&pre);
				let _ = std::fs::create_dir_all(&pre);
				if let Ok(rd) = std::fs::read_dir(&im.dir) {
					for e in rd.flatten() {
						Tracker::copy_sparse(&e.path(), &pre.join(e.file_name()));
					}
				}
			}
			let kept_logs: Vec<(String, Vec<u8>)> = if std::env::var("VERIF_KEEP_FAIL").is_ok() {
				std::fs::read_dir(&im.dir).map(|rd| rd.flatten().filter(|e| e.file_name().to_string_lossy().starts_with("log")).map(|e| (e.file_name().to_string_lossy().to_string(), std::fs::read(e.path()).unwrap_or_default())).collect()).unwrap_or_default()
			} else {
				vec![]
			};
			REPLAYED.lock().unwrap().clear();
			// known design limits of the log format (finding F18): nothing records which records the
			// tables already hold, so (a) a replay that stops BEFORE an already enacted record re-applies
			// an older prefix over newer tables, (b) a lost older log leaves a gap nobody can see
			let enacted_ids: Vec<u64> = im.record_ids.iter().take(im.enacted).cloned().collect();
			let f18 = tr.damage &&
				(enacted_ids.iter().any(|r| !expected.contains(r)) && !expected.is_empty() ||
				 expected.first().map_or(false, |f| im.record_ids.iter().position(|r| r == f).map_or(true, |p| p > im.enacted)));
			let r = std::panic::catch_unwind(std::panic::AssertUnwindSafe(|| -> Result<(), String> {
				let db = match Db::open(&iopts) {
					Ok(db) => db,
					Err(e) => return Err(format!("recovery-failed opening the image failed: {e:?}")),
				};
				let applied = REPLAYED.lock().unwrap().clone();
				*replay_obs.lock().unwrap() = Some(applied.clone());
				if tr.damage && !expected_set.contains(&applied) {
					return Err(format!("replay-applied-wrong-records the replay applied records {applied:?}, the log bytes justify exactly {expected:?}"))
				}
				// under F18 the tables can hold a value chain that runs in a circle: a read of it never returns and
				// allocates without bound. The vector is then read by a forked copy of this process, which is
				// killed when it does not answer.
				let got = if f18 {
					match read_vector_forked(&db, &case, &book, 10) {
						Some(v) => v,
						None => return Err("damaged-log-mixes-states a read of the recovered state did not return within 10 s (a value chain that runs in a circle)".into()),
					}
				} else {
					read_vector(&db, &case, &book)
				};
				let mut matched = None;
				for m in lo..=std::cmp::min(hi, ncommits) {
					if spec_vector(&case, &spec_after(&case, &accepted, m)) == got {
						matched = Some(m);
					}
				}
				let m = match matched {
					Some(m) => m,
					None => {
						// which prefix (if any) it is, for the message
						let any = (0..=ncommits).find(|m| spec_vector(&case, &spec_after(&case, &accepted, *m)) == got);
						let cls = match any {
							_ if f18 => "damaged-log-mixes-states",
							Some(a) if a < lo => "synced-lost",
							Some(_) => "not-logged-visible",
							None => "not-a-prefix",
						};
						let (bm, bd) = (0..=ncommits)
							.map(|m| {
								let sv = spec_vector(&case, &spec_after(&case, &accepted, m));
								(m, sv.iter().zip(got.iter()).filter(|(a, b)| a != b).count())
							})
							.min_by_key(|x| x.1)
							.unwrap();
						let sv = spec_vector(&case, &spec_after(&case, &accepted, bm));
						let diffs: Vec<String> = sv.iter().zip(got.iter()).enumerate().filter(|(_, (a, b))| a != b).map(|(i, (a, b))| format!("slot{i}: want {a:x} got {b:x}")).collect();
						return Err(format!("{cls} recovered state is {} (allowed: {lo}..={hi} of {ncommits} commits); closest prefix {bm} differs in {bd}: {:?}; cols {:?}", match any { Some(a) => format!("the state after {a} commits"), None => "no prefix state".into() }, diffs, case.cols.iter().map(|c| (c.btree, c.rc, c.preimage)).collect::<Vec<_>>()))
					},
				};
				// the recovered database keeps working
				let c0 = 0usize;
				let k0 = 0usize;
				let newv = (0xabcdefu64 << 32) | 17;
				let extra = vec![(c0 as u8, 0u8, k0, newv)];
				let mut book2 = hist::ValueBook::new();
				let bytes = book2.note(newv);
				db.commit_changes(vec![(c0 as u8, Operation::Set(case.keys[c0][k0].clone(), bytes.clone()))]).map_err(|e| format!("post-recovery-commit {e:?}"))?;
				for _ in 0..3 {
					db.process_commits().map_err(|e| format!("post-recovery-process {e:?}"))?;
				}
				db.flush_logs().map_err(|e| format!("post-recovery-flush {e:?}"))?;
				db.enact_logs().map_err(|e| format!("post-recovery-enact {e:?}"))?;
				drop(db);
				let db = Db::open(&iopts).map_err(|e| format!("post-recovery-reopen {e:?}"))?;
				let got2 = db.get(c0 as u8, &case.keys[c0][k0]).map_err(|e| format!("{e:?}"))?;
				let mut acc2: Vec<Vec<(u8, u8, usize, u64)>> = accepted.iter().take(m).cloned().collect();
				acc2.push(extra);
				let want = spec_after(&case, &acc2, m + 1);
				let expect_present = if case.cols[c0].rc { want.cnt[c0][k0] > 0 } else { true };
				// on a preimage column a Set of an existing key keeps the stored value (the contract says it is the same)
				let keeps_old = case.cols[c0].preimage && spec_after(&case, &accepted, m).last[c0][k0].is_some();
				if expect_present && !case.cols[c0].rc && !keeps_old && got2.as_ref() != Some(&bytes) {
					return Err("post-recovery-lost a transaction committed after recovery is not there after a clean reopen".into())
				}
				Ok(())
			}));
			if !log_case.is_empty() {
				if let Some(ids) = replay_obs.lock().unwrap().clone() {
					extra_cases.push((log_case.clone(), ids));
				}
			}
			match r {
				Err(e) => {
					let m = e.downcast_ref::<String>().cloned().or_else(|| e.downcast_ref::<&str>().map(|s| s.to_string())).unwrap_or_default();
					let cls = if f18 { "damaged-log-mixes-states" } else { "recovery-panic" };
					verdict = Err(format!("{cls} opening or using the {} image panicked: {} [{}]", im.kind, m.chars().take(120).collect::<String>(), desc))
				},
				Ok(Err(e)) => {
					// every consequence of finding F18 (an older prefix replayed over newer tables) is that finding:
					// also a structure that only breaks when the recovered database is used again
					let e = if f18 && !e.starts_with("damaged-log-mixes-states") && !e.starts_with("replay-applied-wrong-records") {
						format!("damaged-log-mixes-states (latent) {e}")
					} else {
						e
					};
					if let Ok(keep) = std::env::var("VERIF_KEEP_FAIL") {
						// debugging aid: keep the log files of the failing image as they were BEFORE the open
						let k = PathBuf::from(keep).join(format!("{}", e.split(' ').next().unwrap_or("x")));
						let _ = std::fs::create_dir_all(&k);
						for (n, d) in &kept_logs {
							let _ = std::fs::write(k.join(n), d);
						}
						let _ = std::fs::write(k.join("why.txt"), format!("{e} [{} image: {}] enacted {} records {:?} expected {:?} opts {:?}", im.kind, desc, im.enacted, im.record_ids, expected, case.cols.iter().map(|c| (c.btree, c.rc, c.preimage, c.uniform, c.compression)).collect::<Vec<_>>()));
						let _ = std::fs::remove_dir_all(k.join("image"));
						let _ = std::fs::rename(PathBuf::from(std::env::var("VERIF_KEEP_FAIL").unwrap()).join("pre"), k.join("image"));
					}
					verdict = Err(format!("{e} [{} image: {}]", im.kind, desc))
				},
				Ok(Ok(())) => (),
			}
		}
		crate::util::watch_end();
		match verdict {
			Ok(()) => oracle.push_str("ok\n"),
			Err(e) => oracle.push_str(&format!("FAIL {e}\n")),
		}
		for (c, o) in extra_cases {
			out.case(&c);
			out.obs(&o);
			oracle.push_str("ok\n");
			*dist.entry("replay-id-cases".into()).or_insert(0) += 1;
		}
		// CRC-32 of the model against the library the code uses
		{
			let n = rng.range(0, 120) as usize;
			let bs = rng.bytes(n);
			let mut c = vec![13u64, 1];
			c.extend(bs.iter().map(|b| *b as u64));
			out.case(&c);
			let mut h = crc32fast::Hasher::new();
			h.update(&bs);
			out.obs(&[h.finalize() as u64]);
			oracle.push_str("ok\n");
		}
		if saw_mid {
			nontrivial += 1;
		}
		*dist.entry("histories".into()).or_insert(0) += 1;
		let _ = hi;
	}
	interpose::set_sink(None);
	interpose::set_after_msync(None);
	dist.insert("records-enacted-inside-a-clean-step".into(), INTERLEAVED.load(std::sync::atomic::Ordering::SeqCst) as u64);
	parity_db::verif::set_event_hook(None);
	let _ = std::fs::remove_dir_all(root.join("db"));
	let _ = std::fs::remove_dir_all(root.join("img"));
	out.write_file("oracle.txt", &oracle);
	dist.insert("images-opened".into(), total_images);
	let d: Vec<String> = dist.iter().map(|(k, v)| format!("{}: {}", crate::util::jstr(k), v)).collect();
	out.write_file(
		"stats.json",
		&format!("{{\"evaluations\": {}, \"distinct_nontrivial\": {}, \"distribution\": {{{}}}}}", count, nontrivial, d.join(", ")),
	);
	out.finish();
	0
}
