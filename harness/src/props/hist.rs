//! Pipeline histories (C01, C03, C07, C08 ...): commits interleaved with explicit pipeline-stage
//! steps through the repo's stepping API (no background threads), with a full read-out of every
//! key of a small universe after every step.
//!
//! Case line (all numbers hex): 1 ncols flags*ncols nkeys nsteps step*
//!   flags: bit0 btree, bit1 ref_counted, bit2 preimage
//!   step:  1 n (col opcode key vtok)*n | 2 process | 3 flush | 4 enact-all | 5 clean | 6 reopen | 7 enact-one
//!   opcode: 0 set, 1 dereference, 2 reference
//!   vtok = value id << 32 | length
//! Observation line: per step: status, then for every column and key: get (0 = none, vtok+1), size (0 = none, len+1)
use crate::{prng::Rng, util::Out};
use parity_db::{ColumnOptions, CompressionType, Db, Operation, Options};
use std::collections::BTreeMap;

#[derive(Clone, Debug)]
pub struct ColCfg {
	pub btree: bool,
	pub rc: bool,
	pub preimage: bool,
	pub uniform: bool,
	pub compression: u8,
	pub threshold: u32,
}

#[derive(Clone, Debug)]
pub enum Step {
	Commit(Vec<(u8, u8, usize, u64)>), // col, opcode, key index, vtok
	Process,
	Flush,
	EnactAll,
	Clean,
	Reopen,
	EnactOne,
	Reindex,
	IterNew(u8),
	IterSeek(u64), // key index + 1, or 0 = before every key
	IterLast,
	IterNext,
	IterPrev,
}

#[derive(Clone, Debug)]
pub struct Case {
	pub cols: Vec<ColCfg>,
	pub keys: Vec<Vec<Vec<u8>>>, // per column, sorted ascending (byte order)
	pub steps: Vec<Step>,
	pub salt_zero: bool,
	pub class: String,
}

pub fn value_bytes(vtok: u64) -> Vec<u8> {
	let vid = vtok >> 32;
	let len = (vtok & 0xffff_ffff) as usize;
	if vid % 2 == 1 {
		// compressible: short repeating pattern
		let pat = [(vid & 0xff) as u8, ((vid >> 8) & 0xff) as u8, 0x55, (vid % 7) as u8];
		(0..len).map(|i| pat[i % 4]).collect()
	} else {
		let mut r = Rng::new(vid.wrapping_mul(0x9E37_79B9) ^ 0xABCD);
		r.bytes(len)
	}
}

fn size_classes(rng: &mut Rng) -> u64 {
	match rng.below(20) {
		0 => 0,
		1..=9 => rng.range(1, 60),
		10..=13 => rng.range(61, 900),
		14 => rng.range(4090, 4100),
		15 => rng.range(900, 8000),
		16 => rng.range(32700, 32800),
		17 => rng.range(8000, 40000),
		18 => rng.range(40000, 150000),
		_ => rng.range(1, 33),
	}
}

fn gen_key(rng: &mut Rng, uniform: bool, btree: bool, salt_zero: bool) -> Vec<u8> {
	if uniform {
		// the instrumentation-only identity hash (zero salt) copies the whole key into 32 bytes
		let extra = if salt_zero { 0 } else { 1 } * match rng.below(4) {
			0 => 0,
			1 => 1,
			_ => rng.below(40) as usize,
		};
		rng.bytes(32 + extra)
	} else if btree {
		let len = match rng.below(12) {
			0 => 0,
			1 => 1,
			2 => 254,
			3 => 255,
			4 => 256,
			5 => rng.range(257, 700) as usize,
			_ => rng.range(1, 40) as usize,
		};
		// small alphabet so that keys share prefixes
		(0..len).map(|_| *rng.pick(&[0u8, 1, 2, 0x7f, 0xff])).collect()
	} else {
		let len = match rng.below(10) {
			0 => 0,
			1 => 1,
			2 => 31,
			3 => 32,
			4 => 33,
			5 => rng.range(200, 300) as usize,
			_ => rng.range(1, 64) as usize,
		};
		rng.bytes(len)
	}
}

pub fn gen_case(rng: &mut Rng, kind: &str) -> Case {
	if kind == "c09" {
		return gen_case_growth(rng, None)
	}
	if kind == "c09rc" {
		return gen_case_growth(rng, Some(true))
	}
	if kind == "c04" {
		return gen_case_btree(rng)
	}
	// a share of the map histories runs over an index that grows: log records that belong to no commit
	// (reindex batches) then sit between the records of the commits
	if kind == "c01" && rng.chance(1, 8) {
		let mut c = gen_case_growth(rng, Some(false));
		c.class = "c09".into();
		return c
	}
	if kind == "c07" && rng.chance(1, 8) {
		return gen_case_growth(rng, Some(true))
	}
	let salt_zero = rng.chance(1, 2);
	let ncols = rng.range(1, 3) as usize;
	let nkeys = rng.range(3, 9) as usize;
	let mut cols = Vec::new();
	for _ in 0..ncols {
		let btree = rng.chance(1, 3);
		let rc = match kind {
			"c01" => false,
			"c07" => true,
			_ => rng.chance(1, 3),
		};
		let preimage = rc || (!btree && rng.chance(1, 4));
		let uniform = !btree && rng.chance(1, 3);
		let compression = *rng.pick(&[0u8, 0, 1, 2]);
		let threshold = *rng.pick(&[0u32, 4096, 4096, u32::MAX]);
		cols.push(ColCfg { btree, rc, preimage, uniform, compression, threshold });
	}
	let mut keys = Vec::new();
	for c in &cols {
		let mut ks: Vec<Vec<u8>> = Vec::new();
		while ks.len() < nkeys {
			let k = gen_key(rng, c.uniform, c.btree, salt_zero);
			if !ks.contains(&k) {
				ks.push(k);
			}
		}
		ks.sort();
		keys.push(ks);
	}
	// value of a key on preimage columns: fixed per (col, key)
	// distinct ids and at least 8 bytes so that two keys never share value bytes (value iteration
	// identifies a key by its value)
	let fixed: Vec<Vec<u64>> = (0..ncols)
		.map(|c| {
			(0..nkeys)
				.map(|k| ((((c as u64) << 10 | k as u64) << 4 | rng.below(16)) + 16) << 32 | std::cmp::max(8, size_classes(rng)))
				.collect()
		})
		.collect();
	let nsteps = rng.range(8, 40) as usize;
	let invalid_rate = if kind == "c08" { 4 } else { 40 };
	let mut gen_commit = |rng: &mut Rng| -> Step {
		let n = rng.range(1, 5) as usize;
		let mut ops = Vec::new();
		for _ in 0..n {
			let c = rng.below(ncols as u64) as usize;
			let k = rng.below(nkeys as u64) as usize;
			let opc = if cols[c].rc {
				*rng.pick(&[0u8, 0, 1, 1, 2])
			} else if rng.chance(1, invalid_rate) {
				2
			} else {
				*rng.pick(&[0u8, 0, 0, 1])
			};
			let vtok = if cols[c].preimage { fixed[c][k] } else { (rng.range(1, 1 << 20) << 32) | size_classes(rng) };
			ops.push((c as u8, opc, k, if opc == 0 { vtok } else { 0 }));
		}
		Step::Commit(ops)
	};
	let mut raw: Vec<Step> = Vec::new();
	if kind == "c03" && rng.chance(1, 2) {
		// pile-up: logs recycled out of order, then more pending log files at the drop than
		// kill_logs enacts (it reads at most three files)
		for _ in 0..rng.range(1, 3) {
			raw.push(gen_commit(rng));
			raw.push(Step::Process);
			raw.push(Step::Flush);
		}
		for _ in 0..rng.range(1, 2) {
			raw.push(Step::EnactAll);
		}
		raw.push(Step::Clean);
		for _ in 0..rng.range(3, 7) {
			raw.push(gen_commit(rng));
			raw.push(Step::Process);
			if rng.chance(1, 5) {
				raw.push(gen_commit(rng));
				raw.push(Step::Process);
			}
			raw.push(Step::Flush);
			if rng.chance(1, 6) {
				raw.push(Step::EnactOne);
			}
		}
		if rng.chance(1, 2) {
			raw.push(gen_commit(rng));
		}
		raw.push(Step::Reopen);
		for _ in 0..rng.range(0, 4) {
			raw.push(gen_commit(rng));
			raw.push(Step::Process);
		}
	} else {
		for _ in 0..nsteps {
			let s = match rng.below(20) {
				0..=8 => gen_commit(rng),
				9..=12 => Step::Process,
				13..=14 => Step::Flush,
				15..=16 => Step::EnactAll,
				17 => Step::Clean,
				18 => Step::EnactOne,
				_ => Step::Reopen,
			};
			// C03: drops at more pipeline states
			let s = if kind == "c03" && rng.chance(1, 8) { Step::Reopen } else { s };
			raw.push(s);
		}
	}
	// Without background threads nobody cleans logs: enacting with more than MAX_LOG_FILES (4)
	// fully read logs waiting for cleanup blocks for ever. Simulate the log-file bookkeeping and
	// insert a clean step where the real workers would have cleaned.
	let mut steps = Vec::new();
	let (mut queued, mut app, mut readq, mut reading, mut dirty): (usize, usize, Vec<usize>, Option<usize>, usize) = (0, 0, Vec::new(), None, 0);
	let enact_one = |readq: &mut Vec<usize>, reading: &mut Option<usize>, dirty: &mut usize| -> bool {
		if reading.is_none() && !readq.is_empty() {
			*reading = Some(readq.remove(0));
		}
		match *reading {
			None => false,
			Some(0) => {
				*reading = None;
				*dirty += 1;
				false
			},
			Some(n) => {
				*reading = Some(n - 1);
				true
			},
		}
	};
	for s in raw {
		match &s {
			Step::Commit(ops) => {
				let invalid = ops.iter().any(|(c, o, _, _)| *o == 2 && !cols[*c as usize].rc);
				if !invalid {
					queued += 1;
				}
			},
			Step::Process =>
				if queued > 0 {
					queued -= 1;
					app += 1;
				},
			Step::Flush =>
				if app > 0 {
					readq.push(app);
					app = 0;
				},
			Step::EnactOne | Step::EnactAll => {
				if dirty >= 4 {
					steps.push(Step::Clean);
					dirty = 0;
				}
				if matches!(s, Step::EnactOne) {
					enact_one(&mut readq, &mut reading, &mut dirty);
				} else {
					while enact_one(&mut readq, &mut reading, &mut dirty) {}
				}
			},
			Step::Reindex => app += 1,
			Step::IterNew(_) | Step::IterSeek(_) | Step::IterLast | Step::IterNext | Step::IterPrev => (),
			Step::Clean => dirty = 0,
			Step::Reopen => {
				if dirty >= 2 {
					steps.push(Step::Clean);
				}
				queued = 0;
				app = 0;
				readq.clear();
				reading = None;
				dirty = 0;
			},
		}
		steps.push(s);
	}
	if kind == "c03" {
		steps.push(Step::Reopen);
	}
	Case { cols, keys, steps, salt_zero, class: kind.to_string() }
}

/// C09 / reindex histories: column 0 is a uniform-key hash column under the zero salt (identity
/// hash), its keys are aimed at ONE index page (same first two bytes) so that the 65th live key
/// overflows the page and starts an index growth; some keys share the whole index-visible prefix
/// (same first 8 bytes) and differ only in the tail. Reindex steps are interleaved with commits,
/// pipeline steps and restarts.
pub fn gen_case_growth(rng: &mut Rng, force_rc: Option<bool>) -> Case {
	let nkeys = rng.range(66, 90) as usize;
	let rc = force_rc.unwrap_or_else(|| rng.chance(1, 3));
	let ncols = rng.range(1, 2) as usize;
	let mut cols = vec![ColCfg { btree: false, rc, preimage: rc || rng.chance(1, 4), uniform: true, compression: 0, threshold: 4096 }];
	if ncols == 2 {
		cols.push(ColCfg { btree: rng.chance(1, 2), rc: false, preimage: false, uniform: false, compression: 0, threshold: 4096 });
	}
	// the first and the last page of the index are boundary values (reindex progress starts at page 0)
	let page = match rng.below(8) {
		0 | 1 => [0u8, 0u8],
		2 => [0xffu8, 0xffu8],
		_ => [rng.below(256) as u8, rng.below(256) as u8],
	};
	// deep mode: the keys also share bit 17, so that the 17-bit index overflows as well and a second
	// growth starts while the first one may still be queued
	let deep = rng.chance(1, 3);
	let bit17 = (rng.below(2) as u8) << 7;
	let mut keys: Vec<Vec<Vec<u8>>> = Vec::new();
	let mut k0: Vec<Vec<u8>> = Vec::new();
	while k0.len() < nkeys {
		let mut k = rng.bytes(32);
		k[0] = page[0];
		k[1] = page[1];
		if deep {
			k[2] = (k[2] & 0x7f) | bit17;
		}
		match rng.below(6) {
			// same page AND same partial key as an earlier key: only the tail differs
			0 if !k0.is_empty() => {
				let other = rng.pick(&k0).clone();
				k[..8].copy_from_slice(&other[..8]);
			},
			// separates from an earlier key only one or two generations later
			1 if !k0.is_empty() => {
				let other = rng.pick(&k0).clone();
				k[..2].copy_from_slice(&other[..2]);
				k[2] = (other[2] & 0xc0) | (k[2] & 0x3f);
				if deep {
					k[2] = (k[2] & 0x7f) | bit17;
				}
			},
			_ => (),
		}
		if !k0.contains(&k) {
			k0.push(k);
		}
	}
	k0.sort();
	keys.push(k0);
	if ncols == 2 {
		let mut k1: Vec<Vec<u8>> = Vec::new();
		while k1.len() < nkeys {
			let k = gen_key(rng, false, cols[1].btree, true);
			if !k1.contains(&k) {
				k1.push(k);
			}
		}
		k1.sort();
		keys.push(k1);
	}
	let fixed: Vec<Vec<u64>> = (0..ncols)
		.map(|c| (0..nkeys).map(|k| ((((c as u64) << 10 | k as u64) << 4 | rng.below(16)) + 16) << 32 | rng.range(8, 60)).collect())
		.collect();
	let mut steps = Vec::new();
	let nsteps = rng.range(25, 60);
	// fill phase: bring many keys of column 0 in quickly
	let mut next_new = 0usize;
	for _ in 0..nsteps {
		match rng.below(20) {
			0..=7 => {
				let n = rng.range(1, 24) as usize;
				let mut ops = Vec::new();
				for _ in 0..n {
					let c = if ncols == 2 && rng.chance(1, 5) { 1 } else { 0 };
					let k = if c == 0 && next_new < nkeys && rng.chance(3, 4) {
						next_new += 1;
						next_new - 1
					} else {
						rng.below(nkeys as u64) as usize
					};
					let opc = if cols[c].rc { *rng.pick(&[0u8, 0, 0, 1, 2]) } else { *rng.pick(&[0u8, 0, 0, 0, 1]) };
					let vtok = if cols[c].preimage { fixed[c][k] } else { (rng.range(1, 1 << 20) << 32) | rng.range(0, 80) };
					ops.push((c as u8, opc, k, if opc == 0 { vtok } else { 0 }));
				}
				steps.push(Step::Commit(ops));
			},
			8..=10 => steps.push(Step::Process),
			11 => steps.push(Step::Flush),
			12..=13 => steps.push(Step::EnactAll),
			14 => steps.push(Step::EnactOne),
			15..=17 => steps.push(Step::Reindex),
			18 => steps.push(Step::Clean),
			_ => steps.push(Step::Reopen),
		}
	}
	// overwrite wave: while the entries of most keys still live in the old index (no reindex step in
	// between), every key is overwritten with a value of another length (its value moves to another
	// address, and a new entry goes into the page of the current index - until that page is full too)
	if rng.chance(1, 3) {
		let c = 0usize;
		let mut k = 0usize;
		while k < nkeys {
			let n = std::cmp::min(rng.range(6, 20) as usize, nkeys - k);
			let ops: Vec<(u8, u8, usize, u64)> = (0..n)
				.map(|i| {
					let vtok = if cols[c].preimage { fixed[c][k + i] } else { (rng.range(1, 1 << 20) << 32) | rng.range(100, 400) };
					(c as u8, 0u8, k + i, vtok)
				})
				.collect();
			k += n;
			steps.push(Step::Commit(ops));
			steps.push(Step::Process);
			if rng.chance(1, 4) {
				steps.push(Step::Flush);
				steps.push(Step::EnactAll);
			}
		}
	}
	// queue wave: several commits that write the same few keys wait in the queue together and are then
	// moved on one at a time (every read is checked after every step)
	if rng.chance(1, 2) {
		let c = 0usize;
		let few: Vec<usize> = (0..rng.range(1, 3)).map(|_| rng.below(nkeys as u64) as usize).collect();
		let depth = rng.range(2, 6);
		for _ in 0..depth {
			let mut ops: Vec<(u8, u8, usize, u64)> = Vec::new();
			for k in &few {
				if !rng.chance(3, 4) {
					continue
				}
				let opc = if cols[c].rc { *rng.pick(&[0u8, 0, 1, 2]) } else { *rng.pick(&[0u8, 0, 0, 1]) };
				let vtok = if cols[c].preimage { fixed[c][*k] } else { (rng.range(1, 1 << 20) << 32) | rng.range(0, 80) };
				ops.push((c as u8, opc, *k, if opc == 0 { vtok } else { 0 }));
			}
			steps.push(Step::Commit(ops));
		}
		for _ in 0..depth {
			steps.push(Step::Process);
			if rng.chance(1, 3) {
				steps.push(Step::Reindex);
			}
		}
	}
	// drain, so that a growth that was started is also finished and its old index dropped
	for _ in 0..3 {
		steps.extend([Step::Process, Step::Process, Step::Flush, Step::EnactAll, Step::Reindex, Step::Flush, Step::EnactAll, Step::Clean]);
	}
	steps.push(Step::Reopen);
	Case { cols, keys, steps, salt_zero: true, class: if force_rc.is_some() { "c09rc".to_string() } else { "c09".to_string() } }
}

/// C04: a btree column (optionally a second column), 5-14 keys incl. the empty key, keys around the
/// 254/255/256-byte length-encoding boundary and keys that are prefixes of each other; commits and
/// pipeline steps interleaved with iterator calls (seek, seek_to_first, seek_to_last, next, prev with
/// direction changes) on an iterator that stays open across commits.
/// A btree column grown by ascending (or shuffled) insertions to 40-130 keys, so that inner nodes reach
/// their maximum fan-out (ORDER = 8 separators), scanned completely forwards and backwards at several
/// sizes, both with the pipeline drained and with commits still in the overlays.
pub fn gen_case_btree_large(rng: &mut Rng) -> Case {
	let nkeys = rng.range(40, 130) as usize;
	let cols = vec![ColCfg { btree: true, rc: false, preimage: false, uniform: false, compression: 0, threshold: 4096 }];
	let mut ks: Vec<Vec<u8>> = Vec::new();
	while ks.len() < nkeys {
		let len = rng.range(1, 6) as usize;
		let k: Vec<u8> = (0..len).map(|_| *rng.pick(&[0u8, 1, 2, 0x7f, 0x80, 0xff])).collect();
		if !ks.contains(&k) {
			ks.push(k);
		}
	}
	ks.sort();
	let mut order: Vec<usize> = (0..nkeys).collect();
	match rng.below(4) {
		0 => order.reverse(),
		1 => rng.shuffle(&mut order),
		_ => (),
	}
	let mut steps = vec![Step::IterNew(0)];
	let mut pos = 0usize;
	let mut inserted = 0usize;
	let scan = |steps: &mut Vec<Step>, n: usize, rng: &mut Rng| {
		if rng.chance(2, 3) {
			steps.push(Step::IterSeek(0));
			if ks[0].is_empty() {
				// (keys here are never empty; kept for symmetry with the small generator)
			}
			for _ in 0..n + 2 {
				steps.push(Step::IterNext);
			}
		}
		if rng.chance(1, 3) {
			steps.push(Step::IterLast);
			for _ in 0..n + 2 {
				steps.push(Step::IterPrev);
			}
		}
	};
	while pos < nkeys {
		let n = std::cmp::min(rng.range(1, 12) as usize, nkeys - pos);
		let ops: Vec<(u8, u8, usize, u64)> = (0..n).map(|i| (0u8, 0u8, order[pos + i], (rng.range(1, 1 << 20) << 32) | rng.range(0, 20))).collect();
		pos += n;
		inserted += n;
		steps.push(Step::Commit(ops));
		let drained = rng.chance(3, 4);
		if drained {
			steps.push(Step::Process);
			steps.push(Step::Flush);
			steps.push(Step::EnactAll);
			if rng.chance(1, 3) {
				steps.push(Step::Clean);
			}
		} else if rng.chance(1, 2) {
			steps.push(Step::Process);
		}
		if inserted >= 40 && rng.chance(1, 2) {
			scan(&mut steps, inserted, rng);
		}
	}
	// drain, scan, then thin the tree out and scan again
	for _ in 0..12 {
		steps.push(Step::Process);
	}
	steps.push(Step::Flush);
	steps.push(Step::EnactAll);
	scan(&mut steps, nkeys, rng);
	for _ in 0..rng.range(1, 6) {
		let n = rng.range(1, 20) as usize;
		let ops: Vec<(u8, u8, usize, u64)> = (0..n).map(|_| (0u8, 1u8, rng.below(nkeys as u64) as usize, 0u64)).collect();
		steps.push(Step::Commit(ops));
		if rng.chance(2, 3) {
			steps.push(Step::Process);
			steps.push(Step::Flush);
			steps.push(Step::EnactAll);
		}
	}
	scan(&mut steps, nkeys, rng);
	if rng.chance(1, 2) {
		steps.push(Step::Reopen);
		steps.push(Step::IterNew(0));
		scan(&mut steps, nkeys, rng);
	}
	Case { cols, keys: vec![ks], steps, salt_zero: false, class: "c04".to_string() }
}

pub fn gen_case_btree(rng: &mut Rng) -> Case {
	if rng.chance(1, 16) {
		return gen_case_btree_large(rng)
	}
	let nkeys = rng.range(5, 14) as usize;
	let ncols = rng.range(1, 2) as usize;
	let mut cols = vec![ColCfg { btree: true, rc: false, preimage: false, uniform: false, compression: *rng.pick(&[0u8, 0, 1, 2]), threshold: *rng.pick(&[0u32, 4096]) }];
	if ncols == 2 {
		cols.push(ColCfg { btree: rng.chance(1, 2), rc: false, preimage: false, uniform: false, compression: 0, threshold: 4096 });
	}
	let mut keys = Vec::new();
	for c in &cols {
		let mut ks: Vec<Vec<u8>> = Vec::new();
		while ks.len() < nkeys {
			let mut k = gen_key(rng, false, c.btree, false);
			if c.btree && !ks.is_empty() && rng.chance(1, 4) {
				// a key that extends another key (prefix relation)
				k = rng.pick(&ks).clone();
				k.push(*rng.pick(&[0u8, 1, 0xff]));
			}
			if !ks.contains(&k) {
				ks.push(k);
			}
		}
		ks.sort();
		keys.push(ks);
	}
	let first_tok = |ks: &Vec<Vec<u8>>| -> u64 { if ks[0].is_empty() { 1 } else { 0 } };
	let mut steps = vec![Step::IterNew(0)];
	let mut have_iter = true;
	let nsteps = rng.range(15, 60);
	for _ in 0..nsteps {
		match rng.below(24) {
			0..=6 => {
				let n = rng.range(1, 6) as usize;
				let mut ops = Vec::new();
				for _ in 0..n {
					let c = rng.below(ncols as u64) as usize;
					let k = rng.below(nkeys as u64) as usize;
					let opc = *rng.pick(&[0u8, 0, 0, 1]);
					let vtok = (rng.range(1, 1 << 20) << 32) | size_classes(rng);
					ops.push((c as u8, opc, k, if opc == 0 { vtok } else { 0 }));
				}
				steps.push(Step::Commit(ops));
			},
			7..=8 => steps.push(Step::Process),
			9 => steps.push(Step::Flush),
			10 => steps.push(Step::EnactAll),
			11 => steps.push(Step::Clean),
			12 =>
				if rng.chance(1, 3) {
					steps.push(Step::Reopen);
					steps.push(Step::IterNew(0));
					have_iter = true;
				},
			13..=14 => steps.push(Step::IterSeek(if rng.chance(1, 6) { first_tok(&keys[0]) } else { rng.range(1, nkeys as u64) })),
			15 => steps.push(Step::IterLast),
			16..=19 => steps.push(Step::IterNext),
			_ => steps.push(Step::IterPrev),
		}
	}
	let _ = have_iter;
	Case { cols, keys, steps, salt_zero: false, class: "c04".to_string() }
}

pub fn case_tokens(case: &Case) -> Vec<u64> {
	let mut t = vec![1u64, case.cols.len() as u64];
	for c in &case.cols {
		t.push((c.btree as u64) | ((c.rc as u64) << 1) | ((c.preimage as u64) << 2));
	}
	t.push(case.keys[0].len() as u64);
	t.push(case.steps.len() as u64);
	for s in &case.steps {
		match s {
			Step::Commit(ops) => {
				t.push(1);
				t.push(ops.len() as u64);
				for (c, o, k, v) in ops {
					t.extend_from_slice(&[*c as u64, *o as u64, *k as u64, *v]);
				}
			},
			Step::Process => t.push(2),
			Step::Flush => t.push(3),
			Step::EnactAll => t.push(4),
			Step::Clean => t.push(5),
			Step::Reopen => t.push(6),
			Step::EnactOne => t.push(7),
			Step::Reindex => t.push(8),
			Step::IterNew(c) => t.extend_from_slice(&[11, *c as u64]),
			Step::IterSeek(k) => t.extend_from_slice(&[12, *k]),
			Step::IterLast => t.push(13),
			Step::IterNext => t.push(14),
			Step::IterPrev => t.push(15),
		}
	}
	t
}

pub fn options_for(case: &Case, path: &std::path::Path) -> Options {
	let mut o = Options::with_columns(path, case.cols.len() as u8);
	o.stats = false;
	o.with_background_thread = false;
	o.always_flush = true;
	o.sync_wal = true;
	o.sync_data = true;
	if case.salt_zero {
		o.salt = Some([0u8; 32]);
	}
	for (i, c) in case.cols.iter().enumerate() {
		o.columns[i] = ColumnOptions {
			preimage: c.preimage,
			uniform: c.uniform,
			ref_counted: c.rc,
			compression: match c.compression {
				1 => CompressionType::Lz4,
				2 => CompressionType::Snappy,
				_ => CompressionType::NoCompression,
			},
			btree_index: c.btree,
			multitree: false,
			append_only: false,
			allow_direct_node_access: false,
		};
		o.compression_threshold.insert(i as u8, c.threshold);
	}
	o
}

pub fn err_class(e: &parity_db::Error) -> u64 {
	match e {
		parity_db::Error::InvalidInput(_) => 1,
		parity_db::Error::InvalidConfiguration(_) => 2,
		parity_db::Error::Background(_) => 3,
		parity_db::Error::Io(_) => 4,
		parity_db::Error::Corruption(_) => 5,
		_ => 9,
	}
}

/// decode the value bytes read from the db back into the token of the value that was written
pub struct ValueBook {
	known: std::collections::HashMap<Vec<u8>, u64>,
}
impl ValueBook {
	pub fn new() -> Self {
		ValueBook { known: Default::default() }
	}
	pub fn note(&mut self, vtok: u64) -> Vec<u8> {
		let b = value_bytes(vtok);
		// distinct tokens may produce equal bytes (e.g. two empty values): keep the first token
		// as the canonical one and report through `canon`
		self.known.entry(b.clone()).or_insert(vtok);
		b
	}
	pub fn canon(&self, vtok: u64) -> u64 {
		*self.known.get(&value_bytes(vtok)).unwrap_or(&vtok)
	}
	pub fn token_of(&self, bytes: &[u8]) -> u64 {
		match self.known.get(bytes) {
			Some(t) => *t + 1,
			// unknown bytes: a value nobody wrote. Encode so that it can never equal a model token.
			None => 0xdead_0000_0000_0000 | (bytes.len() as u64),
		}
	}
}

pub struct Run {
	pub obs: Vec<u64>,
	pub per_step: Vec<Vec<u64>>,
	/// per step, per column: value iteration result (value token+1 -> count) for hash counted columns
	pub iters: Vec<Vec<Option<Vec<(u64, u64)>>>>,
	pub panicked: Option<String>,
	/// largest index size of column 0 seen on disk, and whether two index generations coexisted
	pub max_bits: u32,
	pub coexisted: bool,
	pub reindex_between_commits: bool,
}

pub fn run_impl(case: &Case, dir: &std::path::Path) -> Run {
	let _ = std::fs::remove_dir_all(dir);
	let opts = options_for(case, dir);
	let mut book = ValueBook::new();
	// canonicalise tokens first: the model must see the same canonical tokens
	let mut per_step = Vec::new();
	let mut obs = Vec::new();
	let mut iters = Vec::new();
	let (mut max_bits, mut coexisted) = (0u32, false);
	let res = std::panic::catch_unwind(std::panic::AssertUnwindSafe(|| {
		let mut db = Some(Db::open_or_create(&opts).expect("open_or_create"));
		// the iterator borrows the Db; it is always dropped before the Db is
		let mut iter: Option<(u8, parity_db::BTreeIterator<'static>)> = None;
		let trace = std::env::var("VERIF_TRACE").is_ok();
		for s in &case.steps {
			if trace {
				eprintln!("step {:?} dirty={}", s, db.as_ref().unwrap().verif_num_dirty_logs());
			}
			let mut line: Vec<u64> = Vec::new();
			let d = db.as_ref().unwrap();
			let mut iter_out: Option<(u64, u64)> = None;
			let status = match s {
				Step::Commit(ops) => {
					let tx: Vec<(u8, Operation<Vec<u8>, Vec<u8>>)> = ops
						.iter()
						.map(|(c, o, k, v)| {
							let key = case.keys[*c as usize][*k].clone();
							(
								*c,
								match o {
									0 => Operation::Set(key, book.note(*v)),
									1 => Operation::Dereference(key),
									_ => Operation::Reference(key),
								},
							)
						})
						.collect();
					match d.commit_changes(tx) {
						Ok(()) => 0,
						Err(e) => err_class(&e),
					}
				},
				Step::Process => d.process_commits().map(|_| 0).unwrap_or_else(|e| 100 + err_class(&e)),
				Step::Flush => d.flush_logs().map(|_| 0).unwrap_or_else(|e| 100 + err_class(&e)),
				Step::EnactAll => {
					guard_dirty(d);
					d.enact_logs().map(|_| 0).unwrap_or_else(|e| 100 + err_class(&e))
				},
				Step::EnactOne => {
					guard_dirty(d);
					enact_one(d)
				},
				Step::Reindex => d.process_reindex().map(|_| 0).unwrap_or_else(|e| 100 + err_class(&e)),
				Step::IterNew(c) => {
					iter = None;
					let it = d.iter(*c).expect("iter");
					iter = Some((*c, unsafe { std::mem::transmute::<parity_db::BTreeIterator<'_>, parity_db::BTreeIterator<'static>>(it) }));
					iter_out = Some((0, 0));
					0
				},
				Step::IterSeek(k) => {
					if let Some((c, it)) = iter.as_mut() {
						if *k == 0 {
							it.seek_to_first().expect("seek_to_first");
						} else {
							it.seek(&case.keys[*c as usize][(*k - 1) as usize]).expect("seek");
						}
					}
					iter_out = Some((0, 0));
					0
				},
				Step::IterLast => {
					if let Some((_, it)) = iter.as_mut() {
						it.seek_to_last().expect("seek_to_last");
					}
					iter_out = Some((0, 0));
					0
				},
				Step::IterNext | Step::IterPrev => {
					let mut res = (0u64, 0u64);
					if let Some((c, it)) = iter.as_mut() {
						let r = if matches!(s, Step::IterNext) { it.next() } else { it.prev() }.expect("iter step");
						if let Some((k, v)) = r {
							let kid = case.keys[*c as usize].iter().position(|x| *x == k).map(|i| i as u64 + 1).unwrap_or(0xbadbad);
							res = (kid, book.token_of(&v));
						}
					}
					iter_out = Some(res);
					0
				},
				Step::Clean => d.clean_logs().map(|_| 0).unwrap_or_else(|e| 100 + err_class(&e)),
				Step::Reopen => {
					iter = None;
					drop(db.take());
					db = Some(Db::open(&opts).expect("reopen"));
					0
				},
			};
			line.push(status);
			if let Some((a, b)) = iter_out {
				line.push(a);
				line.push(b);
			}
			let d = db.as_ref().unwrap();
			for (c, ks) in case.keys.iter().enumerate() {
				for k in ks {
					match d.get(c as u8, k) {
						Ok(Some(v)) => line.push(book.token_of(&v)),
						Ok(None) => line.push(0),
						Err(e) => line.push(0xeeee_0000 + err_class(&e)),
					}
					match d.get_size(c as u8, k) {
						Ok(Some(n)) => line.push(n as u64 + 1),
						Ok(None) => line.push(0),
						Err(e) => line.push(0xeeee_0000 + err_class(&e)),
					}
				}
			}
			// value iteration on hash counted columns; after a reopen it is part of the compared observation
			let mut its = Vec::new();
			for (c, cc) in case.cols.iter().enumerate() {
				if cc.rc && !cc.btree {
					let mut found: Vec<(u64, u64)> = Vec::new();
					let r = d.iter_column_while(c as u8, |st| {
						found.push((book.token_of(&st.value), st.rc as u64));
						true
					});
					if r.is_err() {
						found.push((0xeeee, 0));
					}
					found.sort();
					if matches!(s, Step::Reopen) {
						for k in &case.keys[c] {
							let _ = k;
						}
					}
					its.push(Some(found));
				} else {
					its.push(None);
				}
			}
			if matches!(s, Step::Reopen) {
				// compared with the model: stored count of every key of every hash counted column
				for (c, it) in its.iter().enumerate() {
					if let Some(found) = it {
						for k in 0..case.keys[c].len() {
							let tok = fixed_token(case, c, k);
							let rc: u64 = found.iter().filter(|(t, _)| tok.map_or(false, |x| *t == x + 1)).map(|(_, r)| *r).sum();
							line.push(rc);
						}
						// anything iteration reports that is not a known key's value
						let stray = found.iter().filter(|(t, _)| !(0..case.keys[c].len()).any(|k| fixed_token(case, c, k).map_or(false, |x| *t == x + 1))).count();
						line.push(stray as u64);
					}
				}
			}
			if case.class.starts_with("c09") {
				let mut gens = 0;
				if let Ok(rd) = std::fs::read_dir(dir) {
					for e in rd.flatten() {
						let n = e.file_name().to_string_lossy().to_string();
						if let Some(b) = n.strip_prefix("index_00_") {
							if let Ok(b) = b.parse::<u32>() {
								gens += 1;
								max_bits = max_bits.max(b);
							}
						}
					}
				}
				if gens > 1 {
					coexisted = true;
				}
			}
			iters.push(its);
			obs.extend_from_slice(&line);
			per_step.push(line);
		}
		drop(iter);
		drop(db);
	}));
	let panicked = res.err().map(|e| {
		if let Some(s) = e.downcast_ref::<String>() {
			s.clone()
		} else if let Some(s) = e.downcast_ref::<&str>() {
			s.to_string()
		} else {
			"panic".to_string()
		}
	});
	let _ = std::fs::remove_dir_all(dir);
	Run { obs, per_step, iters, panicked, max_bits, coexisted, reindex_between_commits: false }
}

/// On preimage columns every Set of (col, key) carries the same token: find it in the history.
pub fn fixed_token(case: &Case, c: usize, k: usize) -> Option<u64> {
	for s in &case.steps {
		if let Step::Commit(ops) = s {
			for (cc, o, kk, v) in ops {
				if *cc as usize == c && *kk == k && *o == 0 {
					return Some(*v)
				}
			}
		}
	}
	None
}

/// Without background threads nobody cleans logs and the enact step would wait for ever once more
/// than four fully read logs are dirty. Cleaning is not observable (the model's clean step only
/// resets a counter), so do what the cleanup worker would have done.
fn guard_dirty(d: &Db) {
	if d.verif_num_dirty_logs() >= 4 {
		let _ = d.clean_logs();
	}
}

#[cfg(parity_db_verif)]
fn enact_one(d: &Db) -> u64 {
	d.verif_enact_one().map(|_| 0).unwrap_or_else(|e| 100 + err_class(&e))
}

/// Canonicalise value tokens (two tokens with equal bytes become one) so that model and impl
/// talk about the same values.
pub fn canonicalise(case: &mut Case) {
	let mut book = ValueBook::new();
	for s in case.steps.iter_mut() {
		if let Step::Commit(ops) = s {
			for (_, o, _, v) in ops.iter_mut() {
				if *o == 0 {
					book.note(*v);
					*v = book.canon(*v);
				}
			}
		}
	}
}

// ------------------------------------------------------------------ property oracles
// Independent renderings of the property texts, applied to the implementation's observations.

/// C01/C03: on columns without reference counting every read equals the last accepted write.
/// C07: on counted columns a key with positive count is readable; when nothing is queued
/// (every accepted commit processed) readable iff count positive.
pub fn oracle(case: &Case, run: &Run) -> Result<(), String> {
	let check_iter = case.class == "c07" || case.class == "replay" || case.class == "c09rc";
	if let Some(p) = &run.panicked {
		return Err(format!("panic the implementation panicked: {}", p.chars().take(200).collect::<String>()))
	}
	let nk = case.keys[0].len();
	let nc = case.cols.len();
	let mut last: Vec<Vec<Option<u64>>> = vec![vec![None; nk]; nc]; // non-rc: last write (Some tok / None)
	let mut cnt: Vec<Vec<u64>> = vec![vec![0; nk]; nc];
	let mut val: Vec<Vec<u64>> = vec![vec![0; nk]; nc];
	let mut queued = 0usize; // accepted commits not yet processed
	// iterator position as the property defines it: 0 start, 1 end, 2 at(k), 3 seeked(k)
	let mut ipos: (u8, u64) = (0, 0);
	let mut icol: Option<usize> = None;
	for (si, s) in case.steps.iter().enumerate() {
		let line = &run.per_step[si];
		let status = line[0];
		let is_iter = matches!(s, Step::IterNew(_) | Step::IterSeek(_) | Step::IterLast | Step::IterNext | Step::IterPrev);
		match s {
			Step::Commit(ops) => {
				let invalid = ops.iter().any(|(c, o, _, _)| *o == 2 && !case.cols[*c as usize].rc);
				if invalid {
					if status == 0 {
						return Err(format!("accepted-invalid step {si}: a transaction with a reference on an uncounted column was accepted"))
					}
				} else {
					if status != 0 {
						return Err(format!("rejected-valid step {si}: valid transaction rejected with class {status}"))
					}
					queued += 1;
					for (c, o, k, v) in ops {
						let (c, k) = (*c as usize, *k);
						if case.cols[c].rc {
							match o {
								0 => {
									if cnt[c][k] == 0 {
										val[c][k] = *v;
									}
									cnt[c][k] += 1;
								},
								1 =>
									if cnt[c][k] > 0 {
										cnt[c][k] -= 1
									},
								_ =>
									if cnt[c][k] > 0 {
										cnt[c][k] += 1
									},
							}
						} else {
							match o {
								0 => {
									// preimage columns: value is a function of the key by contract
									last[c][k] = Some(*v);
								},
								1 => last[c][k] = None,
								_ => (),
							}
						}
					}
				}
			},
			Step::Process => queued = queued.saturating_sub(1),
			Step::Reopen => {
				queued = 0;
				icol = None;
			},
			Step::IterNew(c) => {
				icol = Some(*c as usize);
				ipos = (0, 0);
			},
			Step::IterSeek(k) => ipos = (3, *k),
			Step::IterLast => ipos = (1, 0),
			Step::IterNext | Step::IterPrev =>
				if let Some(c) = icol {
					if !case.cols[c].rc {
						// the ordered map as of now: every accepted write, in commit order
						let live: Vec<(u64, u64)> = (0..nk).filter_map(|k| last[c][k].map(|v| (k as u64 + 1, v + 1))).collect();
						let fwd = matches!(s, Step::IterNext);
						let want = match (fwd, ipos) {
							(true, (0, _)) => live.first().cloned(),
							(true, (1, _)) => None,
							(true, (2, k)) => live.iter().find(|e| e.0 > k).cloned(),
							(true, (_, k)) => live.iter().find(|e| e.0 >= k).cloned(),
							(false, (1, _)) => live.last().cloned(),
							(false, (0, _)) => None,
							(false, (2, k)) => live.iter().rev().find(|e| e.0 < k).cloned(),
							(false, (_, k)) => live.iter().rev().find(|e| e.0 <= k).cloned(),
						};
						let got = if line[1] == 0 { None } else { Some((line[1], line[2])) };
						if got != want {
							return Err(format!("iter-wrong step {si}: {} from position {:?} returned {:x?}, the ordered map gives {:x?}", if fwd { "next" } else { "prev" }, ipos, got, want))
						}
						ipos = match want {
							Some((k, _)) => (2, k),
							None => if fwd { (1, 0) } else { (0, 0) },
						};
					}
				},
			_ =>
				if status != 0 {
					return Err(format!("step-error step {si}: pipeline step failed with code {status}"))
				},
		}
		// value iteration of hash counted columns: exactly the live values with their counts
		// once every accepted commit has been logged
		if queued == 0 && check_iter {
			for c in 0..nc {
				if let Some(found) = &run.iters[si][c] {
					let mut want: Vec<(u64, u64)> = (0..nk).filter(|k| cnt[c][*k] > 0).map(|k| (val[c][k] + 1, cnt[c][k])).collect();
					want.sort();
					if &want != found {
						let cls = if matches!(s, Step::Reopen | Step::EnactAll) { "iter-mismatch" } else { "iter-misses-unenacted" };
						return Err(format!("{cls} step {si} col {c}: value iteration gives {:x?}, live values are {:x?}", found, want))
					}
				}
			}
		}
		// reads
		let mut i = if is_iter { 3 } else { 1 };
		for c in 0..nc {
			for k in 0..nk {
				let (g, sz) = (line[i], line[i + 1]);
				i += 2;
				if case.cols[c].rc {
					if cnt[c][k] > 0 {
						if g != val[c][k] + 1 {
							return Err(format!("rc-positive-unreadable step {si} col {c} key {k}: count {} but get = {:#x}", cnt[c][k], g))
						}
					} else if queued == 0 && g != 0 {
						return Err(format!("rc-zero-readable step {si} col {c} key {k}: count 0, nothing queued, get = {:#x}", g))
					}
					if g != 0 && sz != (g - 1 & 0xffff_ffff) + 1 {
						return Err(format!("size step {si} col {c} key {k}: get {:#x} size {:#x}", g, sz))
					}
				} else {
					let want = last[c][k].map(|v| v + 1).unwrap_or(0);
					if g != want {
						let cls = if matches!(s, Step::Commit(_)) && status != 0 { "rejected-visible" } else { "stale-or-lost" };
						return Err(format!("{cls} step {si} col {c} key {k}: expected {:#x} got {:#x}", want, g))
					}
					let wsz = last[c][k].map(|v| (v & 0xffff_ffff) + 1).unwrap_or(0);
					if sz != wsz {
						return Err(format!("size step {si} col {c} key {k}: expected {:#x} got {:#x}", wsz, sz))
					}
				}
			}
		}
	}
	Ok(())
}

pub fn nontrivial(case: &Case) -> bool {
	// at least two commits simultaneously queued/logged-but-not-enacted touching a common (col, key)
	let mut pending: Vec<Vec<(u8, usize)>> = Vec::new(); // commits not yet enacted
	for s in &case.steps {
		match s {
			Step::Commit(ops) => {
				let ks: Vec<(u8, usize)> = ops.iter().map(|(c, _, k, _)| (*c, *k)).collect();
				if pending.iter().any(|p| p.iter().any(|x| ks.contains(x))) {
					return true
				}
				pending.push(ks);
			},
			Step::EnactAll | Step::Reopen => pending.clear(),
			_ => (),
		}
	}
	false
}

pub fn main(args: &[String], kind: &str) -> i32 {
	let seed: u64 = args[0].parse().unwrap();
	let count: u64 = args[1].parse().unwrap();
	let mut out = Out::new(&args[2]);
	let mut rng = Rng::new(seed ^ 0x4157);
	let mut oracle_lines = String::new();
	let mut dist: BTreeMap<String, u64> = BTreeMap::new();
	let mut nontriv = std::collections::HashSet::new();
	let scratch = std::path::PathBuf::from(&args[2]).join("db");
	let mut cases: Vec<Case> = Vec::new();
	for f in &args[3..] {
		if let Ok(text) = std::fs::read_to_string(f) {
			for line in text.lines() {
				if let Some(c) = parse_case(line) {
					cases.push(c);
				}
			}
		}
	}
	for _ in 0..count {
		let mut c = gen_case(&mut rng, kind);
		canonicalise(&mut c);
		cases.push(c);
	}
	let mut n = 0u64;
	for case in cases {
		let toks = case_tokens(&case);
		out.case(&toks);
		crate::util::watch_begin(&out, &toks);
		let run = run_impl(&case, &scratch);
		crate::util::watch_end();
		out.obs(&run.obs);
		match oracle(&case, &run) {
			Ok(()) => oracle_lines.push_str("ok\n"),
			Err(e) => oracle_lines.push_str(&format!("FAIL {e}\n")),
		}
		n += 1;
		*dist.entry(format!("cols{}", case.cols.len())).or_insert(0) += 1;
		for c in &case.cols {
			*dist.entry(format!("col-{}{}{}", if c.btree { "btree" } else { "hash" }, if c.rc { "-rc" } else { "" }, if c.preimage && !c.rc { "-preimage" } else { "" })).or_insert(0) += 1;
			*dist.entry(format!("compression{}", c.compression)).or_insert(0) += 1;
		}
		for s in &case.steps {
			let name = match s {
				Step::Commit(ops) => {
					for (_, o, _, v) in ops {
						*dist.entry(format!("op{}", o)).or_insert(0) += 1;
						if *o == 0 {
							let l = v & 0xffff_ffff;
							let cls = if l == 0 { "len0" } else if l < 64 { "len<64" } else if l < 4096 { "len<4096" } else if l < 32760 { "len<32760" } else { "len-multipart" };
							*dist.entry(cls.to_string()).or_insert(0) += 1;
						}
					}
					"commit"
				},
				Step::Process => "process",
				Step::Flush => "flush",
				Step::EnactAll => "enact-all",
				Step::Clean => "clean",
				Step::Reopen => "reopen",
				Step::EnactOne => "enact-one",
				Step::Reindex => "reindex",
				Step::IterNew(_) => "iter-new",
				Step::IterSeek(_) => "iter-seek",
				Step::IterLast => "iter-seek-last",
				Step::IterNext => "iter-next",
				Step::IterPrev => "iter-prev",
			};
			*dist.entry(format!("step-{name}")).or_insert(0) += 1;
		}
		if case.class.starts_with("c09") {
			*dist.entry(format!("max-index-bits-{}", run.max_bits)).or_insert(0) += 1;
			if run.coexisted {
				*dist.entry("two-index-generations-coexisted".into()).or_insert(0) += 1;
			}
		}
		let nt = if case.class.starts_with("c09") { run.max_bits > 16 } else { nontrivial(&case) };
		if nt {
			use std::hash::{Hash, Hasher};
			let mut h = std::collections::hash_map::DefaultHasher::new();
			toks.hash(&mut h);
			nontriv.insert(h.finish());
		}
	}
	out.write_file("oracle.txt", &oracle_lines);
	let d: Vec<String> = dist.iter().map(|(k, v)| format!("{}: {}", crate::util::jstr(k), v)).collect();
	out.write_file(
		"stats.json",
		&format!("{{\"evaluations\": {}, \"distinct_nontrivial\": {}, \"distribution\": {{{}}}}}", n, nontriv.len(), d.join(", ")),
	);
	out.finish();
	0
}

/// Parse a case line back (replay / corpus). Keys are regenerated deterministically from the
/// column flags: replayed cases use synthetic keys (the model does not depend on key bytes).
pub fn parse_case(line: &str) -> Option<Case> {
	let t: Vec<u64> = line.split_whitespace().filter_map(|x| u64::from_str_radix(x, 16).ok()).collect();
	if t.len() < 4 || t[0] != 1 {
		return None
	}
	let ncols = t[1] as usize;
	let mut i = 2;
	let mut cols = Vec::new();
	for _ in 0..ncols {
		let f = *t.get(i)?;
		i += 1;
		cols.push(ColCfg { btree: f & 1 != 0, rc: f & 2 != 0, preimage: f & 4 != 0, uniform: false, compression: 0, threshold: 4096 });
	}
	let nkeys = *t.get(i)? as usize;
	let nsteps = *t.get(i + 1)? as usize;
	i += 2;
	let mut steps = Vec::new();
	for _ in 0..nsteps {
		let code = *t.get(i)?;
		i += 1;
		steps.push(match code {
			1 => {
				let n = *t.get(i)? as usize;
				i += 1;
				let mut ops = Vec::new();
				for _ in 0..n {
					ops.push((*t.get(i)? as u8, *t.get(i + 1)? as u8, *t.get(i + 2)? as usize, *t.get(i + 3)?));
					i += 4;
				}
				Step::Commit(ops)
			},
			2 => Step::Process,
			3 => Step::Flush,
			4 => Step::EnactAll,
			5 => Step::Clean,
			6 => Step::Reopen,
			7 => Step::EnactOne,
			8 => Step::Reindex,
			11 => {
				i += 1;
				Step::IterNew(*t.get(i - 1)? as u8)
			},
			12 => {
				i += 1;
				Step::IterSeek(*t.get(i - 1)?)
			},
			13 => Step::IterLast,
			14 => Step::IterNext,
			15 => Step::IterPrev,
			_ => return None,
		});
	}
	let keys = (0..ncols)
		.map(|c| (0..nkeys).map(|k| format!("key-{c}-{k:04}-padding-to-thirty-two-bytes!").into_bytes()).collect())
		.collect();
	Some(Case { cols, keys, steps, salt_zero: false, class: "replay".into() })
}
