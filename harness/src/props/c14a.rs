//! C14 (allocator): the slot allocator of one value table against the model of coq/Model/TableAlloc.v.
//! One operation per transaction, drained; after every operation the raw table file is classified slot by slot
//! (the same reader as the C14 dumps) and compared with the table the model predicts: which slot an allocation
//! takes (free list first, LIFO; the fill mark only when the list is empty), how a chain is linked, in which
//! order the slots of a removed chain enter the free list.
//! Case line: 114 nops (1 k | 2 j | 3 j k)*   1 k: a value that needs k slots is stored; 2 j: the j-th live value (oldest first) is
//! removed; 3 j k: the j-th live value is replaced by one that needs k slots
//! Observation: after every operation: filled, free head, number of slots, (class, next)*
use crate::{props::c14::{dump_table, Slot}, rawdump::Raw, util::Out};
use parity_db::{ColumnOptions, Db, Operation, Options};
use std::collections::BTreeMap;

pub fn main(args: &[String]) -> i32 {
	let seed: u64 = args[0].parse().unwrap();
	let count: u64 = args[1].parse().unwrap();
	let mut out = Out::new(&args[2]);
	let dir = std::path::PathBuf::from(&args[2]).join("db");
	let sizes = crate::rawdump::load_sizes();
	let mut oracle = String::new();
	let mut dist: BTreeMap<String, u64> = BTreeMap::new();
	let mut distinct = std::collections::HashSet::new();
	for case_no in 0..count {
		let mut rng = crate::util::case_rng(seed ^ 0xC14A, case_no);
		if crate::util::skip_case(case_no) {
			continue
		}
		crate::util::watch_begin(&out, &[114, case_no]);
		let _ = std::fs::remove_dir_all(&dir);
		let multipart = rng.chance(1, 2);
		// a fixed tier: values of exactly the tier's capacity (so that they land in it); the multi-part table: chains of 9-14 slots
		let tier: usize = if multipart { 255 } else { rng.below(12) as usize };
		let mut o = Options::with_columns(&dir, 1);
		o.stats = false;
		o.with_background_thread = false;
		o.columns[0] = ColumnOptions { uniform: true, ..Default::default() };
		let nops = rng.range(6, 30) as usize;
		let mut case = vec![114u64, nops as u64];
		let mut obs: Vec<u64> = Vec::new();
		let mut live: Vec<Vec<u8>> = Vec::new();
		let mut verdict: Result<(), String> = Ok(());
		let res = std::panic::catch_unwind(std::panic::AssertUnwindSafe(|| {
			let db = Db::open_or_create(&o).unwrap();
			for _ in 0..nops {
				if multipart && !live.is_empty() && rng.chance(1, 4) {
					// a value is replaced by one of another (or the same) number of slots: the chain is reused, grows or shrinks
					let j = rng.below(live.len() as u64) as usize;
					let k = rng.range(9, 14);
					let len = (k * 4086 - 26 - 2000) as usize;
					let val = rng.bytes(len);
					db.commit_changes(vec![(0u8, Operation::Set(live[j].clone(), val))]).unwrap();
					case.extend_from_slice(&[3, j as u64, k]);
				} else if live.is_empty() || rng.chance(3, 5) {
					let k = if multipart { rng.range(9, 14) } else { 1 };
					let len = if multipart { (k * 4086 - 26 - 2000) as usize } else { (sizes[tier] - 2 - 26) as usize };
					let key = rng.bytes(32);
					let val = rng.bytes(len);
					db.commit_changes(vec![(0u8, Operation::Set(key.clone(), val))]).unwrap();
					live.push(key);
					case.extend_from_slice(&[1, k]);
				} else {
					let j = rng.below(live.len() as u64) as usize;
					let key = live.remove(j);
					db.commit_changes(vec![(0u8, Operation::Dereference(key))]).unwrap();
					case.extend_from_slice(&[2, j as u64]);
				}
				for _ in 0..3 {
					db.process_commits().unwrap();
				}
				db.flush_logs().unwrap();
				for _ in 0..3 {
					db.enact_logs().unwrap();
				}
				db.clean_logs().unwrap();
				let mut raw = Raw::new(&dir);
				match dump_table(&mut raw, 0, tier as u8) {
					Some(d) => {
						obs.extend_from_slice(&[d.filled, d.free_head, d.slots.len() as u64]);
						for s in &d.slots {
							let (cl, nx) = match s {
								Slot::Free(n) => (0, *n),
								Slot::Head(n) => (1, *n),
								Slot::Part(n) => (2, *n),
								Slot::Size => (3, 0),
								Slot::Bad => (4, 0),
							};
							obs.push(cl);
							obs.push(nx);
						}
					},
					None => obs.push(0xdead),
				}
			}
		}));
		if res.is_err() {
			verdict = Err("panic in an allocator history".into());
		}
		crate::util::watch_end();
		out.case(&case);
		out.obs(&obs);
		match verdict {
			Ok(()) => oracle.push_str("ok\n"),
			Err(e) => oracle.push_str(&format!("FAIL {e}\n")),
		}
		*dist.entry(if multipart { "allocator-multipart-table".to_string() } else { "allocator-fixed-tier".to_string() }).or_insert(0) += 1;
		distinct.insert(case.clone());
	}
	let _ = std::fs::remove_dir_all(&dir);
	out.write_file("oracle.txt", &oracle);
	let d: Vec<String> = dist.iter().map(|(k, v)| format!("{}: {}", crate::util::jstr(k), v)).collect();
	out.write_file(
		"stats.json",
		&format!("{{\"evaluations\": {}, \"distinct_nontrivial\": {}, \"distribution\": {{{}}}}}", count, distinct.len(), d.join(", ")),
	);
	out.finish();
	0
}
