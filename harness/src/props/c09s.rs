//! C09 (slot level): the index files of one hash column against the model of coq/Model/IndexSlots.v.
//! One operation per transaction, drained (logged, enacted); after every operation all index files of the
//! column are read raw - every non-empty slot of every page of every generation - and compared with the
//! generations the model predicts: which slot an entry goes to, what stays behind in an old generation, what a
//! reindex batch moves, skips and drops, when the index grows.
//! Keys are uniform keys under the all-zero salt (a key is its own hash), aimed at one or two index pages; a
//! sixth share the first 8 bytes with another key.
//! Case line: 109 nops (1 key known addr | 2 key known | 3 | 4)*
//!   1: the key is set, its value is now at addr (read back from the files); 2: removed; 3: one reindex batch;
//!   4: drop + reopen
//! Observation after every operation: number of generations, then per generation (oldest first, the current
//! one last): bits, number of non-empty pages, per page: page, number of entries, (slot, known, addr)*
use crate::{rawdump::Raw, util::Out};
use parity_db::{ColumnOptions, Db, Operation, Options};
use std::collections::BTreeMap;
use std::path::Path;

fn known_of(key: &[u8]) -> u64 {
	u64::from_be_bytes(key[0..8].try_into().unwrap()) >> 14
}

/// all index generations of column 0, oldest first: (bits, page -> [(slot, known, addr)])
fn dump_index(dir: &Path, prefixes: &[u64]) -> Vec<(u64, BTreeMap<u64, Vec<(u64, u64, u64)>>)> {
	use std::io::{Read, Seek, SeekFrom};
	let mut gens = Vec::new();
	let mut files: Vec<(u64, std::path::PathBuf)> = Vec::new();
	if let Ok(rd) = std::fs::read_dir(dir) {
		for e in rd.flatten() {
			let n = e.file_name().to_string_lossy().to_string();
			if let Some(b) = n.strip_prefix("index_00_") {
				if let Ok(b) = b.parse::<u64>() {
					files.push((b, e.path()));
				}
			}
		}
	}
	files.sort();
	for (bits, p) in files {
		// only the pages the keys of this history can be in are read (an index file has 2^bits pages)
		let mut f = match std::fs::File::open(&p) {
			Ok(f) => f,
			Err(_) => continue,
		};
		let meta = 16384u64;
		let ab = bits + 14;
		let mut pages: BTreeMap<u64, Vec<(u64, u64, u64)>> = BTreeMap::new();
		let mut wanted: Vec<u64> = prefixes.iter().map(|pf| pf >> (64 - bits)).collect();
		wanted.sort();
		wanted.dedup();
		for page in wanted {
			let mut chunk = [0u8; 512];
			if f.seek(SeekFrom::Start(meta + page * 512)).is_err() || f.read_exact(&mut chunk).is_err() {
				continue
			}
			for i in 0..64usize {
				let e = u64::from_le_bytes(chunk[i * 8..i * 8 + 8].try_into().unwrap());
				if e == 0 {
					continue
				}
				let addr = e & ((1u64 << ab) - 1);
				let pk = e >> ab;
				let known = (page << (50 - bits)) | pk;
				pages.entry(page).or_default().push((i as u64, known, addr));
			}
		}
		gens.push((bits, pages));
	}
	if gens.is_empty() {
		// no index file yet: an empty index of the minimal size
		gens.push((16, BTreeMap::new()));
	}
	gens
}

pub fn main(args: &[String]) -> i32 {
	let seed: u64 = args[0].parse().unwrap();
	let count: u64 = args[1].parse().unwrap();
	let mut out = Out::new(&args[2]);
	let dir = std::path::PathBuf::from(&args[2]).join("db");
	let mut oracle = String::new();
	let mut dist: BTreeMap<String, u64> = BTreeMap::new();
	let mut distinct = 0u64;
	for case_no in 0..count {
		let mut rng = crate::util::case_rng(seed ^ 0xC095, case_no);
		if crate::util::skip_case(case_no) {
			continue
		}
		crate::util::watch_begin(&out, &[109, case_no]);
		let _ = std::fs::remove_dir_all(&dir);
		let mut o = Options::with_columns(&dir, 1);
		o.stats = false;
		o.with_background_thread = false;
		o.salt = Some([0u8; 32]);
		o.columns[0] = ColumnOptions { uniform: true, ..Default::default() };
		// keys: one or two pages; in deep mode they also share bit 17, so that the 17-bit index overflows too
		// deep mode (decided below) needs 129 keys in one 17-bit page before the first reindex batch
		let deep = rng.chance(1, 3);
		let nkeys = if deep { rng.range(130, 150) as usize } else { rng.range(66, 100) as usize };
		let first = match rng.below(8) {
			0 | 1 => [0u8, 0u8],
			2 => [0xffu8, 0xffu8],
			_ => [rng.below(256) as u8, rng.below(256) as u8],
		};
		let pages = [first, [rng.below(256) as u8, rng.below(256) as u8]];
		let two_pages = !deep && rng.chance(1, 3);
		let bit17 = (rng.below(2) as u8) << 7;
		let mut keys: Vec<Vec<u8>> = Vec::new();
		while keys.len() < nkeys {
			let mut k = rng.bytes(32);
			let pg = if two_pages && rng.chance(1, 4) { pages[1] } else { pages[0] };
			k[0] = pg[0];
			k[1] = pg[1];
			if deep {
				k[2] = (k[2] & 0x7f) | bit17;
			}
			if !keys.is_empty() && rng.chance(1, 6) {
				let other = rng.pick(&keys).clone();
				k[..8].copy_from_slice(&other[..8]);
			}
			if !keys.contains(&k) {
				keys.push(k);
			}
		}
		let prefixes: Vec<u64> = keys.iter().map(|k| u64::from_be_bytes(k[0..8].try_into().unwrap())).collect();
		let fill = if deep { 140 } else { 70 };
		let nops = fill + rng.range(30, 130) as usize;
		let mut case: Vec<u64> = vec![109, 0];
		let mut obs: Vec<u64> = Vec::new();
		let mut verdict: Result<(), String> = Ok(());
		let mut done = 0u64;
		let mut max_gens = 0usize;
		let mut grew = false;
		let mut batched = 0u64;
		let res = std::panic::catch_unwind(std::panic::AssertUnwindSafe(|| {
			let mut db = Some(Db::open_or_create(&o).unwrap());
			// live keys: current value
			let mut live: BTreeMap<usize, Vec<u8>> = BTreeMap::new();
			let mut version = 0u64;
			let mut next_new = 0usize;
			for opno in 0..nops {
				let d = db.as_ref().unwrap();
				// fill phase: the page has to overflow before anything interesting happens
				let kind = if opno < fill && (deep || rng.chance(4, 5)) { 0 } else { rng.below(20) };
				// the changes of this transaction: (key, set?) in the order they are given; a third of the set / remove
				// transactions carry 2-5 changes of different keys
				let mut batch: Vec<(usize, bool)> = Vec::new();
				match kind {
					0..=14 => {
						let n = if rng.chance(1, 3) { rng.range(2, 5) as usize } else { 1 };
						let mut tx = Vec::new();
						for j in 0..n {
							let want_set = if j == 0 { kind <= 11 } else { rng.chance(3, 4) };
							if want_set {
								let k = if next_new < nkeys && (opno < fill || rng.chance(1, 2)) {
									next_new += 1;
									next_new - 1
								} else {
									rng.below(nkeys as u64) as usize
								};
								if batch.iter().any(|b| b.0 == k) {
									continue
								}
								version += 1;
								let len = *rng.pick(&[10usize, 10, 11, 40, 200]);
								let mut v = vec![(version & 0xff) as u8; len];
								v[..8].copy_from_slice(&((k as u64) << 32 | version).to_le_bytes());
								tx.push((0u8, Operation::Set(keys[k].clone(), v.clone())));
								live.insert(k, v);
								batch.push((k, true));
							} else {
								let ks: Vec<usize> = live.keys().cloned().filter(|k| !batch.iter().any(|b| b.0 == *k)).collect();
								if ks.is_empty() {
									continue
								}
								let k = *rng.pick(&ks);
								tx.push((0u8, Operation::Dereference(keys[k].clone())));
								live.remove(&k);
								batch.push((k, false));
							}
						}
						if batch.is_empty() {
							continue
						}
						if batch.len() > 1 {
							batched += 1;
						}
						d.commit_changes(tx).unwrap();
					},
					15..=18 => {
						d.process_reindex().unwrap();
						case.push(3);
					},
					_ => {
						drop(db.take());
						db = Some(Db::open(&o).unwrap());
						case.push(4);
					},
				}
				let d = db.as_ref().unwrap();
				for _ in 0..3 {
					d.process_commits().unwrap();
				}
				d.flush_logs().unwrap();
				for _ in 0..4 {
					d.enact_logs().unwrap();
				}
				d.clean_logs().unwrap();
				let gens = dump_index(&dir, &prefixes);
				max_gens = max_gens.max(gens.len());
				if gens.len() > 1 {
					grew = true;
				}
				{
					let mut raw = Raw::new(&dir);
					let nb = batch.len();
					for (n, (k, is_set)) in batch.iter().enumerate() {
						let silent = if n + 1 == nb { 0 } else { 10 };
						let kn = known_of(&keys[*k]);
						if !*is_set {
							case.extend_from_slice(&[2 + silent, *k as u64, kn]);
							continue
						}
						// where the value is now: the entry with the key's bits whose address holds this value
						let mut addr = None;
						for (_, pages) in &gens {
							for es in pages.values() {
								for (_, known, a) in es {
									if *known == kn && raw.value(0, *a, false, true).as_ref() == live.get(k) {
										addr = Some(*a);
									}
								}
							}
						}
						match addr {
							Some(a) => case.extend_from_slice(&[1 + silent, *k as u64, kn, a]),
							None => {
								if verdict.is_ok() {
									verdict = Err(format!("stale-or-lost no index entry leads to the value just written for key {k}"));
								}
								case.extend_from_slice(&[1 + silent, *k as u64, kn, 0]);
							},
						}
					}
					if nb > 1 {
						done += nb as u64 - 1;
					}
				}
				done += 1;
				obs.push(gens.len() as u64);
				for (bits, pages) in &gens {
					obs.push(*bits);
					obs.push(pages.len() as u64);
					for (p, es) in pages {
						obs.push(*p);
						obs.push(es.len() as u64);
						for (i, kn, a) in es {
							obs.extend_from_slice(&[*i, *kn, *a]);
						}
					}
				}
				// property: every live key reads back, every other key is absent
				for k in 0..nkeys {
					let got = d.get(0, &keys[k]).unwrap();
					if got.as_ref() != live.get(&k) && verdict.is_ok() {
						verdict = Err(format!("stale-or-lost key {k} reads {:?} bytes, expected {:?} bytes", got.map(|v| v.len()), live.get(&k).map(|v| v.len())));
					}
				}
			}
		}));
		if res.is_err() && verdict.is_ok() {
			verdict = Err("panic in an index history".into());
		}
		crate::util::watch_end();
		case[1] = done;
		out.case(&case);
		out.obs(&obs);
		match verdict {
			Ok(()) => oracle.push_str("ok\n"),
			Err(e) => oracle.push_str(&format!("FAIL {e}\n")),
		}
		*dist.entry(format!("slot-histories-max-generations-{max_gens}")).or_insert(0) += 1;
		*dist.entry("transactions-with-several-changes".into()).or_insert(0) += batched;
		if grew {
			distinct += 1;
		}
	}
	let _ = std::fs::remove_dir_all(&dir);
	out.write_file("oracle.txt", &oracle);
	let d: Vec<String> = dist.iter().map(|(k, v)| format!("{}: {}", crate::util::jstr(k), v)).collect();
	out.write_file(
		"stats.json",
		&format!("{{\"evaluations\": {}, \"distinct_nontrivial\": {}, \"distribution\": {{{}}}}}", count, distinct, d.join(", ")),
	);
	out.finish();
	0
}
