//! C14: structural soundness of the files. A history (any of the generators: plain / counted / btree /
//! index growth / large btree), optionally interrupted by a process crash (the directory copied while
//! the handle is open and the copy opened), is driven to the end and drained; the handle is dropped.
//! Then the harness reads the files itself:
//!   * every value table of every column: header, every slot below the fill mark classified from its
//!     first bytes -> one case line (kind 14) for the extracted, proved checker; the observation is
//!     what the property demands (accepted; free-list length = number of tombstones; chains = heads +
//!     complete values nothing points to; chain slots = everything else), computed by the harness's own
//!     independent walk, which is also the oracle (classes free-list-broken, slot-used-twice,
//!     slot-leaked, chain-broken);
//!   * per column the number of value chains must equal what the live content needs: live keys (read
//!     back through a reopened handle), plus for a btree column its nodes and the tree header
//!     (class orphan-or-missing-entry);
//!   * value iteration of every hash column must yield exactly the live values (class iteration-wrong).
//! Case line: 14 filled free_head n (class next)*   class: 0 free 1 head 2 part 3 size 4 unreadable
//! Observation: 1 nfree nchains nchainslots
use crate::{prng::Rng, props::hist::{self, Case, Step}, rawdump::{parse_bnode, Raw}, util::Out};
use parity_db::{Db, Operation};
use std::collections::{BTreeMap, HashSet};
use std::path::Path;

#[derive(Clone, Copy, PartialEq, Debug)]
pub enum Slot {
	Free(u64),
	Head(u64),
	Part(u64),
	Size,
	Bad,
}

pub struct TableDump {
	pub filled: u64,
	pub free_head: u64,
	pub slots: Vec<Slot>, // index 1..
}

pub fn dump_table(raw: &mut Raw, col: u8, tier: u8) -> Option<TableDump> {
	let es = raw.entry_size(tier);
	let multipart = tier as usize >= raw.sizes.len();
	let t = raw.table(col, tier).clone();
	if t.len() < 16 {
		return None
	}
	let free_head = u64::from_le_bytes(t[0..8].try_into().unwrap());
	let filled = u64::from_le_bytes(t[8..16].try_into().unwrap());
	let mut slots = Vec::new();
	for i in 1..filled {
		let off = i as usize * es;
		if off + 10 > t.len() {
			slots.push(Slot::Bad);
			continue
		}
		let hd = [t[off], t[off + 1]];
		let next = u64::from_le_bytes(t[off + 2..off + 10].try_into().unwrap());
		slots.push(if hd == [0xff, 0xff] {
			Slot::Free(next)
		} else if multipart && (hd == [0xfd, 0xff] || hd == [0xfd, 0x7f]) {
			Slot::Head(next)
		} else if multipart && hd == [0xfe, 0xff] {
			Slot::Part(next)
		} else {
			Slot::Size
		});
	}
	Some(TableDump { filled, free_head, slots })
}

/// the harness's own rendering of "every slot below the fill mark is either part of exactly one live
/// value chain or on the free list exactly once; the free list is acyclic and in range"
fn judge(d: &TableDump) -> Result<(u64, u64, u64), String> {
	let n = d.slots.len() as u64;
	let at = |i: u64| -> Option<Slot> { if i == 0 || i > n { None } else { Some(d.slots[i as usize - 1]) } };
	let mut used = vec![0u32; n as usize + 1];
	// free list
	let mut nfree = 0u64;
	let mut i = d.free_head;
	while i != 0 {
		match at(i) {
			Some(Slot::Free(nx)) => {
				used[i as usize] += 1;
				if used[i as usize] > 1 {
					return Err(format!("free-list-broken the free list reaches slot {i} twice (a cycle)"))
				}
				nfree += 1;
				i = nx;
			},
			other => return Err(format!("free-list-broken the free list reaches slot {i}, which is {:?} (fill mark {})", other, d.filled)),
		}
	}
	// chains
	let mut targets = HashSet::new();
	for s in &d.slots {
		if let Slot::Head(nx) | Slot::Part(nx) = s {
			targets.insert(*nx);
		}
	}
	let mut nchains = 0u64;
	let mut nslots = 0u64;
	for idx in 1..=n {
		match at(idx).unwrap() {
			Slot::Head(nx) => {
				nchains += 1;
				used[idx as usize] += 1;
				nslots += 1;
				let mut j = nx;
				let mut steps = 0u64;
				loop {
					steps += 1;
					if steps > n + 1 {
						return Err(format!("chain-broken the chain from slot {idx} does not end"))
					}
					match at(j) {
						Some(Slot::Part(nx2)) => {
							used[j as usize] += 1;
							nslots += 1;
							j = nx2;
						},
						Some(Slot::Size) => {
							used[j as usize] += 1;
							nslots += 1;
							break
						},
						other => return Err(format!("chain-broken the chain from slot {idx} reaches slot {j}, which is {:?}", other)),
					}
				}
			},
			Slot::Size if !targets.contains(&idx) => {
				nchains += 1;
				used[idx as usize] += 1;
				nslots += 1;
			},
			Slot::Bad => return Err(format!("slot-unreadable slot {idx} below the fill mark {} lies beyond the end of the file", d.filled)),
			_ => (),
		}
	}
	for idx in 1..=n {
		if used[idx as usize] > 1 {
			return Err(format!("slot-used-twice slot {idx} ({:?}) is used {} times", at(idx), used[idx as usize]))
		}
		if used[idx as usize] == 0 {
			return Err(format!("slot-leaked slot {idx} ({:?}) below the fill mark {} is neither on the free list nor part of a value chain", at(idx), d.filled))
		}
	}
	Ok((nfree, nchains, nslots))
}

fn count_bnodes(raw: &mut Raw, col: u8, rc: bool, addr: u64, depth: u32, budget: &mut u32) -> Option<u64> {
	if *budget == 0 {
		return None
	}
	*budget -= 1;
	let buf = raw.value(col, addr, rc, false)?;
	let n = parse_bnode(&buf)?;
	let mut c = 1u64;
	if depth > 0 {
		if n.first == 0 {
			return None
		}
		c += count_bnodes(raw, col, rc, n.first, depth - 1, budget)?;
		for (_, _, child) in &n.seps {
			if *child == 0 {
				return None
			}
			c += count_bnodes(raw, col, rc, *child, depth - 1, budget)?;
		}
	}
	Some(c)
}

fn watch(db: &Db, case: &Case, what: &str) {
	if let Ok(k) = std::env::var("VERIF_WATCH_KEY") {
		let k: usize = k.parse().unwrap();
		let g = db.get(0, &case.keys[0][k]).unwrap();
		eprintln!("    after {what}: key {k} -> {:?}", g.map(|x| x.len()));
	}
}

fn drain(db: &Db, case: &Case) {
	for _ in 0..120 {
		db.process_commits().unwrap();
	}
	watch(db, case, "drain: process x120");
	for _ in 0..6 {
		db.flush_logs().unwrap();
		if db.verif_num_dirty_logs() >= 3 {
			db.clean_logs().unwrap();
		}
		db.enact_logs().unwrap();
		watch(db, case, "drain: flush+enact");
		for i in 0..80 {
			db.process_reindex().unwrap();
			if i < 3 {
				watch(db, case, "drain: reindex");
			}
		}
		watch(db, case, "drain: reindex x80");
	}
	db.flush_logs().unwrap();
	if db.verif_num_dirty_logs() >= 3 {
		db.clean_logs().unwrap();
	}
	db.enact_logs().unwrap();
	db.clean_logs().unwrap();
}

fn copy_dir(from: &Path, to: &Path) {
	let _ = std::fs::remove_dir_all(to);
	std::fs::create_dir_all(to).unwrap();
	for e in std::fs::read_dir(from).unwrap().flatten() {
		if e.file_name() != "lock" {
			std::fs::copy(e.path(), to.join(e.file_name())).unwrap();
		}
	}
}

pub fn main(args: &[String]) -> i32 {
	let seed: u64 = args[0].parse().unwrap();
	let count: u64 = args[1].parse().unwrap();
	let mut out = Out::new(&args[2]);
	let root = std::path::PathBuf::from(&args[2]);
	let dir = root.join("db");
	let mut oracle = String::new();
	let mut dist: BTreeMap<String, u64> = BTreeMap::new();
	let mut nontrivial = 0u64;
	for hi in 0..count {
		let mut rng = crate::util::case_rng(seed ^ 0xC14, hi);
		if crate::util::skip_case(hi) {
			continue
		}
		let (mut case, gen): (Case, &str) = match hi % 6 {
			0 => (hist::gen_case(&mut rng, "c01"), "mixed"),
			1 => (hist::gen_case(&mut rng, "c07"), "counted"),
			2 => (hist::gen_case_growth(&mut rng, None), "growth"),
			3 => (hist::gen_case_btree_large(&mut rng), "btree-large"),
			4 => (hist::gen_case(&mut rng, "c03"), "mixed-drops"),
			_ => (hist::gen_case(&mut rng, "c06"), "sizes"),
		};
		case.steps.retain(|s| !matches!(s, Step::IterNew(_) | Step::IterSeek(_) | Step::IterLast | Step::IterNext | Step::IterPrev));
		hist::canonicalise(&mut case);
		if let Ok(v) = std::env::var("VERIF_TRIM") {
			if std::env::var("VERIF_ONLY").ok().and_then(|o| o.parse::<u64>().ok()) == Some(hi) {
				case.steps.truncate(v.parse::<usize>().unwrap());
			}
		}
		*dist.entry(format!("gen-{gen}")).or_insert(0) += 1;
		crate::util::watch_begin(&out, &hist::case_tokens(&case));
		let _ = std::fs::remove_dir_all(&dir);
		let opts = hist::options_for(&case, &dir);
		let mut book = hist::ValueBook::new();
		let mut crash_at = if rng.chance(1, 3) { Some(rng.below(case.steps.len() as u64 + 1) as usize) } else { None };
		if let Ok(v) = std::env::var("VERIF_CRASH_AT") {
			crash_at = v.parse::<usize>().ok();
		}
		let mut verdict: Result<(), String> = Ok(());
		let mut live: Vec<Vec<bool>> = Vec::new();
		if let Ok(only) = std::env::var("VERIF_ONLY") {
			if only.parse::<u64>().ok() != Some(hi) {
				continue
			}
			eprintln!("history {hi}: cols {:?} nkeys {} crash_at {:?}", case.cols.iter().map(|c| (c.btree, c.rc, c.preimage, c.uniform)).collect::<Vec<_>>(), case.keys[0].len(), crash_at);
			for (i, s) in case.steps.iter().enumerate() {
				eprintln!("  {i}: {}", match s { Step::Commit(o) => format!("commit {:?}", o.iter().map(|x| (x.0, x.1, x.2)).collect::<Vec<_>>()), o => format!("{:?}", o) });
			}
		}
		let run = std::panic::catch_unwind(std::panic::AssertUnwindSafe(|| {
			let mut db = Some(Db::open_or_create(&opts).expect("create"));
			for (si, s) in case.steps.iter().enumerate() {
				if crash_at == Some(si) {
					let img = root.join("img");
					copy_dir(&dir, &img);
					drop(db.take());
					std::fs::remove_dir_all(&dir).unwrap();
					std::fs::rename(&img, &dir).unwrap();
					db = Some(Db::open(&opts).expect("open of the crash image"));
				}
				let d = db.as_ref().unwrap();
				match s {
					Step::Commit(ops) => {
						let tx: Vec<(u8, Operation<Vec<u8>, Vec<u8>>)> = ops
							.iter()
							.map(|(c, o, k, v)| {
								let key = case.keys[*c as usize][*k].clone();
								(*c, match o {
									0 => Operation::Set(key, book.note(*v)),
									1 => Operation::Dereference(key),
									_ => Operation::Reference(key),
								})
							})
							.collect();
						let _ = d.commit_changes(tx);
					},
					Step::Process => {
						d.process_commits().unwrap();
					},
					Step::Flush => {
						d.flush_logs().unwrap();
					},
					Step::EnactAll | Step::EnactOne => {
						if d.verif_num_dirty_logs() >= 4 {
							d.clean_logs().unwrap();
						}
						if matches!(s, Step::EnactAll) {
							d.enact_logs().unwrap();
						} else {
							d.verif_enact_one().unwrap();
						}
					},
					Step::Clean => {
						d.clean_logs().unwrap();
					},
					Step::Reindex => {
						d.process_reindex().unwrap();
					},
					Step::Reopen => {
						drop(db.take());
						db = Some(Db::open(&opts).expect("reopen"));
					},
					_ => (),
				}
				watch(db.as_ref().unwrap(), &case, &format!("step {si}"));
			}
			drain(db.as_ref().unwrap(), &case);
			drop(db.take());
			// live content, through a fresh handle
			let d = Db::open(&opts).expect("final open");
			let mut lv = Vec::new();
			for (c, ks) in case.keys.iter().enumerate() {
				lv.push(ks.iter().map(|k| d.get(c as u8, k).unwrap().is_some()).collect::<Vec<bool>>());
			}
			// value iteration of hash columns
			let mut iter_err = None;
			for (c, cc) in case.cols.iter().enumerate() {
				if cc.btree {
					continue
				}
				let mut n = 0u64;
				let mut seen_values: Vec<Vec<u8>> = Vec::new();
				d.iter_column_while(c as u8, |st| {
					n += 1;
					seen_values.push(st.value.clone());
					true
				})
				.unwrap();
				let nlive = lv[c].iter().filter(|b| **b).count() as u64;
				if n != nlive && std::env::var("VERIF_ONLY").is_ok() {
					let live_vals: Vec<Vec<u8>> = case.keys[c].iter().enumerate().filter(|(k, _)| lv[c][*k]).map(|(_, key)| d.get(c as u8, key).unwrap().unwrap()).collect();
					for v in &seen_values {
						let cnt_seen = seen_values.iter().filter(|x| *x == v).count();
						let cnt_live = live_vals.iter().filter(|x| *x == v).count();
						if cnt_seen != cnt_live {
							let tok = book.token_of(v);
							let mut writers = Vec::new();
							for (si, s) in case.steps.iter().enumerate() {
								if let Step::Commit(ops) = s {
									for (oi, o) in ops.iter().enumerate() {
										if o.1 == 0 && hist::value_bytes(o.3) == *v {
											writers.push((si, oi, o.2));
										}
									}
								}
							}
							for w in &writers {
								let g = d.get(c as u8, &case.keys[c][w.2]).unwrap();
								eprintln!("  key {} now reads {:?}", w.2, g.as_ref().map(|x| (book.token_of(x), x.len())));
							}
							eprintln!("orphan value token {tok:x} (len {}), iterated {cnt_seen}x, live {cnt_live}x, written by (step, op, key) {:?}", v.len(), writers);
						}
					}
				}
				if n != nlive {
					iter_err = Some(format!("iteration-wrong column {c}: value iteration yields {n} values, {nlive} keys are live"));
				} else {
					// every live key's value is among them
					for (k, key) in case.keys[c].iter().enumerate() {
						if lv[c][k] {
							let v = d.get(c as u8, key).unwrap().unwrap();
							if !seen_values.contains(&v) {
								iter_err = Some(format!("iteration-wrong column {c}: the value of live key {k} is not among the iterated values"));
							}
						}
					}
				}
			}
			drop(d);
			(lv, iter_err)
		}));
		match run {
			Ok((lv, ie)) => {
				live = lv;
				if let Some(e) = ie {
					verdict = Err(e);
				}
			},
			Err(e) => {
				let m = e.downcast_ref::<String>().cloned().or_else(|| e.downcast_ref::<&str>().map(|s| s.to_string())).unwrap_or_default();
				verdict = Err(format!("panic the implementation panicked: {}", m.chars().take(160).collect::<String>()));
			},
		}
		crate::util::watch_end();
		// ---- raw analysis
		let mut lines: Vec<(Vec<u64>, Vec<u64>)> = Vec::new();
		if verdict.is_ok() {
			let mut raw = Raw::new(&dir);
			let ntiers = raw.sizes.len() as u16 + 1;
			for (c, cc) in case.cols.iter().enumerate() {
				let mut chains_total = 0u64;
				let mut tables = 0;
				for tier in 0..ntiers {
					let d = match dump_table(&mut raw, c as u8, tier as u8) {
						Some(d) => d,
						None => continue,
					};
					tables += 1;
					let mut toks = vec![14u64, d.filled, d.free_head, d.slots.len() as u64];
					for s in &d.slots {
						let (cl, nx) = match s {
							Slot::Free(n) => (0, *n),
							Slot::Head(n) => (1, *n),
							Slot::Part(n) => (2, *n),
							Slot::Size => (3, 0),
							Slot::Bad => (4, 0),
						};
						toks.push(cl);
						toks.push(nx);
					}
					match judge(&d) {
						Ok((nf, nc, ns)) => {
							chains_total += nc;
							if d.filled > 1 {
								*dist.entry("tables-with-entries".into()).or_insert(0) += 1;
							}
							if nf > 0 {
								*dist.entry("tables-with-free-list".into()).or_insert(0) += 1;
							}
							if ns > nc {
								*dist.entry("tables-with-multipart-chains".into()).or_insert(0) += 1;
							}
							lines.push((toks, vec![1, nf, nc, ns]));
						},
						Err(e) => {
							if verdict.is_ok() {
								verdict = Err(format!("{e} [table_{:02}_{:02x}]", c, tier));
							}
							lines.push((toks, vec![0, 0, 0, 0]));
						},
					}
				}
				let _ = tables;
				// what the live content needs
				let nlive = live[c].iter().filter(|b| **b).count() as u64;
				let mut expected = nlive;
				if cc.btree {
					let header = raw.value(c as u8, 1 << 8, cc.rc, false);
					match header {
						Some(h) if h.len() >= 12 => {
							let root_addr = u64::from_le_bytes(h[0..8].try_into().unwrap());
							let depth = u32::from_le_bytes(h[8..12].try_into().unwrap());
							expected += 1;
							if root_addr != 0 {
								let mut budget = 200000u32;
								match count_bnodes(&mut raw, c as u8, cc.rc, root_addr, depth, &mut budget) {
									Some(n) => expected += n,
									None =>
										if verdict.is_ok() {
											verdict = Err(format!("tree-unreadable column {c}: a node of the tree cannot be read from the raw files"));
										},
								}
							}
						},
						_ => (), // a btree column that never held anything has no header entry
					}
				}
				if verdict.is_ok() && chains_total != expected {
					verdict = Err(format!(
						"orphan-or-missing-entry column {c} ({}): the value tables hold {chains_total} value chains, the live content needs {expected} ({nlive} live keys{})",
						if cc.btree { "btree" } else if cc.rc { "counted hash" } else { "hash" },
						if cc.btree { " + tree header + nodes" } else { "" }
					));
				}
			}
		}
		if lines.is_empty() {
			// keep one line per history so that the oracle verdict has a place
			lines.push((vec![14, 0, 0, 0], vec![1, 0, 0, 0]));
		}
		let nl = lines.len();
		for (i, (c, o)) in lines.into_iter().enumerate() {
			out.case(&c);
			out.obs(&o);
			if i + 1 == nl {
				match &verdict {
					Ok(()) => oracle.push_str("ok\n"),
					Err(e) => oracle.push_str(&format!("FAIL {e} [generator {gen}, crash at {:?}, history {hi}]\n", crash_at)),
				}
			} else {
				oracle.push_str("ok\n");
			}
		}
		if crash_at.is_some() {
			*dist.entry("histories-with-crash-recovery".into()).or_insert(0) += 1;
		}
		nontrivial += 1;
		*dist.entry("histories".into()).or_insert(0) += 1;
	}
	let _ = std::fs::remove_dir_all(&dir);
	out.write_file("oracle.txt", &oracle);
	let d: Vec<String> = dist.iter().map(|(k, v)| format!("{}: {}", crate::util::jstr(k), v)).collect();
	out.write_file(
		"stats.json",
		&format!("{{\"evaluations\": {}, \"distinct_nontrivial\": {}, \"distribution\": {{{}}}}}", count, nontrivial, d.join(", ")),
	);
	out.finish();
	0
}
