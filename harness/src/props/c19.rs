//! C19: page search. Runs both private search functions (hook H1) on generated pages.
//! Case line: 19 bits key_prefix start e0..e63 ; observation: fast entry, fast pos, scalar entry, scalar pos.
//! The property oracle (an independent rendering of the property text, not of the model) is
//! evaluated on every case and its verdict written to oracle.txt.
use crate::{prng::Rng, util::Out};
use std::collections::BTreeMap;

fn address_bits(bits: u8) -> u32 {
	bits as u32 + 14
}

/// What the property says the fast path compares: the bits of the entry from
/// max(32, address_bits) upwards, 32 of them; when the key's pattern there is zero, the exact test.
fn fast_bits_agree(bits: u8, kp: u64, e: u64) -> bool {
	let shift = std::cmp::max(32, address_bits(bits));
	let pk = (kp << bits) >> shift;
	if pk == 0 {
		exact_match(bits, kp, e)
	} else {
		((e >> shift) as u32) == (pk as u32)
	}
}

fn exact_match(bits: u8, kp: u64, e: u64) -> bool {
	e != 0 && (e >> address_bits(bits)) == ((kp << bits) >> address_bits(bits))
}

pub fn oracle(bits: u8, kp: u64, start: usize, page: &[u64; 64], fast: (u64, usize), base: (u64, usize)) -> Result<(), String> {
	let first = (start..64).find(|&i| fast_bits_agree(bits, kp, page[i]));
	match first {
		Some(i) => {
			if fast != (page[i], i) {
				return Err(format!("wrong-slot fast path returned {:?}, first agreeing slot at or after {} is {} ({:#x})", fast, start, i, page[i]))
			}
			if fast.0 == 0 {
				return Err("empty-slot fast path returned an empty slot".into())
			}
		},
		None =>
			if fast != (0, 0) {
				return Err(format!("spurious-hit fast path returned {:?} but no slot agrees", fast))
			},
	}
	let exact = (start..64).find(|&i| exact_match(bits, kp, page[i]));
	if let Some(i) = exact {
		if base != (page[i], i) {
			return Err(format!("scalar-wrong scalar search returned {:?}, expected slot {}", base, i))
		}
		if fast.0 == 0 {
			return Err(format!("missed fast path reports absent, scalar search finds slot {}", i))
		}
		if fast.1 > i || fast.1 < start {
			return Err(format!("position fast path position {} outside [{}, {}]", fast.1, start, i))
		}
	} else if base != (0, 0) {
		return Err(format!("scalar-spurious scalar search returned {:?} but no slot matches exactly", base))
	}
	Ok(())
}

pub fn gen_case(rng: &mut Rng, class: u64) -> (u8, u64, usize, [u64; 64]) {
	// index sizes: the boundary ones more often
	let bits: u8 = match rng.below(10) {
		0 => 16,
		1 => 17,
		2 => 18,
		3 => 49,
		4 => 48,
		_ => rng.range(16, 49) as u8,
	};
	let ab = address_bits(bits);
	let mut kp = rng.next();
	if class == 3 {
		// zero partial key: clear the bits extract_key keeps
		let keep_hi = if bits == 0 { 0 } else { !0u64 << (64 - bits as u32) };
		let keep_lo = (1u64 << 14) - 1;
		kp &= keep_hi | keep_lo;
	}
	if class == 6 {
		// pattern seen by the fast path is zero but the exact partial key is not (bits 16/17 only matter)
		let keep_hi = !0u64 << (64 - bits as u32);
		kp &= keep_hi | ((1u64 << (14 + (32u32.saturating_sub(ab)))) - 1);
	}
	let pk = (kp << bits) >> ab;
	let addr_mask = (1u64 << ab) - 1;
	let start = match rng.below(6) {
		0 => 0,
		1 => 63,
		_ => rng.below(64) as usize,
	};
	let mut page = [0u64; 64];
	let fill = match class {
		0 => 64,               // full random page
		1 => rng.range(0, 8),  // sparse
		_ => rng.range(0, 64),
	};
	for slot in 0..64usize {
		if rng.below(64) >= fill {
			continue
		}
		let addr = rng.next() & addr_mask;
		let e = match class {
			0 | 1 => match rng.below(8) {
				0 => (pk << ab) | addr,
				_ => rng.next(),
			},
			2 => (pk << ab) | addr, // duplicates of the key's partial key
			3 => match rng.below(4) {
				0 => addr,              // zero partial key, maybe non-empty
				1 => 0,
				_ => rng.next(),
			},
			4 | 6 => {
				// differ from the key only in the bits the fast path drops (address_bits < 32)
				let dropped = 32u32.saturating_sub(ab);
				let flip = if dropped > 0 { rng.below(1 << dropped) } else { rng.below(2) };
				match rng.below(4) {
					0 => (pk << ab) | addr,
					1 => rng.next(),
					_ => ((pk ^ flip) << ab) | addr,
				}
			},
			_ => {
				// near misses: one bit of the partial key flipped
				let width = 64 - ab;
				let b = rng.below(width as u64);
				match rng.below(3) {
					0 => (pk << ab) | addr,
					_ => ((pk ^ (1 << b)) << ab) | addr,
				}
			},
		};
		page[slot] = e;
	}
	(bits, kp, start, page)
}

pub fn run_impl(bits: u8, kp: u64, start: usize, page: &[u64; 64]) -> ((u64, usize), (u64, usize)) {
	let mut bytes = [0u8; 512];
	for (i, e) in page.iter().enumerate() {
		bytes[i * 8..i * 8 + 8].copy_from_slice(&e.to_le_bytes());
	}
	let fast = parity_db::verif::find_entry(bits, kp, start, &bytes, true);
	let base = parity_db::verif::find_entry(bits, kp, start, &bytes, false);
	(fast, base)
}

pub fn main(args: &[String]) -> i32 {
	let seed: u64 = args[0].parse().unwrap();
	let count: u64 = args[1].parse().unwrap();
	let mut out = Out::new(&args[2]);
	let mut rng = Rng::new(seed ^ 0xC19);
	let mut oracle_lines = String::new();
	let mut dist: BTreeMap<String, u64> = BTreeMap::new();
	let mut nontrivial = std::collections::HashSet::new();
	// corpus / replay cases given as extra files: lines in the case format
	let mut cases: Vec<(u8, u64, usize, [u64; 64], String)> = Vec::new();
	for f in &args[3..] {
		if let Ok(text) = std::fs::read_to_string(f) {
			for line in text.lines() {
				let t: Vec<u64> = line.split_whitespace().filter_map(|x| u64::from_str_radix(x, 16).ok()).collect();
				if t.len() >= 4 && t[0] == 19 {
					let mut page = [0u64; 64];
					for (i, e) in t[4..].iter().take(64).enumerate() {
						page[i] = *e;
					}
					cases.push((t[1] as u8, t[2], t[3] as usize, page, "corpus".into()));
				}
			}
		}
	}
	for _ in 0..count {
		let class = rng.below(7);
		let (b, k, s, p) = gen_case(&mut rng, class);
		cases.push((b, k, s, p, format!("class{class}")));
	}
	let mut n = 0u64;
	for (bits, kp, start, page, class) in cases {
		let mut toks = vec![19u64, bits as u64, kp, start as u64];
		toks.extend_from_slice(&page);
		out.case(&toks);
		let (fast, base) = run_impl(bits, kp, start, &page);
		out.obs(&[fast.0, fast.1 as u64, base.0, base.1 as u64]);
		match oracle(bits, kp, start, &page, fast, base) {
			Ok(()) => oracle_lines.push_str("ok\n"),
			Err(e) => oracle_lines.push_str(&format!("FAIL {e}\n")),
		}
		*dist.entry(class).or_insert(0) += 1;
		*dist.entry(format!("bits{}", if bits < 18 { "16-17" } else if bits < 32 { "18-31" } else { "32-49" })).or_insert(0) += 1;
		let found = fast.0 != 0;
		*dist.entry(if found { "found".into() } else { "absent".into() }).or_insert(0) += 1;
		if fast != base {
			*dist.entry("fast!=scalar".into()).or_insert(0) += 1;
		}
		// non-trivial: the page holds at least one agreeing slot and one non-agreeing non-empty slot at or after start
		let agree = (start..64).any(|i| fast_bits_agree(bits, kp, page[i]));
		let other = (start..64).any(|i| page[i] != 0 && !fast_bits_agree(bits, kp, page[i]));
		if agree && other {
			let mut h = std::collections::hash_map::DefaultHasher::new();
			use std::hash::{Hash, Hasher};
			(bits, kp, start, &page[..]).hash(&mut h);
			nontrivial.insert(h.finish());
		}
		n += 1;
	}
	out.write_file("oracle.txt", &oracle_lines);
	let d: Vec<String> = dist.iter().map(|(k, v)| format!("{}: {}", crate::util::jstr(k), v)).collect();
	out.write_file(
		"stats.json",
		&format!("{{\"evaluations\": {}, \"distinct_nontrivial\": {}, \"distribution\": {{{}}}}}", n, nontrivial.len(), d.join(", ")),
	);
	out.finish();
	0
}
