pub mod c19;
