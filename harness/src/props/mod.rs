pub mod c19;
pub mod hist;
