pub mod c19;
pub mod hist;
pub mod c17;
pub mod c09e;
pub mod c20;
pub mod c06;
pub mod c10;
pub mod c04t;
