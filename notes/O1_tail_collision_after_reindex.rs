use parity_db::{ColumnOptions, Db, Options};

fn key(page: u16, mid: u32, tail: u8) -> Vec<u8> {
	let mut k = vec![tail; 32];
	k[0] = (page >> 8) as u8;
	k[1] = page as u8;
	k[2..6].copy_from_slice(&mid.to_be_bytes());
	k
}

fn drain(db: &Db) {
	for _ in 0..4 {
		db.process_commits().unwrap();
	}
	db.flush_logs().unwrap();
	for _ in 0..8 {
		db.enact_logs().unwrap();
	}
	db.clean_logs().unwrap();
}

#[test]
fn removed_key_is_not_answered_with_another_keys_value() {
	let dir = tempfile::tempdir().unwrap();
	let mut o = Options::with_columns(dir.path(), 1);
	o.with_background_thread = false;
	o.salt = Some([0u8; 32]);
	o.columns[0] = ColumnOptions { uniform: true, ..Default::default() };
	let db = Db::open_or_create(&o).unwrap();
	// 65 keys in one index page: the index starts to grow; no reindex batch is run, so the
	// entries stay in the old index
	let k1 = key(0x1234, 0, 0xaa);
	db.commit(vec![(0u8, k1.clone(), Some(vec![1u8; 20]))]).unwrap();
	drain(&db);
	for i in 1..=64u32 {
		db.commit(vec![(0u8, key(0x1234, i, i as u8), Some(vec![2u8; 20]))]).unwrap();
	}
	drain(&db);
	// k1 moves to another size tier, then is removed
	db.commit(vec![(0u8, k1.clone(), Some(vec![3u8; 300]))]).unwrap();
	drain(&db);
	assert_eq!(db.get(0, &k1).unwrap(), Some(vec![3u8; 300]));
	db.commit(vec![(0u8, k1.clone(), None)]).unwrap();
	drain(&db);
	assert_eq!(db.get(0, &k1).unwrap(), None, "removed");
	// another key with the same bytes 6..32 in another page takes the slot k1's first value had
	let k2 = key(0x4321, 0, 0xaa);
	db.commit(vec![(0u8, k2.clone(), Some(vec![9u8; 20]))]).unwrap();
	drain(&db);
	assert_eq!(db.get(0, &k2).unwrap(), Some(vec![9u8; 20]));
	assert_eq!(db.get(0, &k1).unwrap(), None, "k1 was removed; it must not be answered with k2's value");
	// now the growth is carried out
	for _ in 0..20 {
		db.process_reindex().unwrap();
		drain(&db);
	}
	assert_eq!(db.get(0, &k2).unwrap(), Some(vec![9u8; 20]));
	assert_eq!(db.get(0, &k1).unwrap(), None, "after the reindex: k1 was removed; it must not be answered with k2's value");
}
