(* Decoding of correspondence cases, in Gallina, so that the extracted driver and a
   [vm_compute] evaluation inside coqc run exactly the same function.
   A case is a list of numbers; the first is the case kind. *)
From Coq Require Import NArith List Bool.
From PDB Require Import Gen.Consts Model.IndexPage Model.Pipeline Model.Meta Model.Migrate Model.MigrateDriver Model.ValueTable Model.MultiTree Model.BTreeIter Model.BTreeCheck Model.Wal Model.WalCodec Model.StorageCheck Model.Lock Model.Readers Model.TableAlloc Model.IndexSlots Model.BTreeMut.
From PDB Require Model.RcTable.
Import ListNotations.
Open Scope N_scope.

Definition err_marker : list N := [16777215; 16777215].

(* kind 19: bits kp start e0 .. e63  ->  fast entry, fast position, scalar entry, scalar position *)
Definition run_c19 (l : list N) : list N :=
  match l with
  | bits :: kp :: start :: chunk =>
      let '(e1, i1) := find_entry_sse2 bits kp (N.to_nat start) chunk in
      let '(e2, i2) := find_entry_base bits kp (N.to_nat start) chunk in
      [e1; N.of_nat i1; e2; N.of_nat i2]
  | _ => err_marker
  end.

(* ---- kind 1: pipeline history ---- *)
Fixpoint take_cfg (n : nat) (l : list N) : list ccfg * list N :=
  match n, l with
  | S n', f :: rest =>
      let '(cs, r) := take_cfg n' rest in
      ({| c_btree := N.testbit f 0; c_rc := N.testbit f 1; c_preimage := N.testbit f 2 |} :: cs, r)
  | _, _ => ([], l)
  end.

Fixpoint take_ops (n : nat) (l : list N) : tx * list N :=
  match n, l with
  | S n', c :: o :: k :: v :: rest =>
      let '(ops, r) := take_ops n' rest in
      let op := if o =? 0 then OSet k v else if o =? 1 then ODeref k else ORef k in
      ((c, op) :: ops, r)
  | _, _ => ([], l)
  end.

Definition opt_tok (o : option N) : N := match o with Some v => v + 1 | None => 0 end.

Definition observe (ncols nkeys : nat) (s : pstate) : list N :=
  flat_map (fun c => flat_map (fun k => [opt_tok (get s (N.of_nat c) (N.of_nat k));
                                         opt_tok (get_size s (N.of_nat c) (N.of_nat k))])
                              (seq 0 nkeys)) (seq 0 ncols).

(* after a reopen: the stored count of every key of every hash counted column, then the number of
   stray values (always 0 in the model) *)
Definition observe_rc (cfg : list ccfg) (nkeys : nat) (s : pstate) : list N :=
  flat_map (fun c => let cf := cfg_of cfg (N.of_nat c) in
                     if c_rc cf && negb (c_btree cf)
                     then map (fun k => stored_rc s (N.of_nat c) (N.of_nat k)) (seq 0 nkeys) ++ [0]
                     else []) (seq 0 (length cfg)).

(* iterator view of a btree column: tree content as the log overlay shows it, and the commit overlay;
   key identities are shifted by one so that 0 stands for "before every key" *)
Definition backend_of (s : pstate) (c : N) (nkeys : nat) : kvs :=
  flat_map (fun k => match lov_read (lo s) (tb s) (c, N.of_nat k) with Some (v, _) => [(N.of_nat k + 1, v)] | None => [] end) (seq 0 nkeys).
Definition overlay_of (s : pstate) (c : N) (nkeys : nat) : ovs :=
  flat_map (fun k => match look (ov s) (c, N.of_nat k) with Some (_, e) => [(N.of_nat k + 1, e)] | None => [] end) (seq 0 nkeys).
Definition iter_out (r : option (N * N)) : list N := match r with Some (k, v) => [k; v + 1] | None => [0; 0] end.

Fixpoint run_steps (fuel : nat) (cfg : list ccfg) (nkeys : nat) (s : pstate) (itr : option (N * iter)) (l : list N) : list N :=
  match fuel with
  | O => []
  | S f =>
      match l with
      | [] => []
      | code :: rest =>
          if (11 <=? code) && (code <=? 15) then
            (* iterator calls: 11 col = new, 12 key = seek, 13 = seek_to_last, 14 = next, 15 = prev *)
            let '(itr', out, rest') :=
              if code =? 11 then
                match rest with
                | c :: r => (Some (c, iter_new (backend_of s c nkeys)), [0; 0], r)
                | [] => (itr, [0; 0], [])
                end
              else match itr with
                   | None => (None, [0; 0], if code =? 12 then tl rest else rest)
                   | Some (c, it) =>
                       let b := backend_of s c nkeys in
                       let o := overlay_of s c nkeys in
                       if code =? 12 then
                         match rest with
                         | k :: r => (Some (c, iter_seek b it k), [0; 0], r)
                         | [] => (itr, [0; 0], [])
                         end
                       else if code =? 13 then (Some (c, iter_seek_last b it), [0; 0], rest)
                       else let '(r, it') := iter_step (S (S nkeys)) b o it (if code =? 14 then Fwd else Bwd) in
                            (Some (c, it'), iter_out r, rest)
                   end in
            0 :: out ++ observe (length cfg) nkeys s ++ run_steps f cfg nkeys s itr' rest'
          else
          let '(st, rest') :=
            if code =? 1 then
              match rest with
              | n :: r => let '(ops, r') := take_ops (N.to_nat n) r in (SCommit ops, r')
              | [] => (SProcess, [])
              end
            else if code =? 2 then (SProcess, rest)
            else if code =? 3 then (SFlush, rest)
            else if code =? 4 then (SEnactAll, rest)
            else if code =? 5 then (SClean, rest)
            else if code =? 6 then (SReopen, rest)
            else if code =? 8 then (SReindex, rest)
            else (SEnactOne, rest) in
          let '(s', status) := do_step cfg s st in
          status :: observe (length cfg) nkeys s'
            ++ (match st with SReopen => observe_rc cfg nkeys s' | _ => [] end)
            ++ run_steps f cfg nkeys s' (match st with SReopen => None | _ => itr end) rest'
      end
  end.

Definition run_hist (l : list N) : list N :=
  match l with
  | ncols :: rest =>
      let '(cfg, rest1) := take_cfg (N.to_nat ncols) rest in
      match rest1 with
      | nkeys :: nsteps :: steps => run_steps (N.to_nat nsteps) cfg (N.to_nat nkeys) Pipeline.init None steps
      | _ => err_marker
      end
  | _ => err_marker
  end.

(* ---- kind 17: metadata / options / file names ---- *)
Fixpoint take_opts (n : nat) (l : list N) : list copt * list N :=
  match n, l with
  | S n', a :: b :: c :: d :: e :: g :: h :: i :: rest =>
      let '(os, r) := take_opts n' rest in
      ({| o_preimage := negb (a =? 0); o_uniform := negb (b =? 0); o_refc := negb (c =? 0); o_compression := d;
          o_ordered := negb (e =? 0); o_multitree := negb (g =? 0); o_append_only := negb (h =? 0);
          o_direct := negb (i =? 0) |} :: os, r)
  | _, _ => ([], l)
  end.
Definition b2n (b : bool) : N := if b then 1 else 0.
Definition opt_tokens (o : copt) : list N :=
  [b2n (o_preimage o); b2n (o_uniform o); b2n (o_refc o); o_compression o; b2n (o_ordered o);
   b2n (o_multitree o); b2n (o_append_only o); b2n (o_direct o)].
Fixpoint take_names (n : nat) (l : list N) : list (list N) :=
  match n, l with
  | S n', len :: rest => firstn (N.to_nat len) rest :: take_names n' (skipn (N.to_nat len) rest)
  | _, _ => []
  end.

Definition run_c17 (l : list N) : list N :=
  match l with
  | 1 :: version :: ncols :: rest =>           (* text of the metadata file *)
      let '(cols, r) := take_opts (N.to_nat ncols) rest in
      metadata_text version (firstn 32 r) cols
  | 2 :: text =>                                  (* parse a metadata file *)
      match parse_metadata text with
      | MOk m => 0 :: m_version m :: N.of_nat (length (m_cols m)) :: m_salt m ++ flat_map opt_tokens (m_cols m)
      | MErr c => [c]
      end
  | 3 :: n1 :: rest =>                            (* validation at open *)
      let '(stored, r) := take_opts (N.to_nat n1) rest in
      match r with
      | n2 :: r2 => let '(req, _) := take_opts (N.to_nat n2) r2 in [validate stored req]
      | [] => err_marker
      end
  | 4 :: c :: n :: rest =>                        (* which files drop_files removes *)
      map (fun name => b2n (is_col_file c name)) (take_names (N.to_nat n) rest)
  | _ => err_marker
  end.

(* kind 9: bits kp addr -> entry, address, partial key, chunk index, recovered key prefix *)
Definition run_c09 (l : list N) : list N :=
  match l with
  | [bits; kp; addr] =>
      let e := entry_new bits addr (extract_key bits kp) in
      [e; entry_address bits e; pk_of bits e; chunk_index bits kp; recover_key_prefix bits (chunk_index bits kp) e]
  | _ => err_marker
  end.

(* ---- kind 20: migration. ncols (src dst forced)*ncols overwrite nkeys (present vtok rc)* ----
   output: status 0, then per (col, key): value token + 1 (0 = absent), count (0 unless the destination counts) *)
Fixpoint take_mcols (n : nat) (l : list N) : list (N * N) * list N :=
  match n, l with
  | S n', s :: d :: _ :: rest => let '(cs, r) := take_mcols n' rest in ((s, d) :: cs, r)
  | _, _ => ([], l)
  end.
Fixpoint take_entries (n : nat) (kidx : N) (l : list N) : list (N * (bool * N * N)) * list N :=
  match n, l with
  | S n', p :: v :: rc :: rest =>
      let '(es, r) := take_entries n' (kidx + 1) rest in ((kidx, (negb (p =? 0), v, rc)) :: es, r)
  | _, _ => ([], l)
  end.
(* the whole call through the driver model (Model/MigrateDriver.v): selection, batches of COMMIT_SIZE, copy or move *)
Fixpoint take_col_entries (ncols : nat) (nkeys : nat) (l : list N) : list (list (N * (bool * N * N))) :=
  match ncols with
  | O => []
  | S n' => let '(es, r) := take_entries nkeys 0 l in es :: take_col_entries n' nkeys r
  end.
Definition entries_src (es : list (N * (bool * N * N))) : scontent :=
  flat_map (fun e : N * (bool * N * N) => let '(k, (p, v, rc)) := e in if (p : bool) then [(k, (v, rc))] else []) es.
Fixpoint mig_out (cols : list mcol) (ess : list (list (N * (bool * N * N)))) (c : N) (R : db) : list N :=
  match cols, ess with
  | m :: cols', es :: ess' =>
      flat_map (fun e : N * (bool * N * N) => match R c (fst e) with
                         | Some (v, n) => [v + 1; if c_rc (dcf m) then n else 0]
                         | None => [0; 0]
                         end) es
      ++ mig_out cols' ess' (c + 1) R
  | _, _ => []
  end.
Fixpoint take_mcols3 (n : nat) (l : list N) : list mcol * list N :=
  match n, l with
  | S n', s :: d :: f :: rest => let '(cs, r) := take_mcols3 n' rest in ({| m_sf := s; m_df := d; m_force := negb (f =? 0) |} :: cs, r)
  | _, _ => ([], l)
  end.
Definition run_c20 (l : list N) : list N :=
  match l with
  | ncols :: rest =>
      let '(cols, r) := take_mcols3 (N.to_nat ncols) rest in
      match r with
      | ow :: nkeys :: es =>
          let ess := take_col_entries (length cols) (N.to_nat nkeys) es in
          let srcs := map entries_src ess in
          let overwrite := N.odd ow in            (* bit 0: overwrite; the rest: columns the destination has in excess *)
          match migrate_driver (N.to_nat migration_commit_size) cols (length cols + N.to_nat (ow / 2))%nat overwrite srcs (src_db srcs) with
          | MgOk S' D' => 0 :: mig_out cols ess 0 (if overwrite then S' else D')
          | MgErr e => [1; e]
          end
      | _ => err_marker
      end
  | _ => err_marker
  end.

(* ---- kind 6: value tables ---- *)
Definition pad_to (n : nat) (bs : list N) : list N := bs ++ repeat 0 (n - length bs)%nat.
Definition rc_prefix (rcd : bool) : list N := if rcd then le_encode 4 1 else [].
(* sub 1: rc keytail[26] value...  -> tier, entry size, image of the table file: header slot and the chain *)
Definition c06_insert (rcd : bool) (tail value : list N) : list N :=
  let len := N.of_nat (length value) in
  let t := select_tier rcd true len in
  let es := tier_entry_size t in
  let prefix := rc_prefix rcd ++ tail in
  let n := if t =? N.of_nat (length column_sizes)
           then parts_needed (S (length value)) es (N.of_nat (length prefix)) len else 1%nat in
  let ws := write_chain (S (S (length value))) es true false prefix value (map N.of_nat (seq 1 (S n))) in
  let header := pad_to (N.to_nat es) (le_encode 8 0 ++ le_encode 8 (N.of_nat (S n))) in
  t :: es :: header ++ flat_map (fun w => pad_to (N.to_nat es) (encode_slot (snd w))) ws.
(* sub 2: accounting: rc nkeys nsteps (op key len)* -> per key 1 present / 2 absent, then (tier, live slots)* *)
Fixpoint c06_steps (n : nat) (l : list N) (st : list (N * N)) : list (N * N) :=
  match n, l with
  | S n', o :: k :: len :: rest =>
      let st' := filter (fun e => negb (fst e =? k)) st in
      c06_steps n' rest (if o =? 0 then (k, len) :: st' else st')
  | _, _ => st
  end.
Definition c06_account (rcd : bool) (nkeys : nat) (st : list (N * N)) : list N :=
  let present := map (fun k => if existsb (fun e => fst e =? N.of_nat k) st then 1 else 2) (seq 0 nkeys) in
  let slots := map (fun e => let t := select_tier rcd true (snd e) in
                             (t, if t =? N.of_nat (length column_sizes)
                                 then N.of_nat (parts_needed (S (N.to_nat (snd e))) (tier_entry_size t) (prefix_size rcd true) (snd e))
                                 else 1)) st in
  let tiers := seq 0 256 in
  present ++ flat_map (fun t => let n := fold_left (fun a e => if fst e =? N.of_nat t then a + snd e else a) slots 0 in
                                if n =? 0 then [] else [N.of_nat t; n]) tiers.
Definition run_c06 (l : list N) : list N :=
  match l with
  | 1 :: rc :: rest => c06_insert (negb (rc =? 0)) (firstn 26 rest) (skipn 26 rest)
  | 2 :: rc :: nkeys :: nsteps :: rest =>
      c06_account (negb (rc =? 0)) (N.to_nat nkeys) (c06_steps (N.to_nat nsteps) rest [])
  (* sub 3: a compressed column: rc, the length of what was stored (the compressed bytes) -> the tier it belongs in *)
  | 3 :: rc :: len :: _ => [select_tier (negb (rc =? 0)) true len]
  | _ => err_marker
  end.

(* ---- kind 10: multitree histories ---- *)
Fixpoint resolve_path (fuel : nat) (s : mstate) (n : option node) (path : list N) (last : nid) : nid :=
  match fuel with
  | O => last
  | S f =>
      match path, n with
      | [], _ => last
      | i :: rest, Some nd =>
          let id := nth (N.to_nat i) (n_children nd) 0 in
          resolve_path f s (MultiTree.get_node s id) rest id
      | _ :: _, None => 0
      end
  end.

(* tree := data nchildren child* ; child := 0 tree | 1 key pathlen idx* *)
Fixpoint parse_tree (fuel : nat) (s : mstate) (l : list N) : tree * list N :=
  match fuel with
  | O => (TNode 0 [], l)
  | S f =>
      match l with
      | d :: n :: rest =>
          let '(cs, r) :=
            (fix kids (k : nat) (l : list N) : list tchild * list N :=
               match k with
               | O => ([], l)
               | S k' =>
                   match l with
                   | 0 :: r0 => let '(t, r1) := parse_tree f s r0 in
                                let '(cs, r2) := kids k' r1 in (TNew t :: cs, r2)
                   | _ :: key :: plen :: r0 =>
                       let path := firstn (N.to_nat plen) r0 in
                       let id := resolve_path (S (length path)) s (MultiTree.get_root s key) path 0 in
                       let '(cs, r2) := kids k' (skipn (N.to_nat plen) r0) in (TExisting id :: cs, r2)
                   | _ => ([], l)
                   end
               end) (N.to_nat n) rest in
          (TNode d cs, r)
      | _ => (TNode 0 [], l)
      end
  end.

Fixpoint parse_uops (n : nat) (s : mstate) (l : list N) : list uop * list N :=
  match n with
  | O => ([], l)
  | S n' =>
      match l with
      | 1 :: k :: rest => let '(t, r) := parse_tree (length rest) s rest in
                          let '(ops, r') := parse_uops n' s r in (UInsertTree k t :: ops, r')
      | 2 :: k :: rest => let '(ops, r') := parse_uops n' s rest in (URefTree k :: ops, r')
      | 3 :: k :: rest => let '(ops, r') := parse_uops n' s rest in (UDerefTree k :: ops, r')
      | 4 :: k :: v :: rest => let '(ops, r') := parse_uops n' s rest in (UKvSet k v :: ops, r')
      | 5 :: k :: rest => let '(ops, r') := parse_uops n' s rest in (UKvDel k :: ops, r')
      | 6 :: k :: rest => let '(ops, r') := parse_uops n' s rest in (UBadSet k :: ops, r')
      | _ => ([], l)
      end
  end.

(* canonical dump: nodes are numbered in order of first visit across the whole observation *)
Fixpoint dump_children (fuel : nat) (s : mstate) (ids : list nid) (seen : list nid) : list N * list nid :=
  match fuel with
  | O => ([], seen)
  | S f =>
      match ids with
      | [] => ([], seen)
      | id :: rest =>
          let '(out, seen1) :=
            match (fix idx (l : list nid) (i : N) : option N :=
                     match l with [] => None | x :: r => if x =? id then Some i else idx r (i + 1) end) seen 0 with
            | Some i => ([2; i], seen)
            | None =>
                match MultiTree.get_node s id with
                | None => ([3], seen ++ [id])
                | Some nd =>
                    let '(o, sn) := dump_children f s (n_children nd) (seen ++ [id]) in
                    (1 :: n_data nd :: N.of_nat (length (n_children nd)) :: o, sn)
                end
            end in
          let '(out2, seen2) := dump_children f s rest seen1 in
          (out ++ out2, seen2)
      end
  end.

Fixpoint dump_roots (fuel : nat) (s : mstate) (keys : list N) (seen : list nid) : list N :=
  match keys with
  | [] => []
  | k :: rest =>
      match MultiTree.get_root s k with
      | None => 0 :: dump_roots fuel s rest seen
      | Some r =>
          let '(o, sn) := dump_children fuel s (n_children r) seen in
          (1 :: n_data r :: N.of_nat (length (n_children r)) :: o) ++ dump_roots fuel s rest sn
      end
  end.

Definition mobserve (nkeys : nat) (s : mstate) : list N :=
  let keys := map N.of_nat (seq 0 nkeys) in
  let fuel := (4 + 4 * (length (nodes s) + length (aov s)) * (2 + length (nodes s) + length (aov s)))%nat in
  dump_roots fuel s keys [] ++ map (fun k => opt_tok (get_kv s k)) keys.

Fixpoint mrun_steps (fuel : nat) (cf : mcfg) (cnt : bool) (nkeys : nat) (s : mstate) (l : list N) : list N :=
  match fuel with
  | O => []
  | S f =>
      match l with
      | [] => []
      | code :: rest =>
          let '(s', status, rest', extra) :=
            if code =? 1 then
              match rest with
              | n :: r => let '(ops, r') := parse_uops (N.to_nat n) s r in
                          let '(s1, st) := mcommit_tx cf s ops in (s1, st, r', false)
              | [] => (s, 0, [], false)
              end
            else if code =? 2 then (mprocess cf s, 0, rest, false)
            else if code =? 6 then (mreopen cf s, 0, rest, true)
            else if code =? 7 then (mcrash s, 0, rest, true)
            else if code =? 9 then match rest with k :: r => (mlock s k, 0, r, false) | [] => (s, 0, [], false) end
            else if code =? 10 then match rest with k :: r => (munlock s k, 0, r, false) | [] => (s, 0, [], false) end
            else (s, 0, rest, false) in
          status :: mobserve nkeys s' ++ (if (extra : bool) then [if cnt then num_entries s' else 65535] else []) ++ mrun_steps f cf cnt nkeys s' rest'
      end
  end.

(* debugging aid (kind 110): per step: status, queue length, then per key: stored count of the root (0 = absent) *)
Fixpoint mdebug_steps (fuel : nat) (cf : mcfg) (nkeys : nat) (s : mstate) (l : list N) : list N :=
  match fuel with
  | O => []
  | S f =>
      match l with
      | [] => []
      | code :: rest =>
          let '(s', status, rest') :=
            if code =? 1 then
              match rest with
              | n :: r => let '(ops, r') := parse_uops (N.to_nat n) s r in
                          let '(s1, st) := mcommit_tx cf s ops in (s1, st, r')
              | [] => (s, 0, [])
              end
            else if code =? 2 then (mprocess cf s, 0, rest)
            else if code =? 6 then (mreopen cf s, 0, rest)
            else if code =? 7 then (mcrash s, 0, rest)
            else if code =? 9 then match rest with k :: r => (mlock s k, 0, r) | [] => (s, 0, []) end
            else if code =? 10 then match rest with k :: r => (munlock s k, 0, r) | [] => (s, 0, []) end
            else (s, 0, rest) in
          [9999; code; status; N.of_nat (length (mqueue s'))]
            ++ map (fun k => match alook (roots s') (N.of_nat k) with Some (_, c) => c | None => 0 end) (seq 0 nkeys)
            ++ mdebug_steps f cf nkeys s' rest'
      end
  end.
Definition run_c10_debug (l : list N) : list N :=
  match l with
  | rc :: ao :: cnt :: nkeys :: nsteps :: steps =>
      mdebug_steps (N.to_nat nsteps) {| m_rc := negb (rc =? 0); m_append_only := negb (ao =? 0) |} (N.to_nat nkeys) minit steps
  | _ => err_marker
  end.

Definition run_c10 (l : list N) : list N :=
  match l with
  | rc :: ao :: cnt :: nkeys :: nsteps :: steps =>
      mrun_steps (N.to_nat nsteps) {| m_rc := negb (rc =? 0); m_append_only := negb (ao =? 0) |} (negb (cnt =? 0)) (N.to_nat nkeys) minit steps
  | _ => err_marker
  end.

(* ---- kind 4: dump of an on-disk btree: depth node ; node := nseps inner first? (key child?)* ---- *)
Fixpoint parse_bt (fuel : nat) (l : list N) : bt * list N :=
  match fuel with
  | O => (BNode None [], l)
  | S f =>
      match l with
      | n :: inner :: rest =>
          let has := negb (inner =? 0) in
          let '(first, r0) := if has then let '(c, r) := parse_bt f rest in (Some c, r) else (None, rest) in
          let '(seps, r1) :=
            (fix go (k : nat) (l : list N) : list (N * option bt) * list N :=
               match k with
               | O => ([], l)
               | S k' =>
                   match l with
                   | key :: r =>
                       let '(c, r') := if has then let '(c, r2) := parse_bt f r in (Some c, r2) else (None, r) in
                       let '(more, r'') := go k' r' in ((key, c) :: more, r'')
                   | [] => ([], l)
                   end
               end) (N.to_nat n) r0 in
          (BNode first seps, r1)
      | _ => (BNode None [], l)
      end
  end.
Definition run_c04_tree (l : list N) : list N :=
  match l with
  | depth :: rest =>
      let '(t, _) := parse_bt (S (length rest)) rest in
      (if wf_b (N.to_nat depth) 0 4294967296 t then 1 else 0) :: inorder t
  | _ => err_marker
  end.

(* ---- kind 12: an observed event trace handed to the executable log-discipline protocol.
   n ev* ; ev: 1 len cell* = append of a record with len stores to the given cells (file id * 2^40 + index) |
   2 = log synced | 3 = store | 4 = record done | 5 = all tables flushed | 7 x = table file x flushed |
   6 n = log truncated up to record n.  Output: 1 nrecs synced enacted truncated, or 0 *)
Fixpoint parse_wevs (fuel : nat) (l : list N) : list wev :=
  match fuel with
  | O => []
  | S f =>
      match l with
      | 1 :: len :: r => EAppend {| ws := map (fun c => (c, 0)) (firstn (N.to_nat len) r) |} :: parse_wevs f (skipn (N.to_nat len) r)
      | 2 :: r => ESyncLog :: parse_wevs f r
      | 3 :: r => EStore :: parse_wevs f r
      | 4 :: r => EFinish :: parse_wevs f r
      | 5 :: r => EFlush :: parse_wevs f r
      | 7 :: x :: r => ESyncFile x :: parse_wevs f r
      | 6 :: n :: r => ETruncate (N.to_nat n) :: parse_wevs f r
      | _ => []
      end
  end.
Definition run_c12 (l : list N) : list N :=
  match l with
  | n :: rest =>
      match wrun (parse_wevs (N.to_nat n) rest) (Wal.init (fun _ => 0)) with
      | Some w => [1; N.of_nat (length (recs w)); N.of_nat (Wal.s w); N.of_nat (st w); N.of_nat (t w)]
      | None => [0]
      end
  | _ => err_marker
  end.

(* ---- kind 13: log bytes. 13 1 bytes.. -> crc32 ; 13 2 ncols nfiles (len bytes..)* -> ids the replay applies ---- *)
Definition run_c13 (l : list N) : list N :=
  match l with
  | 1 :: bs => [crc32 bs]
  | 2 :: ncols :: nfiles :: rest => replay_ids ncols (take_names (N.to_nat nfiles) rest)
  | _ => err_marker
  end.

(* ---- kind 14: raw dump of one value table. 14 filled free_head n (class next)* with class 0 free | 1 head |
   2 part | 3 size | 4 unreadable.  Output: ok free-list-length number-of-chains slots-in-chains ---- *)
Fixpoint parse_slots (n : nat) (l : list N) : list rslot :=
  match n, l with
  | S n', c :: nx :: r =>
      (if c =? 0 then RFree nx else if c =? 1 then RHead nx else if c =? 2 then RPart nx else if c =? 3 then RSize else RBad) :: parse_slots n' r
  | _, _ => []
  end.
Definition run_c14 (l : list N) : list N :=
  match l with
  | fl :: fh :: n :: rest =>
      let r := check_table {| filled := fl; free_head := fh; slots := parse_slots (N.to_nat n) rest |} in
      [if t_ok r then 1 else 0; N.of_nat (length (t_free r)); N.of_nat (length (t_chains r)); N.of_nat (length (concat (t_chains r)))]
  | _ => err_marker
  end.

(* ---- kind 114: allocator trace. 114 nops op* ; op: 1 k (a value of k slots is stored) | 2 j (the j-th live
   value, oldest first, is removed). Output after every op: filled, free head, number of slots, (class, next)* ---- *)
Definition enc_slot (s : rslot) : list N :=
  match s with RFree n => [0; n] | RHead n => [1; n] | RPart n => [2; n] | RSize => [3; 0] | RBad => [4; 0] end.
Definition enc_dump (d : tdump) : list N :=
  filled d :: free_head d :: N.of_nat (length (slots d)) :: flat_map enc_slot (slots d).
Fixpoint alloc_trace (fuel : nat) (l : list N) (st : tdump * list (list N)) : list N :=
  match fuel with
  | O => []
  | S f =>
      match l with
      | 1 :: k :: r => let st' := astep st (AStore (N.to_nat k - 1)) in enc_dump (fst st') ++ alloc_trace f r st'
      | 2 :: j :: r => let st' := astep st (ARemove (N.to_nat j)) in enc_dump (fst st') ++ alloc_trace f r st'
      | 3 :: j :: k :: r => let st' := astep st (AReplace (N.to_nat j) (N.to_nat k - 1)) in enc_dump (fst st') ++ alloc_trace f r st'
      | _ => []
      end
  end.
Definition run_c14_alloc (l : list N) : list N :=
  match l with
  | n :: rest => alloc_trace (N.to_nat n) rest (empty_table, [])
  | _ => err_marker
  end.

(* ---- kind 109: index slots. 109 nops op* ; op: 1 key known addr | 2 key known | 3 (reindex batch) | 4 (restart).
   Output after every op: number of generations, then per generation (oldest first, the current one last):
   bits, number of non-empty pages, per page (ascending): page, number of entries, (slot, known, addr)* ---- *)
Fixpoint enc_slots (l : list slot) (i : N) : list N :=
  match l with
  | [] => []
  | Some e :: r => i :: e_known e :: e_addr e :: enc_slots r (i + 1)
  | None :: r => enc_slots r (i + 1)
  end.
Definition enc_gen (g : igen) : list N :=
  let ps := pages_from g 0 in
  g_bits g :: N.of_nat (length ps) ::
  flat_map (fun p => p :: N.of_nat (length (entries_of (get_page g p))) :: enc_slots (get_page g p) 0) ps.
Definition enc_index (st : istate) : list N :=
  N.of_nat (S (length (queue st))) :: flat_map enc_gen (queue st ++ [cur st]).
Fixpoint index_trace (fuel : nat) (l : list N) (st : istate) : list N :=
  match fuel with
  | O => []
  | S f =>
      match l with
      | 1 :: k :: kn :: a :: r => let st' := istep st (ISet k kn a) in enc_index st' ++ index_trace f r st'
      | 2 :: k :: kn :: r => let st' := istep st (IRemove k kn) in enc_index st' ++ index_trace f r st'
      | 11 :: k :: kn :: a :: r => index_trace f r (istep st (ISet k kn a))      (* changes inside a transaction: no dump in between *)
      | 12 :: k :: kn :: r => index_trace f r (istep st (IRemove k kn))
      | 3 :: r => let st' := istep st IReindex in enc_index st' ++ index_trace f r st'
      | 4 :: r => let st' := istep st IRestart in enc_index st' ++ index_trace f r st'
      | _ => []
      end
  end.
Definition run_c09_slots (l : list N) : list N :=
  match l with
  | n :: rest => index_trace (N.to_nat n) rest iinit
  | _ => err_marker
  end.

(* ---- kind 111: reference count tables. 111 bits nops op* ; op: 1 a h (a node gains a reference) | 2 a h (loses one) |
   3 (reindex batch) | 4 (restart); 11 a h / 12 a h: the same inside a transaction (no dump in between).
   Output after every op: number of tables, then per table (oldest first, the current one last):
   bits, number of non-empty chunks, per chunk (ascending): chunk, number of entries, (slot, address, count)* ---- *)
Fixpoint enc_rslots (l : list RcTable.rslot) (i : N) : list N :=
  match l with
  | [] => []
  | Some e :: r => i :: RcTable.r_addr e :: RcTable.r_count e :: enc_rslots r (i + 1)
  | None :: r => enc_rslots r (i + 1)
  end.
Definition enc_rtab (g : RcTable.rtab) : list N :=
  let ps := RcTable.chunks_from g 0 in
  RcTable.t_bits g :: N.of_nat (length ps) ::
  flat_map (fun p => p :: N.of_nat (length (RcTable.chunk_entries (RcTable.get_chunk g p))) :: enc_rslots (RcTable.get_chunk g p) 0) ps.
Definition enc_rstate (st : RcTable.rstate) : list N :=
  N.of_nat (S (length (RcTable.rqueue st))) :: flat_map enc_rtab (RcTable.rqueue st ++ [RcTable.rcur st]).
Fixpoint rc_trace (fuel : nat) (l : list N) (st : RcTable.rstate) : list N :=
  match fuel with
  | O => []
  | S f =>
      match l with
      | 1 :: a :: h :: r => let st' := RcTable.rstep st (RcTable.RInc a h) in enc_rstate st' ++ rc_trace f r st'
      | 2 :: a :: h :: r => let st' := RcTable.rstep st (RcTable.RDec a h) in enc_rstate st' ++ rc_trace f r st'
      | 11 :: a :: h :: r => rc_trace f r (RcTable.rstep st (RcTable.RInc a h))
      | 12 :: a :: h :: r => rc_trace f r (RcTable.rstep st (RcTable.RDec a h))
      | 3 :: r => let st' := RcTable.rstep st RcTable.RReindex in enc_rstate st' ++ rc_trace f r st'
      | 4 :: r => let st' := RcTable.rstep st RcTable.RRestart in enc_rstate st' ++ rc_trace f r st'
      | _ => []
      end
  end.
Definition run_rc_tables (l : list N) : list N :=
  match l with
  | bits :: n :: rest => rc_trace (N.to_nat n) rest (RcTable.rinit bits)
  | _ => err_marker
  end.

(* ---- kind 104: btree mutation. 104 nops (1 k | 2 k)* ; 1 k: key k is set, 2 k: key k is removed (it is there).
   Output after every op: depth, then the tree: node := nseps inner first? (key child?)* ---- *)
Fixpoint enc_btn (fuel : nat) (depth : nat) (t : btn) : list N :=
  match fuel with
  | O => []
  | S f =>
      match t with
      | BT ks cs =>
          match depth with
          | O => N.of_nat (length ks) :: 0 :: ks
          | S d =>
              N.of_nat (length ks) :: 1 :: enc_btn f d (child_at cs 0) ++
              flat_map (fun kc => fst kc :: enc_btn f d (snd kc)) (combine ks (tl cs))
          end
      end
  end.
Fixpoint btree_trace (fuel : nat) (l : list N) (st : nat * btn) : list N :=
  match fuel with
  | O => []
  | S f =>
      match l with
      | 1 :: k :: r => let st' := bstep st (BSet k) in N.of_nat (fst st') :: enc_btn (S (S (fst st'))) (fst st') (snd st') ++ btree_trace f r st'
      | 2 :: k :: r => let st' := bstep st (BDel k) in N.of_nat (fst st') :: enc_btn (S (S (fst st'))) (fst st') (snd st') ++ btree_trace f r st'
      | 3 :: k :: r => btree_trace f r (bstep st (BSet k))      (* a change inside a transaction: no dump in between *)
      | 4 :: k :: r => btree_trace f r (bstep st (BDel k))
      | _ => []
      end
  end.
Definition run_c04_mut (l : list N) : list N :=
  match l with
  | n :: rest => btree_trace (N.to_nat n) rest binit
  | _ => err_marker
  end.

(* ---- kind 18: lock protocol. 18 n op* ; op: 1 h open | 2 h drop | 3 h kill | 4 h c write.
   Output: one result per op, 99, the live handles, 98, the content ---- *)
Fixpoint parse_lops (fuel : nat) (l : list N) : list lop :=
  match fuel with
  | O => []
  | S f =>
      match l with
      | 1 :: h :: r => LOpen h :: parse_lops f r
      | 2 :: h :: r => LDrop h :: parse_lops f r
      | 3 :: h :: r => LKill h :: parse_lops f r
      | 4 :: h :: c :: r => LWrite h c :: parse_lops f r
      | _ => []
      end
  end.
Definition run_c18 (l : list N) : list N :=
  match l with
  | n :: rest =>
      let ops := parse_lops (N.to_nat n) rest in
      let s0 := {| holder := None; content := 0 |} in
      let '(s, xs) := lrun s0 ops in
      xs ++ [99] ++ live s0 ops [] ++ [98; content s]
  | _ => err_marker
  end.

(* ---- kind 5: the specification function of C05. 5 ncommits, per commit: nkv then nkv pairs k v; then nq and nq pairs tau k. Output: spec value per query ---- *)
Fixpoint parse_kvs (n : nat) (l : list N) : list (N * N) * list N :=
  match n, l with
  | S n', k :: v :: r => let '(kvs, r') := parse_kvs n' r in ((k, v) :: kvs, r')
  | _, _ => ([], l)
  end.
Fixpoint parse_commits (n : nat) (l : list N) : list (list (N * N)) * list N :=
  match n, l with
  | S n', nkv :: r => let '(c, r1) := parse_kvs (N.to_nat nkv) r in let '(cs, r2) := parse_commits n' r1 in (c :: cs, r2)
  | _, _ => ([], l)
  end.
Definition run_c05 (l : list N) : list N :=
  match l with
  | nc :: rest =>
      let '(cs, r) := parse_commits (N.to_nat nc) rest in
      match r with
      | nq :: qs => map (fun q => Readers.spec cs (N.to_nat (fst q)) (snd q)) (fst (parse_kvs (N.to_nat nq) qs))
      | [] => err_marker
      end
  | _ => err_marker
  end.

Definition dispatch (l : list N) : list N :=
  match l with
  | 19 :: rest => run_c19 rest
  | 1 :: rest => run_hist rest
  | 17 :: rest => run_c17 rest
  | 9 :: rest => run_c09 rest
  | 13 :: rest => run_c13 rest
  | 14 :: rest => run_c14 rest
  | 114 :: rest => run_c14_alloc rest
  | 109 :: rest => run_c09_slots rest
  | 111 :: rest => run_rc_tables rest
  | 104 :: rest => run_c04_mut rest
  | 5 :: rest => run_c05 rest
  | 18 :: rest => run_c18 rest
  | 12 :: rest => run_c12 rest
  | 4 :: rest => run_c04_tree rest
  | 10 :: rest => run_c10 rest
  | 110 :: rest => run_c10_debug rest
  | 6 :: rest => run_c06 rest
  | 20 :: rest => run_c20 rest
  | _ => err_marker
  end.
