(* Decoding of correspondence cases, in Gallina, so that the extracted driver and a
   [vm_compute] evaluation inside coqc run exactly the same function.
   A case is a list of numbers; the first is the case kind. *)
From Coq Require Import NArith List Bool.
From PDB Require Import Model.IndexPage Model.Pipeline.
Import ListNotations.
Open Scope N_scope.

Definition err_marker : list N := [16777215; 16777215].

(* kind 19: bits kp start e0 .. e63  ->  fast entry, fast position, scalar entry, scalar position *)
Definition run_c19 (l : list N) : list N :=
  match l with
  | bits :: kp :: start :: chunk =>
      let '(e1, i1) := find_entry_sse2 bits kp (N.to_nat start) chunk in
      let '(e2, i2) := find_entry_base bits kp (N.to_nat start) chunk in
      [e1; N.of_nat i1; e2; N.of_nat i2]
  | _ => err_marker
  end.

(* ---- kind 1: pipeline history ---- *)
Fixpoint take_cfg (n : nat) (l : list N) : list ccfg * list N :=
  match n, l with
  | S n', f :: rest =>
      let '(cs, r) := take_cfg n' rest in
      ({| c_btree := N.testbit f 0; c_rc := N.testbit f 1; c_preimage := N.testbit f 2 |} :: cs, r)
  | _, _ => ([], l)
  end.

Fixpoint take_ops (n : nat) (l : list N) : tx * list N :=
  match n, l with
  | S n', c :: o :: k :: v :: rest =>
      let '(ops, r) := take_ops n' rest in
      let op := if o =? 0 then OSet k v else if o =? 1 then ODeref k else ORef k in
      ((c, op) :: ops, r)
  | _, _ => ([], l)
  end.

Definition opt_tok (o : option N) : N := match o with Some v => v + 1 | None => 0 end.

Definition observe (ncols nkeys : nat) (s : pstate) : list N :=
  flat_map (fun c => flat_map (fun k => [opt_tok (get s (N.of_nat c) (N.of_nat k));
                                         opt_tok (get_size s (N.of_nat c) (N.of_nat k))])
                              (seq 0 nkeys)) (seq 0 ncols).

(* after a reopen: the stored count of every key of every hash counted column, then the number of
   stray values (always 0 in the model) *)
Definition observe_rc (cfg : list ccfg) (nkeys : nat) (s : pstate) : list N :=
  flat_map (fun c => let cf := cfg_of cfg (N.of_nat c) in
                     if c_rc cf && negb (c_btree cf)
                     then map (fun k => stored_rc s (N.of_nat c) (N.of_nat k)) (seq 0 nkeys) ++ [0]
                     else []) (seq 0 (length cfg)).

Fixpoint run_steps (fuel : nat) (cfg : list ccfg) (nkeys : nat) (s : pstate) (l : list N) : list N :=
  match fuel with
  | O => []
  | S f =>
      match l with
      | [] => []
      | code :: rest =>
          let '(st, rest') :=
            if code =? 1 then
              match rest with
              | n :: r => let '(ops, r') := take_ops (N.to_nat n) r in (SCommit ops, r')
              | [] => (SProcess, [])
              end
            else if code =? 2 then (SProcess, rest)
            else if code =? 3 then (SFlush, rest)
            else if code =? 4 then (SEnactAll, rest)
            else if code =? 5 then (SClean, rest)
            else if code =? 6 then (SReopen, rest)
            else (SEnactOne, rest) in
          let '(s', status) := do_step cfg s st in
          status :: observe (length cfg) nkeys s'
            ++ (match st with SReopen => observe_rc cfg nkeys s' | _ => [] end)
            ++ run_steps f cfg nkeys s' rest'
      end
  end.

Definition run_hist (l : list N) : list N :=
  match l with
  | ncols :: rest =>
      let '(cfg, rest1) := take_cfg (N.to_nat ncols) rest in
      match rest1 with
      | nkeys :: nsteps :: steps => run_steps (N.to_nat nsteps) cfg (N.to_nat nkeys) init steps
      | _ => err_marker
      end
  | _ => err_marker
  end.

Definition dispatch (l : list N) : list N :=
  match l with
  | 19 :: rest => run_c19 rest
  | 1 :: rest => run_hist rest
  | _ => err_marker
  end.
