(* Decoding of correspondence cases, in Gallina, so that the extracted driver and a
   [vm_compute] evaluation inside coqc run exactly the same function.
   A case is a list of numbers; the first is the case kind. *)
From Coq Require Import NArith List.
From PDB Require Import Model.IndexPage.
Import ListNotations.
Open Scope N_scope.

Definition err_marker : list N := [16777215; 16777215].

(* kind 19: bits kp start e0 .. e63  ->  fast entry, fast position, scalar entry, scalar position *)
Definition run_c19 (l : list N) : list N :=
  match l with
  | bits :: kp :: start :: chunk =>
      let '(e1, i1) := find_entry_sse2 bits kp (N.to_nat start) chunk in
      let '(e2, i2) := find_entry_base bits kp (N.to_nat start) chunk in
      [e1; N.of_nat i1; e2; N.of_nat i2]
  | _ => err_marker
  end.

Definition dispatch (l : list N) : list N :=
  match l with
  | 19 :: rest => run_c19 rest
  | _ => err_marker
  end.
