From Coq Require Import Extraction ExtrOcamlBasic.
From PDB Require Import Extract.Dispatch.
Extraction Language OCaml.
Extraction "../driver/model.ml" dispatch.
