
(** val negb : bool -> bool **)

let negb = function
| true -> false
| false -> true

type nat =
| O
| S of nat

(** val fst : ('a1 * 'a2) -> 'a1 **)

let fst = function
| (x, _) -> x

(** val snd : ('a1 * 'a2) -> 'a2 **)

let snd = function
| (_, y) -> y

type comparison =
| Eq
| Lt
| Gt

(** val add : nat -> nat -> nat **)

let rec add n0 m =
  match n0 with
  | O -> m
  | S p -> S (add p m)

(** val mul : nat -> nat -> nat **)

let rec mul n0 m =
  match n0 with
  | O -> O
  | S p -> add m (mul p m)

(** val sub : nat -> nat -> nat **)

let rec sub n0 m =
  match n0 with
  | O -> n0
  | S k -> (match m with
            | O -> n0
            | S l -> sub k l)

(** val divmod : nat -> nat -> nat -> nat -> nat * nat **)

let rec divmod x y q u =
  match x with
  | O -> (q, u)
  | S x' -> (match u with
             | O -> divmod x' y (S q) y
             | S u' -> divmod x' y q u')

(** val div : nat -> nat -> nat **)

let div x y = match y with
| O -> y
| S y' -> fst (divmod x y' O y')

type positive =
| XI of positive
| XO of positive
| XH

type n =
| N0
| Npos of positive

module Pos =
 struct
  type mask =
  | IsNul
  | IsPos of positive
  | IsNeg
 end

module Coq_Pos =
 struct
  (** val succ : positive -> positive **)

  let rec succ = function
  | XI p -> XO (succ p)
  | XO p -> XI p
  | XH -> XO XH

  (** val add : positive -> positive -> positive **)

  let rec add x y =
    match x with
    | XI p ->
      (match y with
       | XI q -> XO (add_carry p q)
       | XO q -> XI (add p q)
       | XH -> XO (succ p))
    | XO p ->
      (match y with
       | XI q -> XI (add p q)
       | XO q -> XO (add p q)
       | XH -> XI p)
    | XH -> (match y with
             | XI q -> XO (succ q)
             | XO q -> XI q
             | XH -> XO XH)

  (** val add_carry : positive -> positive -> positive **)

  and add_carry x y =
    match x with
    | XI p ->
      (match y with
       | XI q -> XI (add_carry p q)
       | XO q -> XO (add_carry p q)
       | XH -> XI (succ p))
    | XO p ->
      (match y with
       | XI q -> XO (add_carry p q)
       | XO q -> XI (add p q)
       | XH -> XO (succ p))
    | XH ->
      (match y with
       | XI q -> XI (succ q)
       | XO q -> XO (succ q)
       | XH -> XI XH)

  (** val pred_double : positive -> positive **)

  let rec pred_double = function
  | XI p -> XI (XO p)
  | XO p -> XI (pred_double p)
  | XH -> XH

  type mask = Pos.mask =
  | IsNul
  | IsPos of positive
  | IsNeg

  (** val succ_double_mask : mask -> mask **)

  let succ_double_mask = function
  | IsNul -> IsPos XH
  | IsPos p -> IsPos (XI p)
  | IsNeg -> IsNeg

  (** val double_mask : mask -> mask **)

  let double_mask = function
  | IsPos p -> IsPos (XO p)
  | x0 -> x0

  (** val double_pred_mask : positive -> mask **)

  let double_pred_mask = function
  | XI p -> IsPos (XO (XO p))
  | XO p -> IsPos (XO (pred_double p))
  | XH -> IsNul

  (** val sub_mask : positive -> positive -> mask **)

  let rec sub_mask x y =
    match x with
    | XI p ->
      (match y with
       | XI q -> double_mask (sub_mask p q)
       | XO q -> succ_double_mask (sub_mask p q)
       | XH -> IsPos (XO p))
    | XO p ->
      (match y with
       | XI q -> succ_double_mask (sub_mask_carry p q)
       | XO q -> double_mask (sub_mask p q)
       | XH -> IsPos (pred_double p))
    | XH -> (match y with
             | XH -> IsNul
             | _ -> IsNeg)

  (** val sub_mask_carry : positive -> positive -> mask **)

  and sub_mask_carry x y =
    match x with
    | XI p ->
      (match y with
       | XI q -> succ_double_mask (sub_mask_carry p q)
       | XO q -> double_mask (sub_mask p q)
       | XH -> IsPos (pred_double p))
    | XO p ->
      (match y with
       | XI q -> double_mask (sub_mask_carry p q)
       | XO q -> succ_double_mask (sub_mask_carry p q)
       | XH -> double_pred_mask p)
    | XH -> IsNeg

  (** val mul : positive -> positive -> positive **)

  let rec mul x y =
    match x with
    | XI p -> add y (XO (mul p y))
    | XO p -> XO (mul p y)
    | XH -> y

  (** val iter : ('a1 -> 'a1) -> 'a1 -> positive -> 'a1 **)

  let rec iter f x = function
  | XI n' -> f (iter f (iter f x n') n')
  | XO n' -> iter f (iter f x n') n'
  | XH -> f x

  (** val pow : positive -> positive -> positive **)

  let pow x =
    iter (mul x) XH

  (** val compare_cont : comparison -> positive -> positive -> comparison **)

  let rec compare_cont r x y =
    match x with
    | XI p ->
      (match y with
       | XI q -> compare_cont r p q
       | XO q -> compare_cont Gt p q
       | XH -> Gt)
    | XO p ->
      (match y with
       | XI q -> compare_cont Lt p q
       | XO q -> compare_cont r p q
       | XH -> Gt)
    | XH -> (match y with
             | XH -> r
             | _ -> Lt)

  (** val compare : positive -> positive -> comparison **)

  let compare =
    compare_cont Eq

  (** val eqb : positive -> positive -> bool **)

  let rec eqb p q =
    match p with
    | XI p0 -> (match q with
                | XI q0 -> eqb p0 q0
                | _ -> false)
    | XO p0 -> (match q with
                | XO q0 -> eqb p0 q0
                | _ -> false)
    | XH -> (match q with
             | XH -> true
             | _ -> false)

  (** val shiftl : positive -> n -> positive **)

  let shiftl p = function
  | N0 -> p
  | Npos n1 -> iter (fun x -> XO x) p n1

  (** val of_succ_nat : nat -> positive **)

  let rec of_succ_nat = function
  | O -> XH
  | S x -> succ (of_succ_nat x)
 end

module N =
 struct
  (** val succ_double : n -> n **)

  let succ_double = function
  | N0 -> Npos XH
  | Npos p -> Npos (XI p)

  (** val double : n -> n **)

  let double = function
  | N0 -> N0
  | Npos p -> Npos (XO p)

  (** val add : n -> n -> n **)

  let add n0 m =
    match n0 with
    | N0 -> m
    | Npos p -> (match m with
                 | N0 -> n0
                 | Npos q -> Npos (Coq_Pos.add p q))

  (** val sub : n -> n -> n **)

  let sub n0 m =
    match n0 with
    | N0 -> N0
    | Npos n' ->
      (match m with
       | N0 -> n0
       | Npos m' ->
         (match Coq_Pos.sub_mask n' m' with
          | Coq_Pos.IsPos p -> Npos p
          | _ -> N0))

  (** val mul : n -> n -> n **)

  let mul n0 m =
    match n0 with
    | N0 -> N0
    | Npos p -> (match m with
                 | N0 -> N0
                 | Npos q -> Npos (Coq_Pos.mul p q))

  (** val compare : n -> n -> comparison **)

  let compare n0 m =
    match n0 with
    | N0 -> (match m with
             | N0 -> Eq
             | Npos _ -> Lt)
    | Npos n' -> (match m with
                  | N0 -> Gt
                  | Npos m' -> Coq_Pos.compare n' m')

  (** val eqb : n -> n -> bool **)

  let eqb n0 m =
    match n0 with
    | N0 -> (match m with
             | N0 -> true
             | Npos _ -> false)
    | Npos p -> (match m with
                 | N0 -> false
                 | Npos q -> Coq_Pos.eqb p q)

  (** val leb : n -> n -> bool **)

  let leb x y =
    match compare x y with
    | Gt -> false
    | _ -> true

  (** val max : n -> n -> n **)

  let max n0 n' =
    match compare n0 n' with
    | Gt -> n0
    | _ -> n'

  (** val div2 : n -> n **)

  let div2 = function
  | N0 -> N0
  | Npos p0 -> (match p0 with
                | XI p -> Npos p
                | XO p -> Npos p
                | XH -> N0)

  (** val pow : n -> n -> n **)

  let pow n0 = function
  | N0 -> Npos XH
  | Npos p0 -> (match n0 with
                | N0 -> N0
                | Npos q -> Npos (Coq_Pos.pow q p0))

  (** val pos_div_eucl : positive -> n -> n * n **)

  let rec pos_div_eucl a b =
    match a with
    | XI a' ->
      let (q, r) = pos_div_eucl a' b in
      let r' = succ_double r in
      if leb b r' then ((succ_double q), (sub r' b)) else ((double q), r')
    | XO a' ->
      let (q, r) = pos_div_eucl a' b in
      let r' = double r in
      if leb b r' then ((succ_double q), (sub r' b)) else ((double q), r')
    | XH ->
      (match b with
       | N0 -> (N0, (Npos XH))
       | Npos p -> (match p with
                    | XH -> ((Npos XH), N0)
                    | _ -> (N0, (Npos XH))))

  (** val div_eucl : n -> n -> n * n **)

  let div_eucl a b =
    match a with
    | N0 -> (N0, N0)
    | Npos na -> (match b with
                  | N0 -> (N0, a)
                  | Npos _ -> pos_div_eucl na b)

  (** val div : n -> n -> n **)

  let div a b =
    fst (div_eucl a b)

  (** val modulo : n -> n -> n **)

  let modulo a b =
    snd (div_eucl a b)

  (** val shiftl : n -> n -> n **)

  let shiftl a n0 =
    match a with
    | N0 -> N0
    | Npos a0 -> Npos (Coq_Pos.shiftl a0 n0)

  (** val shiftr : n -> n -> n **)

  let shiftr a = function
  | N0 -> a
  | Npos p -> Coq_Pos.iter div2 a p

  (** val of_nat : nat -> n **)

  let of_nat = function
  | O -> N0
  | S n' -> Npos (Coq_Pos.of_succ_nat n')
 end

(** val nth : nat -> 'a1 list -> 'a1 -> 'a1 **)

let rec nth n0 l default =
  match n0 with
  | O -> (match l with
          | [] -> default
          | x :: _ -> x)
  | S m -> (match l with
            | [] -> default
            | _ :: t -> nth m t default)

(** val map : ('a1 -> 'a2) -> 'a1 list -> 'a2 list **)

let rec map f = function
| [] -> []
| a :: t -> (f a) :: (map f t)

(** val table_size_tiers_bits : n **)

let table_size_tiers_bits =
  Npos (XO (XO (XO XH)))

(** val index_chunk_entries_bits : n **)

let index_chunk_entries_bits =
  Npos (XO (XI XH))

(** val m64 : n **)

let m64 =
  N.pow (Npos (XO XH)) (Npos (XO (XO (XO (XO (XO (XO XH)))))))

(** val address_bits : n -> n **)

let address_bits bits =
  N.add (N.add bits index_chunk_entries_bits) table_size_tiers_bits

(** val pk_of : n -> n -> n **)

let pk_of bits e =
  N.shiftr e (address_bits bits)

(** val shl64 : n -> n -> n **)

let shl64 x s =
  N.modulo (N.shiftl x s) m64

(** val extract_key : n -> n -> n **)

let extract_key bits kp =
  N.shiftr (shl64 kp bits) (address_bits bits)

(** val entry_at : n list -> nat -> n **)

let entry_at chunk i =
  nth i chunk N0

(** val first_from : (n -> bool) -> n list -> nat -> nat -> nat option **)

let rec first_from p chunk start = function
| O -> None
| S f ->
  if p (entry_at chunk start)
  then Some start
  else first_from p chunk (S start) f

(** val answer : n list -> nat option -> n * nat **)

let answer chunk = function
| Some i -> ((entry_at chunk i), i)
| None -> (N0, O)

(** val base_match : n -> n -> n -> bool **)

let base_match bits kp e =
  (&&) (N.eqb (pk_of bits e) (extract_key bits kp)) (negb (N.eqb e N0))

(** val find_entry_base : n -> n -> nat -> n list -> n * nat **)

let find_entry_base bits kp start chunk =
  answer chunk
    (first_from (base_match bits kp) chunk start
      (sub (S (S (S (S (S (S (S (S (S (S (S (S (S (S (S (S (S (S (S (S (S (S
        (S (S (S (S (S (S (S (S (S (S (S (S (S (S (S (S (S (S (S (S (S (S (S
        (S (S (S (S (S (S (S (S (S (S (S (S (S (S (S (S (S (S (S
        O))))))))))))))))))))))))))))))))))))))))))))))))))))))))))))))))
        start))

(** val sse_shift : n -> n **)

let sse_shift bits =
  N.max (Npos (XO (XO (XO (XO (XO XH)))))) (address_bits bits)

(** val sse_pk : n -> n -> n **)

let sse_pk bits kp =
  N.shiftr (shl64 kp bits) (sse_shift bits)

(** val lo32 : n -> n **)

let lo32 x =
  N.modulo x (N.pow (Npos (XO XH)) (Npos (XO (XO (XO (XO (XO XH)))))))

(** val hi32 : n -> n **)

let hi32 x =
  N.modulo
    (N.div x (N.pow (Npos (XO XH)) (Npos (XO (XO (XO (XO (XO XH))))))))
    (N.pow (Npos (XO XH)) (Npos (XO (XO (XO (XO (XO XH)))))))

(** val load2 : n -> n -> n list **)

let load2 e0 e1 =
  (lo32 e0) :: ((hi32 e0) :: ((lo32 e1) :: ((hi32 e1) :: [])))

(** val srl_epi64 : n list -> n -> n list **)

let srl_epi64 v s =
  match v with
  | [] -> v
  | a :: l ->
    (match l with
     | [] -> v
     | b :: l0 ->
       (match l0 with
        | [] -> v
        | c :: l1 ->
          (match l1 with
           | [] -> v
           | d :: l2 ->
             (match l2 with
              | [] ->
                let x =
                  N.shiftr
                    (N.add a
                      (N.mul b
                        (N.pow (Npos (XO XH)) (Npos (XO (XO (XO (XO (XO
                          XH))))))))) s
                in
                let y =
                  N.shiftr
                    (N.add c
                      (N.mul d
                        (N.pow (Npos (XO XH)) (Npos (XO (XO (XO (XO (XO
                          XH))))))))) s
                in
                (lo32 x) :: ((hi32 x) :: ((lo32 y) :: ((hi32 y) :: [])))
              | _ :: _ -> v))))

(** val shuffle_d8 : n list -> n list **)

let shuffle_d8 v = match v with
| [] -> v
| a :: l ->
  (match l with
   | [] -> v
   | b :: l0 ->
     (match l0 with
      | [] -> v
      | c :: l1 ->
        (match l1 with
         | [] -> v
         | d :: l2 ->
           (match l2 with
            | [] -> a :: (c :: (b :: (d :: [])))
            | _ :: _ -> v))))

(** val unpacklo_epi64 : n list -> n list -> n list **)

let unpacklo_epi64 v w =
  match v with
  | [] -> v
  | a :: l ->
    (match l with
     | [] -> v
     | b :: l0 ->
       (match l0 with
        | [] -> v
        | _ :: l1 ->
          (match l1 with
           | [] -> v
           | _ :: l2 ->
             (match l2 with
              | [] ->
                (match w with
                 | [] -> v
                 | c :: l3 ->
                   (match l3 with
                    | [] -> v
                    | d :: l4 ->
                      (match l4 with
                       | [] -> v
                       | _ :: l5 ->
                         (match l5 with
                          | [] -> v
                          | _ :: l6 ->
                            (match l6 with
                             | [] -> a :: (b :: (c :: (d :: [])))
                             | _ :: _ -> v)))))
              | _ :: _ -> v))))

(** val cmpeq_epi32 : n list -> n -> bool list **)

let cmpeq_epi32 v t =
  map (fun x -> N.eqb x t) v

(** val movemask_epi8 : bool list -> n **)

let movemask_epi8 = function
| [] -> N0
| b0 :: l ->
  (match l with
   | [] -> N0
   | b1 :: l0 ->
     (match l0 with
      | [] -> N0
      | b2 :: l1 ->
        (match l1 with
         | [] -> N0
         | b3 :: l2 ->
           (match l2 with
            | [] ->
              N.add
                (N.add
                  (N.add (if b0 then Npos (XI (XI (XI XH))) else N0)
                    (if b1
                     then Npos (XO (XO (XO (XO (XI (XI (XI XH)))))))
                     else N0))
                  (if b2
                   then Npos (XO (XO (XO (XO (XO (XO (XO (XO (XI (XI (XI
                          XH)))))))))))
                   else N0))
                (if b3
                 then Npos (XO (XO (XO (XO (XO (XO (XO (XO (XO (XO (XO (XO
                        (XI (XI (XI XH)))))))))))))))
                 else N0)
            | _ :: _ -> N0))))

(** val ctz_pos : positive -> nat **)

let rec ctz_pos = function
| XO q -> S (ctz_pos q)
| _ -> O

(** val trailing_zeros : n -> nat **)

let trailing_zeros = function
| N0 ->
  S (S (S (S (S (S (S (S (S (S (S (S (S (S (S (S (S (S (S (S (S (S (S (S (S
    (S (S (S (S (S (S (S O)))))))))))))))))))))))))))))))
| Npos p -> ctz_pos p

(** val group_cmp : n -> n -> n list -> nat -> n **)

let group_cmp bits kp chunk i =
  let s = sse_shift bits in
  let first_two =
    shuffle_d8
      (srl_epi64 (load2 (entry_at chunk i) (entry_at chunk (add i (S O)))) s)
  in
  let last_two =
    shuffle_d8
      (srl_epi64
        (load2 (entry_at chunk (add i (S (S O))))
          (entry_at chunk (add i (S (S (S O)))))) s)
  in
  let current = unpacklo_epi64 first_two last_two in
  movemask_epi8 (cmpeq_epi32 current (lo32 (sse_pk bits kp)))

(** val sse_loop : n -> n -> n list -> nat -> nat -> nat -> n * nat **)

let rec sse_loop bits kp chunk i skip = function
| O -> (N0, O)
| S g ->
  let cmp =
    N.shiftr (group_cmp bits kp chunk i)
      (N.of_nat (mul skip (S (S (S (S O))))))
  in
  if N.eqb cmp N0
  then sse_loop bits kp chunk (add i (S (S (S (S O))))) O g
  else let position =
         add (add i skip) (div (trailing_zeros cmp) (S (S (S (S O)))))
       in
       ((entry_at chunk position), position)

(** val find_entry_sse2 : n -> n -> nat -> n list -> n * nat **)

let find_entry_sse2 bits kp start chunk =
  if N.eqb (sse_pk bits kp) N0
  then find_entry_base bits kp start chunk
  else let i = mul (div start (S (S (S (S O))))) (S (S (S (S O)))) in
       sse_loop bits kp chunk i (sub start i)
         (div
           (sub (S (S (S (S (S (S (S (S (S (S (S (S (S (S (S (S (S (S (S (S
             (S (S (S (S (S (S (S (S (S (S (S (S (S (S (S (S (S (S (S (S (S
             (S (S (S (S (S (S (S (S (S (S (S (S (S (S (S (S (S (S (S (S (S
             (S (S
             O))))))))))))))))))))))))))))))))))))))))))))))))))))))))))))))))
             i) (S (S (S (S O)))))

(** val lane_of : n -> n -> n **)

let lane_of bits e =
  lo32 (N.shiftr e (sse_shift bits))

(** val fast_match : n -> n -> n -> bool **)

let fast_match bits kp e =
  if N.eqb (sse_pk bits kp) N0
  then base_match bits kp e
  else N.eqb (lane_of bits e) (sse_pk bits kp)

(** val find_spec : n -> n -> nat -> n list -> n * nat **)

let find_spec bits kp start chunk =
  answer chunk
    (first_from (fast_match bits kp) chunk start
      (sub (S (S (S (S (S (S (S (S (S (S (S (S (S (S (S (S (S (S (S (S (S (S
        (S (S (S (S (S (S (S (S (S (S (S (S (S (S (S (S (S (S (S (S (S (S (S
        (S (S (S (S (S (S (S (S (S (S (S (S (S (S (S (S (S (S (S
        O))))))))))))))))))))))))))))))))))))))))))))))))))))))))))))))))
        start))
