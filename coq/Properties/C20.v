(* C20 - Migration copies every key, value and reference count. *)
From Coq Require Import NArith List Bool Lia.
From PDB Require Import Model.Pipeline Model.IndexPage Model.Migrate Model.MigrateDriver Proofs.MigrateProofs Proofs.MigrateDriverProofs Proofs.IndexEntryProofs.
Import ListNotations.
Open Scope N_scope.

(* For every source content with distinct keys and every destination column configuration
   (counting or not, preimage or not): after the migration has issued, for each source entry
   (key, value, count), [count] Sets of (key, value), the destination holds for every key exactly
   the source value, with the source count when the destination counts (and count one otherwise),
   and holds nothing for keys the source does not have. *)
Theorem C20_content_preserved :
  forall (dcf : ccfg) (c : col) (src : scontent) (k : key), keys_distinct src ->
  migrate_col dcf c src k =
  match lookup_src src k with Some (v, rc) => expected dcf v rc | None => None end.
Proof. exact content_preserved. Qed.

(* The key handed to the destination is rebuilt from the index page number, the stored partial key
   (first 6 bytes) and the 26-byte tail stored with the value: the first 48 bits of the recovered
   prefix are the first 48 bits of the source's hashed key, for every index size. *)
Theorem C20_key_recovered : forall bits kp addr, 16 <= bits <= 49 -> kp < m64 ->
  addr < 2 ^ address_bits bits ->
  recover_key_prefix bits (chunk_index bits kp) (entry_new bits addr (extract_key bits kp)) / 2^16
  = kp / 2^16.
Proof.
  intros bits kp addr Hb Hk Ha. rewrite (key_recovered bits kp addr Hb Hk Ha).
  replace (2^16) with (2^14 * 2^2) by reflexivity.
  rewrite <- !N.div_div by (apply N.pow_nonzero; discriminate).
  rewrite N.div_mul by (apply N.pow_nonzero; discriminate). reflexivity.
Qed.

(* Non-vacuity: counts 3 and 1 into a non-counting, non-preimage destination and into a counting one. *)
Example C20_nonvacuous :
  let src : scontent := [(5, (77, 3)); (6, (88, 1))] in
  keys_distinct src /\
  migrate_col {| c_btree := false; c_rc := false; c_preimage := false |} 0 src 5 = Some (77, 1) /\
  migrate_col {| c_btree := false; c_rc := true; c_preimage := true |} 0 src 5 = Some (77, 3) /\
  migrate_col {| c_btree := false; c_rc := true; c_preimage := true |} 0 src 9 = None.
Proof. cbn [keys_distinct]. split; [split; [intros e [<-|[]]; discriminate|split; [intros e []|exact I]]|]. vm_compute. repeat split; reflexivity. Qed.

(* ---- the whole call: [migrate from to overwrite force_migrate] (Model/MigrateDriver.v) ----
   Columns are re-populated when forced or when their options differ, copied as files otherwise; ONE change
   set is filled across columns and committed whenever it holds [n] operations (COMMIT_SIZE), the remainder
   at the end. For EVERY batch size n (0 = never full), every number of columns, every selection:

   without overwrite the source is unchanged and the destination holds, in every selected column, exactly the
   source's keys with their values and counts ([migrated_col] = the right-hand side of C20_content_preserved),
   in every other column of the call the source's column, and nothing elsewhere. *)
Theorem C20_whole_call_without_overwrite :
  forall (n : nat) (cols : list mcol) (srcs : list scontent) (S S' D' : db), all_distinct srcs ->
  migrate_driver n cols (length cols) false srcs S = MgOk S' D' ->
  S' = S /\ forall c k, D' c k = spec_db 0 cols srcs S empty_db c k.
Proof. exact driver_copy_mode. Qed.

(* with in-place overwrite the SOURCE directory ends up with the same content (selected columns re-populated
   under the new options, the others untouched, columns outside the call untouched) and the scratch
   destination is left empty *)
Theorem C20_whole_call_with_overwrite :
  forall (n : nat) (cols : list mcol) (srcs : list scontent) (S S' D' : db), all_distinct srcs ->
  migrate_driver n cols (length cols) true srcs S = MgOk S' D' ->
  forall c k, S' c k = spec_db 0 cols srcs S S c k /\ D' c k = None.
Proof. exact driver_overwrite_mode. Qed.

(* the two theorems above leave the source [S] and its enumeration [srcs] unrelated; with S the database that [srcs]
   enumerates and well-formed source columns (no entry with count 0, count 1 where the column does not count) EVERY column
   of the call - re-populated or copied - ends with exactly the source's keys, values and counts *)
Theorem C20_every_column_holds_the_source :
  forall n cols srcs S' D', all_distinct srcs ->
  (forall i, (i < length cols)%nat -> wf_src (cfg_of_flags (m_sf (nth i cols mcol0))) (nth i srcs [])) ->
  migrate_driver n cols (length cols) false srcs (src_db srcs) = MgOk S' D' ->
  forall c k, c < N.of_nat (length cols) ->
  D' c k = migrated_col (nth (N.to_nat c) cols mcol0) (nth (N.to_nat c) srcs []) k.
Proof. exact whole_call_uniform. Qed.

(* the same in place: with overwrite the SOURCE directory ends with every column of the call holding the source's keys,
   values and counts under the new options, and every column outside the call exactly as it was *)
Theorem C20_every_column_holds_the_source_in_place :
  forall n cols srcs S' D', all_distinct srcs ->
  (forall i, (i < length cols)%nat -> wf_src (cfg_of_flags (m_sf (nth i cols mcol0))) (nth i srcs [])) ->
  migrate_driver n cols (length cols) true srcs (src_db srcs) = MgOk S' D' ->
  forall c k, (c < N.of_nat (length cols) ->
               S' c k = migrated_col (nth (N.to_nat c) cols mcol0) (nth (N.to_nat c) srcs []) k) /\
              (N.of_nat (length cols) <= c -> S' c k = src_db srcs c k).
Proof. exact whole_call_uniform_in_place. Qed.

(* [spec_db] read column by column *)
Theorem C20_result_column_by_column : forall cols c0 srcs S base c,
  spec_db c0 cols srcs S base c =
  if (c0 <=? c) && (c <? c0 + N.of_nat (length cols)) then
    let i := N.to_nat (c - c0) in
    if selected (nth i cols {| m_sf := 0; m_df := 0; m_force := false |}) then
      migrated_col (nth i cols {| m_sf := 0; m_df := 0; m_force := false |}) (nth i srcs [])
    else S c
  else base c.
Proof. exact spec_db_nth. Qed.

(* where the change set is cut makes no difference: committing the batches and then the remainder leaves every
   column as one commit of everything would *)
Theorem C20_batch_boundaries_are_invisible :
  forall cfgs n ops cur bs r D c, batches_of n cur ops = (bs, r) ->
  apply_db cfgs r (apply_batches cfgs bs D) c = apply_db cfgs (cur ++ ops) D c.
Proof. exact batches_are_one_commit. Qed.

(* the call is refused exactly when the column counts differ or a selected column is (or is to become) a btree
   column; a refused call yields no database at all *)
Theorem C20_refused_iff :
  forall n cols ndst ow srcs S,
  (exists e, migrate_driver n cols ndst ow srcs S = MgErr e) <->
  (length cols <> ndst \/ exists m, In m cols /\ selected m = true /\ has_btree m = true).
Proof. exact driver_rejects_iff. Qed.

(* Non-vacuity of the driver theorems: three columns (changed, unchanged, forced), batch size 2 so that a change
   set is cut inside an entry's repeated Sets and carried across columns; both modes succeed. *)
Example C20_driver_nonvacuous :
  let cols := [ {| m_sf := 2; m_df := 0; m_force := false |}; {| m_sf := 1; m_df := 1; m_force := false |};
                {| m_sf := 2; m_df := 2; m_force := true |} ] in
  let srcs : list scontent := [[(5, (77, 3)); (6, (88, 1))]; [(1, (11, 1))]; [(9, (99, 2))]] in
  match migrate_driver 2 cols 3 false srcs (src_db srcs), migrate_driver 2 cols 3 true srcs (src_db srcs) with
  | MgOk _ D, MgOk S' _ =>
      D 0 5 = Some (77, 1) /\ D 1 1 = Some (11, 1) /\ D 2 9 = Some (99, 2) /\ D 0 7 = None /\
      S' 0 5 = Some (77, 1) /\ S' 1 1 = Some (11, 1) /\ S' 2 9 = Some (99, 2)
  | _, _ => False
  end.
Proof. vm_compute. repeat split; reflexivity. Qed.

Print Assumptions C20_content_preserved.
Print Assumptions C20_whole_call_without_overwrite.
Print Assumptions C20_whole_call_with_overwrite.
Print Assumptions C20_every_column_holds_the_source.
Print Assumptions C20_every_column_holds_the_source_in_place.
Print Assumptions C20_result_column_by_column.
Print Assumptions C20_batch_boundaries_are_invisible.
Print Assumptions C20_refused_iff.
Print Assumptions C20_key_recovered.
