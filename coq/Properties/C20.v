(* C20 - Migration copies every key, value and reference count. *)
From Coq Require Import NArith List Bool Lia.
From PDB Require Import Model.Pipeline Model.IndexPage Model.Migrate Proofs.MigrateProofs Proofs.IndexEntryProofs.
Import ListNotations.
Open Scope N_scope.

(* For every source content with distinct keys and every destination column configuration
   (counting or not, preimage or not): after the migration has issued, for each source entry
   (key, value, count), [count] Sets of (key, value), the destination holds for every key exactly
   the source value, with the source count when the destination counts (and count one otherwise),
   and holds nothing for keys the source does not have. *)
Theorem C20_content_preserved :
  forall (dcf : ccfg) (c : col) (src : scontent) (k : key), keys_distinct src ->
  migrate_col dcf c src k =
  match lookup_src src k with Some (v, rc) => expected dcf v rc | None => None end.
Proof. exact content_preserved. Qed.

(* The key handed to the destination is rebuilt from the index page number, the stored partial key
   (first 6 bytes) and the 26-byte tail stored with the value: the first 48 bits of the recovered
   prefix are the first 48 bits of the source's hashed key, for every index size. *)
Theorem C20_key_recovered : forall bits kp addr, 16 <= bits <= 49 -> kp < m64 ->
  addr < 2 ^ address_bits bits ->
  recover_key_prefix bits (chunk_index bits kp) (entry_new bits addr (extract_key bits kp)) / 2^16
  = kp / 2^16.
Proof.
  intros bits kp addr Hb Hk Ha. rewrite (key_recovered bits kp addr Hb Hk Ha).
  replace (2^16) with (2^14 * 2^2) by reflexivity.
  rewrite <- !N.div_div by (apply N.pow_nonzero; discriminate).
  rewrite N.div_mul by (apply N.pow_nonzero; discriminate). reflexivity.
Qed.

(* Non-vacuity: counts 3 and 1 into a non-counting, non-preimage destination and into a counting one. *)
Example C20_nonvacuous :
  let src : scontent := [(5, (77, 3)); (6, (88, 1))] in
  keys_distinct src /\
  migrate_col {| c_btree := false; c_rc := false; c_preimage := false |} 0 src 5 = Some (77, 1) /\
  migrate_col {| c_btree := false; c_rc := true; c_preimage := true |} 0 src 5 = Some (77, 3) /\
  migrate_col {| c_btree := false; c_rc := true; c_preimage := true |} 0 src 9 = None.
Proof. cbn [keys_distinct]. split; [split; [intros e [<-|[]]; discriminate|split; [intros e []|exact I]]|]. vm_compute. repeat split; reflexivity. Qed.

Print Assumptions C20_content_preserved.
Print Assumptions C20_key_recovered.
