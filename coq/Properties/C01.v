(* C01 - Hash columns are a key-value map at every stage of the write pipeline.
   Only the property theorems, a non-vacuity example and the Print Assumptions audit. *)
From Coq Require Import NArith List Bool.
From PDB Require Import Model.Pipeline Model.PipelineSpec Proofs.PipelineTop.
Import ListNotations.
Open Scope N_scope.

(* For every configuration, every history of commits interleaved in any way with the pipeline
   stage steps (process = log, flush = sync, enact one record / to the end of a log file, clean =
   reclaim logs, clean close + reopen), a point read on a column without reference counting
   returns exactly what the accepted transactions, folded in commit order and in operation order
   inside a transaction, last wrote to that key (nothing if removed or never written), and the
   reported size is that value's length. [step_pre] only asks what the property grants: on a
   column configured with [preimage] the value is a function of the key. *)
Theorem C01_reads_are_spec :
  forall (cfg : list ccfg) (f : loc -> val) (steps : list step) (c : col) (k : key),
  Forall (step_pre cfg f) steps -> c_rc (cfg_of cfg c) = false ->
  get (run cfg init steps) c k = spec_txs (fun _ => None) (accepted cfg steps) (c, k)
  /\ get_size (run cfg init steps) c k
     = option_map vlen (spec_txs (fun _ => None) (accepted cfg steps) (c, k)).
Proof. exact reads_are_spec. Qed.

(* A rejected commit is not part of [accepted] and changes no read (see also C08). *)

(* Non-vacuity: one plain hash column; three commits writing key 5 that are, at the moment of the
   read, respectively enacted, logged-but-not-enacted, and still queued; then a reopen. *)
Definition ex_cfg : list ccfg := [{| c_btree := false; c_rc := false; c_preimage := false |}].
Definition ex_steps : list step :=
  [SCommit [(0, OSet 5 (1 * 2^32 + 3))]; SProcess; SFlush; SEnactAll;
   SCommit [(0, OSet 5 (2 * 2^32 + 4)); (0, ODeref 6)]; SProcess;
   SCommit [(0, OSet 6 (4 * 2^32 + 1)); (0, OSet 5 (3 * 2^32 + 7))]].
Example C01_nonvacuous :
  Forall (step_pre ex_cfg (fun _ => 0)) ex_steps /\ c_rc (cfg_of ex_cfg 0) = false /\
  let s := run ex_cfg init ex_steps in
  length (queue s) = 1%nat /\ length (leftover s) = 1%nat /\ tb_read (tb s) (0, 5) = Some (1 * 2^32 + 3, 1) /\
  get s 0 5 = Some (3 * 2^32 + 7) /\ get_size s 0 5 = Some 7 /\
  get (run ex_cfg init (ex_steps ++ [SReopen])) 0 5 = Some (3 * 2^32 + 7).
Proof.
  split; [repeat constructor; discriminate|]. split; [reflexivity|]. vm_compute. repeat split; reflexivity.
Qed.

Print Assumptions C01_reads_are_spec.
