(* C09 - Index growth and hash-prefix collisions never change query results. *)
From Coq Require Import NArith List Bool.
From PDB Require Import Gen.Consts Model.IndexPage Model.Pipeline Model.PipelineSpec
  Proofs.IndexEntryProofs Proofs.PipelineTop Proofs.PipelineRc.
From PDB Require Model.IndexSlots Proofs.IndexSlotsProofs.
Import ListNotations.
Open Scope N_scope.

(* An index entry stores address and partial key without loss, for every index size 16..49. *)
Theorem C09_entry_roundtrip : forall bits addr pk, 16 <= bits <= 49 ->
  addr < 2 ^ address_bits bits -> pk < 2 ^ (64 - address_bits bits) ->
  entry_address bits (entry_new bits addr pk) = addr /\ pk_of bits (entry_new bits addr pk) = pk
  /\ entry_new bits addr pk < m64.
Proof. exact entry_roundtrip. Qed.

(* Page number + stored partial key give back exactly the first 50 bits of the hashed key (the
   remaining bits are confirmed against the key tail stored with the value): nothing the index
   drops can make one key's entry pass for another key's. *)
Theorem C09_key_recovered : forall bits kp addr, 16 <= bits <= 49 -> kp < m64 ->
  addr < 2 ^ address_bits bits ->
  recover_key_prefix bits (chunk_index bits kp) (entry_new bits addr (extract_key bits kp))
  = kp / 2^14 * 2^14.
Proof. exact key_recovered. Qed.

Theorem C09_page_and_partial_key_identify : forall bits kp1 kp2, 16 <= bits <= 49 ->
  kp1 < m64 -> kp2 < m64 ->
  chunk_index bits kp1 = chunk_index bits kp2 -> extract_key bits kp1 = extract_key bits kp2 ->
  kp1 / 2^14 = kp2 / 2^14.
Proof. exact page_and_partial_key_identify. Qed.

(* Growth batches ([SReindex]) interleaved in any way with commits, every pipeline stage step and
   restarts leave every read equal to the specification (uncounted columns: last accepted write;
   counted columns: the logical cell, see C07). At this level a reindex batch is a step that
   changes no logical content; that the REAL batches behave so is what the growth histories of
   the correspondence check establish (keys aimed at one index page, colliding partial keys,
   restarts while two index generations coexist). *)
Theorem C09_growth_preserves_reads :
  forall (cfg : list ccfg) (f : loc -> val) (steps : list step) (c : col) (k : key),
  Forall (step_pre cfg f) steps -> c_rc (cfg_of cfg c) = false ->
  get (run cfg init steps) c k = spec_txs (fun _ => None) (accepted cfg steps) (c, k).
Proof. intros cfg f steps c k H1 H2. apply (proj1 (reads_are_spec cfg f steps c k H1 H2)). Qed.

(* SLOT LEVEL. The index of a column as the code keeps it - a current generation and older ones waiting in the
   reindex queue, 64-slot pages, entries in the first free slot, stale entries left behind when a value moves
   while its entry is in an old generation, reindex batches of whole pages that move, skip and finally drop -
   answers every lookup like the specification "the address the key's value was last put at": for EVERY
   sequence of writes, removals, reindex batches and restarts, growing as often as pages overflow (from a
   commit or from a batch itself). [kn] gives every key its 50 index-visible prefix bits - keys may share them;
   a write names an address at which no other key's value lives (the allocator's contract, C14).
   istep is the function the slot-level correspondence (kind 109) runs against the index files. *)
Module Slots.
Import PDB.Model.IndexSlots PDB.Proofs.IndexSlotsProofs.
Theorem C09_slot_index_lookup_is_spec :
  forall (kn : N -> N) (ops : list iop), wf_run kn [] ops ->
  forall k, lookup (fold_left istep ops iinit) k (kn k) = alookup (fold_left spec_step ops []) k.
Proof. exact lookup_is_spec. Qed.

(* non-vacuity: 66 keys of one 16-bit page - they split into two pages with 17 bits, keys k and k+2 (k < 4 apart)
   share all 50 index-visible bits - the 65th makes the index grow; a value moves while its entry is in the old
   generation (a stale entry stays behind); a batch moves everything and drops the old generation; a removed
   key is gone while the key that shares its bits is still found *)
Definition ex_kn (k : N) : N := 5 * 2^34 + (k mod 2) * 2^33 + k / 4.
Definition ex_ops : list iop :=
  map (fun i => ISet (N.of_nat i) (ex_kn (N.of_nat i)) (100 + N.of_nat i)) (seq 0 66) ++
  [ISet 3 (ex_kn 3) 500; IReindex; IRemove 7 (ex_kn 7); IRestart; IReindex].
Example C09_slot_history :
  let st := fold_left istep ex_ops iinit in
  g_bits (cur st) = 17 /\ queue st = [] /\ ex_kn 5 = ex_kn 7 /\
  lookup st 3 (ex_kn 3) = Some 500 /\ lookup st 64 (ex_kn 64) = Some 164 /\ lookup st 7 (ex_kn 7) = None /\ lookup st 5 (ex_kn 5) = Some 105 /\
  length (queue (fold_left istep (firstn 67 ex_ops) iinit)) = 1%nat.
Proof. vm_compute. repeat split; reflexivity. Qed.
End Slots.

(* Non-vacuity: bits = 16; two keys of the same page that differ in bit 13 (dropped by the entry)
   have the same page and partial key; a reindex step inside a history. *)
Example C09_nonvacuous :
  chunk_index 16 (5 * 2^48 + 3 * 2^14 + 2^13) = chunk_index 16 (5 * 2^48 + 3 * 2^14) /\
  extract_key 16 (5 * 2^48 + 3 * 2^14 + 2^13) = extract_key 16 (5 * 2^48 + 3 * 2^14) /\
  recover_key_prefix 16 5 (entry_new 16 77 (extract_key 16 (5 * 2^48 + 3 * 2^14 + 2^13))) = 5 * 2^48 + 3 * 2^14 /\
  get (run [{| c_btree := false; c_rc := false; c_preimage := false |}] init
        [SCommit [(0, OSet 1 9)]; SProcess; SReindex; SFlush; SEnactAll; SReindex; SReopen]) 0 1 = Some 9.
Proof. vm_compute. repeat split; reflexivity. Qed.

Print Assumptions C09_entry_roundtrip.
Print Assumptions C09_key_recovered.
Print Assumptions C09_page_and_partial_key_identify.
Print Assumptions C09_growth_preserves_reads.
Print Assumptions Slots.C09_slot_index_lookup_is_spec.
