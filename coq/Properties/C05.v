(* C05 - Concurrent readers see commits atomically, in order, and never go back in time (model level:
   Model/Readers.v - a reader whose three looks into commit overlay, log overlay and tables happen at
   three different moments of an arbitrary interleaving with commits and pipeline micro-steps). *)
From Coq Require Import NArith List Bool Arith.
From PDB Require Import Model.Readers Proofs.ReadersProofs.
Import ListNotations.
Open Scope N_scope.

(* For EVERY interleaving: the state reached when the reader looks into the commit overlay (s1), any
   further steps until it looks into the log overlay (s2), any further steps until it reads the tables
   (s3) - commits by other threads, a commit being moved into the log overlay and only later removed
   from the commit overlay, records being enacted write by write and only later dropped from the log
   overlay. What the reader returns is the value the key had after tau commits, for a tau between the
   number of commits at its first look and at its last: never older than the last commit completed
   before the read began, never from a commit that had not started. *)
Theorem C05_read_is_linearizable :
  forall (s1 s2 s3 : rstate) (k : N),
  rsteps rinit s1 -> rsteps s1 s2 -> rsteps s2 s3 ->
  exists tau, (length (hist s1) <= tau <= length (hist s3))%nat /\ read3 s1 s2 s3 k = spec (hist s3) tau k.
Proof.
  intros s1 s2 s3 k S01. apply read3_linearizable. exact (proj1 (rsteps_inv _ _ rinv_init S01)).
Qed.

(* Two reads of one reader, the second begun after the first returned (of the same or of another key):
   their moments of truth are ordered. Hence observed versions never decrease, and a transaction - all
   of whose keys enter at ONE commit - once seen through any of its keys is seen through all of them
   by every later read. *)
Theorem C05_reads_never_go_back :
  forall (s1 s2 s3 s4 s5 s6 : rstate) (k k' : N),
  rsteps rinit s1 -> rsteps s1 s2 -> rsteps s2 s3 -> rsteps s3 s4 -> rsteps s4 s5 -> rsteps s5 s6 ->
  exists t1 t2, (t1 <= t2)%nat /\ (t2 <= length (hist s6))%nat /\
    read3 s1 s2 s3 k = spec (hist s3) t1 k /\ read3 s4 s5 s6 k' = spec (hist s6) t2 k'.
Proof.
  intros s1 s2 s3 s4 s5 s6 k k' S01. apply reads_never_go_back. exact (proj1 (rsteps_inv _ _ rinv_init S01)).
Qed.

(* Non-vacuity: three commits write key 7 (values 1, 2, 3). The reader looks into the commit overlay
   when only the first is committed and already on its way down (miss), into the log overlay after the
   first was enacted and retired and the second committed (miss), and reads the tables after the second
   was processed and half enacted, with the third committed meanwhile: it returns 2 - the value after 2
   of the 3 commits; it saw 1 commit at its first look. *)
Definition c1 : list kv := [(7, 1)].
Definition c2 : list kv := [(9, 5); (7, 2)].
Definition c3 : list kv := [(7, 3)].
Definition x1 : rstate := {| hist := [c1]; e := 0; p := 1; m := false; j := 0 |}.
Definition x2 : rstate := {| hist := [c1; c2]; e := 1; p := 1; m := false; j := 0 |}.
Definition x3 : rstate := {| hist := [c1; c2; c3]; e := 1; p := 2; m := false; j := 2 |}.
Example C05_nonvacuous :
  cov_lookup x1 7 = None /\ lov_lookup x2 7 = None /\ read3 x1 x2 x3 7 = 2 /\ spec (hist x3) 2 7 = 2 /\ spec (hist x3) 3 7 = 3.
Proof. vm_compute. repeat split; reflexivity. Qed.

Print Assumptions C05_read_is_linearizable.
Print Assumptions C05_reads_never_go_back.
