(* C14 - Storage stays structurally sound (model level: a proved checker for the raw content of a
   value table; the harness reads the files itself, classifies every slot from its bytes and hands the
   dump to the extracted checker; the btree half uses the proved btree checker of C04). *)
From Coq Require Import NArith List Bool Arith Permutation.
From PDB Require Import Model.StorageCheck Proofs.StorageCheckProofs Model.TableAlloc Proofs.TableAllocProofs Proofs.TableChainProofs.
From PDB Require Model.MultiTree Proofs.MultiTreeForest.
Import ListNotations.
Open Scope N_scope.

(* Whatever the dump: if the checker accepts it, every slot below the fill mark is used EXACTLY once -
   either as a node of the free list, which is linked from the header's head to 0, in range and
   acyclic, or as a part of exactly one well-formed value chain (a complete value nothing points to, or
   head -> parts -> last part) - and the fill mark agrees with the number of slots. *)
Theorem C14_accepted_table_is_partitioned :
  forall d : tdump, t_ok (check_table d) = true ->
  let r := check_table d in
  Permutation (t_free r ++ concat (t_chains r)) (indices d) /\
  linkedf d (free_head d) (t_free r) /\ NoDup (t_free r) /\
  Forall (chain_wf d) (t_chains r) /\
  (filled d = N.of_nat (length (slots d)) + 1 \/ (filled d = 0 /\ slots d = [])).
Proof. exact check_table_sound. Qed.

(* no slot double-used *)
Theorem C14_no_slot_twice :
  forall d, t_ok (check_table d) = true -> NoDup (t_free (check_table d) ++ concat (t_chains (check_table d))).
Proof. exact no_slot_twice. Qed.

(* no slot leaked: every readable slot below the fill mark is on the free list or in a chain *)
Theorem C14_no_slot_leaked :
  forall d i s, t_ok (check_table d) = true -> slot_at d i = Some s ->
  In i (t_free (check_table d)) \/ exists c, In c (t_chains (check_table d)) /\ In i c.
Proof. exact every_slot_used. Qed.

(* The mechanism: the allocator keeps a table partitioned. [TInv] is what the checker establishes
   (C14_checked_table_satisfies_invariant); taking a slot from the free list, taking the slot at the
   fill mark when the list is empty, and clearing the slot of a single-slot value each preserve it,
   change no other slot, and hand out / take back exactly the slot in question. Hence removing data
   returns its slots for reuse and a steady insert / remove workload does not move the fill mark. *)
Theorem C14_checked_table_satisfies_invariant :
  forall d, t_ok (check_table d) = true -> slots d <> [] \/ filled d = 1 -> TInv d.
Proof. exact checked_is_tinv. Qed.

Theorem C14_alloc_pops_free_list :
  forall d nx, TInv d -> slot_at d (free_head d) = Some (RFree nx) ->
  let '(d', i) := alloc1 d in
  TInv d' /\ i = free_head d /\ slot_at d' i = Some RSize /\ filled d' = filled d /\
  (forall k, k <> i -> slot_at d' k = slot_at d k).
Proof. exact alloc1_pop_inv. Qed.

Theorem C14_alloc_extends_only_when_list_empty :
  forall d, TInv d -> free_head d = 0 ->
  let '(d', i) := alloc1 d in
  TInv d' /\ i = filled d /\ slot_at d' i = Some RSize /\ filled d' = filled d + 1 /\
  (forall k, k <> i -> slot_at d' k = slot_at d k).
Proof. exact alloc1_extend_inv. Qed.

Theorem C14_free_pushes_on_free_list :
  forall d i, TInv d -> slot_at d i = Some RSize -> memN i (targets d) = false ->
  TInv (free1 d i) /\ filled (free1 d i) = filled d /\ free_head (free1 d i) = i /\
  (forall k, k <> i -> slot_at (free1 d i) k = slot_at d k).
Proof. exact free1_inv. Qed.

(* Multi-part values, with the partition explicit (free list fl, chains cs). Storing a value in k >= 1 slots
   (k allocations, then the links head -> part -> ... -> last) keeps the table partitioned and adds exactly
   the new chain of k slots. *)
Theorem C14_store_keeps_partition :
  forall k d fl cs, (1 <= k)%nat -> TInvP d fl cs ->
  let '(d', l) := alloc_chain k d in exists fl', TInvP d' fl' (l :: cs) /\ length l = k.
Proof. exact alloc_chain_inv. Qed.

(* Removing a value clears every slot of its chain, head first: the chain disappears from the partition, its
   slots are on the free list in reverse order (the last part will be reused first), nothing else moves. *)
Theorem C14_remove_keeps_partition :
  forall d fl c cs, TInvP d fl (c :: cs) -> TInvP (free_chain d c) (rev c ++ fl) cs.
Proof. exact free_chain_inv. Qed.

(* Replacing a value by one that needs another number of slots (overwrite_chain on the existing chain): the old
   slots are reused in order; a longer value takes further slots from the allocator, a shorter one ends earlier
   and the rest of the old chain is cleared; the table stays partitioned and only this chain changes. *)
Theorem C14_replace_keeps_partition :
  forall d fl c cs k, TInvP d fl (c :: cs) -> let '(d', c') := areplace d c k in exists fl', TInvP d' fl' (c' :: cs).
Proof. exact areplace_inv. Qed.

(* Every table reachable from a fresh one by storing values (in any number of slots), replacing and removing live values,
   in any order, is partitioned, and its chains are exactly the live values. astep is the function the
   allocator correspondence runs against the implementation (kind 114). *)
Theorem C14_reachable_tables_partitioned :
  forall ops, let st := fold_left astep ops (empty_table, []) in exists fl, TInvP (fst st) fl (snd st).
Proof. exact reachable_tables_partitioned. Qed.

(* non-vacuity: a 3-slot value, a 1-slot value, the first removed, a 2-slot value stored in its freed slots
   (last part first), one freed slot left on the list; the checker accepts every table on the way *)
Example C14_replace_history :
  let st := fold_left astep [AStore 2; AStore 0; AReplace 0 4; AReplace 0 1] (empty_table, []) in
  snd st = [[1; 2]; [4]] /\ free_head (fst st) = 6 /\ filled (fst st) = 7 /\ t_ok (check_table (fst st)) = true.
Proof. vm_compute. repeat split; reflexivity. Qed.
Example C14_chain_history :
  let st := fold_left astep [AStore 2; AStore 0; ARemove 0; AStore 1] (empty_table, []) in
  snd st = [[4]; [3; 2]] /\ free_head (fst st) = 1 /\ filled (fst st) = 5 /\ t_ok (check_table (fst st)) = true.
Proof. vm_compute. repeat split; reflexivity. Qed.

(* insert then remove leaves the fill mark where it was, and the freed slot is the next one handed out *)
Example C14_steady_state :
  let d0 := {| filled := 1; free_head := 0; slots := [] |} in
  let '(d1, a) := alloc1 d0 in let '(d2, b) := alloc1 d1 in
  let d3 := free1 d2 a in let '(d4, c) := alloc1 d3 in
  (a, b, c) = (1, 2, 1) /\ filled d4 = 3 /\ t_ok (check_table d4) = true /\ t_ok (check_table d3) = true.
Proof. vm_compute. repeat split; reflexivity. Qed.

(* Non-vacuity: a table with fill mark 8: free list 5 -> 2, a three-part chain 1 -> 6 -> 3, two complete
   values 4 and 7 - accepted; the same with slot 2 pointing back at 5 (a cycle), with slot 7 turned into
   an unreferenced continuation part, or with the free head pointing at a live value - rejected. *)
Definition ex_d : tdump := {| filled := 8; free_head := 5;
  slots := [RHead 6; RFree 0; RSize; RSize; RFree 2; RPart 3; RSize] |}.
Example C14_nonvacuous :
  let r := check_table ex_d in
  t_ok r = true /\ t_free r = [5; 2] /\ t_chains r = [[1; 6; 3]; [4]; [7]] /\
  t_ok (check_table {| filled := 8; free_head := 5; slots := [RHead 6; RFree 5; RSize; RSize; RFree 2; RPart 3; RSize] |}) = false /\
  t_ok (check_table {| filled := 8; free_head := 5; slots := [RHead 6; RFree 0; RSize; RSize; RFree 2; RPart 3; RPart 4] |}) = false /\
  t_ok (check_table {| filled := 8; free_head := 4; slots := [RHead 6; RFree 0; RSize; RSize; RFree 2; RPart 3; RSize] |}) = false.
Proof. vm_compute. repeat split; reflexivity. Qed.

(* "node reference counts equal the number of referencing parents", "no unreachable node": the forest theorems of
   C10 (Proofs/MultiTreeForest.v), restated where C14 asks for them. For histories of single-operation transactions
   processed one by one on a column that is not append-only: the count of every stored node is the number of
   references to it from roots and stored nodes, and every stored node is referenced (its count is at least one and
   equals that number), so a column without roots stores nothing. *)
Module Nodes.
Import PDB.Model.MultiTree PDB.Proofs.MultiTreeForest.
Theorem C14_node_counts_equal_referencing_parents :
  forall cf s id, m_append_only cf = false -> forest_run cf s -> In id (map fst (nodes s)) ->
  N.to_nat (cnt s id) = (count_occ N.eq_dec (kids_r (roots s)) id + count_occ N.eq_dec (kids_n (nodes s)) id)%nat /\ (1 <= cnt s id)%N.
Proof.
  intros cf s id Hao Hr Hid. split; [exact (count_is_number_of_references cf s id Hao Hr Hid)|].
  destruct (forest_inv cf s Hao Hr) as [_ [HJ _]]. apply cnt_pos. exact (j_nrc s [] HJ).
Qed.
Theorem C14_no_root_no_node :
  forall cf s, m_append_only cf = false -> forest_run cf s -> roots s = [] -> nodes s = [] /\ nrc s = [] /\ num_entries s = 0%N.
Proof. exact all_dereferenced_is_empty. Qed.
End Nodes.

Print Assumptions C14_accepted_table_is_partitioned.
Print Assumptions C14_no_slot_twice.
Print Assumptions C14_no_slot_leaked.
Print Assumptions C14_checked_table_satisfies_invariant.
Print Assumptions C14_alloc_pops_free_list.
Print Assumptions C14_alloc_extends_only_when_list_empty.
Print Assumptions C14_free_pushes_on_free_list.
Print Assumptions C14_store_keeps_partition.
Print Assumptions C14_remove_keeps_partition.
Print Assumptions C14_replace_keeps_partition.
Print Assumptions C14_reachable_tables_partitioned.
Print Assumptions Nodes.C14_node_counts_equal_referencing_parents.
Print Assumptions Nodes.C14_no_root_no_node.
