(* C14 - Storage stays structurally sound (model level: a proved checker for the raw content of a
   value table; the harness reads the files itself, classifies every slot from its bytes and hands the
   dump to the extracted checker; the btree half uses the proved btree checker of C04). *)
From Coq Require Import NArith List Bool Arith Permutation.
From PDB Require Import Model.StorageCheck Proofs.StorageCheckProofs.
Import ListNotations.
Open Scope N_scope.

(* Whatever the dump: if the checker accepts it, every slot below the fill mark is used EXACTLY once -
   either as a node of the free list, which is linked from the header's head to 0, in range and
   acyclic, or as a part of exactly one well-formed value chain (a complete value nothing points to, or
   head -> parts -> last part) - and the fill mark agrees with the number of slots. *)
Theorem C14_accepted_table_is_partitioned :
  forall d : tdump, t_ok (check_table d) = true ->
  let r := check_table d in
  Permutation (t_free r ++ concat (t_chains r)) (indices d) /\
  linkedf d (free_head d) (t_free r) /\ NoDup (t_free r) /\
  Forall (chain_wf d) (t_chains r) /\
  (filled d = N.of_nat (length (slots d)) + 1 \/ (filled d = 0 /\ slots d = [])).
Proof. exact check_table_sound. Qed.

(* no slot double-used *)
Theorem C14_no_slot_twice :
  forall d, t_ok (check_table d) = true -> NoDup (t_free (check_table d) ++ concat (t_chains (check_table d))).
Proof. exact no_slot_twice. Qed.

(* no slot leaked: every readable slot below the fill mark is on the free list or in a chain *)
Theorem C14_no_slot_leaked :
  forall d i s, t_ok (check_table d) = true -> slot_at d i = Some s ->
  In i (t_free (check_table d)) \/ exists c, In c (t_chains (check_table d)) /\ In i c.
Proof. exact every_slot_used. Qed.

(* Non-vacuity: a table with fill mark 8: free list 5 -> 2, a three-part chain 1 -> 6 -> 3, two complete
   values 4 and 7 - accepted; the same with slot 2 pointing back at 5 (a cycle), with slot 7 turned into
   an unreferenced continuation part, or with the free head pointing at a live value - rejected. *)
Definition ex_d : tdump := {| filled := 8; free_head := 5;
  slots := [RHead 6; RFree 0; RSize; RSize; RFree 2; RPart 3; RSize] |}.
Example C14_nonvacuous :
  let r := check_table ex_d in
  t_ok r = true /\ t_free r = [5; 2] /\ t_chains r = [[1; 6; 3]; [4]; [7]] /\
  t_ok (check_table {| filled := 8; free_head := 5; slots := [RHead 6; RFree 5; RSize; RSize; RFree 2; RPart 3; RSize] |}) = false /\
  t_ok (check_table {| filled := 8; free_head := 5; slots := [RHead 6; RFree 0; RSize; RSize; RFree 2; RPart 3; RPart 4] |}) = false /\
  t_ok (check_table {| filled := 8; free_head := 4; slots := [RHead 6; RFree 0; RSize; RSize; RFree 2; RPart 3; RSize] |}) = false.
Proof. vm_compute. repeat split; reflexivity. Qed.

Print Assumptions C14_accepted_table_is_partitioned.
Print Assumptions C14_no_slot_twice.
Print Assumptions C14_no_slot_leaked.
