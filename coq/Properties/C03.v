(* C03 - Clean shutdown persists everything (model level: the pipeline model of Model/Pipeline.v;
   the crash half of C03 is carried by the write-ahead-log model, see Properties/C02.v). *)
From Coq Require Import NArith List Bool.
From PDB Require Import Model.Pipeline Model.PipelineSpec Proofs.PipelineTop.
From PDB Require Model.Wal Proofs.WalProofs.
From Coq Require Import Arith.
Import ListNotations.
Open Scope N_scope.

(* Whatever stage every commit has reached when the handle is dropped - still queued, logged,
   flushed, half-way through a log file - after drop + open nothing is queued, no log record is
   left, both overlays are empty, and the TABLES ALONE hold the last accepted write of every key
   (columns without reference counting; counted columns: C07). [reopen] is the faithful
   kill_logs order (enact to the end of one log file, flush, process everything queued, enact
   one file, flush, enact one file, flush tables, truncate) followed by the replay, at open, of
   the log files kill_logs left behind. *)
Theorem C03_close_persists_all :
  forall (cfg : list ccfg) (f : loc -> val) (steps : list step),
  Forall (step_pre cfg f) steps ->
  let s := run cfg init (steps ++ [SReopen]) in
  queue s = [] /\ leftover s = [] /\ ov s = [] /\ lo s = [] /\
  forall c k, c_rc (cfg_of cfg c) = false ->
    option_map fst (tb_read (tb s) (c, k)) = spec_txs (fun _ => None) (accepted cfg steps) (c, k).
Proof. exact close_persists_all. Qed.

(* Non-vacuity: five commits, two still queued, two logged in two different unflushed/flushed
   files, one enacted; kill_logs leaves one log file un-enacted and open replays it. *)
Definition ex_cfg : list ccfg := [{| c_btree := false; c_rc := false; c_preimage := false |}].
Definition ex_steps : list step :=
  [SCommit [(0, OSet 1 11)]; SProcess; SFlush; SEnactAll;
   SCommit [(0, OSet 2 22)]; SProcess; SFlush;
   SCommit [(0, OSet 3 33)]; SProcess; SFlush;
   SCommit [(0, OSet 4 44)]; SProcess; SFlush;
   SCommit [(0, OSet 5 55)]; SProcess;
   SCommit [(0, OSet 6 66)]; SCommit [(0, ODeref 1)]].
Example C03_nonvacuous :
  let s := run ex_cfg init ex_steps in
  length (queue s) = 2%nat /\ length (leftover s) = 4%nat /\
  length (leftover (kill_logs ex_cfg s)) = 3%nat /\
  let s' := run ex_cfg init (ex_steps ++ [SReopen]) in
  map (fun k => option_map fst (tb_read (tb s') (0, k))) [1; 2; 3; 4; 5; 6]
  = [None; Some 22; Some 33; Some 44; Some 55; Some 66].
Proof. vm_compute. repeat split; reflexivity. Qed.

Print Assumptions C03_close_persists_all.

(* The crash half: at ANY reachable state of the write-ahead-log protocol (Model/Wal.v) the records the
   log keeps, replayed over the surviving tables, give the state after m records for every admissible m,
   and every admissible m is at least the number of synced records: a crash loses at most a suffix of
   not-yet-synced commits. (The protocol theorems are those of C02 / C12; restated here for the clause
   of this property.) *)
Module CrashHalf.
Import PDB.Model.Wal PDB.Proofs.WalProofs.
Theorem C03_synced_records_survive_crash :
  forall (T0 : base) (w : wst), reach T0 w ->
  forall m, (Wal.s w <= m <= length (recs w))%nat ->
  forall l, apply_recs (sub (recs w) (Wal.t w) m) (C w) l = apply_recs (firstn m (recs w)) T0 l.
Proof. exact crash_recovers. Qed.
Theorem C03_synced_records_survive_power_loss :
  forall (T0 : base) (w : wst), reach T0 w ->
  forall m D', (Wal.s w <= m <= length (recs w))%nat ->
  (forall l, Wal.dirty w l = false -> D' l = D w l) ->
  forall l, apply_recs (sub (recs w) (Wal.t w) m) D' l = apply_recs (firstn m (recs w)) T0 l.
Proof. exact power_loss_recovers. Qed.
End CrashHalf.
Print Assumptions CrashHalf.C03_synced_records_survive_crash.
Print Assumptions CrashHalf.C03_synced_records_survive_power_loss.
