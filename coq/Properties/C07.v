(* C07 - Reference-counted columns keep a value exactly while its count is positive. *)
From Coq Require Import NArith List Bool.
From PDB Require Import Model.Pipeline Model.PipelineSpec Proofs.PipelineRc.
Import ListNotations.
Open Scope N_scope.

(* In every pipeline state of every history: a key of a counted column whose count (folded over
   the accepted transactions in commit order: +1 per set, +1 per reference of a present key,
   -1 per dereference of a present key, references/dereferences of absent keys ignored) is
   positive is readable, with the value the preimage contract assigns to the key. *)
Theorem C07_positive_readable :
  forall (cfg : list ccfg) (f : loc -> val) (steps : list step) (c : col) (k : key),
  Forall (step_pre cfg f) steps -> c_rc (cfg_of cfg c) = true -> c_preimage (cfg_of cfg c) = true ->
  0 < cnt_txs (fun _ => 0) (accepted cfg steps) (c, k) ->
  get (run cfg init steps) c k = Some (f (c, k)).
Proof. exact positive_readable. Qed.

(* Once every accepted commit has been written to the log (nothing queued; in particular after any
   reopen): readable if and only if the count is positive, and the stored counter - what value
   iteration reports - equals the count. *)
Theorem C07_logged_iff :
  forall (cfg : list ccfg) (f : loc -> val) (steps : list step) (c : col) (k : key),
  Forall (step_pre cfg f) steps -> c_rc (cfg_of cfg c) = true ->
  queue (run cfg init steps) = [] ->
  (get (run cfg init steps) c k <> None <-> 0 < cnt_txs (fun _ => 0) (accepted cfg steps) (c, k))
  /\ stored_rc (run cfg init steps) c k = cnt_txs (fun _ => 0) (accepted cfg steps) (c, k).
Proof. exact logged_iff. Qed.

(* Non-vacuity. Column 0 counted; key 7: set, set, reference, dereference (count 2, readable while
   two of the commits are still queued); key 8: set then dereference (count 0). While the
   dereference of key 8 is only queued the key is still readable (the property allows it); once
   it is logged the key is gone. *)
Definition ex_cfg : list ccfg := [{| c_btree := false; c_rc := true; c_preimage := true |}].
Definition ex_f (l : loc) : val := snd l * 2^32 + 5.
Definition ex_steps : list step :=
  [SCommit [(0, OSet 7 (ex_f (0, 7))); (0, OSet 8 (ex_f (0, 8)))]; SProcess;
   SCommit [(0, OSet 7 (ex_f (0, 7))); (0, ORef 7); (0, ORef 9)]; SFlush;
   SCommit [(0, ODeref 7); (0, ODeref 8)]].
Example C07_nonvacuous :
  Forall (step_pre ex_cfg ex_f) ex_steps /\
  cnt_txs (fun _ => 0) (accepted ex_cfg ex_steps) (0, 7) = 2 /\
  cnt_txs (fun _ => 0) (accepted ex_cfg ex_steps) (0, 8) = 0 /\
  cnt_txs (fun _ => 0) (accepted ex_cfg ex_steps) (0, 9) = 0 /\
  get (run ex_cfg init ex_steps) 0 7 = Some (ex_f (0, 7)) /\
  get (run ex_cfg init ex_steps) 0 8 = Some (ex_f (0, 8)) /\
  let s := run ex_cfg init (ex_steps ++ [SProcess; SProcess]) in
  queue s = [] /\ get s 0 8 = None /\ stored_rc s 0 7 = 2.
Proof.
  split; [repeat constructor; intros _; reflexivity|]. vm_compute. repeat split; reflexivity.
Qed.

Print Assumptions C07_positive_readable.
Print Assumptions C07_logged_iff.
