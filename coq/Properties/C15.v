(* C15 - The pipeline always drains: commits return, shutdown terminates (model level: the wait/signal
   protocol between a producer and a background worker, Model/Workers.v; every stage of the pipeline
   is such a worker fed by the stage before it). *)
From Coq Require Import Arith List Bool.
From PDB Require Import Model.Workers Proofs.WorkersProofs.
From PDB Require Model.Backpressure Proofs.BackpressureProofs.
Import ListNotations.

(* No lost wake-up, for EVERY interleaving of producer signals, shutdown requests and worker moves:
   whenever work is pending or shutdown was requested, the worker is not blocked. *)
Theorem C15_never_blocked_with_work :
  forall (l : list act) (s : wk), s = arun winit l ->
  (pending s > 0 \/ sd s = true) -> pc s <> Done -> wnext s <> None.
Proof. intros l s ->. apply never_blocked. apply safe_arun. apply safe_init. Qed.

(* Progress without further client activity: from any reachable state with pending work, any schedule
   that lets the worker move three times - whatever the producer does in between - serves a unit. *)
Theorem C15_progress :
  forall (l0 l : list act), let s := arun winit l0 in
  pending s > 0 -> sd s = false -> pc s <> Done -> ~ In AShutdown l -> count_worker l >= 3 ->
  served (arun s l) > served s.
Proof. intros l0 l s. apply progress. apply safe_arun. apply safe_init. Qed.

(* Shutdown terminates: after the request the worker is never blocked, and with nothing pending it has
   left its loop after at most four of its own moves. *)
Theorem C15_shutdown_terminates :
  forall (l0 : list act), let s := arun winit l0 in
  sd s = true -> pending s = 0 -> pc (wmoves 4 s) = Done.
Proof. intros l0 s. apply shutdown_terminates. apply safe_arun. apply safe_init. Qed.

(* Non-vacuity: a signal that arrives BEFORE the worker waits is not lost (the flag stays set), several
   signals coalesce, and a shutdown request wakes a sleeping worker. *)
Example C15_nonvacuous :
  served (arun winit [AProduce; AProduce; AWorker; AWorker; AWorker; AWorker; AWorker]) = 2 /\
  pc (arun winit [AWorker; AWorker; AWorker]) = Waiting /\
  pc (arun winit [AWorker; AShutdown; AWorker; AWorker; AWorker]) = Done.
Proof. vm_compute. repeat split; reflexivity. Qed.

Print Assumptions C15_never_blocked_with_work.
Print Assumptions C15_progress.
Print Assumptions C15_shutdown_terminates.

Module BP.
Import PDB.Model.Backpressure PDB.Proofs.BackpressureProofs.
(* The back-pressure wait (the enact stage waits while too many logs await cleanup). With shutdown()
   signalling that wait too (the repair of finding F21): in EVERY reachable state in which the enactor is
   blocked, one round of the cleanup worker's own enabled moves sets the flag it waits on, and then its
   wait returns - whatever interleaving of enacting, cleanup passes (each counting the logs at its start)
   and the shutdown request led there. *)
Theorem C15_backpressure_wait_is_signalled :
  forall (n : nat) (l : list bact), let s := brun true (binit n) l in
  Backpressure.epc s = EBlocked -> bflag (brun true s [ACIdle; ACWake; ACStart; ACEnd]) = true.
Proof. exact blocked_enactor_is_signalled. Qed.

Theorem C15_signalled_wait_returns :
  forall s, Backpressure.epc s = EBlocked -> bflag s = true -> bstep true s AWake <> None.
Proof. exact signalled_enactor_moves. Qed.

(* Without that signal - the code as it was - a dead-lock IS reachable: the schedule below (found on the
   implementation as a hanging drop, about one run in 4000) leaves the enactor blocked for ever. *)
Theorem C15_backpressure_deadlock_without_signal_refuted :
  let s := brun false (binit 3) f21_schedule in
  Backpressure.epc s = EBlocked /\ cpc s = CDone /\ bflag s = false /\
  forall l, Backpressure.epc (brun false s l) = EBlocked.
Proof. exact deadlock_without_signal_refuted. Qed.

End BP.
Print Assumptions BP.C15_backpressure_wait_is_signalled.
Print Assumptions BP.C15_signalled_wait_returns.
Print Assumptions BP.C15_backpressure_deadlock_without_signal_refuted.
