(* C04 - Btree columns are an ordered map with correct bidirectional iteration. *)
From Coq Require Import NArith List Bool.
From PDB Require Import Model.BTreeIter Model.BTreeCheck Proofs.BTreeIterProofs Proofs.BTreeCheckProofs Proofs.BTreeMergeProofs.
From PDB Require Model.BTreeMut Proofs.BTreeMutProofs.
Import ListNotations.
Open Scope N_scope.

(* Iteration over the on-disk tree (no commit overlay entries): for every sequence of seek /
   seek_to_last / next / prev calls, with direction changes, the tree content being ANY strictly
   sorted content and possibly a different one at every call (the iterator then re-positions itself
   from the last key it handed out), every step returns exactly what the property prescribes:
   after seek k forward the least key >= k, backward the greatest <= k; after a step returned K
   forward the least > K, backward the greatest < K; from the start / end the first / last key or
   nothing. The model is the repaired iterator (findings F16, F17). *)
Theorem C04_tree_iteration_is_spec :
  forall (calls : list (kvs * icall)) (b0 : kvs),
  Forall (fun bc => sorted (fst bc) /\ positive_keys (fst bc)) calls -> sorted b0 -> positive_keys b0 ->
  impl_run calls (iter_new b0) = spec_run calls LStart.
Proof.
  intros calls b0 H Hs Hp. apply (tree_iteration_is_spec calls (iter_new b0) H (Inv_new b0 Hs Hp)).
Qed.

(* one step, from any state the invariant allows *)
Theorem C04_step_is_spec : forall fuel b it d, sorted b -> positive_keys b -> Inv it ->
  let '(r, it') := iter_step (S fuel) b [] it d in
  r = fst (spec_step b (last it) d) /\ last it' = snd (spec_step b (last it) d) /\ Inv it'.
Proof. exact step_is_spec. Qed.

(* The merge with the commit overlay (commits not yet in the tree): insertions override tree entries,
   removals hide them, any number of removals in a row, both directions, direction changes, a pending
   tree item buffered across calls. [mlook b o j] is the CURRENT value of key j: the overlay's word if
   it has one, otherwise the tree's. One step, from any state the (cursor-answer) invariant allows,
   returns THE nearest key beyond the position whose current value exists, with that value
   ([nextP]: the key is beyond the position, it has that value, no key in between has a value; or
   nothing beyond the position has a value), and keeps the invariant. *)
Theorem C04_merged_step_is_next :
  forall b o it d fuel, sorted b -> positive_keys b -> ssorted o -> InvS it -> (length o < fuel)%nat ->
  let '(r, it') := iter_step fuel b o it d in
  nextP d (mlook b o) (last it) r /\ InvS it' /\
  last it' = (if allowedb (last it) d then resl r d else last it).
Proof. exact merged_step_is_next. Qed.

(* ... hence for every sequence of seek / seek_to_last / next / prev calls, tree content AND overlay
   possibly different at every call, every returned item is the prescribed one ... *)
Theorem C04_merged_iteration_is_spec :
  forall (calls : list (kvs * ovs * icall)) (b0 : kvs),
  Forall (fun boc => sorted (fst (fst boc)) /\ positive_keys (fst (fst boc)) /\ ssorted (snd (fst boc))) calls ->
  sorted b0 -> positive_keys b0 ->
  run_ok LStart calls (impl_run2 calls (iter_new b0)).
Proof.
  intros calls b0 H Hs Hp. apply (merged_iteration_is_spec calls (iter_new b0) H). apply invS_of_Inv. apply Inv_new; assumption.
Qed.

(* ... and the prescription leaves no freedom: any two result sequences that meet it are equal. *)
Theorem C04_prescription_is_unambiguous :
  forall calls p rs1 rs2, run_ok p calls rs1 -> run_ok p calls rs2 -> rs1 = rs2.
Proof. exact run_ok_unique. Qed.

(* The on-disk tree: a dump of the raw files that the checker accepts has its keys in strictly
   increasing in-order sequence, inside the bounds, and every leaf exactly [depth] levels below the
   root (the depth recorded in the tree header). The harness produces the dump with its own parser
   of the table files and runs the extracted checker on it after every history. *)
Theorem C04_checker_sound_order : forall d t lo hi, wf_b d lo hi t = true ->
  incr (inorder t) /\ all_in lo hi (inorder t).
Proof. exact wf_sound. Qed.
Theorem C04_checker_sound_depth : forall d t lo hi base, wf_b d lo hi t = true ->
  Forall (fun x => x = (base + d)%nat) (leaf_depths t base).
Proof. exact depth_uniform. Qed.

(* Non-vacuity, including a merge with the commit overlay:
   tree {2,4,6}, overlay {3 := 33, 4 removed}: forward from seek 3: 3, 6, end; then backward: 6, 3, 2. *)
Definition ex_b : kvs := [(2, 20); (4, 40); (6, 60)].
Definition ex_o : ovs := [(3, Some 33); (4, None)].
Definition run5 : list (option (N * N)) :=
  let it0 := iter_seek ex_b (iter_new ex_b) 3 in
  let '(r1, it1) := iter_step 9 ex_b ex_o it0 Fwd in
  let '(r2, it2) := iter_step 9 ex_b ex_o it1 Fwd in
  let '(r3, it3) := iter_step 9 ex_b ex_o it2 Fwd in
  let '(r4, it4) := iter_step 9 ex_b ex_o it3 Bwd in
  let '(r5, it5) := iter_step 9 ex_b ex_o it4 Bwd in
  let '(r6, _) := iter_step 9 ex_b ex_o it5 Bwd in
  [r1; r2; r3; r4; r5; r6].
Example C04_nonvacuous :
  sorted ex_b /\ merged ex_b ex_o = [(2, 20); (3, 33); (6, 60)] /\
  run5 = [Some (3, 33); Some (6, 60); None; Some (6, 60); Some (3, 33); Some (2, 20)] /\
  impl_run [(ex_b, CSeek 5); (ex_b, CPrev); (ex_b, CPrev); (ex_b, CNext)] (iter_new ex_b)
  = [None; Some (4, 40); Some (2, 20); Some (4, 40)].
Proof.
  split; [cbn; repeat split; intros e H; repeat (destruct H as [<-|H]; [cbn; reflexivity|]); destruct H|].
  vm_compute. repeat split; reflexivity.
Qed.
Example C04_checker_nonvacuous :
  wf_b 1 0 100 (BNode (Some (BNode None [(1, None); (2, None)])) [(5, Some (BNode None [(7, None)]))]) = true /\
  wf_b 1 0 100 (BNode (Some (BNode None [(1, None); (6, None)])) [(5, Some (BNode None [(7, None)]))]) = false /\
  wf_b 1 0 100 (BNode (Some (BNode None [(1, None)])) [(5, None)]) = false.
Proof. vm_compute. repeat split; reflexivity. Qed.

(* MUTATION. How a Set or a removal changes the on-disk tree (src/btree/node.rs, btree.rs: descent by the recorded
   depth, insertion into the node, split of a full node at the median, a new root when the root splits; removal
   with the largest key of the left subtree taking the place of a removed separator, rebalancing by borrowing
   from the left sibling, else from the right one, else merging, the root losing a level), for EVERY sequence of
   sets and removals: the tree stays well shaped (every leaf at the recorded depth, one more child than keys in
   every inner node, at most ORDER keys per node), sorted, balanced in occupancy (every node below the root has at
   least ORDER/2 keys, an inner root at least one), and holds exactly the keys it should. bstep is the function
   the mutation correspondence (kind 104) runs against the raw tree after every operation. *)
Module Mut.
Import PDB.Model.BTreeMut PDB.Proofs.BTreeMutProofs.
Theorem C04_set_keeps_tree :
  forall st k, tree_ok st -> tree_ok (bt_insert st k) /\ elements (bt_insert st k) = spec_ins k (elements st).
Proof. exact bt_insert_spec. Qed.
Theorem C04_sets_keep_tree :
  forall ks, tree_ok (fold_left bt_insert ks binit) /\
             elements (fold_left bt_insert ks binit) = fold_left (fun l k => spec_ins k l) ks [].
Proof. intros ks. destruct binit_ok as [H0 E0]. destruct (inserts_keep_tree ks binit H0) as [H1 H2]. split; [exact H1|rewrite H2, E0; reflexivity]. Qed.
Theorem C04_mutations_keep_tree :
  forall ops, tree_inv (fold_left bstep ops binit) /\ elements (fold_left bstep ops binit) = fold_left spec_step ops [].
Proof. intros ops. destruct (bsteps_keep_tree ops binit binit_inv) as [H1 H2]. split; [exact H1|exact H2]. Qed.
Theorem C04_remove_keeps_tree :
  forall st k, tree_inv st -> tree_inv (bt_remove st k) /\ elements (bt_remove st k) = spec_del k (elements st).
Proof. exact bt_remove_inv. Qed.
(* spec_del removes exactly the key *)
Theorem C04_spec_del_is_set_removal : forall k l x, In x (spec_del k l) <-> x <> k /\ In x l.
Proof. exact spec_del_in. Qed.
(* spec_ins on a sorted list is "the key is in, everything else stays, nothing else comes" *)
Theorem C04_spec_ins_is_set_insertion :
  forall k l x, sorted l -> (In x (spec_ins k l) <-> x = k \/ In x l).
Proof. exact spec_ins_in. Qed.

(* non-vacuity: 30 keys in ascending order give a tree of depth 1 whose root has split several times; then the
   smallest keys are removed until nodes borrow and merge; the traversal is the sorted key set throughout *)
Example C04_mutation_history :
  let st1 := fold_left bstep (map (fun i => BSet (N.of_nat i)) (seq 1 30)) binit in
  let st2 := fold_left bstep (map (fun i => BDel (N.of_nat i)) (seq 1 20)) st1 in
  fst st1 = 1%nat /\ elements st1 = map N.of_nat (seq 1 30) /\ length (keys_of (snd st1)) = 5%nat /\
  elements st2 = map N.of_nat (seq 21 10) /\ length (keys_of (snd st2)) = 1%nat.
Proof. vm_compute. repeat split; reflexivity. Qed.
End Mut.

Print Assumptions C04_tree_iteration_is_spec.
Print Assumptions C04_step_is_spec.
Print Assumptions C04_checker_sound_order.
Print Assumptions C04_checker_sound_depth.
Print Assumptions C04_merged_step_is_next.
Print Assumptions C04_merged_iteration_is_spec.
Print Assumptions C04_prescription_is_unambiguous.
Print Assumptions Mut.C04_set_keeps_tree.
Print Assumptions Mut.C04_sets_keep_tree.
Print Assumptions Mut.C04_spec_ins_is_set_insertion.
Print Assumptions Mut.C04_mutations_keep_tree.
Print Assumptions Mut.C04_remove_keeps_tree.
Print Assumptions Mut.C04_spec_del_is_set_removal.
