(* C10 - A committed tree reads back exactly; shared nodes live until unreferenced. *)
From Coq Require Import NArith List Bool.
From PDB Require Import Model.MultiTree Proofs.MultiTreeProofs Proofs.MultiTreeReadback.
Import ListNotations.
Open Scope N_scope.

(* the stored form of a node - data, child addresses, child count in one byte - gives back exactly
   the data and the children in order, for every node with at most 255 children *)
Theorem C10_node_pack_roundtrip : forall data cs, (length cs <= 255)%nat -> Forall (fun c => c < 2^64) cs ->
  unpack_node (pack_node data cs) = Some (data, cs).
Proof. exact pack_roundtrip. Qed.

(* an insertion that cannot be represented (a node with more than 255 children anywhere in the
   tree) is rejected with an error and changes nothing (the repaired behaviour; finding F10 was the
   silent truncation) *)
Theorem C10_unrepresentable_rejected : forall cf s k t rest,
  255 < max_fanout t -> mcommit_tx cf s (UInsertTree k t :: rest) = (s, 1).
Proof. exact unrepresentable_rejected. Qed.

(* Read-back. [root_is g r t]: r is a root carrying t's data whose children are, one by one, a node
   carrying the supplied subtree (a new child) or exactly the address that was named (an existing
   child); [g] is the node lookup of the state, [carries] descends through it. For EVERY tree that
   can be represented and every state: as soon as the commit call has returned, the tree reads back
   exactly as supplied (through the commit overlay) ... *)
Theorem C10_insert_reads_back_after_commit :
  forall cf s k t s' code, max_fanout t <= 255 -> mcommit_tx cf s [UInsertTree k t] = (s', code) ->
  code = 0 /\ root_is (MultiTree.get_node s') (MultiTree.get_root s' k) t.
Proof. exact insert_readback_commit. Qed.

(* ... and after process_commits has written it (the overlay entries are gone, the nodes are read from
   the store), when nothing else was queued and the key was not present before *)
Theorem C10_insert_reads_back_after_processing :
  forall cf s k t s' code, max_fanout t <= 255 -> mqueue s = [] -> alook (roots s) k = None ->
  mcommit_tx cf s [UInsertTree k t] = (s', code) ->
  let s'' := mprocess cf s' in
  mqueue s'' = [] /\ root_is (MultiTree.get_node s'') (MultiTree.get_root s'' k) t.
Proof. exact insert_readback_processed. Qed.

(* Sharing: a node that another parent still references (count two or more) survives a dereference
   untouched, only its count goes down; a leaf nobody else references is removed. *)
Theorem C10_shared_node_survives_dereference :
  forall fuel s id c, alook (nrc s) id = Some c -> 2 <= c ->
  let s' := deref_children (S (S fuel)) s [id] in
  nodes s' = nodes s /\ roots s' = roots s /\ alook (nrc s') id = (if 2 <? c then Some (c - 1) else None).
Proof. exact shared_node_survives. Qed.
Theorem C10_unshared_leaf_is_reclaimed :
  forall fuel s id d, alook (nrc s) id = None -> MultiTree.get_node s id = Some {| n_data := d; n_children := [] |} -> alook (aov s) id = None ->
  let s' := deref_children (S (S fuel)) s [id] in alook (nodes s') id = None.
Proof. exact unshared_leaf_is_reclaimed. Qed.

(* Non-vacuity and read-back on the model: a tree with a shared node (the same existing child named
   twice), then the first tree is dereferenced: the shared node stays, its count drops. *)
Definition ex_cf : mcfg := {| m_rc := false; m_append_only := false |}.
Definition ex_state : mstate :=
  let s0 := fst (mcommit_tx ex_cf minit [UInsertTree 0 (TNode 7 [TNew (TNode 8 [TNew (TNode 9 [])])])]) in
  let s1 := mprocess ex_cf s0 in
  (* nodes got identities 1 (data 8) and 2 (data 9) *)
  let s2 := fst (mcommit_tx ex_cf s1 [UInsertTree 1 (TNode 70 [TExisting 2; TExisting 2])]) in
  let s3 := mprocess ex_cf s2 in
  let s4 := fst (mcommit_tx ex_cf s3 [UDerefTree 0]) in
  mprocess ex_cf s4.
Example C10_nonvacuous :
  option_map n_children (MultiTree.get_root ex_state 1) = Some [2; 2] /\
  option_map n_data (MultiTree.get_node ex_state 2) = Some 9 /\
  MultiTree.get_root ex_state 0 = None /\ MultiTree.get_node ex_state 1 = None /\
  alook (nrc ex_state) 2 = Some 2 /\ num_entries ex_state = 2 /\
  255 < max_fanout (TNode 1 (repeat (TNew (TNode 2 [])) 300)).
Proof. vm_compute. repeat split; reflexivity. Qed.

(* A transaction with an operation that is invalid for its column (a plain write to the tree column, a node with
   more than 255 children, a dereference on an append-only column, a reference on a column without counting) is
   rejected with nothing claimed and nothing registered: the state is literally unchanged (repair F7). *)
Theorem C10_invalid_operation_rejects_without_trace :
  forall cf s ops, (static_code cf ops <> 0 \/ static_ref_code cf ops <> 0) ->
  fst (mcommit_tx cf s ops) = s /\ snd (mcommit_tx cf s ops) <> 0.
Proof.
  intros cf s ops H. unfold mcommit_tx. destruct (N.eqb_spec (static_code cf ops) 0) as [E|E]; cbn [negb].
  - destruct H as [H|H]; [contradiction|]. destruct (N.eqb_spec (static_ref_code cf ops) 0) as [E2|E2]; [contradiction|]. cbn [negb fst snd]. split; [reflexivity|exact E2].
  - cbn [fst snd]. split; [reflexivity|exact E].
Qed.

Print Assumptions C10_node_pack_roundtrip.
Print Assumptions C10_unrepresentable_rejected.
Print Assumptions C10_insert_reads_back_after_commit.
Print Assumptions C10_insert_reads_back_after_processing.
Print Assumptions C10_shared_node_survives_dereference.
Print Assumptions C10_unshared_leaf_is_reclaimed.
Print Assumptions C10_invalid_operation_rejects_without_trace.
