(* C10 - A committed tree reads back exactly; shared nodes live until unreferenced. *)
From Coq Require Import NArith List Bool.
From PDB Require Import Model.MultiTree Proofs.MultiTreeProofs Proofs.MultiTreeReadback.
From PDB Require Model.RcTable Proofs.RcTableProofs Proofs.RcRefines Proofs.MultiTreeForest Proofs.MultiTreePipe.
Import ListNotations.
Open Scope N_scope.

(* the stored form of a node - data, child addresses, child count in one byte - gives back exactly
   the data and the children in order, for every node with at most 255 children *)
Theorem C10_node_pack_roundtrip : forall data cs, (length cs <= 255)%nat -> Forall (fun c => c < 2^64) cs ->
  unpack_node (pack_node data cs) = Some (data, cs).
Proof. exact pack_roundtrip. Qed.

(* an insertion that cannot be represented (a node with more than 255 children anywhere in the
   tree) is rejected with an error and changes nothing (the repaired behaviour; finding F10 was the
   silent truncation) *)
Theorem C10_unrepresentable_rejected : forall cf s k t rest,
  255 < max_fanout t -> mcommit_tx cf s (UInsertTree k t :: rest) = (s, 1).
Proof. exact unrepresentable_rejected. Qed.

(* Read-back. [root_is g r t]: r is a root carrying t's data whose children are, one by one, a node
   carrying the supplied subtree (a new child) or exactly the address that was named (an existing
   child); [g] is the node lookup of the state, [carries] descends through it. For EVERY tree that
   can be represented and every state: as soon as the commit call has returned, the tree reads back
   exactly as supplied (through the commit overlay) ... *)
Theorem C10_insert_reads_back_after_commit :
  forall cf s k t s' code, max_fanout t <= 255 -> mcommit_tx cf s [UInsertTree k t] = (s', code) ->
  code = 0 /\ root_is (MultiTree.get_node s') (MultiTree.get_root s' k) t.
Proof. exact insert_readback_commit. Qed.

(* ... and after process_commits has written it (the overlay entries are gone, the nodes are read from
   the store), when nothing else was queued and the key was not present before *)
Theorem C10_insert_reads_back_after_processing :
  forall cf s k t s' code, max_fanout t <= 255 -> mqueue s = [] -> alook (roots s) k = None ->
  mcommit_tx cf s [UInsertTree k t] = (s', code) ->
  let s'' := mprocess cf s' in
  mqueue s'' = [] /\ root_is (MultiTree.get_node s'') (MultiTree.get_root s'' k) t.
Proof. exact insert_readback_processed. Qed.

(* Sharing: a node that another parent still references (count two or more) survives a dereference
   untouched, only its count goes down; a leaf nobody else references is removed. *)
Theorem C10_shared_node_survives_dereference :
  forall fuel s id c, alook (nrc s) id = Some c -> 2 <= c ->
  let s' := deref_children (S (S fuel)) s [id] in
  nodes s' = nodes s /\ roots s' = roots s /\ alook (nrc s') id = (if 2 <? c then Some (c - 1) else None).
Proof. exact shared_node_survives. Qed.
Theorem C10_unshared_leaf_is_reclaimed :
  forall fuel s id d, alook (nrc s) id = None -> MultiTree.get_node s id = Some {| n_data := d; n_children := [] |} -> alook (aov s) id = None ->
  let s' := deref_children (S (S fuel)) s [id] in alook (nodes s') id = None.
Proof. exact unshared_leaf_is_reclaimed. Qed.

(* Non-vacuity and read-back on the model: a tree with a shared node (the same existing child named
   twice), then the first tree is dereferenced: the shared node stays, its count drops. *)
Definition ex_cf : mcfg := {| m_rc := false; m_append_only := false |}.
Definition ex_state : mstate :=
  let s0 := fst (mcommit_tx ex_cf minit [UInsertTree 0 (TNode 7 [TNew (TNode 8 [TNew (TNode 9 [])])])]) in
  let s1 := mprocess ex_cf s0 in
  (* nodes got identities 1 (data 8) and 2 (data 9) *)
  let s2 := fst (mcommit_tx ex_cf s1 [UInsertTree 1 (TNode 70 [TExisting 2; TExisting 2])]) in
  let s3 := mprocess ex_cf s2 in
  let s4 := fst (mcommit_tx ex_cf s3 [UDerefTree 0]) in
  mprocess ex_cf s4.
Example C10_nonvacuous :
  option_map n_children (MultiTree.get_root ex_state 1) = Some [2; 2] /\
  option_map n_data (MultiTree.get_node ex_state 2) = Some 9 /\
  MultiTree.get_root ex_state 0 = None /\ MultiTree.get_node ex_state 1 = None /\
  alook (nrc ex_state) 2 = Some 2 /\ num_entries ex_state = 2 /\
  255 < max_fanout (TNode 1 (repeat (TNew (TNode 2 [])) 300)).
Proof. vm_compute. repeat split; reflexivity. Qed.

(* A transaction with an operation that is invalid for its column (a plain write to the tree column, a node with
   more than 255 children, a dereference on an append-only column, a reference on a column without counting) is
   rejected with nothing claimed and nothing registered: the state is literally unchanged (repair F7). *)
Theorem C10_invalid_operation_rejects_without_trace :
  forall cf s ops, (static_code cf ops <> 0 \/ static_ref_code cf ops <> 0) ->
  fst (mcommit_tx cf s ops) = s /\ snd (mcommit_tx cf s ops) <> 0.
Proof.
  intros cf s ops H. unfold mcommit_tx. destruct (N.eqb_spec (static_code cf ops) 0) as [E|E]; cbn [negb].
  - destruct H as [H|H]; [contradiction|]. destruct (N.eqb_spec (static_ref_code cf ops) 0) as [E2|E2]; [contradiction|]. cbn [negb fst snd]. split; [reflexivity|exact E2].
  - cbn [fst snd]. split; [reflexivity|exact E].
Qed.

(* Counter level. The reference count tables of a multitree column - a current table of 2^bits chunks with 32
   counters each, outgrown tables waiting in the reindex queue, a counter in the first free slot of the chunk its
   address hashes to, stale counters left behind in outgrown tables, reindex batches that move, skip and finally
   drop - answer every lookup (current table first, then the waiting ones, newest first) like the simplest
   possible account of references: a node that gained a reference has 2, every further one adds 1, every lost
   one takes 1 away, and the node that is back at one reference has no counter in any table. For every hash
   function into 64 bits, every first table size and every sequence of references gained and lost, reindex
   batches and restarts. *)
Module Counters.
Import PDB.Model.RcTable PDB.Proofs.RcTableProofs.
Theorem C10_counter_lookup_is_reference_count :
  forall (hf : N -> N), (forall a, hf a < 2 ^ 64) ->
  forall (bits : N) (ops : list rop), Forall (wf_op hf) ops ->
  forall a, rlookup (fold_left rstep ops (rinit bits)) a (hf a) = fold_left spec_step ops (fun _ => None) a.
Proof. exact rc_lookup_is_spec. Qed.

(* the account of references the tables are measured against, spelled out *)
Theorem C10_reference_account :
  forall sp a b,
  (spec_step sp (RInc a b) a = Some (match sp a with Some c => c + 1 | None => 2 end)) /\
  (spec_step sp (RDec a b) a = (match sp a with Some c => (if 2 <? c then Some (c - 1) else None) | None => None end)) /\
  (forall x, x <> a -> (spec_step sp (RInc a b) x = sp x) /\ (spec_step sp (RDec a b) x = sp x)) /\
  (spec_step sp RReindex = sp) /\ (spec_step sp RRestart = sp).
Proof.
  intros sp a b. cbn [spec_step]. unfold spec_inc, spec_dec. split; [unfold upd; rewrite N.eqb_refl; reflexivity|]. split.
  - destruct (sp a) as [c|] eqn:E; [unfold upd; rewrite N.eqb_refl; reflexivity|exact E].
  - split; [|split; reflexivity]. intros x Hx. split.
    + unfold upd. destruct (N.eqb_spec x a); [contradiction|reflexivity].
    + destruct (sp a); [|reflexivity]. unfold upd. destruct (N.eqb_spec x a); [contradiction|reflexivity].
Qed.

(* ... and that account is the count map of the multitree model: what a lookup in the tables gives is what the
   model's map holds, after every history; the map operations are literally what the model does when a node gains a
   reference (MIncRef) and when a counted node loses one (deref_children) *)
Theorem C10_tables_hold_the_models_count_map :
  forall (hf : N -> N), (forall a, hf a < 2 ^ 64) ->
  forall (bits : N) (ops : list rop), Forall (wf_op hf) ops ->
  forall a, rlookup (fold_left rstep ops (rinit bits)) a (hf a) = alook (fold_left PDB.Proofs.RcRefines.nrc_step ops []) a.
Proof. exact PDB.Proofs.RcRefines.tables_refine_count_map. Qed.
Theorem C10_count_map_steps_are_the_models :
  (forall cf fuel s i, nrc (apply_item cf fuel s (MIncRef i)) = PDB.Proofs.RcRefines.nrc_inc (nrc s) i) /\
  (forall fuel s i c, alook (nrc s) i = Some c -> nrc (deref_children (S (S fuel)) s [i]) = PDB.Proofs.RcRefines.nrc_dec (nrc s) i).
Proof. split; [exact PDB.Proofs.RcRefines.model_incref_is_nrc_inc|exact PDB.Proofs.RcRefines.model_deref_counted_is_nrc_dec]. Qed.

(* non-vacuity: a first table of two chunks; 33 nodes with odd addresses hash to chunk 1, the 33rd makes the table
   grow; node 1 gains a second extra reference while its counter is in the outgrown table (a stale counter stays
   behind), node 3 goes back to one reference (its counter leaves every table), a batch moves the rest and drops the
   outgrown table *)
Definition ex_hf (a : N) : N := (a mod 2) * 2 ^ 63 + a.
Definition ex_rops : list rop :=
  map (fun i => RInc (2 * N.of_nat i + 1) (ex_hf (2 * N.of_nat i + 1))) (seq 0 33) ++
  [RInc 1 (ex_hf 1); RDec 3 (ex_hf 3); RInc 4 (ex_hf 4); RReindex; RRestart; RReindex].
Example C10_counter_history :
  let st := fold_left rstep ex_rops (rinit 1) in
  Forall (wf_op ex_hf) ex_rops /\
  t_bits (rcur st) = 2 /\ rqueue st = [] /\
  rlookup st 1 (ex_hf 1) = Some 3 /\ rlookup st 3 (ex_hf 3) = None /\ rlookup st 5 (ex_hf 5) = Some 2 /\ rlookup st 4 (ex_hf 4) = Some 2 /\
  length (rqueue (fold_left rstep (firstn 35 ex_rops) (rinit 1))) = 1%nat /\
  tfind (hd (rcur st) (rqueue (fold_left rstep (firstn 34 ex_rops) (rinit 1)))) 1 (ex_hf 1) = Some (0%nat, 2).
Proof.
  split; [|vm_compute; repeat split; reflexivity].
  unfold ex_rops. apply Forall_app. split; [apply Forall_forall; intros o Ho; apply in_map_iff in Ho as [i [<- _]]; reflexivity|].
  repeat (constructor; [reflexivity || exact Logic.I|]). constructor.
Qed.
End Counters.

(* The whole forest. Histories of single-operation transactions on a column that is not append-only, each
   processed before the next one is made (nothing queued, no reader lock held), with restarts (drop + open, or a
   process crash + open) anywhere in between: an inserted tree names existing
   children that are stored nodes and uses a root key that is free. Then, whatever the trees share:
   - the count of every stored node is the number of references to it from roots and stored nodes,
   - every node that can be reached from a live root is stored ("shared nodes live until unreferenced"),
   - when the last root is gone the column holds no node, no count, no entry at all.
   Pipelined transactions, several operations per transaction and reader locks are tied to the code by the
   correspondence (c10) and, for locks, are where known finding F4 lives. *)
Module Forest.
Import PDB.Proofs.MultiTreeForest.
Theorem C10_count_is_number_of_references :
  forall cf s id, m_append_only cf = false -> forest_run cf s -> In id (map fst (nodes s)) ->
  N.to_nat (cnt s id) = (count_occ N.eq_dec (kids_r (roots s)) id + count_occ N.eq_dec (kids_n (nodes s)) id)%nat.
Proof. exact count_is_number_of_references. Qed.
Theorem C10_reachable_nodes_are_stored :
  forall cf s id, m_append_only cf = false -> forest_run cf s -> reach s id -> exists n, MultiTree.get_node s id = Some n.
Proof. exact reachable_nodes_are_stored. Qed.
Theorem C10_all_dereferenced_is_empty :
  forall cf s, m_append_only cf = false -> forest_run cf s -> roots s = [] -> nodes s = [] /\ nrc s = [] /\ num_entries s = 0.
Proof. exact all_dereferenced_is_empty. Qed.
(* the transaction-level step the three theorems rest on *)
Theorem C10_forest_invariant_kept :
  forall cf s op, m_append_only cf = false -> drained s -> FInv s -> forest_ok s op -> drained (tx1 cf s op) /\ FInv (tx1 cf s op).
Proof. intros cf s op Hao Hd Hf Hok. destruct Hok; [apply tx_insert|apply tx_ref|apply tx_deref]; assumption. Qed.

(* non-vacuity: tree 0 with a subtree; tree 1 shares the subtree (twice) and a leaf; tree 0 is dereferenced - the
   shared nodes stay, the unshared leaf goes; tree 1 is referenced and dereferenced twice - nothing is left *)
Definition fx_cf : mcfg := {| m_rc := true; m_append_only := false |}.
Definition fx_ops : list uop :=
  [UInsertTree 0 (TNode 10 [TNew (TNode 11 [TNew (TNode 12 []); TNew (TNode 13 [])]); TNew (TNode 14 [])]);
   UInsertTree 1 (TNode 20 [TExisting 1; TExisting 1; TExisting 3; TNew (TNode 21 [TExisting 2])]);
   UDerefTree 0; URefTree 1; UDerefTree 1; UDerefTree 1].
Fixpoint fx_run (ops : list uop) (s : mstate) : mstate := match ops with [] => s | o :: r => fx_run r (tx1 fx_cf s o) end.
Example C10_forest_history :
  forest_run fx_cf (fx_run fx_ops minit) /\
  (let s := fx_run (firstn 3 fx_ops) minit in
   map fst (nodes s) = [5; 1; 3; 2] /\ cnt s 1 = 2 /\ cnt s 2 = 2 /\ cnt s 3 = 2 /\ alook (nodes s) 4 = None /\ reach s 2) /\
  nodes (fx_run fx_ops minit) = [] /\ roots (fx_run fx_ops minit) = [].
Proof.
  split; [|vm_compute; repeat split; try reflexivity].
  - unfold fx_ops. cbn [fx_run].
    repeat (match goal with |- forest_run _ (tx1 _ ?s ?o) => apply (run_step fx_cf s o) end); [apply run_init| | | | | |];
      try (constructor; fail).
    + constructor; [vm_compute; reflexivity|intros i Hi; vm_compute in Hi; tauto].
    + constructor; [vm_compute; reflexivity|]. intros i Hi. vm_compute in Hi. vm_compute. tauto.
  - eapply reach_node with (p := 1) (n := {| n_data := 11; n_children := [2; 3] |}); [apply reach_root; vm_compute; tauto|vm_compute; reflexivity|left; reflexivity].
Qed.
End Forest.

(* The same with the commit pipeline in play: transactions of one operation are made at any moment (queued, their new
   nodes in the commit overlay) and processed later, in order, any number of them waiting; reader locks are taken and
   released at any moment (a dereference of a locked tree is postponed and goes to the back of the queue), a process
   crash loses what was queued.
   A commit may name as existing children nodes that an earlier, still queued commit will create. As long as every
   commit finds, when its turn comes, what its author saw - an insertion its root key free and the existing children
   it names stored, a dereference the root it read when it was made ([head_ok]) - the stored forest keeps the invariant
   after every processing step: counts are reference numbers, reachable nodes are stored, and once no root is left
   nothing is left. *)
Module Pipelined.
Import PDB.Proofs.MultiTreeForest PDB.Proofs.MultiTreePipe.
Theorem C10_pipelined_count_is_number_of_references :
  forall cf s id, m_append_only cf = false -> pipe_run cf s -> In id (map fst (nodes s)) ->
  N.to_nat (cnt s id) = (count_occ N.eq_dec (kids_r (roots s)) id + count_occ N.eq_dec (kids_n (nodes s)) id)%nat.
Proof. exact pipe_count_is_number_of_references. Qed.
Theorem C10_pipelined_reachable_nodes_are_stored :
  forall cf s id, m_append_only cf = false -> pipe_run cf s -> reach s id ->
  (exists n, alook (nodes s) id = Some n) /\ (exists n, MultiTree.get_node s id = Some n).
Proof. intros cf s id Hao Hr Hre. split; [exact (pipe_reachable_is_stored cf s id Hao Hr Hre)|exact (pipe_reachable_is_readable cf s id Hao Hr Hre)]. Qed.
Theorem C10_pipelined_all_dereferenced_is_empty :
  forall cf s, m_append_only cf = false -> pipe_run cf s -> roots s = [] -> nodes s = [] /\ nrc s = [] /\ num_entries s = 0.
Proof. exact pipe_all_dereferenced_is_empty. Qed.
Theorem C10_processing_keeps_the_forest :
  forall cf s c rest, PInv s -> mqueue s = c :: rest -> (must_defer s c rest = false -> head_ok s c) -> PInv (mprocess cf s).
Proof.
  intros cf s c rest P Hq Hok. destruct (must_defer s c rest) eqn:Hd; [exact (defer_keeps cf s c rest P Hq Hd)|exact (process_keeps cf s c rest P Hq Hd (Hok eq_refl))].
Qed.

(* non-vacuity: tree 0 and a tree 1 that shares node 1 of tree 0 are both committed before anything is processed (node 1
   only exists in the commit overlay when tree 1 names it); both are processed; both dereferences are committed, then
   processed: nothing is left *)
Definition px_cf : mcfg := {| m_rc := false; m_append_only := false |}.
Definition px_c (s : mstate) (o : uop) : mstate := fst (mcommit_tx px_cf s [o]).
Definition px_s2 : mstate := px_c (px_c minit (UInsertTree 0 (TNode 10 [TNew (TNode 11 [TNew (TNode 12 [])])]))) (UInsertTree 1 (TNode 20 [TExisting 1; TNew (TNode 21 [])])).
Definition px_s4 : mstate := mprocess px_cf (mprocess px_cf px_s2).
Definition px_s6 : mstate := px_c (px_c px_s4 (UDerefTree 0)) (UDerefTree 1).
Definition px_s8 : mstate := mprocess px_cf (mprocess px_cf px_s6).
Example C10_pipelined_history :
  pipe_run px_cf px_s8 /\ length (mqueue px_s2) = 2%nat /\ nodes px_s2 = [] /\
  map fst (nodes px_s4) = [3; 1; 2] /\ cnt px_s4 1 = 2 /\ nodes px_s8 = [] /\ roots px_s8 = [].
Proof.
  split; [|vm_compute; repeat split; reflexivity].
  assert (R2 : pipe_run px_cf px_s2).
  { unfold px_s2, px_c. apply pr_commit; [apply pr_commit; [apply pr_init|]|]; left; eexists; eexists; reflexivity. }
  assert (R3 : pipe_run px_cf (mprocess px_cf px_s2)).
  { destruct (mqueue px_s2) as [|c rest] eqn:Eq; [vm_compute in Eq; discriminate|]. eapply pr_process; [exact R2|exact Eq|intros _].
    vm_compute in Eq. injection Eq as <- <-. vm_compute. split; [reflexivity|]. intros i Hi; repeat (match type of Hi with _ \/ _ => destruct Hi as [Hi|Hi] end); try discriminate; try contradiction. }
  assert (R4 : pipe_run px_cf px_s4).
  { unfold px_s4. destruct (mqueue (mprocess px_cf px_s2)) as [|c rest] eqn:Eq; [vm_compute in Eq; discriminate|]. eapply pr_process; [exact R3|exact Eq|intros _].
    vm_compute in Eq. injection Eq as <- <-. vm_compute. split; [reflexivity|]. intros i Hi; repeat (match type of Hi with _ \/ _ => destruct Hi as [Hi|Hi] end); try discriminate; try contradiction; injection Hi as <-; tauto. }
  assert (R6 : pipe_run px_cf px_s6).
  { unfold px_s6, px_c. apply pr_commit; [apply pr_commit; [exact R4|]|]; right; right; eexists; reflexivity. }
  assert (R7 : pipe_run px_cf (mprocess px_cf px_s6)).
  { destruct (mqueue px_s6) as [|c rest] eqn:Eq; [vm_compute in Eq; discriminate|]. eapply pr_process; [exact R6|exact Eq|intros _].
    vm_compute in Eq. injection Eq as <- <-. vm_compute. reflexivity. }
  unfold px_s8. destruct (mqueue (mprocess px_cf px_s6)) as [|c rest] eqn:Eq; [vm_compute in Eq; discriminate|]. eapply pr_process; [exact R7|exact Eq|intros _].
  vm_compute in Eq. injection Eq as <- <-. vm_compute. reflexivity.
Qed.
End Pipelined.

Print Assumptions C10_node_pack_roundtrip.
Print Assumptions C10_unrepresentable_rejected.
Print Assumptions C10_insert_reads_back_after_commit.
Print Assumptions C10_insert_reads_back_after_processing.
Print Assumptions C10_shared_node_survives_dereference.
Print Assumptions C10_unshared_leaf_is_reclaimed.
Print Assumptions C10_invalid_operation_rejects_without_trace.
Print Assumptions Counters.C10_counter_lookup_is_reference_count.
Print Assumptions Counters.C10_reference_account.
Print Assumptions Forest.C10_count_is_number_of_references.
Print Assumptions Forest.C10_reachable_nodes_are_stored.
Print Assumptions Forest.C10_all_dereferenced_is_empty.
Print Assumptions Forest.C10_forest_invariant_kept.
Print Assumptions Counters.C10_tables_hold_the_models_count_map.
Print Assumptions Counters.C10_count_map_steps_are_the_models.
Print Assumptions Pipelined.C10_pipelined_count_is_number_of_references.
Print Assumptions Pipelined.C10_pipelined_reachable_nodes_are_stored.
Print Assumptions Pipelined.C10_pipelined_all_dereferenced_is_empty.
Print Assumptions Pipelined.C10_processing_keeps_the_forest.
