(* C10 - A committed tree reads back exactly; shared nodes live until unreferenced. *)
From Coq Require Import NArith List Bool.
From PDB Require Import Model.MultiTree Proofs.MultiTreeProofs.
Import ListNotations.
Open Scope N_scope.

(* the stored form of a node - data, child addresses, child count in one byte - gives back exactly
   the data and the children in order, for every node with at most 255 children *)
Theorem C10_node_pack_roundtrip : forall data cs, (length cs <= 255)%nat -> Forall (fun c => c < 2^64) cs ->
  unpack_node (pack_node data cs) = Some (data, cs).
Proof. exact pack_roundtrip. Qed.

(* an insertion that cannot be represented (a node with more than 255 children anywhere in the
   tree) is rejected with an error and changes nothing (the repaired behaviour; finding F10 was the
   silent truncation) *)
Theorem C10_unrepresentable_rejected : forall cf s k t rest,
  255 < max_fanout t -> mcommit_tx cf s (UInsertTree k t :: rest) = (s, 1).
Proof. exact unrepresentable_rejected. Qed.

(* Non-vacuity and read-back on the model: a tree with a shared node (the same existing child named
   twice), then the first tree is dereferenced: the shared node stays, its count drops. *)
Definition ex_cf : mcfg := {| m_rc := false; m_append_only := false |}.
Definition ex_state : mstate :=
  let s0 := fst (mcommit_tx ex_cf minit [UInsertTree 0 (TNode 7 [TNew (TNode 8 [TNew (TNode 9 [])])])]) in
  let s1 := mprocess ex_cf s0 in
  (* nodes got identities 1 (data 8) and 2 (data 9) *)
  let s2 := fst (mcommit_tx ex_cf s1 [UInsertTree 1 (TNode 70 [TExisting 2; TExisting 2])]) in
  let s3 := mprocess ex_cf s2 in
  let s4 := fst (mcommit_tx ex_cf s3 [UDerefTree 0]) in
  mprocess ex_cf s4.
Example C10_nonvacuous :
  option_map n_children (MultiTree.get_root ex_state 1) = Some [2; 2] /\
  option_map n_data (MultiTree.get_node ex_state 2) = Some 9 /\
  MultiTree.get_root ex_state 0 = None /\ MultiTree.get_node ex_state 1 = None /\
  alook (nrc ex_state) 2 = Some 2 /\ num_entries ex_state = 2 /\
  255 < max_fanout (TNode 1 (repeat (TNew (TNode 2 [])) 300)).
Proof. vm_compute. repeat split; reflexivity. Qed.

Print Assumptions C10_node_pack_roundtrip.
Print Assumptions C10_unrepresentable_rejected.
