(* C17 - Column administration and option checks never touch other columns' data.
   Theorems about the option/metadata text codec, the validation at open and the per-column
   file-name prefixes. All literal text (labels, keys, prefixes) is regenerated from the Rust
   source on every run (Gen/Consts.v), so these sweeps are re-evaluated against the code. *)
From Coq Require Import NArith List Bool.
From PDB Require Import Gen.Consts Model.Meta Proofs.MetaProofs.
Import ListNotations.
Open Scope N_scope.

(* every one of the 2^7 x 3 option values (valid or not) survives print + parse unchanged *)
Theorem C17_options_roundtrip :
  forall o : copt, o_compression o < 3 -> col_from_string (col_as_string o) = POk o.
Proof. exact options_roundtrip. Qed.

(* opening succeeds exactly when the stored and the requested column lists are equal in number and
   in every flag; otherwise it is refused with the class the code uses *)
Theorem C17_validate_iff :
  forall stored requested : list copt, validate stored requested = 0 <-> stored = requested.
Proof. exact validate_iff. Qed.
Theorem C17_validate_classes :
  forall stored requested : list copt,
  validate stored requested = 0 \/
  (validate stored requested = 2 /\ length stored <> length requested) \/
  (validate stored requested = 6 /\ length stored = length requested /\ stored <> requested).
Proof. exact validate_classes. Qed.

(* no file of column c' (whatever follows its prefix) is taken for a file of column c <> c' *)
Theorem C17_prefixes_disjoint :
  forall (c c' : N) (kind' rest : str),
  c < 256 -> c' < 256 -> c <> c' -> In kind' kinds ->
  is_col_file c (col_prefix kind' c' ++ rest) = false.
Proof. exact prefixes_disjoint. Qed.

(* hence removing the files of one column (reset / clear / drop-last column) leaves the files of
   every other column byte-identical, empties the column, and never removes metadata, lock or
   log files *)
Theorem C17_drop_files_frame :
  forall (c c' : N) (d : dir), c < 256 -> c' < 256 -> c <> c' ->
  files_of c' (drop_files c d) = files_of c' d.
Proof. exact drop_files_frame. Qed.
Theorem C17_drop_files_empties : forall (c : N) (d : dir), files_of c (drop_files c d) = [].
Proof. exact drop_files_empties. Qed.
Theorem C17_non_column_files_kept :
  forall (c : N) (name : str) (ch : N) (rest : str),
  name = ch :: rest -> ch = 109 \/ ch = 108 -> is_col_file c name = false.
Proof. exact non_column_files. Qed.

(* Non-vacuity: column 10 and column 100 ("index_10_" vs "index_100_"), a real directory shape. *)
Definition s (l : list N) : str := l.
Definition ex_dir : dir :=
  [(file_prefix_index ++ dec2 10 ++ [95; 49; 54], [1]); (file_prefix_index ++ dec2 100 ++ [95; 49; 54], [2]);
   (file_prefix_table ++ dec2 1 ++ [95; 48; 48], [3]); ([109; 101; 116; 97; 100; 97; 116; 97], [4]);
   ([108; 111; 103; 48], [5])].
Example C17_nonvacuous :
  map snd (drop_files 10 ex_dir) = [[2]; [3]; [4]; [5]] /\
  map snd (drop_files 100 ex_dir) = [[1]; [3]; [4]; [5]] /\
  map snd (files_of 1 ex_dir) = [[3]] /\
  validate [] [] = 0.
Proof. vm_compute. repeat split; reflexivity. Qed.

Print Assumptions C17_options_roundtrip.
Print Assumptions C17_validate_iff.
Print Assumptions C17_validate_classes.
Print Assumptions C17_prefixes_disjoint.
Print Assumptions C17_drop_files_frame.
Print Assumptions C17_drop_files_empties.
Print Assumptions C17_non_column_files_kept.
