(* C18 - At most one live handle per database directory (model level: the lock protocol of
   Model/Lock.v; the real Db::open / drop from threads and child processes is compared with it). *)
From Coq Require Import NArith List Bool.
From PDB Require Import Model.Lock Proofs.LockProofs.
Import ListNotations.
Open Scope N_scope.

(* After EVERY history of open attempts, drops, deaths and writes (each open attempt under a fresh
   name), at most one handle is alive. *)
Theorem C18_at_most_one_live_handle :
  forall (ops : list lop) (c0 : N),
  NoDup (flat_map (fun o => match o with LOpen h => [h] | _ => [] end) ops) ->
  (length (live {| holder := None; content := c0 |} ops []) <= 1)%nat.
Proof. exact at_most_one_live. Qed.

(* While a handle is alive every other attempt fails with the lock error and changes nothing. *)
Theorem C18_second_open_fails_and_changes_nothing :
  forall s h h', holder s = Some h' -> lstep s (LOpen h) = (s, 1).
Proof. exact second_open_fails_inert. Qed.

(* After the handle is dropped, or its process died, the directory can be opened again. *)
Theorem C18_reopen_after_drop_or_death :
  forall s h h2, holder s = Some h ->
  snd (lstep (fst (lstep s (LDrop h))) (LOpen h2)) = 0 /\ snd (lstep (fst (lstep s (LKill h))) (LOpen h2)) = 0.
Proof. exact reopen_after_release. Qed.

Theorem C18_only_the_holder_changes_the_directory :
  forall s h c, holder s <> Some h -> lstep s (LWrite h c) = (s, 1).
Proof. exact only_holder_writes. Qed.

Example C18_nonvacuous :
  snd (lrun {| holder := None; content := 0 |} [LOpen 1; LOpen 2; LWrite 1 7; LDrop 1; LOpen 3; LKill 3; LOpen 4]) = [0; 1; 0; 0; 0; 0; 0] /\
  live {| holder := None; content := 0 |} [LOpen 1; LOpen 2; LWrite 1 7; LDrop 1; LOpen 3; LKill 3; LOpen 4] [] = [4].
Proof. vm_compute. split; reflexivity. Qed.

Print Assumptions C18_at_most_one_live_handle.
Print Assumptions C18_second_open_fails_and_changes_nothing.
Print Assumptions C18_reopen_after_drop_or_death.
Print Assumptions C18_only_the_holder_changes_the_directory.
