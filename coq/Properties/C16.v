(* C16 - An I/O error stops the writer cleanly and never corrupts the database (model level: the
   pipeline model with a failed stage for reads and refusals, the write-ahead-log protocol for what
   the files hold at the moment of the failure and after the error shutdown). *)
From Coq Require Import NArith List Bool Arith.
From PDB Require Import Model.Pipeline Model.PipelineSpec Model.PipelineErr Proofs.PipelineErrProofs.
Import ListNotations.
Open Scope N_scope.

(* A stage fails after ANY history (the error is recorded the way store_err does): from then on every
   commit is refused with the background error and changes nothing, and every read - then and after
   any number of refused commits - still returns what the transactions accepted so far prescribe. *)
Theorem C16_reads_survive_and_commits_refused :
  forall (cfg : list ccfg) (f : loc -> val) (steps : list step) (txs : list tx) (c : col) (k : key),
  Forall (step_pre cfg f) steps -> c_rc (cfg_of cfg c) = false ->
  let s := fst (commits_after cfg (fail (run cfg init steps)) txs) in
  get s c k = spec_txs (fun _ => None) (accepted cfg steps) (c, k)
  /\ get_size s c k = option_map vlen (spec_txs (fun _ => None) (accepted cfg steps) (c, k))
  /\ snd (commits_after cfg (fail (run cfg init steps)) txs) = map (fun _ => 3) txs.
Proof. exact reads_survive_failure. Qed.

(* Non-vacuity: two commits logged, one enacted, a third queued; the stage fails; a further commit is
   refused; reads show all three accepted commits. *)
Definition ex_cfg : list ccfg := [{| c_btree := false; c_rc := false; c_preimage := false |}].
Definition ex_steps : list step :=
  [SCommit [(0, OSet 1 11)]; SProcess; SFlush; SEnactAll; SCommit [(0, OSet 2 22)]; SProcess; SCommit [(0, OSet 1 33)]].
Example C16_nonvacuous :
  let r := commits_after ex_cfg (fail (run ex_cfg init ex_steps)) [[(0, OSet 2 44)]] in
  snd r = [3] /\ map (get (fst r) 0) [1; 2; 3] = [Some 33; Some 22; None] /\ length (queue (fst r)) = 1%nat.
Proof. vm_compute. repeat split; reflexivity. Qed.

From PDB Require Import Model.Wal Proofs.WalProofs.

(* The failing operation may be ANY file operation of any step: whatever prefix of its file-level
   events the writer got through before it stopped, the files are in a reachable state of the log
   protocol (a trace that is accepted is accepted up to each of its instants) ... *)
Theorem C16_stopping_anywhere_is_reachable :
  forall (evs : list wev) (w w' : wst) (n : nat), wrun evs w = Some w' -> exists w'', wrun (firstn n evs) w = Some w''.
Proof. exact wrun_prefix. Qed.

(* ... and from every reachable state the records the log kept, replayed over the tables, give a
   prefix of the committed transactions that contains every synced one (reopen after the fault). *)
Theorem C16_reopen_after_fault_is_prefix :
  forall (T0 : base) (evs : list wev) (n : nat) (w : wst),
  wrun (firstn n evs) (init T0) = Some w ->
  forall m, (s w <= m <= length (recs w))%nat ->
  forall l, apply_recs (sub (recs w) (t w) m) (C w) l = apply_recs (firstn m (recs w)) T0 l.
Proof. intros T0 evs n w H. apply crash_recovers. eapply wrun_reach; [apply R0|exact H]. Qed.

(* The error shutdown (kill_logs with a background error): flush every table, then truncate the logs
   that were fully enacted - always accepted by the protocol, hence safe even against power loss.
   (Before the repair 9ee001a the flush was missing: finding F8.) *)
Theorem C16_error_shutdown_accepted :
  forall (w : wst) (n : nat), (t w <= n <= st w)%nat ->
  exists w1 w2, wstep w EFlush = Some w1 /\ wstep w1 (ETruncate n) = Some w2.
Proof. exact error_shutdown_accepted. Qed.

Print Assumptions C16_reads_survive_and_commits_refused.
Print Assumptions C16_stopping_anywhere_is_reachable.
Print Assumptions C16_reopen_after_fault_is_prefix.
Print Assumptions C16_error_shutdown_accepted.
