(* C13 - Damaged or stale write-ahead logs are rejected, never half-applied (model level: the
   byte-level record parser and replay acceptance of Model/WalCodec.v, compared on every run with
   what the real replay applies to damaged log files; the abstract protocol of Model/Wal.v for the
   resulting state). *)
From Coq Require Import NArith List Bool Arith.
From PDB Require Import Gen.Consts Model.Wal Model.WalCodec Proofs.WalProofs Proofs.WalCodecProofs Proofs.WalCodecRoundTrip Proofs.WalCodecRange.
Import ListNotations.
Open Scope N_scope.

(* WHATEVER bytes the log files contain: the ids the replay applies are consecutively numbered from
   the id the first file (in first-id order) announces; they are a prefix of the records found before
   the end of the first file that ends in an invalid record; and every record handed to the replay is
   complete, framed by BEGIN/END and carries the CRC-32 of its bytes, back to back from the start of
   one of the given files. *)
Theorem C13_replay_applies_only_valid_consecutive :
  forall (ncols : N) (logs : list bytes),
  (match order_logs logs with [] => replay_ids ncols logs = [] | b :: _ => consec (first_id b) (replay_ids ncols logs) end) /\
  (exists n, replay_ids ncols logs = firstn n (map fst (upto_bad (scanned ncols logs)))) /\
  Forall (fun f => exists b, In b logs /\ framed ncols b (fst f)) (scanned ncols logs).
Proof. exact replay_ids_sound. Qed.

(* what "accepted record" means, for any bytes *)
Theorem C13_accepted_record_is_complete_and_checksummed :
  forall ncols b id acts len, parse_record ncols b = PRecord id acts len ->
  exists blen, len = (blen + 4)%nat /\ (9 < blen)%nat /\ (blen + 4 <= length b)%nat /\
    nth_error b 0 = Some log_begin_record /\
    id = unle (firstn 8 (skipn 1 b)) /\
    nth_error b (blen - 1) = Some log_end_record /\
    unle (firstn 4 (skipn blen b)) = crc32 (firstn blen b).
Proof. exact parse_record_spec. Qed.

(* nothing after a validation error (a file whose scan ended in one): the files behind it do not influence
   the replay. (A reader error - checksum, cut header - ends only its own file; what follows is applied only
   if it continues the numbering, which after a skipped record only a second copy of that record can.) *)
Theorem C13_nothing_after_invalid :
  forall pre rs post e, replay_files (pre ++ (rs, FBad) :: post) e = replay_files (pre ++ [(rs, FBad)]) e.
Proof. exact replay_stops_at_invalid. Qed.

(* a record whose header could be read is judged by its id first: out of sequence, the whole replay stops
   there, whatever the rest of that record or the later files hold *)
Theorem C13_out_of_sequence_header_stops_replay :
  forall rs id post e l e', replay_recs rs e = (l, Some e') -> id <> e' -> replay_files ((rs, FCut id) :: post) e = l.
Proof. exact replay_stops_at_out_of_sequence_header. Qed.
Print Assumptions C13_out_of_sequence_header_stops_replay.

(* the scanner's fuel never runs out (no record is dropped for lack of fuel) *)
Theorem C13_scanner_total :
  forall ncols b, frecs ncols b (fst (file_records ncols (S (length b)) b)) (snd (file_records ncols (S (length b)) b)).
Proof. intros. apply file_records_spec. apply Nat.lt_succ_diag_r. Qed.

(* The other direction: a record as the writer serialises it (any id below 2^64, any well-formed
   actions) is parsed back as exactly that record, whatever follows it in the file - so every complete
   record that reached the file is replayed; and NO strict prefix of it is ever taken for a record -
   a torn tail is never applied. *)
Theorem C13_complete_record_is_accepted :
  forall ncols id acts tail,
  id < 2 ^ 64 -> Forall (wf_action ncols) acts -> Forall payload_ok acts ->
  parse_record ncols (serialize id acts ++ tail) = PRecord id acts (length (serialize id acts)).
Proof. exact parse_serialize. Qed.

Theorem C13_torn_record_never_applied :
  forall ncols id acts n id' acts' len',
  id < 2 ^ 64 -> Forall (wf_action ncols) acts -> Forall payload_ok acts ->
  (n < length (serialize id acts))%nat ->
  parse_record ncols (firstn n (serialize id acts)) <> PRecord id' acts' len'.
Proof. exact torn_record_never_applied. Qed.

Theorem C13_cut_inside_checksum_is_end_of_file :
  forall ncols id acts n,
  id < 2 ^ 64 -> Forall (wf_action ncols) acts -> (n < 4)%nat ->
  parse_record ncols (ser_body id acts ++ firstn n (le 4 (crc32 (ser_body id acts)))) = PCut id.
Proof. exact torn_checksum_is_eof. Qed.

(* The resulting state: a damaged log can only lose records. When the replayed prefix [t, m) still
   covers every record the tables already hold in whole or in part, the result is exactly the state
   after m records - a prefix, synced or not. *)
Theorem C13_surviving_prefix_gives_prefix_state :
  forall (T0 : base) (w : wst), reach T0 w ->
  forall m, (touched w <= m <= length (recs w))%nat ->
  forall l, apply_recs (sub (recs w) (t w) m) (C w) l = apply_recs (firstn m (recs w)) T0 l.
Proof. exact damaged_replay_prefix. Qed.

(* The last clause of C13 - "not older than what the tables already held" - does NOT hold of the
   faithful model: the log format records nowhere which records the tables hold, so a replay that
   ends before an already stored record writes an older prefix over newer tables. Witness: two
   records, both stored, the second lost from the log; the result is no prefix state. This is the
   known finding F18 (reproduced on the implementation by the C13 check, class
   damaged-log-mixes-states). *)
Theorem C13_older_prefix_over_newer_tables_refuted :
  exists w, wrun f18_evs (init (fun _ => 0)) = Some w /\ (t w <= 1 < touched w)%nat /\
    forall n, exists l, apply_recs (sub (recs w) (t w) 1) (C w) l <> apply_recs (firstn n (recs w)) (fun _ => 0) l.
Proof. exact damaged_replay_older_refuted. Qed.

(* Non-vacuity. Records 7, 8, then a record 9 whose checksum is wrong, then a file holding record 10: only
   7 and 8 are applied (10 is out of sequence). A checksum error or a record cut inside an action header is a
   reader error: it ends ITS file, and a second copy of record 9 in the next file is still applied. A record
   cut inside a payload, or naming a column that does not exist, is a validation error: everything left is
   discarded. Stray bytes after a record end that file. *)
Definition ex_rec (id : N) : bytes := serialize id [AValue 0 1 [3; 0; 9; 9; 9]].
Definition ex_bad : bytes := match rev (ex_rec 9) with x :: r => rev ((x + 1) mod 256 :: r) | [] => [] end.
Example C13_nonvacuous :
  replay_ids 1 [ex_rec 10; ex_rec 7 ++ ex_rec 8 ++ ex_bad] = [7; 8] /\
  replay_ids 1 [ex_rec 9 ++ ex_rec 10; ex_rec 7 ++ ex_rec 8 ++ ex_bad] = [7; 8; 9; 10] /\
  replay_ids 1 [ex_rec 9 ++ ex_rec 10; ex_rec 7 ++ ex_rec 8 ++ firstn 15 (ex_rec 9)] = [7; 8; 9; 10] /\
  replay_ids 1 [ex_rec 9 ++ ex_rec 10; ex_rec 7 ++ ex_rec 8 ++ firstn 20 (ex_rec 9)] = [7; 8] /\
  replay_ids 2 [ex_rec 9; ex_rec 7 ++ serialize 8 [AValue 999 1 [3; 0; 9; 9; 9]]] = [7] /\
  replay_ids 1 [ex_rec 10; ex_rec 7 ++ ex_rec 8] = [7; 8] /\
  replay_ids 1 [[1; 2; 3]; ex_rec 7 ++ [77]] = [7].
Proof. vm_compute. repeat split; reflexivity. Qed.

(* "Does not panic" for the part that is logic: an index (reference count) action of an accepted record names a
   chunk INSIDE the table file it addresses - the CHUNK_LEN bytes that enact_plan writes at
   META_SIZE + index * CHUNK_LEN end at or before the end of the file - for arbitrary bytes, whatever their checksum.
   The bound the code's validation uses is regenerated from src/index.rs / src/ref_count.rs (Gen/Consts.v:
   *_validate_chunk_factor); with `total_entries` instead of `total_chunks` (defect F26) these proofs do not go through. *)
Theorem C13_accepted_index_action_writes_inside_the_file :
  forall ncols b t i m es rest, parse_action ncols b = AOk (AIndex t i m es) rest ->
  t / 256 < ncols /\ i < 2 ^ (t mod 256) /\ index_write_end i <= index_file_size (t mod 256) /\
  length es = (popcount 64 m * 8)%nat.
Proof. exact accepted_index_action_in_range. Qed.

Theorem C13_accepted_counter_action_writes_inside_the_file :
  forall ncols b t i m es rest, parse_action ncols b = AOk (ARefc t i m es) rest ->
  t / 256 < ncols /\ i < 2 ^ (t mod 256) /\ refcount_write_end i <= refcount_file_size (t mod 256) /\
  length es = (popcount 64 m * 16)%nat.
Proof. exact accepted_counter_action_in_range. Qed.

Print Assumptions C13_accepted_index_action_writes_inside_the_file.
Print Assumptions C13_accepted_counter_action_writes_inside_the_file.
Print Assumptions C13_replay_applies_only_valid_consecutive.
Print Assumptions C13_accepted_record_is_complete_and_checksummed.
Print Assumptions C13_nothing_after_invalid.
Print Assumptions C13_scanner_total.
Print Assumptions C13_surviving_prefix_gives_prefix_state.
Print Assumptions C13_older_prefix_over_newer_tables_refuted.
Print Assumptions C13_complete_record_is_accepted.
Print Assumptions C13_torn_record_never_applied.
Print Assumptions C13_cut_inside_checksum_is_end_of_file.
