(* C06 - Values of every size are returned bit-exact: the storage format. *)
From Coq Require Import NArith List Bool.
From PDB Require Import Gen.Consts Model.ValueTable Proofs.ValueTableProofs.
Import ListNotations.
Open Scope N_scope.

(* the regenerated tier table is what the code relies on: 255 strictly increasing slot sizes within
   [MIN_ENTRY_SIZE, MAX_ENTRY_SIZE], ending at MAX_ENTRY_SIZE *)
Theorem C06_tiers_ok :
  length column_sizes = 255%nat /\ increasing column_sizes = true /\
  forallb (fun es => (table_min_entry_size <=? es) && (es <=? table_max_entry_size)) column_sizes = true /\
  last column_sizes 0 = table_max_entry_size.
Proof. exact sizes_ok. Qed.

(* no size header the code can write (any length a slot can hold, with or without the compressed
   bit) is one of the four markers *)
Theorem C06_markers_disjoint : forall len c, len <= 32758 ->
  bytes_eqb (le_encode 2 (header_val len c)) table_tombstone = false /\
  bytes_eqb (le_encode 2 (header_val len c)) table_multipart = false /\
  bytes_eqb (le_encode 2 (header_val len c)) table_multihead = false /\
  bytes_eqb (le_encode 2 (header_val len c)) table_multihead_compressed = false.
Proof. exact header_not_marker. Qed.

(* every slot form survives encoding to bytes and decoding, whatever bytes follow it in the slot *)
Theorem C06_slot_roundtrip : forall mp es s junk, slot_wf mp es s ->
  decode_slot mp es (encode_slot s ++ junk) = Some s.
Proof. exact slot_roundtrip. Qed.

(* a value of ANY length written as a fresh chain into the multipart tier (distinct slots) reads back
   exactly, counter and key tail included, with its compressed flag *)
Theorem C06_chain_roundtrip_multipart : forall es c prefix payload idxs T fuel,
  10 + N.of_nat (length prefix) < es -> es - 2 < N.of_nat (length prefix + length payload) ->
  (length payload + 1 < fuel)%nat -> (length payload + 1 < length idxs)%nat -> NoDup idxs -> ~ In 0 idxs ->
  read_chain fuel true (tbl_put T (write_chain fuel es true c prefix payload idxs)) (hd 0 idxs) true
  = Some (c, prefix ++ payload).
Proof. exact chain_roundtrip_multipart. Qed.

(* and in a fixed-size tier, where it fits one slot *)
Theorem C06_chain_roundtrip_single : forall es c prefix payload idxs T fuel,
  N.of_nat (length prefix + length payload) <= es - 2 -> (0 < fuel)%nat -> idxs <> [] ->
  read_chain fuel false (tbl_put T (write_chain fuel es true c prefix payload idxs)) (hd 0 idxs) true
  = Some (c, prefix ++ payload).
Proof. exact chain_roundtrip_single. Qed.

(* the tier the code chooses holds the value; a value sent to the multipart tier always needs at
   least two parts (so its first part is a multi-head, which is what the reader insists on) *)
Theorem C06_select_tier_fits : forall rcd keyed len t,
  select_tier rcd keyed len = t -> t < N.of_nat (length column_sizes) ->
  exists s, value_size (tier_entry_size t) rcd keyed = Some s /\ len <= s.
Proof. exact select_tier_fits. Qed.
Theorem C06_multipart_needs_two_parts : forall rcd keyed len,
  select_tier rcd keyed len = N.of_nat (length column_sizes) ->
  table_multipart_entry_size - table_size_size < prefix_size rcd keyed + len.
Proof. exact multipart_needs_two_parts. Qed.

(* Non-vacuity: a 9000-byte value with counter and key tail in the multipart tier: three parts. *)
Example C06_nonvacuous :
  let prefix := repeat 7 30 in let payload := repeat 9 9000 in
  select_tier true true 40000 = 255 /\
  length (write_chain 9002 4096 true false prefix payload [1; 2; 3; 4]) = 3%nat /\
  read_chain 9002 true (tbl_put (fun _ => None) (write_chain 9002 4096 true false prefix payload [1; 2; 3; 4])) 1 true
  = Some (false, prefix ++ payload).
Proof. vm_compute. repeat split; reflexivity. Qed.

Print Assumptions C06_tiers_ok.
Print Assumptions C06_markers_disjoint.
Print Assumptions C06_slot_roundtrip.
Print Assumptions C06_chain_roundtrip_multipart.
Print Assumptions C06_chain_roundtrip_single.
Print Assumptions C06_select_tier_fits.
Print Assumptions C06_multipart_needs_two_parts.
