(* C06 - Values of every size are returned bit-exact: the storage format. *)
From Coq Require Import NArith List Bool.
From PDB Require Import Gen.Consts Model.ValueTable Proofs.ValueTableProofs.
From PDB Require Model.StorageCheck Model.TableAlloc Proofs.ValueAllocCompose.
Import ListNotations.
Open Scope N_scope.

(* the regenerated tier table is what the code relies on: 255 strictly increasing slot sizes within
   [MIN_ENTRY_SIZE, MAX_ENTRY_SIZE], ending at MAX_ENTRY_SIZE *)
Theorem C06_tiers_ok :
  length column_sizes = 255%nat /\ increasing column_sizes = true /\
  forallb (fun es => (table_min_entry_size <=? es) && (es <=? table_max_entry_size)) column_sizes = true /\
  last column_sizes 0 = table_max_entry_size.
Proof. exact sizes_ok. Qed.

(* no size header the code can write (any length a slot can hold, with or without the compressed
   bit) is one of the four markers *)
Theorem C06_markers_disjoint : forall len c, len <= 32758 ->
  bytes_eqb (le_encode 2 (header_val len c)) table_tombstone = false /\
  bytes_eqb (le_encode 2 (header_val len c)) table_multipart = false /\
  bytes_eqb (le_encode 2 (header_val len c)) table_multihead = false /\
  bytes_eqb (le_encode 2 (header_val len c)) table_multihead_compressed = false.
Proof. exact header_not_marker. Qed.

(* every slot form survives encoding to bytes and decoding, whatever bytes follow it in the slot *)
Theorem C06_slot_roundtrip : forall mp es s junk, slot_wf mp es s ->
  decode_slot mp es (encode_slot s ++ junk) = Some s.
Proof. exact slot_roundtrip. Qed.

(* a value of ANY length written as a fresh chain into the multipart tier (distinct slots) reads back
   exactly, counter and key tail included, with its compressed flag *)
Theorem C06_chain_roundtrip_multipart : forall es c prefix payload idxs T fuel,
  10 + N.of_nat (length prefix) < es -> es - 2 < N.of_nat (length prefix + length payload) ->
  (length payload + 1 < fuel)%nat -> (length payload + 1 < length idxs)%nat -> NoDup idxs -> ~ In 0 idxs ->
  read_chain fuel true (tbl_put T (write_chain fuel es true c prefix payload idxs)) (hd 0 idxs) true
  = Some (c, prefix ++ payload).
Proof. exact chain_roundtrip_multipart. Qed.

(* and in a fixed-size tier, where it fits one slot *)
Theorem C06_chain_roundtrip_single : forall es c prefix payload idxs T fuel,
  N.of_nat (length prefix + length payload) <= es - 2 -> (0 < fuel)%nat -> idxs <> [] ->
  read_chain fuel false (tbl_put T (write_chain fuel es true c prefix payload idxs)) (hd 0 idxs) true
  = Some (c, prefix ++ payload).
Proof. exact chain_roundtrip_single. Qed.

(* the tier the code chooses holds the value; a value sent to the multipart tier always needs at
   least two parts (so its first part is a multi-head, which is what the reader insists on) *)
Theorem C06_select_tier_fits : forall rcd keyed len t,
  select_tier rcd keyed len = t -> t < N.of_nat (length column_sizes) ->
  exists s, value_size (tier_entry_size t) rcd keyed = Some s /\ len <= s.
Proof. exact select_tier_fits. Qed.
Theorem C06_multipart_needs_two_parts : forall rcd keyed len,
  select_tier rcd keyed len = N.of_nat (length column_sizes) ->
  table_multipart_entry_size - table_size_size < prefix_size rcd keyed + len.
Proof. exact multipart_needs_two_parts. Qed.

(* Non-vacuity: a 9000-byte value with counter and key tail in the multipart tier: three parts. *)
Example C06_nonvacuous :
  let prefix := repeat 7 30 in let payload := repeat 9 9000 in
  select_tier true true 40000 = 255 /\
  length (write_chain 9002 4096 true false prefix payload [1; 2; 3; 4]) = 3%nat /\
  read_chain 9002 true (tbl_put (fun _ => None) (write_chain 9002 4096 true false prefix payload [1; 2; 3; 4])) 1 true
  = Some (false, prefix ++ payload).
Proof. vm_compute. repeat split; reflexivity. Qed.

(* Composed with the allocator (C14): in EVERY table the allocator can reach - by any sequence of values stored,
   removed and replaced in place - a value written into the slots the allocator hands out reads back exactly,
   whatever the other slots hold: for a new value (alloc_chain takes as many slots as parts_needed says, from the free
   list first) and for a value that replaces the j-th live value (areplace: the old chain reused, extended or cut). *)
Module Alloc.
Import PDB.Model.StorageCheck PDB.Model.TableAlloc PDB.Proofs.ValueAllocCompose.
Theorem C06_stored_value_reads_back_in_every_reachable_table :
  forall es c prefix payload T fuel, 10 + N.of_nat (length prefix) < es -> (length payload + 1 < fuel)%nat ->
  forall ops d' l, es - 2 < N.of_nat (length prefix + length payload) ->
  alloc_chain (parts_needed fuel es (N.of_nat (length prefix)) (N.of_nat (length payload))) (fst (fold_left astep ops (empty_table, []))) = (d', l) ->
  read_chain fuel true (tbl_put T (write_chain fuel es true c prefix payload l)) (hd 0 l) true = Some (c, prefix ++ payload).
Proof. exact stored_value_reads_back. Qed.
Theorem C06_replaced_value_reads_back_in_every_reachable_table :
  forall es c prefix payload T fuel, 10 + N.of_nat (length prefix) < es -> (length payload + 1 < fuel)%nat ->
  forall ops j old d' l, es - 2 < N.of_nat (length prefix + length payload) ->
  nth_error (snd (fold_left astep ops (empty_table, []))) j = Some old ->
  areplace (fst (fold_left astep ops (empty_table, []))) old (parts_needed fuel es (N.of_nat (length prefix)) (N.of_nat (length payload)) - 1) = (d', l) ->
  read_chain fuel true (tbl_put T (write_chain fuel es true c prefix payload l)) (hd 0 l) true = Some (c, prefix ++ payload).
Proof. exact replaced_value_reads_back. Qed.

(* non-vacuity: entries of 64 bytes; a table with a hole in its free list (values of 3, 1 and 2 slots stored, the
   first removed); a 150-byte value needs 3 slots and gets the freed ones back (3, 2, 1: the free list is a stack); then the
   2-slot value is replaced by it in place: its chain is kept and extended by one slot *)
Definition ax_ops : list aop := [AStore 2; AStore 0; AStore 1; ARemove 0].
Definition ax_payload : bytes := map N.of_nat (seq 0 150).
Example C06_allocated_chain_history :
  let st := fold_left astep ax_ops (empty_table, []) in
  parts_needed 200 64 0 150 = 3%nat /\
  snd (alloc_chain 3 (fst st)) = [3; 2; 1] /\
  nth_error (snd st) 1 = Some [5; 6] /\
  snd (areplace (fst st) [5; 6] 2) = [5; 6; 3] /\
  read_chain 200 true (tbl_put (fun _ => None) (write_chain 200 64 true false [] ax_payload [5; 6; 3])) 5 true = Some (false, ax_payload).
Proof. vm_compute. repeat split; reflexivity. Qed.
End Alloc.

Print Assumptions C06_tiers_ok.
Print Assumptions C06_markers_disjoint.
Print Assumptions C06_slot_roundtrip.
Print Assumptions C06_chain_roundtrip_multipart.
Print Assumptions C06_chain_roundtrip_single.
Print Assumptions C06_select_tier_fits.
Print Assumptions C06_multipart_needs_two_parts.
Print Assumptions Alloc.C06_stored_value_reads_back_in_every_reachable_table.
Print Assumptions Alloc.C06_replaced_value_reads_back_in_every_reachable_table.
