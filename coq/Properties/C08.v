(* C08 - A rejected transaction leaves no trace (pipeline-model level). *)
From Coq Require Import NArith List Bool.
From PDB Require Import Model.Pipeline Model.PipelineSpec Proofs.PipelineTop Proofs.PipelineRc.
Import ListNotations.
Open Scope N_scope.

(* A commit call that returns an error returns the state it was given: same overlays, same queue,
   same log, same tables, same commit and record counters - hence the same answer to every later
   read, iteration or step. (The model's [commit] reproduces the order of the checks in
   commit_changes / commit_raw: background error first, then validation of the whole change set,
   and only then the overlay writes - the order the repaired code has; finding F1 was the
   original order.) *)
Theorem C08_rejected_no_trace :
  forall (cfg : list ccfg) (s : pstate) (t : tx),
  snd (commit cfg s t) <> 0 -> fst (commit cfg s t) = s.
Proof. exact rejected_no_trace. Qed.

(* In the background-error state every commit is refused with that error and changes nothing. *)
Theorem C08_bg_error_refusal :
  forall (cfg : list ccfg) (s : pstate) (t : tx), bg_err s = true -> commit cfg s t = (s, 3).
Proof. exact bg_error_refusal. Qed.

(* History level: the reads of any history are those of the accepted transactions only - a
   rejected transaction, whatever valid operations it also contains and wherever it occurs, is
   not among them (this is C01_reads_are_spec with [accepted] dropping rejected commits); and a
   commit is rejected exactly when it contains an operation that is invalid for its column. *)
Theorem C08_rejected_iff_invalid :
  forall (cfg : list ccfg) (s : pstate) (t : tx),
  bg_err s = false -> (snd (commit cfg s t) <> 0 <-> tx_valid cfg t = false).
Proof.
  intros cfg s t Hb. split; [intros H; apply (rejected_not_accepted cfg s t H Hb)|].
  intros Hv. unfold commit. rewrite Hb, Hv. cbn. discriminate.
Qed.

(* Non-vacuity: a transaction with a valid Set followed by a Reference on an uncounted column. *)
Definition ex_cfg : list ccfg := [{| c_btree := false; c_rc := false; c_preimage := false |}].
Example C08_nonvacuous :
  let s := run ex_cfg init [SCommit [(0, OSet 1 11)]; SProcess] in
  commit ex_cfg s [(0, OSet 2 22); (0, ORef 1)] = (s, 1) /\
  get (fst (commit ex_cfg s [(0, OSet 2 22); (0, ORef 1)])) 0 2 = None.
Proof. vm_compute. split; reflexivity. Qed.

Print Assumptions C08_rejected_no_trace.
Print Assumptions C08_bg_error_refusal.
Print Assumptions C08_rejected_iff_invalid.
