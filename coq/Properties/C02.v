(* C02 - A crash at any instant recovers to a prefix of the committed transactions (model level:
   the write-ahead-log protocol of Model/Wal.v; the event traces of the implementation are accepted
   by its executable form [wrun], the crash images themselves are opened with the real code). *)
From Coq Require Import NArith List Bool Arith.
From PDB Require Import Model.Wal Proofs.WalProofs.
Import ListNotations.
Open Scope N_scope.

(* The process stops at ANY state the protocol can reach - between or inside the enactment of a
   record ([k] writes of record [st] done), with any number of records appended but not synced, any
   log files already truncated. The page cache survives: tables hold [C], the log holds the records
   [t, m) for some m between the synced count and the appended count (the unsynced tail may be cut
   anywhere; a record cut short is no record). Replaying them over the tables yields, at every
   location, exactly the state after the first m records: a prefix, each record whole. *)
Theorem C02_crash_recovers_prefix :
  forall (T0 : base) (w : wst), reach T0 w ->
  forall m, (s w <= m <= length (recs w))%nat ->
  forall l, apply_recs (sub (recs w) (t w) m) (C w) l = apply_recs (firstn m (recs w)) T0 l.
Proof. exact crash_recovers. Qed.

(* ... for every prefix of every event trace the executable protocol accepts (the traces observed
   on the implementation are fed to [wrun] on every run of the check) *)
Theorem C02_accepted_trace_reaches :
  forall (T0 : base) (evs : list wev) (w w' : wst), reach T0 w -> wrun evs w = Some w' -> reach T0 w'.
Proof. exact wrun_reach. Qed.

(* Crashes during recovery itself, repeated any number of times: whatever the locations written by
   the kept records hold when a recovery starts (a half-finished earlier recovery), replaying the
   kept records gives the same tables. *)
Theorem C02_recovery_restartable :
  forall (rs : list record) (X Y : base), (forall l, wrs rs l = false -> Y l = X l) ->
  forall l, apply_recs rs Y l = apply_recs rs X l.
Proof. exact recovery_restartable. Qed.

Theorem C02_recovery_after_partial_recovery :
  forall (rs : list record) (X : base) (j : nat) (l : N),
  apply_recs rs (apply_recs (firstn j rs) X) l = apply_recs rs X l.
Proof. exact recovery_after_partial_recovery. Qed.

(* Non-vacuity: three records, two synced, the first enacted and truncated away, the second half
   enacted; the crash image replayed with and without the unsynced third record. *)
Definition ex_r (a b : N) : record := {| ws := [(a, b); (a + 1, b)] |}.
Definition ex_evs : list wev :=
  [EAppend (ex_r 0 1); EAppend (ex_r 1 2); ESyncLog; EStore; EStore; EFinish; EFlush; ETruncate 1; EAppend (ex_r 0 3); EStore].
Example C02_nonvacuous :
  exists w, wrun ex_evs (init (fun _ => 0)) = Some w /\ s w = 2%nat /\ st w = 1%nat /\ k w = 1%nat /\ t w = 1%nat /\
    length (recs w) = 3%nat /\
    map (apply_recs (sub (recs w) (t w) 2) (C w)) [0; 1; 2] = [1; 2; 2] /\
    map (apply_recs (sub (recs w) (t w) 3) (C w)) [0; 1; 2] = [3; 3; 2].
Proof. eexists. split; [vm_compute; reflexivity|]. vm_compute. repeat split; reflexivity. Qed.

Print Assumptions C02_crash_recovers_prefix.
Print Assumptions C02_accepted_trace_reaches.
Print Assumptions C02_recovery_restartable.
Print Assumptions C02_recovery_after_partial_recovery.
