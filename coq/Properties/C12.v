(* C12 - Power loss cannot tear state: log synced before apply, data before log reuse (model level:
   Model/Wal.v with a durable image D beside the page-cache image C). *)
From Coq Require Import NArith List Bool Arith.
From PDB Require Import Model.Wal Proofs.WalProofs.
Import ListNotations.
Open Scope N_scope.

(* Power is lost at ANY reachable state. Of everything written since the last flush an arbitrary
   subset reaches the disk: every location that is dirty holds an ARBITRARY value in D' (this covers
   every subset of pages, and torn pages); of the log, the records [t, m) survive for an arbitrary m
   between the synced count and the appended count. Recovery yields exactly the state after the
   first m records - a prefix that contains every synced record. *)
Theorem C12_power_loss_recovers_prefix :
  forall (T0 : base) (w : wst), reach T0 w ->
  forall m D', (s w <= m <= length (recs w))%nat ->
  (forall l, dirty w l = false -> D' l = D w l) ->
  forall l, apply_recs (sub (recs w) (t w) m) D' l = apply_recs (firstn m (recs w)) T0 l.
Proof. exact power_loss_recovers. Qed.

Theorem C12_accepted_trace_power_loss :
  forall (T0 : base) (evs : list wev) (w : wst), wrun evs (init T0) = Some w ->
  forall m D', (s w <= m <= length (recs w))%nat ->
  (forall l, dirty w l = false -> D' l = D w l) ->
  forall l, apply_recs (sub (recs w) (t w) m) D' l = apply_recs (firstn m (recs w)) T0 l.
Proof. exact accepted_trace_power_loss. Qed.

(* The "equivalently" clause, as what the acceptor demands of every observed event: a store on
   behalf of a record happens only when that record is synced (D1); a truncation is accepted only if every cell stored to since the last sync of its
   file is written again by a record that stays in the log (D2 in its weakest sound form: the
   recovery theorem above is proved from exactly this guard). *)
Theorem C12_store_only_synced :
  forall w w', wstep w EStore = Some w' -> (st w < s w)%nat.
Proof. exact store_needs_sync. Qed.

Theorem C12_truncate_only_covered :
  forall w n w', wstep w (ETruncate n) = Some w' ->
  (t w <= n <= st w)%nat /\ forall l, dirty w l = true -> wrs (sub (recs w) n (st w)) l || wr (cur w) l = true.
Proof. exact truncate_needs_cover. Qed.

(* ... which the order "flush every table, then truncate what was stored before" always meets *)
Theorem C12_truncate_after_flush_accepted :
  forall w n, (t w <= n <= st w)%nat -> dirtyl w = [] -> exists w', wstep w (ETruncate n) = Some w'.
Proof. exact truncate_after_flush. Qed.

(* and both are needed: without D1 (a store for an unsynced record) or without D2 (truncating past
   the flush point) a power loss leaves a state that is no prefix *)
Theorem C12_D1_needed : exists T0 w D' m, (s w <= m <= length (recs w))%nat /\
  (forall l, dirty w l = false -> D' l = D w l) /\
  forall n, exists l, apply_recs (sub (recs w) (t w) m) D' l <> apply_recs (firstn n (recs w)) T0 l.
Proof. exact d1_needed. Qed.

Theorem C12_D2_needed : exists T0 w D' m, (s w <= m <= length (recs w))%nat /\
  (forall l, dirty w l = false -> D' l = D w l) /\
  forall n, exists l, apply_recs (sub (recs w) (t w) m) D' l <> apply_recs (firstn n (recs w)) T0 l.
Proof. exact d2_needed. Qed.

(* Non-vacuity: a reachable state with dirty locations; one of them lost, one half-written. *)
Definition ex_r (a b : N) : record := {| ws := [(a, b); (a + 1, b)] |}.
Definition ex_evs : list wev :=
  [EAppend (ex_r 0 1); EAppend (ex_r 1 2); ESyncLog; EStore; EStore; EFinish; EStore; EAppend (ex_r 5 5)].
Example C12_nonvacuous :
  exists w, wrun ex_evs (init (fun _ => 0)) = Some w /\ map (dirty w) [0; 1; 2] = [true; true; false] /\
    let D' := fun l => if l =? 0 then 77 else if l =? 1 then 2 else D w l in
    map (apply_recs (sub (recs w) (t w) 2) D') [0; 1; 2] = [1; 2; 2].
Proof. eexists. split; [vm_compute; reflexivity|]. vm_compute. split; reflexivity. Qed.

Print Assumptions C12_power_loss_recovers_prefix.
Print Assumptions C12_accepted_trace_power_loss.
Print Assumptions C12_store_only_synced.
Print Assumptions C12_truncate_only_covered.
Print Assumptions C12_truncate_after_flush_accepted.
Print Assumptions C12_D1_needed.
Print Assumptions C12_D2_needed.
