(* C11 - A locked tree reader is never invalidated, and deferral keeps commit order. *)
From Coq Require Import NArith List Bool.
From PDB Require Import Model.MultiTree Proofs.MultiTreeProofs Proofs.MultiTreeDrain.
Import ListNotations.
Open Scope N_scope.

(* While the reader lock of tree k is held, processing the commit that dereferences k changes
   neither roots, nodes, node counts nor the other column: the commit stays queued (postponed). *)
Theorem C11_locked_tree_stable : forall cf s c rest k,
  mqueue s = c :: rest -> mc_check c = true -> In k (deref_keys (mc_items c)) -> amem (locked s) k = true ->
  store_eq (mprocess cf s) s /\ locked (mprocess cf s) = locked s
  /\ exists c', In c' (mqueue (mprocess cf s)) /\ mc_items c' = mc_items c.
Proof. exact locked_tree_stable. Qed.

(* The second half of the property - "the final state equals that of applying all transactions in
   the order their commit calls returned" - is FALSE of the faithful model, hence of the code
   (finding F4, reproduced on the implementation by the harness): T1 = [dereference the locked tree
   0; set key 5 := 111] returns first, T2 = [set key 5 := 222] returns second, T1 is re-queued
   behind T2 as a whole, and the final value of key 5 is 111. *)
Theorem C11_order_preserved_refuted : get_kv f4_history 5 = Some 111 /\ mqueue f4_history = [].
Proof. exact order_preserved_refuted. Qed.

(* "once the lock is released the postponed removal completes": with no reader lock held, n*n calls of
   process_commits empty a queue of n commits, whatever the commits dereference and use. (A commit is
   deferred only for commits made after it; the one made last is never deferred, and every rotation
   brings the first commit that is not deferred one place nearer to the head.) *)
Theorem C11_postponed_removals_complete : forall cf s,
  locked s = [] -> mqueue (mprocess_all cf (length (mqueue s) * length (mqueue s)) s) = [].
Proof. exact postponed_removals_complete. Qed.

(* Before repair F24 a commit waited for every queued user of its tree, made earlier or later: the three
   commits of f24_queue (each dereferences a tree another one uses) then rotate for ever - after every
   third call of process_commits the queue is what it was. Under the repaired rule it is empty after 6. *)
Theorem C11_old_deferral_rule_rotates_for_ever : forall n, qiter_old (3 * n) f24_queue = f24_queue.
Proof. exact old_rule_rotates_for_ever. Qed.
Example C11_same_queue_drains_now : qiter 6 f24_queue = [].
Proof. exact f24_queue_drains. Qed.

Print Assumptions C11_locked_tree_stable.
Print Assumptions C11_postponed_removals_complete.
Print Assumptions C11_old_deferral_rule_rotates_for_ever.
Print Assumptions C11_order_preserved_refuted.
