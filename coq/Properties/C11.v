(* C11 - A locked tree reader is never invalidated, and deferral keeps commit order. *)
From Coq Require Import NArith List Bool.
From PDB Require Import Model.MultiTree Proofs.MultiTreeProofs Proofs.MultiTreeDrain.
From PDB Require Proofs.MultiTreeForest Proofs.MultiTreePipe.
Import ListNotations.
Open Scope N_scope.

(* While the reader lock of tree k is held, processing the commit that dereferences k changes
   neither roots, nodes, node counts nor the other column: the commit stays queued (postponed). *)
Theorem C11_locked_tree_stable : forall cf s c rest k,
  mqueue s = c :: rest -> mc_check c = true -> In k (deref_keys (mc_items c)) -> amem (locked s) k = true ->
  store_eq (mprocess cf s) s /\ locked (mprocess cf s) = locked s
  /\ exists c', In c' (mqueue (mprocess cf s)) /\ mc_items c' = mc_items c.
Proof. exact locked_tree_stable. Qed.

(* The second half of the property - "the final state equals that of applying all transactions in
   the order their commit calls returned" - is FALSE of the faithful model, hence of the code
   (finding F4, reproduced on the implementation by the harness): T1 = [dereference the locked tree
   0; set key 5 := 111] returns first, T2 = [set key 5 := 222] returns second, T1 is re-queued
   behind T2 as a whole, and the final value of key 5 is 111. *)
Theorem C11_order_preserved_refuted : get_kv f4_history 5 = Some 111 /\ mqueue f4_history = [].
Proof. exact order_preserved_refuted. Qed.

(* "once the lock is released the postponed removal completes": with no reader lock held, n*n calls of
   process_commits empty a queue of n commits, whatever the commits dereference and use. (A commit is
   deferred only for commits made after it; the one made last is never deferred, and every rotation
   brings the first commit that is not deferred one place nearer to the head.) *)
Theorem C11_postponed_removals_complete : forall cf s,
  locked s = [] -> mqueue (mprocess_all cf (length (mqueue s) * length (mqueue s)) s) = [].
Proof. exact postponed_removals_complete. Qed.

(* Before repair F24 a commit waited for every queued user of its tree, made earlier or later: the three
   commits of f24_queue (each dereferences a tree another one uses) then rotate for ever - after every
   third call of process_commits the queue is what it was. Under the repaired rule it is empty after 6. *)
Theorem C11_old_deferral_rule_rotates_for_ever : forall n, qiter_old (3 * n) f24_queue = f24_queue.
Proof. exact old_rule_rotates_for_ever. Qed.
Example C11_same_queue_drains_now : qiter 6 f24_queue = [].
Proof. exact f24_queue_drains. Qed.

(* The first half of the property for whole schedules. From any state a pipelined history reaches (single-operation
   transactions made and processed at any moment, locks taken and released, crashes), as long as the reader lock of
   tree k stays held - whatever else is committed (dereferences of k, trees that reuse its nodes, dereferences of
   trees that share nodes with it), processed, postponed, locked or unlocked meanwhile - the root of k stays what it
   was and every node of the tree stays stored and readable. (Every processed commit is assumed to find what its
   author saw - [head_ok]; where known finding F4 lets a postponed transaction be overtaken that assumption is what
   fails.) *)
Module Held.
Import PDB.Proofs.MultiTreeForest PDB.Proofs.MultiTreePipe.
Theorem C11_locked_tree_root_is_kept :
  forall cf k s s' r, m_append_only cf = false -> pipe_run cf s -> held_run cf k s s' ->
  amem (locked s) k = true -> holds_root s k r -> holds_root s' k r /\ amem (locked s') k = true.
Proof. exact locked_tree_root_is_kept. Qed.
Theorem C11_locked_tree_stays_readable :
  forall cf k s s' r, m_append_only cf = false -> pipe_run cf s -> held_run cf k s s' ->
  amem (locked s) k = true -> holds_root s k r ->
  holds_root s' k r /\ forall id, tree_reach s' r id -> exists n, get_node s' id = Some n.
Proof. exact locked_tree_stays_readable. Qed.

Theorem C11_locked_tree_is_unchanged :
  forall cf k s s' r, m_append_only cf = false -> pipe_run cf s -> held_run cf k s s' ->
  amem (locked s) k = true -> holds_root s k r ->
  forall id n, tree_reach s r id -> alook (nodes s) id = Some n -> alook (nodes s') id = Some n /\ tree_reach s' r id.
Proof. exact locked_tree_is_unchanged. Qed.

(* The order half, where it does hold: without a lock nothing is postponed - the head of the queue is applied and the
   queue is the queue of commit calls in their order (a commit made while no lock is held makes nobody wait). The
   refutation above needs a lock: that is where F4 lives. *)
Theorem C11_without_locks_commit_order_is_kept :
  forall cf s c rest, mqueue s = c :: rest -> locked s = [] -> Forall (fun c' => mc_used c' = []) rest ->
  must_defer s c rest = false /\ mqueue (mprocess cf s) = rest.
Proof. exact no_lock_no_postponement. Qed.
Theorem C11_commit_without_lock_makes_nobody_wait :
  forall cf s op c, locked s = [] -> In c (mqueue (fst (mcommit_tx cf s [op]))) -> ~ In c (mqueue s) -> mc_used c = [].
Proof. exact commit_without_lock_uses_nothing. Qed.

(* non-vacuity: tree 0 stored, its reader lock taken; then its dereference is committed together with a tree 1 that
   reuses node 1 of tree 0, and everything is processed twice over: the dereference is postponed, tree 1 is stored, tree 0
   and its nodes are still there *)
Lemma postponed_needs_nothing s c rest (P : Prop) : must_defer s c rest = true -> must_defer s c rest = false -> P.
Proof. intros H1 H2. rewrite H1 in H2. discriminate. Qed.
Definition hx_cf : mcfg := {| m_rc := false; m_append_only := false |}.
Definition hx_c (s : mstate) (o : uop) : mstate := fst (mcommit_tx hx_cf s [o]).
Definition hx_s0 : mstate := mlock (mprocess hx_cf (hx_c minit (UInsertTree 0 (TNode 10 [TNew (TNode 11 [TNew (TNode 12 [])])])))) 0.
Definition hx_s1 : mstate := mprocess hx_cf (mprocess hx_cf (hx_c (hx_c hx_s0 (UDerefTree 0)) (UInsertTree 1 (TNode 20 [TExisting 1])))).
Example C11_held_history :
  pipe_run hx_cf hx_s0 /\ held_run hx_cf 0 hx_s0 hx_s1 /\ amem (locked hx_s0) 0 = true /\
  holds_root hx_s0 0 {| n_data := 10; n_children := [1] |} /\
  length (mqueue hx_s1) = 1%nat /\ map fst (roots hx_s1) = [1; 0] /\ map fst (nodes hx_s1) = [1; 2] /\ cnt hx_s1 1 = 2.
Proof.
  split; [|split; [|vm_compute; repeat split; try reflexivity; eexists; reflexivity]].
  - unfold hx_s0, hx_c. apply pr_lock.
    match goal with |- pipe_run _ (mprocess _ ?S) =>
      let q := eval vm_compute in (mqueue S) in
      match q with ?c :: ?rest => apply (pr_process hx_cf S c rest); [|vm_cast_no_check (eq_refl q)|intros _] end end.
    + apply pr_commit; [apply pr_init|left; eexists; eexists; reflexivity].
    + vm_compute. split; [reflexivity|]. intros i Hi; repeat (match type of Hi with _ \/ _ => destruct Hi as [Hi|Hi] end); try discriminate; try contradiction.
  - unfold hx_s1, hx_c.
    eapply hr_step; [eapply hr_step; [eapply hr_step; [eapply hr_step; [apply hr_refl|]|]|]|].
    + apply (hs_commit hx_cf 0 hx_s0 (UDerefTree 0)). right. right. eexists. reflexivity.
    + apply (hs_commit hx_cf 0 _ (UInsertTree 1 (TNode 20 [TExisting 1]))). left. eexists. eexists. reflexivity.
    + match goal with |- held_step _ _ ?S _ =>
        let q := eval vm_compute in (mqueue S) in
        match q with ?c :: ?rest => apply (hs_process hx_cf 0 S c rest); [vm_cast_no_check (eq_refl q)|];
          apply (postponed_needs_nothing S c rest); vm_cast_no_check (eq_refl true) end end.
    + match goal with |- held_step _ _ ?S _ =>
        let q := eval vm_compute in (mqueue S) in
        match q with ?c :: ?rest => apply (hs_process hx_cf 0 S c rest); [vm_cast_no_check (eq_refl q)|] end end.
      intros _. vm_compute. split; [reflexivity|].
      intros i Hi; repeat (match type of Hi with _ \/ _ => destruct Hi as [Hi|Hi] end); try discriminate; try contradiction; injection Hi as <-; tauto.
Qed.
End Held.

Print Assumptions C11_locked_tree_stable.
Print Assumptions C11_postponed_removals_complete.
Print Assumptions C11_old_deferral_rule_rotates_for_ever.
Print Assumptions C11_order_preserved_refuted.
Print Assumptions Held.C11_locked_tree_root_is_kept.
Print Assumptions Held.C11_locked_tree_stays_readable.
Print Assumptions Held.C11_locked_tree_is_unchanged.
Print Assumptions Held.C11_without_locks_commit_order_is_kept.
Print Assumptions Held.C11_commit_without_lock_makes_nobody_wait.
