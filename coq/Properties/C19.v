(* C19 - Index page search never misses a matching entry.
   This file holds only the property theorems (closed by [exact] of a lemma from Proofs/),
   their non-vacuity examples and the Print Assumptions audit lines. *)
From Coq Require Import NArith List.
From PDB Require Import Gen.Consts Model.IndexPage Proofs.IndexPageProofs.
Import ListNotations.
Open Scope N_scope.

(* The vectorised search is, for every index size 16..49, key, start position and page,
   "the first slot at or after [start] whose entry agrees with the key on every bit the fast
   path compares" ([fast_match]), or the (empty, 0) answer when there is none. *)
Theorem C19_sse2_is_spec : forall bits kp start chunk,
  chunk_ok chunk -> 16 <= bits <= 49 -> (start < 64)%nat ->
  find_entry_sse2 bits kp start chunk = find_spec bits kp start chunk.
Proof. exact IndexPageProofs.C19_sse2_is_spec. Qed.

(* What [find_spec] returns: a non-empty matching slot at or after start with no matching slot
   in between, or "absent" (0, 0) only if no slot from start on matches. *)
Theorem C19_result_characterised : forall bits kp start chunk e i, (start < 64)%nat ->
  find_spec bits kp start chunk = (e, i) ->
  ((start <= i < 64)%nat /\ e = entry_at chunk i /\ fast_match bits kp e = true /\ e <> 0 /\
     forall j, (start <= j < i)%nat -> fast_match bits kp (entry_at chunk j) = false)
  \/ (e = 0 /\ i = O /\ forall j, (start <= j < 64)%nat -> fast_match bits kp (entry_at chunk j) = false).
Proof. exact find_spec_characterised. Qed.

(* Never "absent" when the exact scalar search finds a match; the slot found is at or before it. *)
Theorem C19_no_miss : forall bits kp start chunk e i,
  chunk_ok chunk -> 16 <= bits <= 49 -> (start < 64)%nat ->
  find_entry_base bits kp start chunk = (e, i) -> e <> 0 ->
  exists e' i', find_entry_sse2 bits kp start chunk = (e', i') /\ e' <> 0 /\ (start <= i' <= i)%nat
                /\ e' = entry_at chunk i'.
Proof. exact no_miss. Qed.

(* From 18 index bits on the fast path drops no bit: both searches are the same function. *)
Theorem C19_equal_from_18_bits : forall bits kp start chunk,
  chunk_ok chunk -> 18 <= bits <= 49 -> (start < 64)%nat ->
  find_entry_sse2 bits kp start chunk = find_entry_base bits kp start chunk.
Proof. exact sse2_eq_base_wide. Qed.

(* Non-vacuity: bits = 16, two entries whose partial keys (4 and 5) differ only in the two bits
   the fast path drops; the key's partial key is 5. The hypotheses hold, the fast path answers
   slot 0, the scalar path slot 1. *)
Definition ex_chunk : list N := [4 * 2^30 + 256; 5 * 2^30 + 512].
Example C19_nonvacuous :
  16 <= 16 <= 49 /\ (0 < 64)%nat /\
  find_entry_sse2 16 (5 * 2^14) 0 ex_chunk = (4 * 2^30 + 256, 0%nat) /\
  find_entry_base 16 (5 * 2^14) 0 ex_chunk = (5 * 2^30 + 512, 1%nat) /\
  find_spec 16 (5 * 2^14) 0 ex_chunk = (4 * 2^30 + 256, 0%nat).
Proof. repeat split; try (vm_compute; reflexivity); try (vm_compute; discriminate); repeat constructor. Qed.

Print Assumptions C19_sse2_is_spec.
Print Assumptions C19_result_characterised.
Print Assumptions C19_no_miss.
Print Assumptions C19_equal_from_18_bits.
