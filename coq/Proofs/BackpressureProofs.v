(* The back-pressure wait of the enact stage never dead-locks once shutdown() signals it (F21 repaired);
   without that signal a dead-lock is reachable - the schedule found on the implementation. *)
From Coq Require Import Arith List Bool Lia.
From PDB Require Import Model.Backpressure.
Import ListNotations.
Local Arguments Nat.ltb : simpl never.
Local Arguments Nat.sub : simpl never.

Definition BInv (s : bp) : Prop :=
  (epc s = EBlocked -> sd s = true -> bflag s = true) /\
  (epc s = EBlocked -> bflag s = false -> sd s = false -> maxl < dirty s) /\
  (cpc s = CDone -> sd s = true) /\
  (cpc s = CClean -> snap s < dirty s -> cflag s = true) /\
  (cpc s = CIdle -> cmore s = false -> 0 < dirty s -> cflag s = true) /\
  (cpc s = CWaiting -> 0 < dirty s -> cflag s = true).

Lemma binit_inv n : BInv (binit n).
Proof. unfold BInv, binit. cbn. repeat split; intros; try discriminate; try lia. Qed.

Ltac crush :=
  repeat match goal with
  | H : context [if ?b then _ else _] |- _ => destruct b eqn:?
  | |- context [if ?b then _ else _] => destruct b eqn:?
  end;
  cbn in *; repeat split; intros; try discriminate; try congruence; try lia;
  repeat match goal with
  | H : (_ <? _) = true |- _ => apply Nat.ltb_lt in H
  | H : (_ <? _) = false |- _ => apply Nat.ltb_ge in H
  | H : _ && _ = true |- _ => apply andb_true_iff in H; destruct H
  | H : _ && _ = false |- _ => apply andb_false_iff in H; destruct H
  | H : negb _ = true |- _ => apply negb_true_iff in H
  | H : negb _ = false |- _ => apply negb_false_iff in H
  end; try congruence; try lia; auto.

Lemma bstep_inv s a s' : BInv s -> bstep true s a = Some s' -> BInv s'.
Proof.
  intros (I1 & I2 & I5 & I6 & I7 & I8) E.
  destruct s as [dirty bflag cflag cmore snap cpc epc sd todo]. cbn in *.
  destruct a; cbn [bstep] in E; cbn in E.
  - destruct epc; [|discriminate]. destruct todo as [|n]; [discriminate|]. injection E as <-. unfold BInv, too_many. cbn.
    destruct sd, cpc, (maxl <? S dirty) eqn:Em; cbn; repeat split; intros; try discriminate; try congruence; try lia; auto;
      try (apply Nat.ltb_lt in Em; unfold maxl in *; lia); try (unfold maxl in *; lia).
  - destruct epc; [discriminate|]. destruct bflag; [|discriminate]. injection E as <-. unfold BInv, too_many. cbn.
    destruct sd, cpc, (maxl <? dirty) eqn:Em; cbn; repeat split; intros; try discriminate; try congruence; try lia; auto;
      try (apply Nat.ltb_lt in Em; unfold maxl in *; lia); try (unfold maxl in *; lia).
  - destruct cpc; try discriminate. injection E as <-. unfold BInv. cbn.
    destruct sd, cmore, epc, bflag; cbn; repeat split; intros; try discriminate; try congruence; try lia; auto.
  - destruct cpc; try discriminate. destruct cflag eqn:Ec; [|discriminate]. injection E as <-. unfold BInv. cbn.
    destruct sd, epc, bflag; cbn; repeat split; intros; try discriminate; try congruence; try lia; auto.
  - destruct cpc; try discriminate. injection E as <-. unfold BInv. cbn.
    destruct sd, epc, bflag; cbn; repeat split; intros; try discriminate; try congruence; try lia; auto.
  - destruct cpc; try discriminate. injection E as <-. unfold BInv. cbn.
    destruct sd, epc, (0 <? snap) eqn:Es; cbn; repeat split; intros; try discriminate; try congruence; try lia; auto;
      try (apply Nat.ltb_ge in Es; assert (snap = 0) by lia; subst; apply I6; [reflexivity|lia]).
  - injection E as <-. unfold BInv. cbn.
    destruct cpc, epc; cbn; repeat split; intros; try discriminate; try congruence; try lia; auto.
Qed.

Lemma brun_inv l : forall s, BInv s -> BInv (brun true s l).
Proof.
  induction l as [|a l IH]; intros s H; [exact H|]. cbn [brun]. apply IH.
  destruct (bstep true s a) as [s'|] eqn:E; [eapply bstep_inv; eassumption|exact H].
Qed.

(* With the signal from shutdown(): whenever the enactor is blocked, one round of the cleanup worker's own
   moves (those that are enabled) ends with the back-pressure flag set - the enactor can move on. *)
Theorem blocked_enactor_is_signalled n l :
  let s := brun true (binit n) l in
  epc s = EBlocked -> bflag (brun true s [ACIdle; ACWake; ACStart; ACEnd]) = true.
Proof.
  intros s Hb. pose proof (brun_inv l (binit n) (binit_inv n)) as HI. fold s in HI.
  destruct HI as (I1 & I2 & I5 & I6 & I7 & I8).
  destruct s as [dirty bflag cflag cmore snap cpc epc sd todo]. cbn in *. subst epc.
  destruct bflag eqn:Eb.
  - (* already set: the round does not clear it *)
    destruct cpc, sd, cmore, cflag; cbn; reflexivity.
  - assert (Hsd : sd = false) by (destruct sd; [specialize (I1 eq_refl eq_refl); discriminate|reflexivity]). subst sd.
    specialize (I2 eq_refl eq_refl eq_refl). unfold maxl in I2.
    destruct cpc; cbn.
    + destruct cmore; cbn; [reflexivity|]. rewrite (I7 eq_refl eq_refl ltac:(lia)). cbn. reflexivity.
    + rewrite (I8 eq_refl ltac:(lia)). cbn. reflexivity.
    + reflexivity.
    + reflexivity.
    + specialize (I5 eq_refl). discriminate.
Qed.

(* and once the flag is set the enactor's wait returns *)
Theorem signalled_enactor_moves s : epc s = EBlocked -> bflag s = true -> bstep true s AWake <> None.
Proof. intros H1 H2. cbn [bstep]. rewrite H1, H2. discriminate. Qed.

(* Without the signal (the code before the repair): the enactor blocks after a cleanup pass that counted
   nothing, consumes that pass's signal, blocks again; shutdown makes the cleanup worker leave its loop
   without another pass; from then on nothing can ever wake the enactor - drop() blocks in join(). *)
Definition f21_schedule : list bact :=
  [ACIdle; ACStart; AEnact; AEnact; AEnact; ACEnd; AWake; AShutdown; ACIdle].

Theorem deadlock_without_signal_refuted :
  let s := brun false (binit 3) f21_schedule in
  epc s = EBlocked /\ cpc s = CDone /\ bflag s = false /\
  forall l, epc (brun false s l) = EBlocked.
Proof.
  cbn zeta. split; [reflexivity|]. split; [reflexivity|]. split; [reflexivity|].
  set (s := brun false (binit 3) f21_schedule).
  assert (Hs : s = {| dirty := 3; bflag := false; cflag := true; cmore := false; snap := 0; cpc := CDone; epc := EBlocked; sd := true; todo := 0 |}) by reflexivity.
  rewrite Hs. clear Hs s.
  (* stuck: every action either is disabled or keeps (EBlocked, CDone, bflag = false, sd = true) *)
  assert (G : forall l d cf, epc (brun false {| dirty := d; bflag := false; cflag := cf; cmore := false; snap := 0; cpc := CDone; epc := EBlocked; sd := true; todo := 0 |} l) = EBlocked).
  { induction l as [|a l IH]; intros d cf; [reflexivity|]. cbn [brun]. destruct a; cbn [bstep Backpressure.epc Backpressure.todo Backpressure.bflag Backpressure.cpc]; try apply IH. }
  intros l. apply G.
Qed.

(* the same schedule with the repaired shutdown(): the enactor is woken and leaves the wait *)
Example repaired_schedule_proceeds :
  epc (brun true (binit 3) (f21_schedule ++ [AWake])) = ERun.
Proof. reflexivity. Qed.
