From Coq Require Import ZArith NArith List Lia Bool ZifyN ZifyBool Arith.
From PDB Require Import Gen.Consts Model.IndexPage.
Import ListNotations.
Open Scope N_scope.
Ltac Zify.zify_post_hook ::= Z.div_mod_to_equations.

(* ties to the regenerated constants: if the source changes them these stop checking *)
Lemma address_bits_eq bits : address_bits bits = bits + 14.
Proof. unfold address_bits, index_chunk_entries_bits, table_size_tiers_bits. lia. Qed.
Lemma chunk_entries_64 : index_chunk_entries = 64 /\ index_entry_bits = 64 /\ index_chunk_len = 512.
Proof. repeat split. Qed.
Global Opaque address_bits.

Lemma pow2_nz n : 2^n <> 0. Proof. apply N.pow_nonzero; discriminate. Qed.

Lemma shl64_lt x s : shl64 x s < m64.
Proof. unfold shl64. apply N.mod_lt. unfold m64. apply pow2_nz. Qed.

Lemma shiftr_lt_pow x s k : x < 2^(s + k) -> N.shiftr x s < 2^k.
Proof. intros H. rewrite N.shiftr_div_pow2. apply N.div_lt_upper_bound; [apply pow2_nz|]. rewrite <- N.pow_add_r. exact H. Qed.

(* lanes of a 64-bit value *)
Lemma lo_hi_recompose x : x < m64 -> lo32 x + hi32 x * 2^32 = x.
Proof. unfold lo32, hi32, m64. intros H.
  assert (x / 2^32 < 2^32). { apply N.div_lt_upper_bound; [apply pow2_nz|]. rewrite <- N.pow_add_r. exact H. }
  rewrite (N.mod_small (x / 2^32)) by assumption.
  rewrite (N.div_mod x (2^32)) at 3 by apply pow2_nz. lia. Qed.

(* the 4 lanes compared for group i are lane_of of entries i..i+3 *)
Lemma group_lanes e0 e1 s : e0 < m64 -> e1 < m64 ->
  shuffle_d8 (srl_epi64 (load2 e0 e1) s) = [lo32 (N.shiftr e0 s); lo32 (N.shiftr e1 s); hi32 (N.shiftr e0 s); hi32 (N.shiftr e1 s)].
Proof. intros H0 H1. unfold load2, srl_epi64, shuffle_d8. rewrite !lo_hi_recompose by assumption. reflexivity. Qed.

(* movemask / shift / tz behaviour: finite sweep *)
Definition first_true (bs : list bool) (s : nat) : option nat :=
  match find (fun j => (s <=? j)%nat && nth j bs false) [0;1;2;3]%nat with Some j => Some j | None => None end.

Lemma movemask_sweep : forall b0 b1 b2 b3 s, (s < 4)%nat ->
  let cmp := N.shiftr (movemask_epi8 [b0;b1;b2;b3]) (N.of_nat (s*4)) in
  match first_true [b0;b1;b2;b3] s with
  | None => cmp = 0
  | Some j => cmp <> 0 /\ (s + Nat.div (trailing_zeros cmp) 4 = j)%nat
  end.
Proof.
  intros b0 b1 b2 b3 s Hs.
  assert (s = 0 \/ s = 1 \/ s = 2 \/ s = 3)%nat as [->|[->|[->| ->]]] by lia;
  destruct b0, b1, b2, b3; vm_compute; try split; try reflexivity; try discriminate.
Qed.

Lemma first_from_4 P chunk i s : (s < 4)%nat ->
  first_from P chunk (i+s) (4-s) =
  option_map (fun j => (i + j)%nat)
    (first_true [P (entry_at chunk i); P (entry_at chunk (i+1)); P (entry_at chunk (i+2)); P (entry_at chunk (i+3))] s).
Proof.
  intros Hs.
  assert (s = 0 \/ s = 1 \/ s = 2 \/ s = 3)%nat as [->|[->|[->| ->]]] by lia; cbn [Nat.sub first_from];
  rewrite ?Nat.add_0_r;
  replace (S i) with (i+1)%nat by lia; replace (S (i+1)) with (i+2)%nat by lia;
  replace (S (i+2)) with (i+3)%nat by lia;
  destruct (P (entry_at chunk i)), (P (entry_at chunk (i+1))), (P (entry_at chunk (i+2))), (P (entry_at chunk (i+3)));
  cbn; rewrite ?Nat.add_0_r; reflexivity.
Qed.

Lemma first_from_app P chunk a n m :
  first_from P chunk a (n + m) =
  match first_from P chunk a n with Some r => Some r | None => first_from P chunk (a + n) m end.
Proof.
  revert a. induction n as [|n IH]; intros a; cbn [first_from Nat.add].
  - rewrite Nat.add_0_r. reflexivity.
  - destruct (P (entry_at chunk a)); [reflexivity|]. rewrite IH. replace (S a + n)%nat with (a + S n)%nat by lia. reflexivity.
Qed.

Definition chunk_ok (chunk : list N) : Prop := forall i, entry_at chunk i < m64.

Lemma sse_pk_lt bits kp : 16 <= bits <= 49 -> sse_pk bits kp < 2^32.
Proof.
  intros Hb. unfold sse_pk. apply shiftr_lt_pow.
  eapply N.lt_le_trans; [apply shl64_lt|]. unfold m64. apply N.pow_le_mono_r; [discriminate|].
  unfold sse_shift. rewrite address_bits_eq. lia.
Qed.

Lemma group_cmp_spec bits kp chunk i : chunk_ok chunk -> 16 <= bits <= 49 ->
  group_cmp bits kp chunk i =
  movemask_epi8 [lane_of bits (entry_at chunk i) =? sse_pk bits kp;
                 lane_of bits (entry_at chunk (i+1)) =? sse_pk bits kp;
                 lane_of bits (entry_at chunk (i+2)) =? sse_pk bits kp;
                 lane_of bits (entry_at chunk (i+3)) =? sse_pk bits kp].
Proof.
  intros Hc Hb. unfold group_cmp. rewrite !group_lanes by apply Hc.
  cbn [unpacklo_epi64 cmpeq_epi32 map]. unfold lane_of.
  replace (lo32 (sse_pk bits kp)) with (sse_pk bits kp)
    by (unfold lo32; symmetry; apply N.mod_small; apply sse_pk_lt; assumption).
  reflexivity.
Qed.

Lemma sse_loop_spec bits kp chunk : chunk_ok chunk -> 16 <= bits <= 49 -> sse_pk bits kp <> 0 ->
  forall groups i s, (s < 4)%nat -> (i + 4 * groups = 64)%nat ->
  sse_loop bits kp chunk i s groups =
  answer chunk (first_from (fast_match bits kp) chunk (i + s) (4 * groups - s)).
Proof.
  intros Hc Hb Hpk. induction groups as [|g IH]; intros i s Hs Hi.
  - cbn. reflexivity.
  - cbn [sse_loop]. rewrite group_cmp_spec by assumption.
    replace (4 * S g - s)%nat with ((4 - s) + 4 * g)%nat by lia.
    rewrite first_from_app.
    assert (HP : forall e, fast_match bits kp e = (lane_of bits e =? sse_pk bits kp)).
    { intros e. unfold fast_match. destruct (sse_pk bits kp =? 0) eqn:E; [apply N.eqb_eq in E; contradiction|reflexivity]. }
    rewrite first_from_4 by assumption. rewrite !HP.
    pose proof (movemask_sweep (lane_of bits (entry_at chunk i) =? sse_pk bits kp)
                               (lane_of bits (entry_at chunk (i+1)) =? sse_pk bits kp)
                               (lane_of bits (entry_at chunk (i+2)) =? sse_pk bits kp)
                               (lane_of bits (entry_at chunk (i+3)) =? sse_pk bits kp) s Hs) as Hm.
    cbv zeta in Hm.
    destruct (first_true _ s) as [j|].
    + destruct Hm as [Hnz Hj]. apply N.eqb_neq in Hnz. rewrite Hnz. cbn [option_map answer].
      replace (i + s + Nat.div (trailing_zeros _) 4)%nat with (i + j)%nat by lia. reflexivity.
    + rewrite Hm. cbn [N.eqb option_map]. rewrite IH by lia.
      replace (i + 4 + 0)%nat with (i + s + (4 - s))%nat by lia.
      replace (4 * g - 0)%nat with (4 * g)%nat by lia. reflexivity.
Qed.

Theorem C19_sse2_is_spec bits kp start chunk :
  chunk_ok chunk -> 16 <= bits <= 49 -> (start < 64)%nat ->
  find_entry_sse2 bits kp start chunk = find_spec bits kp start chunk.
Proof.
  intros Hc Hb Hs. unfold find_entry_sse2, find_spec.
  destruct (sse_pk bits kp =? 0) eqn:E.
  - unfold find_entry_base. f_equal.
    assert (HP : forall e, fast_match bits kp e = base_match bits kp e) by (intros e; unfold fast_match; rewrite E; reflexivity).
    clear -HP. generalize (64 - start)%nat. intros n. revert start. induction n; intros; cbn; [reflexivity|]. rewrite HP, IHn. reflexivity.
  - apply N.eqb_neq in E.
    pose proof (Nat.div_mod start 4 ltac:(lia)) as Hdm.
    pose proof (Nat.mod_upper_bound start 4 ltac:(lia)) as Hmod.
    set (i := (start / 4 * 4)%nat) in *.
    assert (Hi : (i + 4 * ((64 - i) / 4) = 64)%nat).
    { assert (i = 4 * (start / 4))%nat by (unfold i; lia).
      assert (H0 : ((64 - i) = (16 - start / 4) * 4)%nat) by lia.
      rewrite H0. rewrite Nat.div_mul by lia. lia. }
    rewrite sse_loop_spec; try assumption; try lia.
    f_equal. f_equal; lia.
Qed.

(* no-miss corollary: whatever the scalar search finds, the fast search finds at or before it *)
Lemma base_implies_fast bits kp e : 16 <= bits <= 49 -> e < m64 ->
  base_match bits kp e = true -> fast_match bits kp e = true.
Proof.
  intros Hb He H. unfold fast_match. destruct (sse_pk bits kp =? 0) eqn:E; [exact H|].
  unfold base_match in H. apply andb_true_iff in H as [H _]. apply N.eqb_eq in H.
  apply N.eqb_eq. unfold lane_of, sse_pk, pk_of, extract_key, sse_shift in *. rewrite !address_bits_eq in *.
  pose proof (shl64_lt kp bits) as Hx. set (x := shl64 kp bits) in *.
  destruct (N.max_spec 32 (bits + 14)) as [[Hlt Hm]|[Hle Hm]]; rewrite Hm.
  - rewrite H. unfold lo32. apply N.mod_small. apply shiftr_lt_pow.
    eapply N.lt_le_trans; [exact Hx|]. unfold m64. apply N.pow_le_mono_r; [discriminate|lia].
  - replace 32 with ((bits + 14) + (32 - (bits + 14))) by lia.
    rewrite <- (N.shiftr_shiftr e (bits+14) (32-(bits+14))), <- (N.shiftr_shiftr x (bits+14) (32-(bits+14))).
    rewrite H. unfold lo32. apply N.mod_small.
    apply shiftr_lt_pow. apply shiftr_lt_pow.
    eapply N.lt_le_trans; [exact Hx|]. unfold m64. apply N.pow_le_mono_r; [discriminate|lia].
Qed.


(* ---- characterisation of the search result ---- *)
Lemma first_from_some P chunk : forall fuel start i, first_from P chunk start fuel = Some i ->
  (start <= i < start + fuel)%nat /\ P (entry_at chunk i) = true /\
  forall j, (start <= j < i)%nat -> P (entry_at chunk j) = false.
Proof.
  induction fuel as [|f IH]; intros start i H; cbn [first_from] in H; [discriminate|].
  destruct (P (entry_at chunk start)) eqn:E.
  - injection H as <-. repeat split; try lia; try assumption.
  - apply IH in H as (Hr & Hp & Hn). repeat split; try lia; try assumption.
    intros j Hj. destruct (Nat.eq_dec j start) as [->|Hne]; [exact E|]. apply Hn; lia.
Qed.

Lemma first_from_none P chunk : forall fuel start, first_from P chunk start fuel = None ->
  forall j, (start <= j < start + fuel)%nat -> P (entry_at chunk j) = false.
Proof.
  induction fuel as [|f IH]; intros start H j Hj; [lia|]. cbn [first_from] in H.
  destruct (P (entry_at chunk start)) eqn:E; [discriminate|].
  destruct (Nat.eq_dec j start) as [->|Hne]; [exact E|]. apply (IH (S start)); [assumption|lia].
Qed.

Lemma lane_of_zero bits : lane_of bits 0 = 0.
Proof. unfold lane_of, lo32. rewrite N.shiftr_0_l. reflexivity. Qed.

Lemma fast_match_nonempty bits kp e : fast_match bits kp e = true -> e <> 0.
Proof.
  unfold fast_match. destruct (sse_pk bits kp =? 0) eqn:E; intros H.
  - unfold base_match in H. apply andb_true_iff in H as [_ H]. apply negb_true_iff, N.eqb_neq in H. exact H.
  - apply N.eqb_neq in E. apply N.eqb_eq in H. intros ->. rewrite lane_of_zero in H. congruence.
Qed.

Theorem find_spec_characterised bits kp start chunk e i : (start < 64)%nat ->
  find_spec bits kp start chunk = (e, i) ->
  ((start <= i < 64)%nat /\ e = entry_at chunk i /\ fast_match bits kp e = true /\ e <> 0 /\
     forall j, (start <= j < i)%nat -> fast_match bits kp (entry_at chunk j) = false)
  \/ (e = 0 /\ i = O /\ forall j, (start <= j < 64)%nat -> fast_match bits kp (entry_at chunk j) = false).
Proof.
  intros Hs. unfold find_spec.
  destruct (first_from (fast_match bits kp) chunk start (64 - start)) as [r|] eqn:E; cbn [answer]; intros H; injection H as <- <-.
  - left. apply first_from_some in E as (Hr & Hp & Hn). repeat split; try lia; try assumption.
    eapply fast_match_nonempty; eassumption.
  - right. repeat split. intros j Hj. eapply first_from_none; [exact E|lia].
Qed.

Theorem no_miss bits kp start chunk e i :
  chunk_ok chunk -> 16 <= bits <= 49 -> (start < 64)%nat ->
  find_entry_base bits kp start chunk = (e, i) -> e <> 0 ->
  exists e' i', find_entry_sse2 bits kp start chunk = (e', i') /\ e' <> 0 /\ (start <= i' <= i)%nat
                /\ e' = entry_at chunk i'.
Proof.
  intros Hc Hb Hs Hbase Hne. rewrite C19_sse2_is_spec by assumption.
  unfold find_entry_base in Hbase.
  destruct (first_from (base_match bits kp) chunk start (64 - start)) as [r|] eqn:E; cbn [answer] in Hbase;
    injection Hbase as <- <-; [|congruence].
  apply first_from_some in E as (Hr & Hp & _).
  apply base_implies_fast in Hp; [|assumption|apply Hc].
  unfold find_spec.
  destruct (first_from (fast_match bits kp) chunk start (64 - start)) as [r'|] eqn:E'; cbn [answer].
  - apply first_from_some in E' as (Hr' & Hp' & Hn').
    exists (entry_at chunk r'), r'. repeat split; try lia.
    + eapply fast_match_nonempty; eassumption.
    + destruct (Nat.le_gt_cases r' r) as [Hle|Hgt]; [exact Hle|]. rewrite Hn' in Hp by lia. discriminate.
  - pose proof (first_from_none _ _ _ _ E' r ltac:(lia)) as Hf. congruence.
Qed.

Lemma fast_eq_base_wide bits kp e : 18 <= bits <= 49 -> e < m64 ->
  fast_match bits kp e = base_match bits kp e.
Proof.
  intros Hb He. unfold fast_match. destruct (sse_pk bits kp =? 0) eqn:E; [reflexivity|].
  apply N.eqb_neq in E. unfold base_match, lane_of, sse_pk, pk_of, extract_key, sse_shift in *.
  rewrite address_bits_eq in *. rewrite N.max_r in * by lia.
  assert (Hlt : N.shiftr e (bits + 14) < 2^32).
  { apply shiftr_lt_pow. eapply N.lt_le_trans; [exact He|]. unfold m64. apply N.pow_le_mono_r; [discriminate|lia]. }
  unfold lo32. rewrite N.mod_small by exact Hlt.
  destruct (N.shiftr e (bits + 14) =? N.shiftr (shl64 kp bits) (bits + 14)) eqn:Eq; [|reflexivity].
  apply N.eqb_eq in Eq. cbn [andb]. symmetry. apply negb_true_iff, N.eqb_neq. intros ->.
  rewrite N.shiftr_0_l in Eq. congruence.
Qed.

Lemma first_from_ext P Q chunk : (forall i, P (entry_at chunk i) = Q (entry_at chunk i)) ->
  forall fuel start, first_from P chunk start fuel = first_from Q chunk start fuel.
Proof. intros H. induction fuel as [|f IH]; intros start; cbn [first_from]; [reflexivity|]. rewrite H, IH. reflexivity. Qed.

Theorem sse2_eq_base_wide bits kp start chunk :
  chunk_ok chunk -> 18 <= bits <= 49 -> (start < 64)%nat ->
  find_entry_sse2 bits kp start chunk = find_entry_base bits kp start chunk.
Proof.
  intros Hc Hb Hs. rewrite C19_sse2_is_spec by (try assumption; lia).
  unfold find_spec, find_entry_base. f_equal. apply first_from_ext.
  intros i. apply fast_eq_base_wide; [assumption|apply Hc].
Qed.
