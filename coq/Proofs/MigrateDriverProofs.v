From Coq Require Import NArith Arith List Bool Lia.
From PDB Require Import Model.Pipeline Model.Migrate Model.MigrateDriver Proofs.MigrateProofs.
Import ListNotations.
Open Scope N_scope.

Ltac nlia := unfold col, key in *; lia.

(* ---- operations of other columns, extensionality ---- *)
Lemma apply_ops_other_col cf c ops : forall M, (forall co, In co ops -> fst co <> c) -> apply_ops cf c ops M = M.
Proof.
  induction ops as [|[c' o] ops IH]; intros M H; cbn [apply_ops]; [reflexivity|].
  destruct (N.eqb_spec c' c) as [->|Hne].
  - exfalso. apply (H (c, o)); [left; reflexivity|reflexivity].
  - apply IH. intros co Hin. apply H. right. exact Hin.
Qed.

Lemma apply_ops_ext cf c ops : forall M M', (forall k, M k = M' k) -> forall k, apply_ops cf c ops M k = apply_ops cf c ops M' k.
Proof.
  induction ops as [|[c' o] ops IH]; intros M M' H k; cbn [apply_ops]; [apply H|].
  apply IH. intros x. destruct (c' =? c); [|apply H].
  destruct (x =? op_key o); [rewrite H; reflexivity|apply H].
Qed.

Lemma migrate_ops_col c src co : In co (migrate_ops c src) -> fst co = c.
Proof.
  unfold migrate_ops. intros H. apply in_flat_map in H. destruct H as [e [_ H]].
  apply entry_ops_keys in H. subst co. reflexivity.
Qed.

(* ---- batching ---- *)
Lemma batches_of_concat n : forall ops cur bs r, batches_of n cur ops = (bs, r) -> concat bs ++ r = cur ++ ops.
Proof.
  induction ops as [|o ops IH]; intros cur bs r H; cbn [batches_of] in H.
  - inversion H. subst. cbn [concat app]. rewrite app_nil_r. reflexivity.
  - destruct (Nat.eqb (length (cur ++ [o])) n).
    + destruct (batches_of n [] ops) as [bs' r'] eqn:E. inversion H. subst.
      cbn [concat]. rewrite <- app_assoc. rewrite (IH [] bs' r E). cbn [app]. rewrite <- app_assoc. reflexivity.
    + rewrite (IH _ bs r H). rewrite <- app_assoc. reflexivity.
Qed.

Lemma apply_batches_concat cfgs : forall bs D c, apply_batches cfgs bs D c = apply_ops (cfgs c) c (concat bs) (D c).
Proof.
  unfold apply_batches. induction bs as [|b bs IH]; intros D c; cbn [fold_left concat]; [reflexivity|].
  rewrite IH. unfold apply_db at 1. rewrite apply_ops_app. reflexivity.
Qed.

(* committing in batches of any size, then the remainder, is committing everything at once *)
Lemma batches_are_one_commit cfgs n ops cur bs r D c :
  batches_of n cur ops = (bs, r) ->
  apply_db cfgs r (apply_batches cfgs bs D) c = apply_db cfgs (cur ++ ops) D c.
Proof.
  intros H. unfold apply_db. rewrite apply_batches_concat, <- apply_ops_app, (batches_of_concat n ops cur bs r H). reflexivity.
Qed.

Fixpoint cfgs_agree (c : col) (cols : list mcol) (cfgs : col -> ccfg) : Prop :=
  match cols with
  | [] => True
  | m :: cols' => cfgs c = dcf m /\ cfgs_agree (c + 1) cols' cfgs
  end.

Lemma dcfgs_agree : forall cols c, cfgs_agree c cols (dcfgs c cols).
Proof.
  assert (G : forall cols c f, (forall c', c <= c' -> f c' = dcfgs c cols c') -> cfgs_agree c cols f).
  { induction cols as [|m cols IH]; intros c f H; cbn [cfgs_agree]; [exact I|]. split.
    - rewrite H by nlia. cbn [dcfgs]. rewrite N.eqb_refl. reflexivity.
    - apply IH. intros c' Hc. rewrite H by nlia. cbn [dcfgs].
      replace (c' =? c) with false by (symmetry; apply N.eqb_neq; nlia). reflexivity. }
  intros cols c. apply G. reflexivity.
Qed.

Fixpoint all_distinct (srcs : list scontent) : Prop :=
  match srcs with [] => True | s :: rest => keys_distinct s /\ all_distinct rest end.
Lemma all_distinct_hd srcs : all_distinct srcs -> keys_distinct (hd [] srcs).
Proof. destruct srcs; cbn; [trivial|tauto]. Qed.
Lemma all_distinct_tl srcs : all_distinct srcs -> all_distinct (tl srcs).
Proof. destruct srcs; cbn; [trivial|tauto]. Qed.

(* a fresh column re-populated by the operations of its source entries *)
Lemma column_migrated cf c src M k : keys_distinct src -> (forall x, M x = None) ->
  apply_ops cf c (migrate_ops c src) M k =
  match lookup_src src k with Some (v, rc) => expected cf v rc | None => None end.
Proof.
  intros Hd HM. rewrite (apply_ops_ext cf c _ M (fun _ => None)) by exact HM.
  apply (content_preserved cf c src k Hd).
Qed.

(* ---- the loop without overwrite ---- *)
Lemma drive_copy n cfgs : forall cols c srcs cur D S,
  (forall co, In co cur -> fst co < c) ->
  (forall c' k, c <= c' -> D c' k = None) ->
  cfgs_agree c cols cfgs -> all_distinct srcs ->
  forall cur' D' S', drive n false cfgs c cols srcs cur D S = (cur', D', S') ->
  S' = S /\
  forall c' k, apply_db cfgs cur' D' c' k =
               if c' <? c then apply_db cfgs cur D c' k else spec_db c cols srcs S empty_db c' k.
Proof.
  induction cols as [|m cols IH]; intros c srcs cur D S Hcur HD Hcfg Hdist cur' D' S' Hrun; cbn [drive] in Hrun.
  - inversion Hrun. subst. split; [reflexivity|]. intros c' k. destruct (N.ltb_spec c' c) as [Hlt|Hge]; [reflexivity|].
    cbn [spec_db]. unfold apply_db, empty_db.
    rewrite apply_ops_other_col by (intros co Hin; apply Hcur in Hin; nlia). apply HD. exact Hge.
  - destruct Hcfg as [Hc0 Hcfg]. destruct (selected m) eqn:Esel.
    + destruct (batches_of n cur (migrate_ops c (hd [] srcs))) as [bs r] eqn:Eb.
      cbn [negb] in Hrun.
      assert (Hsub : forall co, In co (concat bs ++ r) -> fst co < c + 1).
      { intros co Hin. rewrite (batches_of_concat _ _ _ _ _ Eb) in Hin. apply in_app_or in Hin. destruct Hin as [Hin|Hin].
        - apply Hcur in Hin. nlia.
        - apply migrate_ops_col in Hin. nlia. }
      specialize (IH (c + 1) (tl srcs) r (apply_batches cfgs bs D) S).
      destruct (IH) with (cur' := cur') (D' := D') (S' := S') as [HS Hres]; try assumption.
      * intros co Hin. apply Hsub. apply in_or_app. right. exact Hin.
      * intros c' k Hc'. rewrite apply_batches_concat.
        rewrite apply_ops_other_col; [apply HD; nlia|].
        intros co Hin. assert (fst co < c + 1) by (apply Hsub; apply in_or_app; left; exact Hin). nlia.
      * apply all_distinct_tl. exact Hdist.
      * split; [exact HS|]. intros c' k. rewrite Hres.
        destruct (N.ltb_spec c' (c + 1)) as [Hlt|Hge].
        -- rewrite (batches_are_one_commit cfgs n _ cur bs r D c' Eb). unfold apply_db. rewrite apply_ops_app.
           destruct (N.ltb_spec c' c) as [Hlt'|Hge'].
           ++ rewrite (apply_ops_other_col (cfgs c') c' (migrate_ops c (hd [] srcs))); [reflexivity|].
              intros co Hin. apply migrate_ops_col in Hin. nlia.
           ++ assert (c' = c) by nlia. subst c'. cbn [spec_db]. rewrite N.eqb_refl, Esel.
              rewrite (apply_ops_other_col (cfgs c) c cur) by (intros co Hin; apply Hcur in Hin; nlia).
              rewrite Hc0. apply column_migrated; [apply all_distinct_hd; exact Hdist|intros x; apply HD; nlia].
        -- destruct (N.ltb_spec c' c) as [Hlt'|Hge']; [nlia|]. cbn [spec_db].
           replace (c' =? c) with false by (symmetry; apply N.eqb_neq; nlia). reflexivity.
    + cbn [negb] in Hrun.
      specialize (IH (c + 1) (tl srcs) cur (set_col D c (S c)) S).
      destruct (IH) with (cur' := cur') (D' := D') (S' := S') as [HS Hres]; try assumption.
      * intros co Hin. apply Hcur in Hin. nlia.
      * intros c' k Hc'. unfold set_col. replace (c' =? c) with false by (symmetry; apply N.eqb_neq; nlia). apply HD. nlia.
      * apply all_distinct_tl. exact Hdist.
      * split; [exact HS|]. intros c' k. rewrite Hres.
        destruct (N.ltb_spec c' (c + 1)) as [Hlt|Hge].
        -- destruct (N.ltb_spec c' c) as [Hlt'|Hge'].
           ++ unfold apply_db, set_col. replace (c' =? c) with false by (symmetry; apply N.eqb_neq; nlia). reflexivity.
           ++ assert (c' = c) by nlia. subst c'. cbn [spec_db]. rewrite N.eqb_refl, Esel.
              unfold apply_db, set_col. rewrite N.eqb_refl.
              rewrite apply_ops_other_col by (intros co Hin; apply Hcur in Hin; nlia). reflexivity.
        -- destruct (N.ltb_spec c' c) as [Hlt'|Hge']; [nlia|]. cbn [spec_db].
           replace (c' =? c) with false by (symmetry; apply N.eqb_neq; nlia). reflexivity.
Qed.

Lemma spec_db_source_ext : forall cols c srcs S1 S2 c' k, (forall x, c <= x -> S1 x = S2 x) -> c <= c' ->
  spec_db c cols srcs S1 S1 c' k = spec_db c cols srcs S2 S2 c' k.
Proof.
  induction cols as [|m cols IH]; intros c srcs S1 S2 c' k H Hc; cbn [spec_db].
  - rewrite H by exact Hc. reflexivity.
  - destruct (N.eqb_spec c' c) as [->|Hne].
    + rewrite H by nlia. reflexivity.
    + apply IH; [intros x Hx; apply H; nlia|nlia].
Qed.

(* ---- the loop with in-place overwrite: between columns nothing is pending and the destination is empty ---- *)
Lemma drive_overwrite n cfgs : forall cols c srcs D S,
  (forall c' k, D c' k = None) ->
  cfgs_agree c cols cfgs -> all_distinct srcs ->
  forall cur' D' S', drive n true cfgs c cols srcs [] D S = (cur', D', S') ->
  cur' = [] /\ (forall c' k, D' c' k = None) /\
  forall c' k, S' c' k = if c' <? c then S c' k else spec_db c cols srcs S S c' k.
Proof.
  induction cols as [|m cols IH]; intros c srcs D S HD Hcfg Hdist cur' D' S' Hrun; cbn [drive] in Hrun.
  - inversion Hrun. subst. split; [reflexivity|]. split; [exact HD|]. intros c' k. cbn [spec_db].
    destruct (c' <? c); reflexivity.
  - destruct Hcfg as [Hc0 Hcfg]. destruct (selected m) eqn:Esel.
    + destruct (batches_of n [] (migrate_ops c (hd [] srcs))) as [bs r] eqn:Eb.
      set (D2 := apply_db cfgs r (apply_batches cfgs bs D)) in *.
      assert (HD2 : forall c' k, D2 c' k = if c' =? c then migrated_col m (hd [] srcs) k else None).
      { intros c' k. unfold D2. rewrite (batches_are_one_commit cfgs n _ [] bs r D c' Eb). cbn [app]. unfold apply_db.
        destruct (N.eqb_spec c' c) as [->|Hne].
        - rewrite Hc0. unfold migrated_col. apply column_migrated; [apply all_distinct_hd; exact Hdist|intros x; apply HD].
        - rewrite apply_ops_other_col; [apply HD|]. intros co Hin. apply migrate_ops_col in Hin. congruence. }
      specialize (IH (c + 1) (tl srcs) (set_col D2 c (fun _ => None)) (set_col S c (D2 c))).
      destruct (IH) with (cur' := cur') (D' := D') (S' := S') as [Hcur [HDf Hres]]; try assumption.
      * intros c' k. unfold set_col. destruct (N.eqb_spec c' c) as [->|Hne]; [reflexivity|].
        rewrite HD2. replace (c' =? c) with false by (symmetry; apply N.eqb_neq; exact Hne). reflexivity.
      * apply all_distinct_tl. exact Hdist.
      * split; [exact Hcur|]. split; [exact HDf|]. intros c' k. rewrite Hres.
        destruct (N.ltb_spec c' (c + 1)) as [Hlt|Hge].
        -- unfold set_col. destruct (N.ltb_spec c' c) as [Hlt'|Hge'].
           ++ replace (c' =? c) with false by (symmetry; apply N.eqb_neq; nlia). reflexivity.
           ++ assert (c' = c) by nlia. subst c'. rewrite N.eqb_refl. cbn [spec_db]. rewrite N.eqb_refl, Esel.
              rewrite HD2, N.eqb_refl. reflexivity.
        -- destruct (N.ltb_spec c' c) as [Hlt'|Hge']; [nlia|]. cbn [spec_db].
           replace (c' =? c) with false by (symmetry; apply N.eqb_neq; nlia).
           apply spec_db_source_ext; [|nlia]. intros x Hx. unfold set_col.
           replace (x =? c) with false by (symmetry; apply N.eqb_neq; nlia). reflexivity.
    + specialize (IH (c + 1) (tl srcs) D S).
      destruct (IH) with (cur' := cur') (D' := D') (S' := S') as [Hcur [HDf Hres]]; try assumption.
      * apply all_distinct_tl. exact Hdist.
      * split; [exact Hcur|]. split; [exact HDf|]. intros c' k. rewrite Hres.
        destruct (N.ltb_spec c' (c + 1)) as [Hlt|Hge].
        -- destruct (N.ltb_spec c' c) as [Hlt'|Hge']; [reflexivity|].
           assert (c' = c) by nlia. subst c'. cbn [spec_db]. rewrite N.eqb_refl, Esel. reflexivity.
        -- destruct (N.ltb_spec c' c) as [Hlt'|Hge']; [nlia|]. cbn [spec_db].
           replace (c' =? c) with false by (symmetry; apply N.eqb_neq; nlia). reflexivity.
Qed.

(* ---- the whole call ---- *)
Theorem driver_copy_mode n cols srcs S S' D' : all_distinct srcs ->
  migrate_driver n cols (length cols) false srcs S = MgOk S' D' ->
  S' = S /\ forall c k, D' c k = spec_db 0 cols srcs S empty_db c k.
Proof.
  intros Hd H. unfold migrate_driver in H. rewrite Nat.eqb_refl in H. cbn [negb] in H.
  destruct (existsb _ cols); [discriminate|].
  destruct (drive n false (dcfgs 0 cols) 0 cols srcs [] empty_db S) as [[cur D] S1] eqn:E.
  inversion H. subst S' D'. clear H.
  destruct (drive_copy n (dcfgs 0 cols) cols 0 srcs [] empty_db S) with (cur' := cur) (D' := D) (S' := S1) as [HS Hres];
    try assumption.
  - intros co [].
  - reflexivity.
  - apply dcfgs_agree.
  - split; [exact HS|]. intros c k. rewrite Hres. destruct (N.ltb_spec c 0) as [Hlt|_]; [nlia|reflexivity].
Qed.

Theorem driver_overwrite_mode n cols srcs S S' D' : all_distinct srcs ->
  migrate_driver n cols (length cols) true srcs S = MgOk S' D' ->
  forall c k, S' c k = spec_db 0 cols srcs S S c k /\ D' c k = None.
Proof.
  intros Hd H. unfold migrate_driver in H. rewrite Nat.eqb_refl in H. cbn [negb] in H.
  destruct (existsb _ cols); [discriminate|].
  destruct (drive n true (dcfgs 0 cols) 0 cols srcs [] empty_db S) as [[cur D] S1] eqn:E.
  inversion H. subst S' D'. clear H.
  destruct (drive_overwrite n (dcfgs 0 cols) cols 0 srcs empty_db S) with (cur' := cur) (D' := D) (S' := S1) as [Hcur [HD Hres]];
    try assumption.
  - reflexivity.
  - apply dcfgs_agree.
  - intros c k. split.
    + rewrite Hres. destruct (N.ltb_spec c 0) as [Hlt|_]; [nlia|reflexivity].
    + subst cur. unfold apply_db. cbn [apply_ops]. apply HD.
Qed.

(* the call is refused exactly for a column-count mismatch or a selected btree column, and then nothing happens
   (the result carries no database) *)
Theorem driver_rejects_iff n cols ndst ow srcs S :
  (exists e, migrate_driver n cols ndst ow srcs S = MgErr e) <->
  (length cols <> ndst \/ exists m, In m cols /\ selected m = true /\ has_btree m = true).
Proof.
  unfold migrate_driver. destruct (Nat.eqb_spec (length cols) ndst) as [He|Hne]; cbn [negb].
  - destruct (existsb (fun m => selected m && has_btree m) cols) eqn:Ex.
    + split; [|intros _; eexists; reflexivity]. intros _. right. apply existsb_exists in Ex.
      destruct Ex as [m [Hin Hm]]. apply andb_true_iff in Hm. exists m. tauto.
    + destruct (drive n ow (dcfgs 0 cols) 0 cols srcs [] empty_db S) as [[cur D] S1]. split.
      * intros [e He']. discriminate.
      * intros [Hl|[m [Hin [Hs Hb]]]]; [contradiction|]. exfalso.
        assert (existsb (fun m => selected m && has_btree m) cols = true).
        { apply existsb_exists. exists m. split; [exact Hin|]. rewrite Hs, Hb. reflexivity. }
        congruence.
  - split; [intros _; left; exact Hne|intros _; eexists; reflexivity].
Qed.

(* the recursive description of the result, column by column *)
Lemma spec_db_nth : forall cols c0 srcs S base c,
  spec_db c0 cols srcs S base c =
  if (c0 <=? c) && (c <? c0 + N.of_nat (length cols)) then
    let i := N.to_nat (c - c0) in
    if selected (nth i cols {| m_sf := 0; m_df := 0; m_force := false |}) then
      migrated_col (nth i cols {| m_sf := 0; m_df := 0; m_force := false |}) (nth i srcs [])
    else S c
  else base c.
Proof.
  induction cols as [|m cols IH]; intros c0 srcs S base c; cbn [spec_db length].
  - destruct (N.leb_spec c0 c); destruct (N.ltb_spec c (c0 + N.of_nat 0)); cbn [andb]; try reflexivity; nlia.
  - destruct (N.eqb_spec c c0) as [->|Hne].
    + replace (c0 <=? c0) with true by (symmetry; apply N.leb_le; nlia).
      replace (c0 <? c0 + N.of_nat (Datatypes.S (length cols))) with true by (symmetry; apply N.ltb_lt; nlia).
      cbn [andb]. rewrite N.sub_diag. cbn [N.to_nat nth]. destruct srcs; reflexivity.
    + rewrite IH. destruct (N.leb_spec c0 c) as [Hle|Hgt].
      * replace (c0 + 1 <=? c) with true by (symmetry; apply N.leb_le; nlia).
        replace (c <? c0 + 1 + N.of_nat (length cols)) with (c <? c0 + N.of_nat (Datatypes.S (length cols)))
          by (f_equal; nlia).
        cbn [andb]. destruct (c <? c0 + N.of_nat (Datatypes.S (length cols))); [|reflexivity].
        replace (N.to_nat (c - c0)) with (Datatypes.S (N.to_nat (c - (c0 + 1)))) by nlia.
        cbn [nth]. destruct srcs as [|s srcs]; cbn [tl nth]; [|reflexivity].
        destruct (N.to_nat (c - (c0 + 1))); reflexivity.
      * replace (c0 + 1 <=? c) with false by (symmetry; apply N.leb_gt; nlia). reflexivity.
Qed.

(* ---- every column of the call ends with the source's keys, values and counts ----
   A source column is well formed when no listed entry has count 0 and a column that does not count lists count 1. *)
Definition wf_src (cf : ccfg) (src : scontent) : Prop :=
  forall k v rc, lookup_src src k = Some (v, rc) -> rc <> 0 /\ (c_rc cf = false -> rc = 1).

Definition mcol0 : mcol := {| m_sf := 0; m_df := 0; m_force := false |}.

Lemma unselected_same_flags m : selected m = false -> m_df m = m_sf m.
Proof.
  unfold selected. intros H. apply orb_false_iff in H. destruct H as [_ H].
  apply negb_false_iff in H. apply N.eqb_eq in H. symmetry. exact H.
Qed.

Lemma copied_column_is_migrated_column m src k :
  selected m = false -> wf_src (cfg_of_flags (m_sf m)) src -> src_cell src k = migrated_col m src k.
Proof.
  intros Hs Hw. unfold src_cell, migrated_col, dcf. rewrite (unselected_same_flags m Hs).
  destruct (lookup_src src k) as [[v rc]|] eqn:E; [|reflexivity].
  destruct (Hw k v rc E) as [Hnz H1]. unfold expected.
  destruct (N.eqb_spec rc 0) as [H0|_]; [contradiction|].
  destruct (c_rc (cfg_of_flags (m_sf m))) eqn:Erc; [reflexivity|]. rewrite (H1 eq_refl). reflexivity.
Qed.

Theorem whole_call_uniform n cols srcs S' D' :
  all_distinct srcs ->
  (forall i, (i < length cols)%nat -> wf_src (cfg_of_flags (m_sf (nth i cols mcol0))) (nth i srcs [])) ->
  migrate_driver n cols (length cols) false srcs (src_db srcs) = MgOk S' D' ->
  forall c k, c < N.of_nat (length cols) ->
  D' c k = migrated_col (nth (N.to_nat c) cols mcol0) (nth (N.to_nat c) srcs []) k.
Proof.
  intros Hd Hw H c k Hc. destruct (driver_copy_mode n cols srcs (src_db srcs) S' D' Hd H) as [_ HD].
  rewrite HD, spec_db_nth. replace (0 <=? c) with true by (symmetry; apply N.leb_le; nlia).
  replace (c <? 0 + N.of_nat (length cols)) with true by (symmetry; apply N.ltb_lt; nlia).
  cbn [andb]. cbv zeta. rewrite N.sub_0_r. fold mcol0.
  destruct (selected (nth (N.to_nat c) cols mcol0)) eqn:Es; [reflexivity|].
  unfold src_db. apply copied_column_is_migrated_column; [exact Es|]. apply Hw. nlia.
Qed.

Theorem whole_call_uniform_in_place n cols srcs S' D' :
  all_distinct srcs ->
  (forall i, (i < length cols)%nat -> wf_src (cfg_of_flags (m_sf (nth i cols mcol0))) (nth i srcs [])) ->
  migrate_driver n cols (length cols) true srcs (src_db srcs) = MgOk S' D' ->
  forall c k, (c < N.of_nat (length cols) ->
               S' c k = migrated_col (nth (N.to_nat c) cols mcol0) (nth (N.to_nat c) srcs []) k) /\
              (N.of_nat (length cols) <= c -> S' c k = src_db srcs c k).
Proof.
  intros Hd Hw H c k. destruct (driver_overwrite_mode n cols srcs (src_db srcs) S' D' Hd H c k) as [HS _].
  rewrite HS, spec_db_nth. replace (0 <=? c) with true by (symmetry; apply N.leb_le; nlia). cbn [andb]. split.
  - intros Hc. replace (c <? 0 + N.of_nat (length cols)) with true by (symmetry; apply N.ltb_lt; nlia).
    cbv zeta. rewrite N.sub_0_r. fold mcol0.
    destruct (selected (nth (N.to_nat c) cols mcol0)) eqn:Es; [reflexivity|].
    unfold src_db. apply copied_column_is_migrated_column; [exact Es|]. apply Hw. nlia.
  - intros Hc. replace (c <? 0 + N.of_nat (length cols)) with false by (symmetry; apply N.ltb_ge; nlia). reflexivity.
Qed.
