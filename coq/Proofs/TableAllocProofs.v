(* The allocator keeps the table partitioned: after next_free (pop the free list, else extend) and
   after clear_slot (push) every slot below the fill mark is still used exactly once - by the free list
   or by exactly one value chain. Single-slot values (every size tier but the multi-part one). *)
From Coq Require Import NArith List Bool Arith Lia Permutation.
From PDB Require Import Model.StorageCheck Proofs.StorageCheckProofs Model.TableAlloc.
Import ListNotations.
Open Scope N_scope.

(* the invariant the checker establishes (check_table_sound), as a predicate on tables *)
Definition TInv (d : tdump) : Prop :=
  filled d = N.of_nat (length (slots d)) + 1 /\
  exists fl cs, linkedf d (free_head d) fl /\ Forall (chain_wf d) cs /\ Permutation (fl ++ concat cs) (indices d).

Lemma checked_is_tinv d : t_ok (check_table d) = true -> slots d <> [] \/ filled d = 1 -> TInv d.
Proof.
  intros H Hne. destruct (check_table_sound d H) as [Hp [Hl [_ [Hc Hf]]]]. split.
  - destruct Hf as [Hf|[Hf0 Hs]]; [exact Hf|]. destruct Hne as [Hne|Hne]; [contradiction|]. rewrite Hf0 in Hne. discriminate.
  - exists (t_free (check_table d)), (t_chains (check_table d)). repeat split; assumption.
Qed.

(* ---- set_nth / slot_at ---- *)
Lemma set_nth_length {A} (l : list A) n x : length (set_nth l n x) = length l.
Proof. revert n. induction l as [|a l IH]; intros [|n]; cbn; try reflexivity. rewrite IH. reflexivity. Qed.
Lemma nth_error_set_nth_eq {A} (l : list A) n x : (n < length l)%nat -> nth_error (set_nth l n x) n = Some x.
Proof. revert n. induction l as [|a l IH]; intros [|n] H; cbn in *; try lia; [reflexivity|apply IH; lia]. Qed.
Lemma nth_error_set_nth_neq {A} (l : list A) n k x : n <> k -> nth_error (set_nth l n x) k = nth_error l k.
Proof. revert n k. induction l as [|a l IH]; intros [|n] [|k] H; cbn; try reflexivity; try contradiction. apply IH. lia. Qed.

Definition upd_slots (d : tdump) (h : N) (i : N) (s : rslot) : tdump :=
  {| filled := filled d; free_head := h; slots := set_nth (slots d) (N.to_nat (i - 1)) s |}.

Lemma slot_at_upd_eq d h i s x : slot_at d i = Some x -> slot_at (upd_slots d h i s) i = Some s.
Proof.
  unfold slot_at, upd_slots. cbn [filled slots]. destruct ((i =? 0) || (filled d <=? i)); [discriminate|].
  intros H. apply nth_error_set_nth_eq. apply nth_error_Some. rewrite H. discriminate.
Qed.
Lemma slot_at_upd_neq d h i s k : i <> 0 -> k <> i -> slot_at (upd_slots d h i s) k = slot_at d k.
Proof.
  intros Hi0 Hne. unfold slot_at, upd_slots. cbn [filled slots]. destruct (N.eqb_spec k 0) as [|Hk0]; [reflexivity|]. cbn [orb].
  destruct (filled d <=? k); [reflexivity|]. apply nth_error_set_nth_neq. lia.
Qed.

Lemma indices_upd d h i s : indices (upd_slots d h i s) = indices d.
Proof. unfold indices, upd_slots. cbn [slots]. rewrite set_nth_length. reflexivity. Qed.

(* replacing a slot that is neither head nor part by another such slot leaves the targets alone *)
Definition no_next (s : rslot) : bool := match s with RHead _ | RPart _ => false | _ => true end.
Lemma targets_set_nth l n s : (forall x, nth_error l n = Some x -> no_next x = true) -> no_next s = true ->
  flat_map (fun s => match s with RHead nx | RPart nx => [nx] | _ => [] end) (set_nth l n s) =
  flat_map (fun s => match s with RHead nx | RPart nx => [nx] | _ => [] end) l.
Proof.
  revert n. induction l as [|a l IH]; intros [|n] Ha Hs; cbn [set_nth flat_map]; try reflexivity.
  - specialize (Ha a eq_refl). destruct a, s; cbn in *; try discriminate; reflexivity.
  - rewrite IH; [reflexivity| |exact Hs]. intros x Hx. apply Ha. exact Hx.
Qed.
Lemma targets_upd d h i s x : slot_at d i = Some x -> no_next x = true -> no_next s = true -> targets (upd_slots d h i s) = targets d.
Proof.
  intros Hx Hn Hs. unfold targets, upd_slots. cbn [slots]. apply targets_set_nth; [|exact Hs].
  intros y Hy. unfold slot_at in Hx. destruct ((i =? 0) || (filled d <=? i)); [discriminate|]. rewrite Hy in Hx. injection Hx as ->. exact Hn.
Qed.

(* structures that do not contain the changed slot are untouched *)
Lemma linkedf_upd d h i s a l : i <> 0 -> linkedf d a l -> ~ In i l -> linkedf (upd_slots d h i s) a l.
Proof.
  intros Hi0. induction 1 as [|j nx l Hj Hs Hl IH]; intros Hni; [constructor|].
  econstructor; [exact Hj| |apply IH; intros H; apply Hni; right; exact H].
  rewrite slot_at_upd_neq; [exact Hs|exact Hi0|]. intros ->. apply Hni. left. reflexivity.
Qed.
Lemma linkedp_upd d h i s a l : i <> 0 -> linkedp d a l -> ~ In i l -> linkedp (upd_slots d h i s) a l.
Proof.
  intros Hi0. induction 1 as [j Hs|j nx l Hs Hl IH]; intros Hni.
  - apply lp_last. rewrite slot_at_upd_neq; [exact Hs|exact Hi0|]. intros ->. apply Hni. left. reflexivity.
  - eapply lp_part; [|apply IH; intros H; apply Hni; right; exact H].
    rewrite slot_at_upd_neq; [exact Hs|exact Hi0|]. intros ->. apply Hni. left. reflexivity.
Qed.
Lemma chain_wf_upd d h i s c : i <> 0 -> chain_wf d c -> ~ In i c -> targets (upd_slots d h i s) = targets d -> chain_wf (upd_slots d h i s) c.
Proof.
  intros Hi0 [[j [-> [Hs Hm]]]|[j [nx [ps [-> [Hs Hl]]]]]] Hni Ht.
  - left. exists j. repeat split; [|rewrite Ht; exact Hm]. rewrite slot_at_upd_neq; [exact Hs|exact Hi0|]. intros ->. apply Hni. left. reflexivity.
  - right. exists j, nx, ps. repeat split.
    + rewrite slot_at_upd_neq; [exact Hs|exact Hi0|]. intros ->. apply Hni. left. reflexivity.
    + apply linkedp_upd; [exact Hi0|exact Hl|]. intros H. apply Hni. right. exact H.
Qed.

(* ---- facts that follow from the partition ---- *)
Lemma indices_nodup d : NoDup (indices d).
Proof. unfold indices. apply FinFun.Injective_map_NoDup; [|apply seq_NoDup]. intros a b E. lia. Qed.

Lemma linkedf_free d a l x : linkedf d a l -> In x l -> exists nx, slot_at d x = Some (RFree nx).
Proof.
  induction 1 as [|j nx l Hj Hs Hl IH]; intros Hx; [contradiction|]. destruct Hx as [<-|Hx]; [exists nx; exact Hs|apply IH; exact Hx].
Qed.
Lemma linkedp_kinds d a l x : linkedp d a l -> In x l -> slot_at d x = Some RSize \/ exists nx, slot_at d x = Some (RPart nx).
Proof.
  induction 1 as [j Hs|j nx l Hs Hl IH]; intros Hx.
  - destruct Hx as [<-|[]]. left. exact Hs.
  - destruct Hx as [<-|Hx]; [right; exists nx; exact Hs|apply IH; exact Hx].
Qed.
Lemma chain_kinds d c x : chain_wf d c -> In x c -> exists s, slot_at d x = Some s /\ s <> RBad /\ (forall nx, s <> RFree nx).
Proof.
  intros [[j [-> [Hs _]]]|[j [nx [ps [-> [Hs Hl]]]]]] Hx.
  - destruct Hx as [<-|[]]. exists RSize. repeat split; [exact Hs|discriminate|discriminate].
  - destruct Hx as [<-|Hx]; [exists (RHead nx); repeat split; [exact Hs|discriminate|discriminate]|].
    destruct (linkedp_kinds _ _ _ _ Hl Hx) as [H|[n H]]; [exists RSize|exists (RPart n)]; repeat split; try exact H; discriminate.
Qed.

(* the successor of a head or a part inside a well-formed chain is a part or a last slot *)
Lemma linkedp_next d a l x nx : linkedp d a l -> In x l -> slot_at d x = Some (RPart nx) ->
  slot_at d nx = Some RSize \/ exists n2, slot_at d nx = Some (RPart n2).
Proof.
  induction 1 as [j Hs|j n l Hs Hl IH]; intros Hx Hsx.
  - destruct Hx as [<-|[]]. rewrite Hs in Hsx. discriminate.
  - destruct Hx as [<-|Hx]; [|apply IH; assumption]. rewrite Hs in Hsx. injection Hsx as <-.
    inversion Hl; subst; [left; assumption|right; eexists; eassumption].
Qed.

Lemma target_is_part d cs fl x : Forall (chain_wf d) cs -> linkedf d (free_head d) fl -> Permutation (fl ++ concat cs) (indices d) ->
  memN x (targets d) = true -> slot_at d x = Some RSize \/ exists n2, slot_at d x = Some (RPart n2).
Proof.
  intros Hcs Hfl Hp Hm. apply memN_in in Hm. unfold targets in Hm. apply in_flat_map in Hm. destruct Hm as [s [Hs Hx]].
  (* s is a slot of the table: find its index *)
  apply In_nth_error in Hs. destruct Hs as [n Hn].
  set (y := N.of_nat n + 1).
  assert (Hy : slot_at d y = Some s).
  { unfold slot_at, y. destruct (N.eqb_spec (N.of_nat n + 1) 0); [lia|]. cbn [orb].
    (* below the fill mark is not needed: slot_at only uses nth_error once in range; show range from the partition *)
    destruct (filled d <=? N.of_nat n + 1) eqn:E.
    - exfalso. (* y would not be an index, but it is: nth_error is Some *)
      apply N.leb_le in E.
      assert (Hlen : (n < length (slots d))%nat) by (apply nth_error_Some; rewrite Hn; discriminate).
      (* indices has length (slots), and the permutation gives every index a slot_at = Some, so filled > every index *)
      assert (Hin : In y (indices d)) by (unfold indices, y; apply in_map_iff; exists n; split; [lia|apply in_seq; lia]).
      apply (Permutation_in _ (Permutation_sym Hp)) in Hin. apply in_app_or in Hin as [Hin|Hin].
      + destruct (linkedf_free _ _ _ _ Hfl Hin) as [nx Hnx]. unfold slot_at in Hnx. fold y in E.
        destruct (N.eqb_spec y 0); [discriminate|]. cbn [orb] in Hnx. destruct (N.leb_spec (filled d) y); [discriminate|lia].
      + apply in_concat in Hin as [c [Hc Hyc]]. rewrite Forall_forall in Hcs. destruct (chain_kinds _ _ _ (Hcs c Hc) Hyc) as [s0 [Hs0 _]].
        unfold slot_at in Hs0. destruct (N.eqb_spec y 0); [discriminate|]. cbn [orb] in Hs0. destruct (N.leb_spec (filled d) y); [discriminate|lia].
    - replace (N.to_nat (N.of_nat n + 1 - 1)) with n by lia. exact Hn. }
  assert (Hin : In y (indices d)) by (eapply slot_at_in; exact Hy).
  apply (Permutation_in _ (Permutation_sym Hp)) in Hin. apply in_app_or in Hin as [Hin|Hin].
  - destruct (linkedf_free _ _ _ _ Hfl Hin) as [nx Hnx]. rewrite Hnx in Hy. injection Hy as <-. destruct Hx.
  - apply in_concat in Hin as [c [Hc Hyc]]. rewrite Forall_forall in Hcs. specialize (Hcs c Hc).
    destruct Hcs as [[j [-> [Hsj _]]]|[j [nx [ps [-> [Hsj Hl]]]]]].
    + destruct Hyc as [<-|[]]. rewrite Hsj in Hy. injection Hy as <-. destruct Hx.
    + destruct Hyc as [<-|Hyc].
      * rewrite Hsj in Hy. injection Hy as <-. destruct Hx as [<-|[]]. inversion Hl; subst; [left; assumption|right; eexists; eassumption].
      * destruct (linkedp_kinds _ _ _ _ Hl Hyc) as [H|[n2 H]]; rewrite H in Hy; injection Hy as <-; [destruct Hx|].
        destruct Hx as [<-|[]]. eapply linkedp_next; eassumption.
Qed.

Lemma linkedf_inv d a l : linkedf d a l ->
  (a = 0 /\ l = []) \/ (a <> 0 /\ exists nx l', slot_at d a = Some (RFree nx) /\ l = a :: l' /\ linkedf d nx l').
Proof. intros H. destruct H as [|j nx l Hj Hs Hl]; [left; split; reflexivity|right; split; [exact Hj|exists nx, l; repeat split; assumption]]. Qed.

(* ---- allocation from the free list ---- *)
Theorem alloc1_pop_inv d nx : TInv d -> slot_at d (free_head d) = Some (RFree nx) ->
  let '(d', i) := alloc1 d in
  TInv d' /\ i = free_head d /\ slot_at d' i = Some RSize /\ filled d' = filled d /\
  (forall k, k <> i -> slot_at d' k = slot_at d k).
Proof.
  intros [Hf [fl [cs [Hfl [Hcs Hp]]]]] Hh. unfold alloc1. rewrite Hh.
  remember (free_head d) as h eqn:Eh.
  change {| filled := filled d; free_head := nx; slots := set_nth (slots d) (N.to_nat (h - 1)) RSize |} with (upd_slots d nx h RSize).
  destruct (linkedf_inv _ _ _ Hfl) as [[E _]|[Hj [n [l [Hs [Efl Hl]]]]]]; [rewrite E in Hh; unfold slot_at in Hh; cbn in Hh; discriminate|].
  rewrite Hs in Hh. injection Hh as ->. subst fl.
  assert (Hnd : NoDup ((h :: l) ++ concat cs)) by (eapply Permutation_NoDup; [apply Permutation_sym; exact Hp|apply indices_nodup]).
  cbn [app] in Hnd. apply NoDup_cons_iff in Hnd as [Hnotin Hnd'].
  assert (Ht : targets (upd_slots d nx h RSize) = targets d) by (eapply targets_upd; [exact Hs|reflexivity|reflexivity]).
  split; [|repeat split].
  - split; [cbn [filled slots upd_slots]; rewrite set_nth_length; exact Hf|].
    exists l, ([h] :: cs). split; [|split].
    + cbn [free_head upd_slots]. apply linkedf_upd; [exact Hj|exact Hl|]. intros H. apply Hnotin. apply in_or_app. left. exact H.
    + constructor.
      * left. exists h. repeat split; [eapply slot_at_upd_eq; exact Hs|]. rewrite Ht.
        destruct (memN h (targets d)) eqn:Em; [|reflexivity]. exfalso.
        assert (Hfl' : linkedf d (free_head d) (h :: l)) by (rewrite <- Eh; exact Hfl).
        destruct (target_is_part d cs (h :: l) h Hcs Hfl' Hp Em) as [H|[n2 H]]; rewrite Hs in H; discriminate.
      * rewrite Forall_forall in *. intros c Hc. apply chain_wf_upd; [exact Hj|apply Hcs; exact Hc| |exact Ht].
        intros H. apply Hnotin. apply in_or_app. right. apply in_concat. exists c. split; assumption.
    + rewrite indices_upd. cbn [concat]. eapply Permutation_trans; [|exact Hp]. cbn [app].
      apply Permutation_sym. apply Permutation_middle.
  - eapply slot_at_upd_eq. exact Hs.
  - intros k Hk. apply slot_at_upd_neq; [exact Hj|exact Hk].
Qed.

(* ---- allocation at the fill mark (the free list is empty) ---- *)
Lemma slot_at_extend d s k : filled d = N.of_nat (length (slots d)) + 1 -> k <> filled d ->
  slot_at {| filled := filled d + 1; free_head := free_head d; slots := slots d ++ [s] |} k = slot_at d k.
Proof.
  intros Hf Hk. unfold slot_at. cbn [filled slots]. destruct (N.eqb_spec k 0); [reflexivity|]. cbn [orb].
  destruct (N.leb_spec (filled d + 1) k), (N.leb_spec (filled d) k); try reflexivity; try lia.
  apply nth_error_app1. lia.
Qed.
Lemma slot_at_extend_new d s : filled d = N.of_nat (length (slots d)) + 1 ->
  slot_at {| filled := filled d + 1; free_head := free_head d; slots := slots d ++ [s] |} (filled d) = Some s.
Proof.
  intros Hf. unfold slot_at. cbn [filled slots]. destruct (N.eqb_spec (filled d) 0); [lia|]. cbn [orb].
  destruct (N.leb_spec (filled d + 1) (filled d)); [lia|].
  rewrite nth_error_app2 by lia. replace (N.to_nat (filled d - 1) - length (slots d))%nat with O by lia. reflexivity.
Qed.

Lemma slot_some_lt d k s : slot_at d k = Some s -> k < filled d /\ k <> 0.
Proof.
  unfold slot_at. destruct (N.eqb_spec k 0); [discriminate|]. cbn [orb]. destruct (N.leb_spec (filled d) k); [discriminate|]. intros _. split; assumption.
Qed.

Theorem alloc1_extend_inv d : TInv d -> free_head d = 0 ->
  let '(d', i) := alloc1 d in
  TInv d' /\ i = filled d /\ slot_at d' i = Some RSize /\ filled d' = filled d + 1 /\
  (forall k, k <> i -> slot_at d' k = slot_at d k).
Proof.
  intros [Hf [fl [cs [Hfl [Hcs Hp]]]]] Hh. unfold alloc1. rewrite Hh. cbn [slot_at N.eqb orb].
  set (d' := {| filled := filled d + 1; free_head := 0; slots := slots d ++ [RSize] |}).
  assert (Hd' : d' = {| filled := filled d + 1; free_head := free_head d; slots := slots d ++ [RSize] |}) by (unfold d'; rewrite Hh; reflexivity).
  assert (Hfl0 : fl = []).
  { destruct (linkedf_inv _ _ _ Hfl) as [[_ E]|[Hj _]]; [exact E|]. rewrite Hh in Hj. contradiction Hj. reflexivity. }
  subst fl. cbn [app] in Hp.
  assert (Ht : targets d' = targets d).
  { unfold targets, d'. cbn [slots]. rewrite flat_map_app. cbn. apply app_nil_r. }
  assert (Hold : forall k s, slot_at d k = Some s -> slot_at d' k = Some s).
  { intros k s Hk. rewrite Hd', slot_at_extend; [exact Hk|exact Hf|]. apply slot_some_lt in Hk. lia. }
  assert (Hlf : forall a l, linkedp d a l -> linkedp d' a l).
  { induction 1; [apply lp_last; apply Hold; assumption|eapply lp_part; [apply Hold; eassumption|assumption]]. }
  split; [|repeat split].
  - split; [unfold d'; cbn [filled slots]; rewrite app_length; cbn; lia|].
    exists [], ([filled d] :: cs). split; [|split].
    + unfold d'. cbn [free_head]. constructor.
    + constructor.
      * left. exists (filled d). repeat split; [rewrite Hd'; apply slot_at_extend_new; exact Hf|]. rewrite Ht.
        destruct (memN (filled d) (targets d)) eqn:Em; [|reflexivity]. exfalso.
        destruct (target_is_part d cs [] (filled d) Hcs Hfl Hp Em) as [H|[n2 H]]; apply slot_some_lt in H; lia.
      * rewrite Forall_forall in *. intros c Hc. specialize (Hcs c Hc).
        destruct Hcs as [[j [-> [Hsj Hm]]]|[j [nx [ps [-> [Hsj Hl]]]]]].
        { left. exists j. repeat split; [apply Hold; exact Hsj|rewrite Ht; exact Hm]. }
        { right. exists j, nx, ps. repeat split; [apply Hold; exact Hsj|apply Hlf; exact Hl]. }
    + cbn [app concat]. unfold indices, d'. cbn [slots]. rewrite app_length, seq_app, map_app. cbn [length seq map Nat.add].
      rewrite <- Hf.
      eapply Permutation_trans; [apply Permutation_cons_append|]. apply Permutation_app_tail. exact Hp.
  - rewrite Hd'. apply slot_at_extend_new. exact Hf.
  - intros k Hk. rewrite Hd'. apply slot_at_extend; assumption.
Qed.

(* ---- freeing a single-slot value ---- *)
Theorem free1_inv d i : TInv d -> slot_at d i = Some RSize -> memN i (targets d) = false ->
  TInv (free1 d i) /\ filled (free1 d i) = filled d /\ free_head (free1 d i) = i /\
  (forall k, k <> i -> slot_at (free1 d i) k = slot_at d k).
Proof.
  intros [Hf [fl [cs [Hfl [Hcs Hp]]]]] Hs Hm.
  change (free1 d i) with (upd_slots d i i (RFree (free_head d))).
  assert (Hnd : NoDup (fl ++ concat cs)) by (eapply Permutation_NoDup; [apply Permutation_sym; exact Hp|apply indices_nodup]).
  assert (Hin : In i (fl ++ concat cs)) by (apply (Permutation_in _ (Permutation_sym Hp)); eapply slot_at_in; exact Hs).
  apply in_app_or in Hin as [Hin|Hin].
  { destruct (linkedf_free _ _ _ _ Hfl Hin) as [nx H]. rewrite H in Hs. discriminate. }
  apply in_concat in Hin as [c [Hc Hic]].
  (* the chain holding i is the single chain [i] *)
  assert (Hci : c = [i]).
  { rewrite Forall_forall in Hcs. destruct (Hcs c Hc) as [[j [-> _]]|[j [nx [ps [-> [Hsj Hl]]]]]].
    - destruct Hic as [<-|[]]. reflexivity.
    - exfalso. destruct Hic as [<-|Hic]; [rewrite Hsj in Hs; discriminate|].
      (* i is a last part of a multi-part chain: then something points at it *)
      assert (Ht : memN i (targets d) = true).
      { clear - Hl Hic Hs Hsj. apply memN_in. unfold targets.
        pose (hd := RHead nx). pose (prev := j). assert (Hprev : slot_at d prev = Some hd) by exact Hsj.
        assert (Hhd : match hd with RHead n | RPart n => n = nx | _ => False end) by reflexivity.
        assert (G : forall a l, linkedp d a l -> forall prev0 s, In i l -> slot_at d prev0 = Some s ->
                     (match s with RHead n | RPart n => n = a | _ => False end) ->
                     In i (flat_map (fun s => match s with RHead nx | RPart nx => [nx] | _ => [] end) (slots d))).
        { induction 1 as [j0 Hs0|j0 n0 l0 Hs0 Hl0 IH0]; intros prev0 s Hi Hp0 Hm0.
          - destruct Hi as [<-|[]]. unfold slot_at in Hp0. destruct ((prev0 =? 0) || (filled d <=? prev0)); [discriminate|].
            apply in_flat_map. exists s. split; [eapply nth_error_In; exact Hp0|]. destruct s; try contradiction; left; (exact Hm0 || (symmetry; exact Hm0)).
          - destruct Hi as [<-|Hi].
            + unfold slot_at in Hp0. destruct ((prev0 =? 0) || (filled d <=? prev0)); [discriminate|].
              apply in_flat_map. exists s. split; [eapply nth_error_In; exact Hp0|]. destruct s; try contradiction; left; (exact Hm0 || (symmetry; exact Hm0)).
            + apply (IH0 j0 (RPart n0)); [exact Hi|exact Hs0|reflexivity]. }
        apply (G nx ps Hl prev hd Hic Hprev). exact Hhd. }
      rewrite Ht in Hm. discriminate. }
  subst c.
  apply in_split in Hc. destruct Hc as [cs1 [cs2 ->]].
  rewrite concat_app in Hnd, Hp. cbn [concat app] in Hnd, Hp.
  assert (Hrem : ~ In i ((fl ++ concat cs1) ++ concat cs2)).
  { rewrite app_assoc in Hnd. apply NoDup_remove_2 in Hnd. exact Hnd. }
  assert (Hnotfl : ~ In i fl) by (intros H; apply Hrem; apply in_or_app; left; apply in_or_app; left; exact H).
  assert (Hnot1 : ~ In i (concat cs1)) by (intros H; apply Hrem; apply in_or_app; left; apply in_or_app; right; exact H).
  assert (Hnot2 : ~ In i (concat cs2)) by (intros H; apply Hrem; apply in_or_app; right; exact H).
  assert (Ht : targets (upd_slots d i i (RFree (free_head d))) = targets d) by (eapply targets_upd; [exact Hs|reflexivity|reflexivity]).
  assert (Hi0 : i <> 0) by (apply slot_some_lt in Hs; tauto).
  split; [|repeat split].
  - split; [cbn [filled slots upd_slots]; rewrite set_nth_length; exact Hf|].
    exists (i :: fl), (cs1 ++ cs2). split; [|split].
    + cbn [free_head upd_slots]. econstructor.
      * exact Hi0.
      * eapply slot_at_upd_eq. exact Hs.
      * apply linkedf_upd; assumption.
    + apply Forall_app in Hcs as [H1 H2]. inversion H2 as [|x l _ H2']; subst. apply Forall_app. split.
      * rewrite Forall_forall in *. intros c Hc. apply chain_wf_upd; [exact Hi0|apply H1; exact Hc| |exact Ht].
        intros H. apply Hnot1. apply in_concat. exists c. split; assumption.
      * rewrite Forall_forall in *. intros c Hc. apply chain_wf_upd; [exact Hi0|apply H2'; exact Hc| |exact Ht].
        intros H. apply Hnot2. apply in_concat. exists c. split; assumption.
    + rewrite indices_upd, concat_app. eapply Permutation_trans; [|exact Hp]. cbn [app].
      rewrite !app_assoc. apply Permutation_sym. rewrite <- !app_assoc. apply Permutation_sym.
      apply (Permutation_middle (fl ++ concat cs1) (concat cs2) i) || idtac.
      rewrite !app_assoc. apply Permutation_cons_app. rewrite <- app_assoc. reflexivity.
  - intros k Hk. apply slot_at_upd_neq; [exact Hi0|exact Hk].
Qed.
