(* C10 / C11, counter level: whatever sequence of references gained and lost, reindex batches and restarts the
   reference count tables of a column go through - growing as often as a chunk overflows, with counters left
   behind in outgrown tables, moved, skipped and dropped - looking a node up (current table first, then the
   waiting ones, newest first) gives 1 + the number of references the node gained and has not lost again, and
   nothing for a node that has exactly one reference. *)
From Coq Require Import NArith List Bool Arith Lia Sorted.
From PDB Require Import Gen.Consts Model.RcTable.
Import ListNotations.
Open Scope N_scope.

(* ---- association lists of chunks ---- *)
Lemma clookup_cremove_eq l k : clookup (cremove l k) k = None.
Proof. induction l as [|[k' v] l IH]; cbn; [reflexivity|]. destruct (N.eqb_spec k' k); [exact IH|]. cbn. destruct (N.eqb_spec k' k); [contradiction|exact IH]. Qed.
Lemma clookup_cremove_neq l k k2 : k2 <> k -> clookup (cremove l k) k2 = clookup l k2.
Proof.
  intros Hne. induction l as [|[k' v] l IH]; cbn; [reflexivity|]. destruct (N.eqb_spec k' k) as [->|Hk].
  - rewrite IH. destruct (N.eqb_spec k k2); [congruence|reflexivity].
  - cbn. rewrite IH. reflexivity.
Qed.
Lemma get_set_chunk_eq t c s : get_chunk (set_chunk t c s) c = s.
Proof. unfold get_chunk, set_chunk, cset. cbn. rewrite N.eqb_refl. reflexivity. Qed.
Lemma get_set_chunk_neq t c s q : q <> c -> get_chunk (set_chunk t c s) q = get_chunk t q.
Proof. intros H. unfold get_chunk, set_chunk, cset. cbn. destruct (N.eqb_spec c q); [congruence|]. rewrite clookup_cremove_neq by exact H. reflexivity. Qed.

Lemma rc_nslots_pos : (0 < rc_nslots)%nat.
Proof. unfold rc_nslots. vm_compute. lia. Qed.

(* ---- one chunk ---- *)
Lemma nth_set_nth_eq (l : list rslot) : forall n x, (n < length l)%nat -> nth_error (set_nth l n x) n = Some x.
Proof. induction l as [|a l IH]; intros [|n] x H; cbn in *; try lia; [reflexivity|apply IH; lia]. Qed.
Lemma nth_set_nth_neq (l : list rslot) : forall n x m, m <> n -> nth_error (set_nth l n x) m = nth_error l m.
Proof. induction l as [|a l IH]; intros [|n] x [|m] H; cbn; try reflexivity; try contradiction. apply IH. lia. Qed.

Definition holds_at (l : list rslot) (n : nat) (a c : N) : Prop :=
  exists e, nth_error l n = Some (Some e) /\ r_addr e = a /\ r_count e = c.
Definition absent (l : list rslot) (a : N) : Prop := forall n e, nth_error l n = Some (Some e) -> r_addr e <> a.
Definition nodup_chunk (l : list rslot) : Prop :=
  forall n m e1 e2, nth_error l n = Some (Some e1) -> nth_error l m = Some (Some e2) -> r_addr e1 = r_addr e2 -> n = m.

Lemma find_addr_some (l : list rslot) : forall i a j c, find_addr l i a = Some (j, c) -> (i <= j)%nat /\ holds_at l (j - i) a c.
Proof.
  induction l as [|[x|] l IH]; intros i a j c H; cbn in H; try discriminate.
  - destruct (N.eqb_spec (r_addr x) a) as [Ea|Ea].
    + injection H as <- <-. split; [lia|]. rewrite Nat.sub_diag. exists x. repeat split; [exact Ea].
    + apply IH in H as [H1 [e [H2 H3]]]. split; [lia|]. replace (j - i)%nat with (S (j - S i)) by lia. exists e. split; assumption.
  - apply IH in H as [H1 [e [H2 H3]]]. split; [lia|]. replace (j - i)%nat with (S (j - S i)) by lia. exists e. split; assumption.
Qed.
Lemma find_addr_none (l : list rslot) : forall i a, find_addr l i a = None -> absent l a.
Proof.
  induction l as [|[x|] l IH]; intros i a H n e Hn; [destruct n; discriminate| |].
  - cbn in H. destruct (N.eqb_spec (r_addr x) a) as [Ea|Ea]; [discriminate|].
    destruct n as [|n]; cbn in Hn; [injection Hn as <-; exact Ea|exact (IH _ _ H n e Hn)].
  - cbn in H. destruct n as [|n]; cbn in Hn; [discriminate|exact (IH _ _ H n e Hn)].
Qed.
Lemma find_addr_absent (l : list rslot) : forall i a, absent l a -> find_addr l i a = None.
Proof.
  induction l as [|[x|] l IH]; intros i a H; cbn; [reflexivity| |].
  - destruct (N.eqb_spec (r_addr x) a) as [Ea|Ea]; [exfalso; exact (H O x eq_refl Ea)|].
    apply IH. intros n e Hn. exact (H (S n) e Hn).
  - apply IH. intros n e Hn. exact (H (S n) e Hn).
Qed.
Lemma find_addr_complete (l : list rslot) : forall i a n c, nodup_chunk l -> holds_at l n a c -> find_addr l i a = Some ((n + i)%nat, c).
Proof.
  induction l as [|x l IH]; intros i a n c Hnd [e [Hn [Ha Hc]]]; [destruct n; discriminate|].
  assert (Hnd' : nodup_chunk l).
  { intros p q e1 e2 H1 H2 H3. specialize (Hnd (S p) (S q) e1 e2 H1 H2 H3). lia. }
  destruct n as [|n].
  - cbn in Hn. injection Hn as ->. cbn. rewrite Ha, N.eqb_refl, Hc. reflexivity.
  - cbn in Hn. destruct x as [x|]; cbn.
    + destruct (N.eqb_spec (r_addr x) a) as [Ea|Ea].
      * exfalso. assert (O = S n) by (apply (Hnd O (S n) x e); [reflexivity|exact Hn|congruence]). discriminate.
      * rewrite (IH (S i) a n c Hnd'); [f_equal; f_equal; lia|]. exists e. repeat split; assumption.
    + rewrite (IH (S i) a n c Hnd'); [f_equal; f_equal; lia|]. exists e. repeat split; assumption.
Qed.

Lemma first_free_spec (l : list rslot) : forall i j, first_free l i = Some j -> (i <= j)%nat /\ nth_error l (j - i) = Some None.
Proof.
  induction l as [|[e|] l IH]; intros i j H; cbn in H; try discriminate.
  - apply IH in H as [H1 H2]. split; [lia|]. replace (j - i)%nat with (S (j - S i)) by lia. exact H2.
  - injection H as <-. split; [lia|]. rewrite Nat.sub_diag. reflexivity.
Qed.
Lemma first_free_fresh i : first_free (repeat None rc_nslots) i = Some i.
Proof. pose proof rc_nslots_pos. destruct rc_nslots; [lia|]. reflexivity. Qed.
Lemma nth_repeat_none n k : nth_error (repeat (@None rentry) n) k = Some None \/ nth_error (repeat (@None rentry) n) k = None.
Proof. revert k. induction n as [|n IH]; intros [|k]; cbn; auto. Qed.

Lemma nth_set_nth_inv (l : list rslot) : forall n x y, nth_error (set_nth l n x) n = Some y -> y = x /\ (n < length l)%nat.
Proof. induction l as [|a l IH]; intros [|n] x y H; cbn in *; try discriminate; [injection H as <-; split; [reflexivity|lia]|]. apply IH in H as [H1 H2]. split; [exact H1|lia]. Qed.
Lemma length_set_nth (l : list rslot) : forall n x, length (set_nth l n x) = length l.
Proof. induction l as [|a l IH]; intros [|n] x; cbn; try reflexivity. rewrite IH. reflexivity. Qed.

Lemma find_addr_set_nth_other (l : list rslot) : forall i k x b,
  (forall e, nth_error l i = Some (Some e) -> r_addr e <> b) -> (forall e, x = Some e -> r_addr e <> b) ->
  find_addr (set_nth l i x) k b = find_addr l k b.
Proof.
  induction l as [|s l IH]; intros [|i] k x b Ho Hx; cbn; try reflexivity.
  - assert (Hs : find_addr (s :: l) k b = find_addr l (S k) b).
    { destruct s as [e0|]; cbn; [|reflexivity]. destruct (N.eqb_spec (r_addr e0) b) as [E|E]; [exfalso; exact (Ho e0 eq_refl E)|reflexivity]. }
    cbn in Hs. rewrite Hs. destruct x as [e|]; [|reflexivity]. destruct (N.eqb_spec (r_addr e) b) as [E|E]; [exfalso; exact (Hx e eq_refl E)|reflexivity].
  - rewrite (IH i (S k) x b); [reflexivity| |exact Hx]. intros e He. exact (Ho e He).
Qed.

Lemma nodup_set_nth (l : list rslot) i x : nodup_chunk l ->
  (forall e, x = Some e -> forall m e2, m <> i -> nth_error l m = Some (Some e2) -> r_addr e2 <> r_addr e) ->
  nodup_chunk (set_nth l i x).
Proof.
  intros Hnd Hx n m e1 e2 H1 H2 Heq.
  destruct (Nat.eq_dec n i) as [->|Hn]; destruct (Nat.eq_dec m i) as [->|Hm]; try reflexivity.
  - apply nth_set_nth_inv in H1 as [H1 _]. rewrite nth_set_nth_neq in H2 by exact Hm. exfalso. symmetry in H1. exact (Hx e1 H1 m e2 Hm H2 (eq_sym Heq)).
  - apply nth_set_nth_inv in H2 as [H2 _]. rewrite nth_set_nth_neq in H1 by exact Hn. exfalso. symmetry in H2. exact (Hx e2 H2 n e1 Hn H1 Heq).
  - rewrite nth_set_nth_neq in H1 by exact Hn. rewrite nth_set_nth_neq in H2 by exact Hm. exact (Hnd n m e1 e2 H1 H2 Heq).
Qed.

Lemma nodup_repeat_none n : nodup_chunk (repeat None n).
Proof. intros p q e1 e2 H1. exfalso. destruct (nth_repeat_none n p) as [H|H]; cbv [rslot] in *; congruence. Qed.

(* ---- one table ---- *)
Section Tables.
Variable hf : N -> N.       (* the hash of every address *)
Hypothesis hf_bound : forall a, hf a < 2 ^ 64.

Definition twf (t : rtab) : Prop :=
  (forall c, nodup_chunk (get_chunk t c)) /\
  (forall c n e, nth_error (get_chunk t c) n = Some (Some e) -> r_hash e = hf (r_addr e) /\ c = chunk_of (t_bits t) (r_hash e)).
Definition tcount (t : rtab) (a : N) : option N := match tfind t a (hf a) with Some (_, c) => Some c | None => None end.
Definition entry_of (t : rtab) (e : rentry) : Prop := exists c n, nth_error (get_chunk t c) n = Some (Some e).

Lemma twf_empty b : twf {| t_bits := b; t_chunks := [] |}.
Proof.
  split; intros c; unfold get_chunk; cbn [t_chunks clookup]; [apply nodup_repeat_none|].
  intros n e H. exfalso. destruct (nth_repeat_none rc_nslots n) as [H1|H1]; cbv [rslot] in *; congruence.
Qed.
Lemma tcount_empty b a : tcount {| t_bits := b; t_chunks := [] |} a = None.
Proof.
  unfold tcount, tfind, get_chunk. cbn [t_chunks t_bits clookup]. rewrite find_addr_absent; [reflexivity|].
  intros n e H. exfalso. destruct (nth_repeat_none rc_nslots n) as [H1|H1]; cbv [rslot] in *; congruence.
Qed.

Lemma tcount_entry t e : twf t -> entry_of t e -> tcount t (r_addr e) = Some (r_count e).
Proof.
  intros [Hnd Hpl] [c [n Hn]]. destruct (Hpl c n e Hn) as [Hh Hc]. unfold tcount, tfind. rewrite <- Hh, <- Hc.
  rewrite (find_addr_complete _ 0 (r_addr e) n (r_count e) (Hnd c)); [reflexivity|]. exists e. repeat split. exact Hn.
Qed.
Lemma tcount_some_entry t a c : tcount t a = Some c -> exists e, entry_of t e /\ r_addr e = a /\ r_count e = c.
Proof.
  unfold tcount, tfind. destruct (find_addr _ 0 a) as [[i c0]|] eqn:E; [|discriminate]. intros H. injection H as ->.
  apply find_addr_some in E as [_ [e [H1 [H2 H3]]]]. exists e. split; [eexists; eexists; exact H1|split; assumption].
Qed.
Lemma tcount_none_entry t a e : twf t -> tcount t a = None -> entry_of t e -> r_addr e <> a.
Proof. intros Hw Hn He Ha. rewrite <- Ha, (tcount_entry t e Hw He) in Hn. discriminate. Qed.

(* what changing one slot of the chunk of [h] does *)
Lemma tcount_tput_other t h i x b :
  (forall e, nth_error (get_chunk t (chunk_of (t_bits t) h)) i = Some (Some e) -> r_addr e <> b) ->
  (forall e, x = Some e -> r_addr e <> b) -> tcount (tput t h i x) b = tcount t b.
Proof.
  intros Ho Hx. unfold tcount, tfind, tput. cbn [t_bits set_chunk]. set (ci := chunk_of (t_bits t) h) in *.
  destruct (N.eq_dec (chunk_of (t_bits t) (hf b)) ci) as [E|E].
  - rewrite E, get_set_chunk_eq, find_addr_set_nth_other; [reflexivity|exact Ho|exact Hx].
  - rewrite get_set_chunk_neq by exact E. reflexivity.
Qed.

Lemma twf_tput t a i x :
  twf t ->
  (forall e, x = Some e -> r_addr e = a /\ r_hash e = hf a) ->
  (forall m e2, m <> i -> nth_error (get_chunk t (chunk_of (t_bits t) (hf a))) m = Some (Some e2) -> r_addr e2 <> a) ->
  twf (tput t (hf a) i x).
Proof.
  intros [Hnd Hpl] Hx Hfree. unfold tput. set (ci := chunk_of (t_bits t) (hf a)) in *. split; intros c.
  - destruct (N.eq_dec c ci) as [->|E]; [rewrite get_set_chunk_eq|rewrite get_set_chunk_neq by exact E; apply Hnd].
    apply nodup_set_nth; [apply Hnd|]. intros e He m e2 Hm H2. destruct (Hx e He) as [-> _]. exact (Hfree m e2 Hm H2).
  - cbn [t_bits set_chunk]. intros n e H. destruct (N.eq_dec c ci) as [->|E]; [rewrite get_set_chunk_eq in H|rewrite get_set_chunk_neq in H by exact E; exact (Hpl c n e H)].
    destruct (Nat.eq_dec n i) as [->|Hn]; [|rewrite nth_set_nth_neq in H by exact Hn; exact (Hpl ci n e H)].
    apply nth_set_nth_inv in H as [H _]. symmetry in H. destruct (Hx e H) as [H1 H2]. rewrite H2, H1. split; reflexivity.
Qed.

Lemma entry_of_tput t h i x e : entry_of (tput t h i x) e -> entry_of t e \/ x = Some e.
Proof.
  intros [c [n H]]. unfold tput in H. set (ci := chunk_of (t_bits t) h) in *.
  destruct (N.eq_dec c ci) as [->|E]; [rewrite get_set_chunk_eq in H|rewrite get_set_chunk_neq in H by exact E; left; exists c, n; exact H].
  destruct (Nat.eq_dec n i) as [->|Hn]; [apply nth_set_nth_inv in H as [H _]; right; congruence|].
  rewrite nth_set_nth_neq in H by exact Hn. left. exists ci, n. exact H.
Qed.
Lemma entry_of_tput_keep t h i x e :
  entry_of t e -> (forall e0, nth_error (get_chunk t (chunk_of (t_bits t) h)) i = Some (Some e0) -> e0 <> e) -> entry_of (tput t h i x) e.
Proof.
  intros [c [n H]] Hne. unfold tput. set (ci := chunk_of (t_bits t) h) in *.
  destruct (N.eq_dec c ci) as [->|E]; [|exists c, n; rewrite get_set_chunk_neq by exact E; exact H].
  destruct (Nat.eq_dec n i) as [->|Hn]; [exfalso; exact (Hne e H eq_refl)|].
  exists ci, n. rewrite get_set_chunk_eq, nth_set_nth_neq by exact Hn. exact H.
Qed.

(* replacing the count of the entry that a search found *)
Lemma treplace_spec t a i c c' :
  twf t -> tfind t a (hf a) = Some (i, c) ->
  let t' := tput t (hf a) i (Some {| r_addr := a; r_hash := hf a; r_count := c' |}) in
  twf t' /\ tcount t' a = Some c' /\ (forall b, b <> a -> tcount t' b = tcount t b) /\ t_bits t' = t_bits t.
Proof.
  intros Hw Hf t'. pose proof Hw as [Hnd Hpl]. unfold tfind in Hf. apply find_addr_some in Hf as [_ [e0 [H0 [Ha0 Hc0]]]]. rewrite Nat.sub_0_r in H0.
  assert (Hw' : twf t').
  { apply twf_tput; [exact Hw|intros e He; injection He as <-; split; reflexivity|].
    intros m e2 Hm H2 Ha2. apply Hm. apply (Hnd _ m i e2 e0 H2 H0). congruence. }
  split; [exact Hw'|]. split; [|split; [|reflexivity]].
  - pose proof (tcount_entry t' {| r_addr := a; r_hash := hf a; r_count := c' |} Hw') as Hx. cbn [r_addr r_count] in Hx. apply Hx. exists (chunk_of (t_bits t) (hf a)), i. unfold t', tput. rewrite get_set_chunk_eq.
    apply nth_set_nth_eq. apply nth_error_Some. rewrite H0. discriminate.
  - intros b Hb. apply tcount_tput_other.
    + intros e He. rewrite H0 in He. injection He as <-. congruence.
    + intros e He. injection He as <-. cbn. congruence.
Qed.

(* inserting a counter for an address the table does not hold *)
Lemma tinsert_spec t a c t' :
  twf t -> tcount t a = None -> tinsert t a (hf a) c = Some t' ->
  twf t' /\ tcount t' a = Some c /\ (forall b, b <> a -> tcount t' b = tcount t b) /\ t_bits t' = t_bits t /\
  (forall e, entry_of t e -> entry_of t' e).
Proof.
  intros Hw Hn. unfold tinsert. destruct (first_free _ 0) as [i|] eqn:Ef; [|discriminate]. intros H. injection H as <-.
  apply first_free_spec in Ef as [_ Hi]. rewrite Nat.sub_0_r in Hi.
  assert (Habs : absent (get_chunk t (chunk_of (t_bits t) (hf a))) a).
  { unfold tcount, tfind in Hn. destruct (find_addr _ 0 a) as [[? ?]|] eqn:E; [discriminate|]. exact (find_addr_none _ _ _ E). }
  set (en := {| r_addr := a; r_hash := hf a; r_count := c |}).
  assert (Hw' : twf (tput t (hf a) i (Some en))).
  { apply twf_tput; [exact Hw|intros e He; injection He as <-; split; reflexivity|]. intros m e2 _ H2. exact (Habs m e2 H2). }
  split; [exact Hw'|]. split; [|split; [|split; [reflexivity|]]].
  - pose proof (tcount_entry _ en Hw') as Hx. cbn [r_addr r_count en] in Hx. apply Hx.
    exists (chunk_of (t_bits t) (hf a)), i. unfold tput. rewrite get_set_chunk_eq. apply nth_set_nth_eq. apply nth_error_Some. rewrite Hi. discriminate.
  - intros b Hb. apply tcount_tput_other; [intros e He; rewrite Hi in He; discriminate|intros e He; injection He as <-; cbn; congruence].
  - intros e He. apply entry_of_tput_keep; [exact He|]. intros e0 H0. rewrite Hi in H0. discriminate.
Qed.
Lemma tinsert_empty b a c : exists t', tinsert {| t_bits := b; t_chunks := [] |} a (hf a) c = Some t'.
Proof. unfold tinsert. unfold get_chunk at 1. cbn [t_chunks clookup]. rewrite first_free_fresh. eexists. reflexivity. Qed.

(* removing the counter of an address *)
Lemma tremove_spec t a :
  twf t -> let t' := tremove t a (hf a) in
  twf t' /\ tcount t' a = None /\ (forall b, b <> a -> tcount t' b = tcount t b) /\ t_bits t' = t_bits t /\
  (forall e, entry_of t' e -> entry_of t e /\ r_addr e <> a) /\ (forall e, entry_of t e -> r_addr e <> a -> entry_of t' e).
Proof.
  intros Hw t'. unfold t', tremove. destruct (tfind t a (hf a)) as [[i c]|] eqn:Ef.
  - pose proof Hw as [Hnd Hpl]. pose proof Ef as Ef0. unfold tfind in Ef. apply find_addr_some in Ef as [_ [e0 [H0 [Ha0 Hc0]]]]. rewrite Nat.sub_0_r in H0.
    assert (Hfree : forall m e2, m <> i -> nth_error (get_chunk t (chunk_of (t_bits t) (hf a))) m = Some (Some e2) -> r_addr e2 <> a).
    { intros m e2 Hm H2 Ha2. apply Hm. apply (Hnd _ m i e2 e0 H2 H0). congruence. }
    assert (Hw' : twf (tput t (hf a) i None)) by (apply twf_tput; [exact Hw|intros e He; discriminate|exact Hfree]).
    split; [exact Hw'|]. split; [|split; [|split; [reflexivity|split]]].
    + unfold tcount, tfind, tput. cbn [t_bits set_chunk]. rewrite get_set_chunk_eq, find_addr_absent; [reflexivity|].
      intros n e Hn. destruct (Nat.eq_dec n i) as [->|Hne]; [apply nth_set_nth_inv in Hn as [Hn _]; discriminate|].
      rewrite nth_set_nth_neq in Hn by exact Hne. exact (Hfree n e Hne Hn).
    + intros b Hb. apply tcount_tput_other; [intros e He; rewrite H0 in He; injection He as <-; congruence|intros e He; discriminate].
    + intros e He. pose proof (tcount_entry _ e Hw' He) as Hc. apply entry_of_tput in He as [He|He]; [|discriminate]. split; [exact He|].
      intros Ha. rewrite Ha in Hc. unfold tcount, tfind, tput in Hc. cbn [t_bits set_chunk] in Hc. rewrite get_set_chunk_eq in Hc.
      rewrite find_addr_absent in Hc; [discriminate|]. intros n e1 Hn. destruct (Nat.eq_dec n i) as [->|Hne]; [apply nth_set_nth_inv in Hn as [Hn _]; discriminate|].
      rewrite nth_set_nth_neq in Hn by exact Hne. exact (Hfree n e1 Hne Hn).
    + intros e He Ha. apply entry_of_tput_keep; [exact He|]. intros e1 H1. rewrite H0 in H1. injection H1 as <-. congruence.
  - split; [exact Hw|]. split; [unfold tcount; rewrite Ef; reflexivity|]. split; [reflexivity|]. split; [reflexivity|]. split.
    + intros e He. split; [exact He|]. apply (tcount_none_entry t a e Hw); [unfold tcount; rewrite Ef; reflexivity|exact He].
    + intros e He _. exact He.
Qed.

(* ---- all tables of a column ---- *)
Fixpoint qcount (q : list rtab) (a : N) : option N :=
  match q with [] => None | t :: r => match tcount t a with Some c => Some c | None => qcount r a end end.
Definition lookup (st : rstate) (a : N) : option N :=
  match tcount (rcur st) a with Some c => Some c | None => qcount (rev (rqueue st)) a end.

Lemma qfind_qcount q a : match qfind q a (hf a) with Some (_, c) => Some c | None => None end = qcount q a.
Proof. induction q as [|t q IH]; cbn; [reflexivity|]. unfold tcount. destruct (tfind t a (hf a)) as [[i c]|]; [reflexivity|exact IH]. Qed.
Lemma rlookup_lookup st a : rlookup st a (hf a) = lookup st a.
Proof.
  unfold rlookup, rsearch, lookup, tcount. destruct (tfind (rcur st) a (hf a)) as [[i c]|]; [reflexivity|].
  rewrite <- qfind_qcount. destruct (qfind (rev (rqueue st)) a (hf a)) as [[i c]|]; reflexivity.
Qed.
Lemma qcount_app q1 q2 a : qcount (q1 ++ q2) a = match qcount q1 a with Some c => Some c | None => qcount q2 a end.
Proof. induction q1 as [|t q IH]; cbn; [reflexivity|]. destruct (tcount t a); [reflexivity|exact IH]. Qed.
Lemma qcount_none q a : qcount q a = None <-> Forall (fun t => tcount t a = None) q.
Proof.
  induction q as [|t q IH]; cbn; [split; [constructor|reflexivity]|]. destruct (tcount t a) eqn:E.
  - split; [discriminate|]. intros H. inversion H; subst. congruence.
  - rewrite IH. split; [intros H; constructor; assumption|intros H; inversion H; assumption].
Qed.
Lemma qcount_some_in q a c : qcount q a = Some c -> exists t, In t q /\ tcount t a = Some c.
Proof.
  induction q as [|t q IH]; cbn; [discriminate|]. destruct (tcount t a) as [c0|] eqn:E.
  - intros H. injection H as ->. exists t. split; [left; reflexivity|exact E].
  - intros H. destruct (IH H) as [t' [H1 H2]]. exists t'. split; [right; exact H1|exact H2].
Qed.
Lemma lookup_none st a : lookup st a = None <-> tcount (rcur st) a = None /\ Forall (fun t => tcount t a = None) (rqueue st).
Proof.
  unfold lookup. destruct (tcount (rcur st) a) eqn:E.
  - split; [discriminate|intros [H _]; discriminate].
  - rewrite qcount_none. split.
    + intros H. split; [reflexivity|]. rewrite Forall_forall in *. intros t Ht. apply H. apply in_rev in Ht. exact Ht.
    + intros [_ H]. rewrite Forall_forall in *. intros t Ht. apply H. apply in_rev. exact Ht.
Qed.

Definition covered (st : rstate) (a : N) : Prop :=
  tcount (rcur st) a <> None \/ Exists (fun t => tcount t a <> None) (tl (rqueue st)).
Record Inv (st : rstate) (sp : N -> option N) : Prop := {
  inv_cur : twf (rcur st);
  inv_q : Forall twf (rqueue st);
  inv_lookup : forall a, lookup st a = sp a;
  inv_prog : match rqueue st with
             | [] => rprogress st = 0
             | g :: _ => forall c n e, c < rprogress st -> nth_error (get_chunk g c) n = Some (Some e) -> covered st (r_addr e)
             end
}.
Definition upd (sp : N -> option N) (a : N) (v : option N) : N -> option N := fun b => if b =? a then v else sp b.

Lemma Inv_ext st sp sp' : Inv st sp -> (forall a, sp a = sp' a) -> Inv st sp'.
Proof. intros [H1 H2 H3 H4] He. constructor; try assumption. intros a. rewrite H3. apply He. Qed.

Lemma rinsert_cur_inv st sp a c :
  Inv st sp -> tcount (rcur st) a = None ->
  let st' := rinsert_cur st a (hf a) c in
  Inv st' (upd sp a (Some c)) /\ rprogress st' = rprogress st /\ (exists extra, rqueue st' = rqueue st ++ extra) /\
  tcount (rcur st') a = Some c /\ (rqueue st <> [] -> forall b, covered st b -> covered st' b).
Proof.
  intros [Hc Hq Hl Hp] Hn st'. unfold st', rinsert_cur. destruct (tinsert (rcur st) a (hf a) c) as [t|] eqn:Et.
  - destruct (tinsert_spec _ _ _ _ Hc Hn Et) as [Hw [Ha [Hb [_ _]]]]. unfold with_cur. cbn [rprogress rqueue rcur].
    assert (Hcov : forall b, covered st b -> covered {| rcur := t; rqueue := rqueue st; rprogress := rprogress st |} b).
    { intros b [H|H]; [left|right; exact H]. cbn [rcur]. destruct (N.eq_dec b a) as [->|Hne]; [rewrite Ha; discriminate|rewrite Hb by exact Hne; exact H]. }
    split; [|split; [reflexivity|split; [exists []; rewrite app_nil_r; reflexivity|split; [exact Ha|intros _; exact Hcov]]]].
    constructor; cbn [rcur rqueue rprogress]; [exact Hw|exact Hq| |].
    + intros b. unfold lookup, upd. cbn [rcur rqueue]. destruct (N.eqb_spec b a) as [->|Hne]; [rewrite Ha; reflexivity|].
      rewrite Hb by exact Hne. exact (Hl b).
    + destruct (rqueue st) as [|g r]; [exact Hp|]. intros c0 n e H1 H2. apply Hcov. exact (Hp c0 n e H1 H2).
  - destruct (tinsert_empty (t_bits (rcur st) + 1) a c) as [t Ht]. unfold rgrow. cbn [rcur rqueue rprogress]. rewrite Ht.
    destruct (tinsert_spec _ _ _ _ (twf_empty _) (tcount_empty _ _) Ht) as [Hw [Ha [Hb [_ _]]]]. unfold with_cur. cbn [rprogress rqueue rcur].
    assert (Hcov : rqueue st <> [] -> forall b, covered st b -> covered {| rcur := t; rqueue := rqueue st ++ [rcur st]; rprogress := rprogress st |} b).
    { intros Hne b Hb0. unfold covered in *. cbn [rcur rqueue]. destruct (rqueue st) as [|g r]; [contradiction|]. cbn [tl app] in *. right.
      destruct Hb0 as [H|H]; apply Exists_app; [right; apply Exists_cons_hd; exact H|left; exact H]. }
    split; [|split; [reflexivity|split; [exists [rcur st]; reflexivity|split; [exact Ha|exact Hcov]]]].
    constructor; cbn [rcur rqueue rprogress]; [exact Hw|apply Forall_app; split; [exact Hq|constructor; [exact Hc|constructor]]| |].
    + intros b. unfold lookup, upd. cbn [rcur rqueue]. rewrite rev_app_distr. cbn [rev app qcount].
      destruct (N.eqb_spec b a) as [->|Hne]; [rewrite Ha; reflexivity|].
      rewrite Hb by exact Hne. rewrite tcount_empty. exact (Hl b).
    + destruct (rqueue st) as [|g r] eqn:Eq; cbn [app].
      * intros c0 n e H1. rewrite Hp in H1. lia.
      * intros c0 n e H1 H2. apply Hcov; [discriminate|]. exact (Hp c0 n e H1 H2).
Qed.

Lemma replace_cur_inv st sp a i c c' :
  Inv st sp -> tfind (rcur st) a (hf a) = Some (i, c) ->
  Inv (with_cur st (tput (rcur st) (hf a) i (Some {| r_addr := a; r_hash := hf a; r_count := c' |}))) (upd sp a (Some c')).
Proof.
  intros [Hc Hq Hl Hp] Hf. destruct (treplace_spec _ _ _ _ c' Hc Hf) as [Hw [Ha [Hb _]]]. cbv zeta in Hw, Ha, Hb.
  set (t := tput (rcur st) (hf a) i _) in *. unfold with_cur.
  assert (Hcov : forall b, covered st b -> covered {| rcur := t; rqueue := rqueue st; rprogress := rprogress st |} b).
  { intros b [H|H]; [left|right; exact H]. cbn [rcur]. destruct (N.eq_dec b a) as [->|Hne]; [rewrite Ha; discriminate|rewrite Hb by exact Hne; exact H]. }
  constructor; cbn [rcur rqueue rprogress]; [exact Hw|exact Hq| |].
  - intros b. unfold lookup, upd. cbn [rcur rqueue]. destruct (N.eqb_spec b a) as [->|Hne]; [rewrite Ha; reflexivity|].
    rewrite Hb by exact Hne. exact (Hl b).
  - destruct (rqueue st) as [|g r]; [exact Hp|]. intros c0 n e H1 H2. apply Hcov. exact (Hp c0 n e H1 H2).
Qed.

Lemma tput_none_nth t h i c n e : nth_error (get_chunk (tput t h i None) c) n = Some (Some e) -> nth_error (get_chunk t c) n = Some (Some e).
Proof.
  unfold tput. set (ci := chunk_of (t_bits t) h). destruct (N.eq_dec c ci) as [->|E]; [rewrite get_set_chunk_eq|rewrite get_set_chunk_neq by exact E; tauto].
  destruct (Nat.eq_dec n i) as [->|Hn]; [intros H; apply nth_set_nth_inv in H as [H _]; discriminate|rewrite nth_set_nth_neq by exact Hn; tauto].
Qed.
Lemma tremove_nth t a c n e : nth_error (get_chunk (tremove t a (hf a)) c) n = Some (Some e) -> nth_error (get_chunk t c) n = Some (Some e).
Proof. unfold tremove. destruct (tfind t a (hf a)) as [[i c0]|]; [apply tput_none_nth|tauto]. Qed.

Lemma qcount_map_tremove q a b : Forall twf q -> qcount (map (fun t => tremove t a (hf a)) q) b = if b =? a then None else qcount q b.
Proof.
  induction 1 as [|t q Ht Hq IH]; cbn [map qcount]; [destruct (b =? a); reflexivity|].
  destruct (tremove_spec t a Ht) as [_ [Ha [Hb _]]]. cbv zeta in Ha, Hb. destruct (N.eqb_spec b a) as [->|Hne].
  - rewrite Ha. rewrite IH. destruct (a =? a); reflexivity.
  - rewrite Hb by exact Hne. rewrite IH. destruct (N.eqb_spec b a); [contradiction|reflexivity].
Qed.

Lemma remove_all_inv st sp a : Inv st sp -> Inv (remove_all st a (hf a)) (upd sp a None).
Proof.
  intros [Hc Hq Hl Hp]. destruct (tremove_spec _ a Hc) as [Hw [Ha [Hb [_ [Hsub _]]]]]. cbv zeta in Hw, Ha, Hb, Hsub.
  assert (Hcov : forall b, b <> a -> covered st b -> covered (remove_all st a (hf a)) b).
  { intros b Hne [H|H]; [left; cbn [remove_all rcur]; rewrite Hb by exact Hne; exact H|right]. cbn [remove_all rqueue].
    destruct (rqueue st) as [|g r]; [inversion H|]. cbn [map tl] in *. inversion Hq as [|? ? _ Hr]; subst.
    apply Exists_exists in H as [t [Ht1 Ht2]]. apply Exists_exists. exists (tremove t a (hf a)). split; [apply (in_map (fun t => tremove t a (hf a))); exact Ht1|].
    rewrite Forall_forall in Hr. destruct (tremove_spec t a (Hr t Ht1)) as [_ [_ [Hb' _]]]. cbv zeta in Hb'. rewrite Hb' by exact Hne. exact Ht2. }
  constructor; cbn [remove_all rcur rqueue rprogress].
  - exact Hw.
  - rewrite Forall_forall in *. intros t' Ht'. apply in_map_iff in Ht' as [t [<- Ht]]. destruct (tremove_spec t a (Hq t Ht)) as [H _]. exact H.
  - intros b. unfold lookup, upd, remove_all. cbn [rcur rqueue]. rewrite <- map_rev, qcount_map_tremove.
    + destruct (N.eqb_spec b a) as [->|Hne]; [rewrite Ha; reflexivity|]. rewrite Hb by exact Hne. exact (Hl b).
    + rewrite Forall_forall in *. intros t Ht. apply Hq. apply in_rev. exact Ht.
  - destruct (rqueue st) as [|g r] eqn:Eq; cbn [map]; [exact Hp|]. intros c0 n e H1 H2.
    inversion Hq as [|? ? Hg _]; subst. pose proof (tremove_nth _ _ _ _ _ H2) as H3.
    assert (Hne : r_addr e <> a).
    { destruct (tremove_spec g a Hg) as [_ [_ [_ [_ [Hs _]]]]]. cbv zeta in Hs. apply (Hs e). exists c0, n. exact H2. }
    pose proof (Hcov (r_addr e) Hne (Hp c0 n e H1 H3)) as Hx. unfold covered in *. cbn [remove_all rcur rqueue] in Hx |- *. rewrite Eq in Hx. try rewrite Eq. exact Hx.
Qed.

Definition spec_inc (sp : N -> option N) (a : N) : N -> option N :=
  upd sp a (Some (match sp a with Some c => c + 1 | None => 2 end)).
Definition spec_dec (sp : N -> option N) (a : N) : N -> option N :=
  match sp a with Some c => upd sp a (if 2 <? c then Some (c - 1) else None) | None => sp end.

Lemma lookup_cur st a i c : tfind (rcur st) a (hf a) = Some (i, c) -> lookup st a = Some c.
Proof. intros H. unfold lookup, tcount. rewrite H. reflexivity. Qed.
Lemma lookup_old st a : tfind (rcur st) a (hf a) = None -> lookup st a = qcount (rev (rqueue st)) a.
Proof. intros H. unfold lookup, tcount. rewrite H. reflexivity. Qed.

Lemma op_inc_inv st sp a : Inv st sp -> Inv (op_inc st a (hf a)) (spec_inc sp a).
Proof.
  intros HI. pose proof (inv_lookup _ _ HI a) as Hl. unfold op_inc, rsearch, spec_inc.
  destruct (tfind (rcur st) a (hf a)) as [[i c]|] eqn:Ef.
  - rewrite (lookup_cur _ _ _ _ Ef) in Hl. rewrite <- Hl. apply (replace_cur_inv _ _ _ _ _ _ HI Ef).
  - assert (Hn : tcount (rcur st) a = None) by (unfold tcount; rewrite Ef; reflexivity).
    rewrite (lookup_old _ _ Ef), <- qfind_qcount in Hl. destruct (qfind (rev (rqueue st)) a (hf a)) as [[i c]|]; rewrite <- Hl.
    + exact (proj1 (rinsert_cur_inv _ _ _ (c + 1) HI Hn)).
    + exact (proj1 (rinsert_cur_inv _ _ _ 2 HI Hn)).
Qed.

Lemma op_dec_inv st sp a : Inv st sp -> Inv (op_dec st a (hf a)) (spec_dec sp a).
Proof.
  intros HI. pose proof (inv_lookup _ _ HI a) as Hl. unfold op_dec, rsearch, spec_dec.
  destruct (tfind (rcur st) a (hf a)) as [[i c]|] eqn:Ef.
  - rewrite (lookup_cur _ _ _ _ Ef) in Hl. rewrite <- Hl. destruct (2 <? c); [apply (replace_cur_inv _ _ _ _ _ _ HI Ef)|apply remove_all_inv; exact HI].
  - assert (Hn : tcount (rcur st) a = None) by (unfold tcount; rewrite Ef; reflexivity).
    rewrite (lookup_old _ _ Ef), <- qfind_qcount in Hl. destruct (qfind (rev (rqueue st)) a (hf a)) as [[i c]|]; rewrite <- Hl.
    + destruct (2 <? c); [exact (proj1 (rinsert_cur_inv _ _ _ (c - 1) HI Hn))|apply remove_all_inv; exact HI].
    + exact HI.
Qed.

Lemma op_restart_inv st sp : Inv st sp -> Inv (op_restart st) sp.
Proof.
  intros [Hc Hq Hl Hp]. constructor; cbn [op_restart rcur rqueue rprogress]; try assumption.
  destruct (rqueue st); [reflexivity|]. intros c n e H. lia.
Qed.

(* ---- the chunks a reindex batch takes ---- *)
Lemma in_insert_sorted p l x : In x (insert_sorted p l) <-> x = p \/ In x l.
Proof.
  induction l as [|y l IH]; cbn; [intuition congruence|]. destruct (N.ltb_spec p y); [cbn; intuition congruence|].
  destruct (N.eqb_spec p y) as [->|]; cbn; [intuition congruence|]. rewrite IH. intuition congruence.
Qed.
Lemma sorted_insert_sorted p l : StronglySorted N.lt l -> StronglySorted N.lt (insert_sorted p l).
Proof.
  induction 1 as [|y l Hs IH Hy]; cbn; [repeat constructor|].
  destruct (N.ltb_spec p y) as [Hlt|Hge].
  - constructor; [constructor; assumption|]. constructor; [exact Hlt|]. rewrite Forall_forall in *. intros z Hz. specialize (Hy z Hz). lia.
  - destruct (N.eqb_spec p y) as [->|Hne]; [constructor; assumption|].
    constructor; [exact IH|]. rewrite Forall_forall in *. intros z Hz. apply in_insert_sorted in Hz as [->|Hz]; [lia|exact (Hy z Hz)].
Qed.
Lemma clookup_some_in l k v : clookup l k = Some v -> In k (map fst l).
Proof. induction l as [|[k' v'] l IH]; cbn; [discriminate|]. destruct (N.eqb_spec k' k) as [->|]; [left; reflexivity|right; exact (IH H)]. Qed.
Lemma chunk_entries_default : chunk_entries (repeat None rc_nslots) = [].
Proof. induction rc_nslots as [|n IH]; cbn; [reflexivity|exact IH]. Qed.
Lemma in_chunk_entries (s : list rslot) e : In e (chunk_entries s) <-> exists i, nth_error s i = Some (Some e).
Proof.
  unfold chunk_entries. rewrite in_flat_map. split.
  - intros [[x|] [Hx He]]; [|destruct He]. destruct He as [<-|[]]. apply In_nth_error in Hx. exact Hx.
  - intros [i Hi]. exists (Some e). split; [eapply nth_error_In; exact Hi|left; reflexivity].
Qed.
Lemma nonempty_chunk_iff g p : nonempty_chunk g p = true <-> exists n e, nth_error (get_chunk g p) n = Some (Some e).
Proof.
  unfold nonempty_chunk. destruct (chunk_entries (get_chunk g p)) as [|e0 l] eqn:E.
  - split; [discriminate|]. intros [n [e H]]. assert (In e (chunk_entries (get_chunk g p))) by (apply in_chunk_entries; exists n; exact H). rewrite E in H0. destruct H0.
  - split; [|reflexivity]. intros _. assert (In e0 (chunk_entries (get_chunk g p))) by (rewrite E; left; reflexivity).
    apply in_chunk_entries in H as [n H]. exists n, e0. exact H.
Qed.

Lemma chunks_from_spec g from :
  StronglySorted N.lt (chunks_from g from) /\
  forall p, In p (chunks_from g from) <-> from <= p /\ nonempty_chunk g p = true.
Proof.
  unfold chunks_from.
  assert (G : forall (l : list (N * list rslot)) acc, StronglySorted N.lt acc ->
    let r := fold_left (fun acc (pe : N * list rslot) => if (from <=? fst pe) && nonempty_chunk g (fst pe) then insert_sorted (fst pe) acc else acc) l acc in
    StronglySorted N.lt r /\ forall p, In p r <-> In p acc \/ (In p (map fst l) /\ from <= p /\ nonempty_chunk g p = true)).
  { induction l as [|pe l IH]; intros acc Hs; cbn [fold_left map].
    - split; [exact Hs|]. intros p. cbn. tauto.
    - destruct ((from <=? fst pe) && nonempty_chunk g (fst pe)) eqn:Ec.
      + destruct (IH (insert_sorted (fst pe) acc) (sorted_insert_sorted _ _ Hs)) as [H1 H2]. split; [exact H1|].
        intros p. rewrite H2, in_insert_sorted. apply andb_true_iff in Ec as [E1 E2]. apply N.leb_le in E1. cbn [In].
        split; [intros [[->|H]|H]; [right; tauto|tauto|tauto]|]. intros [H|[[<-|H] H3]]; tauto.
      + destruct (IH acc Hs) as [H1 H2]. split; [exact H1|]. intros p. rewrite H2. cbn [In].
        split; [tauto|]. intros [H|[[<-|H] [H3 H4]]]; try tauto. exfalso.
        apply andb_false_iff in Ec as [Ec|Ec]; [apply N.leb_gt in Ec; lia|congruence]. }
  destruct (G (t_chunks g) [] (SSorted_nil _)) as [H1 H2]. split; [exact H1|].
  intros p. rewrite H2. split; [intros [[]|H]; tauto|]. intros [H3 H4]. right. split; [|tauto].
  unfold nonempty_chunk, get_chunk in H4. destruct (clookup (t_chunks g) p) as [s0|] eqn:E; [eapply clookup_some_in; exact E|].
  rewrite chunk_entries_default in H4. discriminate.
Qed.

Lemma take_chunks_spec g : forall ps acc es next, StronglySorted N.lt ps -> (forall q, In q ps -> q < 2 ^ t_bits g) ->
  take_chunks g ps acc = (es, next) ->
  (forall e, In e es -> In e acc \/ exists q, In q ps /\ In e (chunk_entries (get_chunk g q))) /\
  (forall e, In e acc -> In e es) /\
  (forall q, In q ps -> match next with None => True | Some p => q < p end -> forall e, In e (chunk_entries (get_chunk g q)) -> In e es).
Proof.
  induction ps as [|p0 r IH]; intros acc es next Hs Hb H; cbn [take_chunks] in H.
  - injection H as <- <-. split; [tauto|]. split; [tauto|]. intros q [].
  - inversion Hs as [|? ? Hs' Hp0]; subst. rewrite Forall_forall in Hp0.
    destruct (column_max_reindex_batch <=? N.of_nat (length (acc ++ chunk_entries (get_chunk g p0)))).
    + injection H as <- <-. split; [|split].
      * intros e He. apply in_app_or in He as [He|He]; [left; exact He|right; exists p0; split; [left; reflexivity|exact He]].
      * intros e He. apply in_or_app. left. exact He.
      * intros q [<-|Hq] Hlt e He; [apply in_or_app; right; exact He|]. exfalso. specialize (Hp0 q Hq). specialize (Hb q (or_intror Hq)).
        destruct (N.eqb_spec (p0 + 1) (2 ^ t_bits g)); lia.
    + apply IH in H as [H1 [H2 H3]]; [|exact Hs'|intros q Hq; apply Hb; right; exact Hq]. split; [|split].
      * intros e He. destruct (H1 e He) as [Ha|[q [Hq Hx]]].
        -- apply in_app_or in Ha as [Ha|Ha]; [left; exact Ha|right; exists p0; split; [left; reflexivity|exact Ha]].
        -- right. exists q. split; [right; exact Hq|exact Hx].
      * intros e He. apply H2. apply in_or_app. left. exact He.
      * intros q [<-|Hq] Hlt e He; [apply H2; apply in_or_app; right; exact He|exact (H3 q Hq Hlt e He)].
Qed.

Lemma chunk_of_lt bits h : h < 2 ^ 64 -> chunk_of bits h < 2 ^ bits.
Proof.
  intros H. unfold chunk_of. destruct (N.le_gt_cases bits 64) as [Hle|Hgt].
  - apply N.div_lt_upper_bound; [apply N.pow_nonzero; lia|]. rewrite <- N.pow_add_r. replace (64 - bits + bits) with 64 by lia. exact H.
  - replace (64 - bits) with 0 by lia. rewrite N.pow_0_r, N.div_1_r. eapply N.lt_trans; [exact H|]. apply N.pow_lt_mono_r; lia.
Qed.
Lemma twf_chunk_bound g p : twf g -> nonempty_chunk g p = true -> p < 2 ^ t_bits g.
Proof.
  intros [_ Hpl] H. apply nonempty_chunk_iff in H as [n [e H]]. destruct (Hpl p n e H) as [H1 ->]. rewrite H1. apply chunk_of_lt. apply hf_bound.
Qed.

(* ---- a reindex batch ---- *)
Lemma upd_same sp a b : upd sp a (sp a) b = sp b.
Proof. unfold upd. destruct (N.eqb_spec b a) as [->|]; reflexivity. Qed.

Lemma move_entry_inv st sp g rest e :
  Inv st sp -> rqueue st = g :: rest -> entry_of g e ->
  let st' := move_entry st e in
  Inv st' sp /\ rprogress st' = rprogress st /\ (exists extra, rqueue st' = g :: rest ++ extra) /\
  covered st' (r_addr e) /\ (forall b, covered st b -> covered st' b).
Proof.
  intros HI Eq He st'. pose proof HI as [Hc Hq Hl Hp]. rewrite Eq in Hq. inversion Hq as [|? ? Hg Hrest]; subst.
  assert (Hh : r_hash e = hf (r_addr e)). { destruct He as [c [n Hn]]. destruct Hg as [_ Hpl]. exact (proj1 (Hpl c n e Hn)). }
  unfold st', move_entry, held_elsewhere. rewrite Hh. destruct (tfind (rcur st) (r_addr e) (hf (r_addr e))) as [[i c]|] eqn:Ef.
  - split; [exact HI|]. split; [reflexivity|]. split; [exists []; rewrite app_nil_r; exact Eq|]. split; [|tauto].
    left. unfold tcount. rewrite Ef. discriminate.
  - rewrite Eq. cbn [tl]. destruct (existsb _ rest) eqn:Ex.
    + split; [exact HI|]. split; [reflexivity|]. split; [exists []; rewrite app_nil_r; exact Eq|]. split; [|tauto].
      right. rewrite Eq. cbn [tl]. apply existsb_exists in Ex as [t [Ht1 Ht2]]. apply Exists_exists. exists t. split; [exact Ht1|].
      unfold tcount. destruct (tfind t (r_addr e) (hf (r_addr e))) as [[? ?]|]; [discriminate|discriminate].
    + assert (Hn : tcount (rcur st) (r_addr e) = None) by (unfold tcount; rewrite Ef; reflexivity).
      assert (Hnr : qcount (rev rest) (r_addr e) = None).
      { apply qcount_none. rewrite Forall_forall. intros t Ht. apply in_rev in Ht.
        assert (Hx : existsb (fun t0 => match tfind t0 (r_addr e) (hf (r_addr e)) with Some _ => true | None => false end) rest = false) by exact Ex.
        rewrite <- not_true_iff_false in Hx. unfold tcount. destruct (tfind t (r_addr e) (hf (r_addr e))) as [[? ?]|] eqn:Et; [|reflexivity].
        exfalso. apply Hx. apply existsb_exists. exists t. split; [exact Ht|]. rewrite Et. reflexivity. }
      assert (Hsp : sp (r_addr e) = Some (r_count e)).
      { rewrite <- Hl. unfold lookup. rewrite Hn, Eq. cbn [rev]. rewrite qcount_app, Hnr. cbn [qcount]. rewrite (tcount_entry g e Hg He). reflexivity. }
      destruct (rinsert_cur_inv st sp (r_addr e) (r_count e) HI Hn) as [HI' [Hpr [[extra Hex] [Hcur Hmono]]]]. cbv zeta in HI', Hpr, Hex, Hcur, Hmono.
      split; [|split; [exact Hpr|split; [exists extra; rewrite Hex, Eq; reflexivity|split]]].
      * eapply Inv_ext; [exact HI'|]. intros b. rewrite <- Hsp. apply upd_same.
      * left. rewrite Hcur. discriminate.
      * apply Hmono. rewrite Eq. discriminate.
Qed.

Lemma fold_move_inv sp g : forall es st rest,
  Inv st sp -> rqueue st = g :: rest -> (forall e, In e es -> entry_of g e) ->
  let st1 := fold_left move_entry es st in
  Inv st1 sp /\ rprogress st1 = rprogress st /\ (exists extra, rqueue st1 = g :: rest ++ extra) /\
  (forall e, In e es -> covered st1 (r_addr e)) /\ (forall b, covered st b -> covered st1 b).
Proof.
  induction es as [|e es IH]; intros st rest HI Eq Hes; cbn [fold_left].
  - split; [exact HI|]. split; [reflexivity|]. split; [exists []; rewrite app_nil_r; exact Eq|]. split; [intros e []|tauto].
  - destruct (move_entry_inv st sp g rest e HI Eq (Hes e (or_introl eq_refl))) as [HI' [Hpr [[extra Hex] [Hcov Hmono]]]]. cbv zeta in *.
    destruct (IH (move_entry st e) (rest ++ extra) HI' Hex (fun e0 H0 => Hes e0 (or_intror H0))) as [HI1 [Hpr1 [[extra1 Hex1] [Hcov1 Hmono1]]]]. cbv zeta in *.
    split; [exact HI1|]. split; [congruence|]. split; [exists (extra ++ extra1); rewrite Hex1, app_assoc; reflexivity|]. split.
    + intros e0 [<-|H0]; [apply Hmono1; exact Hcov|exact (Hcov1 e0 H0)].
    + intros b Hb. apply Hmono1. apply Hmono. exact Hb.
Qed.

Lemma op_reindex_inv st sp : Inv st sp -> Inv (op_reindex st) sp.
Proof.
  intros HI. unfold op_reindex. destruct (rqueue st) as [|g rest] eqn:Eq; [exact HI|].
  destruct (take_chunks g (chunks_from g (rprogress st)) []) as [es next] eqn:Et.
  pose proof HI as [Hc Hq Hl Hp]. rewrite Eq in Hq, Hp. inversion Hq as [|? ? Hg Hrest]; subst.
  destruct (chunks_from_spec g (rprogress st)) as [Hsorted Hchunks].
  assert (Hbound : forall q, In q (chunks_from g (rprogress st)) -> q < 2 ^ t_bits g).
  { intros q Hq0. apply Hchunks in Hq0 as [_ Hq0]. exact (twf_chunk_bound g q Hg Hq0). }
  destruct (take_chunks_spec g _ _ _ _ Hsorted Hbound Et) as [Hfrom [_ Htaken]].
  assert (Hes : forall e, In e es -> entry_of g e).
  { intros e He. destruct (Hfrom e He) as [[]|[q [_ Hx]]]. apply in_chunk_entries in Hx as [n Hn]. exists q, n. exact Hn. }
  destruct (fold_move_inv sp g es st rest HI Eq Hes) as [HI1 [Hpr1 [[extra Hex] [Hcov1 Hmono1]]]]. cbv zeta in *.
  set (st1 := fold_left move_entry es st) in *. pose proof HI1 as [Hc1 Hq1 Hl1 Hp1].
  (* every entry of g below the new mark has a counter elsewhere *)
  assert (Hdone : forall c n e, match next with None => True | Some p => c < p end ->
            nth_error (get_chunk g c) n = Some (Some e) -> covered st1 (r_addr e)).
  { intros c n e Hlt Hn. destruct (N.lt_ge_cases c (rprogress st)) as [Hlo|Hhi].
    - apply Hmono1. exact (Hp c n e Hlo Hn).
    - apply Hcov1. apply (Htaken c).
      + apply Hchunks. split; [exact Hhi|]. apply nonempty_chunk_iff. exists n, e. exact Hn.
      + exact Hlt.
      + apply in_chunk_entries. exists n. exact Hn. }
  destruct next as [p|].
  - constructor; cbn [rcur rqueue rprogress]; [exact Hc1|exact Hq1|exact Hl1|]. rewrite Hex.
    intros c n e Hlt Hn. pose proof (Hdone c n e Hlt Hn) as Hx. unfold covered in *. cbn [rcur rqueue]. rewrite Hex in Hx. exact Hx.
  - rewrite Hex in Hq1. inversion Hq1 as [|? ? _ Hq1']; subst.
    constructor; cbn [rcur rqueue rprogress]; rewrite ?Hex; cbn [tl]; [exact Hc1|exact Hq1'| |destruct (rest ++ extra); [reflexivity|intros c n e H; lia]].
    intros b. rewrite <- Hl1. unfold lookup. cbn [rcur rqueue]. rewrite Hex. cbn [rev]. rewrite qcount_app. cbn [qcount].
    destruct (tcount (rcur st1) b) as [c|] eqn:E1; [reflexivity|]. destruct (qcount (rev (rest ++ extra)) b) as [c|] eqn:E2; [reflexivity|].
    destruct (tcount g b) as [c|] eqn:E3; [|reflexivity]. exfalso.
    apply tcount_some_entry in E3 as [e [[c0 [n Hn]] [Ha _]]]. pose proof (Hdone c0 n e Logic.I Hn) as [Hx|Hx]; rewrite Ha in Hx; [congruence|].
    rewrite Hex in Hx. cbn [tl] in Hx. apply qcount_none in E2. apply Exists_exists in Hx as [t [Ht1 Ht2]].
    rewrite Forall_forall in E2. apply Ht2. apply E2. apply in_rev. rewrite rev_involutive. exact Ht1.
Qed.

(* ---- every history ---- *)
Definition spec_step (sp : N -> option N) (o : rop) : N -> option N :=
  match o with RInc a _ => spec_inc sp a | RDec a _ => spec_dec sp a | RReindex | RRestart => sp end.
Definition wf_op (o : rop) : Prop := match o with RInc a h | RDec a h => h = hf a | _ => True end.

Lemma rstep_inv st sp o : wf_op o -> Inv st sp -> Inv (rstep st o) (spec_step sp o).
Proof.
  destruct o as [a h|a h| |]; cbn [wf_op rstep spec_step]; intros Hw HI; subst;
    [apply op_inc_inv|apply op_dec_inv|apply op_reindex_inv|apply op_restart_inv]; exact HI.
Qed.
Lemma rinit_inv bits : Inv (rinit bits) (fun _ => None).
Proof.
  constructor; cbn [rinit rcur rqueue rprogress]; [apply twf_empty|constructor| |reflexivity].
  intros a. unfold lookup. cbn [rinit rcur rqueue rev qcount]. rewrite tcount_empty. reflexivity.
Qed.
Theorem tables_follow_spec : forall ops st sp, Inv st sp -> Forall wf_op ops ->
  Inv (fold_left rstep ops st) (fold_left spec_step ops sp).
Proof.
  induction ops as [|o ops IH]; intros st sp HI Hw; cbn [fold_left]; [exact HI|].
  inversion Hw; subst. apply IH; [apply rstep_inv; assumption|assumption].
Qed.
Theorem rc_lookup_is_spec bits ops : Forall wf_op ops ->
  forall a, rlookup (fold_left rstep ops (rinit bits)) a (hf a) = fold_left spec_step ops (fun _ => None) a.
Proof.
  intros Hw a. rewrite rlookup_lookup. apply inv_lookup. apply tables_follow_spec; [apply rinit_inv|exact Hw].
Qed.
End Tables.
