(* The iterator over the on-disk tree alone (empty commit overlay): for every strictly sorted tree
   content, whatever calls were made before and however the content changed between calls, every
   step returns what a cursor over the ordered map returns. The merge with a non-empty overlay is
   tied by correspondence (see DESIGN.md, C04). *)
From Coq Require Import NArith List Bool Lia.
From PDB Require Import Model.BTreeIter.
Import ListNotations.
Open Scope N_scope.

Fixpoint sorted (l : kvs) : Prop :=
  match l with
  | [] => True
  | (k, _) :: r => (forall e, In e r -> k < fst e) /\ sorted r
  end.

Lemma find_first_ge k : forall l, sorted l ->
  l_find k l = match l_first_ge k l with Some (k', v) => if k' =? k then Some (k', v) else None | None => None end.
Proof.
  induction l as [|[k0 v0] l IH]; intros Hs; cbn [l_find l_first_ge]; [reflexivity|].
  destruct Hs as [Hlt Hs]. destruct (N.eqb_spec k0 k) as [->|Hne].
  - rewrite N.leb_refl, N.eqb_refl. reflexivity.
  - destruct (N.leb_spec k k0) as [Hle|Hgt].
    + replace (k0 =? k) with false by (symmetry; apply N.eqb_neq; exact Hne).
      (* k < k0: nothing equal to k later *)
      assert (G : l_find k l = None).
      { clear IH. induction l as [|[k1 v1] l IHl]; [reflexivity|]. cbn [l_find].
        assert (k0 < k1) by (apply (Hlt (k1, v1)); left; reflexivity).
        replace (k1 =? k) with false by (symmetry; apply N.eqb_neq; lia).
        apply IHl; [intros e He; apply Hlt; right; exact He|exact (proj2 Hs)]. }
      exact G.
    + apply IH. exact Hs.
Qed.

Lemma first_gt_of_ge k : forall l : kvs, l_find k l = None -> l_first_gt k l = l_first_ge k l.
Proof.
  induction l as [|[k0 v0] l IH]; intros H; cbn [l_find l_first_gt l_first_ge] in *; [reflexivity|].
  destruct (N.eqb_spec k0 k) as [->|Hne]; [discriminate|].
  destruct (N.ltb_spec k k0), (N.leb_spec k k0); try lia; try reflexivity. apply IH. exact H.
Qed.

Lemma last_lt_of_le k : forall l : kvs, l_find k l = None -> l_last_lt k l = l_last_le k l.
Proof.
  induction l as [|[k0 v0] l IH]; intros H; cbn [l_find l_last_lt l_last_le] in *; [reflexivity|].
  destruct (N.eqb_spec k0 k) as [->|Hne]; [discriminate|].
  destruct (N.ltb_spec k0 k), (N.leb_spec k0 k); try lia; try reflexivity. rewrite IH by exact H. reflexivity.
Qed.

Lemma last_le_found k : forall l v, sorted l -> l_find k l = Some (k, v) -> l_last_le k l = Some (k, v).
Proof.
  induction l as [|[k0 v0] l IH]; intros v Hs H; cbn [l_find l_last_le] in *; [discriminate|].
  destruct Hs as [Hlt Hs]. destruct (N.eqb_spec k0 k) as [->|Hne].
  - injection H as <-. rewrite N.leb_refl.
    assert (G : l_last_le k l = None).
    { destruct l as [|[k1 v1] l]; [reflexivity|]. cbn [l_last_le].
      assert (k < k1) by (apply (Hlt (k1, v1)); left; reflexivity).
      replace (k1 <=? k) with false by (symmetry; apply N.leb_gt; lia). reflexivity. }
    rewrite G. reflexivity.
  - destruct (N.leb_spec k0 k) as [Hle|Hgt].
    + rewrite (IH v Hs H). reflexivity.
    + exfalso. (* k < k0 but k is found later: contradiction with sortedness *)
      clear IH. induction l as [|[k1 v1] l IHl]; [discriminate|]. cbn [l_find] in H.
      assert (k0 < k1) by (apply (Hlt (k1, v1)); left; reflexivity).
      destruct (N.eqb_spec k1 k) as [->|]; [lia|].
      apply IHl; [intros e He; apply Hlt; right; exact He|exact (proj2 Hs)|exact H].
Qed.

Lemma find_key k : forall (l : kvs) x, l_find k l = Some x -> fst x = k.
Proof.
  induction l as [|[k0 v0] l IH]; intros x H; cbn [l_find] in H; [discriminate|].
  destruct (N.eqb_spec k0 k) as [->|]; [injection H as <-; reflexivity|apply IH; exact H].
Qed.

Lemma in_find : forall l k v, sorted l -> In (k, v) l -> l_find k l = Some (k, v).
Proof.
  induction l as [|[k0 v0] l IH]; intros k v Hs Hin; [destruct Hin|]. cbn [l_find].
  destruct Hs as [Hlt Hs]. destruct Hin as [E|Hin].
  - injection E as -> ->. rewrite N.eqb_refl. reflexivity.
  - specialize (Hlt _ Hin). cbn [fst] in Hlt.
    replace (k0 =? k) with false by (symmetry; apply N.eqb_neq; lia). apply IH; assumption.
Qed.

Lemma first_gt_in k : forall (l : kvs) x, l_first_gt k l = Some x -> In x l /\ k < fst x.
Proof.
  induction l as [|[k0 v0] l IH]; intros x H; cbn [l_first_gt] in H; [discriminate|].
  destruct (N.ltb_spec k k0); [injection H as <-; split; [left; reflexivity|exact H0]|].
  destruct (IH x H). split; [right|]; assumption.
Qed.
Lemma first_ge_in k : forall (l : kvs) x, l_first_ge k l = Some x -> In x l.
Proof.
  induction l as [|[k0 v0] l IH]; intros x H; cbn [l_first_ge] in H; [discriminate|].
  destruct (k <=? k0); [injection H as <-; left; reflexivity|right; apply IH; exact H].
Qed.
Lemma last_lt_in k : forall (l : kvs) x, l_last_lt k l = Some x -> In x l.
Proof.
  induction l as [|[k0 v0] l IH]; intros x H; cbn [l_last_lt] in H; [discriminate|].
  destruct (k0 <? k); [|discriminate]. destruct (l_last_lt k l) eqn:E.
  - injection H as <-. right. apply IH. reflexivity.
  - injection H as <-. left. reflexivity.
Qed.
Lemma last_le_in k : forall (l : kvs) x, l_last_le k l = Some x -> In x l.
Proof.
  induction l as [|[k0 v0] l IH]; intros x H; cbn [l_last_le] in H; [discriminate|].
  destruct (k0 <=? k); [|discriminate]. destruct (l_last_le k l) eqn:E.
  - injection H as <-. right. apply IH. reflexivity.
  - injection H as <-. left. reflexivity.
Qed.
Lemma first_in (l : kvs) x : l_first l = Some x -> In x l.
Proof. destruct l; cbn; [discriminate|]. intros H; injection H as <-. left. reflexivity. Qed.
Lemma last_in (l : kvs) x : l_last l = Some x -> In x l.
Proof.
  unfold l_last. intros H. apply in_rev. destruct (rev l); cbn in H; [discriminate|]. injection H as <-. left. reflexivity.
Qed.

Definition positive_keys (l : kvs) : Prop := forall e, In e l -> 0 < fst e.

Lemma first_gt_zero (l : kvs) : positive_keys l -> l_first_gt 0 l = l_first l.
Proof.
  destruct l as [|[k v] l]; intros H; [reflexivity|]. cbn [l_first_gt l_first hd_error].
  specialize (H (k, v) (or_introl eq_refl)). cbn in H. apply N.ltb_lt in H. rewrite H. reflexivity.
Qed.
Lemma find_zero (l : kvs) : positive_keys l -> l_find 0 l = None.
Proof.
  induction l as [|[k v] l IH]; intros H; [reflexivity|]. cbn [l_find].
  pose proof (H (k, v) (or_introl eq_refl)) as H0. cbn in H0.
  replace (k =? 0) with false by (symmetry; apply N.eqb_neq; lia). apply IH. intros e He. apply H. right. exact He.
Qed.

(* ---- the invariant between the property-level position [last] and the tree cursor ---- *)
Definition Inv (it : iter) : Prop :=
  sorted (snap it) /\ positive_keys (snap it) /\
  match last it with
  | LAt k => cur it = backend_seek (snap it) (SExclude k) /\ pend it = None
  | LSeeked k => cur it = backend_seek (snap it) (SInclude k) /\ pend it = None
  | LStart => (cur it = BEmpty \/ cur it = BGap 0) /\ (pend it = None \/ pend it = Some (None, Bwd))
  | LEnd => (cur it = BEmpty \/ cur it = BGapEnd) /\ (pend it = None \/ pend it = Some (None, Fwd))
  end.

Lemma kvs_eqb_eq a : forall b, kvs_eqb a b = true -> a = b.
Proof.
  unfold kvs_eqb. intros b H. apply andb_true_iff in H as [Hl H]. apply N.eqb_eq in Hl. apply Nat2N.inj in Hl.
  revert b Hl H. induction a as [|[k v] a IH]; intros [|[k' v'] b] Hl H; cbn [length] in Hl; try discriminate; try reflexivity.
  cbn [combine forallb fst snd] in H. apply andb_true_iff in H as [H1 H2].
  apply andb_true_iff in H1 as [E1 E2]. apply N.eqb_eq in E1, E2. subst. f_equal.
  apply IH; [lia|exact H2].
Qed.

Lemma Inv_new b : sorted b -> positive_keys b -> Inv (iter_new b).
Proof. intros H P. split; [exact H|]. split; [exact P|]. cbn. split; left; reflexivity. Qed.
Lemma Inv_seek b it k : sorted b -> positive_keys b -> Inv (iter_seek b it k).
Proof. intros H P. split; [exact H|]. split; [exact P|]. cbn. split; reflexivity. Qed.
Lemma Inv_seek_last b it : sorted b -> positive_keys b -> Inv (iter_seek_last b it).
Proof. intros H P. split; [exact H|]. split; [exact P|]. cbn. split; [right|left]; reflexivity. Qed.

Lemma Inv_refresh b it : sorted b -> positive_keys b -> Inv it ->
  Inv (refresh b it) /\ snap (refresh b it) = b /\ last (refresh b it) = last it.
Proof.
  intros Hb Pb (Hs & Ps & HI). unfold refresh. destruct (kvs_eqb (snap it) b) eqn:E.
  - apply kvs_eqb_eq in E. split; [split; [|split]; assumption|]. split; [exact E|reflexivity].
  - split; [|split; reflexivity]. split; [exact Hb|]. split; [exact Pb|]. cbn [snap cur pend last].
    destruct (last it) as [| |k|k]; cbn [backend_seek].
    + rewrite (find_zero b Pb). split; [right; reflexivity|left; reflexivity].
    + split; [right; reflexivity|left; reflexivity].
    + split; reflexivity.
    + split; reflexivity.
Qed.

Definition wrapx (x : option (N * N)) : option (N * N) * bcur :=
  match x with Some (k, v) => (Some (k, v), BAt k) | None => (None, BEmpty) end.

(* with an empty overlay a step is: take the tree cursor's next item, nothing buffered *)
Lemma step_nil fuel b it d x :
  (match last it, d with LStart, Bwd | LEnd, Fwd => False | _, _ => True end) ->
  (match pend (refresh b it) with Some (item, d') => if dir_eqb d' d then Some item else None | None => None end) = None ->
  backend_next (snap (refresh b it)) (cur (refresh b it)) d = wrapx x ->
  iter_step (S fuel) b [] it d =
  match x with
  | Some (k, v) => (Some (k, v), {| snap := snap (refresh b it); cur := BAt k; pend := None; last := LAt k |})
  | None => (None, {| snap := snap (refresh b it); cur := BEmpty; pend := Some (None, d);
                      last := match d with Bwd => LStart | Fwd => LEnd end |})
  end.
Proof.
  intros Hne Hp Hb. cbn [iter_step]. rewrite Hp, Hb.
  assert (Eov : match d with Fwd => ov_next [] (last (refresh b it)) | Bwd => ov_prev [] (last (refresh b it)) end = None).
  { destruct d, (last (refresh b it)); reflexivity. }
  rewrite Eov.
  destruct (last it) as [| |k|k], d; try contradiction; destruct x as [[k1 v1]|]; reflexivity.
Qed.

Lemma Inv_some b k v : sorted b -> positive_keys b -> In (k, v) b ->
  Inv {| snap := b; cur := BAt k; pend := None; last := LAt k |}.
Proof.
  intros Hb Pb Hin. split; [exact Hb|]. split; [exact Pb|]. cbn [last cur pend snap backend_seek].
  rewrite (in_find b k v Hb Hin). split; reflexivity.
Qed.
Lemma Inv_none b d : sorted b -> positive_keys b ->
  Inv {| snap := b; cur := BEmpty; pend := Some (None, d); last := match d with Bwd => LStart | Fwd => LEnd end |}.
Proof.
  intros Hb Pb. split; [exact Hb|]. split; [exact Pb|]. destruct d; cbn [last cur pend snap]; split; try (left; reflexivity); right; reflexivity.
Qed.

(* one step over the tree alone is one step of the ordered-map cursor, and the invariant is kept *)
Theorem step_is_spec fuel b it d : sorted b -> positive_keys b -> Inv it ->
  let '(r, it') := iter_step (S fuel) b [] it d in
  r = fst (spec_step b (last it) d) /\ last it' = snd (spec_step b (last it) d) /\ Inv it'.
Proof.
  intros Hb Pb HI.
  destruct (Inv_refresh b it Hb Pb HI) as (HR & Esnap & Elast).
  destruct HR as (_ & _ & HC). rewrite Elast in HC. rewrite Esnap in HC.
  remember (last it) as lk eqn:El. symmetry in El.
  set (x := fst (spec_step b lk d)).
  (* early exits *)
  destruct lk as [| |k|k], d;
    try (cbn [iter_step]; rewrite El; cbn [spec_step fst snd]; split; [reflexivity|split; [exact El|exact HI]]).
  all: cbn [spec_step fst] in x.
  all: assert (Hx : forall e, x = Some e -> In e b) by
        (intros e He; unfold x in He;
         first [apply (first_in b e He) | apply (last_in b e He) | apply (proj1 (first_gt_in _ b e He))
               | apply (last_lt_in _ b e He) | apply (first_ge_in _ b e He) | apply (last_le_in _ b e He)]).
  all: match goal with |- context [iter_step _ _ _ _ ?dd] =>
       assert (Hstep : iter_step (S fuel) b [] it dd = match x with
          | Some (k1, v1) => (Some (k1, v1), {| snap := snap (refresh b it); cur := BAt k1; pend := None; last := LAt k1 |})
          | None => (None, {| snap := snap (refresh b it); cur := BEmpty; pend := Some (None, dd);
                              last := match dd with Bwd => LStart | Fwd => LEnd end |}) end);
       [ apply step_nil; [rewrite El; exact I| |]; rewrite ?Esnap | ] end.
  (* from here: per position, the pending item is unusable and the tree cursor yields x *)
  all: try (rewrite Hstep; rewrite Esnap; cbn [spec_step fst snd]; fold x; clearbody x;
            destruct x as [[k1 v1]|]; cbn [fst snd];
            (split; [reflexivity|split; [reflexivity|]]);
            [apply (Inv_some b k1 v1 Hb Pb (Hx _ eq_refl)) | first [apply (Inv_none b Fwd Hb Pb) | apply (Inv_none b Bwd Hb Pb)]]).
  - destruct HC as [_ [Hp|Hp]]; rewrite Hp; reflexivity.
  - destruct HC as [[Hc|Hc] _]; rewrite Hc; cbn [backend_next]; rewrite ?(first_gt_zero b Pb);
      unfold x, wrapx; destruct (l_first b) as [[? ?]|]; reflexivity.
  - destruct HC as [_ [Hp|Hp]]; rewrite Hp; reflexivity.
  - destruct HC as [[Hc|Hc] _]; rewrite Hc; cbn [backend_next];
      unfold x, wrapx; destruct (l_last b) as [[? ?]|]; reflexivity.
  - destruct HC as [_ Hp]; rewrite Hp; reflexivity.
  - destruct HC as [Hc _]; rewrite Hc; cbn [backend_seek]; unfold x, wrapx;
      destruct (l_find k b); cbn [backend_next]; destruct (l_first_gt k b) as [[? ?]|]; reflexivity.
  - destruct HC as [_ Hp]; rewrite Hp; reflexivity.
  - destruct HC as [Hc _]; rewrite Hc; cbn [backend_seek]; unfold x, wrapx;
      destruct (l_find k b); cbn [backend_next]; destruct (l_last_lt k b) as [[? ?]|]; reflexivity.
  - destruct HC as [_ Hp]; rewrite Hp; reflexivity.
  - destruct HC as [Hc _]; rewrite Hc; cbn [backend_seek]; unfold x, wrapx.
    destruct (l_find k b) as [[k0 v0]|] eqn:Ef; cbn [backend_next].
    + pose proof (find_key k b _ Ef) as Hk. cbn in Hk. subst k0. rewrite Ef.
      pose proof (find_first_ge k b Hb) as Hg. rewrite Ef in Hg.
      destruct (l_first_ge k b) as [[k2 v2]|] eqn:E2; [|discriminate].
      destruct (N.eqb_spec k2 k) as [->|]; [|discriminate]. injection Hg as <-. reflexivity.
    + rewrite (first_gt_of_ge k b Ef). destruct (l_first_ge k b) as [[? ?]|]; reflexivity.
  - destruct HC as [_ Hp]; rewrite Hp; reflexivity.
  - destruct HC as [Hc _]; rewrite Hc; cbn [backend_seek]; unfold x, wrapx.
    destruct (l_find k b) as [[k0 v0]|] eqn:Ef; cbn [backend_next].
    + pose proof (find_key k b _ Ef) as Hk. cbn in Hk. subst k0. rewrite Ef.
      rewrite (last_le_found k b v0 Hb Ef). reflexivity.
    + rewrite (last_lt_of_le k b Ef). destruct (l_last_le k b) as [[? ?]|]; reflexivity.
Qed.

(* ---- any sequence of iterator calls, the tree content possibly different at every call ---- *)
Inductive icall := CSeek (k : N) | CSeekLast | CNext | CPrev.

Definition impl_call (b : kvs) (it : iter) (c : icall) : option (N * N) * iter :=
  match c with
  | CSeek k => (None, iter_seek b it k)
  | CSeekLast => (None, iter_seek_last b it)
  | CNext => iter_step 1 b [] it Fwd
  | CPrev => iter_step 1 b [] it Bwd
  end.
Definition spec_call (b : kvs) (lk : lastkey) (c : icall) : option (N * N) * lastkey :=
  match c with
  | CSeek k => (None, LSeeked k)
  | CSeekLast => (None, LEnd)
  | CNext => spec_step b lk Fwd
  | CPrev => spec_step b lk Bwd
  end.

Fixpoint impl_run (calls : list (kvs * icall)) (it : iter) : list (option (N * N)) :=
  match calls with
  | [] => []
  | (b, c) :: rest => let '(r, it') := impl_call b it c in r :: impl_run rest it'
  end.
Fixpoint spec_run (calls : list (kvs * icall)) (lk : lastkey) : list (option (N * N)) :=
  match calls with
  | [] => []
  | (b, c) :: rest => let '(r, lk') := spec_call b lk c in r :: spec_run rest lk'
  end.

Theorem tree_iteration_is_spec calls : forall it,
  Forall (fun bc => sorted (fst bc) /\ positive_keys (fst bc)) calls -> Inv it ->
  impl_run calls it = spec_run calls (last it).
Proof.
  induction calls as [|[b c] calls IH]; intros it Hall HI; [reflexivity|].
  pose proof (Forall_inv Hall) as [Hb Pb]. pose proof (Forall_inv_tail Hall) as Hrest. cbn [fst] in Hb, Pb.
  cbn [impl_run spec_run]. destruct c as [k| | |]; cbn [impl_call spec_call].
  - f_equal. apply (IH (iter_seek b it k) Hrest (Inv_seek b it k Hb Pb)).
  - f_equal. apply (IH (iter_seek_last b it) Hrest (Inv_seek_last b it Hb Pb)).
  - pose proof (step_is_spec 0 b it Fwd Hb Pb HI) as H.
    destruct (iter_step 1 b [] it Fwd) as [r it']. destruct H as (-> & Hl & HI').
    destruct (spec_step b (last it) Fwd) as [r' lk'] eqn:Es. cbn [fst snd] in *. f_equal.
    rewrite <- Hl. apply IH; assumption.
  - pose proof (step_is_spec 0 b it Bwd Hb Pb HI) as H.
    destruct (iter_step 1 b [] it Bwd) as [r it']. destruct H as (-> & Hl & HI').
    destruct (spec_step b (last it) Bwd) as [r' lk'] eqn:Es. cbn [fst snd] in *. f_equal.
    rewrite <- Hl. apply IH; assumption.
Qed.
