(* C04, the merge: BTreeIterator::iter_inner over the on-disk tree MERGED with the commit overlay
   (insertions override the tree, removals hide its entries, any number of removals in a row), in
   both directions and across direction changes, returns the smallest key beyond the position whose
   current value exists (resp. the largest before it), with that value.
   The specification is stated on lookups, not on lists:  look j = value of key j now. *)
From Coq Require Import NArith List Bool Lia Arith.
From PDB Require Import Model.BTreeIter Proofs.BTreeIterProofs.
Import ListNotations.
Open Scope N_scope.

(* ---- strictly sorted association lists, any value type ---- *)
Section Assoc.
Context {V : Type}.
Implicit Types l : list (N * V).

Fixpoint ssorted l : Prop :=
  match l with [] => True | (k, _) :: r => (forall e, In e r -> k < fst e) /\ ssorted r end.

Definition lk l (j : N) : option V := option_map snd (l_find j l).

Lemma lk_cons k v r j : lk ((k, v) :: r) j = if k =? j then Some v else lk r j.
Proof. unfold lk. cbn [l_find]. destruct (k =? j); reflexivity. Qed.

Lemma lk_none_below l j : ssorted l -> (forall e, In e l -> j < fst e) -> lk l j = None.
Proof.
  induction l as [|[k v] r IH]; intros Hs Hb; [reflexivity|]. rewrite lk_cons.
  pose proof (Hb (k, v) (or_introl eq_refl)) as H. cbn in H. destruct (N.eqb_spec k j); [lia|].
  apply IH; [apply Hs|intros e He; apply Hb; right; exact He].
Qed.

Lemma lk_in l j v : ssorted l -> lk l j = Some v -> In (j, v) l.
Proof.
  induction l as [|[k w] r IH]; intros Hs H; [discriminate|]. rewrite lk_cons in H.
  destruct (N.eqb_spec k j) as [->|]; [injection H as ->; left; reflexivity|right; apply IH; [apply Hs|exact H]].
Qed.
Lemma in_lk l j v : ssorted l -> In (j, v) l -> lk l j = Some v.
Proof.
  induction l as [|[k w] r IH]; intros Hs H; [destruct H|]. rewrite lk_cons. destruct H as [E|H].
  - injection E as -> ->. rewrite N.eqb_refl. reflexivity.
  - destruct Hs as [Hk Hr]. pose proof (Hk _ H) as Hlt. cbn in Hlt. destruct (N.eqb_spec k j); [lia|]. apply IH; assumption.
Qed.

(* forwards *)
Lemma first_spec l : ssorted l ->
  match l_first l with
  | Some (k', x) => lk l k' = Some x /\ forall j, j < k' -> lk l j = None
  | None => forall j, lk l j = None
  end.
Proof.
  destruct l as [|[k v] r]; intros Hs; cbn [l_first hd_error]; [reflexivity|]. split.
  - rewrite lk_cons, N.eqb_refl. reflexivity.
  - intros j Hj. rewrite lk_cons. destruct (N.eqb_spec k j); [lia|]. apply lk_none_below; [apply Hs|].
    intros e He. destruct Hs as [Hk _]. specialize (Hk e He). lia.
Qed.

Lemma first_gt_spec k l : ssorted l ->
  match l_first_gt k l with
  | Some (k', x) => k < k' /\ lk l k' = Some x /\ forall j, k < j -> j < k' -> lk l j = None
  | None => forall j, k < j -> lk l j = None
  end.
Proof.
  induction l as [|[k0 v] r IH]; intros Hs; cbn [l_first_gt]; [reflexivity|]. destruct Hs as [Hk Hr].
  destruct (N.ltb_spec k k0) as [H|H].
  - split; [exact H|]. split; [rewrite lk_cons, N.eqb_refl; reflexivity|].
    intros j H1 H2. rewrite lk_cons. destruct (N.eqb_spec k0 j); [lia|]. apply lk_none_below; [exact Hr|].
    intros e He. specialize (Hk e He). lia.
  - specialize (IH Hr). destruct (l_first_gt k r) as [[k' x]|].
    + destruct IH as [A [B C]]. split; [exact A|]. split.
      * rewrite lk_cons. destruct (N.eqb_spec k0 k'); [lia|exact B].
      * intros j H1 H2. rewrite lk_cons. destruct (N.eqb_spec k0 j); [lia|]. apply C; assumption.
    + intros j Hj. rewrite lk_cons. destruct (N.eqb_spec k0 j); [lia|]. apply IH. exact Hj.
Qed.

Lemma first_ge_spec k l : ssorted l ->
  match l_first_ge k l with
  | Some (k', x) => k <= k' /\ lk l k' = Some x /\ forall j, k <= j -> j < k' -> lk l j = None
  | None => forall j, k <= j -> lk l j = None
  end.
Proof.
  induction l as [|[k0 v] r IH]; intros Hs; cbn [l_first_ge]; [reflexivity|]. destruct Hs as [Hk Hr].
  destruct (N.leb_spec k k0) as [H|H].
  - split; [exact H|]. split; [rewrite lk_cons, N.eqb_refl; reflexivity|].
    intros j H1 H2. rewrite lk_cons. destruct (N.eqb_spec k0 j); [lia|]. apply lk_none_below; [exact Hr|].
    intros e He. specialize (Hk e He). lia.
  - specialize (IH Hr). destruct (l_first_ge k r) as [[k' x]|].
    + destruct IH as [A [B C]]. split; [exact A|]. split.
      * rewrite lk_cons. destruct (N.eqb_spec k0 k'); [lia|exact B].
      * intros j H1 H2. rewrite lk_cons. destruct (N.eqb_spec k0 j); [lia|]. apply C; assumption.
    + intros j Hj. rewrite lk_cons. destruct (N.eqb_spec k0 j); [lia|]. apply IH. exact Hj.
Qed.

(* backwards *)
Lemma lk_none_above r j : ssorted r -> (forall e, In e r -> j < fst e) -> lk r j = None.
Proof. apply lk_none_below. Qed.

Lemma last_lt_spec k l : ssorted l ->
  match l_last_lt k l with
  | Some (k', x) => k' < k /\ lk l k' = Some x /\ forall j, j < k -> k' < j -> lk l j = None
  | None => forall j, j < k -> lk l j = None
  end.
Proof.
  induction l as [|[k0 v] r IH]; intros Hs; cbn [l_last_lt]; [reflexivity|]. destruct Hs as [Hk Hr].
  destruct (N.ltb_spec k0 k) as [H|H].
  - specialize (IH Hr). destruct (l_last_lt k r) as [[k' x]|] eqn:E.
    + destruct IH as [A [B C]]. split; [exact A|].
      assert (Hin : In (k', x) r) by (apply lk_in; assumption). pose proof (Hk _ Hin) as Hlt. cbn in Hlt.
      split.
      * rewrite lk_cons. destruct (N.eqb_spec k0 k'); [lia|exact B].
      * intros j H1 H2. rewrite lk_cons. destruct (N.eqb_spec k0 j); [lia|]. apply C; assumption.
    + split; [exact H|]. split; [rewrite lk_cons, N.eqb_refl; reflexivity|].
      intros j H1 H2. rewrite lk_cons. destruct (N.eqb_spec k0 j); [lia|]. apply IH. exact H1.
  - intros j Hj. rewrite lk_cons. destruct (N.eqb_spec k0 j); [lia|]. apply lk_none_below; [exact Hr|].
    intros e He. specialize (Hk e He). lia.
Qed.

Lemma last_le_spec k l : ssorted l ->
  match l_last_le k l with
  | Some (k', x) => k' <= k /\ lk l k' = Some x /\ forall j, j <= k -> k' < j -> lk l j = None
  | None => forall j, j <= k -> lk l j = None
  end.
Proof.
  induction l as [|[k0 v] r IH]; intros Hs; cbn [l_last_le]; [reflexivity|]. destruct Hs as [Hk Hr].
  destruct (N.leb_spec k0 k) as [H|H].
  - specialize (IH Hr). destruct (l_last_le k r) as [[k' x]|] eqn:E.
    + destruct IH as [A [B C]]. split; [exact A|].
      assert (Hin : In (k', x) r) by (apply lk_in; assumption). pose proof (Hk _ Hin) as Hlt. cbn in Hlt.
      split.
      * rewrite lk_cons. destruct (N.eqb_spec k0 k'); [lia|exact B].
      * intros j H1 H2. rewrite lk_cons. destruct (N.eqb_spec k0 j); [lia|]. apply C; assumption.
    + split; [exact H|]. split; [rewrite lk_cons, N.eqb_refl; reflexivity|].
      intros j H1 H2. rewrite lk_cons. destruct (N.eqb_spec k0 j); [lia|]. apply IH. exact H1.
  - intros j Hj. rewrite lk_cons. destruct (N.eqb_spec k0 j); [lia|]. apply lk_none_below; [exact Hr|].
    intros e He. specialize (Hk e He). lia.
Qed.

Lemma last_spec l : ssorted l ->
  match l_last l with
  | Some (k', x) => lk l k' = Some x /\ forall j, k' < j -> lk l j = None
  | None => forall j, lk l j = None
  end.
Proof.
  (* l_last l = l_last_le of an upper bound; do it directly by induction *)
  unfold l_last. induction l as [|[k0 v] r IH]; intros Hs; [cbn; reflexivity|]. destruct Hs as [Hk Hr]. specialize (IH Hr).
  cbn [rev]. destruct (rev r) as [|[k' x] t] eqn:E.
  - cbn [app hd_error]. assert (r = []) by (destruct r; [reflexivity|]; cbn in E; destruct (rev r); discriminate). subst r.
    split; [rewrite lk_cons, N.eqb_refl; reflexivity|]. intros j Hj. rewrite lk_cons. destruct (N.eqb_spec k0 j); [lia|reflexivity].
  - cbn [app hd_error] in *. destruct IH as [B C].
    assert (Hin : In (k', x) r) by (apply lk_in; assumption). pose proof (Hk _ Hin) as Hlt. cbn in Hlt. split.
    + rewrite lk_cons. destruct (N.eqb_spec k0 k'); [lia|exact B].
    + intros j Hj. rewrite lk_cons. destruct (N.eqb_spec k0 j); [lia|]. apply C. exact Hj.
Qed.
End Assoc.

Lemma sorted_ssorted (b : kvs) : sorted b <-> ssorted b.
Proof. induction b as [|[k v] r IH]; cbn; [tauto|]. rewrite IH. tauto. Qed.

(* ---- positions and "the next one beyond the position" ---- *)
Definition past (d : dir) (p : lastkey) (j : N) : Prop :=
  match d, p with
  | Fwd, LStart => True | Fwd, LEnd => False | Fwd, LAt k => k < j | Fwd, LSeeked k => k <= j
  | Bwd, LEnd => True | Bwd, LStart => False | Bwd, LAt k => j < k | Bwd, LSeeked k => j <= k
  end.
Definition dlt (d : dir) (a b : N) : Prop := match d with Fwd => a < b | Bwd => b < a end.

Definition nextP {X} (d : dir) (look : N -> option X) (p : lastkey) (r : option (N * X)) : Prop :=
  match r with
  | Some (k', x) => past d p k' /\ look k' = Some x /\ forall j, past d p j -> dlt d j k' -> look j = None
  | None => forall j, past d p j -> look j = None
  end.

(* the answer of a sorted list, per position and direction *)
Definition ans {V} (l : list (N * V)) (p : lastkey) (d : dir) : option (N * V) :=
  match d, p with
  | Fwd, LStart => l_first l | Fwd, LEnd => None | Fwd, LAt k => l_first_gt k l | Fwd, LSeeked k => l_first_ge k l
  | Bwd, LEnd => l_last l | Bwd, LStart => None | Bwd, LAt k => l_last_lt k l | Bwd, LSeeked k => l_last_le k l
  end.

Lemma ans_nextP {V} (l : list (N * V)) p d : ssorted l -> nextP d (lk l) p (ans l p d).
Proof.
  intros Hs. destruct d, p as [| |k|k]; cbn [ans].
  - pose proof (first_spec l Hs) as H. destruct (l_first l) as [[k' x]|]; cbn [nextP past dlt]; [destruct H as [A B]; repeat split; [exact A|intros j _ Hj; apply B; exact Hj]|intros j _; apply H].
  - cbn. intros j [].
  - pose proof (first_gt_spec k l Hs) as H. destruct (l_first_gt k l) as [[k' x]|]; cbn [nextP past dlt]; exact H.
  - pose proof (first_ge_spec k l Hs) as H. destruct (l_first_ge k l) as [[k' x]|]; cbn [nextP past dlt]; exact H.
  - cbn. intros j [].
  - pose proof (last_spec l Hs) as H. destruct (l_last l) as [[k' x]|]; cbn [nextP past dlt]; [destruct H as [A B]; repeat split; [exact A|intros j _ Hj; apply B; exact Hj]|intros j _; apply H].
  - pose proof (last_lt_spec k l Hs) as H. destruct (l_last_lt k l) as [[k' x]|]; cbn [nextP past dlt]; [destruct H as [A [B C]]; repeat split; [exact A|exact B|intros j H1 H2; apply C; assumption]|exact H].
  - pose proof (last_le_spec k l Hs) as H. destruct (l_last_le k l) as [[k' x]|]; cbn [nextP past dlt]; [destruct H as [A [B C]]; repeat split; [exact A|exact B|intros j H1 H2; apply C; assumption]|exact H].
Qed.

(* nextP determines the answer *)
Lemma nextP_unique {X} d (look : N -> option X) p r1 r2 : nextP d look p r1 -> nextP d look p r2 -> r1 = r2.
Proof.
  destruct r1 as [[k1 x1]|], r2 as [[k2 x2]|]; cbn [nextP]; intros H1 H2.
  - destruct H1 as [A1 [B1 C1]], H2 as [A2 [B2 C2]].
    assert (k1 = k2).
    { destruct d; cbn [dlt] in *.
      - destruct (N.lt_trichotomy k1 k2) as [H|[H|H]]; [rewrite (C2 k1 A1 H) in B1; discriminate|exact H|rewrite (C1 k2 A2 H) in B2; discriminate].
      - destruct (N.lt_trichotomy k1 k2) as [H|[H|H]]; [rewrite (C1 k2 A2 H) in B2; discriminate|exact H|rewrite (C2 k1 A1 H) in B1; discriminate]. }
    subst k2. rewrite B1 in B2. injection B2 as ->. reflexivity.
  - destruct H1 as [A1 [B1 _]]. rewrite (H2 k1 A1) in B1. discriminate.
  - destruct H2 as [A2 [B2 _]]. rewrite (H1 k2 A2) in B2. discriminate.
  - reflexivity.
Qed.

(* ---- the current value of a key: the overlay over the tree ---- *)
Definition mlook (b : kvs) (o : ovs) (j : N) : option N :=
  match lk o j with Some ov => ov | None => lk b j end.

(* ---- the cursor invariant, stated by what the cursor answers ---- *)
Definition posof (x : option (N * N)) : bcur := match x with Some (k, _) => BAt k | None => BEmpty end.

Definition answer (it : iter) (d : dir) : option (N * N) * bcur :=
  match (match pend it with Some (item, d') => if dir_eqb d' d then Some item else None | None => None end) with
  | Some item => (item, cur it)
  | None => backend_next (snap it) (cur it) d
  end.

Definition allowed (p : lastkey) (d : dir) : Prop :=
  match p, d with LStart, Bwd | LEnd, Fwd => False | _, _ => True end.

Definition InvS (it : iter) : Prop :=
  sorted (snap it) /\ positive_keys (snap it) /\
  forall d, allowed (last it) d -> answer it d = (ans (snap it) (last it) d, posof (ans (snap it) (last it) d)).

Definition endp (d : dir) : lastkey := match d with Fwd => LEnd | Bwd => LStart end.
Definition rev_dir (d : dir) : dir := match d with Fwd => Bwd | Bwd => Fwd end.

Lemma wrap_posof (r : option (N * N)) :
  (match r with Some (k, v) => (Some (k, v), BAt k) | None => (None, BEmpty) end) = (r, posof r).
Proof. destruct r as [[k v]|]; reflexivity. Qed.

Lemma backend_at b k d : backend_next b (BAt k) d = (ans b (LAt k) d, posof (ans b (LAt k) d)).
Proof. destruct d; cbn [backend_next ans]; apply wrap_posof. Qed.
Lemma backend_gap b k d : backend_next b (BGap k) d = (ans b (LAt k) d, posof (ans b (LAt k) d)).
Proof. destruct d; cbn [backend_next ans]; apply wrap_posof. Qed.

Lemma past_mono d p a j : past d p a -> dlt d a j \/ a = j -> past d p j.
Proof.
  intros H [H1| <-]; [|exact H]. destruct d, p as [| |k|k]; cbn [past dlt] in *; try exact I; try contradiction; lia.
Qed.

Lemma dir_eqb_refl d : dir_eqb d d = true. Proof. destruct d; reflexivity. Qed.
Lemma dir_eqb_rev d : dir_eqb d (rev_dir d) = false. Proof. destruct d; reflexivity. Qed.
Lemma dir_cases d d2 : d2 = d \/ d2 = rev_dir d. Proof. destruct d, d2; auto. Qed.

(* the tree alone, as a lookup *)
Lemma tree_ans b p d : sorted b -> nextP d (lk b) p (ans b p d).
Proof. intros H. apply ans_nextP. apply sorted_ssorted. exact H. Qed.

(* (I1) standing on a key of the tree, nothing pending *)
Lemma inv_at_key b k : sorted b -> positive_keys b ->
  InvS {| snap := b; cur := BAt k; pend := None; last := LAt k |}.
Proof.
  intros Hb Pb. split; [exact Hb|]. split; [exact Pb|]. intros d _. unfold answer. cbn [pend snap cur last]. apply backend_at.
Qed.

(* (I3) ran off the end *)
Lemma inv_end b d : sorted b -> positive_keys b ->
  InvS {| snap := b; cur := BEmpty; pend := Some (None, d); last := endp d |}.
Proof.
  intros Hb Pb. split; [exact Hb|]. split; [exact Pb|]. intros d2 Ha. unfold answer. cbn [pend snap cur last].
  destruct d, d2; cbn [endp allowed] in Ha; try contradiction; cbn [dir_eqb backend_next ans endp]; apply wrap_posof.
Qed.

(* (I2) standing on a key ck that is NOT in the tree, the tree's answer for direction d buffered *)
Lemma inv_pending b p d ck : sorted b -> positive_keys b ->
  past d p ck ->
  (forall j, past d p j -> dlt d j ck \/ j = ck -> lk b j = None) ->
  (match ans b p d with Some (bk, _) => dlt d ck bk | None => True end) ->
  InvS {| snap := b; cur := posof (ans b p d); pend := Some (ans b p d, d); last := LAt ck |}.
Proof.
  intros Hb Pb Hck Hgap Hbk. split; [exact Hb|]. split; [exact Pb|]. intros d2 _. unfold answer. cbn [pend snap cur last].
  pose proof (tree_ans b p d Hb) as HB.
  destruct (dir_cases d d2) as [->| ->].
  - (* same direction: the buffered item is the answer from ck as well *)
    rewrite dir_eqb_refl.
    assert (E : ans b p d = ans b (LAt ck) d).
    { apply (nextP_unique d (lk b) (LAt ck)); [|apply tree_ans; exact Hb].
      destruct (ans b p d) as [[bk bv]|]; cbn [nextP] in *.
      - destruct HB as [A [B C]]. split; [destruct d; exact Hbk|]. split; [exact B|].
        intros j Hj Hjk. apply C; [|exact Hjk]. apply (past_mono d p ck j Hck). left. destruct d; exact Hj.
      - intros j Hj. apply HB. apply (past_mono d p ck j Hck). left. destruct d; exact Hj. }
    rewrite <- E. reflexivity.
  - (* the other direction: the tree cursor stands beyond ck, with no entry in between *)
    rewrite dir_eqb_rev.
    destruct (ans b p d) as [[bk bv]|] eqn:Ea; cbn [posof nextP] in *.
    + rewrite backend_at. destruct HB as [A [B C]].
      assert (E : ans b (LAt bk) (rev_dir d) = ans b (LAt ck) (rev_dir d)).
      { apply (nextP_unique (rev_dir d) (lk b) (LAt ck)); [|apply tree_ans; exact Hb].
        pose proof (tree_ans b (LAt bk) (rev_dir d) Hb) as HR.
        (* no entry from ck (inclusive) up to bk (exclusive) *)
        assert (Hnone : forall j, (dlt d ck j \/ j = ck) -> dlt d j bk -> lk b j = None).
        { intros j Hj Hjb. apply C; [|exact Hjb]. apply (past_mono d p ck j Hck). destruct Hj as [Hj| ->]; [left; exact Hj|right; reflexivity]. }
        destruct (ans b (LAt bk) (rev_dir d)) as [[k' x]|]; cbn [nextP] in *.
        - destruct HR as [A' [B' C']].
          assert (Hk' : dlt d k' ck).
          { destruct d; cbn [rev_dir past dlt] in *.
            - destruct (N.lt_ge_cases k' ck) as [H|H]; [exact H|]. rewrite (Hnone k') in B'; [discriminate| |exact A']. destruct (N.eq_dec k' ck); [right; assumption|left; lia].
            - destruct (N.lt_ge_cases ck k') as [H|H]; [exact H|]. rewrite (Hnone k') in B'; [discriminate| |exact A']. destruct (N.eq_dec k' ck); [right; assumption|left; lia]. }
          split; [destruct d; exact Hk'|]. split; [exact B'|].
          intros j Hj Hjk. apply C'; [|exact Hjk]. destruct d; cbn [rev_dir past dlt] in *; lia.
        - intros j Hj. apply HR. destruct d; cbn [rev_dir past dlt] in *; lia. }
      rewrite E. reflexivity.
    + (* the tree has nothing beyond p: from the far end the cursor comes back to the same answer *)
      assert (E : backend_next b BEmpty (rev_dir d) = (ans b (endp d) (rev_dir d), posof (ans b (endp d) (rev_dir d)))).
      { destruct d; cbn [rev_dir backend_next endp ans]; apply wrap_posof. }
      rewrite E.
      assert (E2 : ans b (endp d) (rev_dir d) = ans b (LAt ck) (rev_dir d)).
      { apply (nextP_unique (rev_dir d) (lk b) (LAt ck)); [|apply tree_ans; exact Hb].
        pose proof (tree_ans b (endp d) (rev_dir d) Hb) as HR.
        destruct (ans b (endp d) (rev_dir d)) as [[k' x]|]; cbn [nextP] in *.
        - destruct HR as [A' [B' C']].
          assert (Hk' : dlt d k' ck).
          { destruct d; cbn [rev_dir past dlt endp] in *.
            - destruct (N.lt_ge_cases k' ck) as [H|H]; [exact H|]. rewrite (HB k') in B'; [discriminate|]. apply (past_mono Fwd p ck k' Hck). cbn. destruct (N.eq_dec ck k'); [right; assumption|left; lia].
            - destruct (N.lt_ge_cases ck k') as [H|H]; [exact H|]. rewrite (HB k') in B'; [discriminate|]. apply (past_mono Bwd p ck k' Hck). cbn. destruct (N.eq_dec ck k'); [right; assumption|left; lia]. }
          split; [destruct d; exact Hk'|]. split; [exact B'|].
          intros j Hj Hjk. apply C'; [destruct d; exact I|exact Hjk].
        - intros j Hj. apply HR. destruct d; exact I. }
      rewrite E2. reflexivity.
Qed.

(* the states the public calls set up *)
Lemma find_lk (b : kvs) k : l_find k b = None <-> lk b k = None.
Proof. unfold lk. destruct (l_find k b); cbn; split; intros H; try reflexivity; discriminate. Qed.

Lemma invS_of_Inv it : Inv it -> InvS it.
Proof.
  intros (Hs & Ps & HI). split; [exact Hs|]. split; [exact Ps|]. intros d Ha. unfold answer.
  destruct (last it) as [| |k|k] eqn:El.
  - destruct HI as [Hc Hp]. destruct d; [|contradiction].
    assert (Ep : match pend it with Some (item, d') => if dir_eqb d' Fwd then Some item else None | None => None end = None)
      by (destruct Hp as [-> | ->]; reflexivity).
    rewrite Ep. destruct Hc as [-> | ->]; cbn [backend_next ans]; rewrite ?(first_gt_zero _ Ps); apply wrap_posof.
  - destruct HI as [Hc Hp]. destruct d; [contradiction|].
    assert (Ep : match pend it with Some (item, d') => if dir_eqb d' Bwd then Some item else None | None => None end = None)
      by (destruct Hp as [-> | ->]; reflexivity).
    rewrite Ep. destruct Hc as [-> | ->]; cbn [backend_next ans]; apply wrap_posof.
  - destruct HI as [Hc Hp]. rewrite Hp, Hc. cbn [backend_seek]. destruct (l_find k (snap it)); [apply backend_at|apply backend_gap].
  - destruct HI as [Hc Hp]. rewrite Hp, Hc. cbn [backend_seek].
    destruct (l_find k (snap it)) as [[k0 v0]|] eqn:Ef.
    + pose proof (find_key k (snap it) _ Ef) as Hk. cbn in Hk. subst k0.
      destruct d; cbn [backend_next ans]; rewrite Ef.
      * pose proof (find_first_ge k (snap it) Hs) as Hg. rewrite Ef in Hg.
        destruct (l_first_ge k (snap it)) as [[k2 v2]|] eqn:E2; [|discriminate].
        destruct (N.eqb_spec k2 k) as [->|]; [|discriminate]. injection Hg as <-. reflexivity.
      * rewrite (last_le_found k (snap it) v0 Hs Ef). reflexivity.
    + rewrite backend_gap. destruct d; cbn [ans]; [rewrite (first_gt_of_ge k _ Ef)|rewrite (last_lt_of_le k _ Ef)]; reflexivity.
Qed.

(* ---- one step over tree + overlay ---- *)
Lemma kvs_eqb_refl b : kvs_eqb b b = true.
Proof.
  unfold kvs_eqb. rewrite N.eqb_refl. cbn [andb]. induction b as [|[k v] b IH]; [reflexivity|].
  cbn [combine forallb fst snd]. rewrite !N.eqb_refl. exact IH.
Qed.
Lemma refresh_same b it : snap it = b -> refresh b it = it.
Proof. intros <-. unfold refresh. rewrite kvs_eqb_refl. reflexivity. Qed.

Definition pastb (d : dir) (p : lastkey) (j : N) : bool :=
  match d, p with
  | Fwd, LStart => true | Fwd, LEnd => false | Fwd, LAt k => k <? j | Fwd, LSeeked k => k <=? j
  | Bwd, LEnd => true | Bwd, LStart => false | Bwd, LAt k => j <? k | Bwd, LSeeked k => j <=? k
  end.
Lemma pastb_spec d p j : pastb d p j = true <-> past d p j.
Proof.
  destruct d, p as [| |k|k]; cbn [pastb past]; try tauto; try (split; [discriminate|contradiction]);
    rewrite ?N.ltb_lt, ?N.leb_le; tauto.
Qed.
Definition cnt (o : ovs) (d : dir) (p : lastkey) : nat := length (filter (fun e => pastb d p (fst e)) o).

Lemma filter_lt {A} (f g : A -> bool) l x : (forall e, f e = true -> g e = true) -> In x l -> g x = true -> f x = false ->
  (length (filter f l) < length (filter g l))%nat.
Proof.
  intros Hfg. induction l as [|a l IH]; intros Hin Hg Hf; [destruct Hin|].
  assert (Hle : forall l0, (length (filter f l0) <= length (filter g l0))%nat).
  { induction l0 as [|b l0 IH0]; [cbn; lia|]. cbn [filter]. destruct (f b) eqn:Efb; [rewrite (Hfg b Efb); cbn; lia|destruct (g b); cbn; lia]. }
  cbn [filter]. destruct Hin as [->|Hin].
  - rewrite Hf, Hg. cbn [length]. specialize (Hle l). lia.
  - specialize (IH Hin Hg Hf). destruct (f a) eqn:Efa; [rewrite (Hfg a Efa); cbn; lia|destruct (g a); cbn; lia].
Qed.

Lemma cnt_decreases o d p ck cv : ssorted o -> lk o ck = Some cv -> past d p ck -> (cnt o d (LAt ck) < cnt o d p)%nat.
Proof.
  intros Hs Hl Hp. unfold cnt. apply (filter_lt _ _ o (ck, cv)).
  - intros e He. apply pastb_spec in He. apply pastb_spec. apply (past_mono d p ck (fst e) Hp). left. destruct d; exact He.
  - apply lk_in; assumption.
  - apply pastb_spec. exact Hp.
  - cbn [fst]. destruct d; cbn [pastb]; apply N.ltb_irrefl.
Qed.

(* skipping keys whose current value is "absent" *)
Lemma nextP_skip {X} d (look : N -> option X) p ck r : past d p ck ->
  (forall j, past d p j -> dlt d j ck \/ j = ck -> look j = None) ->
  nextP d look (LAt ck) r -> nextP d look p r.
Proof.
  intros Hck Hnone H. destruct r as [[k' x]|]; cbn [nextP] in *.
  - destruct H as [A [B C]]. split; [apply (past_mono d p ck k' Hck); left; destruct d; exact A|]. split; [exact B|].
    intros j Hj Hjk.
    assert (Hc : dlt d j ck \/ j = ck \/ dlt d ck j) by (destruct d; cbn [dlt]; lia).
    destruct Hc as [Hc|[Hc|Hc]]; [apply Hnone; [exact Hj|left; exact Hc]|apply Hnone; [exact Hj|right; exact Hc]|apply C; [destruct d; exact Hc|exact Hjk]].
  - intros j Hj.
    assert (Hc : dlt d j ck \/ j = ck \/ dlt d ck j) by (destruct d; cbn [dlt]; lia).
    destruct Hc as [Hc|[Hc|Hc]]; [apply Hnone; [exact Hj|left; exact Hc]|apply Hnone; [exact Hj|right; exact Hc]|apply H; destruct d; exact Hc].
Qed.

Lemma ov_ans o p d : (match d with Fwd => ov_next o p | Bwd => ov_prev o p end) = ans o p d.
Proof. destruct d, p; reflexivity. Qed.

Lemma dlt_dec d a c : (match d with Fwd => a <? c | Bwd => c <? a end) = true <-> dlt d a c.
Proof. destruct d; cbn [dlt]; apply N.ltb_lt. Qed.

Definition resl (r : option (N * N)) (d : dir) : lastkey := match r with Some (k, _) => LAt k | None => endp d end.

Definition allowedb (p : lastkey) (d : dir) : bool :=
  match p, d with LStart, Bwd | LEnd, Fwd => false | _, _ => true end.
Lemma allowedb_spec p d : allowedb p d = true <-> allowed p d.
Proof. destruct p, d; cbn; split; intros H; try exact I; try reflexivity; try discriminate; try contradiction. Qed.

(* the body of iter_inner after the early exits, with the snapshot already current *)
Definition body (f : nat) (b : kvs) (o : ovs) (it : iter) (d : dir) : option (N * N) * iter :=
  let finish (r : option (N * N)) (c : bcur) (p : option (option (N * N) * dir)) : option (N * N) * iter :=
    (r, {| snap := snap it; cur := c; pend := p; last := resl r d |}) in
  let nov := ans o (last it) d in
  let '(nb, c) := answer it d in
  let again (k : N) (p : option (option (N * N) * dir)) :=
    iter_step f b o {| snap := snap it; cur := c; pend := p; last := LAt k |} d in
  match nov, nb with
  | Some (ck, cv), Some (bk, bv) =>
      if (match d with Fwd => ck <? bk | Bwd => bk <? ck end) then
        match cv with
        | Some v => finish (Some (ck, v)) c (Some (Some (bk, bv), d))
        | None => again ck (Some (Some (bk, bv), d))
        end
      else if ck =? bk then
        match cv with
        | Some v => finish (Some (bk, v)) c None
        | None => again ck None
        end
      else finish (Some (bk, bv)) c None
  | Some (ck, Some v), None => finish (Some (ck, v)) c (Some (None, d))
  | Some (ck, None), None => again ck (Some (None, d))
  | None, Some (bk, bv) => finish (Some (bk, bv)) c None
  | None, None => finish None c (Some (None, d))
  end.

Lemma iter_step_S f b o it d : snap it = b ->
  iter_step (S f) b o it d = if allowedb (last it) d then body f b o it d else (None, it).
Proof.
  intros Hsn. cbn [iter_step]. rewrite (refresh_same b it Hsn). unfold body, answer, resl, endp.
  rewrite <- (ov_ans o (last it) d).
  destruct (last it), d; reflexivity.
Qed.

Lemma mlook_ov b o j v : lk o j = Some v -> mlook b o j = v.
Proof. unfold mlook. intros ->. reflexivity. Qed.
Lemma mlook_tree b o j : lk o j = None -> mlook b o j = lk b j.
Proof. unfold mlook. intros ->. reflexivity. Qed.

Theorem merge_step b o : sorted b -> positive_keys b -> ssorted o ->
  forall fuel it d, snap it = b -> InvS it -> (cnt o d (last it) < fuel)%nat ->
  let '(r, it') := iter_step fuel b o it d in
  nextP d (mlook b o) (last it) r /\ InvS it' /\ snap it' = b /\ (allowed (last it) d -> last it' = resl r d).
Proof.
  intros Hb Pb Ho. induction fuel as [|f IH]; intros it d Hsn HI Hf; [lia|].
  rewrite (iter_step_S f b o it d Hsn).
  destruct (allowedb (last it) d) eqn:Eal.
  2:{ assert (Hna : ~ allowed (last it) d) by (intros H; apply allowedb_spec in H; congruence).
      split; [|split; [exact HI|split; [exact Hsn|intros H; contradiction]]].
      destruct (last it), d; cbn [allowed] in Hna; try (exfalso; apply Hna; exact I); cbn [nextP past]; intros j []. }
  apply allowedb_spec in Eal.
  destruct HI as (Hs & Ps & HA). pose proof (HA d Eal) as Hans. rewrite Hsn in Hans.
  unfold body. rewrite Hans. rewrite Hsn.
  set (p := last it) in *.
  pose proof (tree_ans b p d Hb) as HB. pose proof (ans_nextP o p d Ho) as HO.
  (* what is known about the keys strictly before an overlay item that comes first *)
  assert (Hbefore_ov : forall ck cv, ans o p d = Some (ck, cv) ->
            (match ans b p d with Some (bk, _) => dlt d ck bk | None => True end) ->
            past d p ck /\ lk o ck = Some cv /\
            (forall j, past d p j -> dlt d j ck -> mlook b o j = None) /\
            (forall j, past d p j -> dlt d j ck \/ j = ck -> lk b j = None)).
  { intros ck cv Eo Hlt. rewrite Eo in HO. cbn [nextP] in HO. destruct HO as [A [B C]].
    assert (Htree : forall j, past d p j -> dlt d j ck \/ j = ck -> lk b j = None).
    { intros j Hj Hc. destruct (ans b p d) as [[bk bv]|]; cbn [nextP] in HB.
      - destruct HB as [_ [_ C']]. apply C'; [exact Hj|]. destruct Hc as [Hc| ->]; [destruct d; cbn [dlt] in *; lia|exact Hlt].
      - apply HB. exact Hj. }
    split; [exact A|]. split; [exact B|]. split; [|exact Htree].
    intros j Hj Hjc. rewrite mlook_tree by (apply C; assumption). apply Htree; [exact Hj|left; exact Hjc]. }
  (* the recursive call after a removal at ck *)
  assert (Hagain : forall ck pnd c0,
            past d p ck -> lk o ck = Some None ->
            (forall j, past d p j -> dlt d j ck -> mlook b o j = None) ->
            InvS {| snap := b; cur := c0; pend := pnd; last := LAt ck |} ->
            let '(r, it') := iter_step f b o {| snap := b; cur := c0; pend := pnd; last := LAt ck |} d in
            nextP d (mlook b o) p r /\ InvS it' /\ snap it' = b /\ (allowed p d -> last it' = resl r d)).
  { intros ck pnd c0 Hck Hrm Hnone HI1.
    assert (Hc : (cnt o d (LAt ck) < f)%nat) by (pose proof (cnt_decreases o d p ck None Ho Hrm Hck); fold p in Hf; lia).
    pose proof (IH {| snap := b; cur := c0; pend := pnd; last := LAt ck |} d eq_refl HI1 Hc) as H.
    destruct (iter_step f b o {| snap := b; cur := c0; pend := pnd; last := LAt ck |} d) as [r it'].
    cbn [last] in H. destruct H as (H1 & H2 & H3 & H4). split; [|split; [exact H2|split; [exact H3|]]].
    - apply (nextP_skip d (mlook b o) p ck r Hck); [|exact H1].
      intros j Hj [Hc'| ->]; [apply Hnone; assumption|]. apply (mlook_ov b o ck None Hrm).
    - intros _. apply H4. destruct d; exact I. }
  destruct (ans o p d) as [[ck cv]|] eqn:Eo; destruct (ans b p d) as [[bk bv]|] eqn:Eb; cbn [posof].
  - (* both have an item *)
    destruct (match d with Fwd => ck <? bk | Bwd => bk <? ck end) eqn:Ecmp.
    + apply dlt_dec in Ecmp.
      destruct (Hbefore_ov ck cv eq_refl Ecmp) as (A & B & Cm & Ct).
      assert (HI1 : InvS {| snap := b; cur := BAt bk; pend := Some (Some (bk, bv), d); last := LAt ck |}).
      { pose proof (inv_pending b p d ck Hb Pb A Ct) as H. rewrite Eb in H. cbn [posof] in H. apply H. exact Ecmp. }
      destruct cv as [v|].
      * split; [|split; [exact HI1|split; [reflexivity|intros _; reflexivity]]].
        cbn [nextP]. split; [exact A|]. split; [apply (mlook_ov b o ck (Some v) B)|exact Cm].
      * apply (Hagain ck (Some (Some (bk, bv), d)) (BAt bk) A B Cm HI1).
    + destruct (N.eqb_spec ck bk) as [->|Hne].
      * (* the overlay overrides (or removes) the tree entry bk *)
        cbn [nextP] in HO, HB. destruct HO as [A [B C]]. destruct HB as [_ [B' C']].
        assert (Cm : forall j, past d p j -> dlt d j bk -> mlook b o j = None).
        { intros j Hj Hjk. rewrite mlook_tree by (apply C; assumption). apply C'; assumption. }
        pose proof (inv_at_key b bk Hb Pb) as HI1.
        destruct cv as [v|].
        -- split; [|split; [exact HI1|split; [reflexivity|intros _; reflexivity]]].
           cbn [nextP]. split; [exact A|]. split; [apply (mlook_ov b o bk (Some v) B)|exact Cm].
        -- apply (Hagain bk None (BAt bk) A B Cm HI1).
      * (* the tree entry comes first *)
        assert (Hbk : dlt d bk ck).
        { assert (~ dlt d ck bk) by (intros H; apply dlt_dec in H; congruence). destruct d; cbn [dlt] in *; lia. }
        cbn [nextP] in HO, HB. destruct HO as [A [B C]]. destruct HB as [A' [B' C']].
        assert (G : nextP d (mlook b o) p (Some (bk, bv))).
        { cbn [nextP]. split; [exact A'|]. split.
          - rewrite mlook_tree by (apply C; assumption). exact B'.
          - intros j Hj Hjk. rewrite mlook_tree; [apply C'; assumption|]. apply C; [exact Hj|]. destruct d; cbn [dlt] in *; lia. }
        destruct cv; (split; [exact G|split; [apply (inv_at_key b bk Hb Pb)|split; [reflexivity|intros _; reflexivity]]]).
  - (* only the overlay has an item *)
    destruct (Hbefore_ov ck cv eq_refl I) as (A & B & Cm & Ct).
    assert (HI1 : InvS {| snap := b; cur := BEmpty; pend := Some (None, d); last := LAt ck |}).
    { pose proof (inv_pending b p d ck Hb Pb A Ct) as H. rewrite Eb in H. cbn [posof] in H. apply H. exact I. }
    destruct cv as [v|].
    + split; [|split; [exact HI1|split; [reflexivity|intros _; reflexivity]]].
      cbn [nextP]. split; [exact A|]. split; [apply (mlook_ov b o ck (Some v) B)|exact Cm].
    + apply (Hagain ck (Some (None, d)) BEmpty A B Cm HI1).
  - (* only the tree has an item *)
    cbn [nextP] in HO, HB. destruct HB as [A' [B' C']].
    split; [|split; [apply (inv_at_key b bk Hb Pb)|split; [reflexivity|intros _; reflexivity]]].
    cbn [nextP]. split; [exact A'|]. split.
    + rewrite mlook_tree by (apply HO; exact A'). exact B'.
    + intros j Hj Hjk. rewrite mlook_tree by (apply HO; exact Hj). apply C'; assumption.
  - (* nothing left *)
    cbn [nextP] in HO, HB.
    split; [|split; [apply (inv_end b d Hb Pb)|split; [reflexivity|intros _; reflexivity]]].
    cbn [nextP]. intros j Hj. rewrite mlook_tree by (apply HO; exact Hj). apply HB. exact Hj.
Qed.

(* ---- with the snapshot refresh, as the public calls run it ---- *)
Lemma InvS_refresh b it : sorted b -> positive_keys b -> InvS it ->
  InvS (refresh b it) /\ snap (refresh b it) = b /\ last (refresh b it) = last it.
Proof.
  intros Hb Pb HI. unfold refresh. destruct (kvs_eqb (snap it) b) eqn:E.
  - apply kvs_eqb_eq in E. split; [exact HI|split; [exact E|reflexivity]].
  - split; [|split; reflexivity]. apply invS_of_Inv. split; [exact Hb|]. split; [exact Pb|]. cbn [snap cur pend last].
    destruct (last it) as [| |k|k]; cbn [backend_seek].
    + rewrite (find_zero b Pb). split; [right; reflexivity|left; reflexivity].
    + split; [right; reflexivity|left; reflexivity].
    + split; reflexivity.
    + split; reflexivity.
Qed.

Lemma refresh_snap b it : snap (refresh b it) = b.
Proof. unfold refresh. destruct (kvs_eqb (snap it) b) eqn:E; [apply kvs_eqb_eq; exact E|reflexivity]. Qed.
Lemma refresh_idem b it : refresh b (refresh b it) = refresh b it.
Proof. apply refresh_same. apply refresh_snap. Qed.

Lemma iter_step_refresh fuel b o it d : allowed (last it) d ->
  iter_step fuel b o it d = iter_step fuel b o (refresh b it) d.
Proof.
  intros Ha. destruct fuel as [|f]; cbn [iter_step]; rewrite refresh_idem; [reflexivity|].
  assert (El : last (refresh b it) = last it) by (unfold refresh; destruct (kvs_eqb (snap it) b); reflexivity).
  rewrite El. destruct (last it), d; cbn [allowed] in Ha; try contradiction; reflexivity.
Qed.

Lemma cnt_le o d p : (cnt o d p <= length o)%nat.
Proof. unfold cnt. induction o as [|e o IH]; [cbn; lia|]. cbn [filter length]. destruct (pastb d p (fst e)); cbn [length]; lia. Qed.

Theorem merged_step_is_next b o it d fuel :
  sorted b -> positive_keys b -> ssorted o -> InvS it -> (length o < fuel)%nat ->
  let '(r, it') := iter_step fuel b o it d in
  nextP d (mlook b o) (last it) r /\ InvS it' /\
  last it' = (if allowedb (last it) d then resl r d else last it).
Proof.
  intros Hb Pb Ho HI Hf. destruct (allowedb (last it) d) eqn:Ea.
  - apply allowedb_spec in Ea. rewrite (iter_step_refresh fuel b o it d Ea).
    destruct (InvS_refresh b it Hb Pb HI) as (HR & Es & El).
    pose proof (merge_step b o Hb Pb Ho fuel (refresh b it) d Es HR) as H.
    rewrite El in H. specialize (H ltac:(pose proof (cnt_le o d (last it)); lia)).
    destruct (iter_step fuel b o (refresh b it) d) as [r it']. destruct H as (H1 & H2 & _ & H4).
    split; [exact H1|split; [exact H2|apply H4; exact Ea]].
  - destruct fuel as [|f]; [lia|]. cbn [iter_step].
    assert (Hna : ~ allowed (last it) d) by (intros H; apply allowedb_spec in H; congruence).
    destruct (last it) eqn:El, d; cbn [allowed] in Hna; try (exfalso; apply Hna; exact I);
      (split; [cbn [nextP past]; intros j []|split; [exact HI|exact El]]).
Qed.

(* ---- any sequence of calls; tree content and overlay may differ at every call ---- *)
Definition impl_call2 (b : kvs) (o : ovs) (it : iter) (c : icall) : option (N * N) * iter :=
  match c with
  | CSeek k => (None, iter_seek b it k)
  | CSeekLast => (None, iter_seek_last b it)
  | CNext => iter_step (S (length o)) b o it Fwd
  | CPrev => iter_step (S (length o)) b o it Bwd
  end.
Fixpoint impl_run2 (calls : list (kvs * ovs * icall)) (it : iter) : list (option (N * N)) :=
  match calls with
  | [] => []
  | (b, o, c) :: rest => let '(r, it') := impl_call2 b o it c in r :: impl_run2 rest it'
  end.

(* what the property prescribes: every next / prev returns THE nearest key beyond the position whose
   current value (overlay over tree) exists; the position then is that key, or the end that was hit *)
Inductive run_ok : lastkey -> list (kvs * ovs * icall) -> list (option (N * N)) -> Prop :=
| ro_nil p : run_ok p [] []
| ro_seek p b o k rest rs : run_ok (LSeeked k) rest rs -> run_ok p ((b, o, CSeek k) :: rest) (None :: rs)
| ro_seek_last p b o rest rs : run_ok LEnd rest rs -> run_ok p ((b, o, CSeekLast) :: rest) (None :: rs)
| ro_next p b o r rest rs : nextP Fwd (mlook b o) p r ->
    run_ok (if allowedb p Fwd then resl r Fwd else p) rest rs -> run_ok p ((b, o, CNext) :: rest) (r :: rs)
| ro_prev p b o r rest rs : nextP Bwd (mlook b o) p r ->
    run_ok (if allowedb p Bwd then resl r Bwd else p) rest rs -> run_ok p ((b, o, CPrev) :: rest) (r :: rs).

Theorem merged_iteration_is_spec calls : forall it,
  Forall (fun boc => sorted (fst (fst boc)) /\ positive_keys (fst (fst boc)) /\ ssorted (snd (fst boc))) calls ->
  InvS it -> run_ok (last it) calls (impl_run2 calls it).
Proof.
  induction calls as [|[[b o] c] calls IH]; intros it Hall HI; [constructor|].
  pose proof (Forall_inv Hall) as (Hb & Pb & Ho). pose proof (Forall_inv_tail Hall) as Hrest. cbn [fst snd] in Hb, Pb, Ho.
  cbn [impl_run2]. destruct c as [k| | |]; cbn [impl_call2].
  - apply ro_seek. apply (IH (iter_seek b it k) Hrest). apply invS_of_Inv. apply Inv_seek; assumption.
  - apply ro_seek_last. apply (IH (iter_seek_last b it) Hrest). apply invS_of_Inv. apply Inv_seek_last; assumption.
  - pose proof (merged_step_is_next b o it Fwd (S (length o)) Hb Pb Ho HI ltac:(lia)) as H.
    destruct (iter_step (S (length o)) b o it Fwd) as [r it']. destruct H as (H1 & H2 & H3).
    apply ro_next; [exact H1|]. rewrite <- H3. apply IH; assumption.
  - pose proof (merged_step_is_next b o it Bwd (S (length o)) Hb Pb Ho HI ltac:(lia)) as H.
    destruct (iter_step (S (length o)) b o it Bwd) as [r it']. destruct H as (H1 & H2 & H3).
    apply ro_prev; [exact H1|]. rewrite <- H3. apply IH; assumption.
Qed.

(* the prescription is unambiguous: two runs that both satisfy it return the same values *)
Theorem run_ok_unique calls : forall p rs1 rs2, run_ok p calls rs1 -> run_ok p calls rs2 -> rs1 = rs2.
Proof.
  induction calls as [|[[b o] c] calls IH]; intros p rs1 rs2 H1 H2; inversion H1; subst; inversion H2; subst; try reflexivity.
  - f_equal. eapply IH; eassumption.
  - f_equal. eapply IH; eassumption.
  - match goal with A : nextP Fwd _ p ?r1, B : nextP Fwd _ p ?r2 |- _ => pose proof (nextP_unique _ _ _ _ _ A B) as E end. subst.
    f_equal. eapply IH; eassumption.
  - match goal with A : nextP Bwd _ p ?r1, B : nextP Bwd _ p ?r2 |- _ => pose proof (nextP_unique _ _ _ _ _ A B) as E end. subst.
    f_equal. eapply IH; eassumption.
Qed.
