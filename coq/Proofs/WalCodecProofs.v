(* Proofs about the byte-level log model (Model/WalCodec.v): what a parsed record guarantees, that the
   fuel of the file scanner is enough, and what the replay applies for ARBITRARY file contents. *)
From Coq Require Import NArith List Bool Lia Arith.
From PDB Require Import Gen.Consts Model.WalCodec.
Import ListNotations.
Open Scope N_scope.

Lemma take_spec n b x y : take n b = Some (x, y) -> b = x ++ y /\ length x = n.
Proof.
  unfold take. destruct (Nat.leb_spec n (length b)) as [H|H]; [|discriminate].
  intros E. injection E as <- <-. split; [symmetry; apply firstn_skipn|apply firstn_length_le; exact H].
Qed.

(* ---- a parsed action is a non-empty prefix of the input ---- *)
Lemma parse_action_ok ncols b a r : parse_action ncols b = AOk a r -> exists pre, b = pre ++ r /\ (0 < length pre)%nat.
Proof.
  unfold parse_action. destruct b as [|op b]; [discriminate|].
  destruct (op =? log_end_record); [discriminate|].
  destruct ((op =? log_insert_index) || (op =? log_insert_ref_count)).
  { destruct (take 18 b) as [[h r1]|] eqn:T1; [|discriminate].
    destruct (ncols <=? _); [discriminate|].
    destruct ((op =? log_insert_index) && _); [discriminate|].
    destruct ((op =? log_insert_ref_count) && _); [discriminate|].
    destruct (take _ r1) as [[es r2]|] eqn:T2; [|discriminate].
    intros E. injection E as _ <-.
    apply take_spec in T1. apply take_spec in T2. destruct T1 as [-> _], T2 as [-> _].
    exists (op :: h ++ es). split; [cbn; rewrite <- app_assoc; reflexivity|cbn; lia]. }
  destruct (op =? log_insert_value).
  { destruct (take 10 b) as [[h r1]|] eqn:T1; [|discriminate].
    destruct (ncols <=? _); [discriminate|].
    destruct (negb _ && Nat.ltb _ _); [discriminate|].
    destruct (negb _ && _ && _); [discriminate|].
    destruct (value_len _ _ _) as [n|]; [|discriminate].
    destruct (take n r1) as [[p r2]|] eqn:T2; [|discriminate].
    intros E. injection E as _ <-.
    apply take_spec in T1. apply take_spec in T2. destruct T1 as [-> _], T2 as [-> _].
    exists (op :: h ++ p). split; [cbn; rewrite <- app_assoc; reflexivity|cbn; lia]. }
  destruct ((op =? log_drop_table) || (op =? log_drop_ref_count_table)); [|destruct (op =? log_begin_record); discriminate].
  destruct (take 2 b) as [[h r1]|] eqn:T1; [|discriminate].
  intros E. injection E as _ <-. apply take_spec in T1. destruct T1 as [-> _].
  exists (op :: h). split; [reflexivity|cbn; lia].
Qed.

Lemma parse_action_end ncols b r : parse_action ncols b = AEnd r -> b = log_end_record :: r.
Proof.
  unfold parse_action. destruct b as [|op b]; [discriminate|].
  destruct (N.eqb_spec op log_end_record) as [->|Hne].
  - intros E. injection E as <-. reflexivity.
  - destruct (_ || _).
    { destruct (take 18 b) as [[h r1]|]; [|discriminate]. destruct (ncols <=? _); [discriminate|].
      destruct (_ && _); [discriminate|]. destruct (_ && _); [discriminate|].
      destruct (take _ r1) as [[es r2]|]; discriminate. }
    destruct (op =? log_insert_value).
    { destruct (take 10 b) as [[h r1]|]; [|discriminate]. destruct (ncols <=? _); [discriminate|].
      destruct (_ && _); [discriminate|]. destruct (_ && _); [discriminate|].
      destruct (value_len _ _ _) as [n|]; [|discriminate]. destruct (take n r1) as [[p r2]|]; discriminate. }
    destruct (_ || _); [|destruct (op =? log_begin_record); discriminate]. destruct (take 2 b) as [[h r1]|]; discriminate.
Qed.

Lemma parse_actions_ok ncols fuel : forall b acc acts r,
  parse_actions ncols fuel b acc = Some (Some (acts, r)) -> exists pre, b = pre ++ log_end_record :: r.
Proof.
  induction fuel as [|f IH]; intros b acc acts r; cbn [parse_actions]; [discriminate|].
  destruct (parse_action ncols b) as [a r1|r1| |] eqn:E; try discriminate.
  - intros H. apply IH in H. destruct H as [pre ->].
    apply parse_action_ok in E. destruct E as [pre0 [-> Hp0]].
    exists (pre0 ++ pre). apply app_assoc.
  - intros H. injection H as _ <-. apply parse_action_end in E. subst b. exists []. reflexivity.
Qed.

(* ---- what an accepted record guarantees: complete, framed, checksum-valid ---- *)
Theorem parse_record_spec ncols b id acts len : parse_record ncols b = PRecord id acts len ->
  exists blen, len = (blen + 4)%nat /\ (9 < blen)%nat /\ (blen + 4 <= length b)%nat /\
    nth_error b 0 = Some log_begin_record /\
    id = unle (firstn 8 (skipn 1 b)) /\
    nth_error b (blen - 1) = Some log_end_record /\
    unle (firstn 4 (skipn blen b)) = crc32 (firstn blen b).
Proof.
  unfold parse_record. destruct b as [|op b]; [discriminate|].
  destruct (N.eqb_spec op log_begin_record) as [->|]; cbn [negb]; [|intros Hbad; repeat match type of Hbad with context [if ?c then _ else _] => destruct c end; discriminate].
  destruct (take 8 b) as [[idb r1]|] eqn:T1; [|discriminate].
  destruct (parse_actions ncols (S (length r1)) r1 []) as [[[a r2]|]|] eqn:PA; try discriminate.
  destruct (take 4 r2) as [[c r3]|] eqn:T2; [|discriminate].
  destruct (N.eqb_spec (unle c) (crc32 (firstn (length (log_begin_record :: b) - length r2) (log_begin_record :: b)))) as [Hc|]; [|discriminate].
  intros E. injection E as <- <- <-.
  apply take_spec in T1. destruct T1 as [-> Hl1].
  apply parse_actions_ok in PA. destruct PA as [pre ->].
  apply take_spec in T2. destruct T2 as [-> Hl2].
  set (whole := log_begin_record :: idb ++ (pre ++ log_end_record :: c ++ r3)) in *.
  assert (Hw : whole = (log_begin_record :: idb ++ pre) ++ log_end_record :: c ++ r3).
  { unfold whole. cbn [app]. rewrite <- app_assoc. reflexivity. }
  assert (Hl0 : length (log_begin_record :: idb ++ pre) = (9 + length pre)%nat) by (cbn [length]; rewrite app_length; lia).
  assert (Hlen : (length whole - length (c ++ r3) = 10 + length pre)%nat).
  { rewrite Hw, app_length, Hl0. cbn [length]. lia. }
  rewrite Hlen in Hc.
  assert (Hw2 : whole = ((log_begin_record :: idb ++ pre) ++ [log_end_record]) ++ c ++ r3).
  { rewrite Hw, <- app_assoc. reflexivity. }
  assert (Hl3 : length ((log_begin_record :: idb ++ pre) ++ [log_end_record]) = (10 + length pre)%nat) by (rewrite app_length, Hl0; cbn [length]; lia).
  assert (Hsk : skipn (10 + length pre) whole = c ++ r3).
  { rewrite Hw2, skipn_app, Hl3, Nat.sub_diag, skipn_all2 by lia. reflexivity. }
  exists (10 + length pre)%nat. split; [|split; [|split; [|split; [|split; [|split]]]]].
  - f_equal. exact Hlen.
  - lia.
  - rewrite Hw2, app_length, Hl3, app_length, Hl2. lia.
  - reflexivity.
  - unfold whole. cbn [skipn]. rewrite firstn_app, Hl1, Nat.sub_diag, firstn_O, app_nil_r, <- Hl1, firstn_all. reflexivity.
  - rewrite Hw. replace (10 + length pre - 1)%nat with (length (log_begin_record :: idb ++ pre) + 0)%nat by lia.
    rewrite nth_error_app2 by lia. replace (_ + 0 - _)%nat with O by lia. reflexivity.
  - rewrite Hsk. rewrite firstn_app, Hl2, Nat.sub_diag, firstn_O, app_nil_r, firstn_all2 by lia. exact Hc.
Qed.

(* ---- the file scanner: an independent description, and the fuel is enough ---- *)
Inductive frecs (ncols : N) : bytes -> list (N * list action) -> fend -> Prop :=
| fr_eof b : parse_record ncols b = PEof -> frecs ncols b [] FEof
| fr_bad b : parse_record ncols b = PInvalid -> frecs ncols b [] FBad
| fr_cut b id : parse_record ncols b = PCut id -> frecs ncols b [] (FCut id)
| fr_rec b id acts len rs bad : parse_record ncols b = PRecord id acts len ->
    frecs ncols (skipn len b) rs bad -> frecs ncols b ((id, acts) :: rs) bad.

Lemma file_records_spec ncols fuel : forall b, (length b < fuel)%nat ->
  frecs ncols b (fst (file_records ncols fuel b)) (snd (file_records ncols fuel b)).
Proof.
  induction fuel as [|f IH]; intros b Hf; [lia|]. cbn [file_records].
  destruct (parse_record ncols b) as [id acts len| | |id] eqn:E.
  - destruct (file_records ncols f (skipn len b)) as [rs bad] eqn:F. cbn [fst snd].
    eapply fr_rec; [exact E|].
    assert (Hs : (length (skipn len b) < f)%nat).
    { apply parse_record_spec in E. destruct E as [blen [-> [H9 [Hle _]]]]. rewrite skipn_length. lia. }
    specialize (IH _ Hs). rewrite F in IH. exact IH.
  - apply fr_eof. exact E.
  - apply fr_bad. exact E.
  - apply fr_cut. exact E.
Qed.

(* ---- the replay over arbitrary files ---- *)
Fixpoint consec (e : N) (l : list N) : Prop :=
  match l with [] => True | x :: r => x = e /\ consec ((x + 1) mod 2 ^ 64) r end.

Lemma consec_app e a b e' : consec e a -> (match a with [] => e' = e | _ => e' = (last a 0 + 1) mod 2 ^ 64 end) ->
  consec e' b -> consec e (a ++ b).
Proof.
  revert e. induction a as [|x a IH]; intros e Ha He Hb; cbn [app].
  - subst e'. exact Hb.
  - cbn [consec] in *. destruct Ha as [-> Ha]. split; [reflexivity|]. apply IH; [exact Ha| |exact Hb].
    destruct a as [|y a]; [exact He|]. exact He.
Qed.

Lemma replay_recs_spec rs : forall e l o, replay_recs rs e = (l, o) ->
  consec e l /\ (exists n, l = firstn n (map fst rs)) /\
  match o with
  | Some e' => l = map fst rs /\ (match l with [] => e' = e | _ => e' = (last l 0 + 1) mod 2 ^ 64 end)
  | None => True
  end.
Proof.
  induction rs as [|[id acts] rs IH]; intros e l o; cbn [replay_recs].
  - intros E. injection E as <- <-. cbn. split; [exact I|]. split; [exists O; reflexivity|]. split; reflexivity.
  - destruct (N.eqb_spec id e) as [->|Hne].
    + destruct (replay_recs rs ((e + 1) mod 2 ^ 64)) as [l1 o1] eqn:R. intros E. injection E as <- <-.
      destruct (IH _ _ _ R) as [Hc [[n Hn] Ho]]. cbn [consec map fst].
      split; [split; [reflexivity|exact Hc]|]. split; [exists (S n); cbn [firstn]; rewrite <- Hn; reflexivity|].
      destruct o1 as [e'|]; [|exact I]. destruct Ho as [Hl He]. split; [rewrite Hl; reflexivity|].
      destruct l1 as [|y l1]; [cbn [last]; exact He|]. exact He.
    + intros E. injection E as <- <-. cbn. split; [exact I|]. split; [exists O; reflexivity|exact I].
Qed.

(* the records a replay may look at: every file up to and including the first one that ends in an
   invalid record *)
Fixpoint upto_bad (files : list (list (N * list action) * fend)) : list (N * list action) :=
  match files with
  | [] => []
  | (rs, t) :: rest => match t with FBad => rs | _ => rs ++ upto_bad rest end
  end.

Lemma firstn_prefix_app {A} n (a b : list A) : exists m, firstn n a = firstn m (a ++ b).
Proof.
  exists (Nat.min n (length a)). rewrite firstn_app.
  replace (Nat.min n (length a) - length a)%nat with O by lia. rewrite firstn_O, app_nil_r.
  destruct (Nat.le_ge_cases n (length a)) as [H|H].
  - rewrite Nat.min_l by exact H. reflexivity.
  - rewrite Nat.min_r by exact H. rewrite !firstn_all2 by lia. reflexivity.
Qed.

Theorem replay_files_spec files : forall e,
  consec e (replay_files files e) /\ exists n, replay_files files e = firstn n (map fst (upto_bad files)).
Proof.
  induction files as [|[rs t] rest IH]; intros e; cbn [replay_files upto_bad].
  - split; [exact I|exists O; reflexivity].
  - destruct (replay_recs rs e) as [l o] eqn:R. destruct (replay_recs_spec _ _ _ _ R) as [Hc [[n Hn] Ho]].
    assert (Hpre : forall k, exists m, firstn k (map fst rs) = firstn m (map fst (match t with FBad => rs | _ => rs ++ upto_bad rest end))).
    { intros k. destruct t; try (rewrite map_app; apply firstn_prefix_app). exists k; reflexivity. }
    destruct o as [e'|].
    + destruct Ho as [Hl He]. destruct (goes_on t e') eqn:G.
      * destruct (IH e') as [Hc' [m Hm]]. split.
        { eapply consec_app; [exact Hc|exact He|exact Hc']. }
        assert (Hm2 : l ++ replay_files rest e' = firstn (length rs + m) (map fst (rs ++ upto_bad rest))).
        { rewrite map_app, firstn_app, map_length.
          rewrite firstn_all2 by (rewrite map_length; lia).
          replace (length rs + m - length rs)%nat with m by lia. rewrite Hl, Hm. reflexivity. }
        destruct t; try (eexists; exact Hm2). discriminate G.
      * split; [exact Hc|]. rewrite Hl. destruct (Hpre (length rs)) as [m Hm]. exists m. rewrite <- Hm.
        rewrite firstn_all2 by (rewrite map_length; lia). reflexivity.
    + split; [exact Hc|]. rewrite Hn. apply Hpre.
Qed.

(* nothing of a later file is applied once a file ended in an invalid record *)
Theorem replay_stops_at_invalid pre rs post e :
  replay_files (pre ++ (rs, FBad) :: post) e = replay_files (pre ++ [(rs, FBad)]) e.
Proof.
  revert e. induction pre as [|[rs0 bad0] pre IH]; intros e; cbn [app replay_files].
  - destruct (replay_recs rs e) as [l [e'|]]; reflexivity.
  - destruct (replay_recs rs0 e) as [l [e'|]]; [|reflexivity]. destruct (goes_on bad0 e'); [|reflexivity]. rewrite IH. reflexivity.
Qed.

(* a record whose header was read is judged by its id before anything else: out of sequence, the whole
   replay stops there, whatever the later files hold *)
Theorem replay_stops_at_out_of_sequence_header rs id post e l e' :
  replay_recs rs e = (l, Some e') -> id <> e' -> replay_files ((rs, FCut id) :: post) e = l.
Proof.
  intros R Hne. cbn [replay_files]. rewrite R. cbn [goes_on]. destruct (N.eqb_spec id e'); [contradiction|reflexivity].
Qed.

(* every record the scanner hands to the replay is a complete, framed, checksum-valid record found
   back to back from the start of its file *)
Inductive framed (ncols : N) : bytes -> list (N * list action) -> Prop :=
| framed_nil b : framed ncols b []
| framed_cons b id acts rs blen :
    (9 < blen)%nat -> (blen + 4 <= length b)%nat ->
    nth_error b 0 = Some log_begin_record -> id = unle (firstn 8 (skipn 1 b)) ->
    nth_error b (blen - 1) = Some log_end_record ->
    unle (firstn 4 (skipn blen b)) = crc32 (firstn blen b) ->
    framed ncols (skipn (blen + 4) b) rs -> framed ncols b ((id, acts) :: rs).

Lemma frecs_framed ncols b rs bad : frecs ncols b rs bad -> framed ncols b rs.
Proof.
  induction 1 as [b H|b H|b id0 H|b id acts len rs bad H Hr IH]; try apply framed_nil.
  apply parse_record_spec in H. destruct H as [blen [-> [H9 [Hle [Hb [Hid [He Hc]]]]]]].
  eapply framed_cons; eassumption.
Qed.

Theorem file_records_framed ncols b : framed ncols b (fst (file_records ncols (S (length b)) b)).
Proof. eapply frecs_framed. apply file_records_spec. lia. Qed.

(* ---- the whole replay, from raw file contents ---- *)
Lemma insert_by_id_in b x l : In b (insert_by_id x l) -> b = x \/ In b l.
Proof.
  induction l as [|y l IHl]; cbn [insert_by_id]; intros H0.
  - destruct H0 as [<-|[]]. left; reflexivity.
  - destruct (first_id x <? first_id y).
    + destruct H0 as [<-|H0]; [left; reflexivity|right; exact H0].
    + destruct H0 as [<-|H0]; [right; left; reflexivity|]. apply IHl in H0. destruct H0; [left; assumption|right; right; assumption].
Qed.

Lemma fold_insert_in b : forall fl acc, In b (fold_left (fun acc b => insert_by_id b acc) fl acc) -> In b fl \/ In b acc.
Proof.
  induction fl as [|x fl IH]; intros acc H; cbn [fold_left] in H; [right; exact H|].
  apply IH in H. destruct H as [H|H]; [left; right; exact H|].
  apply insert_by_id_in in H. destruct H as [->|H]; [left; left; reflexivity|right; exact H].
Qed.

Lemma order_logs_in b logs : In b (order_logs logs) -> In b logs /\ (9 <= length b)%nat.
Proof.
  unfold order_logs. intros H. apply fold_insert_in in H. destruct H as [H|[]].
  apply filter_In in H. destruct H as [H1 H2]. split; [exact H1|]. apply Nat.leb_le. exact H2.
Qed.

Definition scanned (ncols : N) (logs : list bytes) := map (fun b => file_records ncols (S (length b)) b) (order_logs logs).

Theorem replay_ids_sound ncols logs :
  (* consecutively numbered, starting from the id the first file announces *)
  (match order_logs logs with [] => replay_ids ncols logs = [] | b :: _ => consec (first_id b) (replay_ids ncols logs) end) /\
  (* a prefix of the records found before the end of the first file that ends in an invalid record *)
  (exists n, replay_ids ncols logs = firstn n (map fst (upto_bad (scanned ncols logs)))) /\
  (* each of which is complete, framed and checksum-valid, found in one of the given files *)
  Forall (fun f => exists b, In b logs /\ framed ncols b (fst f)) (scanned ncols logs).
Proof.
  unfold replay_ids, scanned. split; [|split].
  - destruct (order_logs logs) as [|b rest] eqn:E; [reflexivity|]. rewrite <- E. apply replay_files_spec.
  - destruct (order_logs logs) as [|b rest] eqn:E; [exists O; reflexivity|]. rewrite <- E. apply replay_files_spec.
  - apply Forall_forall. intros f Hf. apply in_map_iff in Hf. destruct Hf as [b [<- Hb]].
    exists b. split; [apply (order_logs_in _ _ Hb)|apply file_records_framed].
Qed.
