From Coq Require Import Arith List Bool Lia.
From PDB Require Import Model.Workers.
Import ListNotations.

(* no lost wake-up: whenever work is pending (or shutdown was requested) the worker is not going to
   sleep for ever *)
Definition Safe (s : wk) : Prop :=
  (pending s > 0 -> flag s = true \/ pc s = Working \/ (pc s = Idle /\ more s = true) \/ pc s = Done) /\
  (sd s = true -> flag s = true \/ pc s = Working \/ pc s = Idle \/ pc s = Done).

Lemma safe_init : Safe winit.
Proof. split; cbn; intros H; [lia|discriminate]. Qed.

Lemma safe_produce s : Safe s -> Safe (produce s).
Proof. intros [H1 H2]. split; cbn; intros _; left; reflexivity. Qed.

Lemma safe_shutdown s : Safe s -> Safe (shutdown s).
Proof. intros [H1 H2]. split; cbn; intros _; left; reflexivity. Qed.

Lemma safe_worker s s' : Safe s -> wnext s = Some s' -> Safe s'.
Proof.
  intros [H1 H2]. unfold wnext. destruct (pc s) eqn:Ep.
  - (* Idle *)
    destruct (sd s && negb (more s)) eqn:E1.
    + intros E. injection E as <-. split; cbn; intros _; right; right; right; reflexivity.
    + destruct (more s) eqn:Em; intros E; injection E as <-; split; cbn.
      * intros _. right. left. reflexivity.
      * intros _. right. left. reflexivity.
      * intros Hp. destruct (H1 Hp) as [F|[F|[[_ F]|F]]]; [left; exact F|discriminate|discriminate|discriminate].
      * intros Hs. rewrite Hs in E1. cbn in E1. discriminate.
  - (* Waiting *)
    destruct (flag s) eqn:Ef; [|discriminate]. intros E. injection E as <-. split; cbn; intros _; right; left; reflexivity.
  - (* Working *)
    destruct (pending s) as [|n] eqn:Epn; intros E; injection E as <-; split; cbn.
    + intros Hp. lia.
    + intros _. right. right. left. reflexivity.
    + intros _. right. right. left. split; reflexivity.
    + intros _. right. right. left. reflexivity.
  - discriminate.
Qed.

Lemma safe_arun l : forall s, Safe s -> Safe (arun s l).
Proof.
  induction l as [|a l IH]; intros s Hs; [exact Hs|]. cbn [arun]. apply IH.
  destruct a; cbn [astep]; [apply safe_produce|apply safe_shutdown|]; try exact Hs.
  destruct (wnext s) as [s'|] eqn:E; [eapply safe_worker; eassumption|exact Hs].
Qed.

(* never blocked while there is work or a shutdown request *)
Theorem never_blocked s : Safe s -> (pending s > 0 \/ sd s = true) -> pc s <> Done -> wnext s <> None.
Proof.
  intros [H1 H2] Hw Hd. unfold wnext. destruct (pc s) eqn:Ep.
  - destruct (sd s && negb (more s)); [discriminate|]. destruct (more s); discriminate.
  - assert (Hf : flag s = true).
    { destruct Hw as [Hp|Hs]; [destruct (H1 Hp) as [F|[F|[[F _]|F]]]|destruct (H2 Hs) as [F|[F|[F|F]]]]; try exact F; discriminate. }
    rewrite Hf. discriminate.
  - destruct (pending s); discriminate.
  - contradiction Hd. reflexivity.
Qed.

(* ---- progress: three moves of the worker, however the producer and the shutdown request are
   interleaved with them, serve a unit of work if one was pending ---- *)
Lemma served_mono_step s a : served s <= served (match astep s a with Some s' => s' | None => s end).
Proof.
  destruct a; cbn [astep produce shutdown served]; try lia.
  unfold wnext. destruct (pc s).
  - destruct (sd s && negb (more s)); [cbn; lia|]. destruct (more s); cbn; lia.
  - destruct (flag s); cbn; lia.
  - destruct (pending s); cbn; lia.
  - lia.
Qed.
Lemma served_mono l : forall s, served s <= served (arun s l).
Proof.
  induction l as [|a l IH]; intros s; [cbn; lia|]. cbn [arun]. eapply Nat.le_trans; [apply served_mono_step|apply IH].
Qed.

Lemma pending_pos_env s a : a <> AWorker -> pending s > 0 -> pending (match astep s a with Some s' => s' | None => s end) > 0.
Proof. destruct a; cbn; intros H Hp; try lia. contradiction H. reflexivity. Qed.

(* a measure of how far the worker is from serving: Working 0, Waiting 1 (it will be woken), Idle 1 or 2 *)
Definition dist (s : wk) : nat := match pc s with Working => 0 | Waiting => 1 | Idle => if more s then 1 else 2 | Done => 3 end.

Lemma wnext_sd s s' : wnext s = Some s' -> sd s' = sd s.
Proof.
  unfold wnext. destruct (pc s).
  - destruct (sd s && negb (more s)); [intros E; injection E as <-; reflexivity|]. destruct (more s); intros E; injection E as <-; reflexivity.
  - destruct (flag s); [intros E; injection E as <-; reflexivity|discriminate].
  - destruct (pending s); intros E; injection E as <-; reflexivity.
  - discriminate.
Qed.

Lemma progress_gen l : forall s, Safe s -> pending s > 0 -> sd s = false -> pc s <> Done -> ~ In AShutdown l ->
  count_worker l >= dist s + 1 -> served (arun s l) > served s.
Proof.
  induction l as [|a l IH]; intros s Hs Hp Hsd Hd Hns Hc; [cbn in Hc; lia|].
  assert (Hns' : ~ In AShutdown l) by (intros H; apply Hns; right; exact H).
  destruct a.
  - (* produce *)
    cbn [arun astep]. change (served s) with (served (produce s)).
    apply IH; [apply safe_produce; exact Hs|cbn; lia|exact Hsd|exact Hd|exact Hns'|exact Hc].
  - contradiction Hns. left. reflexivity.
  - cbn [arun astep]. cbn [count_worker filter length] in Hc. fold (count_worker l) in Hc.
    pose proof (never_blocked s Hs (or_introl Hp) Hd) as Hnb.
    destruct (wnext s) as [s'|] eqn:E; [|contradiction Hnb; reflexivity].
    pose proof (safe_worker s s' Hs E) as Hs'. pose proof (wnext_sd s s' E) as Hsd'. rewrite Hsd in Hsd'.
    unfold wnext in E. unfold dist in Hc. destruct (pc s) eqn:Ep.
    + (* Idle *)
      rewrite Hsd in E. cbn [andb] in E. destruct (more s) eqn:Em; injection E as <-.
      * match goal with |- served (arun ?x l) > _ => assert (G : served (arun x l) > served x) by (apply IH; unfold dist; cbn; try assumption; try discriminate; try lia); cbn [served] in G; exact G end.
      * match goal with |- served (arun ?x l) > _ => assert (G : served (arun x l) > served x) by (apply IH; unfold dist; cbn; try assumption; try discriminate; try lia); cbn [served] in G; exact G end.
    + (* Waiting *)
      destruct (flag s) eqn:Ef; [|discriminate]. injection E as <-.
      match goal with |- served (arun ?x l) > _ => assert (G : served (arun x l) > served x) by (apply IH; unfold dist; cbn; try assumption; try discriminate; try lia); cbn [served] in G; exact G end.
    + (* Working *)
      destruct (pending s) as [|n] eqn:Epn; [lia|]. injection E as <-.
      eapply Nat.lt_le_trans; [|apply served_mono]. cbn. lia.
    + contradiction Hd. reflexivity.
Qed.

(* three moves of the worker - however the producer's moves are interleaved with them - serve a unit
   of work, if one was pending and no shutdown was requested *)
Theorem progress l s : Safe s -> pending s > 0 -> sd s = false -> pc s <> Done -> ~ In AShutdown l ->
  count_worker l >= 3 -> served (arun s l) > served s.
Proof.
  intros Hs Hp Hsd Hd Hns Hc. apply progress_gen; try assumption.
  unfold dist. destruct (pc s); [destruct (more s)| | |]; try lia. congruence.
Qed.

(* shutdown terminates: once shutdown is requested the worker is never blocked, and it leaves its loop
   as soon as its stage reports no more work *)
Theorem shutdown_not_blocked s : Safe s -> sd s = true -> pc s <> Done -> wnext s <> None.
Proof. intros Hs Hsd. apply never_blocked; [exact Hs|right; exact Hsd]. Qed.

Lemma shutdown_exits s : sd s = true -> pc s = Idle -> more s = false ->
  exists s', wnext s = Some s' /\ pc s' = Done.
Proof. intros Hsd Hp Hm. unfold wnext. rewrite Hp, Hsd, Hm. cbn. eexists. split; reflexivity. Qed.

(* and with nothing pending it is out of its loop after at most four moves *)
Fixpoint wmoves (n : nat) (s : wk) : wk :=
  match n with O => s | S n' => match wnext s with Some s' => wmoves n' s' | None => s end end.

Theorem shutdown_terminates s : Safe s -> sd s = true -> pending s = 0 -> pc (wmoves 4 s) = Done.
Proof.
  intros [H1 H2] Hsd Hp. specialize (H2 Hsd).
  destruct s as [pn fl c mo sdd sv]. cbn in *. subst pn sdd.
  destruct c; cbn.
  - destruct mo; cbn; reflexivity.
  - destruct H2 as [F|[F|[F|F]]]; try discriminate. subst fl. cbn. reflexivity.
  - cbn. reflexivity.
  - reflexivity.
Qed.
