From Coq Require Import NArith List Bool Lia Arith.
From PDB Require Import Model.MultiTree.
Import ListNotations.
Open Scope N_scope.

(* ---- node packing ---- *)
Lemma le8_length n : forall x, length (le8 n x) = n.
Proof. induction n as [|n IH]; intros x; cbn [le8 length]; [reflexivity|]. rewrite IH. reflexivity. Qed.
Lemma unle_le8 n : forall x, x < 256 ^ N.of_nat n -> unle (le8 n x) = x.
Proof.
  induction n as [|n IH]; intros x H; cbn [le8 unle]; [cbn in H; lia|].
  rewrite IH.
  - pose proof (N.div_mod x 256 ltac:(lia)). lia.
  - rewrite Nat2N.inj_succ, N.pow_succ_r' in H. apply N.div_lt_upper_bound; lia.
Qed.

Lemma firstn_len_app {A} n (a b : list A) : length a = n -> firstn n (a ++ b) = a.
Proof. intros <-. rewrite firstn_app, Nat.sub_diag, firstn_O, app_nil_r. apply firstn_all. Qed.
Lemma skipn_len_app {A} n (a b : list A) : length a = n -> skipn n (a ++ b) = b.
Proof. intros <-. rewrite skipn_app, Nat.sub_diag, skipn_all. reflexivity. Qed.

Lemma chunks8_flat cs : Forall (fun c => c < 2^64) cs -> forall rest,
  chunks8 (length cs) (flat_map (le8 8) cs ++ rest) = cs.
Proof.
  induction cs as [|c cs IH]; intros H rest; cbn [length chunks8 flat_map]; [reflexivity|].
  inversion H as [|? ? Hc Hcs]; subst. rewrite <- app_assoc.
  assert (L : length (le8 8 c) = 8%nat) by apply le8_length.
  rewrite (firstn_len_app 8 _ _ L), (skipn_len_app 8 _ _ L).
  rewrite unle_le8 by exact Hc. rewrite IH by exact Hcs. reflexivity.
Qed.

Lemma flat_le8_length cs : length (flat_map (le8 8) cs) = (8 * length cs)%nat.
Proof. induction cs as [|c cs IH]; cbn [flat_map length]; [reflexivity|]. rewrite app_length, le8_length, IH. lia. Qed.

Theorem pack_roundtrip data cs : (length cs <= 255)%nat -> Forall (fun c => c < 2^64) cs ->
  unpack_node (pack_node data cs) = Some (data, cs).
Proof.
  intros Hn Hc. unfold unpack_node, pack_node.
  rewrite !rev_app_distr. cbn [rev app]. rewrite Nat2N.id.
  rewrite !app_length, flat_le8_length. cbn [length].
  replace (Nat.ltb (length data + (8 * length cs + 1)) (8 * length cs + 1))%nat with false by (symmetry; apply Nat.ltb_ge; lia).
  replace (length data + (8 * length cs + 1) - (8 * length cs + 1))%nat with (length data) by lia.
  rewrite (firstn_len_app (length data) data _ eq_refl), (skipn_len_app (length data) data _ eq_refl).
  rewrite chunks8_flat by exact Hc. reflexivity.
Qed.

(* ---- a node that cannot be represented is rejected before anything is changed ---- *)
Theorem unrepresentable_rejected cf s k t rest :
  255 < max_fanout t ->
  mcommit_tx cf s (UInsertTree k t :: rest) = (s, 1).
Proof.
  intros H. unfold mcommit_tx. cbn [static_code]. apply N.ltb_lt in H. rewrite H. reflexivity.
Qed.

(* ---- a locked tree: the commit that dereferences it is not applied ---- *)
Definition store_eq (a b : mstate) : Prop :=
  roots a = roots b /\ nodes a = nodes b /\ nrc a = nrc b /\ kv a = kv b.

Lemma to_overlay_store cf cid items : forall s, store_eq (to_overlay cf cid items s) s.
Proof.
  unfold store_eq. induction items as [|it items IH]; intros s; cbn [to_overlay]; [repeat split|].
  destruct (IH (match it with
     | MRootSet k n => {| roots := roots s; nodes := nodes s; nrc := nrc s; kv := kv s; rov := aput (rov s) k (cid, Some n); aov := aov s; kvov := kvov s;
                          mqueue := mqueue s; mcid := mcid s; next_id := next_id s; locked := locked s; readers := readers s; to_deref := to_deref s |}
     | MNewValue id n => {| roots := roots s; nodes := nodes s; nrc := nrc s; kv := kv s; rov := rov s; aov := aput (aov s) id (cid, n); kvov := kvov s;
                            mqueue := mqueue s; mcid := mcid s; next_id := next_id s; locked := locked s; readers := readers s; to_deref := to_deref s |}
     | MKvSet k v => {| roots := roots s; nodes := nodes s; nrc := nrc s; kv := kv s; rov := rov s; aov := aov s; kvov := aput (kvov s) k (cid, Some v);
                        mqueue := mqueue s; mcid := mcid s; next_id := next_id s; locked := locked s; readers := readers s; to_deref := to_deref s |}
     | MKvDel k => {| roots := roots s; nodes := nodes s; nrc := nrc s; kv := kv s; rov := rov s; aov := aov s; kvov := aput (kvov s) k (cid, None);
                      mqueue := mqueue s; mcid := mcid s; next_id := next_id s; locked := locked s; readers := readers s; to_deref := to_deref s |}
     | _ => s end)) as (H1 & H2 & H3 & H4).
  rewrite H1, H2, H3, H4. destruct it; repeat split.
Qed.

Lemma clean_ov_store cid items : forall s, store_eq (clean_ov cid items s) s.
Proof.
  unfold store_eq. induction items as [|it items IH]; intros s; cbn [clean_ov]; [repeat split|].
  match goal with |- context [clean_ov cid items ?x] => destruct (IH x) as (H1 & H2 & H3 & H4) end.
  rewrite H1, H2, H3, H4. destruct it; repeat split.
Qed.

Theorem locked_tree_stable cf s c rest k :
  mqueue s = c :: rest -> mc_check c = true -> In k (deref_keys (mc_items c)) -> amem (locked s) k = true ->
  store_eq (mprocess cf s) s /\ locked (mprocess cf s) = locked s
  /\ exists c', In c' (mqueue (mprocess cf s)) /\ mc_items c' = mc_items c.
Proof.
  intros Hq Hc Hin Hl. unfold mprocess. rewrite Hq.
  assert (Hd : must_defer s c rest = true).
  { unfold must_defer. rewrite Hc. cbn [andb]. apply existsb_exists. exists k. split; [exact Hin|]. rewrite Hl. reflexivity. }
  rewrite Hd. destruct rest as [|c2 rest'].
  - split; [repeat split|]. split; [reflexivity|]. exists c. split; [left; reflexivity|reflexivity].
  - set (s1 := to_overlay cf (mcid s + 1) (mc_items c) s).
    set (s2 := clean_ov (mc_id c) (mc_items c) s1).
    pose proof (to_overlay_store cf (mcid s + 1) (mc_items c) s) as (A1 & A2 & A3 & A4).
    pose proof (clean_ov_store (mc_id c) (mc_items c) s1) as (B1 & B2 & B3 & B4).
    fold s1 in A1, A2, A3, A4. fold s2 in B1, B2, B3, B4.
    split; [unfold store_eq; cbn [roots nodes nrc kv]; repeat split; congruence|].
    split.
    + cbn [locked].
      assert (L1 : forall items s0, locked (to_overlay cf (mcid s + 1) items s0) = locked s0).
      { induction items as [|it items IH]; intros s0; cbn [to_overlay]; [reflexivity|]. rewrite IH. destruct it; reflexivity. }
      assert (L2 : forall items s0, locked (clean_ov (mc_id c) items s0) = locked s0).
      { induction items as [|it items IH]; intros s0; cbn [clean_ov]; [reflexivity|]. rewrite IH. destruct it; reflexivity. }
      unfold s2, s1. rewrite L2, L1. reflexivity.
    + eexists. split; [cbn [mqueue]; apply in_or_app; right; left; reflexivity|reflexivity].
Qed.

(* ---- deferral does NOT keep commit order (finding F4): witness ---- *)
Definition f4_cfg : mcfg := {| m_rc := false; m_append_only := false |}.
Definition f4_history : mstate :=
  let s0 := fst (mcommit_tx f4_cfg minit [UInsertTree 0 (TNode 7 [TNew (TNode 8 [])])]) in
  let s1 := mprocess f4_cfg s0 in
  let s2 := mlock s1 0 in
  let s3 := fst (mcommit_tx f4_cfg s2 [UDerefTree 0; UKvSet 5 111]) in      (* T1 *)
  let s4 := fst (mcommit_tx f4_cfg s3 [UKvSet 5 222]) in                     (* T2, returns after T1 *)
  let s5 := mprocess f4_cfg s4 in          (* T1 deferred behind T2 *)
  let s6 := mprocess f4_cfg s5 in          (* T2 *)
  let s7 := munlock s6 0 in
  mprocess f4_cfg s7.                      (* T1 *)

Theorem order_preserved_refuted : get_kv f4_history 5 = Some 111 /\ mqueue f4_history = [].
Proof. vm_compute. split; reflexivity. Qed.
