(* C06 + C14 composed: a value written into the slots the allocator hands out - for a new value (alloc_chain) or
   for a value that replaces another one in place (areplace: the old chain reused, extended from the free list
   or cut) - reads back exactly, in every reachable table, whatever the other slots hold. The chain theorems of
   ValueTableProofs.v ask for a duplicate-free slot list without slot 0 that is long enough; the partition
   invariant of TableChainProofs.v says that is what the allocator delivers, and [parts_needed] says how long. *)
From Coq Require Import NArith List Bool Arith Lia Permutation.
From PDB Require Import Gen.Consts Model.ValueTable Proofs.ValueTableProofs
  Model.StorageCheck Proofs.StorageCheckProofs Model.TableAlloc Proofs.TableAllocProofs Proofs.TableChainProofs.
Import ListNotations.
Open Scope N_scope.

(* ---- the chain theorems with exactly as many slots as the value needs ---- *)
Lemma read_tail_exact mp es c : 10 < es -> forall fuel payload idxs T,
  (length payload < fuel)%nat -> (parts_needed fuel es 0 (N.of_nat (length payload)) <= length idxs)%nat -> ~ In 0 idxs ->
  agrees T (write_chain fuel es false c [] payload idxs) ->
  exists b, read_chain fuel mp T (hd 0 idxs) false = Some (b, payload).
Proof.
  intros Hes. unfold table_size_size, table_index_size.
  induction fuel as [|f IH]; intros payload idxs T Hf Hi H0 Hag; [lia|].
  cbn [parts_needed] in Hi. unfold table_size_size, table_index_size in Hi. rewrite N.add_0_l in Hi.
  destruct idxs as [|idx more]; [cbn [length] in Hi; destruct (es - 2 <? N.of_nat (length payload)); lia|].
  cbn [write_chain app length hd] in *. unfold table_size_size, table_index_size in Hag.
  destruct (es - 2 <? N.of_nat (0 + length payload)) eqn:E.
  - pose proof E as E'. apply N.ltb_lt in E. cbn [Nat.add] in E'. rewrite E' in Hi.
    set (take := (N.to_nat (es - 2 - 8) - 0)%nat) in *.
    assert (Htake : (0 < take)%nat) by (unfold take; lia).
    assert (Hlen : (take < length payload)%nat) by (unfold take; lia).
    cbn [read_chain]. rewrite (Hag idx (SPart (hd 0 more) (firstn take payload))) by (left; reflexivity).
    cbn [app].
    destruct (IH (skipn take payload) more T) as [b Hb].
    + rewrite skipn_length. lia.
    + rewrite skipn_length. replace (N.of_nat (length payload - take)) with (N.of_nat (length payload) - (es - 2 - 8)) by (unfold take; lia). lia.
    + intros Hin. apply H0. right. exact Hin.
    + intros i s Hin. apply Hag. right. exact Hin.
    + rewrite Hb. exists false. rewrite firstn_skipn. reflexivity.
  - cbn [read_chain]. rewrite (Hag idx (SFull c payload)) by (left; reflexivity).
    destruct mp; cbn [andb]; exists c; reflexivity.
Qed.

Theorem chain_roundtrip_multipart_exact es c prefix payload idxs T fuel :
  10 + N.of_nat (length prefix) < es -> es - 2 < N.of_nat (length prefix + length payload) ->
  (length payload + 1 < fuel)%nat ->
  (parts_needed fuel es (N.of_nat (length prefix)) (N.of_nat (length payload)) <= length idxs)%nat -> NoDup idxs -> ~ In 0 idxs ->
  read_chain fuel true (tbl_put T (write_chain fuel es true c prefix payload idxs)) (hd 0 idxs) true
  = Some (c, prefix ++ payload).
Proof.
  intros Hes Hbig Hf Hi Hnd H0.
  assert (Hag : agrees (tbl_put T (write_chain fuel es true c prefix payload idxs)) (write_chain fuel es true c prefix payload idxs)).
  { apply tbl_put_agrees. destruct (write_chain_fst fuel es true c prefix payload idxs) as [k ->]. apply NoDup_firstn. exact Hnd. }
  set (T' := tbl_put T _) in *. clearbody T'.
  destruct fuel as [|f]; [lia|]. cbn [parts_needed] in Hi. unfold table_size_size, table_index_size in Hi.
  replace (es - 2 <? N.of_nat (length prefix) + N.of_nat (length payload)) with true in Hi by (symmetry; apply N.ltb_lt; lia).
  destruct idxs as [|idx more]; [cbn in Hi; lia|].
  cbn [write_chain hd] in *. unfold table_size_size, table_index_size in *.
  replace (es - 2 <? N.of_nat (length prefix + length payload)) with true in Hag by (symmetry; apply N.ltb_lt; exact Hbig).
  set (take := (N.to_nat (es - 2 - 8) - length prefix)%nat) in *.
  cbn [read_chain]. rewrite (Hag idx (SHead c (hd 0 more) (prefix ++ firstn take payload))) by (left; reflexivity).
  destruct (read_tail_exact true es c ltac:(lia) f (skipn take payload) more T') as [b Hb].
  - rewrite skipn_length. lia.
  - rewrite skipn_length. cbn [length] in Hi.
    replace (N.of_nat (length payload - take)) with (N.of_nat (length prefix) + N.of_nat (length payload) - (es - 2 - 8)) by (unfold take; lia). lia.
  - intros Hin. apply H0. right. exact Hin.
  - intros i s Hin. apply Hag. right. exact Hin.
  - rewrite Hb. rewrite <- app_assoc, firstn_skipn. reflexivity.
Qed.

(* ---- what the allocator hands out ---- *)
Lemma indices_no_zero d : ~ In 0 (indices d).
Proof. unfold indices. intros H. apply in_map_iff in H as [k [E _]]. lia. Qed.

Lemma nodup_app_both {A} (a b : list A) : NoDup (a ++ b) -> NoDup a /\ NoDup b.
Proof.
  induction a as [|y a IH]; cbn [app]; intros H; [split; [constructor|exact H]|].
  inversion H as [|? ? Hy Hl]; subst. destruct (IH Hl) as (H1 & H2). split; [|exact H2].
  constructor; [intros Hin; apply Hy; apply in_or_app; left; exact Hin|exact H1].
Qed.

Lemma live_chain_slots d fl cs c : TInvP d fl cs -> In c cs -> NoDup c /\ ~ In 0 c.
Proof.
  intros HT Hin. pose proof (tinvp_nodup d fl cs HT) as Hnd. destruct HT as (_ & _ & _ & Hp).
  assert (Hsub : forall x, In x c -> In x (fl ++ concat cs)).
  { intros x Hx. apply in_or_app. right. apply in_concat. exists c. split; assumption. }
  split.
  - apply nodup_app_both in Hnd as [_ Hnd]. clear - Hnd Hin. induction cs as [|c0 cs IH]; [destruct Hin|]. cbn [concat] in Hnd.
    apply nodup_app_both in Hnd as [Hc0 Hrest]. destruct Hin as [->|Hin]; [exact Hc0|exact (IH Hin Hrest)].
  - intros H0. apply (indices_no_zero d). eapply Permutation_in; [exact Hp|]. apply Hsub. exact H0.
Qed.

Lemma alloc_n_length : forall n d, length (snd (alloc_n n d)) = n.
Proof.
  induction n as [|n IH]; intros d; cbn [alloc_n]; [reflexivity|]. destruct (alloc1 d) as [d1 i]. specialize (IH d1).
  destruct (alloc_n n d1) as [d2 is]. cbn [snd length] in *. lia.
Qed.
Lemma areplace_length d c k : length (snd (areplace d c k)) = S k.
Proof.
  unfold areplace. destruct (Nat.leb_spec (length c) (S k)) as [Hle|Hgt].
  - pose proof (alloc_n_length (S k - length c) d) as Hl. destruct (alloc_n (S k - length c) d) as [d1 extra]. cbn [snd] in Hl.
    destruct extra as [|e extra]; [cbn [snd]; cbn [length] in Hl; lia|].
    destruct c as [|i [|i2 c]]; cbn [snd]; rewrite ?app_length; cbn [length] in *; lia.
  - cbn [snd]. rewrite firstn_length. lia.
Qed.

Section Compose.
Variables (es : N) (c : bool) (prefix payload : bytes) (T : tbl) (fuel : nat).
Hypothesis Hes : 10 + N.of_nat (length prefix) < es.
Hypothesis Hfuel : (length payload + 1 < fuel)%nat.
Let need := parts_needed fuel es (N.of_nat (length prefix)) (N.of_nat (length payload)).

Lemma need_pos : (1 <= need)%nat.
Proof. unfold need. destruct fuel as [|f]; [lia|]. cbn [parts_needed]. destruct (_ <? _); lia. Qed.

(* a value that needs several slots, in slots l that are duplicate-free, without slot 0 and exactly as many as needed *)
Lemma reads_back_from l : es - 2 < N.of_nat (length prefix + length payload) -> length l = need -> NoDup l -> ~ In 0 l ->
  read_chain fuel true (tbl_put T (write_chain fuel es true c prefix payload l)) (hd 0 l) true = Some (c, prefix ++ payload).
Proof. intros Hbig Hl Hnd H0. apply chain_roundtrip_multipart_exact; try assumption. fold need. lia. Qed.

(* a new value in any reachable table *)
Theorem stored_value_reads_back ops d' l :
  es - 2 < N.of_nat (length prefix + length payload) ->
  alloc_chain need (fst (fold_left astep ops (empty_table, []))) = (d', l) ->
  read_chain fuel true (tbl_put T (write_chain fuel es true c prefix payload l)) (hd 0 l) true = Some (c, prefix ++ payload).
Proof.
  intros Hbig Ha. destruct (reachable_tables_partitioned ops) as [fl HT]. cbv zeta in HT.
  pose proof (alloc_chain_inv need _ fl _ need_pos HT) as Hinv. rewrite Ha in Hinv. destruct Hinv as [fl' [HT' Hlen]].
  destruct (live_chain_slots d' fl' _ l HT' (or_introl eq_refl)) as [Hnd H0]. apply reads_back_from; assumption.
Qed.

(* a value that replaces the j-th live value in place *)
Theorem replaced_value_reads_back ops j old d' l :
  es - 2 < N.of_nat (length prefix + length payload) ->
  nth_error (snd (fold_left astep ops (empty_table, []))) j = Some old ->
  areplace (fst (fold_left astep ops (empty_table, []))) old (need - 1) = (d', l) ->
  read_chain fuel true (tbl_put T (write_chain fuel es true c prefix payload l)) (hd 0 l) true = Some (c, prefix ++ payload).
Proof.
  intros Hbig Hj Ha. destruct (reachable_tables_partitioned ops) as [fl HT]. cbv zeta in HT.
  set (st := fold_left astep ops (empty_table, [])) in *.
  destruct (nth_error_split _ _ Hj) as (pre & post & Hsplit & _).
  assert (HT2 : TInvP (fst st) fl (old :: pre ++ post)).
  { eapply tinvp_perm; [|exact HT]. rewrite Hsplit. apply Permutation_sym, Permutation_middle. }
  pose proof (areplace_inv (fst st) fl old (pre ++ post) (need - 1) HT2) as Hinv. rewrite Ha in Hinv. destruct Hinv as [fl' HT'].
  destruct (live_chain_slots d' fl' _ l HT' (or_introl eq_refl)) as [Hnd H0].
  pose proof (areplace_length (fst st) old (need - 1)) as Hlen. rewrite Ha in Hlen. cbn [snd] in Hlen.
  pose proof need_pos. apply reads_back_from; try assumption. lia.
Qed.
End Compose.
