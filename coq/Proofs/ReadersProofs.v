(* C05: a read whose three looks (commit overlay, log overlay, tables) happen at three different
   moments of ANY interleaving with commits and pipeline micro-steps returns the value the key had
   after tau commits, for some tau between the number of commits at its first look and at its last. *)
From Coq Require Import NArith List Bool Arith Lia.
From PDB Require Import Model.Readers.
Import ListNotations.
Open Scope N_scope.

Definition untouched (H : list commit) (a b : nat) (k : N) : Prop :=
  forall x, (a <= x < b)%nat -> cval (nth x H []) k = None.

Lemma newest_app a b k : newest (a ++ b) k = match newest b k with Some v => Some v | None => newest a k end.
Proof.
  induction a as [|c a IH]; cbn [app newest].
  - destruct (newest b k); reflexivity.
  - rewrite IH. destruct (newest b k); reflexivity.
Qed.

Lemma firstn_add {A} n m' (l : list A) : firstn (n + m') l = firstn n l ++ firstn m' (skipn n l).
Proof. revert l. induction n as [|n IH]; intros [|a l]; cbn; try reflexivity; [destruct m'; reflexivity|]. rewrite IH. reflexivity. Qed.
Lemma skipn_add {A} n m' (l : list A) : skipn (n + m') l = skipn m' (skipn n l).
Proof. revert l. induction n as [|n IH]; intros [|a l]; cbn; try reflexivity; [destruct m'; reflexivity|]. apply IH. Qed.
Lemma sub_split {A} (xs : list A) i k n : (i <= k <= n)%nat -> sub xs i n = sub xs i k ++ sub xs k n.
Proof. intros H. unfold sub. replace (n - i)%nat with ((k - i) + (n - k))%nat by lia. rewrite firstn_add. f_equal.
  rewrite <- skipn_add. replace (i + (k - i))%nat with k by lia. reflexivity. Qed.
Lemma firstn_sub {A} (xs : list A) n : firstn n xs = sub xs 0 n.
Proof. unfold sub. cbn. rewrite Nat.sub_0_r. reflexivity. Qed.

Lemma sub_one {A} (xs : list A) (d : A) b : (b < length xs)%nat -> sub xs b (S b) = [nth b xs d].
Proof.
  unfold sub. replace (S b - b)%nat with 1%nat by lia.
  revert b. induction xs as [|x xs IH]; intros b Hb; [cbn in Hb; lia|].
  destruct b as [|b]; [reflexivity|]. cbn [skipn nth]. apply (IH b). cbn in Hb. lia.
Qed.
Lemma sub_S {A} (xs : list A) (d : A) a b : (a <= b)%nat -> (b < length xs)%nat -> sub xs a (S b) = sub xs a b ++ [nth b xs d].
Proof.
  intros Hab Hb. rewrite (sub_split xs a b (S b)) by lia. rewrite (sub_one xs d b Hb). reflexivity.
Qed.

Lemma sub_beyond {A} (xs : list A) a b : (length xs <= b)%nat -> sub xs a b = sub xs a (length xs).
Proof.
  intros H. unfold sub. destruct (Nat.le_gt_cases a (length xs)) as [Ha|Ha].
  - rewrite !firstn_all2; [reflexivity| |]; rewrite skipn_length; lia.
  - rewrite skipn_all2 by lia. rewrite !firstn_nil. reflexivity.
Qed.

(* nothing in [a, b) writes k  <->  the lookup over that range misses *)
Lemma newest_sub_none H a b k : (a <= b)%nat -> (newest (sub H a b) k = None <-> untouched H a b k).
Proof.
  intros Hab. induction b as [|b IH].
  - assert (a = O) by lia. subst. unfold sub. cbn. split; [intros _ x Hx; lia|reflexivity].
  - destruct (Nat.eq_dec a (S b)) as [->|Hne].
    { unfold sub. rewrite Nat.sub_diag. cbn. split; [intros _ x Hx; lia|reflexivity]. }
    assert (Hab' : (a <= b)%nat) by lia. specialize (IH Hab').
    destruct (Nat.lt_ge_cases b (length H)) as [Hb|Hb].
    + rewrite (sub_S H [] a b Hab' Hb), newest_app. cbn [newest]. split.
      * intros E. destruct (cval (nth b H []) k) eqn:Ec; [discriminate|].
        intros x Hx. destruct (Nat.eq_dec x b) as [->|]; [exact Ec|]. apply (proj1 IH E). lia.
      * intros U. rewrite (U b) by lia. apply IH. intros x Hx. apply U. lia.
    + rewrite (sub_beyond H a (S b)) by lia. rewrite <- (sub_beyond H a b) by lia. split.
      * intros E x Hx. destruct (Nat.eq_dec x b) as [->|]; [rewrite nth_overflow by lia; reflexivity|]. apply (proj1 IH E). lia.
      * intros U. apply IH. intros x Hx. apply U. lia.
Qed.

(* a hit names the newest writer in the range *)
Lemma newest_sub_some H a b k v : (a <= b)%nat -> newest (sub H a b) k = Some v ->
  exists i, (a <= i < b)%nat /\ cval (nth i H []) k = Some v /\ untouched H (S i) b k.
Proof.
  intros Hab. induction b as [|b IH]; intros E.
  - assert (a = O) by lia. subst. unfold sub in E. cbn in E. discriminate.
  - destruct (Nat.eq_dec a (S b)) as [->|Hne].
    { unfold sub in E. rewrite Nat.sub_diag in E. cbn in E. discriminate. }
    assert (Hab' : (a <= b)%nat) by lia.
    destruct (Nat.lt_ge_cases b (length H)) as [Hb|Hb].
    + rewrite (sub_S H [] a b Hab' Hb), newest_app in E. cbn [newest] in E.
      destruct (cval (nth b H []) k) as [v'|] eqn:Ec.
      * injection E as <-. exists b. split; [lia|]. split; [exact Ec|]. intros x Hx. lia.
      * destruct (IH Hab' E) as [i [Hi [Hc Hu]]]. exists i. split; [lia|]. split; [exact Hc|].
        intros x Hx. destruct (Nat.eq_dec x b) as [->|]; [exact Ec|]. apply Hu. lia.
    + rewrite (sub_beyond H a (S b)) in E by lia. rewrite <- (sub_beyond H a b) in E by lia.
      destruct (IH Hab' E) as [i [Hi [Hc Hu]]]. exists i. split; [lia|]. split; [exact Hc|].
      intros x Hx. destruct (Nat.eq_dec x b) as [->|]; [rewrite nth_overflow by lia; reflexivity|]. apply Hu. lia.
Qed.

(* the specification seen from the newest writer *)
Lemma spec_from_writer H i tau k v : (i < tau)%nat -> cval (nth i H []) k = Some v -> untouched H (S i) tau k -> spec H tau k = v.
Proof.
  intros Hi Hc Hu. unfold spec. rewrite firstn_sub, (sub_split H O (S i) tau) by lia. rewrite newest_app.
  rewrite (proj2 (newest_sub_none H (S i) tau k ltac:(lia)) Hu).
  assert (Hlen : (i < length H)%nat).
  { destruct (Nat.lt_ge_cases i (length H)) as [|Hge]; [assumption|]. rewrite nth_overflow in Hc by lia. discriminate. }
  rewrite (sub_S H [] O i ltac:(lia) Hlen), newest_app. cbn [newest]. rewrite Hc. reflexivity.
Qed.

Lemma spec_extend H a b k : (a <= b)%nat -> untouched H a b k -> spec H b k = spec H a k.
Proof.
  intros Hab Hu. unfold spec. rewrite (firstn_sub H b), (sub_split H O a b) by lia. rewrite newest_app.
  rewrite (proj2 (newest_sub_none H a b k Hab) Hu). rewrite <- firstn_sub. reflexivity.
Qed.

(* ---- what the micro-steps preserve ---- *)
Record RInv (s : rstate) : Prop := {
  i_ep : (e s <= p s + b2n (m s))%nat;
  i_pn : (p s + b2n (m s) <= length (hist s))%nat;
  i_j  : (j s <= length (nth (e s) (hist s) []))%nat;
  i_j0 : (j s > 0 -> e s < p s + b2n (m s))%nat
}.

Definition later (s1 s2 : rstate) : Prop :=
  (exists ext, hist s2 = hist s1 ++ ext) /\ (e s1 <= e s2)%nat /\ (p s1 <= p s2)%nat /\
  (p s1 + b2n (m s1) <= p s2 + b2n (m s2))%nat.

Lemma nth_app_l {A} (a b : list A) d i : (i < length a)%nat -> nth i (a ++ b) d = nth i a d.
Proof. intros H. apply app_nth1. exact H. Qed.

Lemma rstep_inv s s' : RInv s -> rstep s s' -> RInv s' /\ later s s'.
Proof.
  intros [H1 H2 H3 H4] St. inversion St; subst; clear St.
  - split.
    + constructor; cbn [hist e p m j].
      * exact H1.
      * rewrite app_length. cbn. lia.
      * destruct (Nat.lt_ge_cases (e s) (length (hist s))) as [Hl|Hl].
        { rewrite nth_app_l by exact Hl. exact H3. }
        { rewrite (nth_overflow (hist s)) in H3 by lia. cbn in H3. lia. }
      * exact H4.
    + split; [exists [c]; reflexivity|cbn; lia].
  - (* ProcBegin *)
    rewrite H0 in *. cbn [b2n] in *. split.
    + constructor; cbn [hist e p m j b2n]; try lia; try assumption; try (intros Hj; specialize (H4 Hj); lia).
    + split; [exists []; rewrite app_nil_r; reflexivity|]. cbn [hist e p m j b2n]. rewrite H0. cbn [b2n]. lia.
  - (* ProcEnd *)
    rewrite H in *. cbn [b2n] in *. split.
    + constructor; cbn [hist e p m j b2n]; try lia; try assumption; try (intros Hj; specialize (H4 Hj); lia).
    + split; [exists []; rewrite app_nil_r; reflexivity|]. cbn [hist e p m j b2n]. rewrite H. cbn [b2n]. lia.
  - (* EnactWrite *)
    split.
    + constructor; cbn [hist e p m j]; try lia; try assumption.
    + split; [exists []; rewrite app_nil_r; reflexivity|]. cbn [hist e p m j]. lia.
  - (* EnactEnd *)
    split.
    + constructor; cbn [hist e p m j]; try lia; try assumption.
    + split; [exists []; rewrite app_nil_r; reflexivity|]. cbn [hist e p m j]. lia.
Qed.

Lemma later_refl s : later s s.
Proof. split; [exists []; rewrite app_nil_r; reflexivity|lia]. Qed.
Lemma later_trans a b c : later a b -> later b c -> later a c.
Proof.
  intros [[x Hx] [A1 [A2 A3]]] [[y Hy] [B1 [B2 B3]]]. split; [exists (x ++ y); rewrite Hy, Hx, app_assoc; reflexivity|lia].
Qed.

Lemma rsteps_inv s s' : RInv s -> rsteps s s' -> RInv s' /\ later s s'.
Proof.
  intros Hi St. induction St as [s|s1 s2 s3 H12 H23 IH]; [split; [exact Hi|apply later_refl]|].
  destruct (rstep_inv _ _ Hi H12) as [Hi2 L12]. destruct (IH Hi2) as [Hi3 L23]. split; [exact Hi3|eapply later_trans; eassumption].
Qed.

Lemma rinv_init : RInv rinit.
Proof. constructor; cbn; lia. Qed.

(* lookups of an earlier state, expressed over a later history *)
Lemma sub_prefix {A} (h x : list A) a b : (b <= length h)%nat -> sub (h ++ x) a b = sub h a b.
Proof.
  intros Hb. unfold sub. destruct (Nat.le_gt_cases a (length h)) as [Ha|Ha].
  - rewrite skipn_app. replace (a - length h)%nat with O by lia. cbn [skipn].
    rewrite firstn_app. rewrite skipn_length. replace (b - a - (length h - a))%nat with O by lia. rewrite firstn_O, app_nil_r. reflexivity.
  - replace (b - a)%nat with O by lia. reflexivity.
Qed.

Lemma cval_firstn c n k v : cval (firstn n c) k = Some v -> cval c k = Some v.
Proof.
  revert n. induction c as [|[k' v'] c IH]; intros n; destruct n as [|n]; cbn; try discriminate.
  destruct (k' =? k); [trivial|apply IH].
Qed.

(* ---- the theorem ---- *)
Theorem read3_linearizable s1 s2 s3 k :
  RInv s1 -> rsteps s1 s2 -> rsteps s2 s3 ->
  exists tau, (length (hist s1) <= tau <= length (hist s3))%nat /\ read3 s1 s2 s3 k = spec (hist s3) tau k.
Proof.
  intros I1 S12 S23.
  destruct (rsteps_inv _ _ I1 S12) as [I2 L12]. destruct (rsteps_inv _ _ I2 S23) as [I3 L23].
  pose proof (later_trans _ _ _ L12 L23) as L13.
  destruct L12 as [[x12 Hx12] [E12 [P12 PM12]]]. destruct L23 as [[x23 Hx23] [E23 [P23 PM23]]].
  destruct L13 as [[x13 Hx13] _].
  destruct I1 as [A1 B1 C1 D1]. destruct I2 as [A2 B2 C2 D2]. destruct I3 as [A3 B3 C3 D3].
  pose (H := hist s3). assert (HH : hist s3 = H) by reflexivity. clearbody H.
  set (n1 := length (hist s1)). set (n2 := length (hist s2)). set (n3 := length H).
  rewrite HH in *.
  assert (Hn12 : (n1 <= n2)%nat) by (unfold n1, n2; rewrite Hx12, app_length; lia).
  assert (Hn23 : (n2 <= n3)%nat) by (unfold n2, n3; rewrite Hx23, app_length; lia).
  (* lookups over H *)
  assert (Lc : cov_lookup s1 k = newest (sub H (p s1) n1) k).
  { unfold cov_lookup. fold n1. rewrite Hx13. rewrite sub_prefix by (unfold n1; lia). reflexivity. }
  assert (Ll : lov_lookup s2 k = newest (sub H (e s2) (p s2 + b2n (m s2))) k).
  { unfold lov_lookup. rewrite Hx23. rewrite sub_prefix by lia. reflexivity. }
  unfold read3. rewrite Lc, Ll. clear Lc Ll.
  destruct (newest (sub H (p s1) n1) k) as [v|] eqn:Ec.
  { (* found in the commit overlay: the value after the n1 commits made so far *)
    exists n1. split; [lia|]. apply newest_sub_some in Ec; [|lia]. destruct Ec as [i [Hi [Hc Hu]]].
    symmetry. apply (spec_from_writer H i n1 k v); [lia|exact Hc|exact Hu]. }
  apply newest_sub_none in Ec; [|lia]. rename Ec into U1.
  destruct (newest (sub H (e s2) (p s2 + b2n (m s2))) k) as [v|] eqn:El.
  { apply newest_sub_some in El; [|lia]. destruct El as [i [Hi [Hc Hu]]].
    exists (Nat.max n1 (S i)). split; [lia|]. symmetry. apply (spec_from_writer H i _ k v); [lia|exact Hc|].
    intros y Hy. destruct (Nat.lt_ge_cases y (p s2 + b2n (m s2))) as [Hl|Hl]; [apply Hu; lia|apply U1; lia]. }
  apply newest_sub_none in El; [|lia]. rename El into U2.
  (* the tables *)
  unfold tbl_lookup. rewrite HH. rewrite newest_app. cbn [newest].
  destruct (cval (firstn (j s3) (nth (e s3) H [])) k) as [v|] eqn:Ep.
  { assert (Hj : (j s3 > 0)%nat). { destruct (j s3); [cbn in Ep; discriminate|lia]. }
    apply cval_firstn in Ep.
    specialize (D3 Hj).
    exists (Nat.max n1 (S (e s3))). split; [unfold n3; lia|]. symmetry. apply (spec_from_writer H (e s3) _ k v); [lia|exact Ep|].
    intros y Hy. destruct (Nat.lt_ge_cases y (p s2 + b2n (m s2))) as [Hl|Hl]; [apply U2; lia|apply U1; lia]. }
  exists (Nat.max n1 (e s3)). split; [unfold n3; lia|].
  fold (spec H (e s3) k). symmetry. apply spec_extend; [lia|].
  intros y Hy. destruct (Nat.lt_ge_cases y (p s2 + b2n (m s2))) as [Hl|Hl]; [apply U2; lia|apply U1; lia].
Qed.

(* Consequences in the words of the property. A reader's later read starts after its earlier read
   ended, so its moment of truth is not earlier: versions never go back, and a transaction seen once
   (all its keys enter at one commit) is seen by every later read. *)
Corollary reads_never_go_back s1 s2 s3 s4 s5 s6 k k' :
  RInv s1 -> rsteps s1 s2 -> rsteps s2 s3 -> rsteps s3 s4 -> rsteps s4 s5 -> rsteps s5 s6 ->
  exists t1 t2, (t1 <= t2)%nat /\ (t2 <= length (hist s6))%nat /\
    read3 s1 s2 s3 k = spec (hist s3) t1 k /\ read3 s4 s5 s6 k' = spec (hist s6) t2 k'.
Proof.
  intros I1 S12 S23 S34 S45 S56.
  destruct (read3_linearizable s1 s2 s3 k I1 S12 S23) as [t1 [H1 E1]].
  destruct (rsteps_inv _ _ I1 S12) as [I2 _]. destruct (rsteps_inv _ _ I2 S23) as [I3 _]. destruct (rsteps_inv _ _ I3 S34) as [I4 L34].
  destruct (read3_linearizable s4 s5 s6 k' I4 S45 S56) as [t2 [H2 E2]].
  exists t1, t2. destruct L34 as [[x Hx] _]. rewrite Hx, app_length in H2. repeat split; try assumption; lia.
Qed.
