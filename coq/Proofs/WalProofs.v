(* Power-loss and crash safety of the log discipline (all reachable states, arbitrary content in
   every dirty cell, any log length between synced and appended). *)
From Coq Require Import Arith NArith List Lia Bool.
From PDB Require Import Model.Wal.
Import ListNotations.
Open Scope N_scope.

(* ---- lemmas on writes ---- *)
Lemma apply_ws_other w T l : wr w l = false -> apply_ws w T l = T l.
Proof. revert T. induction w as [|[l' c] w IH]; intros T H; cbn in *; [reflexivity|].
  apply orb_false_iff in H as [H1 H2]. rewrite IH by exact H2. unfold upd; cbn. rewrite N.eqb_sym, H1. reflexivity. Qed.
Lemma wrs_cons r rs l : wrs (r :: rs) l = wr (ws r) l || wrs rs l. Proof. reflexivity. Qed.
Lemma apply_recs_cons r rs T : apply_recs (r :: rs) T = apply_recs rs (apply_ws (ws r) T). Proof. reflexivity. Qed.
Lemma apply_recs_other rs T l : wrs rs l = false -> apply_recs rs T l = T l.
Proof. revert T. induction rs as [|r rs IH]; intros T H; [reflexivity|].
  rewrite wrs_cons in H. apply orb_false_iff in H as [H1 H2]. rewrite apply_recs_cons, IH by exact H2.
  apply apply_ws_other; exact H1. Qed.
Lemma apply_recs_app a b T : apply_recs (a ++ b) T = apply_recs b (apply_recs a T).
Proof. apply fold_left_app. Qed.
Lemma apply_ws_app a b T : apply_ws (a ++ b) T = apply_ws b (apply_ws a T).
Proof. apply fold_left_app. Qed.

(* replaying a list of absolute-write records makes the result independent of the start state
   on every cell they write *)
Lemma apply_ws_det w T T' l : (wr w l = false -> T l = T' l) -> apply_ws w T l = apply_ws w T' l.
Proof. revert T T'. induction w as [|[l' c] w IH]; intros T T' H; cbn in *; [apply H; reflexivity|].
  apply IH. intros Hw. unfold upd; cbn. destruct (l =? l') eqn:E; [reflexivity|]. apply H.
  rewrite N.eqb_sym, E. exact Hw. Qed.
Lemma apply_recs_det rs T T' l : (wrs rs l = false -> T l = T' l) -> apply_recs rs T l = apply_recs rs T' l.
Proof. revert T T'. induction rs as [|r rs IH]; intros T T' H; [apply H; reflexivity|].
  rewrite !apply_recs_cons. apply IH. intros Hw. apply apply_ws_det. intros Hr. apply H. rewrite wrs_cons, Hr, Hw. reflexivity. Qed.

(* ---- slices ---- *)
Lemma firstn_add {A} n m (l : list A) : firstn (n + m) l = firstn n l ++ firstn m (skipn n l).
Proof. revert l. induction n as [|n IH]; intros [|a l]; cbn; try reflexivity; [destruct m; reflexivity|]. rewrite IH. reflexivity. Qed.
Lemma skipn_add {A} n m (l : list A) : skipn (n + m) l = skipn m (skipn n l).
Proof. revert l. induction n as [|n IH]; intros [|a l]; cbn; try reflexivity; [destruct m; reflexivity|]. apply IH. Qed.
Lemma sub_split {A} (xs : list A) i j n : (i <= j <= n)%nat -> sub xs i n = sub xs i j ++ sub xs j n.
Proof. intros H. unfold sub. replace (n - i)%nat with ((j - i) + (n - j))%nat by lia. rewrite firstn_add. f_equal.
  rewrite <- skipn_add. replace (i + (j - i))%nat with j by lia. reflexivity. Qed.
Lemma firstn_sub {A} (xs : list A) m : firstn m xs = sub xs 0 m.
Proof. unfold sub. cbn. rewrite Nat.sub_0_r. reflexivity. Qed.
Lemma sub_one {A} (xs : list A) i r : nth_error xs i = Some r -> sub xs i (S i) = [r].
Proof. unfold sub. replace (S i - i)%nat with 1%nat by lia. revert i. induction xs as [|a xs IH]; intros [|i] H; cbn in *; try discriminate.
  - inversion H; reflexivity. - apply IH; exact H. Qed.
Lemma wrs_app a b l : wrs (a ++ b) l = wrs a l || wrs b l. Proof. apply existsb_app. Qed.
Lemma wr_app a b l : wr (a ++ b) l = wr a l || wr b l. Proof. apply existsb_app. Qed.
Lemma wrs_sub_mono xs a b a' b' l : (a' <= a)%nat -> (a <= b)%nat -> (b <= b')%nat -> wrs (sub xs a b) l = true -> wrs (sub xs a' b') l = true.
Proof. intros H1 H2 H3 H. rewrite (sub_split xs a' a b') by lia. rewrite (sub_split xs a b b') by lia.
  rewrite !wrs_app, H. rewrite orb_true_r. reflexivity. Qed.
Lemma wr_firstn n w l : wr (firstn n w) l = true -> wr w l = true.
Proof. intros H. rewrite <- (firstn_skipn n w), wr_app, H. reflexivity. Qed.

(* ---- invariant ---- *)
Definition cur (w : wst) : list (N * cell) := match nth_error (recs w) (st w) with Some r => firstn (k w) (ws r) | None => [] end.
Definition S_ (T0 : base) (w : wst) (n : nat) : base := apply_recs (firstn n (recs w)) T0.

Record WInv (T0 : base) (w : wst) : Prop := {
  w_ord   : (t w <= fl w <= st w)%nat /\ (st w <= s w <= length (recs w))%nat;
  w_k     : (k w > 0 -> st w < s w)%nat;
  w_C     : forall l, C w l = apply_ws (cur w) (S_ T0 w (st w)) l;
  w_clean : forall l, dirty w l = false -> D w l = C w l;
  w_dirty : forall l, dirty w l = true -> wrs (sub (recs w) (fl w) (st w)) l || wr (cur w) l = true
}.

Lemma firstn_app_le {A} n (a b : list A) : (n <= length a)%nat -> firstn n (a ++ b) = firstn n a.
Proof. intros H. rewrite firstn_app. replace (n - length a)%nat with O by lia. cbn. apply app_nil_r. Qed.
Lemma sub_app_le {A} (a b : list A) i j : (j <= length a)%nat -> sub (a ++ b) i j = sub a i j.
Proof. intros H. unfold sub. destruct (Nat.le_gt_cases i j) as [Hij|Hij].
  - rewrite skipn_app. replace (i - length a)%nat with O by lia. cbn.
    rewrite firstn_app_le; [reflexivity|]. rewrite skipn_length. lia.
  - replace (j - i)%nat with O by lia. reflexivity. Qed.
Lemma nth_error_app_lt {A} (a b : list A) i : (i < length a)%nat -> nth_error (a ++ b) i = nth_error a i.
Proof. apply nth_error_app1. Qed.

Lemma firstn_S_nth {A} (w : list A) d x : nth_error w d = Some x -> firstn (S d) w = firstn d w ++ [x].
Proof. revert d. induction w as [|a w IH]; intros [|d] H; cbn in *; try discriminate.
  - inversion H; reflexivity. - rewrite (IH d H). reflexivity. Qed.

Lemma winv_step T0 w w' : WInv T0 w -> step w w' -> WInv T0 w'.
Proof.
  intros [[Ho1 Ho2] Hk HC Hcl Hd] Hs. inversion Hs; subst; clear Hs.
  - (* Append: nothing about stored state changes; slices below s are unchanged *)
    assert (Hcur : cur {| recs := recs w ++ [r]; s := s w; st := st w; k := k w; fl := fl w; t := t w; C := C w; D := D w; dirty := dirty w |} = cur w \/ k w = O).
    { unfold cur; cbn. destruct (Nat.lt_ge_cases (st w) (length (recs w))) as [Hl|Hl].
      - left. rewrite nth_error_app1 by exact Hl. reflexivity.
      - right. destruct (k w); [reflexivity|]. assert (st w < s w)%nat by (apply Hk; lia). lia. }
    assert (Hcur' : cur {| recs := recs w ++ [r]; s := s w; st := st w; k := k w; fl := fl w; t := t w; C := C w; D := D w; dirty := dirty w |} = cur w).
    { destruct Hcur as [E|E]; [exact E|]. unfold cur; cbn. rewrite E. destruct (nth_error (recs w ++ [r]) (st w)), (nth_error (recs w) (st w)); reflexivity. }
    constructor; cbn [recs s st k fl t C D dirty].
    + rewrite app_length; cbn. lia.
    + exact Hk.
    + intros l. rewrite Hcur'. unfold S_; cbn [recs]. rewrite firstn_app_le by lia. apply HC.
    + exact Hcl.
    + intros l Hl. rewrite Hcur'. rewrite sub_app_le by lia. apply Hd; exact Hl.
  - (* SyncLog *)
    constructor; cbn [recs s st k fl t C D dirty]; try assumption; try lia.
    all: try (intros Hp; specialize (Hk Hp); lia).
  - (* Store *)
    assert (Hcur : cur {| recs := recs w; s := s w; st := st w; k := S (k w); fl := fl w; t := t w; C := upd (C w) l c; D := D w; dirty := fun x => (x =? l) || dirty w x |} = cur w ++ [(l, c)]).
    { unfold cur; cbn. rewrite H0. apply firstn_S_nth; exact H1. }
    constructor; cbn [recs s st k fl t C D dirty].
    + lia.
    + intros _; exact H.
    + intros x. rewrite Hcur, apply_ws_app. cbn. unfold upd at 1 2. destruct (x =? l); [reflexivity|apply HC].
    + intros x Hx. apply orb_false_iff in Hx as [Hx1 Hx2]. unfold upd. rewrite Hx1. apply Hcl; exact Hx2.
    + intros x Hx. rewrite Hcur, wr_app. cbn. destruct (x =? l) eqn:E.
      * apply N.eqb_eq in E; subst. rewrite N.eqb_refl. rewrite !orb_true_r. reflexivity.
      * cbn in Hx. rewrite (Hd x Hx) || (pose proof (Hd x Hx) as Hdx; apply orb_true_iff in Hdx as [Hdx|Hdx]; rewrite Hdx; rewrite ?orb_true_r; reflexivity).
        all: try reflexivity.
  - (* Finish: record st fully stored *)
    assert (Hcw : cur w = ws r) by (unfold cur; rewrite H0, H1; apply firstn_all).
    assert (Hlen : (st w < length (recs w))%nat) by (apply nth_error_Some; rewrite H0; discriminate).
    constructor; cbn [recs s st k fl t C D dirty].
    + lia.
    + intros; lia.
    + intros l. unfold cur; cbn [recs st k]. 
      assert (Hnil : match nth_error (recs w) (S (st w)) with Some r0 => firstn 0 (ws r0) | None => [] end = []) by (destruct (nth_error (recs w) (S (st w))); reflexivity).
      rewrite Hnil. cbn [apply_ws fold_left]. rewrite HC, Hcw. unfold S_. cbn [recs st]. rewrite (firstn_S_nth _ _ _ H0), apply_recs_app. reflexivity.
    + exact Hcl.
    + intros l Hl. unfold cur; cbn [recs st k].
      assert (Hnil : match nth_error (recs w) (S (st w)) with Some r0 => firstn 0 (ws r0) | None => [] end = []) by (destruct (nth_error (recs w) (S (st w))); reflexivity).
      rewrite Hnil. cbn [wr existsb]. rewrite orb_false_r.
      rewrite (sub_split (recs w) (fl w) (st w) (S (st w))) by lia. rewrite wrs_app, (sub_one _ _ _ H0).
      specialize (Hd l Hl). rewrite Hcw in Hd. cbn [wrs existsb]. rewrite orb_false_r. exact Hd.
  - (* Flush *)
    constructor; cbn [recs s st k fl t C D dirty].
    + lia. + exact Hk.
    + intros l. rewrite HC. reflexivity.
    + reflexivity.
    + discriminate.
  - (* Truncate *)
    constructor; cbn [recs s st k fl t C D dirty]; try assumption. lia.
Qed.

Lemma winv_init T0 : WInv T0 (init T0).
Proof. constructor; cbn; try lia; try reflexivity; try discriminate. Qed.

Lemma winv_reach T0 w : reach T0 w -> WInv T0 w.
Proof. induction 1; [apply winv_init|eapply winv_step; eassumption]. Qed.

(* Power loss at any reachable state: every cell dirty since the last flush holds an ARBITRARY value,
   the log keeps records [t, m) for some m between the synced count and the appended count.
   Replaying what the log kept yields exactly the state after the first m records. *)
Theorem power_loss_recovers T0 w : reach T0 w ->
  forall m D', (s w <= m <= length (recs w))%nat ->
  (forall l, dirty w l = false -> D' l = D w l) ->
  forall l, apply_recs (sub (recs w) (t w) m) D' l = apply_recs (firstn m (recs w)) T0 l.
Proof.
  intros Hr m D' Hm HD l. destruct (winv_reach _ _ Hr) as [[Ho1 Ho2] Hk HC Hcl Hd].
  rewrite firstn_sub, (sub_split (recs w) 0 (t w) m) by lia. rewrite apply_recs_app, <- firstn_sub.
  apply apply_recs_det. intros Hnw.
  (* l is not written by any record the log kept *)
  assert (Hcur : wr (cur w) l = false).
  { destruct (wr (cur w) l) eqn:E; [|reflexivity]. exfalso.
    unfold cur in E. destruct (nth_error (recs w) (st w)) as [r|] eqn:Er; [|discriminate].
    destruct (k w) eqn:Ek; [cbn in E; discriminate|].
    assert (st w < s w)%nat by (apply Hk; lia).
    apply wr_firstn in E.
    assert (wrs (sub (recs w) (st w) (S (st w))) l = true) by (rewrite (sub_one _ _ _ Er); cbn; rewrite E; reflexivity).
    rewrite (wrs_sub_mono (recs w) (st w) (S (st w)) (t w) m l) in Hnw; try lia; try discriminate; try assumption. }
  assert (Hmid : wrs (sub (recs w) (t w) (st w)) l = false).
  { destruct (wrs (sub (recs w) (t w) (st w)) l) eqn:E; [|reflexivity]. exfalso.
    rewrite (wrs_sub_mono (recs w) (t w) (st w) (t w) m l) in Hnw; try lia; try discriminate; try assumption. }
  assert (Hclean : dirty w l = false).
  { destruct (dirty w l) eqn:E; [|reflexivity]. exfalso. specialize (Hd l E). rewrite Hcur, orb_false_r in Hd.
    rewrite (wrs_sub_mono (recs w) (fl w) (st w) (t w) (st w) l) in Hmid; try lia; try discriminate; try assumption. }
  rewrite (HD l Hclean), (Hcl l Hclean), HC, apply_ws_other by exact Hcur.
  unfold S_. rewrite firstn_sub, (sub_split (recs w) 0 (t w) (st w)) by lia. rewrite apply_recs_app, <- firstn_sub.
  apply apply_recs_other. exact Hmid.
Qed.

(* ---- the executable protocol is the protocol ---- *)
Lemma wstep_sound w e w' : wstep w e = Some w' -> step w w'.
Proof.
  destruct e as [r| | | | |n]; cbn [wstep]; intros H.
  - injection H as <-. apply Append.
  - injection H as <-. apply SyncLog.
  - destruct (Nat.ltb_spec (st w) (s w)) as [Hlt|]; [|discriminate].
    destruct (nth_error (recs w) (st w)) as [r|] eqn:Er; [|discriminate].
    destruct (nth_error (ws r) (k w)) as [[l c]|] eqn:Ew; [|discriminate].
    injection H as <-. apply (Store w r l c Hlt Er Ew).
  - destruct (Nat.ltb_spec (st w) (s w)) as [Hlt|]; [|discriminate].
    destruct (nth_error (recs w) (st w)) as [r|] eqn:Er; [|discriminate].
    destruct (Nat.eqb_spec (k w) (length (ws r))) as [Ek|]; [|discriminate].
    injection H as <-. apply (Finish w r Hlt Er Ek).
  - injection H as <-. apply Flush.
  - destruct (Nat.leb_spec (t w) n) as [H1|]; [|discriminate].
    destruct (Nat.leb_spec n (fl w)) as [H2|]; [|discriminate]. cbn [andb] in H.
    injection H as <-. apply Truncate. lia.
Qed.

Lemma wrun_reach T0 evs : forall w w', reach T0 w -> wrun evs w = Some w' -> reach T0 w'.
Proof.
  induction evs as [|e evs IH]; intros w w' Hr H; cbn [wrun] in H; [injection H as <-; exact Hr|].
  destruct (wstep w e) as [w1|] eqn:E; [|discriminate].
  eapply IH; [|exact H]. eapply RS; [exact Hr|]. apply (wstep_sound w e w1 E).
Qed.

(* Power loss at any point of any accepted event trace *)
Theorem accepted_trace_power_loss T0 evs w : wrun evs (init T0) = Some w ->
  forall m D', (s w <= m <= length (recs w))%nat ->
  (forall l, dirty w l = false -> D' l = D w l) ->
  forall l, apply_recs (sub (recs w) (t w) m) D' l = apply_recs (firstn m (recs w)) T0 l.
Proof. intros H. apply power_loss_recovers. eapply wrun_reach; [apply R0|exact H]. Qed.

(* Process crash (the page cache survives): the tables as the cache holds them, plus every complete
   record still in the log, give the state after m records for every m from the synced count up *)
Theorem crash_recovers T0 w : reach T0 w ->
  forall m, (s w <= m <= length (recs w))%nat ->
  forall l, apply_recs (sub (recs w) (t w) m) (C w) l = apply_recs (firstn m (recs w)) T0 l.
Proof.
  intros Hr m Hm. apply (power_loss_recovers T0 w Hr m (C w) Hm).
  intros l Hl. destruct (winv_reach _ _ Hr) as [_ _ _ Hcl _]. symmetry. apply Hcl. exact Hl.
Qed.

(* Recovery is idempotent, also when it is itself interrupted: whatever the cells written by the
   kept records hold when recovery starts (half-applied earlier attempt, torn pages), replaying the
   kept records gives the same result *)
Theorem recovery_restartable rs X Y : (forall l, wrs rs l = false -> Y l = X l) ->
  forall l, apply_recs rs Y l = apply_recs rs X l.
Proof. intros H l. apply apply_recs_det. intros Hw. apply H. exact Hw. Qed.

Corollary recovery_after_partial_recovery rs X j : forall l,
  apply_recs rs (apply_recs (firstn j rs) X) l = apply_recs rs X l.
Proof.
  intros l. apply recovery_restartable. intros l0 Hw. apply apply_recs_other.
  destruct (wrs (firstn j rs) l0) eqn:E; [|reflexivity].
  rewrite <- (firstn_skipn j rs), wrs_app, E in Hw. discriminate.
Qed.

(* ---- damaged logs (C13) ---- *)
(* A damaged log can only lose records (a checksum-valid, consecutively numbered prefix of what the
   log held is replayed, see WalCodecProofs). If the replayed prefix [t, m) still covers everything
   the tables already hold (every record stored or being stored), the result is the state after m
   records — whether or not those records had been synced. *)
Definition touched (w : wst) : nat := if Nat.eqb (k w) 0 then st w else S (st w).

Theorem damaged_replay_prefix T0 w : reach T0 w ->
  forall m, (touched w <= m <= length (recs w))%nat ->
  forall l, apply_recs (sub (recs w) (t w) m) (C w) l = apply_recs (firstn m (recs w)) T0 l.
Proof.
  intros Hr m Hm l. destruct (winv_reach _ _ Hr) as [[Ho1 Ho2] Hk HC Hcl Hd].
  assert (Hst : (st w <= m)%nat) by (unfold touched in Hm; destruct (Nat.eqb (k w) 0); lia).
  rewrite firstn_sub, (sub_split (recs w) 0 (t w) m) by lia. rewrite apply_recs_app, <- firstn_sub.
  apply apply_recs_det. intros Hnw.
  assert (Hcur : wr (cur w) l = false).
  { destruct (wr (cur w) l) eqn:E; [|reflexivity]. exfalso.
    unfold cur in E. destruct (nth_error (recs w) (st w)) as [r|] eqn:Er; [|discriminate].
    destruct (k w) eqn:Ek; [cbn in E; discriminate|].
    assert (S (st w) <= m)%nat by (unfold touched in Hm; rewrite Ek in Hm; cbn in Hm; lia).
    apply wr_firstn in E.
    assert (wrs (sub (recs w) (st w) (S (st w))) l = true) by (rewrite (sub_one _ _ _ Er); cbn; rewrite E; reflexivity).
    rewrite (wrs_sub_mono (recs w) (st w) (S (st w)) (t w) m l) in Hnw; try lia; try discriminate; try assumption. }
  assert (Hmid : wrs (sub (recs w) (t w) (st w)) l = false).
  { destruct (wrs (sub (recs w) (t w) (st w)) l) eqn:E; [|reflexivity]. exfalso.
    rewrite (wrs_sub_mono (recs w) (t w) (st w) (t w) m l) in Hnw; try lia; try discriminate; try assumption. }
  rewrite HC, apply_ws_other by exact Hcur.
  unfold S_. rewrite firstn_sub, (sub_split (recs w) 0 (t w) (st w)) by lia. rewrite apply_recs_app, <- firstn_sub.
  apply apply_recs_other. exact Hmid.
Qed.

(* The remaining clause of C13 — "not older than what the tables already held" — is NOT enforced by
   the log format: nothing records which records the tables hold. A replay that stops before an
   already stored record writes an older prefix over newer tables; the result is no prefix state.
   Two records, both stored; the second one lost from the log. (Known finding F18.) *)
Definition f18_r0 : record := {| ws := [(0, 1)] |}.
Definition f18_r1 : record := {| ws := [(0, 2); (1, 2)] |}.
Definition f18_evs : list wev := [EAppend f18_r0; EAppend f18_r1; ESyncLog; EStore; EFinish; EStore; EStore; EFinish].

Theorem damaged_replay_older_refuted :
  exists w, wrun f18_evs (init (fun _ => 0)) = Some w /\ (t w <= 1 < touched w)%nat /\
    forall n, exists l, apply_recs (sub (recs w) (t w) 1) (C w) l <> apply_recs (firstn n (recs w)) (fun _ => 0) l.
Proof.
  eexists. split; [vm_compute; reflexivity|]. split; [vm_compute; lia|].
  intros n. destruct n as [|[|n]].
  - exists 0. vm_compute. discriminate.
  - exists 1. vm_compute. discriminate.
  - exists 0. cbn [recs firstn]. rewrite firstn_nil. vm_compute. discriminate.
Qed.

(* ---- the two ordering rules as guards of the acceptor, and why each is needed ---- *)
Lemma store_needs_sync w w' : wstep w EStore = Some w' -> (st w < s w)%nat.
Proof. cbn [wstep]. destruct (Nat.ltb_spec (st w) (s w)); [trivial|discriminate]. Qed.

Lemma truncate_needs_flush w n w' : wstep w (ETruncate n) = Some w' -> (t w <= n <= fl w)%nat.
Proof.
  cbn [wstep]. destruct (Nat.leb_spec (t w) n); [|discriminate]. destruct (Nat.leb_spec n (fl w)); [|discriminate]. lia.
Qed.

(* D1 dropped: record 0 = {0:=1, 1:=1} appended, NOT synced, one of its two writes stored and flushed.
   Power loss keeps no log record: the tables hold half a record. *)
Lemma d1_needed : exists T0 w D' m, (s w <= m <= length (recs w))%nat /\
  (forall l, dirty w l = false -> D' l = D w l) /\
  forall n, exists l, apply_recs (sub (recs w) (t w) m) D' l <> apply_recs (firstn n (recs w)) T0 l.
Proof.
  exists (fun _ => 0).
  exists {| recs := [{| ws := [(0, 1); (1, 1)] |}]; s := O; st := O; k := 1; fl := O; t := O;
            C := upd (fun _ => 0) 0 1; D := upd (fun _ => 0) 0 1; dirty := fun _ => false |}.
  exists (upd (fun _ => 0) 0 1), O. split; [cbn; lia|]. split; [reflexivity|].
  intros [|n].
  - exists 0. vm_compute. discriminate.
  - exists 1. cbn [recs firstn]. rewrite firstn_nil. vm_compute. discriminate.
Qed.

(* D2 dropped: record 0 = {0:=1, 1:=1} synced and stored but the tables not flushed; its log file
   truncated. Power loss loses the write of location 1. *)
Lemma d2_needed : exists T0 w D' m, (s w <= m <= length (recs w))%nat /\
  (forall l, dirty w l = false -> D' l = D w l) /\
  forall n, exists l, apply_recs (sub (recs w) (t w) m) D' l <> apply_recs (firstn n (recs w)) T0 l.
Proof.
  exists (fun _ => 0).
  exists {| recs := [{| ws := [(0, 1); (1, 1)] |}]; s := 1; st := 1; k := O; fl := O; t := 1;
            C := upd (upd (fun _ => 0) 0 1) 1 1; D := fun _ => 0; dirty := fun x => (x =? 0) || (x =? 1) |}.
  exists (upd (fun _ => 0) 0 1), 1%nat. split; [cbn; lia|]. split.
  { intros l Hl. cbn [dirty] in Hl. unfold upd. cbn [D]. destruct (l =? 0); [discriminate|]. reflexivity. }
  intros [|n].
  - exists 0. vm_compute. discriminate.
  - exists 1. cbn [recs firstn]. rewrite firstn_nil. vm_compute. discriminate.
Qed.
