(* Power-loss and crash safety of the log discipline (all reachable states, arbitrary content in
   every dirty cell, any log length between synced and appended). *)
From Coq Require Import Arith NArith List Lia Bool.
From PDB Require Import Model.Wal.
Import ListNotations.
Open Scope N_scope.

(* ---- lemmas on writes ---- *)
Lemma apply_ws_other w T l : wr w l = false -> apply_ws w T l = T l.
Proof. revert T. induction w as [|[l' c] w IH]; intros T H; cbn in *; [reflexivity|].
  apply orb_false_iff in H as [H1 H2]. rewrite IH by exact H2. unfold upd; cbn. rewrite N.eqb_sym, H1. reflexivity. Qed.
Lemma wrs_cons r rs l : wrs (r :: rs) l = wr (ws r) l || wrs rs l. Proof. reflexivity. Qed.
Lemma apply_recs_cons r rs T : apply_recs (r :: rs) T = apply_recs rs (apply_ws (ws r) T). Proof. reflexivity. Qed.
Lemma apply_recs_other rs T l : wrs rs l = false -> apply_recs rs T l = T l.
Proof. revert T. induction rs as [|r rs IH]; intros T H; [reflexivity|].
  rewrite wrs_cons in H. apply orb_false_iff in H as [H1 H2]. rewrite apply_recs_cons, IH by exact H2.
  apply apply_ws_other; exact H1. Qed.
Lemma apply_recs_app a b T : apply_recs (a ++ b) T = apply_recs b (apply_recs a T).
Proof. apply fold_left_app. Qed.
Lemma apply_ws_app a b T : apply_ws (a ++ b) T = apply_ws b (apply_ws a T).
Proof. apply fold_left_app. Qed.

(* replaying a list of absolute-write records makes the result independent of the start state
   on every cell they write *)
Lemma apply_ws_det w T T' l : (wr w l = false -> T l = T' l) -> apply_ws w T l = apply_ws w T' l.
Proof. revert T T'. induction w as [|[l' c] w IH]; intros T T' H; cbn in *; [apply H; reflexivity|].
  apply IH. intros Hw. unfold upd; cbn. destruct (l =? l') eqn:E; [reflexivity|]. apply H.
  rewrite N.eqb_sym, E. exact Hw. Qed.
Lemma apply_recs_det rs T T' l : (wrs rs l = false -> T l = T' l) -> apply_recs rs T l = apply_recs rs T' l.
Proof. revert T T'. induction rs as [|r rs IH]; intros T T' H; [apply H; reflexivity|].
  rewrite !apply_recs_cons. apply IH. intros Hw. apply apply_ws_det. intros Hr. apply H. rewrite wrs_cons, Hr, Hw. reflexivity. Qed.

(* ---- slices ---- *)
Lemma firstn_add {A} n m (l : list A) : firstn (n + m) l = firstn n l ++ firstn m (skipn n l).
Proof. revert l. induction n as [|n IH]; intros [|a l]; cbn; try reflexivity; [destruct m; reflexivity|]. rewrite IH. reflexivity. Qed.
Lemma skipn_add {A} n m (l : list A) : skipn (n + m) l = skipn m (skipn n l).
Proof. revert l. induction n as [|n IH]; intros [|a l]; cbn; try reflexivity; [destruct m; reflexivity|]. apply IH. Qed.
Lemma sub_split {A} (xs : list A) i j n : (i <= j <= n)%nat -> sub xs i n = sub xs i j ++ sub xs j n.
Proof. intros H. unfold sub. replace (n - i)%nat with ((j - i) + (n - j))%nat by lia. rewrite firstn_add. f_equal.
  rewrite <- skipn_add. replace (i + (j - i))%nat with j by lia. reflexivity. Qed.
Lemma firstn_sub {A} (xs : list A) m : firstn m xs = sub xs 0 m.
Proof. unfold sub. cbn. rewrite Nat.sub_0_r. reflexivity. Qed.
Lemma sub_one {A} (xs : list A) i r : nth_error xs i = Some r -> sub xs i (S i) = [r].
Proof. unfold sub. replace (S i - i)%nat with 1%nat by lia. revert i. induction xs as [|a xs IH]; intros [|i] H; cbn in *; try discriminate.
  - inversion H; reflexivity. - apply IH; exact H. Qed.
Lemma wrs_app a b l : wrs (a ++ b) l = wrs a l || wrs b l. Proof. apply existsb_app. Qed.
Lemma wr_app a b l : wr (a ++ b) l = wr a l || wr b l. Proof. apply existsb_app. Qed.
Lemma wrs_sub_mono xs a b a' b' l : (a' <= a)%nat -> (a <= b)%nat -> (b <= b')%nat -> wrs (sub xs a b) l = true -> wrs (sub xs a' b') l = true.
Proof. intros H1 H2 H3 H. rewrite (sub_split xs a' a b') by lia. rewrite (sub_split xs a b b') by lia.
  rewrite !wrs_app, H. rewrite orb_true_r. reflexivity. Qed.
Lemma wr_firstn n w l : wr (firstn n w) l = true -> wr w l = true.
Proof. intros H. rewrite <- (firstn_skipn n w), wr_app, H. reflexivity. Qed.

(* ---- invariant ---- *)
Definition S_ (T0 : base) (w : wst) (n : nat) : base := apply_recs (firstn n (recs w)) T0.

Record WInv (T0 : base) (w : wst) : Prop := {
  w_ord   : (t w <= st w)%nat /\ (st w <= s w <= length (recs w))%nat;
  w_k     : (k w > 0 -> st w < s w)%nat;
  w_C     : forall l, C w l = apply_ws (cur w) (S_ T0 w (st w)) l;
  w_clean : forall l, dirty w l = false -> D w l = C w l;
  (* every cell whose durable content is unknown is written by a record the log still holds *)
  w_dirty : forall l, dirty w l = true -> wrs (sub (recs w) (t w) (st w)) l || wr (cur w) l = true
}.

Lemma firstn_app_le {A} n (a b : list A) : (n <= length a)%nat -> firstn n (a ++ b) = firstn n a.
Proof. intros H. rewrite firstn_app. replace (n - length a)%nat with O by lia. cbn. apply app_nil_r. Qed.
Lemma sub_app_le {A} (a b : list A) i j : (j <= length a)%nat -> sub (a ++ b) i j = sub a i j.
Proof.
  intros H. unfold sub. destruct (Nat.le_gt_cases i (length a)) as [Hi|Hi].
  - rewrite skipn_app. replace (i - length a)%nat with O by lia. cbn [skipn].
    apply firstn_app_le. rewrite skipn_length. lia.
  - replace (j - i)%nat with O by lia. reflexivity.
Qed.
Lemma nth_error_app_lt {A} (a b : list A) i : (i < length a)%nat -> nth_error (a ++ b) i = nth_error a i.
Proof. apply nth_error_app1. Qed.
Lemma firstn_S_nth {A} (w : list A) d x : nth_error w d = Some x -> firstn (S d) w = firstn d w ++ [x].
Proof. revert d. induction w as [|a w IH]; intros [|d] H; cbn in *; try discriminate.
  - inversion H; reflexivity. - rewrite (IH d H). reflexivity. Qed.

Lemma dirty_cons w l x : existsb (N.eqb x) (l :: dirtyl w) = (x =? l) || dirty w x.
Proof. reflexivity. Qed.
Lemma dirty_filter (P : N -> bool) dl x : existsb (N.eqb x) (filter (fun l => negb (P l)) dl) = negb (P x) && existsb (N.eqb x) dl.
Proof.
  induction dl as [|a dl IH]; cbn [filter existsb]; [rewrite andb_false_r; reflexivity|].
  destruct (P a) eqn:Pa; cbn [negb existsb].
  - rewrite IH. destruct (N.eqb_spec x a) as [->|]; [rewrite Pa; reflexivity|reflexivity].
  - rewrite IH. destruct (N.eqb_spec x a) as [->|]; [rewrite Pa; reflexivity|reflexivity].
Qed.

Lemma trunc_ok_spec w n : trunc_ok w n = true -> forall l, dirty w l = true -> wrs (sub (recs w) n (st w)) l || wr (cur w) l = true.
Proof.
  unfold trunc_ok, dirty. intros H l Hl. rewrite forallb_forall in H. apply existsb_exists in Hl.
  destruct Hl as [x [Hin Hx]]. apply N.eqb_eq in Hx. subst x. apply H. exact Hin.
Qed.

Lemma winv_step T0 w w' : WInv T0 w -> step w w' -> WInv T0 w'.
Proof.
  intros [[Ho1 Ho2] Hk HC Hcl Hd] Hs. inversion Hs; subst; clear Hs.
  - (* Append: nothing about stored state changes; slices below s are unchanged *)
    set (w1 := {| recs := recs w ++ [r]; s := s w; st := st w; k := k w; t := t w; C := C w; D := D w; dirtyl := dirtyl w |}).
    assert (Hcur : cur w1 = cur w \/ k w = O).
    { unfold cur, w1; cbn. destruct (Nat.lt_ge_cases (st w) (length (recs w))) as [Hl|Hl].
      - left. rewrite nth_error_app1 by exact Hl. reflexivity.
      - right. destruct (k w); [reflexivity|]. assert (st w < s w)%nat by (apply Hk; lia). lia. }
    assert (Hcur' : cur w1 = cur w).
    { destruct Hcur as [E|E]; [exact E|]. unfold cur, w1; cbn. rewrite E. destruct (nth_error (recs w ++ [r]) (st w)), (nth_error (recs w) (st w)); reflexivity. }
    constructor.
    + cbn [recs s st k t w1]. rewrite app_length; cbn. lia.
    + exact Hk.
    + intros l. rewrite Hcur'. unfold S_; cbn [recs st C w1]. rewrite firstn_app_le by lia. apply HC.
    + exact Hcl.
    + intros l Hl. rewrite Hcur'. cbn [recs st t w1]. rewrite sub_app_le by lia. apply Hd; exact Hl.
  - (* SyncLog *)
    constructor; cbn [recs s st k t C D]; try assumption; try lia.
    all: try (intros Hp; specialize (Hk Hp); lia).
  - (* Store *)
    set (w1 := {| recs := recs w; s := s w; st := st w; k := S (k w); t := t w; C := upd (C w) l c; D := D w; dirtyl := l :: dirtyl w |}).
    assert (Hcur : cur w1 = cur w ++ [(l, c)]).
    { unfold cur, w1; cbn. rewrite H0. apply firstn_S_nth; exact H1. }
    constructor.
    + cbn [recs s st k t w1]. lia.
    + intros _; exact H.
    + intros x. rewrite Hcur, apply_ws_app. cbn. unfold upd at 1 2. destruct (x =? l); [reflexivity|apply HC].
    + intros x Hx. unfold dirty, w1 in Hx. cbn [dirtyl] in Hx. rewrite dirty_cons in Hx.
      apply orb_false_iff in Hx as [Hx1 Hx2]. cbn [D C w1]. unfold upd. rewrite Hx1. apply Hcl; exact Hx2.
    + intros x Hx. rewrite Hcur, wr_app. cbn [recs st t w1]. cbn [wr existsb fst]. destruct (N.eqb_spec l x) as [->|Hne].
      * rewrite !orb_true_r. reflexivity.
      * unfold dirty, w1 in Hx. cbn [dirtyl] in Hx. rewrite dirty_cons in Hx.
        destruct (N.eqb_spec x l) as [E|_]; [symmetry in E; contradiction|]. cbn [orb] in Hx.
        pose proof (Hd x Hx) as Hdx. apply orb_true_iff in Hdx as [Hdx|Hdx]; rewrite Hdx; rewrite ?orb_true_r; reflexivity.
  - (* Finish: record st fully stored *)
    assert (Hcw : cur w = ws r) by (unfold cur; rewrite H0, H1; apply firstn_all).
    assert (Hlen : (st w < length (recs w))%nat) by (apply nth_error_Some; rewrite H0; discriminate).
    set (w1 := {| recs := recs w; s := s w; st := S (st w); k := O; t := t w; C := C w; D := D w; dirtyl := dirtyl w |}).
    assert (Hnil : cur w1 = []).
    { unfold cur, w1; cbn [recs st k]. destruct (nth_error (recs w) (S (st w))); reflexivity. }
    constructor.
    + cbn [recs s st k t w1]. lia.
    + cbn [k w1]. intros; lia.
    + intros l. rewrite Hnil. cbn [apply_ws fold_left C w1]. rewrite HC, Hcw. unfold S_. cbn [recs st w1]. rewrite (firstn_S_nth _ _ _ H0), apply_recs_app. reflexivity.
    + exact Hcl.
    + intros l Hl. rewrite Hnil. cbn [wr existsb recs st t w1]. rewrite orb_false_r.
      rewrite (sub_split (recs w) (t w) (st w) (S (st w))) by lia. rewrite wrs_app, (sub_one _ _ _ H0).
      specialize (Hd l Hl). rewrite Hcw in Hd. cbn [wrs existsb]. rewrite orb_false_r. exact Hd.
  - (* SyncSome *)
    set (w1 := {| recs := recs w; s := s w; st := st w; k := k w; t := t w; C := C w;
                  D := fun l => if P l then C w l else D w l; dirtyl := filter (fun l => negb (P l)) (dirtyl w) |}).
    assert (Hcur : cur w1 = cur w) by reflexivity.
    constructor.
    + cbn [recs s st k t w1]. lia.
    + exact Hk.
    + intros l. rewrite Hcur. apply HC.
    + intros l Hl. unfold dirty, w1 in Hl. cbn [dirtyl] in Hl. rewrite dirty_filter in Hl. cbn [D C w1].
      destruct (P l); [reflexivity|]. cbn [negb andb] in Hl. apply Hcl. exact Hl.
    + intros l Hl. unfold dirty, w1 in Hl. cbn [dirtyl] in Hl. rewrite dirty_filter in Hl.
      apply andb_true_iff in Hl as [_ Hl]. rewrite Hcur. apply Hd. exact Hl.
  - (* Truncate *)
    constructor; cbn [recs s st k t C D]; try assumption; [lia|].
    intros l Hl. exact (trunc_ok_spec w n H0 l Hl).
Qed.

Lemma winv_init T0 : WInv T0 (init T0).
Proof. constructor; cbn; try lia; try reflexivity; try discriminate. Qed.

Lemma winv_reach T0 w : reach T0 w -> WInv T0 w.
Proof. induction 1; [apply winv_init|eapply winv_step; eassumption]. Qed.

(* Power loss at any reachable state: every cell stored to since the last sync that covered it holds an
   ARBITRARY value, the log keeps records [t, m) for some m between the synced count and the appended
   count. Replaying what the log kept yields exactly the state after the first m records. *)
Theorem power_loss_recovers T0 w : reach T0 w ->
  forall m D', (s w <= m <= length (recs w))%nat ->
  (forall l, dirty w l = false -> D' l = D w l) ->
  forall l, apply_recs (sub (recs w) (t w) m) D' l = apply_recs (firstn m (recs w)) T0 l.
Proof.
  intros Hr m D' Hm HD l. destruct (winv_reach _ _ Hr) as [[Ho1 Ho2] Hk HC Hcl Hd].
  rewrite firstn_sub, (sub_split (recs w) 0 (t w) m) by lia. rewrite apply_recs_app, <- firstn_sub.
  apply apply_recs_det. intros Hnw.
  (* l is not written by any record the log kept *)
  assert (Hcur : wr (cur w) l = false).
  { destruct (wr (cur w) l) eqn:E; [|reflexivity]. exfalso.
    unfold cur in E. destruct (nth_error (recs w) (st w)) as [r|] eqn:Er; [|discriminate].
    destruct (k w) eqn:Ek; [cbn in E; discriminate|].
    assert (st w < s w)%nat by (apply Hk; lia).
    apply wr_firstn in E.
    assert (wrs (sub (recs w) (st w) (S (st w))) l = true) by (rewrite (sub_one _ _ _ Er); cbn; rewrite E; reflexivity).
    rewrite (wrs_sub_mono (recs w) (st w) (S (st w)) (t w) m l) in Hnw; try lia; try discriminate; try assumption. }
  assert (Hmid : wrs (sub (recs w) (t w) (st w)) l = false).
  { destruct (wrs (sub (recs w) (t w) (st w)) l) eqn:E; [|reflexivity]. exfalso.
    rewrite (wrs_sub_mono (recs w) (t w) (st w) (t w) m l) in Hnw; try lia; try discriminate; try assumption. }
  assert (Hclean : dirty w l = false).
  { destruct (dirty w l) eqn:E; [|reflexivity]. exfalso. specialize (Hd l E). rewrite Hcur, Hmid in Hd. discriminate. }
  rewrite (HD l Hclean), (Hcl l Hclean), HC, apply_ws_other by exact Hcur.
  unfold S_. rewrite firstn_sub, (sub_split (recs w) 0 (t w) (st w)) by lia. rewrite apply_recs_app, <- firstn_sub.
  apply apply_recs_other. exact Hmid.
Qed.

(* ---- the executable protocol is the protocol ---- *)
Lemma wstep_sound w e w' : wstep w e = Some w' -> step w w'.
Proof.
  destruct e as [r| | | | |x|n]; cbn [wstep]; intros H.
  - injection H as <-. apply Append.
  - injection H as <-. apply SyncLog.
  - destruct (Nat.ltb_spec (st w) (s w)) as [Hlt|]; [|discriminate].
    destruct (nth_error (recs w) (st w)) as [r|] eqn:Er; [|discriminate].
    destruct (nth_error (ws r) (k w)) as [[l c]|] eqn:Ew; [|discriminate].
    injection H as <-. apply (Store w r l c Hlt Er Ew).
  - destruct (Nat.ltb_spec (st w) (s w)) as [Hlt|]; [|discriminate].
    destruct (nth_error (recs w) (st w)) as [r|] eqn:Er; [|discriminate].
    destruct (Nat.eqb_spec (k w) (length (ws r))) as [Ek|]; [|discriminate].
    injection H as <-. apply (Finish w r Hlt Er Ek).
  - injection H as <-. apply (SyncSome w (fun _ => true)).
  - injection H as <-. apply (SyncSome w (fun l => file_of l =? x)).
  - destruct (Nat.leb_spec (t w) n) as [H1|]; [|discriminate].
    destruct (Nat.leb_spec n (st w)) as [H2|]; [|discriminate]. cbn [andb] in H.
    destruct (trunc_ok w n) eqn:Ht; [|discriminate].
    injection H as <-. apply Truncate; [lia|exact Ht].
Qed.

Lemma wrun_reach T0 evs : forall w w', reach T0 w -> wrun evs w = Some w' -> reach T0 w'.
Proof.
  induction evs as [|e evs IH]; intros w w' Hr H; cbn [wrun] in H; [injection H as <-; exact Hr|].
  destruct (wstep w e) as [w1|] eqn:E; [|discriminate].
  eapply IH; [|exact H]. eapply RS; [exact Hr|]. apply (wstep_sound w e w1 E).
Qed.

(* a trace that is accepted is accepted up to every one of its instants (the writer may stop anywhere) *)
Lemma wrun_prefix evs : forall w w' n, wrun evs w = Some w' -> exists w'', wrun (firstn n evs) w = Some w''.
Proof.
  induction evs as [|e evs IH]; intros w w' n H.
  - rewrite firstn_nil. exists w. reflexivity.
  - destruct n as [|n]; [exists w; reflexivity|]. cbn [firstn wrun] in *.
    destruct (wstep w e) as [w1|]; [|discriminate]. apply (IH w1 w' n H).
Qed.

(* Power loss at any point of any accepted event trace *)
Theorem accepted_trace_power_loss T0 evs w : wrun evs (init T0) = Some w ->
  forall m D', (s w <= m <= length (recs w))%nat ->
  (forall l, dirty w l = false -> D' l = D w l) ->
  forall l, apply_recs (sub (recs w) (t w) m) D' l = apply_recs (firstn m (recs w)) T0 l.
Proof. intros H. apply power_loss_recovers. eapply wrun_reach; [apply R0|exact H]. Qed.

(* Process crash (the page cache survives): the tables as the cache holds them, plus every complete
   record still in the log, give the state after m records for every m from the synced count up *)
Theorem crash_recovers T0 w : reach T0 w ->
  forall m, (s w <= m <= length (recs w))%nat ->
  forall l, apply_recs (sub (recs w) (t w) m) (C w) l = apply_recs (firstn m (recs w)) T0 l.
Proof.
  intros Hr m Hm. apply (power_loss_recovers T0 w Hr m (C w) Hm).
  intros l Hl. destruct (winv_reach _ _ Hr) as [_ _ _ Hcl _]. symmetry. apply Hcl. exact Hl.
Qed.

(* Recovery is idempotent, also when it is itself interrupted: whatever the cells written by the
   kept records hold when recovery starts (half-applied earlier attempt, torn pages), replaying the
   kept records gives the same result *)
Theorem recovery_restartable rs X Y : (forall l, wrs rs l = false -> Y l = X l) ->
  forall l, apply_recs rs Y l = apply_recs rs X l.
Proof. intros H l. apply apply_recs_det. intros Hw. apply H. exact Hw. Qed.

Corollary recovery_after_partial_recovery rs X j : forall l,
  apply_recs rs (apply_recs (firstn j rs) X) l = apply_recs rs X l.
Proof.
  intros l. apply recovery_restartable. intros l0 Hw. apply apply_recs_other.
  destruct (wrs (firstn j rs) l0) eqn:E; [|reflexivity].
  rewrite <- (firstn_skipn j rs), wrs_app, E in Hw. discriminate.
Qed.

(* ---- damaged logs (C13) ---- *)
(* A damaged log can only lose records (a checksum-valid, consecutively numbered prefix of what the
   log held is replayed, see WalCodecProofs). If the replayed prefix [t, m) still covers everything
   the tables already hold (every record stored or being stored), the result is the state after m
   records — whether or not those records had been synced. *)
Definition touched (w : wst) : nat := if Nat.eqb (k w) 0 then st w else S (st w).

Theorem damaged_replay_prefix T0 w : reach T0 w ->
  forall m, (touched w <= m <= length (recs w))%nat ->
  forall l, apply_recs (sub (recs w) (t w) m) (C w) l = apply_recs (firstn m (recs w)) T0 l.
Proof.
  intros Hr m Hm l. destruct (winv_reach _ _ Hr) as [[Ho1 Ho2] Hk HC Hcl Hd].
  assert (Hst : (st w <= m)%nat) by (unfold touched in Hm; destruct (Nat.eqb (k w) 0); lia).
  rewrite firstn_sub, (sub_split (recs w) 0 (t w) m) by lia. rewrite apply_recs_app, <- firstn_sub.
  apply apply_recs_det. intros Hnw.
  assert (Hcur : wr (cur w) l = false).
  { destruct (wr (cur w) l) eqn:E; [|reflexivity]. exfalso.
    unfold cur in E. destruct (nth_error (recs w) (st w)) as [r|] eqn:Er; [|discriminate].
    destruct (k w) eqn:Ek; [cbn in E; discriminate|].
    assert (S (st w) <= m)%nat by (unfold touched in Hm; rewrite Ek in Hm; cbn in Hm; lia).
    apply wr_firstn in E.
    assert (wrs (sub (recs w) (st w) (S (st w))) l = true) by (rewrite (sub_one _ _ _ Er); cbn; rewrite E; reflexivity).
    rewrite (wrs_sub_mono (recs w) (st w) (S (st w)) (t w) m l) in Hnw; try lia; try discriminate; try assumption. }
  assert (Hmid : wrs (sub (recs w) (t w) (st w)) l = false).
  { destruct (wrs (sub (recs w) (t w) (st w)) l) eqn:E; [|reflexivity]. exfalso.
    rewrite (wrs_sub_mono (recs w) (t w) (st w) (t w) m l) in Hnw; try lia; try discriminate; try assumption. }
  rewrite HC, apply_ws_other by exact Hcur.
  unfold S_. rewrite firstn_sub, (sub_split (recs w) 0 (t w) (st w)) by lia. rewrite apply_recs_app, <- firstn_sub.
  apply apply_recs_other. exact Hmid.
Qed.

(* The remaining clause of C13 — "not older than what the tables already held" — is NOT enforced by
   the log format: nothing records which records the tables hold. A replay that stops before an
   already stored record writes an older prefix over newer tables; the result is no prefix state.
   Two records, both stored; the second one lost from the log. (Known finding F18.) *)
Definition f18_r0 : record := {| ws := [(0, 1)] |}.
Definition f18_r1 : record := {| ws := [(0, 2); (1, 2)] |}.
Definition f18_evs : list wev := [EAppend f18_r0; EAppend f18_r1; ESyncLog; EStore; EFinish; EStore; EStore; EFinish].

Theorem damaged_replay_older_refuted :
  exists w, wrun f18_evs (init (fun _ => 0)) = Some w /\ (t w <= 1 < touched w)%nat /\
    forall n, exists l, apply_recs (sub (recs w) (t w) 1) (C w) l <> apply_recs (firstn n (recs w)) (fun _ => 0) l.
Proof.
  eexists. split; [vm_compute; reflexivity|]. split; [vm_compute; lia|].
  intros n. destruct n as [|[|n]].
  - exists 0. vm_compute. discriminate.
  - exists 1. vm_compute. discriminate.
  - exists 0. cbn [recs firstn]. rewrite firstn_nil. vm_compute. discriminate.
Qed.

(* ---- the two ordering rules as guards of the acceptor, and why each is needed ---- *)
Lemma store_needs_sync w w' : wstep w EStore = Some w' -> (st w < s w)%nat.
Proof. cbn [wstep]. destruct (Nat.ltb_spec (st w) (s w)); [trivial|discriminate]. Qed.

(* a truncation is accepted only when every cell whose durable content is unknown is rewritten by a
   record that stays in the log (in particular: always after a flush of everything stored so far) *)
Lemma truncate_needs_cover w n w' : wstep w (ETruncate n) = Some w' ->
  (t w <= n <= st w)%nat /\ forall l, dirty w l = true -> wrs (sub (recs w) n (st w)) l || wr (cur w) l = true.
Proof.
  cbn [wstep]. destruct (Nat.leb_spec (t w) n); [|discriminate]. destruct (Nat.leb_spec n (st w)); [|discriminate].
  cbn [andb]. destruct (trunc_ok w n) eqn:E; [|discriminate]. intros _. split; [lia|]. apply trunc_ok_spec. exact E.
Qed.

Lemma truncate_after_flush w n : (t w <= n <= st w)%nat -> dirtyl w = [] -> exists w', wstep w (ETruncate n) = Some w'.
Proof.
  intros H Hd. cbn [wstep]. unfold trunc_ok. rewrite Hd. cbn [forallb].
  destruct (Nat.leb_spec (t w) n); [|lia]. destruct (Nat.leb_spec n (st w)); [|lia]. cbn [andb]. eexists. reflexivity.
Qed.

(* D1 dropped: record 0 = {0:=1, 1:=1} appended, NOT synced, one of its two writes stored and flushed.
   Power loss keeps no log record: the tables hold half a record. *)
Lemma d1_needed : exists T0 w D' m, (s w <= m <= length (recs w))%nat /\
  (forall l, dirty w l = false -> D' l = D w l) /\
  forall n, exists l, apply_recs (sub (recs w) (t w) m) D' l <> apply_recs (firstn n (recs w)) T0 l.
Proof.
  exists (fun _ => 0).
  exists {| recs := [{| ws := [(0, 1); (1, 1)] |}]; s := O; st := O; k := 1; t := O;
            C := upd (fun _ => 0) 0 1; D := upd (fun _ => 0) 0 1; dirtyl := [] |}.
  exists (upd (fun _ => 0) 0 1), O. split; [cbn; lia|]. split; [reflexivity|].
  intros [|n].
  - exists 0. vm_compute. discriminate.
  - exists 1. cbn [recs firstn]. rewrite firstn_nil. vm_compute. discriminate.
Qed.

(* D2 dropped: record 0 = {0:=1, 1:=1} synced and stored but the tables not flushed; its log file
   truncated. Power loss loses the write of cell 1. *)
Lemma d2_needed : exists T0 w D' m, (s w <= m <= length (recs w))%nat /\
  (forall l, dirty w l = false -> D' l = D w l) /\
  forall n, exists l, apply_recs (sub (recs w) (t w) m) D' l <> apply_recs (firstn n (recs w)) T0 l.
Proof.
  exists (fun _ => 0).
  exists {| recs := [{| ws := [(0, 1); (1, 1)] |}]; s := 1; st := 1; k := O; t := 1;
            C := upd (upd (fun _ => 0) 0 1) 1 1; D := fun _ => 0; dirtyl := [1; 0] |}.
  exists (upd (fun _ => 0) 0 1), 1%nat. split; [cbn; lia|]. split.
  { intros l Hl. unfold dirty in Hl. cbn [dirtyl existsb] in Hl. unfold upd. cbn [D].
    destruct (l =? 0); [rewrite orb_true_r in Hl; discriminate|]. reflexivity. }
  intros [|n].
  - exists 0. vm_compute. discriminate.
  - exists 1. cbn [recs firstn]. rewrite firstn_nil. vm_compute. discriminate.
Qed.

(* the error shutdown: flush everything, then truncate any log whose records are all stored *)
Lemma error_shutdown_accepted w n : (t w <= n <= st w)%nat ->
  exists w1 w2, wstep w EFlush = Some w1 /\ wstep w1 (ETruncate n) = Some w2.
Proof.
  intros H. eexists. cbn [wstep]. 
  destruct (truncate_after_flush {| recs := recs w; s := s w; st := st w; k := k w; t := t w; C := C w;
                      D := fun l => if (fun _ => true) l then C w l else D w l; dirtyl := filter (fun l => negb ((fun _ => true) l)) (dirtyl w) |} n) as [w2 Hw2].
  - exact H.
  - cbn [dirtyl]. induction (dirtyl w) as [|a l IH]; [reflexivity|exact IH].
  - exists w2. split; [reflexivity|exact Hw2].
Qed.
