(* C11 / C15: "once the lock is released the postponed removal completes".
   With no reader lock held, process_commits empties the commit queue: a commit is deferred only for
   commits that were MADE after it, the commit made last is therefore never deferred, and every
   rotation of the queue brings the first commit that is not deferred one place nearer to the head.
   (Before repair F24 a commit was deferred for ANY queued user of its tree, and two or three commits
   could wait for each other for ever.) *)
From Coq Require Import NArith List Bool Arith Lia.
From PDB Require Import Model.MultiTree.
Import ListNotations.
Open Scope N_scope.

(* ---- what the deferral decision looks at ---- *)
Record core := { k_first : N; k_check : bool; k_derefs : list key; k_used : list key }.
Definition core_of (c : mcommit) : core :=
  {| k_first := mc_first c; k_check := mc_check c; k_derefs := deref_keys (mc_items c); k_used := mc_used c |}.

Definition blocked (c : core) (q : list core) : bool :=
  k_check c && existsb (fun k => existsb (fun c' => (k_first c <? k_first c') && amem (k_used c') k) q) (k_derefs c).

Definition qstep (q : list core) : list core :=
  match q with
  | [] => []
  | c :: rest => if blocked c rest then rest ++ [c] else rest
  end.

Fixpoint qiter (n : nat) (q : list core) : list core :=
  match n with O => q | S n' => qiter n' (qstep q) end.

(* ---- pure queue argument ---- *)
Lemma existsb_same {A} (f : A -> bool) l1 l2 : (forall x, In x l1 <-> In x l2) -> existsb f l1 = existsb f l2.
Proof.
  intros H. destruct (existsb f l1) eqn:E1.
  - apply existsb_exists in E1. destruct E1 as [x [Hx Hf]]. symmetry. apply existsb_exists. exists x. split; [apply H; exact Hx|exact Hf].
  - destruct (existsb f l2) eqn:E2; [|reflexivity].
    apply existsb_exists in E2. destruct E2 as [x [Hx Hf]].
    assert (E : existsb f l1 = true) by (apply existsb_exists; exists x; split; [apply H; exact Hx|exact Hf]).
    rewrite E in E1. discriminate.
Qed.

Lemma existsb_ext0 {A} (f g : A -> bool) l : (forall x, f x = g x) -> existsb f l = existsb g l.
Proof. intros H. induction l as [|a l IH]; cbn [existsb]; [reflexivity|rewrite H, IH; reflexivity]. Qed.

Lemma blocked_same c q1 q2 : (forall x, In x q1 <-> In x q2) -> blocked c q1 = blocked c q2.
Proof.
  intros H. unfold blocked. f_equal. apply existsb_ext0. intros k. apply existsb_same. exact H.
Qed.

(* the head itself never counts: it was not made after itself *)
Lemma existsb_ext {A} (f g : A -> bool) l : (forall x, f x = g x) -> existsb f l = existsb g l.
Proof. intros H. induction l as [|a l IH]; cbn [existsb]; [reflexivity|rewrite H, IH; reflexivity]. Qed.

Lemma blocked_head c rest : blocked c (c :: rest) = blocked c rest.
Proof.
  unfold blocked. f_equal. apply existsb_ext. intros k. cbn [existsb]. rewrite N.ltb_irrefl. reflexivity.
Qed.

Lemma rot_in {A} (c : A) rest x : In x (rest ++ [c]) <-> In x (c :: rest).
Proof.
  rewrite in_app_iff. cbn [In]. tauto.
Qed.

Lemma max_first (q : list core) : q <> [] -> exists x, In x q /\ forall y, In y q -> k_first y <= k_first x.
Proof.
  induction q as [|a q IH]; [congruence|]. intros _. destruct q as [|b q].
  - exists a. split; [left; reflexivity|]. intros y [<-|[]]. lia.
  - destruct IH as [x [Hx Hm]]; [discriminate|].
    destruct (N.leb_spec (k_first a) (k_first x)) as [Hle|Hgt].
    + exists x. split; [right; exact Hx|]. intros y [<-|Hy]; [exact Hle|apply Hm; exact Hy].
    + exists a. split; [left; reflexivity|]. intros y [<-|Hy]; [lia|]. specialize (Hm y Hy). lia.
Qed.

Lemma max_unblocked x q : (forall y, In y q -> k_first y <= k_first x) -> blocked x q = false.
Proof.
  intros Hm. unfold blocked. destruct (k_check x); [|reflexivity]. cbn [andb].
  induction (k_derefs x) as [|k ks IH]; [reflexivity|]. cbn [existsb]. rewrite IH, orb_false_r.
  destruct (existsb _ q) eqn:E; [|reflexivity].
  apply existsb_exists in E. destruct E as [y [Hy Hb]]. apply andb_true_iff in Hb. destruct Hb as [Hlt _].
  apply N.ltb_lt in Hlt. specialize (Hm y Hy). lia.
Qed.

Lemma first_unblocked q0 : forall q, (exists x, In x q /\ blocked x q0 = false) ->
  exists pre x post, q = pre ++ x :: post /\ Forall (fun p => blocked p q0 = true) pre /\ blocked x q0 = false.
Proof.
  induction q as [|a q IH]; intros [x [Hx Hb]]; [destruct Hx|].
  destruct (blocked a q0) eqn:Ea.
  - destruct Hx as [->|Hx]; [congruence|].
    destruct (IH (ex_intro _ x (conj Hx Hb))) as [pre [y [post [-> [Hpre Hy]]]]].
    exists (a :: pre), y, post. split; [reflexivity|]. split; [constructor; assumption|exact Hy].
  - exists [], a, q. split; [reflexivity|]. split; [constructor|exact Ea].
Qed.

(* rotating the blocked prefix away, then removing the first commit that is not blocked *)
Lemma rotate_then_remove : forall pre x post,
  Forall (fun p => blocked p (pre ++ x :: post) = true) pre -> blocked x (pre ++ x :: post) = false ->
  qiter (S (length pre)) (pre ++ x :: post) = post ++ pre.
Proof.
  induction pre as [|p pre IH]; intros x post Hpre Hx.
  - cbn [app length qiter qstep]. cbn [app] in Hx. rewrite blocked_head in Hx. rewrite Hx, app_nil_r. reflexivity.
  - cbn [length]. change (qiter (S (S (length pre))) ((p :: pre) ++ x :: post))
      with (qiter (S (length pre)) (qstep (p :: (pre ++ x :: post)))).
    cbn [qstep]. inversion Hpre as [|p0 pre0 Hp Hpre']; subst.
    change ((p :: pre) ++ x :: post) with (p :: (pre ++ x :: post)) in Hp. rewrite blocked_head in Hp. rewrite Hp.
    rewrite <- app_assoc. cbn [app].
    assert (Hsame : forall y, In y (pre ++ x :: post ++ [p]) <-> In y ((p :: pre) ++ x :: post)).
    { intros y. cbn [app In]. rewrite !in_app_iff. cbn [In]. rewrite in_app_iff. cbn [In]. tauto. }
    rewrite (IH x (post ++ [p])).
    + rewrite <- app_assoc. reflexivity.
    + apply Forall_forall. intros y Hy. rewrite (blocked_same y _ _ Hsame).
      rewrite Forall_forall in Hpre'. apply Hpre'. exact Hy.
    + rewrite (blocked_same x _ _ Hsame). exact Hx.
Qed.

Lemma qiter_add a b q : qiter (a + b) q = qiter b (qiter a q).
Proof. revert q. induction a as [|a IH]; intros q; cbn [Nat.add qiter]; [reflexivity|apply IH]. Qed.

Lemma qiter_nil n : qiter n [] = [].
Proof. induction n as [|n IH]; cbn [qiter qstep]; [reflexivity|exact IH]. Qed.

Lemma one_removed q : q <> [] -> exists j q', (j <= length q)%nat /\ qiter j q = q' /\ S (length q') = length q.
Proof.
  intros Hne. destruct (max_first q Hne) as [m [Hm Hmax]].
  destruct (first_unblocked q q (ex_intro _ m (conj Hm (max_unblocked m q Hmax)))) as [pre [x [post [Hq [Hpre Hx]]]]].
  exists (S (length pre)), (post ++ pre). split; [|split].
  - rewrite Hq, app_length. cbn [length]. lia.
  - rewrite Hq. apply rotate_then_remove; rewrite <- Hq; assumption.
  - rewrite Hq, !app_length. cbn [length]. lia.
Qed.

Theorem queue_drains : forall n q, (length q <= n)%nat -> qiter (n * n) q = [].
Proof.
  induction n as [|n IH]; intros q Hl.
  - destruct q; [reflexivity|cbn [length] in Hl; lia].
  - destruct q as [|c q0] eqn:Eq; [apply qiter_nil|]. rewrite <- Eq in *.
    assert (Hne : q <> []) by (rewrite Eq; discriminate).
    destruct (one_removed q Hne) as [j [q' [Hj [Hq' Hlen]]]].
    replace (S n * S n)%nat with (j + (n * n + (S n * S n - n * n - j)))%nat by lia.
    rewrite qiter_add, Hq', qiter_add, IH by lia. apply qiter_nil.
Qed.

(* ---- the model's process step is that queue step when no lock is held ---- *)
Definition frames (f : mstate -> mstate) : Prop := forall s, mqueue (f s) = mqueue s /\ locked (f s) = locked s.

Lemma deref_children_frames fuel : forall s cs, mqueue (deref_children fuel s cs) = mqueue s /\ locked (deref_children fuel s cs) = locked s.
Proof.
  induction fuel as [|f IH]; intros s cs; cbn [deref_children]; [split; reflexivity|].
  destruct cs as [|id rest]; [split; reflexivity|].
  match goal with |- context [deref_children f ?x rest] => destruct (IH x rest) as [H1 H2]; rewrite H1, H2; clear H1 H2 end.
  destruct (alook (nrc s) id) as [c|].
  - destruct (2 <? c); split; reflexivity.
  - destruct (get_node s id) as [n|]; [|split; reflexivity].
    match goal with |- context [deref_children f ?x (n_children n)] => destruct (IH x (n_children n)) as [H1 H2]; rewrite H1, H2 end.
    split; reflexivity.
Qed.

Lemma apply_item_frames cf fuel it : frames (fun s => apply_item cf fuel s it).
Proof.
  intros s. destruct it; cbn [apply_item].
  - destruct (alook (roots s) k) as [[n0 c]|]; [destruct (m_rc cf)|]; split; reflexivity.
  - destruct (alook (roots s) k) as [[n0 c]|]; [destruct (m_rc cf)|]; split; reflexivity.
  - split; reflexivity.
  - destruct (alook (nrc s) id); split; reflexivity.
  - destruct (alook (roots s) k) as [[n0 c]|]; [|split; reflexivity].
    destruct (m_rc cf && (1 <? c)); [split; reflexivity|].
    match goal with |- context [deref_children fuel ?x ?cs] => destruct (deref_children_frames fuel x cs) as [H1 H2]; rewrite H1, H2 end.
    split; reflexivity.
  - split; reflexivity.
  - split; reflexivity.
Qed.

Lemma fold_apply_frames cf fuel items : frames (fun s => fold_left (apply_item cf fuel) items s).
Proof.
  induction items as [|it items IH]; intros s; cbn [fold_left]; [split; reflexivity|].
  destruct (IH (apply_item cf fuel s it)) as [H1 H2]. destruct (apply_item_frames cf fuel it s) as [H3 H4].
  split; congruence.
Qed.

Lemma to_overlay_frames cf cid items : frames (to_overlay cf cid items).
Proof.
  induction items as [|it items IH]; intros s; cbn [to_overlay]; [split; reflexivity|].
  match goal with |- context [to_overlay cf cid items ?x] => destruct (IH x) as [H1 H2]; rewrite H1, H2 end.
  destruct it; split; reflexivity.
Qed.

Lemma clean_ov_frames cid items : frames (clean_ov cid items).
Proof.
  induction items as [|it items IH]; intros s; cbn [clean_ov]; [split; reflexivity|].
  match goal with |- context [clean_ov cid items ?x] => destruct (IH x) as [H1 H2]; rewrite H1, H2 end.
  destruct it; split; reflexivity.
Qed.

Lemma dec_to_deref_frames ks : frames (fun s => fold_left dec_to_deref ks s).
Proof.
  induction ks as [|k ks IH]; intros s; cbn [fold_left]; [split; reflexivity|].
  destruct (IH (dec_to_deref s k)) as [H1 H2]. rewrite H1, H2. unfold dec_to_deref.
  destruct (alook (to_deref s) k); split; reflexivity.
Qed.

Lemma existsb_map {A B} (f : B -> bool) (g : A -> B) l : existsb f (map g l) = existsb (fun x => f (g x)) l.
Proof. induction l as [|a l IH]; cbn [map existsb]; [reflexivity|rewrite IH; reflexivity]. Qed.

Lemma must_defer_unlocked s c rest : locked s = [] -> must_defer s c rest = blocked (core_of c) (map core_of rest).
Proof.
  intros Hl. unfold must_defer, blocked, core_of. cbn [k_check k_derefs k_first]. f_equal.
  induction (deref_keys (mc_items c)) as [|k ks IH]; [reflexivity|].
  cbn [existsb]. rewrite IH. f_equal. rewrite Hl. cbn [amem]. unfold waits_for. rewrite existsb_map. reflexivity.
Qed.

Lemma mprocess_is_qstep cf s : locked s = [] ->
  map core_of (mqueue (mprocess cf s)) = qstep (map core_of (mqueue s)) /\ locked (mprocess cf s) = [].
Proof.
  intros Hl. unfold mprocess. destruct (mqueue s) as [|c rest] eqn:Hq.
  - rewrite Hq. split; [reflexivity|exact Hl].
  - cbn [map qstep]. rewrite <- (must_defer_unlocked s c rest Hl).
    destruct (must_defer s c rest).
    + destruct rest as [|c2 rest'].
      * split; [reflexivity|exact Hl].
      * cbn [mqueue locked]. split.
        -- rewrite map_app. reflexivity.
        -- destruct (clean_ov_frames (mc_id c) (mc_items c) (to_overlay cf (mcid s + 1) (mc_items c) s)) as [_ H2].
           destruct (to_overlay_frames cf (mcid s + 1) (mc_items c) s) as [_ H4]. congruence.
    + match goal with |- context [clean_ov ?a ?b ?x] => destruct (clean_ov_frames a b x) as [H1 H2]; rewrite H1, H2 end.
      match goal with |- context [fold_left (apply_item cf ?fu) ?its ?x] => destruct (fold_apply_frames cf fu its x) as [H3 H4]; rewrite H3, H4 end.
      unfold with_queue. cbn [mqueue locked]. split; [reflexivity|].
      destruct (mc_check c); [|exact Hl].
      destruct (dec_to_deref_frames (deref_keys (mc_items c)) s) as [_ H6]. rewrite H6. exact Hl.
Qed.

Lemma mprocess_all_is_qiter cf : forall fuel s, locked s = [] ->
  map core_of (mqueue (mprocess_all cf fuel s)) = qiter fuel (map core_of (mqueue s)) /\ locked (mprocess_all cf fuel s) = [].
Proof.
  induction fuel as [|f IH]; intros s Hl; cbn [mprocess_all qiter]; [split; [reflexivity|exact Hl]|].
  destruct (mqueue s) as [|c rest] eqn:Hq.
  - cbn [map qstep]. rewrite qiter_nil, Hq. split; [reflexivity|exact Hl].
  - destruct (mprocess_is_qstep cf s Hl) as [H1 H2]. rewrite Hq in H1.
    destruct (IH (mprocess cf s) H2) as [H3 H4]. rewrite H3, H1. split; [reflexivity|exact H4].
Qed.

(* with no reader lock held, n*n calls of process_commits empty a queue of n commits *)
Theorem postponed_removals_complete cf s :
  locked s = [] -> mqueue (mprocess_all cf (length (mqueue s) * length (mqueue s)) s) = [].
Proof.
  intros Hl. destruct (mprocess_all_is_qiter cf (length (mqueue s) * length (mqueue s)) s Hl) as [H _].
  rewrite queue_drains in H by (rewrite map_length; lia).
  destruct (mqueue (mprocess_all cf _ s)); [reflexivity|discriminate].
Qed.

(* non-vacuity, and the situation of finding F24: three queued commits, of which each of the first two
   dereferences a tree that a later one uses, and the last dereferences a tree the second one uses *)
Definition f24_queue : list core :=
  [ {| k_first := 1; k_check := true; k_derefs := [20]; k_used := [] |};
    {| k_first := 2; k_check := true; k_derefs := [10]; k_used := [20] |};
    {| k_first := 3; k_check := true; k_derefs := [20]; k_used := [10; 20] |} ].
Example f24_queue_drains : qiter 6 f24_queue = [].
Proof. vm_compute. reflexivity. Qed.

(* the rule before the repair: every queued user counts, made earlier or later *)
Definition blocked_old (c : core) (q : list core) : bool :=
  k_check c && existsb (fun k => existsb (fun c' => amem (k_used c') k) q) (k_derefs c).
Definition qstep_old (q : list core) : list core :=
  match q with [] => [] | c :: rest => if blocked_old c rest then rest ++ [c] else rest end.
Fixpoint qiter_old (n : nat) (q : list core) : list core :=
  match n with O => q | S n' => qiter_old n' (qstep_old q) end.
(* three steps bring the same queue back: it rotates for ever *)
Theorem old_rule_rotates_for_ever : forall n, qiter_old (3 * n) f24_queue = f24_queue.
Proof.
  induction n as [|n IH]; [reflexivity|].
  replace (3 * S n)%nat with (S (S (S (3 * n)))) by lia.
  cbn [qiter_old]. replace (qstep_old (qstep_old (qstep_old f24_queue))) with f24_queue by (vm_compute; reflexivity).
  exact IH.
Qed.
