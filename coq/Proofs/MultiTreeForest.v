(* C10, the whole forest: the counted sharing of nodes between trees. For the stored nodes of a multitree column
   (not append-only) the invariant
     - the count of every node (absent from the count map = 1) is the number of references to it from the roots
       and from the other nodes,
     - every referenced node is stored, the count map only mentions stored nodes and only counts of at least 2,
     - the nodes are in topological order (a node's children were stored before it),
   is established by the empty store and kept by inserting a tree (new nodes in post-order, one more reference
   for every existing child), by referencing a tree and by dereferencing one (recursively, with the fuel the
   model gives it). Consequences: every node that can be reached from a live root is stored, and when no root is
   left no node and no count is left either. *)
From Coq Require Import NArith List Bool Lia Arith.
From PDB Require Import Model.MultiTree Proofs.MultiTreeProofs Proofs.MultiTreeReadback.
Import ListNotations.
Open Scope N_scope.

Notation occ := (count_occ N.eq_dec).

Definition kids_n (l : list (nid * node)) : list nid := flat_map (fun e => n_children (snd e)) l.
Definition kids_r (r : list (key * (node * N))) : list nid := flat_map (fun e => n_children (fst (snd e))) r.
Definition cnt (s : mstate) (id : nid) : N := match alook (nrc s) id with Some c => c | None => 1 end.
Fixpoint topo (l : list (nid * node)) : Prop :=
  match l with [] => True | e :: r => (forall c, In c (n_children (snd e)) -> In c (map fst r)) /\ topo r end.
(* nodes and edges of the store: what a recursive dereference can visit *)
Definition weight (l : list (nid * node)) : nat := fold_right (fun e a => (1 + length (n_children (snd e)) + a)%nat) O l.

(* [nid] and [key] are names for N: atoms that differ only in such a name are different atoms for lia *)
Ltac nlia := unfold nid, key in *; lia.

(* ---- association lists ---- *)
Lemma adel_absent {A} (m : list (N * A)) k : ~ In k (map fst m) -> adel m k = m.
Proof.
  unfold adel. induction m as [|[k' x] m IH]; intros H; [reflexivity|]. cbn [filter fst].
  destruct (N.eqb_spec k' k) as [->|Hne]; [exfalso; apply H; left; reflexivity|]. cbn [negb]. rewrite IH; [reflexivity|].
  intros Hin. apply H. right. exact Hin.
Qed.
Lemma in_ids_adel {A} (m : list (N * A)) k j : In j (map fst (adel m k)) <-> In j (map fst m) /\ j <> k.
Proof.
  unfold adel. induction m as [|[k' x] m IH]; cbn [filter map fst]; [tauto|].
  destruct (N.eqb_spec k' k) as [->|Hne]; cbn [negb map fst In]; rewrite IH; intuition congruence.
Qed.
Lemma nodup_adel {A} (m : list (N * A)) k : NoDup (map fst m) -> NoDup (map fst (adel m k)).
Proof.
  unfold adel. induction m as [|[k' x] m IH]; intros H; [constructor|]. cbn [filter fst]. inversion H as [|y l Hy Hl]; subst.
  destruct (N.eqb_spec k' k) as [->|Hne]; cbn [negb]; [apply IH; exact Hl|]. cbn [map fst]. constructor; [|apply IH; exact Hl].
  intros Hin. apply Hy. fold (adel m k) in Hin. apply in_ids_adel in Hin as [Hin _]. exact Hin.
Qed.
Lemma in_ids_alook {A} (m : list (N * A)) k : In k (map fst m) -> exists x, alook m k = Some x.
Proof.
  induction m as [|[k' x] m IH]; intros H; [destruct H|]. cbn [alook]. destruct (N.eqb_spec k' k) as [->|Hne]; [exists x; reflexivity|].
  destruct H as [H|H]; [cbn in H; congruence|exact (IH H)].
Qed.
Lemma alook_in_ids {A} (m : list (N * A)) k x : alook m k = Some x -> In k (map fst m).
Proof. intros H. apply alook_in in H. apply in_map_iff. exists (k, x). split; [reflexivity|exact H]. Qed.
Lemma alook_none_ids {A} (m : list (N * A)) k : alook m k = None -> ~ In k (map fst m).
Proof. intros H Hin. apply in_ids_alook in Hin as [x Hx]. congruence. Qed.
Lemma in_ids_aput {A} (m : list (N * A)) k a j : In j (map fst (aput m k a)) <-> j = k \/ In j (map fst m).
Proof.
  unfold aput. cbn [map fst In]. rewrite in_ids_adel. split.
  - intros [H|[H _]]; [left; symmetry; exact H|right; exact H].
  - intros [->|H]; [left; reflexivity|]. destruct (N.eq_dec j k) as [->|Hne]; [left; reflexivity|right; split; assumption].
Qed.

Lemma occ_kids_n_adel (l : list (nid * node)) id n x : NoDup (map fst l) -> alook l id = Some n ->
  (occ (kids_n (adel l id)) x + occ (n_children n) x = occ (kids_n l) x)%nat.
Proof.
  unfold adel, kids_n. induction l as [|[k' m] l IH]; intros Hnd Hl; [discriminate|]. cbn [alook] in Hl. cbn [filter fst flat_map snd].
  inversion Hnd as [|y l' Hy Hl']; subst. rewrite count_occ_app. revert Hl. destruct (N.eqb_spec k' id) as [->|Hne]; intros Hl.
  - injection Hl as ->. cbn [negb]. fold (adel l id). rewrite adel_absent by exact Hy. nlia.
  - cbn [negb flat_map snd]. rewrite count_occ_app. specialize (IH Hl' Hl). nlia.
Qed.
Lemma occ_kids_r_adel (r : list (key * (node * N))) k n c x : NoDup (map fst r) -> alook r k = Some (n, c) ->
  (occ (kids_r (adel r k)) x + occ (n_children n) x = occ (kids_r r) x)%nat.
Proof.
  unfold adel, kids_r. induction r as [|[k' [m c']] r IH]; intros Hnd Hl; [discriminate|]. cbn [alook] in Hl. cbn [filter fst flat_map snd].
  inversion Hnd as [|y l' Hy Hl']; subst. rewrite count_occ_app. revert Hl. destruct (N.eqb_spec k' k) as [->|Hne]; intros Hl.
  - injection Hl as -> ->. cbn [negb]. fold (adel r k). rewrite adel_absent by exact Hy. nlia.
  - cbn [negb flat_map snd fst]. rewrite count_occ_app. specialize (IH Hl' Hl). nlia.
Qed.
Lemma weight_adel (l : list (nid * node)) id n : NoDup (map fst l) -> alook l id = Some n ->
  (weight (adel l id) + 1 + length (n_children n) = weight l)%nat.
Proof.
  unfold adel. induction l as [|[k' m] l IH]; intros Hnd Hl; [discriminate|]. cbn [alook] in Hl. cbn [filter fst weight fold_right snd].
  inversion Hnd as [|y l' Hy Hl']; subst. revert Hl. destruct (N.eqb_spec k' id) as [->|Hne]; intros Hl.
  - injection Hl as ->. cbn [negb]. fold (adel l id). rewrite adel_absent by exact Hy. fold (weight l). nlia.
  - cbn [negb weight fold_right snd]. specialize (IH Hl' Hl). fold (weight l). fold (weight (filter (fun e => negb (fst e =? id)) l)). nlia.
Qed.

Lemma topo_kids_in l c : topo l -> In c (kids_n l) -> In c (map fst l).
Proof.
  unfold kids_n. induction l as [|e l IH]; intros Ht Hin; [destruct Hin|]. destruct Ht as [H1 H2]. cbn [flat_map] in Hin.
  apply in_app_or in Hin as [Hin|Hin]; right; [exact (H1 c Hin)|exact (IH H2 Hin)].
Qed.
Lemma topo_adel l id : topo l -> ~ In id (kids_n l) -> topo (adel l id).
Proof.
  unfold adel, kids_n. induction l as [|[k' m] l IH]; intros Ht Hn; [exact Logic.I|]. destruct Ht as [H1 H2]. cbn [filter fst]. cbn [flat_map snd] in Hn.
  assert (Hn2 : ~ In id (flat_map (fun e => n_children (snd e)) l)) by (intros H; apply Hn; apply in_or_app; right; exact H).
  destruct (N.eqb_spec k' id) as [->|Hne]; cbn [negb]; [apply IH; assumption|]. split; [|apply IH; assumption].
  intros c Hc. fold (adel l id). apply in_ids_adel. split; [exact (H1 c Hc)|]. intros ->. apply Hn. apply in_or_app. left. exact Hc.
Qed.

(* ---- the invariant: X lists references that are counted but not (or no longer) in the store ---- *)
Record J (s : mstate) (X : list nid) : Prop := {
  j_nodup : NoDup (map fst (nodes s));
  j_roots : NoDup (map fst (roots s));
  j_topo : topo (nodes s);
  j_count : forall id, In id (map fst (nodes s)) -> N.to_nat (cnt s id) = (occ (kids_r (roots s)) id + occ (kids_n (nodes s)) id + occ X id)%nat;
  j_closed : forall id, In id (kids_r (roots s)) \/ In id X -> In id (map fst (nodes s));
  j_nrc : forall id c, alook (nrc s) id = Some c -> 2 <= c /\ In id (map fst (nodes s))
}.

Lemma J_perm s X Y : (forall x, occ X x = occ Y x) -> J s X -> J s Y.
Proof.
  intros Hp [H1 H2 H3 H4 H5 H6]. constructor; try assumption.
  - intros id Hid. rewrite <- Hp. exact (H4 id Hid).
  - intros id [H|H]; [apply H5; left; exact H|]. apply H5. right. apply (count_occ_In N.eq_dec). rewrite Hp. apply (count_occ_In N.eq_dec). exact H.
Qed.

Lemma cnt_pos s id : (forall i c, alook (nrc s) i = Some c -> 2 <= c /\ In i (map fst (nodes s))) -> 1 <= cnt s id.
Proof. intros H. unfold cnt. destruct (alook (nrc s) id) as [c|] eqn:E; [destruct (H id c E); lia|lia]. Qed.

Lemma alook_kids_n l id n c : alook l id = Some n -> In c (n_children n) -> In c (kids_n l).
Proof. intros H Hc. apply alook_in in H. unfold kids_n. apply in_flat_map. exists (id, n). split; [exact H|exact Hc]. Qed.

(* ---- dereferencing: the list of references still to be taken away ---- *)
Lemma deref_ctl : forall f s l, let s' := deref_children f s l in
  locked s' = locked s /\ next_id s' = next_id s /\ rov s' = rov s /\ (forall x, In x (map fst (nodes s')) -> In x (map fst (nodes s))).
Proof.
  induction f as [|f IH]; intros s l; cbn [deref_children]; [repeat split; tauto|]. destruct l as [|id rest]; [repeat split; tauto|].
  cbv zeta. destruct (alook (nrc s) id) as [c|].
  - destruct (2 <? c); match goal with |- context [deref_children f ?S rest] => destruct (IH S rest) as (A & B & C & D) end; cbv zeta in *; cbn [set_store locked next_id rov nodes] in *; repeat split; assumption.
  - set (s1 := set_store s (roots s) (adel (nodes s) id) (nrc s)).
    assert (Hsub : forall x, In x (map fst (nodes s1)) -> In x (map fst (nodes s))) by (intros x Hx; cbn [s1 set_store nodes] in Hx; apply in_ids_adel in Hx; tauto).
    destruct (get_node s id) as [n|].
    + destruct (IH s1 (n_children n)) as (A & B & C & D). cbv zeta in *. destruct (IH (deref_children f s1 (n_children n)) rest) as (A2 & B2 & C2 & D2). cbv zeta in *.
      cbn [s1 set_store locked next_id rov] in A, B, C. repeat split; try congruence. intros x Hx. apply Hsub, D, D2, Hx.
    + destruct (IH s1 rest) as (A & B & C & D). cbv zeta in *. cbn [s1 set_store locked next_id rov] in A, B, C. repeat split; try congruence. intros x Hx. apply Hsub, D, Hx.
Qed.

(* [ovfree]: no stored node is shadowed by the commit overlay (the overlay only holds nodes that queued commits will create) *)
Definition ovfree (s : mstate) : Prop := forall id, In id (map fst (nodes s)) -> alook (aov s) id = None.
Lemma deref_J : forall f s pend more,
  ovfree s -> J s (pend ++ more) -> (length pend + weight (nodes s) <= f)%nat ->
  let s' := deref_children f s pend in
  J s' more /\ (weight (nodes s') <= weight (nodes s))%nat /\ roots s' = roots s /\ aov s' = aov s.
Proof.
  induction f as [|f IH]; intros s pend more Ha HJ Hf.
  - destruct pend; [|cbn in Hf; lia]. cbn [deref_children app] in *. split; [exact HJ|split; [apply le_n|split; [reflexivity|reflexivity]]].
  - destruct pend as [|id rest]; [cbn [deref_children app] in *; split; [exact HJ|split; [apply le_n|split; [reflexivity|reflexivity]]]|]. cbn [deref_children]. cbn [app length] in HJ, Hf.
    pose proof HJ as [H1 H2 H3 H4 H5 H6].
    assert (Hid : In id (map fst (nodes s))) by (apply H5; right; left; reflexivity).
    destruct (alook (nrc s) id) as [c|] eqn:Ec.
    + destruct (H6 id c Ec) as [Hc2 _].
      set (s1 := if 2 <? c then set_store s (roots s) (nodes s) (aput (nrc s) id (c - 1)) else set_store s (roots s) (nodes s) (adel (nrc s) id)).
      assert (Hs1 : roots s1 = roots s /\ nodes s1 = nodes s /\ aov s1 = aov s /\
                    alook (nrc s1) id = (if 2 <? c then Some (c - 1) else None) /\ (forall j, j <> id -> alook (nrc s1) j = alook (nrc s) j)).
      { unfold s1. destruct (2 <? c); cbn [set_store roots nodes aov nrc]; repeat split; try reflexivity;
          [apply alook_aput_eq|intros j Hj; apply alook_aput_neq; exact Hj|apply alook_adel_eq|intros j Hj; apply alook_adel_neq; exact Hj]. }
      destruct Hs1 as (Hr & Hn & Hav & Hci & Hco).
      assert (HJ1 : J s1 (rest ++ more)).
      { constructor; rewrite ?Hr, ?Hn; try assumption.
        - intros x Hx. specialize (H4 x Hx). unfold cnt in *. destruct (N.eq_dec x id) as [->|Hne].
          + rewrite Hci. rewrite Ec in H4. cbn [count_occ] in H4. destruct (N.eq_dec id id) as [_|E]; [|contradiction].
            destruct (N.ltb_spec 2 c); nlia.
          + rewrite (Hco x Hne). cbn [count_occ] in H4. destruct (N.eq_dec id x) as [E|_]; [congruence|]. exact H4.
        - intros x [Hx|Hx]; apply H5; [left; exact Hx|right; right; exact Hx].
        - intros i c' Hi. destruct (N.eq_dec i id) as [->|Hne].
          + rewrite Hci in Hi. destruct (N.ltb_spec 2 c); [injection Hi as <-; split; [lia|exact Hid]|discriminate].
          + rewrite (Hco i Hne) in Hi. exact (H6 i c' Hi). }
      destruct (IH s1 rest more) as (G1 & G2 & G3 & G4); [intros i Hi; rewrite Hav; apply Ha; rewrite <- Hn; exact Hi|exact HJ1|rewrite Hn; lia|].
      fold s1. cbv zeta in *. rewrite Hn in G2. rewrite Hr in G3. split; [exact G1|split; [exact G2|split; [exact G3|congruence]]].
    + assert (Hone : cnt s id = 1) by (unfold cnt; rewrite Ec; reflexivity).
      pose proof (H4 id Hid) as Hcount. rewrite Hone in Hcount. cbn [count_occ] in Hcount. destruct (N.eq_dec id id) as [_|E]; [|contradiction].
      assert (Hz1 : ~ In id (kids_r (roots s))) by (apply (count_occ_not_In N.eq_dec); nlia).
      assert (Hz2 : ~ In id (kids_n (nodes s))) by (apply (count_occ_not_In N.eq_dec); nlia).
      assert (Hz3 : ~ In id (rest ++ more)) by (apply (count_occ_not_In N.eq_dec); nlia).
      destruct (in_ids_alook _ _ Hid) as [n Hn].
      assert (Hg : get_node s id = Some n) by (unfold get_node; rewrite (Ha id Hid); exact Hn).
      rewrite Hg.
      set (s1 := set_store s (roots s) (adel (nodes s) id) (nrc s)).
      assert (HJ1 : J s1 (n_children n ++ rest ++ more)).
      { unfold s1; constructor; cbn [set_store roots nodes nrc].
        - apply nodup_adel. exact H1.
        - exact H2.
        - apply topo_adel; assumption.
        - intros x Hx. apply in_ids_adel in Hx as [Hx Hne]. specialize (H4 x Hx). unfold cnt in *. cbn [nrc set_store].
          pose proof (occ_kids_n_adel (nodes s) id n x H1 Hn) as Hk. rewrite count_occ_app.
          cbn [count_occ] in H4. destruct (N.eq_dec id x) as [E|_]; [congruence|]. nlia.
        - intros x Hx. apply in_ids_adel. destruct Hx as [Hx|Hx].
          + split; [apply H5; left; exact Hx|intros ->; exact (Hz1 Hx)].
          + apply in_app_or in Hx as [Hx|Hx].
            * assert (Hk : In x (kids_n (nodes s))) by (eapply alook_kids_n; eassumption).
              split; [apply topo_kids_in; assumption|intros ->; exact (Hz2 Hk)].
            * split; [apply H5; right; right; exact Hx|intros ->; exact (Hz3 Hx)].
        - intros i c' Hi. destruct (H6 i c' Hi) as [G1 G2]. split; [exact G1|]. apply in_ids_adel. split; [exact G2|]. intros ->. congruence. }
      pose proof (weight_adel (nodes s) id n H1 Hn) as Hw.
      destruct (IH s1 (n_children n) (rest ++ more)) as (G1 & G2 & G3 & G4); [intros i Hi; cbn [s1 set_store nodes aov] in *; apply in_ids_adel in Hi as [Hi _]; exact (Ha i Hi)|exact HJ1|cbn [s1 set_store nodes]; lia|].
      cbv zeta in *. set (s2 := deref_children f s1 (n_children n)) in *. cbn [s1 set_store nodes roots] in G2, G3.
      assert (Hsub2 : forall x, In x (map fst (nodes s2)) -> In x (map fst (nodes s))).
      { intros x Hx. destruct (deref_ctl f s1 (n_children n)) as (_ & _ & _ & D). cbv zeta in D. apply D in Hx. cbn [s1 set_store nodes] in Hx. apply in_ids_adel in Hx. tauto. }
      destruct (IH s2 rest more) as (K1 & K2 & K3 & K4); [intros i Hi; rewrite G4; cbn [s1 set_store aov]; exact (Ha i (Hsub2 i Hi))|exact G1|lia|].
      cbv zeta in *. split; [exact K1|split; [lia|split; [congruence|rewrite K4, G4; reflexivity]]].
Qed.

(* ---- inserting: one item at a time ---- *)
Lemma incref_J cf fuel s X i : J s X -> In i (map fst (nodes s)) ->
  let s' := apply_item cf fuel s (MIncRef i) in J s' (i :: X) /\ nodes s' = nodes s /\ roots s' = roots s.
Proof.
  intros [H1 H2 H3 H4 H5 H6] Hi. cbn [apply_item].
  set (c' := match alook (nrc s) i with Some c => c + 1 | None => 2 end).
  assert (E : (match alook (nrc s) i with
               | Some c => set_store s (roots s) (nodes s) (aput (nrc s) i (c + 1))
               | None => set_store s (roots s) (nodes s) (aput (nrc s) i 2) end) = set_store s (roots s) (nodes s) (aput (nrc s) i c')).
  { unfold c'. destruct (alook (nrc s) i); reflexivity. }
  cbv zeta. rewrite E. cbn [set_store nodes roots]. split; [|split; reflexivity].
  assert (Hc' : c' = cnt s i + 1) by (unfold c', cnt; destruct (alook (nrc s) i); reflexivity).
  constructor; cbn [set_store nodes roots nrc]; try assumption.
  - intros x Hx. specialize (H4 x Hx). unfold cnt in *. cbn [nrc set_store count_occ]. destruct (N.eq_dec i x) as [->|Hne].
    + rewrite alook_aput_eq. unfold cnt in Hc'. nlia.
    + rewrite alook_aput_neq by congruence. exact H4.
  - intros x [Hx|[<-|Hx]]; [apply H5; left; exact Hx|exact Hi|apply H5; right; exact Hx].
  - intros j c Hj. destruct (N.eq_dec j i) as [->|Hne].
    + rewrite alook_aput_eq in Hj. injection Hj as <-. split; [|exact Hi]. pose proof (cnt_pos s i H6). lia.
    + rewrite alook_aput_neq in Hj by exact Hne. exact (H6 j c Hj).
Qed.

Lemma newvalue_J cf fuel s X own n : J s (n_children n ++ X) -> ~ In own (map fst (nodes s)) ->
  let s' := apply_item cf fuel s (MNewValue own n) in
  J s' (own :: X) /\ nodes s' = (own, n) :: nodes s /\ roots s' = roots s.
Proof.
  intros [H1 H2 H3 H4 H5 H6] Hf. cbn [apply_item]. cbv zeta. cbn [set_store nodes roots].
  assert (En : aput (nodes s) own n = (own, n) :: nodes s) by (unfold aput; rewrite adel_absent by exact Hf; reflexivity).
  rewrite En. split; [|split; reflexivity].
  assert (Hno : alook (nrc s) own = None).
  { destruct (alook (nrc s) own) as [c|] eqn:E; [|reflexivity]. exfalso. apply Hf. exact (proj2 (H6 own c E)). }
  assert (Hsub : forall x, In x (kids_r (roots s)) \/ In x (n_children n) \/ In x (kids_n (nodes s)) \/ In x X -> x <> own).
  { intros x Hx ->. apply Hf. destruct Hx as [Hx|[Hx|[Hx|Hx]]].
    - apply H5. left. exact Hx.
    - apply H5. right. apply in_or_app. left. exact Hx.
    - apply topo_kids_in; assumption.
    - apply H5. right. apply in_or_app. right. exact Hx. }
  constructor; cbn [set_store nodes roots nrc map fst]; try assumption.
  - constructor; assumption.
  - cbn [topo snd]. split; [|exact H3]. intros c Hc. apply H5. right. apply in_or_app. left. exact Hc.
  - intros x Hx. unfold cnt. cbn [nrc set_store]. unfold kids_n. cbn [flat_map snd]. fold (kids_n (nodes s)). rewrite count_occ_app. cbn [count_occ].
    destruct Hx as [<-|Hx].
    + rewrite Hno. destruct (N.eq_dec own own) as [_|E]; [|contradiction].
      assert (Z1 : occ (kids_r (roots s)) own = O) by (apply (count_occ_not_In N.eq_dec); intros H; exact (Hsub own (or_introl H) eq_refl)).
      assert (Z2 : occ (n_children n) own = O) by (apply (count_occ_not_In N.eq_dec); intros H; exact (Hsub own (or_intror (or_introl H)) eq_refl)).
      assert (Z3 : occ (kids_n (nodes s)) own = O) by (apply (count_occ_not_In N.eq_dec); intros H; exact (Hsub own (or_intror (or_intror (or_introl H))) eq_refl)).
      assert (Z4 : occ X own = O) by (apply (count_occ_not_In N.eq_dec); intros H; exact (Hsub own (or_intror (or_intror (or_intror H))) eq_refl)).
      nlia.
    + specialize (H4 x Hx). unfold cnt in H4. rewrite count_occ_app in H4. destruct (N.eq_dec own x) as [->|Hne]; [contradiction|]. nlia.
  - intros x [Hx|[<-|Hx]]; [right; apply H5; left; exact Hx|left; reflexivity|right; apply H5; right; apply in_or_app; right; exact Hx].
  - intros j c Hj. destruct (H6 j c Hj) as [G1 G2]. split; [exact G1|right; exact G2].
Qed.

Lemma rootset_J cf fuel s k root : J s (n_children root) -> alook (roots s) k = None ->
  let s' := apply_item cf fuel s (MRootSet k root) in J s' [] /\ nodes s' = nodes s.
Proof.
  intros [H1 H2 H3 H4 H5 H6] Hk. cbn [apply_item]. rewrite Hk. cbv zeta. cbn [set_store nodes]. split; [|reflexivity].
  assert (Hf : ~ In k (map fst (roots s))) by (apply alook_none_ids; exact Hk).
  assert (En : aput (roots s) k (root, 1) = (k, (root, 1)) :: roots s) by (unfold aput; rewrite adel_absent by exact Hf; reflexivity).
  constructor; cbn [set_store nodes roots nrc]; rewrite ?En; try assumption.
  - cbn [map fst]. constructor; assumption.
  - intros x Hx. specialize (H4 x Hx). unfold cnt in *. cbn [nrc set_store]. unfold kids_r. cbn [flat_map snd fst]. fold (kids_r (roots s)).
    rewrite count_occ_app. cbn [count_occ]. nlia.
  - intros x [Hx|[]]. unfold kids_r in Hx. cbn [flat_map snd fst] in Hx. fold (kids_r (roots s)) in Hx.
    apply in_app_or in Hx as [Hx|Hx]; apply H5; [right; exact Hx|left; exact Hx].
Qed.

(* ---- the shape of the item list of an insertion ---- *)
Inductive titems : nid -> list mitem -> Prop :=
| ti_node own d ids its : citems ids its -> titems own (its ++ [MNewValue own {| n_data := d; n_children := ids |}])
with citems : list nid -> list mitem -> Prop :=
| ci_nil : citems [] []
| ci_new i is it1 it2 : titems i it1 -> citems is it2 -> citems (i :: is) (it1 ++ it2)
| ci_ex i is it2 : citems is it2 -> citems (i :: is) (MIncRef i :: it2).
Scheme titems_mut := Induction for titems Sort Prop
  with citems_mut := Induction for citems Sort Prop.
Combined Scheme items_mutind from titems_mut, citems_mut.

Lemma claim_children_shape cs : (forall t', In (TNew t') cs -> forall nx own nx' items, claim_tree false t' nx = (own, (nx', items)) -> titems own items) ->
  forall nx ids nx' items, claim_children (claim_tree false) false cs nx = (ids, (nx', items)) -> citems ids items.
Proof.
  induction cs as [|c rest IH]; intros Hok nx ids nx' items E; cbn [claim_children] in E.
  - injection E as <- <- <-. constructor.
  - destruct c as [t'|i].
    + destruct (claim_tree false t' nx) as [i1 [nx1 it1]] eqn:E1.
      destruct (claim_children (claim_tree false) false rest nx1) as [is [nx2 it2]] eqn:E2.
      injection E as <- <- <-. constructor; [exact (Hok t' (or_introl eq_refl) _ _ _ _ E1)|].
      exact (IH (fun t0 H => Hok t0 (or_intror H)) _ _ _ _ E2).
    + destruct (claim_children (claim_tree false) false rest nx) as [is [nx2 it2]] eqn:E2.
      injection E as <- <- <-. cbn [app]. constructor. exact (IH (fun t0 H => Hok t0 (or_intror H)) _ _ _ _ E2).
Qed.
Lemma claim_tree_shape t : forall nx own nx' items, claim_tree false t nx = (own, (nx', items)) -> titems own items.
Proof.
  induction t as [d cs IH] using tree_ind2. intros nx own nx' items E. rewrite claim_tree_eq in E.
  destruct (claim_children (claim_tree false) false cs (nx + 1)) as [ids [next' its]] eqn:Ec. injection E as <- <- <-.
  constructor. exact (claim_children_shape cs IH _ _ _ _ Ec).
Qed.

Lemma fold_apply_app cf fuel a b s : fold_left (apply_item cf fuel) (a ++ b) s = fold_left (apply_item cf fuel) b (fold_left (apply_item cf fuel) a s).
Proof. apply fold_left_app. Qed.

Definition ins_ok (s : mstate) (its : list mitem) : Prop :=
  NoDup (map fst (nv its)) /\ (forall id, In id (map fst (nv its)) -> ~ In id (map fst (nodes s))) /\
  (forall i, In (MIncRef i) its -> In i (map fst (nodes s))).
Definition ins_res (s s' : mstate) (its : list mitem) : Prop :=
  roots s' = roots s /\ (forall x, In x (map fst (nodes s')) <-> In x (map fst (nv its)) \/ In x (map fst (nodes s))).

Lemma nodup_app_inv {A} (a b : list A) : NoDup (a ++ b) -> NoDup a /\ NoDup b /\ (forall x, In x a -> In x b -> False).
Proof.
  induction a as [|y a IH]; cbn [app]; intros H; [split; [constructor|split; [exact H|intros x []]]|].
  inversion H as [|? ? Hy Hl]; subst. destruct (IH Hl) as (H1 & H2 & H3). split; [|split; [exact H2|]].
  - constructor; [intros Hin; apply Hy; apply in_or_app; left; exact Hin|exact H1].
  - intros x [->|Hx] Hb; [apply Hy; apply in_or_app; right; exact Hb|exact (H3 x Hx Hb)].
Qed.

Lemma ins_ok_app s a b : ins_ok s (a ++ b) -> ins_ok s a /\
  (forall s1, ins_res s s1 a -> ins_ok s1 b).
Proof.
  intros (Hn & Hf & He). rewrite nv_app, map_app in Hn. destruct (nodup_app_inv _ _ Hn) as (Hna & Hnb & Hdis). split.
  - split; [exact Hna|]. split.
    + intros id Hid. apply Hf. rewrite nv_app, map_app. apply in_or_app. left. exact Hid.
    + intros i Hi. apply He. apply in_or_app. left. exact Hi.
  - intros s1 (_ & Hr). split; [exact Hnb|]. split.
    + intros id Hid Hin. apply Hr in Hin as [Hin|Hin].
      * exact (Hdis id Hin Hid).
      * apply (Hf id); [rewrite nv_app, map_app; apply in_or_app; right; exact Hid|exact Hin].
    + intros i Hi. apply Hr. right. apply He. apply in_or_app. right. exact Hi.
Qed.

Lemma items_J cf fuel :
  (forall own its, titems own its -> forall s X, J s X -> ins_ok s its ->
     let s' := fold_left (apply_item cf fuel) its s in J s' (own :: X) /\ ins_res s s' its) /\
  (forall ids its, citems ids its -> forall s X, J s X -> ins_ok s its ->
     let s' := fold_left (apply_item cf fuel) its s in J s' (ids ++ X) /\ ins_res s s' its).
Proof.
  apply items_mutind.
  - intros own d ids its Hc IH s X HJ Hok. cbv zeta. rewrite fold_apply_app. cbn [fold_left].
    destruct (ins_ok_app _ _ _ Hok) as [Hok1 Hok2]. destruct (IH s X HJ Hok1) as [HJ1 Hres1]. cbv zeta in HJ1, Hres1.
    set (s1 := fold_left (apply_item cf fuel) its s) in *. destruct (Hok2 s1 Hres1) as (_ & Hf2 & _).
    assert (Hfresh : ~ In own (map fst (nodes s1))) by (apply Hf2; cbn; left; reflexivity).
    destruct (newvalue_J cf fuel s1 X own {| n_data := d; n_children := ids |} HJ1 Hfresh) as (G1 & G2 & G3). cbv zeta in G1, G2, G3.
    split; [exact G1|]. destruct Hres1 as [R1 R2]. split; [congruence|].
    intros x. rewrite G2, nv_app, map_app. cbn [map fst nv flat_map app In]. rewrite in_app_iff, R2. cbn [In]. tauto.
  - intros s X HJ Hok. cbn [fold_left app]. split; [exact HJ|]. split; [reflexivity|]. intros x. cbn. tauto.
  - intros i is it1 it2 Ht IH1 Hc IH2 s X HJ Hok. cbv zeta. rewrite fold_apply_app.
    destruct (ins_ok_app _ _ _ Hok) as [Hok1 Hok2]. destruct (IH1 s X HJ Hok1) as [HJ1 Hres1]. cbv zeta in HJ1, Hres1.
    set (s1 := fold_left (apply_item cf fuel) it1 s) in *.
    destruct (IH2 s1 (i :: X) HJ1 (Hok2 s1 Hres1)) as [HJ2 Hres2]. cbv zeta in HJ2, Hres2. split.
    + eapply J_perm; [|exact HJ2]. intros x. cbn [app count_occ]. rewrite ?count_occ_app. cbn [count_occ]. destruct (N.eq_dec i x); nlia.
    + destruct Hres1 as [R1 R2]. destruct Hres2 as [Q1 Q2]. split; [congruence|]. intros x. rewrite Q2, R2, nv_app, map_app, in_app_iff. tauto.
  - intros i is it2 Hc IH2 s X HJ Hok. cbv zeta. cbn [fold_left]. destruct Hok as (Hn & Hf & He).
    assert (Hi : In i (map fst (nodes s))) by (apply He; left; reflexivity).
    destruct (incref_J cf fuel s X i HJ Hi) as (G1 & G2 & G3). cbv zeta in G1, G2, G3.
    set (s1 := apply_item cf fuel s (MIncRef i)) in *.
    assert (Hok2 : ins_ok s1 it2).
    { split; [exact Hn|]. split; [intros id Hid; rewrite G2; apply Hf; exact Hid|intros j Hj; rewrite G2; apply He; right; exact Hj]. }
    destruct (IH2 s1 (i :: X) G1 Hok2) as [HJ2 [Q1 Q2]]. cbv zeta in HJ2, Q1, Q2. split.
    + eapply J_perm; [|exact HJ2]. intros x. cbn [app count_occ]. rewrite ?count_occ_app. cbn [count_occ]. destruct (N.eq_dec i x); nlia.
    + split; [congruence|]. intros x. rewrite Q2, G2. cbn [nv flat_map app]. tauto.
Qed.

(* the node items of an insertion neither read nor write the roots: the root may be set before or after them *)
Lemma fold_nodes_set_store cf fuel items : Forall node_item items -> forall s r,
  fold_left (apply_item cf fuel) items (set_store s r (nodes s) (nrc s)) =
  set_store (fold_left (apply_item cf fuel) items s) r (nodes (fold_left (apply_item cf fuel) items s)) (nrc (fold_left (apply_item cf fuel) items s)).
Proof.
  induction 1 as [|it items Hit _ IH]; intros s r; cbn [fold_left]; [reflexivity|].
  destruct it; try contradiction; cbn [apply_item].
  - cbn [set_store roots nodes nrc]. rewrite <- IH. reflexivity.
  - cbn [set_store roots nodes nrc]. destruct (alook (nrc s) id); rewrite <- IH; reflexivity.
Qed.

(* ---- a whole insertion, from the facts about its item list ---- *)
Lemma insert_J_items cf fuel s k root items :
  J s [] -> alook (roots s) k = None -> Forall node_item items -> citems (n_children root) items -> ins_ok s items ->
  let s' := fold_left (apply_item cf fuel) (MRootSet k root :: items) s in
  J s' [] /\ (forall x, In x (map fst (nodes s')) <-> In x (map fst (nv items)) \/ In x (map fst (nodes s))).
Proof.
  intros HJ Hk Hkind Hshape Hok. cbn [fold_left apply_item]. rewrite Hk.
  rewrite (fold_nodes_set_store cf fuel items Hkind). set (s2 := fold_left (apply_item cf fuel) items s).
  destruct (proj2 (items_J cf fuel) (n_children root) items Hshape s [] HJ Hok) as [HJ2 [R1 R2]]. cbv zeta in HJ2, R1, R2. fold s2 in HJ2, R1, R2.
  rewrite app_nil_r in HJ2.
  assert (Hk2 : alook (roots s2) k = None) by (rewrite R1; exact Hk).
  destruct (rootset_J cf fuel s2 k root HJ2 Hk2) as [G1 G2]. cbv zeta in G1, G2.
  cbn [apply_item] in G1, G2. rewrite Hk2 in G1, G2. rewrite R1 in G1.
  cbv zeta. split; [exact G1|]. cbn [set_store nodes]. exact R2.
Qed.

(* ---- a whole insertion ---- *)
Theorem insert_J cf fuel s k d cs nx ids nx' items :
  J s [] -> alook (roots s) k = None ->
  claim_children (claim_tree false) false cs nx = (ids, (nx', items)) ->
  (forall id, In id (map fst (nodes s)) -> id < nx) ->
  (forall i, In (MIncRef i) items -> In i (map fst (nodes s))) ->
  let s' := fold_left (apply_item cf fuel) (MRootSet k {| n_data := d; n_children := ids |} :: items) s in
  J s' [] /\ (forall id, In id (map fst (nodes s')) -> id < nx') /\ nx <= nx'.
Proof.
  intros HJ Hk Ec Hb He. cbn [fold_left apply_item]. rewrite Hk.
  destruct (claim_children_ok false cs (fun t' _ => claim_tree_ok _ t') _ _ _ _ Ec) as (Hle & Hrange & Hnd & _).
  pose proof (claim_children_kind false cs (fun t' _ => claim_tree_kind _ t') _ _ _ _ Ec) as Hkind.
  pose proof (claim_children_shape cs (fun t' _ => claim_tree_shape t') _ _ _ _ Ec) as Hshape.
  rewrite (fold_nodes_set_store cf fuel items Hkind). set (s2 := fold_left (apply_item cf fuel) items s).
  assert (Hok : ins_ok s items).
  { split; [exact Hnd|]. split; [|exact He]. intros id Hid Hin. specialize (Hb id Hin).
    apply in_map_iff in Hid as [[i n] [E Hi]]. cbn in E. subst i. unfold in_range in Hrange. rewrite Forall_forall in Hrange. specialize (Hrange _ Hi). cbn in Hrange. lia. }
  destruct (proj2 (items_J cf fuel) ids items Hshape s [] HJ Hok) as [HJ2 [R1 R2]]. cbv zeta in HJ2, R1, R2. fold s2 in HJ2, R1, R2.
  rewrite app_nil_r in HJ2.
  assert (Hk2 : alook (roots s2) k = None) by (rewrite R1; exact Hk).
  destruct (rootset_J cf fuel s2 k {| n_data := d; n_children := ids |} HJ2 Hk2) as [G1 G2]. cbv zeta in G1, G2.
  cbn [apply_item] in G1, G2. rewrite Hk2 in G1, G2. rewrite R1 in G1.
  cbv zeta. split; [exact G1|]. split; [|exact Hle].
  cbn [set_store nodes]. intros id Hid. apply R2 in Hid as [Hid|Hid].
  - apply in_map_iff in Hid as [[i n] [E Hi]]. cbn in E. subst i. unfold in_range in Hrange. rewrite Forall_forall in Hrange. specialize (Hrange _ Hi). cbn in Hrange. lia.
  - specialize (Hb id Hid). lia.
Qed.

(* ---- referencing and dereferencing a tree ---- *)
Lemma in_kids_r r k n c x : alook r k = Some (n, c) -> In x (n_children n) -> In x (kids_r r).
Proof. intros H Hx. apply alook_in in H. unfold kids_r. apply in_flat_map. exists (k, (n, c)). split; [exact H|exact Hx]. Qed.

Lemma rootcount_J s X k n0 c c' : J s X -> alook (roots s) k = Some (n0, c) ->
  J (set_store s (aput (roots s) k (n0, c')) (nodes s) (nrc s)) X.
Proof.
  intros [H1 H2 H3 H4 H5 H6] Hk.
  assert (Hocc : forall x, occ (kids_r (aput (roots s) k (n0, c'))) x = occ (kids_r (roots s)) x).
  { intros x. unfold aput, kids_r at 1. cbn [flat_map snd fst]. fold (kids_r (adel (roots s) k)). rewrite count_occ_app.
    pose proof (occ_kids_r_adel (roots s) k n0 c x H2 Hk). nlia. }
  constructor; cbn [set_store nodes roots nrc]; try assumption.
  - unfold aput. cbn [map fst]. constructor; [|apply nodup_adel; exact H2]. intros Hin. apply in_ids_adel in Hin as [_ Hne]. congruence.
  - intros x Hx. rewrite Hocc. exact (H4 x Hx).
  - intros x [Hx|Hx]; apply H5; [left|right; exact Hx]. apply (count_occ_In N.eq_dec). rewrite <- Hocc. apply (count_occ_In N.eq_dec). exact Hx.
Qed.

Theorem rootref_J cf fuel s k : J s [] -> J (apply_item cf fuel s (MRootRef k)) [].
Proof.
  intros HJ. cbn [apply_item]. destruct (alook (roots s) k) as [[n0 c]|] eqn:Ek; [|exact HJ].
  destruct (m_rc cf); [apply (rootcount_J s [] k n0 c (c + 1) HJ Ek)|exact HJ].
Qed.

Theorem deref_root_J cf fuel s k n0 c :
  J s [] -> ovfree s -> alook (roots s) k = Some (n0, c) ->
  (length (n_children n0) + weight (nodes s) <= fuel)%nat ->
  let s' := apply_item cf fuel s (MDerefChildren k (n_children n0)) in J s' [] /\ aov s' = aov s.
Proof.
  intros HJ Ha Hk Hf. cbn [apply_item]. rewrite Hk. destruct (m_rc cf && (1 <? c)).
  - cbv zeta. split; [apply (rootcount_J s [] k n0 c (c - 1) HJ Hk)|reflexivity].
  - pose proof HJ as [H1 H2 H3 H4 H5 H6].
    set (s1 := set_store s (adel (roots s) k) (nodes s) (nrc s)).
    assert (HJ1 : J s1 (n_children n0 ++ [])).
    { unfold s1. constructor; cbn [set_store nodes roots nrc]; try assumption.
      - apply nodup_adel. exact H2.
      - intros x Hx. specialize (H4 x Hx). pose proof (occ_kids_r_adel (roots s) k n0 c x H2 Hk). rewrite app_nil_r. unfold cnt in *. cbn [nrc set_store]. cbn [count_occ] in H4. nlia.
      - intros x [Hx|Hx]; apply H5; left.
        + apply (count_occ_In N.eq_dec). pose proof (occ_kids_r_adel (roots s) k n0 c x H2 Hk). apply (count_occ_In N.eq_dec) in Hx. nlia.
        + rewrite app_nil_r in Hx. eapply in_kids_r; eassumption. }
    destruct (deref_J fuel s1 (n_children n0) [] Ha HJ1) as (G1 & _ & _ & G4); [exact Hf|]. cbv zeta in *. split; [exact G1|exact G4].
Qed.

(* ---- what the invariant gives ---- *)
Theorem no_root_no_node s : J s [] -> roots s = [] -> nodes s = [] /\ (forall id, alook (nrc s) id = None).
Proof.
  intros [H1 H2 H3 H4 H5 H6] Hr.
  assert (Hn : nodes s = []).
  { destruct (nodes s) as [|[id n] l] eqn:En; [reflexivity|]. exfalso.
    specialize (H4 id (or_introl eq_refl)). rewrite Hr in H4. cbn [kids_r flat_map count_occ] in H4.
    assert (Hz : occ (kids_n ((id, n) :: l)) id = O).
    { apply (count_occ_not_In N.eq_dec). intros Hin. cbn [map fst] in H1. inversion H1 as [|? ? Hy _]; subst. apply Hy.
      unfold kids_n in Hin. cbn [flat_map snd] in Hin. destruct H3 as [T1 T2]. apply in_app_or in Hin as [Hin|Hin]; [exact (T1 id Hin)|exact (topo_kids_in l id T2 Hin)]. }
    assert (Hpos : 1 <= cnt s id). { apply cnt_pos. rewrite En. exact H6. }
    nlia. }
  split; [exact Hn|]. intros id. destruct (alook (nrc s) id) as [c|] eqn:E; [|reflexivity]. destruct (H6 id c E) as [_ Hin]. rewrite Hn in Hin. destruct Hin.
Qed.

Inductive reach (s : mstate) : nid -> Prop :=
| reach_root id : In id (kids_r (roots s)) -> reach s id
| reach_node p n id : reach s p -> alook (nodes s) p = Some n -> In id (n_children n) -> reach s id.
Theorem reachable_is_stored s id : J s [] -> reach s id -> exists n, alook (nodes s) id = Some n.
Proof.
  intros [H1 H2 H3 H4 H5 H6] Hr. apply in_ids_alook. induction Hr as [id Hid|p n id _ _ Hn Hc].
  - apply H5. left. exact Hid.
  - apply topo_kids_in; [exact H3|]. eapply alook_kids_n; eassumption.
Qed.

(* ---- whole transactions on a store with nothing in flight ---- *)
Lemma apply_ctl cf fuel s it : let s' := apply_item cf fuel s it in locked s' = locked s /\ next_id s' = next_id s /\ rov s' = rov s.
Proof.
  destruct it; cbn [apply_item]; cbv zeta; try (repeat split; reflexivity).
  - destruct (alook (roots s) k) as [[n0 c]|]; [destruct (m_rc cf)|]; repeat split; reflexivity.
  - destruct (alook (roots s) k) as [[n0 c]|]; [destruct (m_rc cf)|]; repeat split; reflexivity.
  - destruct (alook (nrc s) id); repeat split; reflexivity.
  - destruct (alook (roots s) k) as [[n0 c]|]; [|repeat split; reflexivity]. destruct (m_rc cf && (1 <? c)); [repeat split; reflexivity|].
    destruct (deref_ctl fuel (set_store s (adel (roots s) k) (nodes s) (nrc s)) children) as (A & B & C & _). cbv zeta in *. cbn [set_store locked next_id rov] in *. repeat split; assumption.
Qed.
Lemma fold_apply_ctl cf fuel items : forall s, let s' := fold_left (apply_item cf fuel) items s in locked s' = locked s /\ next_id s' = next_id s /\ rov s' = rov s.
Proof.
  induction items as [|it items IH]; intros s; cbn [fold_left]; [repeat split; reflexivity|]. cbv zeta.
  destruct (IH (apply_item cf fuel s it)) as (A & B & C). destruct (apply_ctl cf fuel s it) as (A1 & B1 & C1). cbv zeta in *. repeat split; congruence.
Qed.
Lemma to_overlay_ctl cf cid items : forall s, locked (to_overlay cf cid items s) = locked s /\ next_id (to_overlay cf cid items s) = next_id s.
Proof. induction items as [|it items IH]; intros s; [split; reflexivity|]. cbn [to_overlay]. split; [rewrite (proj1 (IH _))|rewrite (proj2 (IH _))]; destruct it; reflexivity. Qed.
Lemma clean_ov_ctl cid items : forall s, locked (clean_ov cid items s) = locked s /\ next_id (clean_ov cid items s) = next_id s.
Proof. induction items as [|it items IH]; intros s; [split; reflexivity|]. cbn [clean_ov]. split; [rewrite (proj1 (IH _))|rewrite (proj2 (IH _))]; destruct it; reflexivity. Qed.

Lemma to_overlay_aov_keys cf cid items : forall s id, In id (map fst (aov (to_overlay cf cid items s))) -> In id (map fst (aov s)) \/ In id (map fst (nv items)).
Proof.
  induction items as [|it items IH]; intros s id H; [left; exact H|]. cbn [to_overlay] in H. apply IH in H as [H|H].
  - destruct it; cbn [aov] in H; try (left; exact H). apply in_ids_aput in H as [->|H]; [right; cbn; left; reflexivity|left; exact H].
  - right. change (it :: items) with ([it] ++ items). rewrite nv_app, map_app. apply in_or_app. right. exact H.
Qed.
Lemma clean_ov_aov_keys cid items : forall s id, In id (map fst (aov (clean_ov cid items s))) -> In id (map fst (aov s)).
Proof.
  induction items as [|it items IH]; intros s id H; [exact H|]. cbn [clean_ov] in H. apply IH in H. destruct it; cbn [aov] in H; try exact H.
  unfold drop_tag in H. destruct (alook (aov s) id0) as [[i x]|]; [|exact H]. destruct (i =? cid); [|exact H]. apply in_ids_adel in H. tauto.
Qed.
Lemma no_keys_nil {A} (l : list (N * A)) : (forall k, ~ In k (map fst l)) -> l = [].
Proof. destruct l as [|[k x] l]; [reflexivity|]. intros H. exfalso. apply (H k). left. reflexivity. Qed.

Definition drained (s : mstate) : Prop := mqueue s = [] /\ rov s = [] /\ aov s = [] /\ locked s = [].
Definition FInv (s : mstate) : Prop := J s [] /\ (forall id, In id (map fst (nodes s)) -> id < next_id s).
Definition tx1 (cf : mcfg) (s : mstate) (op : uop) : mstate := mprocess cf (fst (mcommit_tx cf s [op])).

Lemma J_store_eq a b X : store_eq a b -> J a X -> J b X.
Proof.
  intros (Hr & Hn & Hc & _) [H1 H2 H3 H4 H5 H6]. unfold cnt in *. constructor; rewrite <- ?Hr, <- ?Hn; try assumption.
  - intros id Hid. unfold cnt. rewrite <- Hc. exact (H4 id Hid).
  - intros id c Hi. rewrite <- Hc in Hi. exact (H6 id c Hi).
Qed.

Lemma mprocess_empty cf s : mqueue s = [] -> mprocess cf s = s.
Proof. intros H. unfold mprocess. rewrite H. reflexivity. Qed.

Lemma store_eq_sym a b : store_eq a b -> store_eq b a.
Proof. intros (H1 & H2 & H3 & H4). repeat split; congruence. Qed.
Lemma store_eq_trans a b c : store_eq a b -> store_eq b c -> store_eq a c.
Proof. intros (H1 & H2 & H3 & H4) (G1 & G2 & G3 & G4). repeat split; congruence. Qed.

(* the existing nodes a tree names *)
Section ExChildren.
Variable rec : tree -> list nid.
Fixpoint ex_children (cs : list tchild) : list nid :=
  match cs with [] => [] | TNew t' :: r => rec t' ++ ex_children r | TExisting i :: r => i :: ex_children r end.
End ExChildren.
Fixpoint existing_ids (t : tree) : list nid :=
  match t with
  | TNode _ cs => (fix go (cs : list tchild) : list nid :=
                     match cs with [] => [] | TNew t' :: r => existing_ids t' ++ go r | TExisting i :: r => i :: go r end) cs
  end.
Lemma existing_ids_eq d cs : existing_ids (TNode d cs) = ex_children existing_ids cs.
Proof. cbn [existing_ids]. induction cs as [|[t'|i] r IH]; cbn [ex_children]; [reflexivity|rewrite <- IH; reflexivity|rewrite <- IH; reflexivity]. Qed.

Lemma claim_children_incref cs :
  (forall t', In (TNew t') cs -> forall nx own nx' items i, claim_tree false t' nx = (own, (nx', items)) -> In (MIncRef i) items -> In i (existing_ids t')) ->
  forall nx ids nx' items i, claim_children (claim_tree false) false cs nx = (ids, (nx', items)) -> In (MIncRef i) items -> In i (ex_children existing_ids cs).
Proof.
  induction cs as [|c rest IH]; intros Hok nx ids nx' items i E Hin; cbn [claim_children] in E.
  - injection E as <- <- <-. destruct Hin.
  - destruct c as [t'|j]; cbn [ex_children].
    + destruct (claim_tree false t' nx) as [i1 [nx1 it1]] eqn:E1.
      destruct (claim_children (claim_tree false) false rest nx1) as [is [nx2 it2]] eqn:E2.
      injection E as <- <- <-. apply in_or_app. apply in_app_or in Hin as [Hin|Hin].
      * left. exact (Hok t' (or_introl eq_refl) _ _ _ _ _ E1 Hin).
      * right. exact (IH (fun t0 H => Hok t0 (or_intror H)) _ _ _ _ _ E2 Hin).
    + destruct (claim_children (claim_tree false) false rest nx) as [is [nx2 it2]] eqn:E2.
      injection E as <- <- <-. cbn [app] in Hin. destruct Hin as [Hin|Hin]; [injection Hin as ->; left; reflexivity|].
      right. exact (IH (fun t0 H => Hok t0 (or_intror H)) _ _ _ _ _ E2 Hin).
Qed.
Lemma claim_tree_incref t : forall nx own nx' items i, claim_tree false t nx = (own, (nx', items)) -> In (MIncRef i) items -> In i (existing_ids t).
Proof.
  induction t as [d cs IH] using tree_ind2. intros nx own nx' items i E Hin. rewrite claim_tree_eq in E.
  destruct (claim_children (claim_tree false) false cs (nx + 1)) as [ids [next' its]] eqn:Ec. injection E as <- <- <-.
  rewrite existing_ids_eq. apply in_app_or in Hin as [Hin|[Hin|[]]]; [|discriminate]. exact (claim_children_incref cs IH _ _ _ _ _ Ec Hin).
Qed.

Lemma adel_aput_nil {A} k (x : A) : adel (aput [] k x) k = [].
Proof. unfold aput, adel. cbn. rewrite N.eqb_refl. reflexivity. Qed.

Theorem tx_insert cf s k t :
  m_append_only cf = false -> drained s -> FInv s -> alook (roots s) k = None ->
  (forall i, In i (existing_ids t) -> In i (map fst (nodes s))) ->
  drained (tx1 cf s (UInsertTree k t)) /\ FInv (tx1 cf s (UInsertTree k t)).
Proof.
  intros Hao (Dq & Dr & Da & Dl) [HJ Hb] Hk Hex. unfold tx1.
  destruct (mcommit_tx cf s [UInsertTree k t]) as [s' code] eqn:E. cbn [fst]. revert E.
  unfold mcommit_tx. cbn [prepare static_code static_ref_code existsb].
  destruct (N.ltb_spec 255 (max_fanout t)) as [Hfan|Hfan].
  - cbn [N.eqb negb]. intros E. injection E as <- <-. rewrite mprocess_empty by exact Dq. split; [repeat split; assumption|split; assumption].
  - cbn [N.eqb negb]. rewrite Hao. destruct t as [d cs]. rewrite claim_root_eq.
    destruct (claim_children (claim_tree false) false cs (next_id s)) as [ids [next' items]] eqn:Ec.
    cbn [prepare N.eqb negb p_roots existsb orb items_of p_kv p_nodes p_check p_used app].
    intros E. injection E as <- <-.
    destruct (claim_children_ok false cs (fun t' _ => claim_tree_ok _ t') _ _ _ _ Ec) as (Hle & Hrange & Hnd & _).
    pose proof (claim_children_kind false cs (fun t' _ => claim_tree_kind _ t') _ _ _ _ Ec) as Hkind.
    set (cid := mcid s + 1). set (root := {| n_data := d; n_children := ids |}).
    cbn [to_overlay].
    set (base := {| roots := roots s; nodes := nodes s; nrc := nrc s; kv := kv s; rov := aput (rov s) k (cid, Some root); aov := aov s; kvov := kvov s;
                    mqueue := mqueue s; mcid := mcid s; next_id := next'; locked := locked s; readers := readers s; to_deref := to_deref s |}).
    set (T := to_overlay cf cid items base).
    assert (HTq : mqueue T = []) by (unfold T; rewrite to_overlay_queue; exact Dq).
    rewrite HTq. cbn [app].
    set (c := {| mc_id := cid; mc_first := cid; mc_items := MRootSet k root :: items; mc_check := false; mc_used := locked_pending s |}).
    set (S := {| roots := roots T; nodes := nodes T; nrc := nrc T; kv := kv T; rov := rov T; aov := aov T; kvov := kvov T;
                 mqueue := [c]; mcid := cid; next_id := next_id T; locked := locked T; readers := readers T; to_deref := to_deref T |}).
    destruct (mprocess_single cf S c eq_refl eq_refl) as [fuel Hm]. rewrite Hm. clear Hm. subst c. cbn [mc_id mc_items].
    set (B := with_queue S []). set (S2 := fold_left (apply_item cf fuel) (MRootSet k root :: items) B).
    destruct (to_overlay_store cf cid items base) as (HTr & HTn & HTc & HTk). fold T in HTr, HTn, HTc, HTk.
    assert (HsB : store_eq s B) by (unfold B, with_queue, S, store_eq; cbn [roots nodes nrc kv]; rewrite HTr, HTn, HTc, HTk; unfold base; cbn; repeat split; reflexivity).
    assert (HJB : J B []) by (eapply J_store_eq; [exact HsB|exact HJ]).
    assert (HkB : alook (roots B) k = None) by (destruct HsB as (Hr & _); rewrite <- Hr; exact Hk).
    assert (HbB : forall id, In id (map fst (nodes B)) -> id < next_id s) by (destruct HsB as (_ & Hn & _); rewrite <- Hn; exact Hb).
    assert (HeB : forall i, In (MIncRef i) items -> In i (map fst (nodes B))).
    { destruct HsB as (_ & Hn & _). rewrite <- Hn. intros i Hi. apply Hex. rewrite existing_ids_eq. exact (claim_children_incref cs (fun t' _ => claim_tree_incref t') _ _ _ _ _ Ec Hi). }
    destruct (insert_J cf fuel B k d cs (next_id s) ids next' items HJB HkB Ec HbB HeB) as (G1 & G2 & G3). cbv zeta in G1, G2. fold root in G1, G2. fold S2 in G1, G2.
    set (F := clean_ov cid (MRootSet k root :: items) S2).
    destruct (clean_ov_store cid (MRootSet k root :: items) S2) as (HFr & HFn & HFc & HFk). fold F in HFr, HFn, HFc, HFk.
    destruct (clean_ov_ctl cid (MRootSet k root :: items) S2) as [HFl HFi]. fold F in HFl, HFi.
    destruct (fold_apply_ctl cf fuel (MRootSet k root :: items) B) as (H2l & H2i & H2r). cbv zeta in H2l, H2i, H2r. fold S2 in H2l, H2i, H2r.
    destruct (to_overlay_ctl cf cid items base) as [HTl HTi]. fold T in HTl, HTi.
    assert (HBl : locked B = []) by (unfold B, with_queue, S; cbn [locked]; rewrite HTl; unfold base; cbn [locked]; exact Dl).
    assert (HBi : next_id B = next') by (unfold B, with_queue, S; cbn [next_id]; rewrite HTi; reflexivity).
    assert (HBr : rov B = aput [] k (cid, Some root)).
    { unfold B, with_queue, S. cbn [rov]. unfold T. rewrite to_overlay_rov_nodes by exact Hkind. unfold base. cbn [rov]. rewrite Dr. reflexivity. }
    assert (HBa : forall id n, In (id, n) (nv items) -> alook (aov S2) id = Some (cid, n)).
    { intros id n Hin. unfold S2. cbn [fold_left]. rewrite fold_apply_aov by exact Hkind.
      assert (Ea : aov (apply_item cf fuel B (MRootSet k root)) = aov B) by (cbn [apply_item]; rewrite HkB; reflexivity).
      rewrite Ea. unfold B, with_queue, S. cbn [aov]. unfold T. apply to_overlay_aov; assumption. }
    assert (HBak : forall id, In id (map fst (aov S2)) -> In id (map fst (nv items))).
    { intros id Hin. unfold S2 in Hin. cbn [fold_left] in Hin. rewrite fold_apply_aov in Hin by exact Hkind.
      assert (Ea : aov (apply_item cf fuel B (MRootSet k root)) = aov B) by (cbn [apply_item]; rewrite HkB; reflexivity).
      rewrite Ea in Hin. unfold B, with_queue, S in Hin. cbn [aov] in Hin. unfold T in Hin. apply to_overlay_aov_keys in Hin as [Hin|Hin]; [|exact Hin].
      unfold base in Hin. cbn [aov] in Hin. rewrite Da in Hin. destruct Hin. }
    split.
    + split; [|split; [|split]].
      * unfold F. rewrite clean_ov_queue. unfold S2. rewrite fold_apply_queue. reflexivity.
      * unfold F. cbn [clean_ov]. rewrite clean_ov_rov_nodes by exact Hkind. cbn [rov]. rewrite H2r, HBr.
        unfold drop_tag. rewrite alook_aput_eq, N.eqb_refl. apply adel_aput_nil.
      * apply no_keys_nil. intros id Hin. pose proof Hin as Hin0. unfold F in Hin. apply clean_ov_aov_keys in Hin. apply HBak in Hin.
        apply in_map_iff in Hin as [[id' n] [E Hn]]. cbn in E. subst id'.
        apply in_ids_alook in Hin0 as [x Hx]. unfold F in Hx. cbn [clean_ov] in Hx.
        rewrite (clean_ov_aov_gone cid items _ id n Hn) in Hx; [discriminate| |exact Hnd].
        intros id' n' H'. exists n'. cbn [aov]. apply HBa. exact H'.
      * rewrite HFl, H2l. exact HBl.
    + split.
      * eapply J_store_eq; [|exact G1]. apply store_eq_sym. repeat split; assumption.
      * rewrite HFn, HFi, H2i, HBi. exact G2.
Qed.

Theorem tx_ref cf s k :
  m_append_only cf = false -> drained s -> FInv s ->
  drained (tx1 cf s (URefTree k)) /\ FInv (tx1 cf s (URefTree k)).
Proof.
  intros Hao (Dq & Dr & Da & Dl) [HJ Hb]. unfold tx1.
  destruct (mcommit_tx cf s [URefTree k]) as [s' code] eqn:E. cbn [fst]. revert E.
  unfold mcommit_tx, static_ref_code. cbn [prepare static_code existsb]. rewrite Hao. cbn [negb andb orb].
  destruct (m_rc cf) eqn:Hrc; cbn [negb N.eqb].
  - cbn [prepare p_roots p_kv p_nodes p_check p_used existsb app items_of negb orb to_overlay].
    intros E. injection E as <- <-. rewrite Dq. cbn [app].
    set (cid := mcid s + 1).
    set (c := {| mc_id := cid; mc_first := cid; mc_items := [MRootRef k]; mc_check := false; mc_used := [] |}).
    set (S := {| roots := roots s; nodes := nodes s; nrc := nrc s; kv := kv s; rov := rov s; aov := aov s; kvov := kvov s;
                 mqueue := [c]; mcid := cid; next_id := next_id s; locked := locked s; readers := readers s; to_deref := to_deref s |}).
    destruct (mprocess_single cf S c eq_refl eq_refl) as [fuel Hm]. rewrite Hm. clear Hm. subst c. cbn [mc_id mc_items fold_left clean_ov].
    set (B := with_queue S []).
    assert (HsB : store_eq s B) by (unfold B, with_queue, S, store_eq; cbn; repeat split; reflexivity).
    assert (HJB : J B []) by (eapply J_store_eq; [exact HsB|exact HJ]).
    pose proof (rootref_J cf fuel B k HJB) as G1.
    destruct (apply_ctl cf fuel B (MRootRef k)) as (Al & Ai & Ar). cbv zeta in Al, Ai, Ar.
    split.
    + split; [rewrite apply_queue; reflexivity|]. split; [rewrite Ar; exact Dr|]. split; [|rewrite Al; exact Dl].
      cbn [apply_item]. destruct (alook (roots B) k) as [[n0 c0]|]; [destruct (m_rc cf)|]; exact Da.
    + split; [exact G1|]. rewrite Ai. cbn [B with_queue S next_id].
      cbn [apply_item]. destruct (alook (roots B) k) as [[n0 c0]|]; [destruct (m_rc cf)|]; exact Hb.
  - intros E. injection E as <- <-. rewrite mprocess_empty by exact Dq. split; [repeat split; assumption|split; assumption].
Qed.

Lemma weight_le l : (weight l <= fold_right (fun (e : nid * node) a => 2 + length (n_children (snd e)) + a) 0 l)%nat.
Proof. induction l as [|e l IH]; cbn [weight fold_right]; [lia|]. fold (weight l). lia. Qed.

Lemma dec_to_deref_frame s k : let s' := dec_to_deref s k in
  store_eq s' s /\ rov s' = rov s /\ aov s' = aov s /\ locked s' = locked s /\ next_id s' = next_id s /\ mqueue s' = mqueue s.
Proof. unfold dec_to_deref. destruct (alook (to_deref s) k); cbv zeta; unfold store_eq; cbn; repeat split; reflexivity. Qed.

Lemma apply_deref_nodes_sub cf fuel s k cs x :
  In x (map fst (nodes (apply_item cf fuel s (MDerefChildren k cs)))) -> In x (map fst (nodes s)).
Proof.
  cbn [apply_item]. destruct (alook (roots s) k) as [[n0 c]|]; [|tauto]. destruct (m_rc cf && (1 <? c)); [tauto|].
  intros H. destruct (deref_ctl fuel (set_store s (adel (roots s) k) (nodes s) (nrc s)) cs) as (_ & _ & _ & D). exact (D x H).
Qed.

Theorem tx_deref cf s k :
  m_append_only cf = false -> drained s -> FInv s ->
  drained (tx1 cf s (UDerefTree k)) /\ FInv (tx1 cf s (UDerefTree k)).
Proof.
  intros Hao (Dq & Dr & Da & Dl) [HJ Hb]. unfold tx1.
  destruct (mcommit_tx cf s [UDerefTree k]) as [s' code] eqn:E. cbn [fst]. revert E.
  unfold mcommit_tx, static_ref_code. cbn [prepare static_code existsb]. rewrite Hao. cbn [negb N.eqb].
  replace (get_root s k) with (option_map fst (alook (roots s) k)) by (unfold get_root; rewrite Dr; reflexivity).
  destruct (alook (roots s) k) as [[r c]|] eqn:Ek; cbn [option_map fst].
  - cbn [prepare p_roots p_kv p_nodes p_check p_used existsb app items_of negb N.eqb to_overlay].
    intros E. injection E as <- <-. rewrite Dq. cbn [app].
    set (cid := mcid s + 1). set (its := [MDerefChildren k (n_children r)]).
    set (td := aput (to_deref s) k (match alook (to_deref s) k with Some c0 => c0 | None => 0 end + 1)).
    set (c0 := {| mc_id := cid; mc_first := cid; mc_items := its; mc_check := true; mc_used := [] |}).
    set (S := {| roots := roots s; nodes := nodes s; nrc := nrc s; kv := kv s; rov := rov s; aov := aov s; kvov := kvov s;
                 mqueue := [c0]; mcid := cid; next_id := next_id s; locked := locked s; readers := readers s; to_deref := td |}).
    unfold mprocess. cbn [mqueue S]. unfold must_defer. cbn [mc_check c0 mc_items its deref_keys flat_map app existsb andb locked S].
    rewrite Dl. cbn [amem existsb orb waits_for]. cbn [fold_left].
    destruct (dec_to_deref_frame S k) as (Hse & Hr0 & Ha0 & Hl0 & Hi0 & Hq0). cbv zeta in *. set (s0 := dec_to_deref S k) in *.
    match goal with |- context [apply_item cf ?f] => set (fuel := f) end. unfold its at 2 4. cbn [fold_left].
    set (B := with_queue s0 []).
    assert (HsB : store_eq s B).
    { unfold B, with_queue, store_eq. cbn [roots nodes nrc kv]. destruct Hse as (A1 & A2 & A3 & A4). rewrite A1, A2, A3, A4. cbn. repeat split; reflexivity. }
    assert (HJB : J B []) by (eapply J_store_eq; [exact HsB|exact HJ]).
    assert (HaB : aov B = []) by (unfold B, with_queue; cbn [aov]; rewrite Ha0; exact Da).
    assert (HkB : alook (roots B) k = Some (r, c)) by (destruct HsB as (Hr & _); rewrite <- Hr; exact Ek).
    assert (HnB : nodes B = nodes s) by (destruct HsB as (_ & Hn & _); symmetry; exact Hn).
    assert (Hfuel : (length (n_children r) + weight (nodes B) <= fuel)%nat).
    { unfold fuel. rewrite HnB. destruct Hse as (_ & A2 & _). rewrite A2. cbn [S nodes its fold_right]. pose proof (weight_le (nodes s)). lia. }
    assert (HoB : ovfree B) by (intros i _; rewrite HaB; reflexivity).
    destruct (deref_root_J cf fuel B k r c HJB HoB HkB Hfuel) as [G1 G2]. cbv zeta in G1, G2. cbn [clean_ov mc_id mc_items c0 its].
    destruct (apply_ctl cf fuel B (MDerefChildren k (n_children r))) as (Al & Ai & Ar). cbv zeta in Al, Ai, Ar.
    split.
    + split; [rewrite apply_queue; reflexivity|]. split; [rewrite Ar; unfold B, with_queue; cbn [rov]; rewrite Hr0; exact Dr|]. split; [rewrite G2; exact HaB|].
      rewrite Al. unfold B, with_queue. cbn [locked]. rewrite Hl0. exact Dl.
    + split; [exact G1|]. intros id Hid. apply apply_deref_nodes_sub in Hid. rewrite HnB in Hid. rewrite Ai. unfold B, with_queue. cbn [next_id]. rewrite Hi0. exact (Hb id Hid).
  - cbn [N.eqb negb]. intros E. injection E as <- <-. rewrite mprocess_empty by exact Dq. split; [repeat split; assumption|split; assumption].
Qed.

(* ---- every history of single-operation transactions, each one processed before the next is made ---- *)
Inductive forest_ok (s : mstate) : uop -> Prop :=
| ok_insert k t : alook (roots s) k = None -> (forall i, In i (existing_ids t) -> In i (map fst (nodes s))) -> forest_ok s (UInsertTree k t)
| ok_ref k : forest_ok s (URefTree k)
| ok_deref k : forest_ok s (UDerefTree k).
Inductive forest_run (cf : mcfg) : mstate -> Prop :=
| run_init : forest_run cf minit
| run_step s op : forest_run cf s -> forest_ok s op -> forest_run cf (tx1 cf s op)
| run_reopen s : forest_run cf s -> forest_run cf (mreopen cf s)      (* drop + open *)
| run_crash s : forest_run cf s -> forest_run cf (mcrash s).          (* process crash + open *)

Lemma J_init : J minit [].
Proof. constructor; cbn; try constructor; try tauto; try discriminate. Qed.

Theorem forest_inv cf s : m_append_only cf = false -> forest_run cf s -> drained s /\ FInv s.
Proof.
  intros Hao Hr. induction Hr as [|s op Hr [IHd IHf] Hok|s Hr [IHd IHf]|s Hr [IHd IHf]].
  - split; [repeat split; reflexivity|]. split; [exact J_init|]. intros id [].
  - destruct Hok as [k t Hk Hex|k|k]; [apply tx_insert|apply tx_ref|apply tx_deref]; assumption.
  - (* nothing is queued: the reopened store is the store *)
    destruct IHd as (Dq & Dr & Da & Dl). destruct IHf as [HJ Hb]. unfold mreopen. cbn [mqueue]. rewrite Dq. cbn [length Nat.mul mprocess_all].
    split; [repeat split; reflexivity|]. split; [|exact Hb].
    eapply J_store_eq; [|exact HJ]. unfold store_eq. cbn. repeat split; reflexivity.
  - destruct IHf as [HJ Hb]. unfold mcrash. split; [repeat split; reflexivity|]. split; [|exact Hb].
    eapply J_store_eq; [|exact HJ]. unfold store_eq. cbn. repeat split; reflexivity.
Qed.

Theorem all_dereferenced_is_empty cf s : m_append_only cf = false -> forest_run cf s -> roots s = [] ->
  nodes s = [] /\ nrc s = [] /\ num_entries s = 0.
Proof.
  intros Hao Hr Hroots. destruct (forest_inv cf s Hao Hr) as [_ [HJ _]]. destruct (no_root_no_node s HJ Hroots) as [Hn Hc].
  split; [exact Hn|]. split; [|unfold num_entries; rewrite Hroots, Hn; reflexivity].
  destruct (nrc s) as [|[id c] l]; [reflexivity|]. specialize (Hc id). cbn [alook] in Hc. rewrite N.eqb_refl in Hc. discriminate.
Qed.

Theorem reachable_nodes_are_stored cf s id : m_append_only cf = false -> forest_run cf s -> reach s id -> exists n, get_node s id = Some n.
Proof.
  intros Hao Hr Hre. destruct (forest_inv cf s Hao Hr) as [(_ & _ & Da & _) [HJ _]]. destruct (reachable_is_stored s id HJ Hre) as [n Hn].
  exists n. unfold get_node. rewrite Da. exact Hn.
Qed.

(* the count of a stored node is the number of references to it *)
Theorem count_is_number_of_references cf s id : m_append_only cf = false -> forest_run cf s -> In id (map fst (nodes s)) ->
  N.to_nat (cnt s id) = (occ (kids_r (roots s)) id + occ (kids_n (nodes s)) id)%nat.
Proof. intros Hao Hr Hid. destruct (forest_inv cf s Hao Hr) as [_ [HJ _]]. rewrite (j_count s [] HJ id Hid). cbn [count_occ]. lia. Qed.
