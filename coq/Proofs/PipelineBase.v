(* Basic lemmas about the association lists and the two overlay layers of Model/Pipeline.v *)
From Coq Require Import NArith List Bool Lia.
From PDB Require Import Model.Pipeline.
Import ListNotations.
Open Scope N_scope.

Lemma loc_eqb_spec a b : reflect (a = b) (loc_eqb a b).
Proof.
  destruct a as [a1 a2], b as [b1 b2]. unfold loc_eqb; cbn [fst snd].
  destruct (N.eqb_spec a1 b1), (N.eqb_spec a2 b2); cbn; constructor; congruence.
Qed.
Lemma loc_eqb_refl a : loc_eqb a a = true.
Proof. destruct (loc_eqb_spec a a); congruence. Qed.
Lemma loc_eqb_sym a b : loc_eqb a b = loc_eqb b a.
Proof. destruct (loc_eqb_spec a b), (loc_eqb_spec b a); congruence. Qed.

Section Assoc.
Context {A : Type}.
Implicit Types (m : list (loc * A)) (l : loc).

Lemma look_del m l l' : look (del m l) l' = if loc_eqb l l' then None else look m l'.
Proof.
  unfold del. induction m as [|[l0 a] m IH]; cbn [filter look fst].
  - destruct (loc_eqb l l'); reflexivity.
  - destruct (loc_eqb_spec l0 l) as [->|Hne]; cbn [negb].
    + rewrite IH. destruct (loc_eqb_spec l l'); reflexivity.
    + cbn [look]. rewrite IH. destruct (loc_eqb_spec l0 l') as [->|]; [|reflexivity].
      destruct (loc_eqb_spec l l'); [congruence|reflexivity].
Qed.

Lemma look_put m l a l' : look (put m l a) l' = if loc_eqb l l' then Some a else look m l'.
Proof. unfold put. cbn [look]. destruct (loc_eqb l l') eqn:E; [reflexivity|]. rewrite look_del, E. reflexivity. Qed.
End Assoc.

(* ---- last write of a write list ---- *)
Fixpoint lastw {A} (ws : list (loc * A)) (l : loc) : option A :=
  match ws with
  | [] => None
  | (l', c) :: rest => match lastw rest l with Some c' => Some c' | None => if loc_eqb l' l then Some c else None end
  end.
Definition memw {A} (ws : list (loc * A)) (l : loc) : bool := existsb (fun e => loc_eqb (fst e) l) ws.

Lemma lastw_memw {A} (ws : list (loc * A)) l : memw ws l = match lastw ws l with Some _ => true | None => false end.
Proof.
  unfold memw. induction ws as [|[l' c] ws IH]; cbn [existsb lastw fst]; [reflexivity|]. rewrite IH.
  destruct (lastw ws l); [apply orb_true_r|]. destruct (loc_eqb l' l); reflexivity.
Qed.

Lemma lastw_app {A} (a b : list (loc * A)) l :
  lastw (a ++ b) l = match lastw b l with Some c => Some c | None => lastw a l end.
Proof.
  induction a as [|[l' c] a IH]; cbn; [destruct (lastw b l); reflexivity|].
  rewrite IH. destruct (lastw b l); [reflexivity|]. reflexivity.
Qed.

(* ---- tables ---- *)
Lemma tb_read_write t l c l' : tb_read (tb_write t l c) l' = if loc_eqb l l' then c else tb_read t l'.
Proof.
  unfold tb_read, tb_write. destruct c as [x|].
  - rewrite look_put. reflexivity.
  - rewrite look_del. reflexivity.
Qed.

Lemma enact_writes_read ws : forall t l,
  tb_read (enact_writes ws t) l = match lastw ws l with Some c => c | None => tb_read t l end.
Proof.
  induction ws as [|[l0 c] ws IH]; intros t l; cbn [enact_writes lastw]; [reflexivity|].
  rewrite IH. destruct (lastw ws l); [reflexivity|]. rewrite tb_read_write. destruct (loc_eqb l0 l); reflexivity.
Qed.

(* ---- log overlay ---- *)
Lemma publish_look r ws : forall lo l,
  look (publish r ws lo) l = match lastw ws l with Some c => Some (r, c) | None => look lo l end.
Proof.
  induction ws as [|[l0 c] ws IH]; intros lo l; cbn [publish lastw]; [reflexivity|].
  rewrite IH. destruct (lastw ws l); [reflexivity|]. rewrite look_put. destruct (loc_eqb l0 l); reflexivity.
Qed.

Lemma retire_look r ws : forall lo l,
  look (retire r ws lo) l =
  match look lo l with
  | Some (i, c) => if (i =? r) && memw ws l then None else Some (i, c)
  | None => None
  end.
Proof.
  induction ws as [|[l0 c0] ws IH]; intros lo l; cbn [retire memw existsb fst].
  - destruct (look lo l) as [[i c]|]; [rewrite andb_false_r|]; reflexivity.
  - rewrite IH. fold (memw ws l).
    destruct (look lo l0) as [[i0 c1]|] eqn:E0.
    + destruct (i0 =? r) eqn:Ei.
      * rewrite look_del. destruct (loc_eqb_spec l0 l) as [->|Hne].
        -- rewrite E0, Ei. reflexivity.
        -- cbn [orb]. reflexivity.
      * destruct (look lo l) as [[i c]|] eqn:El; [|reflexivity].
        destruct (loc_eqb_spec l0 l) as [->|Hne]; cbn [orb]; [|reflexivity].
        rewrite E0 in El. injection El as <- <-. rewrite Ei. reflexivity.
    + destruct (look lo l) as [[i c]|] eqn:El; [|reflexivity].
      destruct (loc_eqb_spec l0 l) as [->|Hne]; cbn [orb]; [congruence|reflexivity].
Qed.

(* ---- batches tagged with an increasing id, and the entry the last of them leaves at a location.
   Instantiated for log records (tag = record id, entries = cell writes) and for queued commits
   (tag = commit id, entries = commit-overlay entries). ---- *)
Section Tagged.
Context {B A : Type} (tag : B -> N) (wr : B -> list (loc * A)).

Definition acct (l : loc) (acc : option (N * A)) (b : B) : option (N * A) :=
  match lastw (wr b) l with Some c => Some (tag b, c) | None => acc end.
Definition last_tagged (P : list B) (l : loc) : option (N * A) := fold_left (acct l) P None.

Lemma fold_acct P l : forall acc,
  fold_left (acct l) P acc = match fold_left (acct l) P None with Some x => Some x | None => acc end.
Proof.
  induction P as [|r P IH]; intros acc; cbn [fold_left]; [reflexivity|].
  rewrite IH, (IH (acct l None r)). destruct (fold_left (acct l) P None); [reflexivity|].
  unfold acct. destruct (lastw (wr r) l); reflexivity.
Qed.
Lemma last_tagged_cons r P l :
  last_tagged (r :: P) l = match last_tagged P l with Some x => Some x | None => acct l None r end.
Proof. unfold last_tagged. cbn [fold_left]. apply fold_acct. Qed.
Lemma last_tagged_snoc P r l : last_tagged (P ++ [r]) l = acct l (last_tagged P l) r.
Proof. unfold last_tagged. rewrite fold_left_app. reflexivity. Qed.
Lemma last_tagged_app P Q l :
  last_tagged (P ++ Q) l = match last_tagged Q l with Some x => Some x | None => last_tagged P l end.
Proof. unfold last_tagged. rewrite fold_left_app. apply fold_acct. Qed.

Fixpoint incr_lt (lb : N) (P : list B) (ub : N) : Prop :=
  match P with
  | [] => lb <= ub
  | r :: P' => lb <= tag r /\ incr_lt (tag r + 1) P' ub
  end.

Lemma incr_lt_bounds lb P ub : incr_lt lb P ub -> lb <= ub /\ forall r, In r P -> lb <= tag r < ub.
Proof.
  revert lb. induction P as [|r P IH]; intros lb H; cbn in H.
  - split; [exact H|intros r []].
  - destruct H as [H1 H2]. destruct (IH _ H2) as [H3 H4]. split; [lia|].
    intros r' [<-|Hin]; [lia|]. specialize (H4 _ Hin). lia.
Qed.
Lemma incr_lt_snoc lb P r : incr_lt lb P (tag r) -> incr_lt lb (P ++ [r]) (tag r + 1).
Proof.
  revert lb. induction P as [|r0 P IH]; intros lb H; cbn in *.
  - split; lia.
  - destruct H as [H1 H2]. split; [exact H1|]. apply IH. exact H2.
Qed.
Lemma incr_lt_weaken lb lb' P ub : lb' <= lb -> incr_lt lb P ub -> incr_lt lb' P ub.
Proof. destruct P; cbn; intros H H0; [lia|]. destruct H0. split; [lia|assumption]. Qed.
Lemma incr_lt_ub lb P ub ub' : ub <= ub' -> incr_lt lb P ub -> incr_lt lb P ub'.
Proof. revert lb. induction P as [|r P IH]; cbn; intros lb H H0; [lia|]. destruct H0. split; [assumption|]. apply IH; assumption. Qed.

Lemma last_tagged_tag P l i c : last_tagged P l = Some (i, c) -> exists r, In r P /\ tag r = i.
Proof.
  induction P as [|r P IH] using rev_ind; [discriminate|].
  rewrite last_tagged_snoc. unfold acct. destruct (lastw (wr r) l).
  - intros H; injection H as <- <-. exists r. split; [apply in_or_app; right; left; reflexivity|reflexivity].
  - intros H. destruct (IH H) as (q & Hin & Hq). exists q. split; [apply in_or_app; left; exact Hin|exact Hq].
Qed.

(* removing the head batch: entries of later batches carry a larger tag *)
Lemma head_tag_distinct lb r P ub l i c :
  incr_lt lb (r :: P) ub -> last_tagged P l = Some (i, c) -> (i =? tag r) = false.
Proof.
  intros [_ H] Hl. apply last_tagged_tag in Hl as (q & Hin & <-).
  apply incr_lt_bounds in H as [_ H]. specialize (H _ Hin). apply N.eqb_neq. lia.
Qed.
End Tagged.

Definition last_pending := last_tagged rid writes.

Lemma replay_read P : forall t l,
  tb_read (replay P t) l = match last_pending P l with Some (_, c) => c | None => tb_read t l end.
Proof.
  induction P as [|r P IH]; intros t l; cbn [replay]; [reflexivity|].
  unfold last_pending in *. rewrite IH, last_tagged_cons. destruct (last_tagged rid writes P l) as [[i c]|]; [reflexivity|].
  rewrite enact_writes_read. unfold acct. destruct (lastw (writes r) l); reflexivity.
Qed.

Lemma lastw_rev {A} (m : list (loc * A)) l : lastw (rev m) l = look m l.
Proof.
  induction m as [|[l0 a] m IH]; cbn [rev look]; [reflexivity|].
  rewrite lastw_app. cbn [lastw]. destruct (loc_eqb l0 l); [reflexivity|exact IH].
Qed.
