(* What the validation of the replay guarantees about WHERE an accepted index / counter action writes:
   inside the file of the table it names. This is the statement whose failure was defect F26
   (IndexTable::validate_plan compared a chunk index with the number of entries). The factor by which the
   code's bound exceeds the number of chunks is regenerated from the source (Gen/Consts.v:
   [index_validate_chunk_factor] is 1 for `total_chunks`, CHUNK_ENTRIES for `total_entries`). *)
From Coq Require Import NArith Arith List Bool Lia.
From PDB Require Import Gen.Consts Model.WalCodec.
Import ListNotations.
Open Scope N_scope.

(* index.rs: file_size = total_entries * 8 + META_SIZE; enact_plan writes CHUNK_LEN bytes at META_SIZE + index * CHUNK_LEN *)
Definition index_file_size (bits : N) : N := 2 ^ bits * index_chunk_entries * index_entry_bytes + index_meta_size.
Definition index_write_end (i : N) : N := index_meta_size + i * index_chunk_len + index_chunk_len.
(* ref_count.rs: file_size = total_entries * ENTRY_BYTES + META_SIZE, chunks of CHUNK_ENTRIES entries *)
Definition refcount_file_size (bits : N) : N := 2 ^ bits * refcount_chunk_entries * refcount_entry_bytes + refcount_meta_size.
Definition refcount_write_end (i : N) : N := refcount_meta_size + (i + 1) * (refcount_chunk_entries * refcount_entry_bytes).

Lemma take_length n b x r : take n b = Some (x, r) -> length x = n.
Proof.
  unfold take. destruct (Nat.leb_spec n (length b)) as [H|H]; [|discriminate]. intros E. inversion E. subst.
  apply firstn_length_le. exact H.
Qed.

Lemma chunk_write_inside bits i : i < 2 ^ bits -> index_write_end i <= index_file_size bits.
Proof.
  intros H. unfold index_write_end, index_file_size.
  replace index_chunk_len with 512 by reflexivity. replace index_chunk_entries with 64 by reflexivity.
  replace index_entry_bytes with 8 by reflexivity. revert H. generalize (2 ^ bits) index_meta_size. intros B M H. lia.
Qed.

Theorem accepted_index_action_in_range ncols b t i m es rest :
  parse_action ncols b = AOk (AIndex t i m es) rest ->
  t / 256 < ncols /\ i < 2 ^ (t mod 256) /\ index_write_end i <= index_file_size (t mod 256) /\
  length es = (popcount 64 m * 8)%nat.
Proof.
  unfold parse_action. destruct b as [|op r]; [discriminate|].
  destruct (op =? log_end_record); [discriminate|].
  destruct ((op =? log_insert_index) || (op =? log_insert_ref_count)) eqn:Eop.
  - destruct (take 18 r) as [[h r1]|]; [|discriminate].
    destruct (N.leb_spec ncols (unle (firstn 2 h) / 256)) as [|Hc]; [discriminate|].
    destruct (op =? log_insert_index) eqn:Ei.
    + cbn [andb].
      destruct (N.leb_spec (2 ^ (unle (firstn 2 h) mod 256) * index_validate_chunk_factor) (unle (firstn 8 (skipn 2 h)))) as [|Hi]; [discriminate|].
      destruct ((op =? log_insert_ref_count) && _); [discriminate|].
      destruct (take _ r1) as [[es' r2]|] eqn:Et; [|discriminate].
      intros E. inversion E. subst. clear E.
      assert (Hi' : unle (firstn 8 (skipn 2 h)) < 2 ^ (unle (firstn 2 h) mod 256)).
      { unfold index_validate_chunk_factor in Hi. rewrite N.mul_1_r in Hi. exact Hi. }
      split; [exact Hc|]. split; [exact Hi'|]. split.
      * apply chunk_write_inside. exact Hi'.
      * apply (take_length _ _ _ _ Et).
    + cbn [andb]. destruct ((op =? log_insert_ref_count) && _); [discriminate|].
      destruct (take _ r1) as [[es' r2]|]; discriminate.
  - destruct (op =? log_insert_value).
    + destruct (take 10 r) as [[h r1]|]; [|discriminate].
      repeat match goal with |- context [if ?c then _ else _] => destruct c; try discriminate end.
      all: try (destruct (value_len _ _ _); try discriminate).
      all: try (destruct (take _ _) as [[? ?]|]; discriminate).
    + repeat match goal with |- context [if ?c then _ else _] => destruct c; try discriminate end.
      all: try (destruct (take _ _) as [[? ?]|]; try discriminate).
Qed.

Lemma counter_chunk_write_inside bits i : i < 2 ^ bits -> refcount_write_end i <= refcount_file_size bits.
Proof.
  intros H. unfold refcount_write_end, refcount_file_size, refcount_entry_bytes.
  replace refcount_chunk_entries with 32 by reflexivity. replace refcount_meta_size with 0 by reflexivity.
  revert H. generalize (2 ^ bits). intros B H. lia.
Qed.

Theorem accepted_counter_action_in_range ncols b t i m es rest :
  parse_action ncols b = AOk (ARefc t i m es) rest ->
  t / 256 < ncols /\ i < 2 ^ (t mod 256) /\ refcount_write_end i <= refcount_file_size (t mod 256) /\
  length es = (popcount 64 m * 16)%nat.
Proof.
  unfold parse_action. destruct b as [|op r]; [discriminate|].
  destruct (op =? log_end_record); [discriminate|].
  destruct ((op =? log_insert_index) || (op =? log_insert_ref_count)) eqn:Eop.
  - destruct (take 18 r) as [[h r1]|]; [|discriminate].
    destruct (N.leb_spec ncols (unle (firstn 2 h) / 256)) as [|Hc]; [discriminate|].
    destruct (op =? log_insert_index) eqn:Ei.
    + cbn [andb]. destruct (_ <=? _); [discriminate|].
      destruct ((op =? log_insert_ref_count) && _); [discriminate|].
      destruct (take _ r1) as [[es' r2]|]; discriminate.
    + cbn [orb andb] in *. rewrite Eop. cbn [andb].
      destruct (N.leb_spec (2 ^ (unle (firstn 2 h) mod 256) * refcount_validate_chunk_factor) (unle (firstn 8 (skipn 2 h)))) as [|Hi]; [discriminate|].
      destruct (take _ r1) as [[es' r2]|] eqn:Et; [|discriminate].
      assert (Hi' : unle (firstn 8 (skipn 2 h)) < 2 ^ (unle (firstn 2 h) mod 256)).
      { unfold refcount_validate_chunk_factor in Hi. rewrite N.mul_1_r in Hi. exact Hi. }
      intros E. inversion E. subst. clear E.
      split; [exact Hc|]. split; [exact Hi'|]. split.
      * apply counter_chunk_write_inside. exact Hi'.
      * apply (take_length _ _ _ _ Et).
  - destruct (op =? log_insert_value).
    + destruct (take 10 r) as [[h r1]|]; [|discriminate].
      repeat match goal with |- context [if ?c then _ else _] => destruct c; try discriminate end.
      all: try (destruct (value_len _ _ _); try discriminate).
      all: try (destruct (take _ _) as [[? ?]|]; discriminate).
    + repeat match goal with |- context [if ?c then _ else _] => destruct c; try discriminate end.
      all: try (destruct (take _ _) as [[? ?]|]; try discriminate).
Qed.
