From Coq Require Import NArith List Bool Lia.
From PDB Require Import Model.Lock.
Import ListNotations.
Open Scope N_scope.

(* the live handles are exactly the holder *)
Definition agrees (s : lstate) (acc : list N) : Prop :=
  match holder s with None => acc = [] | Some h => acc = [h] end.

Lemma live_agrees ops : forall s acc, agrees s acc -> (forall h, In (LOpen h) ops -> ~ In h acc) ->
  NoDup (flat_map (fun o => match o with LOpen h => [h] | _ => [] end) ops) ->
  agrees (fst (lrun s ops)) (live s ops acc).
Proof.
  induction ops as [|o ops IH]; intros s acc Ha Hfresh Hnd; [exact Ha|].
  cbn [lrun live]. destruct (lstep s o) as [s1 x] eqn:E. destruct (lrun s1 ops) as [s2 xs] eqn:E2. cbn [fst].
  replace s2 with (fst (lrun s1 ops)) by (rewrite E2; reflexivity).
  assert (Hnd' : NoDup (flat_map (fun o => match o with LOpen h => [h] | _ => [] end) ops)).
  { cbn [flat_map] in Hnd. destruct o; cbn [app] in Hnd; try exact Hnd. inversion Hnd; assumption. }
  destruct o as [h|h|h|h c]; cbn [lstep] in E.
  - (* open *)
    unfold agrees in Ha. destruct (holder s) as [h'|] eqn:Eh.
    + injection E as <- <-. cbn [N.eqb]. apply IH; [unfold agrees; rewrite Eh; exact Ha| |exact Hnd'].
      intros h0 Hin. apply Hfresh. right. exact Hin.
    + injection E as <- <-. cbn [N.eqb]. subst acc. apply IH; [reflexivity| |exact Hnd'].
      intros h0 Hin [<-|[]]. cbn [flat_map app] in Hnd. inversion Hnd as [|a l Hn _]; subst. apply Hn.
      apply in_flat_map. exists (LOpen h). split; [exact Hin|left; reflexivity].
  - (* drop *)
    unfold agrees in Ha. destruct (holder s) as [h'|] eqn:Eh.
    + destruct (N.eqb_spec h' h) as [->|Hne]; injection E as <- <-.
      * subst acc. apply IH; [cbn; rewrite N.eqb_refl; reflexivity| |exact Hnd'].
        intros h0 Hin. cbn. rewrite N.eqb_refl. cbn. intros [].
      * subst acc. apply IH; [unfold agrees; rewrite Eh; cbn; destruct (N.eqb_spec h' h); [contradiction|reflexivity]| |exact Hnd'].
        intros h0 Hin. cbn. destruct (N.eqb_spec h' h); [contradiction|]. cbn. intros [<-|[]]. apply (Hfresh h'); [right; exact Hin|left; reflexivity].
    + injection E as <- <-. subst acc. apply IH; [unfold agrees; rewrite Eh; reflexivity|intros h0 Hin []|exact Hnd'].
  - (* kill *)
    unfold agrees in Ha. destruct (holder s) as [h'|] eqn:Eh.
    + destruct (N.eqb_spec h' h) as [->|Hne]; injection E as <- <-.
      * subst acc. apply IH; [cbn; rewrite N.eqb_refl; reflexivity| |exact Hnd'].
        intros h0 Hin. cbn. rewrite N.eqb_refl. cbn. intros [].
      * subst acc. apply IH; [unfold agrees; rewrite Eh; cbn; destruct (N.eqb_spec h' h); [contradiction|reflexivity]| |exact Hnd'].
        intros h0 Hin. cbn. destruct (N.eqb_spec h' h); [contradiction|]. cbn. intros [<-|[]]. apply (Hfresh h'); [right; exact Hin|left; reflexivity].
    + injection E as <- <-. subst acc. apply IH; [unfold agrees; rewrite Eh; reflexivity|intros h0 Hin []|exact Hnd'].
  - (* write *)
    unfold agrees in Ha. destruct (holder s) as [h'|] eqn:Eh.
    + destruct (N.eqb_spec h' h) as [->|Hne]; injection E as <- <-.
      * apply IH; [exact Ha| |exact Hnd']. intros h0 Hin. apply Hfresh. right. exact Hin.
      * apply IH; [unfold agrees; rewrite Eh; exact Ha| |exact Hnd']. intros h0 Hin. apply Hfresh. right. exact Hin.
    + injection E as <- <-. apply IH; [unfold agrees; rewrite Eh; exact Ha| |exact Hnd']. intros h0 Hin. apply Hfresh. right. exact Hin.
Qed.

(* at most one live handle, after every history in which every open attempt uses a fresh name *)
Theorem at_most_one_live ops c0 :
  NoDup (flat_map (fun o => match o with LOpen h => [h] | _ => [] end) ops) ->
  (length (live {| holder := None; content := c0 |} ops []) <= 1)%nat.
Proof.
  intros Hnd. pose proof (live_agrees ops {| holder := None; content := c0 |} [] eq_refl (fun _ _ H => H) Hnd) as H.
  unfold agrees in H. destruct (holder (fst (lrun {| holder := None; content := c0 |} ops))); rewrite H; cbn; lia.
Qed.

(* an open attempt while a handle is alive fails with the lock error and changes nothing *)
Theorem second_open_fails_inert s h h' : holder s = Some h' -> lstep s (LOpen h) = (s, 1).
Proof. intros H. cbn [lstep]. rewrite H. reflexivity. Qed.

(* after the holder is dropped, or its process died, the directory can be opened again *)
Theorem reopen_after_release s h h2 : holder s = Some h ->
  snd (lstep (fst (lstep s (LDrop h))) (LOpen h2)) = 0 /\ snd (lstep (fst (lstep s (LKill h))) (LOpen h2)) = 0.
Proof. intros H. cbn [lstep]. rewrite H, N.eqb_refl. cbn. split; reflexivity. Qed.

(* nobody but the holder changes the directory *)
Theorem only_holder_writes s h c : holder s <> Some h -> lstep s (LWrite h c) = (s, 1).
Proof.
  intros H. cbn [lstep]. destruct (holder s) as [h'|]; [|reflexivity].
  destruct (N.eqb_spec h' h) as [->|]; [contradiction H; reflexivity|reflexivity].
Qed.
