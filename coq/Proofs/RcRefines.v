(* C10: the two layers meet. The multitree model (Model/MultiTree.v) keeps the counts of shared nodes in a plain
   map (absent = one reference); the code keeps them in the reference count tables (Model/RcTable.v). The map
   operations of the multitree model are the account of references the tables are proved to follow, so a lookup in
   the tables gives what the multitree model's map holds - after every history of the table operations. *)
From Coq Require Import NArith List Bool Lia.
From PDB Require Import Model.MultiTree Proofs.MultiTreeReadback Model.RcTable Proofs.RcTableProofs.
Import ListNotations.
Open Scope N_scope.

(* what the multitree model does to its count map when a node gains / loses a reference *)
Definition nrc_inc (m : list (nid * N)) (a : nid) : list (nid * N) :=
  match alook m a with Some c => aput m a (c + 1) | None => aput m a 2 end.
Definition nrc_dec (m : list (nid * N)) (a : nid) : list (nid * N) :=
  match alook m a with Some c => if 2 <? c then aput m a (c - 1) else adel m a | None => m end.
Definition nrc_step (m : list (nid * N)) (o : rop) : list (nid * N) :=
  match o with RInc a _ => nrc_inc m a | RDec a _ => nrc_dec m a | RReindex | RRestart => m end.

Lemma model_incref_is_nrc_inc cf fuel s i : nrc (apply_item cf fuel s (MIncRef i)) = nrc_inc (nrc s) i.
Proof. cbn [apply_item]. unfold nrc_inc. destruct (alook (nrc s) i); reflexivity. Qed.
Lemma model_deref_counted_is_nrc_dec fuel s i c : alook (nrc s) i = Some c ->
  nrc (deref_children (S (S fuel)) s [i]) = nrc_dec (nrc s) i.
Proof. intros H. cbn [deref_children]. unfold nrc_dec. rewrite H. destruct (2 <? c); reflexivity. Qed.

Lemma nrc_step_spec m o a : alook (nrc_step m o) a = spec_step (alook m) o a.
Proof.
  destruct o as [b h|b h| |]; cbn [nrc_step spec_step]; try reflexivity.
  - unfold nrc_inc, spec_inc, upd. destruct (N.eqb_spec a b) as [->|Hne].
    + destruct (alook m b); apply alook_aput_eq.
    + destruct (alook m b); apply alook_aput_neq; exact Hne.
  - unfold nrc_dec, spec_dec, upd. destruct (alook m b) as [c|] eqn:E; [|reflexivity]. destruct (N.eqb_spec a b) as [->|Hne].
    + destruct (2 <? c); [apply alook_aput_eq|apply alook_adel_eq].
    + destruct (2 <? c); [apply alook_aput_neq|apply alook_adel_neq]; exact Hne.
Qed.
Lemma spec_step_ext sp sp' o : (forall x, sp x = sp' x) -> forall x, spec_step sp o x = spec_step sp' o x.
Proof.
  intros H x. destruct o as [b h|b h| |]; cbn [spec_step]; try apply H.
  - unfold spec_inc, upd. rewrite (H b). destruct (x =? b); [reflexivity|apply H].
  - unfold spec_dec, upd. rewrite (H b). destruct (sp' b); [destruct (x =? b); [reflexivity|apply H]|apply H].
Qed.
Lemma nrc_fold_spec ops : forall m sp, (forall x, alook m x = sp x) -> forall x, alook (fold_left nrc_step ops m) x = fold_left spec_step ops sp x.
Proof.
  induction ops as [|o ops IH]; intros m sp H x; cbn [fold_left]; [apply H|]. apply IH. intros y. rewrite nrc_step_spec. apply spec_step_ext. exact H.
Qed.

Theorem tables_refine_count_map (hf : N -> N) : (forall a, hf a < 2 ^ 64) ->
  forall bits ops, Forall (wf_op hf) ops ->
  forall a, rlookup (fold_left rstep ops (rinit bits)) a (hf a) = alook (fold_left nrc_step ops []) a.
Proof.
  intros Hb bits ops Hw a. rewrite (rc_lookup_is_spec hf Hb bits ops Hw a). symmetry. apply nrc_fold_spec. intros x. reflexivity.
Qed.
