(* Log layer of the pipeline model: whatever the stage of every record (appended, flushed,
   being enacted, enacted), a read through the log overlay sees the content after ALL logged
   records; enacting, flushing, cleaning and reopening do not change it. *)
From Coq Require Import NArith List Bool Lia.
From PDB Require Import Model.Pipeline Proofs.PipelineBase.
Import ListNotations.
Open Scope N_scope.

Definition lread (s : pstate) (l : loc) : cell := lov_read (lo s) (tb s) l.

Definition InvLog (s : pstate) : Prop :=
  incr_lt rid 0 (leftover s) (next_rid s) /\ forall l, look (lo s) l = last_pending (leftover s) l.

(* the parts of the state the log steps do not touch *)
Definition same_front (s s' : pstate) : Prop :=
  ov s' = ov s /\ queue s' = queue s /\ next_cid s' = next_cid s /\ bg_err s' = bg_err s.

Lemma same_front_refl s : same_front s s. Proof. repeat split. Qed.
Lemma same_front_trans a b c : same_front a b -> same_front b c -> same_front a c.
Proof. unfold same_front. intros (?&?&?&?) (?&?&?&?). repeat split; congruence. Qed.

Lemma InvLog_init : InvLog init.
Proof. split; [cbn; lia|]. intros l. reflexivity. Qed.

Lemma open_reading_props s :
  let s' := open_reading s in
  leftover s' = leftover s /\ lo s' = lo s /\ tb s' = tb s /\ next_rid s' = next_rid s /\ same_front s s'
  /\ (reading s' = None -> readq s' = [] /\ reading s = None).
Proof.
  unfold open_reading, leftover, same_front. destruct (reading s) as [f|] eqn:Er.
  - rewrite Er. repeat split; try reflexivity; discriminate.
  - destruct (readq s) as [|f rest] eqn:Eq; cbn [reading readq appending lo tb next_rid ov queue next_cid bg_err].
    + rewrite Er, Eq. repeat split; reflexivity.
    + cbn [concat]. rewrite <- app_assoc. repeat split; try reflexivity; discriminate.
Qed.

Ltac conjs := repeat match goal with |- _ /\ _ => split end.
Ltac sf := first [apply same_front_refl | unfold same_front; repeat split; reflexivity].

Lemma enact_one_props s : InvLog s ->
  let s' := fst (enact_one s) in
  InvLog s' /\ (forall l, lread s' l = lread s l) /\ same_front s s' /\ next_rid s' = next_rid s
  /\ (snd (enact_one s) = true -> (length (leftover s') < length (leftover s))%nat)
  /\ (length (leftover s') <= length (leftover s))%nat.
Proof.
  intros [Hinc Hlo]. unfold enact_one.
  destruct (open_reading_props s) as (Hp & Hl & Ht & Hn & Hf & _).
  set (s1 := open_reading s) in *.
  destruct (reading s1) as [[|r rest]|] eqn:Er; cbn [fst snd].
  - (* end of file *)
    set (s2 := {| ov := ov s1; queue := queue s1; next_cid := next_cid s1; lo := lo s1; tb := tb s1;
              next_rid := next_rid s1; appending := appending s1; readq := readq s1; reading := None;
              dirty := dirty s1 + 1; bg_err := bg_err s1 |}).
    assert (Hleft : leftover s2 = leftover s).
    { rewrite <- Hp. unfold leftover. cbn [reading readq appending s2]. rewrite Er. reflexivity. }
    assert (G1 : InvLog s2).
    { split; rewrite Hleft; cbn [next_rid lo s2]; [rewrite Hn; exact Hinc|]. intros l. rewrite Hl. apply Hlo. }
    assert (G2 : forall l, lread s2 l = lread s l).
    { intros l. unfold lread. cbn [lo tb s2]. rewrite Hl, Ht. reflexivity. }
    assert (G3 : same_front s s2) by exact Hf.
    conjs; try assumption; try discriminate. rewrite Hleft. lia.
  - (* enact record r *)
    assert (Hleft0 : leftover s = r :: rest ++ concat (readq s1) ++ appending s1).
    { rewrite <- Hp. unfold leftover. rewrite Er. reflexivity. }
    set (P := rest ++ concat (readq s1) ++ appending s1) in *.
    set (s2 := {| ov := ov s1; queue := queue s1; next_cid := next_cid s1;
              lo := retire (rid r) (writes r) (lo s1); tb := enact_writes (writes r) (tb s1);
              next_rid := next_rid s1; appending := appending s1; readq := readq s1; reading := Some rest;
              dirty := dirty s1; bg_err := bg_err s1 |}).
    assert (Hleft : leftover s2 = P) by reflexivity.
    rewrite Hleft0 in Hinc, Hlo.
    assert (Hlook : forall l, look (lo s2) l = last_pending P l).
    { intros l. cbn [lo s2]. rewrite retire_look, Hl, Hlo. unfold last_pending. rewrite last_tagged_cons.
      destruct (last_tagged rid writes P l) as [[i c]|] eqn:E.
      - rewrite (head_tag_distinct rid writes _ _ _ _ _ _ _ Hinc E). reflexivity.
      - unfold acct. rewrite lastw_memw. destruct (lastw (writes r) l); [|reflexivity].
        rewrite N.eqb_refl. reflexivity. }
    assert (G1 : InvLog s2).
    { split; rewrite Hleft; [|exact Hlook]. cbn [next_rid s2]. rewrite Hn.
      destruct Hinc as [_ Hinc]. eapply incr_lt_weaken; [|exact Hinc]. lia. }
    assert (G2 : forall l, lread s2 l = lread s l).
    { intros l. unfold lread, lov_read. rewrite Hlook, Hlo. cbn [tb s2]. unfold last_pending.
      rewrite last_tagged_cons. destruct (last_tagged rid writes P l) as [[i c]|]; [reflexivity|].
      rewrite enact_writes_read, Ht. unfold acct. destruct (lastw (writes r) l); reflexivity. }
    assert (G3 : same_front s s2) by exact Hf.
    conjs; try assumption; rewrite ?Hleft, Hleft0; cbn [length]; intros; lia.
  - (* nothing to read *)
    assert (G1 : InvLog s1).
    { split; rewrite Hp; [rewrite Hn; exact Hinc|]. intros l. rewrite Hl. apply Hlo. }
    assert (G2 : forall l, lread s1 l = lread s l).
    { intros l. unfold lread. rewrite Hl, Ht. reflexivity. }
    conjs; try assumption; try discriminate. rewrite Hp. lia.
Qed.

Lemma enact_loop_props fuel : forall s, InvLog s ->
  let s' := enact_loop fuel s in
  InvLog s' /\ (forall l, lread s' l = lread s l) /\ same_front s s' /\ next_rid s' = next_rid s
  /\ (length (leftover s') <= length (leftover s))%nat.
Proof.
  induction fuel as [|f IH]; intros s H; cbn [enact_loop].
  - conjs; try assumption; try reflexivity; try apply same_front_refl; try lia.
  - destruct (enact_one_props s H) as (H1 & H2 & H3 & H4 & _ & H6).
    destruct (enact_one s) as [s1 more]; cbn [fst snd] in *. destruct more.
    + destruct (IH s1 H1) as (I1 & I2 & I3 & I4 & I5). conjs; try assumption.
      * intros l. rewrite I2. apply H2.
      * eapply same_front_trans; eassumption.
      * congruence.
      * lia.
    + conjs; assumption.
Qed.

Lemma enact_all_props s : InvLog s ->
  let s' := enact_all s in
  InvLog s' /\ (forall l, lread s' l = lread s l) /\ same_front s s' /\ next_rid s' = next_rid s.
Proof. intros H. unfold enact_all. destruct (enact_loop_props (S (pending_records s)) s H) as (?&?&?&?&?). conjs; assumption. Qed.

Lemma flush_props s : InvLog s ->
  let s' := flush s in
  InvLog s' /\ (forall l, lread s' l = lread s l) /\ same_front s s' /\ next_rid s' = next_rid s.
Proof.
  intros Hinv. pose proof Hinv as [Hinc Hlo]. unfold flush. destruct (appending s) as [|r a] eqn:Ea.
  - conjs; try assumption; try reflexivity; apply same_front_refl.
  - set (s2 := {| ov := ov s; queue := queue s; next_cid := next_cid s; lo := lo s; tb := tb s;
        next_rid := next_rid s; appending := []; readq := readq s ++ [r :: a]; reading := reading s;
        dirty := dirty s; bg_err := bg_err s |}).
    assert (Hleft : leftover s2 = leftover s).
    { unfold leftover. cbn [reading readq appending s2]. rewrite Ea, concat_app. cbn [concat].
      rewrite !app_nil_r. reflexivity. }
    assert (G1 : InvLog s2) by (split; rewrite Hleft; assumption).
    conjs; try assumption; try reflexivity; sf.
Qed.

Lemma clean_props s : InvLog s ->
  let s' := clean s in
  InvLog s' /\ (forall l, lread s' l = lread s l) /\ same_front s s' /\ next_rid s' = next_rid s.
Proof. intros H. cbv zeta. conjs; try reflexivity; try exact H; sf. Qed.

(* ---- the planner ---- *)
Definition apply_op (cf : ccfg) (cur : cell) (o : op) : cell :=
  match plan_op cf cur o with Some w => w | None => cur end.

Definition upd (M : loc -> cell) (l : loc) (c : cell) : loc -> cell := fun x => if loc_eqb l x then c else M x.

Fixpoint apply_tx (cfg : list ccfg) (M : loc -> cell) (t : tx) : loc -> cell :=
  match t with
  | [] => M
  | (c, o) :: rest => apply_tx cfg (upd M (c, op_key o) (apply_op (cfg_of cfg c) (M (c, op_key o)) o)) rest
  end.

Lemma apply_tx_ext cfg t : forall M M', (forall l, M l = M' l) -> forall l, apply_tx cfg M t l = apply_tx cfg M' t l.
Proof.
  induction t as [|[c o] t IH]; intros M M' H l; cbn [apply_tx]; [apply H|].
  apply IH. intros x. unfold upd. rewrite H. destruct (loc_eqb (c, op_key o) x); [reflexivity|apply H].
Qed.

Lemma plan_tx_read cfg lo0 t0 ops : forall local l,
  plan_read (plan_tx cfg lo0 t0 ops local) lo0 t0 l = apply_tx cfg (plan_read local lo0 t0) ops l.
Proof.
  induction ops as [|[c o] ops IH]; intros local l; cbn [plan_tx apply_tx]; [reflexivity|].
  rewrite IH. apply apply_tx_ext. intros x. unfold upd, apply_op.
  destruct (plan_op (cfg_of cfg c) (plan_read local lo0 t0 (c, op_key o)) o) as [w|].
  - unfold plan_read at 1. rewrite look_put. destruct (loc_eqb (c, op_key o) x); reflexivity.
  - destruct (loc_eqb_spec (c, op_key o) x) as [<-|]; reflexivity.
Qed.

Lemma process_props cfg s cid t rest : InvLog s -> queue s = (cid, t) :: rest ->
  let s' := process cfg s in
  InvLog s' /\ (forall l, lread s' l = apply_tx cfg (lread s) t l)
  /\ queue s' = rest /\ ov s' = clean_overlay cid t (ov s) /\ next_cid s' = next_cid s /\ bg_err s' = bg_err s
  /\ next_rid s <= next_rid s'.
Proof.
  intros [Hinc Hlo] Hq. unfold process. rewrite Hq.
  set (ws := rev (plan_tx cfg (lo s) (tb s) t [])).
  set (r := {| rid := next_rid s; writes := ws |}).
  assert (Hleft : leftover {| ov := clean_overlay cid t (ov s); queue := rest; next_cid := next_cid s;
      lo := publish (rid r) ws (lo s); tb := tb s; next_rid := next_rid s + 1; appending := appending s ++ [r];
      readq := readq s; reading := reading s; dirty := dirty s; bg_err := bg_err s |} = leftover s ++ [r]).
  { unfold leftover. cbn [reading readq appending]. rewrite !app_assoc. reflexivity. }
  assert (Hlook : forall l, look (publish (rid r) ws (lo s)) l = last_pending (leftover s ++ [r]) l).
  { intros l. rewrite publish_look. unfold last_pending. rewrite last_tagged_snoc. unfold acct. cbn [writes rid r].
    destruct (lastw ws l); [reflexivity|]. apply Hlo. }
  repeat split; cbn [lo tb next_rid queue ov next_cid bg_err]; try rewrite Hleft; try reflexivity.
  - change (next_rid s + 1) with (rid r + 1). apply incr_lt_snoc. exact Hinc.
  - exact Hlook.
  - intros l. transitivity (apply_tx cfg (plan_read [] (lo s) (tb s)) t l); [|apply apply_tx_ext; intros x; reflexivity].
    rewrite <- (plan_tx_read cfg (lo s) (tb s) t [] l).
    unfold lread, lov_read, plan_read. cbn [lo tb]. rewrite publish_look. unfold ws. rewrite lastw_rev.
    destruct (look (plan_tx cfg (lo s) (tb s) t []) l); reflexivity.
  - lia.
Qed.
