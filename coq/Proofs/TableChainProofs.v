(* C14 (allocator, multi-part values): storing a value in k slots (k allocations, then the links
   head -> part -> ... -> last) and removing it (every slot of the chain cleared, head first) keep
   the table partitioned: every slot below the fill mark is on the free list exactly once or in
   exactly one value chain. The partition (free list fl, chains cs) is explicit here, so that the
   statements say WHICH chain appears and disappears. *)
From Coq Require Import NArith List Bool Arith Lia Permutation.
From PDB Require Import Model.StorageCheck Proofs.StorageCheckProofs Model.TableAlloc Proofs.TableAllocProofs.
Import ListNotations.
Open Scope N_scope.

Definition TInvP (d : tdump) (fl : list N) (cs : list (list N)) : Prop :=
  filled d = N.of_nat (length (slots d)) + 1 /\
  linkedf d (free_head d) fl /\ Forall (chain_wf d) cs /\ Permutation (fl ++ concat cs) (indices d).

Lemma tinvp_tinv d fl cs : TInvP d fl cs -> TInv d.
Proof. intros [Hf [Hfl [Hcs Hp]]]. split; [exact Hf|]. exists fl, cs. repeat split; assumption. Qed.
Lemma tinv_tinvp d : TInv d -> exists fl cs, TInvP d fl cs.
Proof. intros [Hf [fl [cs [Hfl [Hcs Hp]]]]]. exists fl, cs. repeat split; assumption. Qed.

Lemma tinvp_nodup d fl cs : TInvP d fl cs -> NoDup (fl ++ concat cs).
Proof. intros [_ [_ [_ Hp]]]. eapply Permutation_NoDup; [apply Permutation_sym; exact Hp|apply indices_nodup]. Qed.

(* ---- how the set of link targets changes when one slot changes ---- *)
Definition nexts (s : rslot) : list N := match s with RHead nx | RPart nx => [nx] | _ => [] end.
Lemma targets_eq d : targets d = flat_map nexts (slots d).
Proof. reflexivity. Qed.

Lemma in_flat_set_nth (l : list rslot) : forall n s y,
  In y (flat_map nexts (set_nth l n s)) ->
  In y (nexts s) \/ exists k z, k <> n /\ nth_error l k = Some z /\ In y (nexts z).
Proof.
  induction l as [|a l IH]; intros [|n] s y H; cbn [set_nth flat_map] in H; try contradiction.
  - apply in_app_or in H as [H|H]; [left; exact H|].
    right. apply in_flat_map in H as [z [Hz Hy]]. apply In_nth_error in Hz as [k Hk]. exists (S k), z. repeat split; [discriminate|exact Hk|exact Hy].
  - apply in_app_or in H as [H|H].
    + right. exists O, a. repeat split; [discriminate|exact H].
    + destruct (IH n s y H) as [H1|[k [z [Hk [Hz Hy]]]]]; [left; exact H1|].
      right. exists (S k), z. repeat split; [lia|exact Hz|exact Hy].
Qed.

Lemma flat_set_nth_in (l : list rslot) : forall n s y k z,
  k <> n -> nth_error l k = Some z -> In y (nexts z) -> In y (flat_map nexts (set_nth l n s)).
Proof.
  induction l as [|a l IH]; intros n s y k z Hk Hz Hy; [destruct k; discriminate|].
  destruct n as [|n], k as [|k]; cbn [set_nth flat_map]; try contradiction.
  - cbn in Hz. apply in_or_app. right. apply in_flat_map. exists z. split; [eapply nth_error_In; exact Hz|exact Hy].
  - cbn in Hz. injection Hz as <-. apply in_or_app. left. exact Hy.
  - cbn in Hz. apply in_or_app. right. apply (IH n s y k z); [lia|exact Hz|exact Hy].
Qed.

Lemma slot_at_nth d i x : slot_at d i = Some x -> nth_error (slots d) (N.to_nat (i - 1)) = Some x.
Proof. unfold slot_at. destruct ((i =? 0) || (filled d <=? i)); [discriminate|]. intros H; exact H. Qed.

(* a slot without link replaced by one that links to nx: the targets gain nx at most *)
Lemma targets_gain d h i s x y : slot_at d i = Some x -> no_next x = true ->
  In y (targets (upd_slots d h i s)) -> In y (nexts s) \/ In y (targets d).
Proof.
  intros Hx Hn Hy. unfold targets, upd_slots in Hy. cbn [slots] in Hy.
  destruct (in_flat_set_nth _ _ _ _ Hy) as [H|[k [z [Hk [Hz Hyz]]]]]; [left; exact H|].
  right. unfold targets. apply in_flat_map. exists z. split; [eapply nth_error_In; exact Hz|exact Hyz].
Qed.
(* a slot replaced by one without link: the targets only shrink *)
Lemma targets_shrink d h i s y : no_next s = true -> In y (targets (upd_slots d h i s)) -> In y (targets d).
Proof.
  intros Hs Hy. unfold targets, upd_slots in Hy. cbn [slots] in Hy.
  destruct (in_flat_set_nth _ _ _ _ Hy) as [H|[k [z [Hk [Hz Hyz]]]]].
  - destruct s; cbn in Hs; try discriminate; destruct H.
  - unfold targets. apply in_flat_map. exists z. split; [eapply nth_error_In; exact Hz|exact Hyz].
Qed.

Lemma memN_false x l : memN x l = false <-> ~ In x l.
Proof.
  split.
  - intros H Hin. apply memN_in in Hin. rewrite Hin in H. discriminate.
  - intros H. destruct (memN x l) eqn:E; [|reflexivity]. apply memN_in in E. contradiction.
Qed.

(* a chain that does not contain the changed slot survives when its single slot does not become a target *)
Lemma chain_wf_upd_gen d h i s c : i <> 0 -> chain_wf d c -> ~ In i c ->
  (forall j, c = [j] -> ~ In j (targets (upd_slots d h i s))) -> chain_wf (upd_slots d h i s) c.
Proof.
  intros Hi0 [[j [-> [Hs Hm]]]|[j [nx [ps [-> [Hs Hl]]]]]] Hni Ht.
  - left. exists j. repeat split; [|apply memN_false; apply Ht; reflexivity].
    rewrite slot_at_upd_neq; [exact Hs|exact Hi0|]. intros ->. apply Hni. left. reflexivity.
  - right. exists j, nx, ps. repeat split.
    + rewrite slot_at_upd_neq; [exact Hs|exact Hi0|]. intros ->. apply Hni. left. reflexivity.
    + apply linkedp_upd; [exact Hi0|exact Hl|]. intros H. apply Hni. right. exact H.
Qed.

(* ---- one allocation, with the partition explicit ---- *)
Lemma alloc1P d fl cs : TInvP d fl cs ->
  let '(d', i) := alloc1 d in
  TInvP d' (tl fl) ([i] :: cs) /\ i <> 0 /\ slot_at d' i = Some RSize /\ (forall k, k <> i -> slot_at d' k = slot_at d k).
Proof.
  intros HP. pose proof (tinvp_nodup _ _ _ HP) as Hnd0. destruct HP as [Hf [Hfl [Hcs Hp]]].
  destruct (linkedf_inv _ _ _ Hfl) as [[Hh0 ->]|[Hj [nx [l [Hs [-> Hl]]]]]].
  - (* the free list is empty: the slot at the fill mark *)
    unfold alloc1. rewrite Hh0. cbn [slot_at N.eqb orb tl].
    set (d' := {| filled := filled d + 1; free_head := 0; slots := slots d ++ [RSize] |}).
    assert (Hd' : d' = {| filled := filled d + 1; free_head := free_head d; slots := slots d ++ [RSize] |}) by (unfold d'; rewrite Hh0; reflexivity).
    cbn [app] in Hp.
    assert (Ht : targets d' = targets d).
    { unfold targets, d'. cbn [slots]. rewrite flat_map_app. cbn. apply app_nil_r. }
    assert (Hold : forall k s, slot_at d k = Some s -> slot_at d' k = Some s).
    { intros k s Hk. rewrite Hd', slot_at_extend; [exact Hk|exact Hf|]. apply slot_some_lt in Hk. lia. }
    assert (Hlf : forall a l, linkedp d a l -> linkedp d' a l).
    { induction 1; [apply lp_last; apply Hold; assumption|eapply lp_part; [apply Hold; eassumption|assumption]]. }
    split; [|split; [lia|split]].
    + split; [unfold d'; cbn [filled slots]; rewrite app_length; cbn; lia|]. split; [|split].
      * unfold d'. cbn [free_head]. constructor.
      * constructor.
        -- left. exists (filled d). repeat split; [rewrite Hd'; apply slot_at_extend_new; exact Hf|]. rewrite Ht.
           destruct (memN (filled d) (targets d)) eqn:Em; [|reflexivity]. exfalso.
           destruct (target_is_part d cs [] (filled d) Hcs Hfl Hp Em) as [H|[n2 H]]; apply slot_some_lt in H; lia.
        -- rewrite Forall_forall in *. intros c Hc. specialize (Hcs c Hc).
           destruct Hcs as [[j [-> [Hsj Hm]]]|[j [nx [ps [-> [Hsj Hl]]]]]].
           { left. exists j. repeat split; [apply Hold; exact Hsj|rewrite Ht; exact Hm]. }
           { right. exists j, nx, ps. repeat split; [apply Hold; exact Hsj|apply Hlf; exact Hl]. }
      * cbn [app concat]. unfold indices, d'. cbn [slots]. rewrite app_length, seq_app, map_app. cbn [length seq map Nat.add].
        rewrite <- Hf.
        eapply Permutation_trans; [apply Permutation_cons_append|]. apply Permutation_app_tail. exact Hp.
    + rewrite Hd'. apply slot_at_extend_new. exact Hf.
    + intros k Hk. rewrite Hd'. apply slot_at_extend; assumption.
  - (* the head of the free list *)
    unfold alloc1. rewrite Hs. cbn [tl].
    remember (free_head d) as h eqn:Eh.
    change {| filled := filled d; free_head := nx; slots := set_nth (slots d) (N.to_nat (h - 1)) RSize |} with (upd_slots d nx h RSize).
    cbn [app] in Hnd0. apply NoDup_cons_iff in Hnd0 as [Hnotin Hnd'].
    assert (Ht : targets (upd_slots d nx h RSize) = targets d) by (eapply targets_upd; [exact Hs|reflexivity|reflexivity]).
    split; [|split; [exact Hj|split]].
    + split; [cbn [filled slots upd_slots]; rewrite set_nth_length; exact Hf|]. split; [|split].
      * cbn [free_head upd_slots]. apply linkedf_upd; [exact Hj|exact Hl|]. intros H. apply Hnotin. apply in_or_app. left. exact H.
      * constructor.
        -- left. exists h. repeat split; [eapply slot_at_upd_eq; exact Hs|]. rewrite Ht.
           destruct (memN h (targets d)) eqn:Em; [|reflexivity]. exfalso.
           assert (Hfl' : linkedf d (free_head d) (h :: l)) by (rewrite <- Eh; econstructor; eassumption).
           destruct (target_is_part d cs (h :: l) h Hcs Hfl' Hp Em) as [H|[n2 H]]; rewrite Hs in H; discriminate.
        -- rewrite Forall_forall in *. intros c Hc. apply chain_wf_upd; [exact Hj|apply Hcs; exact Hc| |exact Ht].
           intros H. apply Hnotin. apply in_or_app. right. apply in_concat. exists c. split; assumption.
      * rewrite indices_upd. cbn [concat]. eapply Permutation_trans; [|exact Hp]. cbn [app].
        apply Permutation_sym. apply Permutation_middle.
    + eapply slot_at_upd_eq. exact Hs.
    + intros k Hk. apply slot_at_upd_neq; [exact Hj|exact Hk].
Qed.

(* ---- the chains of the partition may be listed in any order ---- *)
Lemma perm_concat {A} (l1 l2 : list (list A)) : Permutation l1 l2 -> Permutation (concat l1) (concat l2).
Proof.
  induction 1 as [|x l l' H IH|x y l|l l' l'' H1 IH1 H2 IH2]; cbn [concat].
  - constructor.
  - apply Permutation_app_head. exact IH.
  - rewrite !app_assoc. apply Permutation_app_tail. apply Permutation_app_comm.
  - eapply Permutation_trans; eassumption.
Qed.
Lemma tinvp_perm d fl cs cs' : Permutation cs cs' -> TInvP d fl cs -> TInvP d fl cs'.
Proof.
  intros Hpm [Hf [Hfl [Hcs Hp]]]. split; [exact Hf|]. split; [exact Hfl|]. split.
  - rewrite Forall_forall in *. intros c Hc. apply Hcs. eapply Permutation_in; [apply Permutation_sym; exact Hpm|exact Hc].
  - eapply Permutation_trans; [|exact Hp]. apply Permutation_app_head. apply perm_concat. apply Permutation_sym. exact Hpm.
Qed.

Definition singles (l : list N) : list (list N) := map (fun i => [i]) l.
Lemma singles_app a b : singles (a ++ b) = singles a ++ singles b.
Proof. unfold singles. apply map_app. Qed.
Lemma concat_singles l : concat (singles l) = l.
Proof. induction l as [|a l IH]; [reflexivity|]. change (concat (singles (a :: l))) with (a :: concat (singles l)). rewrite IH. reflexivity. Qed.

(* ---- k allocations: k new single-slot chains ---- *)
Lemma alloc_nP : forall n d fl cs, TInvP d fl cs ->
  let '(d', l) := alloc_n n d in
  exists fl', TInvP d' fl' (singles l ++ cs) /\ length l = n.
Proof.
  induction n as [|n IH]; intros d fl cs HP; cbn [alloc_n].
  - exists fl. split; [exact HP|reflexivity].
  - pose proof (alloc1P d fl cs HP) as H1. destruct (alloc1 d) as [d1 i].
    destruct H1 as [HP1 _].
    specialize (IH d1 (tl fl) ([i] :: cs) HP1). destruct (alloc_n n d1) as [d2 l].
    destruct IH as [fl' [HP2 Hlen]]. exists fl'. split; [|cbn [length]; rewrite Hlen; reflexivity].
    cbn [singles map app]. eapply tinvp_perm; [|exact HP2].
    change (([i] :: map (fun i0 => [i0]) l) ++ cs) with ([i] :: (singles l ++ cs)).
    apply Permutation_sym. apply Permutation_middle.
Qed.

(* ---- linking ---- *)
Lemma set_nth_same {A} (l : list A) : forall n x, nth_error l n = Some x -> set_nth l n x = l.
Proof. induction l as [|a l IH]; intros [|n] x H; cbn in *; try discriminate; [injection H as ->; reflexivity|rewrite IH by exact H; reflexivity]. Qed.
Lemma set_slot_same d i s : slot_at d i = Some s -> set_slot d i s = d.
Proof.
  intros H. apply slot_at_nth in H. unfold set_slot. rewrite set_nth_same by exact H. destruct d; reflexivity.
Qed.
Lemma set_slot_upd d i s : set_slot d i s = upd_slots d (free_head d) i s.
Proof. reflexivity. Qed.

Lemma chain_last_is_size d c : chain_wf d c -> forall pre last, c = pre ++ [last] -> slot_at d last = Some RSize.
Proof.
  intros [[j [-> [Hs _]]]|[j [nx [ps [-> [Hs Hl]]]]]] pre last E.
  - destruct pre as [|p pre]; cbn in E; [injection E as <-; exact Hs|]. injection E as _ E. destruct pre; discriminate.
  - destruct pre as [|p pre]; cbn in E.
    + injection E as _ E. subst ps. inversion Hl.
    + injection E as _ E. subst ps. clear Hs. revert nx Hl. induction pre as [|q pre IH]; intros nx Hl; cbn in Hl.
      * inversion Hl; subst; [assumption|]. match goal with H : linkedp _ _ [] |- _ => inversion H end.
      * inversion Hl; subst; [destruct pre; discriminate|]. eapply IH. eassumption.
Qed.

(* the last slot of a part list gets a successor *)
Lemma linkedp_extend d h a q last nx : last <> 0 ->
  linkedp d a (q ++ [last]) -> NoDup (q ++ [last]) -> ~ In nx (q ++ [last]) -> slot_at d nx = Some RSize ->
  linkedp (upd_slots d h last (RPart nx)) a (q ++ [last; nx]).
Proof.
  intros H0. revert a. induction q as [|p q IH]; intros a Hl Hnd Hnx Hsn; cbn [app] in *.
  - inversion Hl; subst.
    + eapply lp_part; [eapply slot_at_upd_eq; eassumption|]. apply lp_last.
      rewrite slot_at_upd_neq; [exact Hsn|exact H0|]. intros ->. apply Hnx. left. reflexivity.
    + match goal with H : linkedp _ _ [] |- _ => inversion H end.
  - inversion Hl; subst; [destruct q; discriminate|].
    apply NoDup_cons_iff in Hnd as [Hp Hnd].
    eapply lp_part.
    + rewrite slot_at_upd_neq; [eassumption|exact H0|]. intros ->. apply Hp. apply in_or_app. right. left. reflexivity.
    + apply IH; [assumption|exact Hnd| |exact Hsn]. intros H. apply Hnx. right. exact H.
Qed.

Lemma nodup_app_disj {A} (a b : list A) x : NoDup (a ++ b) -> In x a -> ~ In x b.
Proof.
  induction a as [|y a IH]; intros Hnd Ha Hb; [destruct Ha|]. cbn [app] in Hnd. apply NoDup_cons_iff in Hnd as [Hy Hnd].
  destruct Ha as [->|Ha]; [apply Hy; apply in_or_app; right; exact Hb|exact (IH Hnd Ha Hb)].
Qed.

Lemma NoDup_app_r {A} (a b : list A) : NoDup (a ++ b) -> NoDup b.
Proof. induction a as [|x a IH]; cbn [app]; intros H; [exact H|]. apply NoDup_cons_iff in H as [_ H]. exact (IH H). Qed.

Lemma single_chain d j : chain_wf d [j] -> slot_at d j = Some RSize /\ ~ In j (targets d).
Proof.
  intros [[i [E [Hs Hm]]]|[i [nx [ps [E [Hs Hl]]]]]].
  - injection E as <-. split; [exact Hs|apply memN_false; exact Hm].
  - injection E as <- <-. inversion Hl.
Qed.

(* the chain that ends in [last] takes the single slot nx as its next part *)
Lemma link_step d fl pre last nx cs :
  TInvP d fl ((pre ++ [last]) :: [nx] :: cs) ->
  TInvP (set_slot d last (match pre with [] => RHead nx | _ => RPart nx end)) fl ((pre ++ [last; nx]) :: cs).
Proof.
  intros HP. pose proof (tinvp_nodup _ _ _ HP) as Hnd. destruct HP as [Hf [Hfl [Hcs Hp]]].
  inversion Hcs as [|c0 l0 Hc0 Hcs1]; subst. inversion Hcs1 as [|c1 l1 Hc1 Hcs2]; subst.
  pose proof (chain_last_is_size _ _ Hc0 pre last eq_refl) as Hlast.
  destruct (single_chain _ _ Hc1) as [Hsnx Hnxt].
  assert (H0 : last <> 0) by (apply slot_some_lt in Hlast; tauto).
  cbn [concat] in Hnd.
  assert (Hnd2 : NoDup ((pre ++ [last]) ++ [nx] ++ concat cs)) by (apply NoDup_app_r in Hnd; exact Hnd).
  assert (Hlast_fl : ~ In last fl).
  { intros H. apply (nodup_app_disj _ _ last Hnd H). apply in_or_app. left. apply in_or_app. right. left. reflexivity. }
  assert (Hnx_c0 : ~ In nx (pre ++ [last])).
  { intros H. apply (nodup_app_disj _ _ nx Hnd2 H). left. reflexivity. }
  assert (Hc0_nd : NoDup (pre ++ [last])) by (apply NoDup_app_l in Hnd2; exact Hnd2).
  assert (Hlast_cs : ~ In last (concat cs)).
  { intros H. apply (nodup_app_disj _ _ last Hnd2); [apply in_or_app; right; left; reflexivity|]. right. exact H. }
  assert (Hnx_cs : ~ In nx (concat cs)).
  { apply NoDup_app_r in Hnd2. cbn [app] in Hnd2. apply NoDup_cons_iff in Hnd2. tauto. }
  set (s := match pre with [] => RHead nx | _ => RPart nx end).
  rewrite set_slot_upd. set (d' := upd_slots d (free_head d) last s).
  assert (Hs_next : forall y, In y (nexts s) -> y = nx) by (intros y; unfold s; destruct pre; cbn; intros [<-|[]]; reflexivity).
  split; [unfold d'; cbn [filled slots upd_slots]; rewrite set_nth_length; exact Hf|]. split; [|split].
  - unfold d'. cbn [free_head upd_slots]. apply linkedf_upd; assumption.
  - constructor.
    + right. destruct pre as [|p pre].
      * cbn [app]. exists last, nx, [nx]. repeat split.
        -- unfold d'. eapply slot_at_upd_eq. exact Hlast.
        -- apply lp_last. unfold d'. rewrite slot_at_upd_neq; [exact Hsnx|exact H0|]. intros ->. apply Hnx_c0. left. reflexivity.
      * destruct Hc0 as [[j [E _]]|[j [n1 [ps [E [Hsj Hl]]]]]].
        { cbn in E. injection E as _ E. destruct pre; discriminate. }
        cbn [app] in E. injection E as <- <-.
        cbn [app] in Hc0_nd. apply NoDup_cons_iff in Hc0_nd as [Hp_notin Hnd_ps].
        exists p, n1, (pre ++ [last; nx]). repeat split.
        -- unfold d'. rewrite slot_at_upd_neq; [exact Hsj|exact H0|]. intros ->. apply Hp_notin. apply in_or_app. right. left. reflexivity.
        -- unfold d', s. apply linkedp_extend; [exact H0|exact Hl|exact Hnd_ps| |exact Hsnx].
           intros H. apply Hnx_c0. right. exact H.
    + rewrite Forall_forall in *. intros c Hc. unfold d'. apply chain_wf_upd_gen; [exact H0|apply Hcs2; exact Hc| |].
      * intros H. apply Hlast_cs. apply in_concat. exists c. split; assumption.
      * intros j -> Hj. destruct (targets_gain _ _ _ _ _ _ Hlast eq_refl Hj) as [Hy|Hy].
        -- apply Hs_next in Hy. subst j. apply Hnx_cs. apply in_concat. exists [nx]. split; [exact Hc|left; reflexivity].
        -- destruct (single_chain _ _ (Hcs2 _ Hc)) as [_ Hnt]. exact (Hnt Hy).
  - unfold d'. rewrite indices_upd. eapply Permutation_trans; [|exact Hp]. cbn [concat].
    replace ((pre ++ [last; nx]) ++ concat cs) with ((pre ++ [last]) ++ [nx] ++ concat cs); [reflexivity|].
    rewrite <- !app_assoc. reflexivity.
Qed.

Lemma link_partsP : forall rest d fl pre last cs, pre <> [] ->
  TInvP d fl ((pre ++ [last]) :: singles rest ++ cs) ->
  TInvP (link_parts d (last :: rest)) fl ((pre ++ last :: rest) :: cs).
Proof.
  induction rest as [|nx rest IH]; intros d fl pre last cs Hpre HP.
  - cbn [link_parts singles map app] in *. destruct HP as [Hf [Hfl [Hcs Hp]]]. inversion Hcs as [|c0 l0 Hc0 Hcs1]; subst.
    rewrite set_slot_same by (eapply chain_last_is_size; [exact Hc0|reflexivity]).
    repeat split; assumption.
  - cbn [singles map app] in HP. apply link_step in HP.
    destruct pre as [|p pre]; [contradiction|].
    change (link_parts d (last :: nx :: rest)) with (link_parts (set_slot d last (RPart nx)) (nx :: rest)).
    replace ((p :: pre) ++ last :: nx :: rest) with (((p :: pre) ++ [last]) ++ nx :: rest) by (rewrite <- app_assoc; reflexivity).
    apply IH; [destruct pre; discriminate|].
    replace (((p :: pre) ++ [last]) ++ [nx]) with ((p :: pre) ++ [last; nx]) by (rewrite <- app_assoc; reflexivity).
    exact HP.
Qed.

Lemma link_chainP d fl i rest cs :
  TInvP d fl (singles (i :: rest) ++ cs) -> TInvP (link_chain d (i :: rest)) fl ((i :: rest) :: cs).
Proof.
  intros HP. destruct rest as [|nx rest].
  - cbn [link_chain singles map app] in *. destruct HP as [Hf [Hfl [Hcs Hp]]]. inversion Hcs as [|c0 l0 Hc0 Hcs1]; subst.
    rewrite set_slot_same by (apply single_chain in Hc0; tauto). repeat split; assumption.
  - cbn [singles map app] in HP.
    change ([i] :: [nx] :: map (fun i0 => [i0]) rest ++ cs) with (([] ++ [i]) :: [nx] :: (singles rest ++ cs)) in HP.
    apply link_step in HP. cbn [app] in HP.
    change (link_chain d (i :: nx :: rest)) with (link_parts (set_slot d i (RHead nx)) (nx :: rest)).
    change (i :: nx :: rest) with ([i] ++ nx :: rest).
    apply link_partsP; [discriminate|exact HP].
Qed.

(* storing a value in k >= 1 slots: the table stays partitioned and exactly the new chain is added *)
Theorem alloc_chain_inv k d fl cs : (1 <= k)%nat -> TInvP d fl cs ->
  let '(d', l) := alloc_chain k d in exists fl', TInvP d' fl' (l :: cs) /\ length l = k.
Proof.
  intros Hk HP. unfold alloc_chain. pose proof (alloc_nP k d fl cs HP) as H. destruct (alloc_n k d) as [d1 l].
  destruct H as [fl' [HP1 Hlen]]. exists fl'. split; [|exact Hlen].
  destruct l as [|i rest]; [cbn in Hlen; lia|]. apply link_chainP. exact HP1.
Qed.

(* ---- removal ---- *)
(* clearing one slot that is in no free list and in none of the chains cs *)
Lemma free1_gen d fl a x cs :
  filled d = N.of_nat (length (slots d)) + 1 -> linkedf d (free_head d) fl -> Forall (chain_wf d) cs ->
  slot_at d a = Some x -> ~ In a fl -> ~ In a (concat cs) ->
  filled (free1 d a) = N.of_nat (length (slots (free1 d a))) + 1 /\
  linkedf (free1 d a) (free_head (free1 d a)) (a :: fl) /\ Forall (chain_wf (free1 d a)) cs /\
  (forall k, k <> a -> slot_at (free1 d a) k = slot_at d k) /\ indices (free1 d a) = indices d.
Proof.
  intros Hf Hfl Hcs Hs Hnfl Hncs.
  assert (H0 : a <> 0) by (apply slot_some_lt in Hs; tauto).
  change (free1 d a) with (upd_slots d a a (RFree (free_head d))).
  split; [cbn [filled slots upd_slots]; rewrite set_nth_length; exact Hf|]. split; [|split; [|split]].
  - cbn [free_head upd_slots]. econstructor; [exact H0|eapply slot_at_upd_eq; exact Hs|]. apply linkedf_upd; assumption.
  - rewrite Forall_forall in *. intros c Hc. apply chain_wf_upd_gen; [exact H0|apply Hcs; exact Hc| |].
    + intros H. apply Hncs. apply in_concat. exists c. split; assumption.
    + intros j -> Hj. apply targets_shrink in Hj; [|reflexivity]. destruct (single_chain _ _ (Hcs _ Hc)) as [_ Hnt]. exact (Hnt Hj).
  - intros k Hk. apply slot_at_upd_neq; assumption.
  - apply indices_upd.
Qed.

(* the parts behind an already cleared head: cleared one after the other, each becomes the new free head *)
Lemma free_partsP : forall rest d fl a cs,
  filled d = N.of_nat (length (slots d)) + 1 -> linkedf d (free_head d) fl -> linkedp d a rest -> Forall (chain_wf d) cs ->
  Permutation (fl ++ rest ++ concat cs) (indices d) ->
  TInvP (fold_left free1 rest d) (rev rest ++ fl) cs.
Proof.
  induction rest as [|b rest IH]; intros d fl a cs Hf Hfl Hl Hcs Hp; [inversion Hl|].
  assert (Hnd : NoDup (fl ++ (b :: rest) ++ concat cs)) by (eapply Permutation_NoDup; [apply Permutation_sym; exact Hp|apply indices_nodup]).
  assert (Hb_fl : ~ In b fl).
  { intros H. apply (nodup_app_disj _ _ b Hnd H). left. reflexivity. }
  pose proof (NoDup_app_r _ _ Hnd) as Hnd2. cbn [app] in Hnd2. apply NoDup_cons_iff in Hnd2 as [Hb_rest Hnd3].
  assert (Hb_cs : ~ In b (concat cs)) by (intros H; apply Hb_rest; apply in_or_app; right; exact H).
  assert (Hb_r : ~ In b rest) by (intros H; apply Hb_rest; apply in_or_app; left; exact H).
  assert (Hsb : exists x, slot_at d b = Some x) by (inversion Hl; subst; eexists; eassumption).
  destruct Hsb as [x Hsb].
  destruct (free1_gen d fl b x cs Hf Hfl Hcs Hsb Hb_fl Hb_cs) as [Hf' [Hfl' [Hcs' [Hsame Hidx]]]].
  cbn [fold_left rev]. rewrite <- app_assoc. cbn [app].
  assert (Hp' : Permutation ((b :: fl) ++ rest ++ concat cs) (indices (free1 d b))).
  { rewrite Hidx. eapply Permutation_trans; [|exact Hp]. cbn [app]. apply Permutation_middle. }
  assert (H0 : b <> 0) by (apply slot_some_lt in Hsb; tauto).
  inversion Hl as [j Hsz|j nx l Hsp Hl']; subst.
  - (* the last part *)
    cbn [fold_left rev app]. cbn [app] in Hp'. repeat split; assumption.
  - apply (IH (free1 d b) (b :: fl) nx cs Hf' Hfl'); [|exact Hcs'|exact Hp'].
    change (free1 d b) with (upd_slots d b b (RFree (free_head d))). apply linkedp_upd; assumption.
Qed.

(* removing a value: all the slots of its chain go to the free list, the last part on top; nothing else moves *)
Theorem free_chain_inv d fl c cs : TInvP d fl (c :: cs) -> TInvP (free_chain d c) (rev c ++ fl) cs.
Proof.
  intros HP. pose proof (tinvp_nodup _ _ _ HP) as Hnd. destruct HP as [Hf [Hfl [Hcs Hp]]].
  inversion Hcs as [|c0 l0 Hc Hcs1]; subst. cbn [concat] in Hnd, Hp. unfold free_chain.
  destruct Hc as [[i [-> [Hs Hm]]]|[i [nx [ps [-> [Hs Hl]]]]]].
  - (* a value in one slot *)
    assert (Hi_fl : ~ In i fl) by (intros H; apply (nodup_app_disj _ _ i Hnd H); left; reflexivity).
    assert (Hi_cs : ~ In i (concat cs)).
    { apply NoDup_app_r in Hnd. cbn [app] in Hnd. apply NoDup_cons_iff in Hnd. tauto. }
    destruct (free1_gen d fl i RSize cs Hf Hfl Hcs1 Hs Hi_fl Hi_cs) as [Hf' [Hfl' [Hcs' [_ Hidx]]]].
    cbn [fold_left rev app]. repeat split; try assumption.
    rewrite Hidx. eapply Permutation_trans; [|exact Hp]. cbn [app]. apply Permutation_middle.
  - (* head, parts *)
    assert (Hi_fl : ~ In i fl) by (intros H; apply (nodup_app_disj _ _ i Hnd H); left; reflexivity).
    pose proof (NoDup_app_r _ _ Hnd) as Hnd2. cbn [app] in Hnd2. apply NoDup_cons_iff in Hnd2 as [Hi_rest Hnd3].
    assert (Hi_cs : ~ In i (concat cs)) by (intros H; apply Hi_rest; apply in_or_app; right; exact H).
    assert (Hi_ps : ~ In i ps) by (intros H; apply Hi_rest; apply in_or_app; left; exact H).
    destruct (free1_gen d fl i (RHead nx) cs Hf Hfl Hcs1 Hs Hi_fl Hi_cs) as [Hf' [Hfl' [Hcs' [_ Hidx]]]].
    assert (H0 : i <> 0) by (apply slot_some_lt in Hs; tauto).
    cbn [fold_left rev]. rewrite <- app_assoc. cbn [app].
    apply (free_partsP ps (free1 d i) (i :: fl) nx cs Hf' Hfl'); [|exact Hcs'|].
    + change (free1 d i) with (upd_slots d i i (RFree (free_head d))). apply linkedp_upd; assumption.
    + rewrite Hidx. eapply Permutation_trans; [|exact Hp]. cbn [app]. apply Permutation_middle.
Qed.

(* ---- a value is replaced by one that needs another number of slots ---- *)
Lemma linkedp_hd d a l : linkedp d a l -> exists r, l = a :: r.
Proof. intros H. destruct H; eexists; reflexivity. Qed.

Lemma linkedp_cut d h : forall p1 a q p2, q <> 0 -> linkedp d a (p1 ++ q :: p2) -> p2 <> [] -> NoDup (p1 ++ q :: p2) ->
  linkedp (upd_slots d h q RSize) a (p1 ++ [q]) /\ linkedp (upd_slots d h q RSize) (hd 0 p2) p2.
Proof.
  induction p1 as [|x p1 IH]; intros a q p2 Hq Hl Hne Hnd; cbn [app] in *.
  - inversion Hl as [j Hs E|j nx l Hs Hl' E]; subst; [contradiction Hne; reflexivity|].
    apply NoDup_cons_iff in Hnd as [Hq2 _]. split.
    + apply lp_last. eapply slot_at_upd_eq. exact Hs.
    + destruct (linkedp_hd _ _ _ Hl') as [r Er]. rewrite Er. cbn [hd]. rewrite <- Er. apply linkedp_upd; assumption.
  - inversion Hl as [j Hs E|j nx l Hs Hl' E]; subst; [destruct p1; discriminate|].
    apply NoDup_cons_iff in Hnd as [Hx Hnd]. destruct (IH nx q p2 Hq Hl' Hne Hnd) as [H1 H2]. split; [|exact H2].
    eapply lp_part; [|exact H1]. rewrite slot_at_upd_neq; [exact Hs|exact Hq|]. intros ->. apply Hx. apply in_or_app. right. left. reflexivity.
Qed.

Lemma head_not_target d fl cs i nx : Forall (chain_wf d) cs -> linkedf d (free_head d) fl -> Permutation (fl ++ concat cs) (indices d) ->
  slot_at d i = Some (RHead nx) -> ~ In i (targets d).
Proof.
  intros Hcs Hfl Hp Hs Hin. apply memN_in in Hin. destruct (target_is_part d cs fl i Hcs Hfl Hp Hin) as [H|[n2 H]]; rewrite Hs in H; discriminate.
Qed.

Lemma areplace_inv d fl c cs k : TInvP d fl (c :: cs) ->
  let '(d', c') := areplace d c k in exists fl', TInvP d' fl' (c' :: cs).
Proof.
  intros HP. unfold areplace. destruct (Nat.leb_spec (length c) (S k)) as [Hle|Hgt].
  - (* the value keeps its slots and may take more *)
    pose proof (alloc_nP (S k - length c) d fl (c :: cs) HP) as Ha. destruct (alloc_n (S k - length c) d) as [d1 extra].
    destruct Ha as [fl' [HP1 _]]. destruct extra as [|e extra].
    + exists fl'. exact HP1.
    + assert (Hcne : c <> []).
      { destruct HP as [_ [_ [Hcs _]]]. inversion Hcs as [|? ? Hc _]; subst. destruct Hc as [[i [-> _]]|[i [nx [ps [-> _]]]]]; discriminate. }
      destruct c as [|i [|i2 c2]]; [contradiction Hcne; reflexivity| |].
      * exists fl'. apply link_chainP. eapply tinvp_perm; [|exact HP1].
        change (singles (i :: e :: extra) ++ cs) with ([i] :: (singles (e :: extra) ++ cs)). apply Permutation_sym. apply Permutation_middle.
      * set (c := i :: i2 :: c2) in *. exists fl'.
        assert (Ec : c = removelast c ++ [last c 0]) by (apply app_removelast_last; discriminate).
        rewrite Ec at 2. rewrite <- app_assoc. cbn [app]. apply link_partsP; [unfold c; cbn; discriminate|].
        rewrite <- Ec. eapply tinvp_perm; [|exact HP1]. apply Permutation_sym. apply Permutation_middle.
  - (* the value ends in slot k+1 of its chain; the rest of the chain is cleared *)
    pose proof (tinvp_nodup _ _ _ HP) as Hnd. destruct HP as [Hf [Hfl [Hcs Hp]]]. inversion Hcs as [|c0 l0 Hc Hcs1]; subst.
    destruct Hc as [[i [-> _]]|[i [nx [ps [-> [Hs Hl]]]]]]; [cbn in Hgt; lia|].
    cbn [length] in Hgt. cbn [firstn skipn]. cbn [concat] in Hnd, Hp.
    remember (firstn k ps) as keepp eqn:Ekp. remember (skipn k ps) as dropp eqn:Edp.
    assert (Eps : ps = keepp ++ dropp) by (subst keepp dropp; symmetry; apply firstn_skipn).
    assert (Hdrop : dropp <> []) by (subst dropp; intros E; apply (f_equal (@length N)) in E; rewrite skipn_length in E; cbn in E; lia).
    clear Ekp Edp.
    assert (Hnd2 : NoDup (i :: ps ++ concat cs)) by (apply NoDup_app_r in Hnd; exact Hnd).
    apply NoDup_cons_iff in Hnd2 as [Hi_rest Hnd3].
    assert (Hps_nd : NoDup ps) by (apply NoDup_app_l in Hnd3; exact Hnd3).
    remember (last (i :: keepp) 0) as q eqn:Eqd.
    exists (rev dropp ++ fl).
    assert (Hcase : (keepp = [] /\ q = i) \/ exists p1, keepp = p1 ++ [q]).
    { rewrite Eqd. destruct keepp as [|x kp] eqn:Ek; [left; split; reflexivity|right].
      destruct (@exists_last _ (x :: kp)) as [p1 [z Ez]]; [discriminate|]. exists p1. rewrite Ez.
      change (last (i :: p1 ++ [z]) 0) with (last ((i :: p1) ++ [z]) 0). rewrite last_last. reflexivity. }
    assert (Hq0 : q <> 0).
    { destruct Hcase as [[_ ->]|[p1 Ep]]; [apply slot_some_lt in Hs; tauto|].
      assert (Hin : In q ps) by (rewrite Eps, Ep; apply in_or_app; left; apply in_or_app; right; left; reflexivity).
      destruct (linkedp_kinds _ _ _ _ Hl Hin) as [H|[n2 H]]; apply slot_some_lt in H; tauto. }
    assert (Hq_fl : ~ In q fl).
    { intros H. apply (nodup_app_disj _ _ q Hnd H). destruct Hcase as [[_ ->]|[p1 Ep]]; [left; reflexivity|].
      right. apply in_or_app. left. rewrite Eps, Ep. apply in_or_app. left. apply in_or_app. right. left. reflexivity. }
    assert (Hq_cs : ~ In q (concat cs)).
    { intros H. destruct Hcase as [[_ Eq]|[p1 Ep]].
      - rewrite Eq in H. apply Hi_rest. apply in_or_app. right. exact H.
      - apply (nodup_app_disj _ _ q Hnd3); [rewrite Eps, Ep; apply in_or_app; left; apply in_or_app; right; left; reflexivity|exact H]. }
    set (d1 := upd_slots d (free_head d) q RSize).
    change (set_slot d q RSize) with d1. clear Eqd.
    (* the kept part is a chain again, the dropped part hangs loose *)
    assert (Hparts : chain_wf d1 (i :: keepp) /\ linkedp d1 (hd 0 dropp) dropp).
    { destruct Hcase as [[Ek Eq]|[p1 Ep]].
      - rewrite Ek in *. cbn [app] in Eps. subst ps. subst q. split.
        + left. exists i. repeat split; [unfold d1; eapply slot_at_upd_eq; exact Hs|]. apply memN_false. intros Hin.
          apply targets_shrink in Hin; [|reflexivity]. exact (head_not_target d fl ((i :: dropp) :: cs) i nx Hcs Hfl Hp Hs Hin).
        + destruct (linkedp_hd _ _ _ Hl) as [r Er]. rewrite Er. cbn [hd]. rewrite <- Er. unfold d1. apply linkedp_upd; [exact Hq0|exact Hl|].
          intros Hin. apply Hi_rest. apply in_or_app. left. exact Hin.
      - rewrite Ep in Eps. rewrite <- app_assoc in Eps. cbn [app] in Eps.
        assert (Hl2 : linkedp d nx (p1 ++ q :: dropp)) by (rewrite <- Eps; exact Hl).
        assert (Hnd4 : NoDup (p1 ++ q :: dropp)) by (rewrite <- Eps; exact Hps_nd).
        destruct (linkedp_cut d (free_head d) p1 nx q dropp Hq0 Hl2 Hdrop Hnd4) as [H1 H2]. split; [|exact H2].
        right. exists i, nx, (p1 ++ [q]). rewrite Ep. repeat split; [|exact H1].
        unfold d1. rewrite slot_at_upd_neq; [exact Hs|exact Hq0|]. intros ->. apply Hi_rest. apply in_or_app. left. rewrite Eps. apply in_or_app. right. left. reflexivity. }
    destruct Hparts as [Hkeep Hloose].
    apply (free_partsP dropp d1 fl (hd 0 dropp) ((i :: keepp) :: cs)).
    + unfold d1. cbn [filled slots upd_slots]. rewrite set_nth_length. exact Hf.
    + unfold d1. cbn [free_head upd_slots]. apply linkedf_upd; assumption.
    + exact Hloose.
    + constructor; [exact Hkeep|]. rewrite Forall_forall in *. intros c' Hc'. unfold d1. apply chain_wf_upd_gen; [exact Hq0|apply Hcs1; exact Hc'| |].
      * intros H. apply Hq_cs. apply in_concat. exists c'. split; assumption.
      * intros j -> Hj. apply targets_shrink in Hj; [|reflexivity]. destruct (single_chain _ _ (Hcs1 _ Hc')) as [_ Hnt]. exact (Hnt Hj).
    + unfold d1. rewrite indices_upd. eapply Permutation_trans; [|exact Hp]. cbn [concat]. rewrite Eps.
      apply Permutation_app_head.
      replace ((i :: keepp ++ dropp) ++ concat cs) with ((i :: keepp) ++ dropp ++ concat cs) by (cbn [app]; rewrite <- app_assoc; reflexivity).
      apply Permutation_app_swap_app.
Qed.

(* ---- every table reachable by storing and removing values is partitioned ---- *)
Lemma remove_nth_perm {A} (l : list A) : forall j c, nth_error l j = Some c -> Permutation l (c :: remove_nth j l).
Proof.
  induction l as [|a l IH]; intros [|j] c H; cbn in *; try discriminate.
  - injection H as ->. reflexivity.
  - eapply Permutation_trans; [apply perm_skip; apply (IH j c H)|]. apply perm_swap.
Qed.

Lemma astep_inv st o : (exists fl, TInvP (fst st) fl (snd st)) -> exists fl, TInvP (fst (astep st o)) fl (snd (astep st o)).
Proof.
  destruct st as [d live]. cbn [fst snd]. intros [fl HP]. destruct o as [k|j|j k]; cbn [astep].
  - pose proof (alloc_chain_inv (S k) d fl live (le_n_S _ _ (Nat.le_0_l k)) HP) as H.
    destruct (alloc_chain (S k) d) as [d' l]. destruct H as [fl' [H _]]. exists fl'. cbn [fst snd].
    eapply tinvp_perm; [apply Permutation_cons_append|exact H].
  - destruct (nth_error live j) as [c|] eqn:E; [|exists fl; exact HP].
    cbn [fst snd]. exists (rev c ++ fl). apply free_chain_inv. eapply tinvp_perm; [apply remove_nth_perm; exact E|exact HP].
  - destruct (nth_error live j) as [c|] eqn:E; [|exists fl; exact HP].
    assert (Hpm : Permutation live (c :: remove_nth j live)) by (apply remove_nth_perm; exact E).
    pose proof (areplace_inv d fl c (remove_nth j live) k (tinvp_perm _ _ _ _ Hpm HP)) as H.
    destruct (areplace d c k) as [d' c']. destruct H as [fl' H]. cbn [fst snd]. exists fl'.
    eapply tinvp_perm; [|exact H]. apply Permutation_sym.
    assert (Hsplit : Permutation (firstn j live ++ c' :: skipn (S j) live) (c' :: firstn j live ++ skipn (S j) live)) by (apply Permutation_sym; apply Permutation_middle).
    eapply Permutation_trans; [exact Hsplit|]. apply perm_skip.
    assert (Er : remove_nth j live = firstn j live ++ skipn (S j) live).
    { clear. revert live. induction j as [|j IH]; intros [|x l]; cbn; try reflexivity. rewrite IH. reflexivity. }
    rewrite Er. reflexivity.
Qed.

Lemma empty_inv : TInvP empty_table [] [].
Proof. repeat split; [constructor|constructor|reflexivity]. Qed.

Theorem reachable_tables_partitioned ops :
  let st := fold_left astep ops (empty_table, []) in
  exists fl, TInvP (fst st) fl (snd st).
Proof.
  cbn zeta. assert (G : forall st, (exists fl, TInvP (fst st) fl (snd st)) -> exists fl, TInvP (fst (fold_left astep ops st)) fl (snd (fold_left astep ops st))).
  { induction ops as [|o ops IH]; intros st H; cbn [fold_left]; [exact H|]. apply IH. apply astep_inv. exact H. }
  apply G. exists []. exact empty_inv.
Qed.
