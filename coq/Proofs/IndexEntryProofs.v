(* Entry packing round trip and key recovery: the index page number together with the stored
   partial key determines the first 50 bits of the hashed key, for every index size 16..49. *)
From Coq Require Import ZArith NArith List Lia Bool ZifyN ZifyBool Arith.
From PDB Require Import Gen.Consts Model.IndexPage Proofs.IndexPageProofs.
Import ListNotations.
Open Scope N_scope.

Lemma testbit_lt_pow y n i : y < 2^n -> n <= i -> N.testbit y i = false.
Proof.
  intros Hy Hi. destruct (N.eq_dec y 0) as [->|Hne]; [apply N.bits_0|].
  apply N.bits_above_log2. apply N.log2_lt_pow2 in Hy; lia.
Qed.

Lemma land_mul_pow_small c n y : y < 2^n -> N.land (c * 2^n) y = 0.
Proof.
  intros Hy. apply N.bits_inj_0. intros i. rewrite N.land_spec.
  destruct (N.lt_ge_cases i n) as [Hlt|Hge].
  - rewrite N.mul_pow2_bits_low by exact Hlt. reflexivity.
  - rewrite (testbit_lt_pow y n i Hy Hge). apply andb_false_r.
Qed.

Lemma lor_disjoint_add c n y : y < 2^n -> N.lor (c * 2^n) y = c * 2^n + y.
Proof.
  intros Hy. symmetry. rewrite N.add_nocarry_lxor by (apply land_mul_pow_small; exact Hy).
  apply N.lxor_lor. apply land_mul_pow_small. exact Hy.
Qed.

Lemma land_ones_low c n y : y < 2^n -> N.land (c * 2^n + y) (2^n - 1) = y.
Proof.
  intros Hy. replace (2^n - 1) with (N.ones n) by (rewrite N.ones_equiv; lia). rewrite N.land_ones.
  rewrite N.add_comm, N.mod_add by (apply N.pow_nonzero; discriminate). apply N.mod_small. exact Hy.
Qed.

Lemma shl64_small x s : x * 2^s < m64 -> shl64 x s = x * 2^s.
Proof. intros H. unfold shl64. rewrite N.shiftl_mul_pow2. apply N.mod_small. exact H. Qed.

Lemma pow_split a b : a <= b -> 2^b = 2^(b - a) * 2^a.
Proof. intros H. rewrite <- N.pow_add_r. f_equal. lia. Qed.

Theorem entry_roundtrip bits addr pk : 16 <= bits <= 49 ->
  addr < 2 ^ address_bits bits -> pk < 2 ^ (64 - address_bits bits) ->
  entry_address bits (entry_new bits addr pk) = addr /\ pk_of bits (entry_new bits addr pk) = pk
  /\ entry_new bits addr pk < m64.
Proof.
  intros Hb Ha Hp. unfold entry_address, entry_new, pk_of. rewrite address_bits_eq in *.
  assert (Hm : pk * 2^(bits + 14) < m64).
  { unfold m64. rewrite (pow_split (bits + 14) 64) by lia. apply N.mul_lt_mono_pos_r; [|exact Hp].
    apply N.neq_0_lt_0, N.pow_nonzero; discriminate. }
  rewrite shl64_small by exact Hm. rewrite lor_disjoint_add by exact Ha.
  split; [apply land_ones_low; exact Ha|]. split.
  - rewrite N.shiftr_div_pow2. rewrite N.add_comm, N.div_add by (apply N.pow_nonzero; discriminate).
    rewrite N.div_small by exact Ha. reflexivity.
  - unfold m64 in *. rewrite (pow_split (bits + 14) 64) in * by lia.
    assert (pk + 1 <= 2 ^ (64 - (bits + 14))) by lia.
    assert ((pk + 1) * 2^(bits+14) <= 2 ^ (64 - (bits + 14)) * 2^(bits+14)) by (apply N.mul_le_mono_r; assumption).
    lia.
Qed.

(* decomposition of a 64-bit key prefix at the page boundary *)
Lemma extract_key_char bits kp : 16 <= bits <= 49 -> kp < m64 ->
  let r := kp mod 2^(64 - bits) in
  extract_key bits kp = r / 2^14 /\ chunk_index bits kp = kp / 2^(64 - bits).
Proof.
  intros Hb Hk r. unfold extract_key, chunk_index, shl64, index_entry_bits. rewrite address_bits_eq.
  rewrite N.shiftl_mul_pow2, !N.shiftr_div_pow2. split; [|reflexivity].
  assert (Hpow : 2^64 = 2^(64 - bits) * 2^bits) by (apply pow_split; lia).
  assert (Hnz : 2^bits <> 0) by (apply N.pow_nonzero; discriminate).
  assert (Hnz2 : 2^(64-bits) <> 0) by (apply N.pow_nonzero; discriminate).
  unfold m64. rewrite Hpow.
  rewrite N.mul_mod_distr_r by assumption. fold r.
  rewrite (N.pow_add_r 2 bits 14).
  rewrite <- N.div_div by (try assumption; apply N.pow_nonzero; discriminate).
  rewrite N.div_mul by assumption. reflexivity.
Qed.

Theorem key_recovered bits kp addr : 16 <= bits <= 49 -> kp < m64 -> addr < 2 ^ address_bits bits ->
  recover_key_prefix bits (chunk_index bits kp) (entry_new bits addr (extract_key bits kp))
  = kp / 2^14 * 2^14.
Proof.
  intros Hb Hk Ha. destruct (extract_key_char bits kp Hb Hk) as [He Hc]. cbv zeta in He.
  set (n := 64 - bits) in *. set (r := kp mod 2^n) in *. set (c := kp / 2^n) in *.
  assert (Hnz : 2^n <> 0) by (apply N.pow_nonzero; discriminate).
  assert (Hr : r < 2^n) by (apply N.mod_lt; exact Hnz).
  assert (Hkp : kp = c * 2^n + r) by (unfold c, r; rewrite N.mul_comm; apply N.div_mod; exact Hnz).
  assert (Hn14 : 2^n = 2^(n - 14) * 2^14) by (apply pow_split; unfold n; lia).
  assert (Hpk : extract_key bits kp < 2 ^ (64 - address_bits bits)).
  { rewrite He, address_bits_eq. apply N.div_lt_upper_bound; [apply N.pow_nonzero; discriminate|].
    replace (64 - (bits + 14)) with (n - 14) by (unfold n; lia). rewrite N.mul_comm, <- Hn14. exact Hr. }
  destruct (entry_roundtrip bits addr (extract_key bits kp) Hb Ha Hpk) as (_ & Hpk2 & _).
  unfold recover_key_prefix. rewrite Hpk2, Hc, He. rewrite address_bits_eq.
  replace (64 - (64 - (bits + 14)) - bits) with 14 by lia. fold n.
  assert (Hc64 : c * 2^n < m64).
  { unfold m64. assert (c * 2^n <= kp) by lia. unfold m64 in Hk. lia. }
  assert (Hlow : r / 2^14 * 2^14 < 2^n).
  { pose proof (N.mul_div_le r (2^14) ltac:(apply N.pow_nonzero; discriminate)). lia. }
  rewrite (shl64_small c n) by exact Hc64.
  rewrite (shl64_small (r / 2^14) 14) by (unfold m64 in *; lia).
  rewrite lor_disjoint_add by exact Hlow.
  (* kp / 2^14 = c * 2^(n-14) + r / 2^14 *)
  rewrite Hkp.
  assert (E : c * 2^n + r = c * 2^(n - 14) * 2^14 + r) by (rewrite Hn14 at 1; lia).
  rewrite E. rewrite N.div_add_l by (apply N.pow_nonzero; discriminate).
  rewrite N.mul_add_distr_r. rewrite Hn14 at 1. lia.
Qed.

(* two keys that fall in the same page with the same partial key agree on their first 50 bits *)
Theorem page_and_partial_key_identify bits kp1 kp2 : 16 <= bits <= 49 -> kp1 < m64 -> kp2 < m64 ->
  chunk_index bits kp1 = chunk_index bits kp2 -> extract_key bits kp1 = extract_key bits kp2 ->
  kp1 / 2^14 = kp2 / 2^14.
Proof.
  intros Hb H1 H2 Hc He.
  assert (Ha : 0 < 2 ^ address_bits bits) by (apply N.neq_0_lt_0, N.pow_nonzero; discriminate).
  pose proof (key_recovered bits kp1 0 Hb H1 Ha) as R1. pose proof (key_recovered bits kp2 0 Hb H2 Ha) as R2.
  rewrite Hc, He in R1. rewrite R1 in R2.
  apply N.mul_cancel_r in R2; [exact R2|apply N.pow_nonzero; discriminate].
Qed.
