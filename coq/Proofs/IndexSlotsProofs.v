(* C09, slot level: whatever sequence of writes, removals, reindex batches and restarts the index of a
   column goes through - growing as often as its pages overflow, with entries left behind in old
   generations, moved, skipped and dropped - looking a key up gives the address its value was last put
   at, and nothing for a key that was removed or never written. *)
From Coq Require Import NArith List Bool Arith Lia Sorted.
From PDB Require Import Gen.Consts Model.IndexSlots.
Import ListNotations.
Open Scope N_scope.

(* ---- association lists ---- *)
Lemma alookup_aremove_eq {A} (l : list (N * A)) k : alookup (aremove l k) k = None.
Proof. induction l as [|[k' v] l IH]; cbn; [reflexivity|]. destruct (N.eqb_spec k' k); [exact IH|]. cbn. destruct (N.eqb_spec k' k); [contradiction|exact IH]. Qed.
Lemma alookup_aremove_neq {A} (l : list (N * A)) k k2 : k2 <> k -> alookup (aremove l k) k2 = alookup l k2.
Proof.
  intros Hne. induction l as [|[k' v] l IH]; cbn; [reflexivity|]. destruct (N.eqb_spec k' k) as [->|Hk].
  - rewrite IH. destruct (N.eqb_spec k k2); [congruence|reflexivity].
  - cbn. rewrite IH. reflexivity.
Qed.
Lemma alookup_aset_eq {A} (l : list (N * A)) k v : alookup (aset l k v) k = Some v.
Proof. unfold aset. cbn. rewrite N.eqb_refl. reflexivity. Qed.
Lemma alookup_aset_neq {A} (l : list (N * A)) k v k2 : k2 <> k -> alookup (aset l k v) k2 = alookup l k2.
Proof. intros Hne. unfold aset. cbn. destruct (N.eqb_spec k k2); [congruence|]. apply alookup_aremove_neq. exact Hne. Qed.

(* ---- slots and pages ---- *)
Definition in_page (s : list slot) (e : ientry) : Prop := exists i, nth_error s i = Some (Some e).
Definition entry_in (g : igen) (e : ientry) : Prop := in_page (get_page g (page_of (g_bits g) (e_known e))) e.

Lemma nslots_pos : (0 < nslots)%nat.
Proof. unfold nslots. vm_compute. lia. Qed.

Lemma get_set_page_eq g p s : get_page (set_page g p s) p = s.
Proof. unfold get_page, set_page. cbn [g_pages]. rewrite alookup_aset_eq. reflexivity. Qed.
Lemma get_set_page_neq g p s q : q <> p -> get_page (set_page g p s) q = get_page g q.
Proof. intros H. unfold get_page, set_page. cbn [g_pages]. rewrite alookup_aset_neq by exact H. reflexivity. Qed.
Lemma bits_set_page g p s : g_bits (set_page g p s) = g_bits g.
Proof. reflexivity. Qed.

Lemma nth_set_nth_slot_eq (l : list slot) : forall n x, (n < length l)%nat -> nth_error (set_nth_slot l n x) n = Some x.
Proof. induction l as [|a l IH]; intros [|n] x H; cbn in *; try lia; [reflexivity|apply IH; lia]. Qed.
Lemma nth_set_nth_slot_neq (l : list slot) : forall n x m, m <> n -> nth_error (set_nth_slot l n x) m = nth_error l m.
Proof. induction l as [|a l IH]; intros [|n] x [|m] H; cbn; try reflexivity; try contradiction. apply IH. lia. Qed.

Lemma first_empty_spec (l : list slot) : forall i j, first_empty l i = Some j ->
  (i <= j)%nat /\ nth_error l (j - i) = Some None.
Proof.
  induction l as [|[e|] l IH]; intros i j H; cbn in H; try discriminate.
  - apply IH in H as [H1 H2]. split; [lia|]. replace (j - i)%nat with (S (j - S i)) by lia. exact H2.
  - injection H as <-. split; [lia|]. rewrite Nat.sub_diag. reflexivity.
Qed.
Lemma first_empty_fresh i : first_empty (repeat None nslots) i = Some i.
Proof. pose proof nslots_pos. destruct nslots; [lia|]. reflexivity. Qed.

(* an insertion keeps every entry and adds the new one *)
Lemma insert_gen_spec g e g' : insert_gen g e = Some g' ->
  g_bits g' = g_bits g /\ entry_in g' e /\ (forall e0, entry_in g e0 -> entry_in g' e0).
Proof.
  unfold insert_gen. set (p := page_of (g_bits g) (e_known e)). destruct (first_empty (get_page g p) 0) as [i|] eqn:E; [|discriminate].
  intros H. injection H as <-. apply first_empty_spec in E as [_ Hn]. rewrite Nat.sub_0_r in Hn.
  assert (Hlen : (i < length (get_page g p))%nat) by (apply nth_error_Some; rewrite Hn; discriminate).
  split; [reflexivity|]. split.
  - unfold entry_in. rewrite bits_set_page. fold p. rewrite get_set_page_eq. exists i. apply nth_set_nth_slot_eq. exact Hlen.
  - intros e0 [j Hj]. unfold entry_in. rewrite bits_set_page.
    destruct (N.eq_dec (page_of (g_bits g) (e_known e0)) p) as [Hp|Hp].
    + rewrite Hp, get_set_page_eq. exists j. rewrite nth_set_nth_slot_neq; [rewrite <- Hp; exact Hj|].
      intros ->. rewrite Hp, Hn in Hj. discriminate.
    + rewrite get_set_page_neq by exact Hp. exists j. exact Hj.
Qed.

Lemma insert_gen_empty b e : exists g', insert_gen {| g_bits := b; g_pages := [] |} e = Some g'.
Proof. unfold insert_gen. unfold get_page at 1. cbn [g_pages alookup]. rewrite first_empty_fresh. eexists. reflexivity. Qed.

(* ---- generations ---- *)
Definition gens (st : istate) : list igen := cur st :: queue st.
Definition covers (st st' : istate) : Prop :=
  forall g e0, In g (gens st) -> entry_in g e0 -> exists g', In g' (gens st') /\ entry_in g' e0.
Lemma covers_refl st : covers st st.
Proof. intros g e Hg He. exists g. split; assumption. Qed.
Lemma covers_trans a b c : covers a b -> covers b c -> covers a c.
Proof. intros H1 H2 g e Hg He. destruct (H1 g e Hg He) as [g1 [Hg1 He1]]. exact (H2 g1 e Hg1 He1). Qed.

Lemma insert_cur_spec st e :
  let st' := insert_cur st e in
  holds st' = holds st /\ progress st' = progress st /\ entry_in (cur st') e /\ covers st st' /\
  (queue st' = queue st \/ queue st' = queue st ++ [cur st]).
Proof.
  unfold insert_cur. destruct (insert_gen (cur st) e) as [g|] eqn:E.
  - apply insert_gen_spec in E as [Hb [He Hk]]. cbn [holds progress cur queue].
    split; [reflexivity|]. split; [reflexivity|]. split; [exact He|]. split; [|left; reflexivity].
    intros g0 e0 [<-|Hq] H0; [exists g; split; [left; reflexivity|apply Hk; exact H0]|exists g0; split; [right; exact Hq|exact H0]].
  - destruct (insert_gen_empty (g_bits (cur st) + 1) e) as [g' Hg']. cbn zeta. unfold grow. cbn [cur queue progress holds]. rewrite Hg'.
    apply insert_gen_spec in Hg' as [Hb [He Hk]]. cbn [holds progress cur queue].
    split; [reflexivity|]. split; [reflexivity|]. split; [exact He|]. split; [|right; reflexivity].
    intros g0 e0 Hg0 H0. exists g0. split; [|exact H0]. right. apply in_or_app. destruct Hg0 as [<-|Hq]; [right; left; reflexivity|left; exact Hq].
Qed.

(* ---- searching ---- *)
Lemma find_slot_some (l : list slot) : forall i ok j e, find_slot l i ok = Some (j, e) ->
  (i <= j)%nat /\ nth_error l (j - i) = Some (Some e) /\ ok e = true.
Proof.
  induction l as [|[x|] l IH]; intros i ok j e H; cbn in H; try discriminate.
  - destruct (ok x) eqn:Ex.
    + injection H as <- <-. split; [lia|]. rewrite Nat.sub_diag. split; [reflexivity|exact Ex].
    + apply IH in H as [H1 [H2 H3]]. split; [lia|]. replace (j - i)%nat with (S (j - S i)) by lia. split; assumption.
  - apply IH in H as [H1 [H2 H3]]. split; [lia|]. replace (j - i)%nat with (S (j - S i)) by lia. split; assumption.
Qed.
Lemma find_slot_none (l : list slot) : forall i ok, find_slot l i ok = None ->
  forall j e, nth_error l j = Some (Some e) -> ok e = false.
Proof.
  induction l as [|[x|] l IH]; intros i ok H j e Hj; [destruct j; discriminate| |].
  - cbn in H. destruct (ok x) eqn:Ex; [discriminate|]. destruct j as [|j]; cbn in Hj; [injection Hj as <-; exact Ex|exact (IH _ _ H j e Hj)].
  - cbn in H. destruct j as [|j]; cbn in Hj; [discriminate|exact (IH _ _ H j e Hj)].
Qed.

Definition okb (hs : list (N * N)) (key known : N) (e : ientry) : bool :=
  (e_known e =? known) && match alookup hs (e_addr e) with Some k => k =? key | None => false end.
Lemma okb_true hs key known e : okb hs key known e = true <-> e_known e = known /\ alookup hs (e_addr e) = Some key.
Proof.
  unfold okb. rewrite andb_true_iff, N.eqb_eq. destruct (alookup hs (e_addr e)) as [k|].
  - rewrite N.eqb_eq. split; intros [H1 H2]; split; congruence.
  - split; intros [H1 H2]; discriminate.
Qed.

Lemma search_gen_some hs g key known i a : search_gen hs g key known = Some (i, a) ->
  exists e, nth_error (get_page g (page_of (g_bits g) known)) i = Some (Some e) /\ e_known e = known /\ e_addr e = a /\ alookup hs a = Some key.
Proof.
  unfold search_gen. fold (okb hs key known).
  destruct (find_slot _ 0 (okb hs key known)) as [[j e]|] eqn:E; [|discriminate]. intros H. injection H as <- <-.
  apply find_slot_some in E as [_ [Hn Hok]]. rewrite Nat.sub_0_r in Hn. apply okb_true in Hok as [H1 H2].
  exists e. repeat split; assumption.
Qed.
Lemma search_gen_none hs g key known : search_gen hs g key known = None ->
  forall e, entry_in g e -> e_known e = known -> alookup hs (e_addr e) <> Some key.
Proof.
  unfold search_gen. fold (okb hs key known).
  destruct (find_slot _ 0 (okb hs key known)) as [[j e]|] eqn:E; [discriminate|]. intros _ e [j Hj] Hk Hh.
  rewrite Hk in Hj. pose proof (find_slot_none _ _ _ E j e Hj) as Hf.
  assert (Ht : okb hs key known e = true) by (apply okb_true; split; assumption). rewrite Ht in Hf. discriminate.
Qed.

Lemma search_queue_some hs q : forall n key known gi i a, search_queue hs q n key known = Some (gi, i, a) ->
  exists g, (n <= gi)%nat /\ nth_error q (gi - n) = Some g /\ search_gen hs g key known = Some (i, a).
Proof.
  induction q as [|g q IH]; intros n key known gi i a H; cbn in H; [discriminate|].
  destruct (search_gen hs g key known) as [[j b]|] eqn:E.
  - injection H as <- <- <-. exists g. split; [lia|]. rewrite Nat.sub_diag. split; [reflexivity|exact E].
  - apply IH in H as [g' [H1 [H2 H3]]]. exists g'. split; [lia|]. replace (gi - n)%nat with (S (gi - S n)) by lia. split; assumption.
Qed.
Lemma search_queue_none hs q : forall n key known, search_queue hs q n key known = None ->
  forall g, In g q -> search_gen hs g key known = None.
Proof.
  induction q as [|g q IH]; intros n key known H g0 Hg; [destruct Hg|]. cbn in H.
  destruct (search_gen hs g key known) as [[j b]|] eqn:E; [discriminate|].
  destruct Hg as [<-|Hg]; [exact E|exact (IH _ _ _ H g0 Hg)].
Qed.

(* what a successful search says *)
Lemma search_all_some st key known gi i a : search_all st key known = Some (gi, i, a) ->
  alookup (holds st) a = Some key /\
  exists g e, nth_error (gens st) gi = Some g /\ nth_error (get_page g (page_of (g_bits g) known)) i = Some (Some e) /\
              e_known e = known /\ e_addr e = a.
Proof.
  unfold search_all. destruct (search_gen (holds st) (cur st) key known) as [[j b]|] eqn:E.
  - intros H. injection H as <- <- <-. apply search_gen_some in E as [e [H1 [H2 [H3 H4]]]]. split; [exact H4|].
    exists (cur st), e. repeat split; assumption.
  - intros H. apply search_queue_some in H as [g [H1 [H2 H3]]]. apply search_gen_some in H3 as [e [H4 [H5 [H6 H7]]]].
    split; [exact H7|]. exists g, e. split; [|repeat split; assumption].
    destruct gi as [|gi]; [lia|]. cbn [gens nth_error]. replace (S gi - 1)%nat with gi in H2 by lia. exact H2.
Qed.
Lemma search_all_none st key known : search_all st key known = None ->
  forall g e, In g (gens st) -> entry_in g e -> e_known e = known -> alookup (holds st) (e_addr e) <> Some key.
Proof.
  unfold search_all. destruct (search_gen (holds st) (cur st) key known) as [[j b]|] eqn:E; [discriminate|].
  intros H g e [<-|Hg] He Hk; [exact (search_gen_none _ _ _ _ E e He Hk)|].
  exact (search_gen_none _ _ _ _ (search_queue_none _ _ _ _ _ H g Hg) e He Hk).
Qed.

Lemma classic_nth (q : list igen) n g : nth_error q n = Some g \/ nth_error q n <> Some g.
Proof.
  destruct (nth_error q n) as [x|]; [|right; discriminate].
  assert (D : {x = g} + {x <> g}).
  { decide equality; try apply N.eq_dec. decide equality. decide equality; [decide equality|apply N.eq_dec].
    decide equality. decide equality; apply N.eq_dec. }
  destruct D as [->|D]; [left; reflexivity|right; congruence].
Qed.

(* ---- the pages a reindex batch takes ---- *)
Lemma in_insert_sorted p l x : In x (insert_sorted p l) <-> x = p \/ In x l.
Proof.
  induction l as [|y l IH]; cbn; [intuition congruence|]. destruct (N.ltb_spec p y); [cbn; intuition congruence|].
  destruct (N.eqb_spec p y) as [->|]; cbn; [intuition congruence|]. rewrite IH. intuition congruence.
Qed.
Lemma sorted_insert_sorted p l : StronglySorted N.lt l -> StronglySorted N.lt (insert_sorted p l).
Proof.
  induction 1 as [|y l Hs IH Hy]; cbn; [repeat constructor|].
  destruct (N.ltb_spec p y) as [Hlt|Hge].
  - constructor; [constructor; assumption|]. constructor; [exact Hlt|]. rewrite Forall_forall in *. intros z Hz. specialize (Hy z Hz). lia.
  - destruct (N.eqb_spec p y) as [->|Hne]; [constructor; assumption|].
    constructor; [exact IH|]. rewrite Forall_forall in *. intros z Hz. apply in_insert_sorted in Hz as [->|Hz]; [lia|exact (Hy z Hz)].
Qed.

Lemma alookup_some_in {A} (l : list (N * A)) k v : alookup l k = Some v -> In k (map fst l).
Proof. induction l as [|[k' v'] l IH]; cbn; [discriminate|]. destruct (N.eqb_spec k' k) as [->|]; [left; reflexivity|right; exact (IH H)]. Qed.

Lemma entries_of_default : entries_of (repeat None nslots) = [].
Proof. induction nslots as [|n IH]; cbn; [reflexivity|exact IH]. Qed.
Lemma in_entries_of (s : list slot) e : In e (entries_of s) <-> exists i, nth_error s i = Some (Some e).
Proof.
  unfold entries_of. rewrite in_flat_map. split.
  - intros [[x|] [Hx He]]; [|destruct He]. destruct He as [<-|[]]. apply In_nth_error in Hx. exact Hx.
  - intros [i Hi]. exists (Some e). split; [eapply nth_error_In; exact Hi|left; reflexivity].
Qed.

Lemma pages_from_spec g from :
  StronglySorted N.lt (pages_from g from) /\
  forall p, In p (pages_from g from) <-> from <= p /\ nonempty_page g p = true.
Proof.
  unfold pages_from.
  assert (G : forall (l : list (N * list slot)) acc, StronglySorted N.lt acc ->
    let r := fold_left (fun acc (pe : N * list slot) => if (from <=? fst pe) && nonempty_page g (fst pe) then insert_sorted (fst pe) acc else acc) l acc in
    StronglySorted N.lt r /\ forall p, In p r <-> In p acc \/ (In p (map fst l) /\ from <= p /\ nonempty_page g p = true)).
  { induction l as [|pe l IH]; intros acc Hs; cbn [fold_left map].
    - split; [exact Hs|]. intros p. cbn. tauto.
    - destruct ((from <=? fst pe) && nonempty_page g (fst pe)) eqn:Ec.
      + destruct (IH (insert_sorted (fst pe) acc) (sorted_insert_sorted _ _ Hs)) as [H1 H2]. split; [exact H1|].
        intros p. rewrite H2, in_insert_sorted. apply andb_true_iff in Ec as [E1 E2]. apply N.leb_le in E1. cbn [In].
        split; [intros [[->|H]|H]; [right; tauto|tauto|tauto]|]. intros [H|[[<-|H] H3]]; tauto.
      + destruct (IH acc Hs) as [H1 H2]. split; [exact H1|]. intros p. rewrite H2. cbn [In].
        split; [tauto|]. intros [H|[[<-|H] [H3 H4]]]; try tauto. exfalso.
        apply andb_false_iff in Ec as [Ec|Ec]; [apply N.leb_gt in Ec; lia|congruence]. }
  destruct (G (g_pages g) [] (SSorted_nil _)) as [H1 H2]. split; [exact H1|].
  intros p. rewrite H2. split; [intros [[]|H]; tauto|]. intros [H3 H4]. right. split; [|tauto].
  unfold nonempty_page, get_page in H4. destruct (alookup (g_pages g) p) as [s0|] eqn:E; [eapply alookup_some_in; exact E|].
  rewrite entries_of_default in H4. discriminate.
Qed.

Lemma take_pages_spec g : forall ps n acc es next, StronglySorted N.lt ps -> take_pages g ps n acc = (es, next) ->
  (forall e, In e acc -> In e es) /\
  forall q, In q ps -> match next with None => True | Some p => q < p end -> forall e, In e (entries_of (get_page g q)) -> In e es.
Proof.
  induction ps as [|p0 r IH]; intros n acc es next Hs H; cbn [take_pages] in H.
  - injection H as <- <-. split; [tauto|]. intros q [].
  - inversion Hs as [|? ? Hs' Hp0]; subst.
    destruct (column_max_reindex_batch <=? n + N.of_nat (length (entries_of (get_page g p0)))).
    + injection H as <- <-. split; [intros e He; apply in_or_app; left; exact He|].
      intros q [<-|Hq] Hlt e He; [apply in_or_app; right; exact He|]. rewrite Forall_forall in Hp0. specialize (Hp0 q Hq). lia.
    + apply IH in H as [H1 H2]; [|exact Hs']. split; [intros e He; apply H1; apply in_or_app; left; exact He|].
      intros q [<-|Hq] Hlt e He; [apply H1; apply in_or_app; right; exact He|exact (H2 q Hq Hlt e He)].
Qed.

(* ---- the invariant ---- *)
Section Index.
Variable kn : N -> N.     (* the 50 leading prefix bits of every key *)

Definition bits_sorted (st : istate) : Prop := StronglySorted N.lt (map g_bits (queue st ++ [cur st])).
(* an entry in generation g is safe when g is not the one that will be dropped next, or when the reindex
   batches have not passed its page yet *)
Definition safe (st : istate) (g : igen) (known : N) : Prop :=
  match queue st with
  | [] => True
  | f :: _ => g_bits g <> g_bits f \/ progress st <= page_of (g_bits g) known
  end.
Definition witness (st : istate) (a k : N) : Prop :=
  exists g, In g (gens st) /\ entry_in g {| e_known := kn k; e_addr := a |} /\ safe st g (kn k).

Record Inv (st : istate) (sp : list (N * N)) : Prop := {
  inv_spec : forall a k, alookup (holds st) a = Some k <-> alookup sp k = Some a;
  inv_entry : forall a k, alookup (holds st) a = Some k -> witness st a k;
  inv_progress : queue st = [] -> progress st = 0;
  inv_bits : bits_sorted st }.

Lemma entry_in_page g e : entry_in g e -> exists i, nth_error (get_page g (page_of (g_bits g) (e_known e))) i = Some (Some e).
Proof. intros H; exact H. Qed.

(* ---- lookups ---- *)
Theorem lookup_held st sp k a : Inv st sp -> alookup sp k = Some a -> lookup st k (kn k) = Some a.
Proof.
  intros I Hs. apply (inv_spec _ _ I) in Hs. destruct (inv_entry _ _ I _ _ Hs) as [g [Hg [He _]]].
  unfold lookup. destruct (search_all st k (kn k)) as [[[gi i] b]|] eqn:E.
  - apply search_all_some in E as [Hb _]. f_equal.
    apply (inv_spec _ _ I) in Hb. apply (inv_spec _ _ I) in Hs. congruence.
  - exfalso. exact (search_all_none _ _ _ E g _ Hg He eq_refl Hs).
Qed.
Theorem lookup_absent st sp k : Inv st sp -> alookup sp k = None -> lookup st k (kn k) = None.
Proof.
  intros I Hs. unfold lookup. destruct (search_all st k (kn k)) as [[[gi i] b]|] eqn:E; [|reflexivity].
  apply search_all_some in E as [Hb _]. apply (inv_spec _ _ I) in Hb. congruence.
Qed.

(* ---- the spec: the address each key was last put at ---- *)
Definition spec_step (sp : list (N * N)) (o : iop) : list (N * N) :=
  match o with
  | ISet k _ a => aset sp k a
  | IRemove k _ => aremove sp k
  | _ => sp
  end.
(* a write names the key's own bits and an address no other key's value lives at (the allocator's contract) *)
Definition wf_op (sp : list (N * N)) (o : iop) : Prop :=
  match o with
  | ISet k known a => known = kn k /\ forall k', alookup sp k' = Some a -> k' = k
  | IRemove k known => known = kn k
  | _ => True
  end.

(* ---- one state extends another: every generation is still there (same bits, same place relative to the
   front), with all its entries except possibly those whose address is [dead] ---- *)
Definition ext (st st' : istate) (dead : N -> Prop) : Prop :=
  (forall g, In g (gens st) -> exists g', In g' (gens st') /\ g_bits g' = g_bits g /\
      forall e, entry_in g e -> ~ dead (e_addr e) -> entry_in g' e) /\
  progress st' = progress st /\
  (forall f r, queue st = f :: r -> exists f' r', queue st' = f' :: r' /\ g_bits f' = g_bits f).

Lemma witness_ext st st' dead a k : ext st st' dead -> (queue st = [] -> progress st = 0) ->
  witness st a k -> ~ dead a -> witness st' a k.
Proof.
  intros [Hg [Hp Hf]] Hq [g [Hin [He Hs]]] Hd. destruct (Hg g Hin) as [g' [Hin' [Hb Hk]]].
  exists g'. split; [exact Hin'|]. split; [apply Hk; [exact He|exact Hd]|].
  unfold safe in *. destruct (queue st) as [|f r] eqn:Eq.
  - destruct (queue st') as [|f' r']; [exact I|]. right. rewrite Hp, (Hq eq_refl). apply N.le_0_l.
  - destruct (Hf f r eq_refl) as [f' [r' [-> Hbf]]]. rewrite Hb, Hbf, Hp. exact Hs.
Qed.

Lemma ext_refl st : ext st st (fun _ => False).
Proof.
  split; [|split; [reflexivity|]].
  - intros g Hg. exists g. repeat split; [exact Hg|]. intros e He _. exact He.
  - intros f r ->. exists f, r. split; reflexivity.
Qed.

(* insert_cur extends *)
Lemma insert_cur_ext st e : ext st (insert_cur st e) (fun _ => False) /\ entry_in (cur (insert_cur st e)) e /\ holds (insert_cur st e) = holds st.
Proof.
  unfold insert_cur. destruct (insert_gen (cur st) e) as [g|] eqn:E.
  - apply insert_gen_spec in E as [Hb [He Hk]]. cbn [holds cur]. split; [|split; [exact He|reflexivity]].
    split; [|split; [reflexivity|]].
    + intros g0 [<-|Hq].
      * exists g. split; [left; reflexivity|]. split; [exact Hb|]. intros e0 H0 _. apply Hk. exact H0.
      * exists g0. split; [right; exact Hq|]. split; [reflexivity|]. intros e0 H0 _. exact H0.
    + cbn [queue]. intros f r ->. exists f, r. split; reflexivity.
  - destruct (insert_gen_empty (g_bits (cur st) + 1) e) as [g' Hg']. cbn zeta. unfold grow. cbn [cur queue progress holds]. rewrite Hg'.
    apply insert_gen_spec in Hg' as [Hb [He Hk]]. cbn [holds cur]. split; [|split; [exact He|reflexivity]].
    split; [|split; [reflexivity|]].
    + intros g0 Hg0. exists g0. split; [|split; [reflexivity|intros e0 H0 _; exact H0]].
      right. cbn [queue]. apply in_or_app. destruct Hg0 as [<-|Hq]; [right; left; reflexivity|left; exact Hq].
    + cbn [queue]. intros f r ->. exists f, (r ++ [cur st]). split; reflexivity.
Qed.

Lemma sorted_app_last (l : list N) x : StronglySorted N.lt l -> (forall y, In y l -> y < x) -> StronglySorted N.lt (l ++ [x]).
Proof.
  induction 1 as [|a l Hs IH Ha]; intros Hx; cbn; [constructor; constructor|].
  constructor; [apply IH; intros y Hy; apply Hx; right; exact Hy|].
  apply Forall_app. split; [exact Ha|]. constructor; [apply Hx; left; reflexivity|constructor].
Qed.
Lemma sorted_last_max (l : list N) x : StronglySorted N.lt (l ++ [x]) -> forall y, In y l -> y < x.
Proof.
  induction l as [|a l IH]; intros Hs y Hy; [destruct Hy|]. cbn in Hs. inversion Hs as [|? ? Hs' Ha]; subst.
  destruct Hy as [<-|Hy]; [|exact (IH Hs' y Hy)]. rewrite Forall_forall in Ha. apply Ha. apply in_or_app. right. left. reflexivity.
Qed.

Lemma insert_cur_bits st e : bits_sorted st -> bits_sorted (insert_cur st e).
Proof.
  unfold bits_sorted, insert_cur. intros H. destruct (insert_gen (cur st) e) as [g|] eqn:E.
  - apply insert_gen_spec in E as [Hb _]. cbn [queue cur]. rewrite map_app in *. cbn [map] in *. rewrite Hb. exact H.
  - destruct (insert_gen_empty (g_bits (cur st) + 1) e) as [g' Hg']. cbn zeta. unfold grow. cbn [cur queue progress holds]. rewrite Hg'.
    apply insert_gen_spec in Hg' as [Hb _]. cbn [queue cur]. rewrite map_app. cbn [map]. rewrite Hb. cbn [g_bits].
    apply sorted_app_last; [exact H|]. intros y Hy. rewrite map_app in Hy, H. cbn [map] in Hy, H.
    apply in_app_or in Hy as [Hy|[<-|[]]]; [|lia]. pose proof (sorted_last_max _ _ H y Hy). lia.
Qed.
Lemma insert_cur_progress st e : (queue st = [] -> progress st = 0) -> queue (insert_cur st e) = [] -> progress (insert_cur st e) = 0.
Proof.
  unfold insert_cur. intros Hq. destruct (insert_gen (cur st) e) as [g|]; cbn [queue progress]; [exact Hq|].
  destruct (insert_gen_empty (g_bits (cur st) + 1) e) as [g' Hg']. cbn zeta. unfold grow. cbn [cur queue progress holds]. rewrite Hg'. cbn [queue].
  intros H. destruct (queue st); discriminate.
Qed.


Lemma cur_not_front st : bits_sorted st -> forall f r, queue st = f :: r -> g_bits (cur st) <> g_bits f.
Proof.
  unfold bits_sorted. intros H f r Hq. rewrite Hq, map_app in H. cbn [map] in H.
  pose proof (sorted_last_max _ _ H (g_bits f) (or_introl eq_refl)). lia.
Qed.
Lemma safe_cur st known : bits_sorted st -> safe st (cur st) known.
Proof. intros H. unfold safe. destruct (queue st) as [|f r] eqn:E; [exact I|]. left. exact (cur_not_front _ H f r E). Qed.

(* rewriting or clearing one slot: everything else in the generation stays *)
Lemma set_slot_keeps g p i x e0 old :
  nth_error (get_page g p) i = Some (Some old) -> entry_in g e0 -> e_addr e0 <> e_addr old ->
  entry_in (set_page g p (set_nth_slot (get_page g p) i x)) e0.
Proof.
  intros Hold [j Hj] Hne. unfold entry_in. rewrite bits_set_page.
  destruct (N.eq_dec (page_of (g_bits g) (e_known e0)) p) as [Hp|Hp].
  - rewrite Hp, get_set_page_eq. exists j. rewrite nth_set_nth_slot_neq; [rewrite <- Hp; exact Hj|].
    intros ->. rewrite Hp, Hold in Hj. injection Hj as <-. contradiction.
  - rewrite get_set_page_neq by exact Hp. exists j. exact Hj.
Qed.

Lemma aset_same {A} (l : list (N * A)) k v : alookup l k = Some v -> forall k', alookup (aset l k v) k' = alookup l k'.
Proof. intros H k'. destruct (N.eq_dec k' k) as [->|Hne]; [rewrite alookup_aset_eq; symmetry; exact H|apply alookup_aset_neq; exact Hne]. Qed.

(* the maps after a key moved from a0 (if it had an address) to a *)
Lemma spec_after_move hs sp k a (a0 : option N) :
  (forall x k', alookup hs x = Some k' <-> alookup sp k' = Some x) ->
  (forall k', alookup sp k' = Some a -> k' = k) ->
  match a0 with Some a0 => alookup hs a0 = Some k | None => forall x, alookup hs x <> Some k end ->
  let hs' := aset (match a0 with Some a0 => aremove hs a0 | None => hs end) a k in
  forall x k', alookup hs' x = Some k' <-> alookup (aset sp k a) k' = Some x.
Proof.
  intros HS Hfresh H0 hs' x k'. unfold hs'.
  destruct (N.eq_dec x a) as [->|Hxa].
  - rewrite alookup_aset_eq. destruct (N.eq_dec k' k) as [->|Hk].
    + rewrite alookup_aset_eq. split; reflexivity.
    + rewrite alookup_aset_neq by exact Hk. split; [intros H; injection H as ->; contradiction|].
      intros H. apply Hfresh in H. contradiction.
  - rewrite alookup_aset_neq by exact Hxa. destruct (N.eq_dec k' k) as [->|Hk].
    + rewrite alookup_aset_eq. split; [|intros H; injection H as ->; contradiction].
      intros H. exfalso. destruct a0 as [a0|].
      * destruct (N.eq_dec x a0) as [->|Hx0]; [rewrite alookup_aremove_eq in H; discriminate|].
        rewrite alookup_aremove_neq in H by exact Hx0. apply HS in H. apply HS in H0. congruence.
      * exact (H0 x H).
    + rewrite alookup_aset_neq by exact Hk. destruct a0 as [a0|]; [|apply HS].
      destruct (N.eq_dec x a0) as [->|Hx0].
      * rewrite alookup_aremove_eq. split; [discriminate|]. intros H. apply HS in H. congruence.
      * rewrite alookup_aremove_neq by exact Hx0. apply HS.
Qed.

Lemma with_holds_ext st hs : ext st {| cur := cur st; queue := queue st; progress := progress st; holds := hs |} (fun _ => False).
Proof.
  split; [|split; [reflexivity|]].
  - intros g Hg. exists g. repeat split; [exact Hg|]. intros e He _. exact He.
  - cbn [queue]. intros f r ->. exists f, r. split; reflexivity.
Qed.
Lemma ext_trans a b c d1 d2 : ext a b d1 -> ext b c d2 -> ext a c (fun x => d1 x \/ d2 x).
Proof.
  intros [G1 [P1 F1]] [G2 [P2 F2]]. split; [|split; [congruence|]].
  - intros g Hg. destruct (G1 g Hg) as [g1 [H1 [B1 K1]]]. destruct (G2 g1 H1) as [g2 [H2 [B2 K2]]].
    exists g2. split; [exact H2|]. split; [congruence|]. intros e He Hd. apply K2; [apply K1; [exact He|tauto]|tauto].
  - intros f r Hq. destruct (F1 f r Hq) as [f1 [r1 [Hq1 Hb1]]]. destruct (F2 f1 r1 Hq1) as [f2 [r2 [Hq2 Hb2]]].
    exists f2, r2. split; [exact Hq2|congruence].
Qed.

(* a key is written: new, in place, or moved *)
Lemma op_set_inv st sp k a : Inv st sp -> (forall k', alookup sp k' = Some a -> k' = k) ->
  Inv (op_set st k (kn k) a) (aset sp k a).
Proof.
  intros I Hfresh. unfold op_set. destruct (search_all st k (kn k)) as [[[gi i] a0]|] eqn:E.
  - pose proof (search_all_some _ _ _ _ _ _ E) as [Hh [g [e [Hg [Hslot [Hek Hea]]]]]].
    destruct (N.eqb_spec a0 a) as [->|Hne].
    { (* in place *)
      assert (Hsame : forall k', alookup (aset sp k a) k' = alookup sp k') by (apply aset_same; apply (inv_spec _ _ I); exact Hh).
      constructor; [|exact (inv_entry _ _ I)|exact (inv_progress _ _ I)|exact (inv_bits _ _ I)].
      intros x k'. rewrite Hsame. apply (inv_spec _ _ I). }
    set (hs' := aset (aremove (holds st) a0) a k).
    assert (HS : forall x k', alookup hs' x = Some k' <-> alookup (aset sp k a) k' = Some x).
    { apply (spec_after_move (holds st) sp k a (Some a0)); [exact (inv_spec _ _ I)|exact Hfresh|exact Hh]. }
    assert (Hold : forall x k', alookup hs' x = Some k' -> x <> a -> alookup (holds st) x = Some k' /\ x <> a0).
    { intros x k' H Hx. unfold hs' in H. rewrite alookup_aset_neq in H by exact Hx.
      destruct (N.eq_dec x a0) as [->|Hx0]; [rewrite alookup_aremove_eq in H; discriminate|].
      rewrite alookup_aremove_neq in H by exact Hx0. split; assumption. }
    destruct gi as [|n].
    + (* found in the current generation: the slot is rewritten *)
      cbn [gens nth_error] in Hg. injection Hg as <-.
      set (p := page_of (g_bits (cur st)) (kn k)) in *.
      set (ne := {| e_known := kn k; e_addr := a |}).
      set (st' := {| cur := set_page (cur st) p (set_nth_slot (get_page (cur st) p) i (Some ne)); queue := queue st; progress := progress st; holds := hs' |}).
      assert (Hext : ext st st' (fun x => x = a0)).
      { split; [|split; [reflexivity|]].
        - intros g0 [<-|Hq].
          + exists (cur st'). split; [left; reflexivity|]. split; [reflexivity|]. intros e0 H0 Hd.
            unfold st'. cbn [cur]. eapply set_slot_keeps; [exact Hslot|exact H0|]. rewrite Hea. exact Hd.
          + exists g0. split; [right; exact Hq|]. split; [reflexivity|]. intros e0 H0 _. exact H0.
        - intros f r Hq. exists f, r. split; [exact Hq|reflexivity]. }
      assert (Hb' : bits_sorted st').
      { pose proof (inv_bits _ _ I) as Hb. unfold bits_sorted in *. unfold st'. cbn [queue cur]. rewrite map_app in *. cbn [map] in *. exact Hb. }
      constructor; [exact HS| |exact (inv_progress _ _ I)|exact Hb'].
      intros x k' Hx. destruct (N.eq_dec x a) as [->|Hxa].
      * assert (k' = k) by (unfold st', hs' in Hx; cbn [holds] in Hx; rewrite alookup_aset_eq in Hx; congruence). subst k'.
        exists (cur st'). split; [left; reflexivity|]. split; [|apply safe_cur; exact Hb'].
        unfold entry_in, st'. cbn [cur e_known ne]. rewrite bits_set_page. fold p. rewrite get_set_page_eq.
        exists i. apply nth_set_nth_slot_eq. apply nth_error_Some. rewrite Hslot. discriminate.
      * destruct (Hold x k' Hx Hxa) as [Hx1 Hx0].
        apply (witness_ext st st' (fun y => y = a0)); [exact Hext|exact (inv_progress _ _ I)|exact (inv_entry _ _ I _ _ Hx1)|exact Hx0].
    + (* found in an older generation: a new entry in the current one *)
      set (st1 := {| cur := cur st; queue := queue st; progress := progress st; holds := hs' |}).
      set (ne := {| e_known := kn k; e_addr := a |}).
      destruct (insert_cur_ext st1 ne) as [Hext [Hne' Hhs]].
      assert (Hext0 : ext st (insert_cur st1 ne) (fun x => False \/ False)) by (eapply ext_trans; [apply (with_holds_ext st hs')|exact Hext]).
      assert (Hb' : bits_sorted (insert_cur st1 ne)) by (apply insert_cur_bits; exact (inv_bits _ _ I)).
      constructor; [rewrite Hhs; exact HS| |apply insert_cur_progress; exact (inv_progress _ _ I)|exact Hb'].
      intros x k' Hx. rewrite Hhs in Hx. cbn [holds st1] in Hx. destruct (N.eq_dec x a) as [->|Hxa].
      * assert (k' = k) by (unfold hs' in Hx; rewrite alookup_aset_eq in Hx; congruence). subst k'.
        exists (cur (insert_cur st1 ne)). split; [left; reflexivity|]. split; [exact Hne'|apply safe_cur; exact Hb'].
      * destruct (Hold x k' Hx Hxa) as [Hx1 Hx0].
        apply (witness_ext st _ _ _ _ Hext0 (inv_progress _ _ I) (inv_entry _ _ I _ _ Hx1)). tauto.
  - (* a key that has no value *)
    assert (Hnone : forall x, alookup (holds st) x <> Some k).
    { intros x Hx. destruct (inv_entry _ _ I _ _ Hx) as [g [Hg [He _]]]. exact (search_all_none _ _ _ E g _ Hg He eq_refl Hx). }
    set (hs' := aset (holds st) a k).
    assert (HS : forall x k', alookup hs' x = Some k' <-> alookup (aset sp k a) k' = Some x).
    { apply (spec_after_move (holds st) sp k a None); [exact (inv_spec _ _ I)|exact Hfresh|exact Hnone]. }
    set (st1 := {| cur := cur st; queue := queue st; progress := progress st; holds := hs' |}).
    set (ne := {| e_known := kn k; e_addr := a |}).
    destruct (insert_cur_ext st1 ne) as [Hext [Hne' Hhs]].
    assert (Hext0 : ext st (insert_cur st1 ne) (fun x => False \/ False)) by (eapply ext_trans; [apply (with_holds_ext st hs')|exact Hext]).
    assert (Hb' : bits_sorted (insert_cur st1 ne)) by (apply insert_cur_bits; exact (inv_bits _ _ I)).
    constructor; [rewrite Hhs; exact HS| |apply insert_cur_progress; exact (inv_progress _ _ I)|exact Hb'].
    intros x k' Hx. rewrite Hhs in Hx. cbn [holds st1] in Hx. destruct (N.eq_dec x a) as [->|Hxa].
    + assert (k' = k) by (unfold hs' in Hx; rewrite alookup_aset_eq in Hx; congruence). subst k'.
      exists (cur (insert_cur st1 ne)). split; [left; reflexivity|]. split; [exact Hne'|apply safe_cur; exact Hb'].
    + unfold hs' in Hx. rewrite alookup_aset_neq in Hx by exact Hxa.
      apply (witness_ext st _ _ _ _ Hext0 (inv_progress _ _ I) (inv_entry _ _ I _ _ Hx)). tauto.
Qed.


(* ---- removal ---- *)
Lemma map_nth_gen_bits q : forall n f, (forall g, g_bits (f g) = g_bits g) -> map g_bits (map_nth_gen q n f) = map g_bits q.
Proof. induction q as [|g q IH]; intros [|n] f Hf; cbn; try reflexivity; [rewrite Hf; reflexivity|rewrite IH by exact Hf; reflexivity]. Qed.
Lemma map_nth_gen_in q : forall n f g, In g q -> nth_error q n <> Some g -> In g (map_nth_gen q n f).
Proof.
  induction q as [|x q IH]; intros [|n] f g Hg Hn; cbn in *; try contradiction.
  - destruct Hg as [->|Hg]; [contradiction Hn; reflexivity|right; exact Hg].
  - destruct Hg as [->|Hg]; [left; reflexivity|right; apply IH; assumption].
Qed.
Lemma map_nth_gen_at q : forall n f g, nth_error q n = Some g -> In (f g) (map_nth_gen q n f).
Proof. induction q as [|x q IH]; intros [|n] f g H; cbn in *; try discriminate; [injection H as ->; left; reflexivity|right; apply IH; exact H]. Qed.
Lemma map_nth_gen_front q n f : forall x r, q = x :: r -> exists x' r', map_nth_gen q n f = x' :: r' /\ (g_bits x' = g_bits x \/ x' = f x).
Proof. intros x r ->. destruct n; cbn; eexists; eexists; split; try reflexivity; [right; reflexivity|left; reflexivity]. Qed.

Lemma spec_after_remove hs sp k a0 :
  (forall x k', alookup hs x = Some k' <-> alookup sp k' = Some x) -> alookup hs a0 = Some k ->
  forall x k', alookup (aremove hs a0) x = Some k' <-> alookup (aremove sp k) k' = Some x.
Proof.
  intros HS H0 x k'. destruct (N.eq_dec x a0) as [->|Hx].
  - rewrite alookup_aremove_eq. split; [discriminate|]. intros H. exfalso.
    destruct (N.eq_dec k' k) as [->|Hk]; [rewrite alookup_aremove_eq in H; discriminate|].
    rewrite alookup_aremove_neq in H by exact Hk. apply HS in H. congruence.
  - rewrite alookup_aremove_neq by exact Hx. destruct (N.eq_dec k' k) as [->|Hk].
    + rewrite alookup_aremove_eq. split; [|discriminate]. intros H. exfalso. apply HS in H. apply HS in H0. congruence.
    + rewrite alookup_aremove_neq by exact Hk. apply HS.
Qed.

Lemma op_remove_inv st sp k : Inv st sp -> Inv (op_remove st k (kn k)) (aremove sp k).
Proof.
  intros I. unfold op_remove. destruct (search_all st k (kn k)) as [[[gi i] a0]|] eqn:E.
  - pose proof (search_all_some _ _ _ _ _ _ E) as [Hh [g [e [Hg [Hslot [Hek Hea]]]]]].
    pose proof (spec_after_remove _ _ _ _ (inv_spec _ _ I) Hh) as HS.
    assert (Hold : forall x k', alookup (aremove (holds st) a0) x = Some k' -> alookup (holds st) x = Some k' /\ x <> a0).
    { intros x k' H. destruct (N.eq_dec x a0) as [->|Hx]; [rewrite alookup_aremove_eq in H; discriminate|].
      rewrite alookup_aremove_neq in H by exact Hx. split; assumption. }
    destruct gi as [|n].
    + cbn [gens nth_error] in Hg. injection Hg as <-.
      set (p := page_of (g_bits (cur st)) (kn k)) in *.
      set (st' := {| cur := clear_slot (cur st) p i; queue := queue st; progress := progress st; holds := aremove (holds st) a0 |}).
      assert (Hext : ext st st' (fun x => x = a0)).
      { split; [|split; [reflexivity|]].
        - intros g0 [<-|Hq].
          + exists (cur st'). split; [left; reflexivity|]. split; [reflexivity|]. intros e0 H0 Hd.
            unfold st', clear_slot. cbn [cur]. eapply set_slot_keeps; [exact Hslot|exact H0|]. rewrite Hea. exact Hd.
          + exists g0. split; [right; exact Hq|]. split; [reflexivity|]. intros e0 H0 _. exact H0.
        - intros f r Hq. exists f, r. split; [exact Hq|reflexivity]. }
      assert (Hb' : bits_sorted st').
      { pose proof (inv_bits _ _ I) as Hb. unfold bits_sorted in *. unfold st', clear_slot. cbn [queue cur]. rewrite map_app in *. cbn [map] in *. exact Hb. }
      constructor; [exact HS| |exact (inv_progress _ _ I)|exact Hb'].
      intros x k' Hx. destruct (Hold x k' Hx) as [Hx1 Hx0].
      apply (witness_ext st st' (fun y => y = a0)); [exact Hext|exact (inv_progress _ _ I)|exact (inv_entry _ _ I _ _ Hx1)|exact Hx0].
    + cbn [gens nth_error] in Hg.
      set (f := fun g0 : igen => clear_slot g0 (page_of (g_bits g0) (kn k)) i).
      set (st' := {| cur := cur st; queue := map_nth_gen (queue st) n f; progress := progress st; holds := aremove (holds st) a0 |}).
      assert (Hfb : forall g0, g_bits (f g0) = g_bits g0) by reflexivity.
      assert (Hext : ext st st' (fun x => x = a0)).
      { split; [|split; [reflexivity|]].
        - intros g0 [<-|Hq].
          + exists (cur st). split; [left; reflexivity|]. split; [reflexivity|]. intros e0 H0 _. exact H0.
          + destruct (classic_nth (queue st) n g0) as [Hn|Hn].
            * exists (f g0). split; [right; unfold st'; cbn [queue]; apply map_nth_gen_at; exact Hn|]. split; [reflexivity|].
              intros e0 H0 Hd. rewrite Hn in Hg. injection Hg as <-. unfold f, clear_slot.
              eapply set_slot_keeps; [exact Hslot|exact H0|]. rewrite Hea. exact Hd.
            * exists g0. split; [right; unfold st'; cbn [queue]; apply map_nth_gen_in; assumption|]. split; [reflexivity|]. intros e0 H0 _. exact H0.
        - intros x r Hq. unfold st'. cbn [queue]. destruct (map_nth_gen_front (queue st) n f x r Hq) as [x' [r' [Hm [Hb|Hfx]]]].
          + exists x', r'. split; assumption.
          + exists x', r'. split; [exact Hm|rewrite Hfx; reflexivity]. }
      assert (Hb' : bits_sorted st').
      { pose proof (inv_bits _ _ I) as Hb. unfold bits_sorted in *. unfold st'. cbn [queue cur]. rewrite map_app in *.
        rewrite map_nth_gen_bits by exact Hfb. exact Hb. }
      constructor; [exact HS| | |exact Hb'].
      * intros x k' Hx. destruct (Hold x k' Hx) as [Hx1 Hx0].
        apply (witness_ext st st' (fun y => y = a0)); [exact Hext|exact (inv_progress _ _ I)|exact (inv_entry _ _ I _ _ Hx1)|exact Hx0].
      * unfold st'. cbn [queue progress]. intros Hq. apply (inv_progress _ _ I). destruct (queue st) as [|x r]; [reflexivity|]. destruct n; discriminate.
  - (* a key without value: nothing happens *)
    assert (Hnone : alookup sp k = None).
    { destruct (alookup sp k) as [x|] eqn:Ex; [|reflexivity]. exfalso. apply (inv_spec _ _ I) in Ex.
      destruct (inv_entry _ _ I _ _ Ex) as [g [Hg [He _]]]. exact (search_all_none _ _ _ E g _ Hg He eq_refl Ex). }
    constructor; [|exact (inv_entry _ _ I)|exact (inv_progress _ _ I)|exact (inv_bits _ _ I)].
    intros x k'. destruct (N.eq_dec k' k) as [->|Hk].
    + rewrite alookup_aremove_eq. split; [|discriminate]. intros H. apply (inv_spec _ _ I) in H. congruence.
    + rewrite alookup_aremove_neq by exact Hk. apply (inv_spec _ _ I).
Qed.


(* ---- a reindex batch ---- *)
Lemma has_same_entry g e : has_same g e = true -> entry_in g e.
Proof.
  unfold has_same. intros H. apply existsb_exists in H as [[e'|] [Hin H]]; [|discriminate].
  apply andb_true_iff in H as [H1 H2]. apply N.eqb_eq in H1, H2.
  assert (e' = e) by (destruct e, e'; cbn in *; congruence). subst e'.
  apply In_nth_error in Hin. exact Hin.
Qed.

Lemma move_entry_spec st e : bits_sorted st -> (queue st = [] -> progress st = 0) ->
  let st' := move_entry st e in
  ext st st' (fun _ => False) /\ holds st' = holds st /\ bits_sorted st' /\ (queue st' = [] -> progress st' = 0) /\
  (exists extra, queue st' = queue st ++ extra) /\ entry_in (cur st') e.
Proof.
  intros Hb Hq. unfold move_entry. destruct (has_same (cur st) e) eqn:E.
  - split; [apply ext_refl|]. split; [reflexivity|]. split; [exact Hb|]. split; [exact Hq|]. split; [exists []; symmetry; apply app_nil_r|].
    apply has_same_entry. exact E.
  - destruct (insert_cur_ext st e) as [Hext [He Hh]]. split; [exact Hext|]. split; [exact Hh|].
    split; [apply insert_cur_bits; exact Hb|]. split; [apply insert_cur_progress; exact Hq|]. split; [|exact He].
    destruct (insert_cur_spec st e) as [_ [_ [_ [_ [Hq'|Hq']]]]]; rewrite Hq'; [exists []; symmetry; apply app_nil_r|eexists; reflexivity].
Qed.

Lemma ext_false_weaken a b d : ext a b (fun x => False \/ d x) -> ext a b d.
Proof.
  intros [G [P F]]. split; [|split; assumption]. intros g Hg. destruct (G g Hg) as [g' [H1 [H2 H3]]].
  exists g'. repeat split; try assumption. intros e He Hd. apply H3; [exact He|tauto].
Qed.

Lemma moves_spec : forall es st, bits_sorted st -> (queue st = [] -> progress st = 0) ->
  let st1 := fold_left move_entry es st in
  ext st st1 (fun _ => False) /\ holds st1 = holds st /\ bits_sorted st1 /\ progress st1 = progress st /\
  (exists extra, queue st1 = queue st ++ extra) /\
  forall e, In e es -> exists g', In g' (gens st1) /\ entry_in g' e /\ forall f r, queue st = f :: r -> g_bits g' <> g_bits f.
Proof.
  induction es as [|e es IH]; intros st Hb Hq; cbn [fold_left].
  - split; [apply ext_refl|]. split; [reflexivity|]. split; [exact Hb|]. split; [reflexivity|]. split; [exists []; symmetry; apply app_nil_r|]. intros e [].
  - destruct (move_entry_spec st e Hb Hq) as [Hext [Hh [Hb1 [Hq1 [[extra Hqu] He]]]]].
    destruct (IH (move_entry st e) Hb1 Hq1) as [Hext2 [Hh2 [Hb2 [Hp2 [[extra2 Hqu2] Hes]]]]].
    split; [apply ext_false_weaken; eapply ext_trans; eassumption|]. split; [congruence|]. split; [exact Hb2|].
    split; [destruct Hext as [_ [Hp _]]; congruence|]. split; [exists (extra ++ extra2); rewrite Hqu2, Hqu, app_assoc; reflexivity|].
    intros e0 [<-|Hin].
    + destruct Hext2 as [G _]. destruct (G (cur (move_entry st e)) (or_introl eq_refl)) as [g' [Hg' [Hbits Hk]]].
      exists g'. split; [exact Hg'|]. split; [apply Hk; [exact He|tauto]|].
      intros f r Hf. rewrite Hbits. apply (cur_not_front _ Hb1 f (r ++ extra)). rewrite Hqu, Hf. reflexivity.
    + destruct (Hes e0 Hin) as [g' [Hg' [He0 Hne]]]. exists g'. split; [exact Hg'|]. split; [exact He0|].
      intros f r Hf. apply (Hne f (r ++ extra)). rewrite Hqu, Hf. reflexivity.
Qed.

(* generations are told apart by their bits *)
Lemma sorted_bits_inj (l : list igen) : StronglySorted N.lt (map g_bits l) -> forall x y, In x l -> In y l -> g_bits x = g_bits y -> x = y.
Proof.
  induction l as [|a l IH]; intros Hs x y Hx Hy Hb; [destruct Hx|]. cbn [map] in Hs. inversion Hs as [|? ? Hs' Ha]; subst.
  rewrite Forall_forall in Ha.
  destruct Hx as [<-|Hx], Hy as [<-|Hy]; [reflexivity| | |exact (IH Hs' x y Hx Hy Hb)].
  - assert (g_bits a < g_bits y) by (apply Ha; apply in_map; exact Hy). lia.
  - assert (g_bits a < g_bits x) by (apply Ha; apply in_map; exact Hx). lia.
Qed.

Lemma op_reindex_inv st sp : Inv st sp -> Inv (op_reindex st) sp.
Proof.
  intros I. unfold op_reindex. destruct (queue st) as [|g rest] eqn:Eq; [exact I|].
  destruct (take_pages g (pages_from g (progress st)) 0 []) as [es next] eqn:Et.
  destruct (pages_from_spec g (progress st)) as [Hsorted Hpages].
  destruct (take_pages_spec g _ _ _ _ _ Hsorted Et) as [_ Htaken].
  destruct (moves_spec es st (inv_bits _ _ I) (inv_progress _ _ I)) as [Hext [Hh [Hb1 [Hp1 [[extra Hqu] Hmoved]]]]].
  set (st1 := fold_left move_entry es st) in *.
  rewrite Eq in Hqu. cbn [app] in Hqu.
  (* an entry of the front generation at or above the old progress and below the new one was moved *)
  assert (Hfront_moved : forall e, entry_in g e -> progress st <= page_of (g_bits g) (e_known e) ->
            match next with None => True | Some p => page_of (g_bits g) (e_known e) < p end ->
            exists g', In g' (gens st1) /\ entry_in g' e /\ g_bits g' <> g_bits g).
  { intros e He Hge Hlt. set (q := page_of (g_bits g) (e_known e)) in *.
    assert (Hin : In e (entries_of (get_page g q))) by (apply in_entries_of; exact He).
    assert (Hq : In q (pages_from g (progress st))).
    { apply Hpages. split; [exact Hge|]. unfold nonempty_page. destruct (entries_of (get_page g q)); [destruct Hin|reflexivity]. }
    destruct (Hmoved e (Htaken q Hq Hlt e Hin)) as [g' [Hg' [He' Hne]]]. exists g'. split; [exact Hg'|]. split; [exact He'|].
    exact (Hne g rest Eq). }
  (* witnesses in st1, with the old progress *)
  assert (Hw1 : forall x k', alookup (holds st) x = Some k' -> witness st1 x k').
  { intros x k' Hx. apply (witness_ext st st1 (fun _ => False)); [exact Hext|exact (inv_progress _ _ I)|exact (inv_entry _ _ I _ _ Hx)|tauto]. }
  assert (Hb1' : StronglySorted N.lt (map g_bits (queue st1 ++ [cur st1]))) by exact Hb1.
  assert (Hgin : In g (gens st1)) by (right; rewrite Hqu; left; reflexivity).
  assert (Hperm : forall x, In x (gens st1) -> In x (queue st1 ++ [cur st1])).
  { intros x [<-|Hx]; apply in_or_app; [right; left; reflexivity|left; exact Hx]. }
  assert (Hinj : forall x, In x (gens st1) -> g_bits x = g_bits g -> x = g).
  { intros x Hx Hbx. apply (sorted_bits_inj _ Hb1'); [apply Hperm; exact Hx|apply Hperm; exact Hgin|exact Hbx]. }
  destruct next as [p|].
  - (* the batch stopped at page p *)
    constructor; cbn [holds queue progress cur].
    + rewrite Hh. exact (inv_spec _ _ I).
    + rewrite Hh. intros x k' Hx. destruct (Hw1 x k' Hx) as [g1 [Hg1 [He1 Hs1]]].
      unfold safe in Hs1. rewrite Hqu, Hp1 in Hs1.
      destruct (N.eq_dec (g_bits g1) (g_bits g)) as [Hbe|Hbne].
      * pose proof (Hinj g1 Hg1 Hbe) as ->. destruct Hs1 as [Hs1|Hs1]; [contradiction Hs1; reflexivity|].
        destruct (N.lt_ge_cases (page_of (g_bits g) (kn k')) p) as [Hlt|Hge].
        -- destruct (Hfront_moved _ He1 Hs1 Hlt) as [g' [Hg' [He' Hne]]].
           exists g'. split; [exact Hg'|]. split; [exact He'|]. unfold safe. cbn [queue]. rewrite Hqu. left. exact Hne.
        -- exists g. split; [exact Hgin|]. split; [exact He1|]. unfold safe. cbn [queue progress]. rewrite Hqu. right. exact Hge.
      * exists g1. split; [exact Hg1|]. split; [exact He1|]. unfold safe. cbn [queue]. rewrite Hqu. left. exact Hbne.
    + rewrite Hqu. discriminate.
    + exact Hb1.
  - (* the generation is exhausted: it is dropped *)
    constructor; cbn [holds queue progress cur].
    + rewrite Hh. exact (inv_spec _ _ I).
    + rewrite Hh. intros x k' Hx. destruct (Hw1 x k' Hx) as [g1 [Hg1 [He1 Hs1]]].
      unfold safe in Hs1. rewrite Hqu, Hp1 in Hs1.
      assert (Hkeep : forall g2, In g2 (gens st1) -> g_bits g2 <> g_bits g ->
                 In g2 (gens {| cur := cur st1; queue := tl (queue st1); progress := 0; holds := holds st1 |})).
      { intros g2 [<-|Hg2] Hne; [left; reflexivity|]. right. cbn [queue]. rewrite Hqu in *. cbn [tl].
        destruct Hg2 as [<-|Hg2]; [contradiction Hne; reflexivity|exact Hg2]. }
      assert (Hsafe0 : forall g2 known, safe {| cur := cur st1; queue := tl (queue st1); progress := 0; holds := holds st1 |} g2 known).
      { intros g2 known. unfold safe. cbn [queue progress]. destruct (tl (queue st1)); [exact Logic.I|right; apply N.le_0_l]. }
      destruct (N.eq_dec (g_bits g1) (g_bits g)) as [Hbe|Hbne].
      * pose proof (Hinj g1 Hg1 Hbe) as ->. destruct Hs1 as [Hs1|Hs1]; [contradiction Hs1; reflexivity|].
        destruct (Hfront_moved _ He1 Hs1 Logic.I) as [g' [Hg' [He' Hne]]].
        exists g'. split; [apply Hkeep; assumption|]. split; [exact He'|apply Hsafe0].
      * exists g1. split; [apply Hkeep; assumption|]. split; [exact He1|apply Hsafe0].
    + reflexivity.
    + unfold bits_sorted in *. cbn [queue cur]. rewrite Hqu in Hb1 |- *. cbn [tl app map] in Hb1 |- *. inversion Hb1; assumption.
Qed.

Lemma op_restart_inv st sp : Inv st sp -> Inv (op_restart st) sp.
Proof.
  intros I. constructor; cbn [op_restart holds queue progress cur].
  - exact (inv_spec _ _ I).
  - intros x k' Hx. destruct (inv_entry _ _ I _ _ Hx) as [g [Hg [He Hs]]]. exists g. split; [exact Hg|]. split; [exact He|].
    unfold safe, op_restart in *. cbn [queue progress] in *. destruct (queue st); [exact Logic.I|]. destruct Hs as [Hs|Hs]; [left; exact Hs|right; apply N.le_0_l].
  - reflexivity.
  - exact (inv_bits _ _ I).
Qed.

(* ---- every history ---- *)
Lemma istep_inv st sp o : Inv st sp -> wf_op sp o -> Inv (istep st o) (spec_step sp o).
Proof.
  intros I Hw. destruct o as [k known a|k known| |]; cbn [istep spec_step wf_op] in *.
  - destruct Hw as [-> Hf]. apply op_set_inv; assumption.
  - subst known. apply op_remove_inv; assumption.
  - apply op_reindex_inv; assumption.
  - apply op_restart_inv; assumption.
Qed.

Lemma iinit_inv : Inv iinit [].
Proof.
  constructor; cbn.
  - intros a k. split; discriminate.
  - intros a k H. discriminate.
  - reflexivity.
  - unfold bits_sorted. cbn. repeat constructor.
Qed.

Fixpoint wf_run (sp : list (N * N)) (ops : list iop) : Prop :=
  match ops with
  | [] => True
  | o :: r => wf_op sp o /\ wf_run (spec_step sp o) r
  end.

Theorem index_follows_spec : forall ops st sp, Inv st sp -> wf_run sp ops ->
  Inv (fold_left istep ops st) (fold_left spec_step ops sp).
Proof.
  induction ops as [|o ops IH]; intros st sp I Hw; cbn [fold_left]; [exact I|].
  destruct Hw as [Hw1 Hw2]. apply IH; [apply istep_inv; assumption|exact Hw2].
Qed.

(* Whatever the history: a key that has a value is found at the address its value was last put at, a key
   without value is not found. *)
Theorem lookup_is_spec ops : wf_run [] ops ->
  forall k, lookup (fold_left istep ops iinit) k (kn k) = alookup (fold_left spec_step ops []) k.
Proof.
  intros Hw k. pose proof (index_follows_spec ops iinit [] iinit_inv Hw) as I.
  destruct (alookup (fold_left spec_step ops []) k) as [a|] eqn:E; [eapply lookup_held; eassumption|eapply lookup_absent; eassumption].
Qed.

End Index.
